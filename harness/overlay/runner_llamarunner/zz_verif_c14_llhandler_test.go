package llamarunner

// C14, llamarunner one level up: what the CLIENT receives from llamarunner's own `(*Server).completion` HTTP handler.
// The REAL handler is called with the JSON body the llm/server.go client sends (llm.CompletionRequest: prompt,
// options num_predict / stop / temperature 0 …); it tokenises the prompt with llama.cpp, builds the sampling context,
// creates the Sequence (NewSequence, semaphore, LoadCacheSlot) and streams JSON lines into an httptest recorder while the
// real processBatch runs once per token on the real llama.cpp context (generated GGUF model, see
// zz_verif_c14_loop_test.go).  The prompt is one marker character: the vocabulary holds a token for it whose greedy
// continuation is the first token of the case's script (up to 26 cases per model).  Everything runs in a
// testing/synctest bubble so that "the handler has written everything it can" is observed deterministically.
//
// Same oracle command (`handler`), same canonical lines and the same L2 monitors as the ollamarunner handler driver;
// llamarunner reports `eval_count = seq.numDecoded`.
//
// Added with `go test -overlay`; never committed to /repo.

import (
	"bytes"
	"context"
	"encoding/json"
	"errors"
	"fmt"
	"net/http/httptest"
	"os"
	"sort"
	"strconv"
	"strings"
	"testing"
	"testing/synctest"
	"unicode/utf8"

	"github.com/ollama/ollama/api"
	"github.com/ollama/ollama/llama"
	"github.com/ollama/ollama/llm"
	"github.com/ollama/ollama/zzverif"
)

type vhCase struct {
	vlCase
	calls  int    // > 0: the client goes away after that many calls of processBatch
	prompt string // one capital letter
}

type vhResult struct {
	status    int
	lines     []string
	chunks    []string
	final     bool
	reason    int
	eval      int
	prompt    int
	pending   []string
	np        int
	consumed  int
	malformed string
	promptLen int
}

func vhCanonLine(raw []byte, res *vhResult) string {
	var m map[string]any
	dec := json.NewDecoder(bytes.NewReader(raw))
	dec.UseNumber()
	if err := dec.Decode(&m); err != nil {
		res.malformed = string(raw)
		return "malformed"
	}
	num := func(k string) int {
		if v, ok := m[k].(json.Number); ok {
			n, _ := v.Int64()
			return int(n)
		}
		return 0
	}
	known := map[string]bool{"content": true, "done_reason": true, "done": true, "prompt_eval_count": true,
		"prompt_eval_duration": true, "eval_count": true, "eval_duration": true}
	var extra []string
	for k, v := range m {
		if !known[k] {
			extra = append(extra, fmt.Sprintf("%s=%v", k, v))
		}
	}
	sort.Strings(extra)
	content, _ := m["content"].(string)
	done, _ := m["done"].(bool)
	var sb strings.Builder
	if done {
		res.final = true
		res.reason = num("done_reason")
		res.eval = num("eval_count")
		res.prompt = num("prompt_eval_count")
		fmt.Fprintf(&sb, "| done=true done_reason=%d eval_count=%d prompt_eval_count=%d", res.reason, res.eval, res.prompt)
		if content != "" {
			fmt.Fprintf(&sb, " content=%s", zzverif.Hex([]byte(content)))
			res.chunks = append(res.chunks, content)
		}
	} else {
		fmt.Fprintf(&sb, "| content=%s", zzverif.Hex([]byte(content)))
		res.chunks = append(res.chunks, content)
		for _, k := range []string{"done_reason", "prompt_eval_count", "eval_count"} {
			if num(k) != 0 {
				fmt.Fprintf(&sb, " %s=%d", k, num(k))
			}
		}
	}
	for _, e := range extra {
		sb.WriteString(" " + e)
	}
	return sb.String()
}

func (v *vlServer) vhRun(t *testing.T, c *vhCase) (res vhResult, err error) {
	s := v.s
	synctest.Test(t, func(t *testing.T) {
		opts := api.DefaultOptions()
		opts.Temperature = 0
		opts.NumPredict = c.limit
		opts.Stop = c.stops
		opts.NumKeep = 0
		body, e := json.Marshal(llm.CompletionRequest{Prompt: c.prompt, Options: &opts})
		if e != nil {
			err = e
			return
		}
		ctx, cancel := context.WithCancel(context.Background())
		defer cancel()
		req := httptest.NewRequest("POST", "/completion", bytes.NewReader(body)).WithContext(ctx)
		rec := httptest.NewRecorder()
		handlerDone := make(chan struct{})
		go func() {
			defer close(handlerDone)
			s.completion(rec, req)
		}()
		synctest.Wait() // the handler has installed its sequence and waits for chunks (or has returned an error)
		finished := func() bool {
			select {
			case <-handlerDone:
				return true
			default:
				return false
			}
		}
		if !finished() {
			seq := s.seqs[0]
			if seq == nil {
				err = errors.New("handler did not install a sequence")
				return
			}
			defer func() {
				if s.seqs[0] != nil { // cancelled / still running: take it out (minus the output) for the next case
					seq.cache.InUse = false
					s.seqs[0] = nil
					s.seqsSem.Release(1)
				}
			}()
			res.promptLen = seq.numPromptInputs
			if len(seq.inputs) == 0 || seq.inputs[len(seq.inputs)-1].token != c.start {
				err = fmt.Errorf("harness: prompt %q tokenised to %v, want last token %d", c.prompt, seq.inputs, c.start)
				return
			}
			for call := 1; ; call++ {
				b := v.batch
				if call > len(c.script) {
					b = v.zero // the script is exhausted: limit check only
				}
				np := seq.numPredicted
				perr := func() (perr error) {
					defer func() {
						if r := recover(); r != nil {
							perr = fmt.Errorf("panic: %v", r)
						}
					}()
					return s.processBatch(b, &llama.Batch{})
				}()
				v.batch.Clear()
				synctest.Wait() // the handler has consumed and written whatever was sent
				if perr != nil {
					err = perr
					return
				}
				res.consumed += seq.numPredicted - np
				if s.seqs[0] == nil {
					break
				}
				if call > len(c.script) || (c.calls > 0 && call >= c.calls) {
					cancel() // the client goes away
					synctest.Wait()
					break
				}
			}
			synctest.Wait()
			if !finished() {
				err = errors.New("handler did not return")
				return
			}
			res.np = seq.numPredicted
			res.pending = append([]string(nil), seq.pendingResponses...)
		}
		res.status = rec.Code
		res.lines = append(res.lines, fmt.Sprintf("status=%d", rec.Code))
		for _, raw := range bytes.Split(rec.Body.Bytes(), []byte("\n")) {
			if len(bytes.TrimSpace(raw)) == 0 {
				continue
			}
			res.lines = append(res.lines, vhCanonLine(raw, &res))
		}
	})
	return res, err
}

func vhLine(promptLen int, c *vhCase) string {
	rest := strings.TrimPrefix(vlLine(c.limit, c.stops, c.script), fmt.Sprintf("loop %d ", vlPinned))
	return fmt.Sprintf("handler %d %d %d %s", vlPinned, promptLen, c.calls, rest)
}

func vhParseLine(line string) (*vhCase, error) {
	toks := strings.Fields(line)
	if len(toks) < 7 || toks[0] != "handler" {
		return nil, errors.New("not a handler line")
	}
	calls, _ := strconv.Atoi(toks[3])
	limit, stops, script, err := vlParseLine("loop " + toks[1] + " " + strings.Join(toks[4:], " "))
	if err != nil {
		return nil, err
	}
	return &vhCase{vlCase: vlCase{limit: limit, stops: stops, script: script, skips: make([]int, len(script)+1)}, calls: calls}, nil
}

func vhCaseRun(t *testing.T, out *zzverif.Out, v *vlServer, c *vhCase) {
	res, err := v.vhRun(t, c)
	promptLen := max(res.promptLen, 1)
	line := vhLine(promptLen, c)
	out.Count("llama_handler_cases")
	if err != nil {
		out.Case(line, "err:"+strings.ReplaceAll(err.Error(), "\n", " "))
		out.L2("loop-error", line, "runner=llama handler "+err.Error())
		return
	}
	out.Case(line, strings.Join(res.lines, " "))
	if res.malformed != "" {
		out.L2("handler-malformed-line", line, fmt.Sprintf("runner=llama %q", res.malformed))
	}
	if res.status != 200 {
		out.L2("handler-status", line, fmt.Sprintf("runner=llama status=%d", res.status))
		return
	}
	view := vlResult{np: res.eval, chunks: res.chunks, pending: res.pending, consumed: res.consumed}
	switch {
	case !res.final:
		view.reason = "running"
		view.np = res.np
		out.Count("llama_handler_cancelled")
	case res.reason == int(llm.DoneReasonStop):
		view.reason = "stop"
	case res.reason == int(llm.DoneReasonLength):
		view.reason = "length"
	default:
		view.reason = "closed"
	}
	out.Count("llama_handler_reason_" + view.reason)
	if res.final {
		n := 0
		for _, l := range res.lines {
			if strings.HasPrefix(l, "| done=true") {
				n++
			}
		}
		if n != 1 || !strings.HasPrefix(res.lines[len(res.lines)-1], "| done=true") {
			out.L2("handler-final-object", line, fmt.Sprintf("runner=llama %d final objects, last line %q", n, res.lines[len(res.lines)-1]))
		}
		if res.eval != res.consumed {
			out.L2("handler-eval-count", line, fmt.Sprintf("runner=llama eval_count=%d tokens sampled=%d", res.eval, res.consumed))
		}
		if res.prompt != promptLen {
			out.L2("handler-prompt-count", line, fmt.Sprintf("runner=llama prompt_eval_count=%d prompt tokens=%d", res.prompt, promptLen))
		}
		if c.limit > 0 && res.consumed == c.limit {
			out.Count("llama_handler_end_at_limit")
		}
	} else if c.calls == 0 && len(c.script) > 0 && res.consumed < len(c.script) {
		out.L2("handler-no-final-object", line, "runner=llama sequence ended but no final object was written")
	}
	for _, ch := range res.chunks {
		if !utf8.ValidString(ch) {
			out.L2("chunk-invalid-utf8", line, fmt.Sprintf("runner=llama chunk=%x", ch))
		}
	}
	if c.calls > 0 && !res.final {
		return // cancelled mid-way: L1 (runN) says what the client holds
	}
	vlL2(out, line, c.stops, c.script, view)
}

// directed generator (as for the ollamarunner handler): the terminating event (EOS, or the token completing a stop string)
// is token number j; the limit is j-1, j, j+1 (or far away / none)
func vhGen(r *zzverif.Rng) *vhCase {
	c := &vhCase{}
	if r.Chance(1, 3) {
		g := vlGenCase(r)
		c.limit, c.script = g.limit, g.script
		for _, st := range g.stops {
			if utf8.ValidString(st) { // stops travel through JSON
				c.stops = append(c.stops, st)
			}
		}
	} else {
		text := vlGenText(r, r.Pick3(0, 6, 16))
		for _, p := range vlSplit(r, text, r.Chance(1, 3)) {
			c.script = append(c.script, vlEv{piece: p})
		}
		j := len(c.script) + 1
		switch r.Intn(3) {
		case 0:
			c.script = append(c.script, vlEv{eos: true})
		case 1:
			c.stops = []string{zzverif.Pick(r, []string{"END", "\n\n", "}", "<|e|>", "停"})}
			c.script = append(c.script, vlEv{piece: c.stops[0] + zzverif.Pick(r, []string{"", "x", " more"})}, vlEv{piece: "after"}, vlEv{eos: true})
		default:
			st := zzverif.Pick(r, []string{"END", "<|e|>", "stop!", "日本"})
			c.stops = []string{st, "zz"}
			k := r.Range(1, len(st)-1)
			c.script = append(c.script, vlEv{piece: st[:k]})
			if k+1 < len(st) && r.Bool() {
				c.script = append(c.script, vlEv{piece: st[k : k+1]}, vlEv{piece: st[k+1:] + "t"})
				j += 2
			} else {
				c.script = append(c.script, vlEv{piece: st[k:]})
				j++
			}
			c.script = append(c.script, vlEv{piece: "after"}, vlEv{eos: true})
		}
		c.limit = zzverif.Pick(r, []int{j - 1, j, j, j, j + 1, j + 1, 0, -1, j + 7})
	}
	if r.Chance(1, 8) && len(c.script) > 0 {
		c.calls = r.Range(1, len(c.script))
	}
	c.skips = make([]int, len(c.script)+1)
	return c
}

// prompt markers: characters no generated piece or stop contains (llama.cpp's tokenizer takes the longest match)
const vhMarkers = "0123456789@#$%&*+=?^_~;:,/"

func vhRunAll(t *testing.T, out *zzverif.Out, cases []*vhCase) {
	for len(cases) > 0 {
		n := min(len(cases), len(vhMarkers))
		group := make([]*vlCase, n)
		for i := range group {
			group[i] = &cases[i].vlCase
		}
		pieces, next, used := vlPack(group)
		if used == 0 {
			out.Count("llama_unrepresentable")
			cases = cases[1:]
			continue
		}
		// the prompt of case i is the i-th marker character; its token takes the place of the case's start token
		for i := 0; i < used; i++ {
			cases[i].prompt = vhMarkers[i : i+1]
			pieces[cases[i].start] = cases[i].prompt
		}
		v, err := vlLoad(t.TempDir(), pieces, next, 1)
		if err != nil {
			t.Fatal(err)
		}
		out.Count("llama_handler_models")
		for _, c := range cases[:used] {
			vhCaseRun(t, out, v, c)
		}
		v.close()
		cases = cases[used:]
	}
}

func TestVerifC14LlamaHandler(t *testing.T) {
	out := zzverif.NewOut()
	defer out.Close()
	if rp := os.Getenv("VERIF_REPLAY"); rp != "" {
		b, err := os.ReadFile(rp)
		if err != nil {
			t.Fatal(err)
		}
		c, err := vhParseLine(strings.TrimSpace(string(b)))
		if err != nil {
			t.Skip("not a handler case")
		}
		vhRunAll(t, out, []*vhCase{c})
		return
	}
	var cases []*vhCase
	p := func(xs ...string) []vlEv {
		var sc []vlEv
		for _, x := range xs {
			sc = append(sc, vlEv{piece: x})
		}
		return sc
	}
	mk := func(calls, limit int, stops []string, script []vlEv) {
		cases = append(cases, &vhCase{vlCase: vlCase{limit: limit, stops: stops, script: script, skips: make([]int, len(script)+1)}, calls: calls})
	}
	for _, lim := range []int{2, 3, 4, 5} {
		mk(0, lim, nil, append(p("a", "b", "c"), vlEv{eos: true}))                           // EOS is token 4
		mk(0, lim, []string{"END"}, append(p("a", "b", "c", "END", "x"), vlEv{eos: true}))   // stop completes on token 4
		mk(0, lim, []string{"END"}, append(p("a", "b", "EN", "D!", "x"), vlEv{eos: true}))   // split stop completes on token 4
		mk(0, lim, nil, append(p("a", "\xe2", "\x82", "\xac", "b"), vlEv{eos: true}))        // byte-fallback character
	}
	mk(2, 0, nil, append(p("a", "b", "c"), vlEv{eos: true})) // client gone after 2 tokens
	root := zzverif.NewRng(zzverif.Seed() ^ 0x11a4a)
	n := zzverif.EnvInt("VERIF_N", 400)
	for i := 0; i < n; i++ {
		cases = append(cases, vhGen(root.Fork()))
	}
	vhRunAll(t, out, cases)
}
