//go:build linux || darwin

package server

// C15 witness search, part 2: concurrent /api/pull requests (the transfer manager, blobDownload and
// its parts) against an in-memory registry + CDN installed as http.DefaultTransport.  Several
// requests pull the SAME model at the same time (and a second tag that shares its blobs), so that
// the sync.Map winner runs Prepare/Run while the others Wait on the same blobDownload; /api/ps,
// /api/tags and a delete run alongside.  Under `go test -race` the reports are matched against the
// static lockset facts by the check; this file evaluates "no request makes the server panic" and
// "every pull answers" on the HTTP results.

import (
	"bytes"
	"context"
	"crypto/sha256"
	"encoding/json"
	"fmt"
	"io"
	"log/slog"
	"net/http"
	"strconv"
	"strings"
	"sync"
	"testing"
	"time"

	"github.com/gin-gonic/gin"

	"github.com/ollama/ollama/api"
	"github.com/ollama/ollama/zzverif"
)

const (
	c15RegHost = "c15reg.test"
	c15CDNHost = "c15cdn.test"
)

// c15Registry serves one manifest (any repository / tag) and its blobs.
type c15Registry struct {
	mu       sync.Mutex // harness state only
	blobs    map[string][]byte
	manifest []byte
	requests int
}

type c15SlowBody struct {
	data  []byte
	pos   int
	chunk int
	ctx   context.Context
}

func (b *c15SlowBody) Read(p []byte) (int, error) {
	if err := b.ctx.Err(); err != nil {
		return 0, err
	}
	if b.pos >= len(b.data) {
		return 0, io.EOF
	}
	n := b.chunk
	if n > len(p) {
		n = len(p)
	}
	if n > len(b.data)-b.pos {
		n = len(b.data) - b.pos
	}
	copy(p, b.data[b.pos:b.pos+n])
	b.pos += n
	time.Sleep(150 * time.Microsecond) // a slow link: the other requests get to run while a part is in flight
	return n, nil
}
func (b *c15SlowBody) Close() error { return nil }

func c15Resp(req *http.Request, status int, hdr map[string]string, body []byte, slow bool) *http.Response {
	h := http.Header{}
	for k, v := range hdr {
		h.Set(k, v)
	}
	var rc io.ReadCloser = io.NopCloser(bytes.NewReader(body))
	if slow {
		rc = &c15SlowBody{data: body, chunk: 2048, ctx: req.Context()}
	}
	return &http.Response{StatusCode: status, Status: strconv.Itoa(status) + " " + http.StatusText(status), Proto: "HTTP/1.1", ProtoMajor: 1, ProtoMinor: 1,
		Header: h, Body: rc, ContentLength: int64(len(body)), Request: req}
}

func (r *c15Registry) RoundTrip(req *http.Request) (*http.Response, error) {
	if err := req.Context().Err(); err != nil {
		return nil, err
	}
	r.mu.Lock()
	r.requests++
	r.mu.Unlock()
	host, path := req.URL.Hostname(), req.URL.Path
	switch {
	case host == c15RegHost && strings.Contains(path, "/manifests/"):
		return c15Resp(req, 200, map[string]string{"Content-Type": "application/vnd.docker.distribution.manifest.v2+json"}, r.manifest, false), nil
	case host == c15RegHost && strings.Contains(path, "/blobs/sha256:"):
		dig := path[strings.Index(path, "/blobs/")+len("/blobs/"):]
		data, ok := r.blobs[dig]
		if !ok {
			return c15Resp(req, 404, nil, []byte(`{"errors":[{"code":"BLOB_UNKNOWN"}]}`), false), nil
		}
		if req.Method == http.MethodHead {
			resp := c15Resp(req, 200, map[string]string{"Content-Length": strconv.Itoa(len(data))}, nil, false)
			resp.ContentLength = int64(len(data))
			return resp, nil
		}
		return c15Resp(req, http.StatusTemporaryRedirect, map[string]string{"Location": "https://" + c15CDNHost + "/" + dig}, nil, false), nil
	case host == c15CDNHost:
		dig := strings.TrimPrefix(path, "/")
		data, ok := r.blobs[dig]
		if !ok {
			return c15Resp(req, 404, nil, nil, false), nil
		}
		lo, hi := 0, len(data)-1
		if rg := req.Header.Get("Range"); strings.HasPrefix(rg, "bytes=") {
			parts := strings.SplitN(strings.TrimPrefix(rg, "bytes="), "-", 2)
			if v, err := strconv.Atoi(parts[0]); err == nil {
				lo = v
			}
			if len(parts) == 2 {
				if v, err := strconv.Atoi(parts[1]); err == nil && v < hi {
					hi = v
				}
			}
		}
		if lo > hi+1 || lo > len(data) {
			return c15Resp(req, http.StatusRequestedRangeNotSatisfiable, nil, nil, false), nil
		}
		return c15Resp(req, http.StatusPartialContent, map[string]string{"Content-Range": fmt.Sprintf("bytes %d-%d/%d", lo, hi, len(data))}, data[lo:hi+1], true), nil
	}
	return c15Resp(req, 404, nil, nil, false), nil
}

func c15Digest(b []byte) string { return fmt.Sprintf("sha256:%x", sha256.Sum256(b)) }

// c15PullTrials: `trials` rounds of concurrent pulls of one model under two tags, with ps / tags /
// delete alongside, against a fresh server instance.
func c15PullTrials(t *testing.T, out *zzverif.Out, rng *zzverif.Rng, trials int) {
	if trials <= 0 {
		return
	}
	ctx, cancel := context.WithCancel(context.Background())
	defer cancel()
	sched := InitScheduler(ctx)
	s := &Server{sched: sched}
	h, err := s.GenerateRoutes(nil)
	if err != nil {
		t.Fatalf("C15-SETUP: %v", err)
	}
	sched.Run(ctx)

	oldTransport := http.DefaultTransport
	defer func() { http.DefaultTransport = oldTransport }()

	for trial := 0; trial < trials; trial++ {
		tr := rng.Fork()
		// fresh content every trial: nothing is cached, every blob is downloaded again
		mk := func(tag string, n int) []byte {
			b := make([]byte, n)
			for i := range b {
				b[i] = byte(tr.Intn(256))
			}
			copy(b, []byte(fmt.Sprintf("%s-%d-", tag, trial)))
			return b
		}
		cfg := []byte(fmt.Sprintf(`{"model_format":"gguf","model_family":"llama","trial":%d,"pad":"%x"}`, trial, mk("cfg", 64)))
		layers := [][]byte{mk("template", 24<<10+tr.Intn(40<<10)), mk("system", 8<<10+tr.Intn(8<<10)), mk("license", 48<<10+tr.Intn(64<<10))}
		media := []string{"application/vnd.ollama.image.template", "application/vnd.ollama.image.system", "application/vnd.ollama.image.license"}
		reg := &c15Registry{blobs: map[string][]byte{c15Digest(cfg): cfg}}
		type lay struct {
			MediaType string `json:"mediaType"`
			Digest    string `json:"digest"`
			Size      int    `json:"size"`
		}
		var ls []lay
		for i, l := range layers {
			reg.blobs[c15Digest(l)] = l
			ls = append(ls, lay{media[i], c15Digest(l), len(l)})
		}
		reg.manifest, _ = json.Marshal(map[string]any{
			"schemaVersion": 2, "mediaType": "application/vnd.docker.distribution.manifest.v2+json",
			"config": lay{"application/vnd.docker.container.image.v1+json", c15Digest(cfg), len(cfg)}, "layers": ls,
		})
		http.DefaultTransport = reg

		npull := 2 + tr.Intn(3)
		caseLine := fmt.Sprintf("seed=%d phase=concurrent-pull trial=%d pulls=%d", zzverif.Seed(), trial, npull)
		out.Count("cases")
		out.Count("pull_trials")
		type res struct {
			op   string
			code int
			body string
		}
		ch := make(chan res, npull+8)
		n := 0
		for i := 0; i < npull; i++ {
			name := fmt.Sprintf("%s/lib/pm:t%d", c15RegHost, i%2) // two tags, the same blobs
			delay := time.Duration(tr.Intn(400)) * time.Microsecond
			n++
			go func() {
				time.Sleep(delay)
				c, b := c15DoCtx(context.Background(), 30*time.Second, h, "POST", "/api/pull", api.PullRequest{Model: name, Stream: &stream})
				ch <- res{"pull", c, b}
			}()
		}
		// requests of other kinds while the transfers are in flight
		for i := 0; i < 4; i++ {
			op := []string{"ps", "tags", "tags", "delete"}[i]
			delay := time.Duration(200+tr.Intn(1200)) * time.Millisecond
			n++
			go func() {
				time.Sleep(delay)
				var c int
				var b string
				switch op {
				case "ps":
					c, b = c15DoCtx(context.Background(), 30*time.Second, h, "GET", "/api/ps", nil)
				case "tags":
					c, b = c15DoCtx(context.Background(), 30*time.Second, h, "GET", "/api/tags", nil)
				case "delete":
					c, b = c15DoCtx(context.Background(), 30*time.Second, h, "DELETE", "/api/delete", api.DeleteRequest{Model: c15RegHost + "/lib/pm:t1"})
				}
				ch <- res{op, c, b}
			}()
		}
		for i := 0; i < n; i++ {
			r := <-ch
			out.Count("pull_op_" + r.op)
			out.Count(fmt.Sprintf("pull_%s_%dxx", r.op, r.code/100))
			switch {
			case r.code == 0:
				out.L2("request-hung", caseLine+" op="+r.op, "no answer within 30 s: "+r.body)
			case c15Panicked(r.code, r.body):
				out.L2("panic-recovered", caseLine+" op="+r.op, fmt.Sprintf("status=%d body=%.120q", r.code, r.body))
			}
		}
		reg.mu.Lock()
		out.Add("pull_registry_requests", reg.requests)
		reg.mu.Unlock()
		// leave nothing behind: the next trial downloads everything again
		for i := 0; i < 2; i++ {
			c15Do(h, "DELETE", "/api/delete", api.DeleteRequest{Model: fmt.Sprintf("%s/lib/pm:t%d", c15RegHost, i)})
		}
	}
}

// TestVerifC15Pull runs the pull trials in a process of their own (the check starts it under -race
// next to the TestVerifC15 processes).
func TestVerifC15Pull(t *testing.T) {
	out := zzverif.NewOut()
	defer out.Close()
	gin.SetMode(gin.TestMode)
	recov := &c15LockedBuf{}
	gin.DefaultErrorWriter = recov
	gin.DefaultWriter = io.Discard
	oldLog := slog.Default()
	slog.SetDefault(slog.New(c15NoLog{}))
	defer slog.SetDefault(oldLog)
	t.Setenv("OLLAMA_MODELS", t.TempDir())
	root := zzverif.NewRng(zzverif.Seed())
	c15PullTrials(t, out, root.Fork(), zzverif.EnvInt("VERIF_PULLS", 3))
	recov.mu.Lock()
	rec := recov.b.String()
	recov.mu.Unlock()
	seen := map[string]bool{}
	for _, blk := range strings.Split(rec, "[Recovery]")[1:] {
		site := "?"
		for _, ln := range strings.Split(blk, "\n") {
			if strings.Contains(ln, "/server/") && strings.Contains(ln, ".go:") && !strings.Contains(ln, "zz_verif") {
				site = strings.TrimSpace(ln)
				if i := strings.Index(site, "/server/"); i >= 0 {
					site = site[i+1:]
				}
				if i := strings.Index(site, " "); i >= 0 {
					site = site[:i]
				}
				break
			}
		}
		lines := strings.SplitN(strings.TrimSpace(blk), "\n", 3)
		first := lines[0]
		if len(lines) > 1 {
			first += " " + strings.TrimSpace(lines[1])
		}
		if !seen[site] {
			seen[site] = true
			out.L2("panic-site", fmt.Sprintf("seed=%d site=%s", zzverif.Seed(), site), first)
		}
		out.Count("panics_recovered")
	}
}
