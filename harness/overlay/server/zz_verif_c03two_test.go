package server

// C03 driver, part 5: two overlapping PullModel calls (different names) whose manifests share their first,
// missing layer x — the sharing through blobDownloadManager.  The interleaving is scripted from the fake
// registry and the progress callbacks, under fake time:
//
//	during         B is started when A's first chunk request for x arrives and that request is held until B has
//	               joined the transfer (B's first "pulling <x>" progress tick): both wait, each verifies
//	duringCancelB  … and B's caller goes away as soon as B has joined
//	duringCancelA  … and A's caller goes away once B has joined: the transfer goes on for B
//	atVerify       B runs from start to end inside A's "verifying sha256 digest" callback for x, i.e. after x
//	               was renamed into place and before A has verified it
//
// L1: outcome of A, outcome of B, the whole store (oracle op pull2).  L2: for both names, success => every
// layer present with its SHA-256; every resolvable name intact.

import (
	"bytes"
	"context"
	"fmt"
	"net/http"
	"os"
	"path/filepath"
	"strconv"
	"strings"
	"sync"
	"testing"
	"testing/synctest"

	"github.com/ollama/ollama/api"
	"github.com/ollama/ollama/zzverif"
)

type c3Two struct {
	mode  string
	base  *c3Case // cfg, store, realm, content; base.reg / base.name = pull A; attempts[0] = A's scripts, attempts[1] = B's
	regB  c3Manifest
	nameB int
	x     string
}

func (w *c3Two) line() string {
	c := w.base
	var sb strings.Builder
	fmt.Fprintf(&sb, "pull2 %s cfg %d %d %d %d %d %s", w.mode, c.nparts, c.minSize, c.maxSize, c.retries, c.variant, c3b(c.noprune))
	fmt.Fprintf(&sb, " univ %d", len(c.univ))
	for _, d := range c.univ {
		sb.WriteString(" " + d)
	}
	fmt.Fprintf(&sb, " blobs %d", len(c.blobs))
	for _, b := range c.blobs {
		fmt.Fprintf(&sb, " %s %s", b.dig, zzverif.Hex(b.content))
	}
	fmt.Fprintf(&sb, " partials %d", len(c.partials))
	for _, p := range c.partials {
		data := "none"
		if p.hasData {
			data = zzverif.Hex(p.data)
		}
		fmt.Fprintf(&sb, " %s %s %d", p.dig, data, len(p.parts))
		for _, q := range p.parts {
			fmt.Fprintf(&sb, " %d %d %d", q.off, q.size, q.done)
		}
	}
	sb.WriteString(" manifests 0")
	fmt.Fprintf(&sb, " x %s nameA %d nameB %d realm %s regA", w.x, c.name, w.nameB, zzverif.Hex(c.realm))
	c.reg.line(&sb)
	sb.WriteString(" regB")
	w.regB.line(&sb)
	fmt.Fprintf(&sb, " content %d", len(c.content))
	for _, b := range c.content {
		fmt.Fprintf(&sb, " %s %s", b.dig, zzverif.Hex(b.content))
	}
	sb.WriteString(" A")
	c.attempts[0].line(&sb)
	sb.WriteString(" B")
	c.attempts[1].line(&sb)
	return sb.String()
}

func (p *c3Toks) attempt() c3Attempt {
	var a c3Attempt
	p.expect("ms")
	for k := p.nat(); k > 0; k-- {
		a.ms = append(a.ms, p.reply())
	}
	p.expect("tok")
	for k := p.nat(); k > 0; k-- {
		a.tok = append(a.tok, p.nat() != 0)
	}
	p.expect("ls")
	for k := p.nat(); k > 0; k-- {
		l := c3LScript{dig: p.tok()}
		p.expect("head")
		for j := p.nat(); j > 0; j-- {
			l.head = append(l.head, p.reply())
		}
		p.expect("direct")
		for j := p.nat(); j > 0; j-- {
			l.direct = append(l.direct, p.reply())
		}
		p.expect("chunks")
		for j := p.nat(); j > 0; j-- {
			var cs []c3Chunk
			for i := p.nat(); i > 0; i-- {
				cs = append(cs, p.chunk())
			}
			l.chunks = append(l.chunks, cs)
		}
		a.ls = append(a.ls, l)
	}
	p.expect("cancel")
	switch t := p.tok(); t {
	case "none":
	case "verifying":
		a.cancel = "verifying " + p.tok()
	default:
		a.cancel = t
	}
	p.expect("tokshape")
	for k := p.nat(); k > 0; k-- {
		t := p.tok()
		if t == "-" {
			t = ""
		}
		a.tokShape = append(a.tokShape, t)
	}
	p.expect("validate")
	a.validate = p.nat() != 0
	p.expect("rereg")
	if p.nat() != 0 {
		m := p.manifest()
		a.reg = &m
	}
	return a
}

func c3ParseTwo(line string) *c3Two {
	p := &c3Toks{t: strings.Fields(line)}
	p.expect("pull2")
	w := &c3Two{mode: p.tok(), base: &c3Case{tag: "replay"}}
	c := w.base
	p.expect("cfg")
	c.nparts, c.minSize, c.maxSize = p.nat(), p.nat(), p.nat()
	c.retries = int(p.nat())
	c.variant = int(p.nat())
	c.noprune = p.nat() != 0
	p.expect("univ")
	for n := p.nat(); n > 0; n-- {
		c.univ = append(c.univ, p.tok())
	}
	p.expect("blobs")
	for n := p.nat(); n > 0; n-- {
		d := p.tok()
		c.blobs = append(c.blobs, c3Blob{d, zzverif.Unhex(p.tok())})
	}
	p.expect("partials")
	for n := p.nat(); n > 0; n-- {
		pa := c3Partial{dig: p.tok()}
		if t := p.tok(); t != "none" {
			pa.hasData = true
			pa.data = zzverif.Unhex(t)
		}
		for k := p.nat(); k > 0; k-- {
			pa.parts = append(pa.parts, c3Part{p.nat(), p.nat(), p.nat()})
		}
		c.partials = append(c.partials, pa)
	}
	p.expect("manifests")
	p.expect("0")
	p.expect("x")
	w.x = p.tok()
	p.expect("nameA")
	c.name = int(p.nat())
	p.expect("nameB")
	w.nameB = int(p.nat())
	p.expect("realm")
	c.realm = zzverif.Unhex(p.tok())
	p.expect("regA")
	c.reg = p.manifest()
	p.expect("regB")
	w.regB = p.manifest()
	p.expect("content")
	for n := p.nat(); n > 0; n-- {
		d := p.tok()
		c.content = append(c.content, c3Blob{d, zzverif.Unhex(p.tok())})
	}
	p.expect("A")
	c.attempts = append(c.attempts, p.attempt())
	p.expect("B")
	c.attempts = append(c.attempts, p.attempt())
	return w
}

// c3RunTwo runs the two pulls with the scripted interleaving; returns the error classes of A and B.
func c3RunTwo(t *testing.T, w *c3Two, models string) (string, string) {
	c := w.base
	os.Setenv("OLLAMA_MODELS", models)
	os.Unsetenv("OLLAMA_NOPRUNE")
	merged := c3Attempt{ls: append(append([]c3LScript{}, c.attempts[0].ls...), c.attempts[1].ls...)}
	net := c3NewNet(c, &merged, models)
	net.regs = map[string]c3Manifest{fmt.Sprintf("m%d", c.name): c.reg, fmt.Sprintf("m%d", w.nameB): w.regB}
	old := http.DefaultTransport
	http.DefaultTransport = net
	defer func() { http.DefaultTransport = old }()
	var classA, classB string
	x12 := "pulling " + w.x[:12]
	synctest.Test(t, func(t *testing.T) {
		ctxA, cancelA := context.WithCancel(context.Background())
		defer cancelA()
		ctxB, cancelB := context.WithCancel(context.Background())
		defer cancelB()
		startB, bJoined, bDone := make(chan struct{}), make(chan struct{}), make(chan struct{})
		var startOnce, joinOnce sync.Once
		fire := func() { startOnce.Do(func() { close(startB) }) }
		go func() {
			defer close(bDone)
			<-startB
			defer func() {
				if r := recover(); r != nil {
					classB = fmt.Sprintf("panic:%v", r)
				}
			}()
			classB = c3ClassifyTwo(w.x, PullModel(ctxB, c3ModelName(w.nameB), &registryOptions{}, func(r api.ProgressResponse) {
				if r.Status == x12 {
					joinOnce.Do(func() {
						if w.mode == "duringCancelB" {
							cancelB()
						}
						close(bJoined)
					})
				}
			}))
		}()
		if strings.HasPrefix(w.mode, "during") {
			var once sync.Once
			net.hook = func(req *http.Request) {
				if req.URL.Hostname() == c3CDNHost && strings.HasSuffix(req.URL.Path, "/"+w.x) {
					once.Do(func() {
						fire()
						select {
						case <-bJoined:
						case <-bDone:
						}
						if w.mode == "duringCancelA" {
							cancelA()
						}
					})
				}
			}
		}
		func() {
			defer func() {
				if r := recover(); r != nil {
					classA = fmt.Sprintf("panic:%v", r)
				}
			}()
			first := true
			classA = c3ClassifyTwo(w.x, PullModel(ctxA, c3ModelName(c.name), &registryOptions{}, func(r api.ProgressResponse) {
				if w.mode == "atVerify" && r.Status == "verifying sha256 digest" && first {
					first = false
					fire()
					<-bDone
				}
			}))
		}()
		// B did not overlap (A ended before the trigger): it runs afterwards, against an honest registry for x
		// (what is left of A's script for x is dropped, as in the model)
		startOnce.Do(func() {
			net.mu.Lock()
			delete(net.chunks, w.x)
			delete(net.head, w.x)
			delete(net.direct, w.x)
			net.mu.Unlock()
			close(startB)
		})
		<-bDone
		synctest.Wait()
	})
	if strings.HasPrefix(classA, "panic") || strings.HasPrefix(classB, "panic") {
		c3ResetManager()
	}
	a0, b0 := classA, classB
	classA, classB = c3ResolveVanished(w.mode, a0, b0), c3ResolveVanished(w.mode, b0, a0)
	return c3Sanitize(classA), c3Sanitize(classB)
}

func c3TwoCase(t *testing.T, out *zzverif.Out, w *c3Two) {
	c := w.base
	// univ over both manifests
	save := c.manifests
	c.manifests = []c3Man{{name: w.nameB, m: w.regB}}
	c.fixUniv()
	c.manifests = save
	line := w.line()
	if !c3Begin(out, line) {
		return
	}
	defer out.Flush()
	home := t.TempDir()
	models := filepath.Join(home, "models")
	c3Materialise(c, models)
	out.Count("two_cases")
	out.Count("two_mode_" + w.mode)
	classA, classB := c3RunTwo(t, w, models)
	disk := c3ReadDisk(models)
	out.Case(line, fmt.Sprintf("%s %s %s", classA, classB, disk.show()))
	out.Count("two_outcome_A_" + classA)
	out.Count("two_outcome_B_" + classB)
	for _, p := range []struct {
		who   string
		name  int
		reg   c3Manifest
		class string
	}{{"A", c.name, c.reg, classA}, {"B", w.nameB, w.regB, classB}} {
		where := fmt.Sprintf("A=%s pull=%s mode=%s", classA, p.who, w.mode)
		if strings.HasPrefix(p.class, "panic") {
			out.L2("panic", line, "site=two-pulls "+p.class+" "+where)
		}
		if p.class == "err:vanished" {
			out.L2("blob-vanished-under-pull", line, "the shared layer was removed under a pull that no digest mismatch of the other pull explains "+where)
		}
		if p.class != "ok" {
			continue
		}
		for _, l := range p.reg.all() {
			b, ok := disk.blobs[l.ref]
			switch {
			case !ok:
				out.L2("success-missing-layer", line, fmt.Sprintf("layer=%s shared=%v %s", l.ref[:12], l.ref == w.x, where))
			case c3Sha(b) != l.ref:
				out.L2("success-corrupt-layer", line, fmt.Sprintf("layer=%s origin=overlapping-pull shared=%v %s", l.ref[:12], l.ref == w.x, where))
			}
		}
		if m := disk.mans[p.name]; m == nil {
			out.L2("success-manifest-differs", line, "stored manifest missing or unreadable "+where)
		}
	}
	// blobs left under a final name must hash to it
	for k, b := range disk.blobs {
		if c3Sha(b) != k {
			out.L2("corrupt-blob-after-failed-pull", line, "blob="+k[:12]+" left by two overlapping pulls mode="+w.mode)
		}
	}
}

// c3TwoCases: every chunk fault kind x {once, until the retries are used up} x mode on the shared layer, plus random extras.
func c3TwoCases(r *zzverif.Rng, extra int, emit func(*c3Two)) {
	modes := []string{"during", "duringCancelB", "duringCancelA", "atVerify"}
	mk := func(mode string, fault func(want int) []c3Chunk, rr *zzverif.Rng) *c3Two {
		c := c3NewCase("two")
		X := rr.Bytes(rr.Range(8, 40))
		dX := c.addLayer(X, false)
		w := &c3Two{mode: mode, base: c, nameB: 1, x: dX}
		w.regB = c3Manifest{layers: []c3Layer{{dX, int64(len(X)), 0}}, config: c3Layer{"e", 0, 0}}
		var aLs, bLs []c3LScript
		want := len(X)
		if rr.Chance(1, 3) { // x has resume state (single part)
			if pa, ok := c3Resume(zzverif.Pick(rr, []int{1, 2, 4}), dX, X, rr); ok {
				c.partials = append(c.partials, pa)
				want = int(pa.parts[0].size - pa.parts[0].done)
			}
		}
		if f := fault(want); f != nil {
			aLs = append(aLs, c3LScript{dig: dX, chunks: [][]c3Chunk{f}})
		}
		own := func(scripts *[]c3LScript) c3Layer {
			b := rr.Bytes(rr.Range(1, 24))
			d := c3Sha(b)
			c.content = append(c.content, c3Blob{d, b})
			switch rr.Intn(6) {
			case 0:
				*scripts = append(*scripts, c3LScript{dig: d, chunks: [][]c3Chunk{{{src: "flip", flip: 0, cut: -1, end: "eof"}}}})
			case 1:
				*scripts = append(*scripts, c3LScript{dig: d, head: []c3Reply{c3K("notfound")}})
			}
			return c3Layer{d, int64(len(b)), 0}
		}
		if rr.Bool() {
			c.reg.layers = append(c.reg.layers, own(&aLs))
		}
		if rr.Bool() {
			w.regB.layers = append(w.regB.layers, own(&bLs))
		}
		c.attempts = []c3Attempt{{ls: aLs}, {ls: bLs}}
		return w
	}
	nf := len(c3ChunkFaults(r, 8, false))
	for _, mode := range modes {
		emit(mk(mode, func(int) []c3Chunk { return nil }, r.Fork()))
		for k := 0; k < nf; k++ {
			for _, rep := range []int{1, maxRetries} {
				k, rep := k, rep
				rr := r.Fork()
				emit(mk(mode, func(want int) []c3Chunk { return c3Repeat(c3ChunkFaults(rr, want, false)[k], rep) }, rr))
			}
		}
	}
	for i := 0; i < extra; i++ {
		rr := r.Fork()
		emit(mk(zzverif.Pick(rr, modes), func(want int) []c3Chunk {
			var s []c3Chunk
			for j := rr.Pick3(1, 2, 5); j > 0; j-- {
				s = append(s, zzverif.Pick(rr, c3ChunkFaults(rr, want, false)))
			}
			return s
		}, rr))
	}
	_ = bytes.MinRead
	_ = strconv.Itoa
}

// c3ClassifyTwo: a pull that fails because the shared blob x is not there any more gets the provisional class
// "err:vanished"; c3ResolveVanished decides what that means once both pulls have ended.
func c3ClassifyTwo(x string, err error) string {
	if err != nil && os.IsNotExist(err) && strings.Contains(err.Error(), "sha256-"+x) {
		return "err:vanished"
	}
	return c3Classify(err)
}

// c3ResolveVanished: when B JOINED A's transfer (mode "during") both pulls verify x at the same time; the slower one
// may find the file already removed by the faster one's failed verification (verifyBlob's os.Open fails).  Only
// then - the OTHER pull really ended with a digest mismatch, in that mode - is "x vanished" the same verdict as
// "x did not verify".  Anywhere else (another mode, the other pull succeeded or failed differently) a blob vanishing
// under a pull is something the model does not describe: the class stays "err:vanished" (L1 disagreement) and is an
// L2 failure of its own.
func c3ResolveVanished(mode, class, other string) string {
	if class == "err:vanished" && mode == "during" && other == "err:digest-mismatch" {
		return "err:digest-mismatch"
	}
	return class
}
