//go:build linux || darwin

package server

// C15 witness search: one in-process server (the real gin engine from GenerateRoutes, the real
// Scheduler with its real load/unload paths, a mock llm.LlamaServer behind newServerFn) hammered
// by mixed concurrent requests.  Run under `go test -race` with GORACE=log_path=...: the check
// (vlib/checks/c15.py) parses the race reports and matches them against the static lockset
// facts.  This driver itself evaluates the "no panic" and "no torn view of running models"
// clauses (L2) on the HTTP results.
//
// The harness shares as little synchronised state with the server as possible (worker-local
// logs, wall-clock timestamps instead of shared counters): every extra lock or atomic would add
// happens-before edges and hide races from the detector.

import (
	"bytes"
	"context"
	"crypto/sha256"
	"encoding/json"
	"errors"
	"fmt"
	"io"
	"log/slog"
	"net/http"
	"net/http/httptest"
	"os"
	"runtime"
	"strings"
	"sync"
	"sync/atomic"
	"syscall"
	"testing"
	"time"

	"github.com/gin-gonic/gin"

	"github.com/ollama/ollama/api"
	"github.com/ollama/ollama/discover"
	"github.com/ollama/ollama/format"
	"github.com/ollama/ollama/fs/ggml"
	"github.com/ollama/ollama/llm"
	"github.com/ollama/ollama/types/model"
	"github.com/ollama/ollama/zzverif"
)

type c15Runner struct {
	modelPath string
	created   time.Time
	closedNs  atomic.Int64 // written by the scheduler's unload; read by the monitors after the round
	vram      uint64
	// load behaviour: 0 = comes up after a short window; 1 = start-up fails after a window
	// (runner crashed); 2 = blocks until the requesting client goes away or `fail` is closed
	loadMode int
	fail     chan struct{}
}

func (r *c15Runner) Ping(ctx context.Context) error { return nil }
func (r *c15Runner) WaitUntilRunning(ctx context.Context) error {
	switch r.loadMode {
	case 1:
		time.Sleep(2 * time.Millisecond)
		return errors.New("c15: runner process exited during start-up")
	case 2:
		select {
		case <-ctx.Done():
			return ctx.Err()
		case <-r.fail:
			return errors.New("c15: runner process exited during start-up")
		case <-time.After(3 * time.Second):
			return nil
		}
	}
	time.Sleep(500 * time.Microsecond) // a loading window, so that scheduling overlaps loading
	return nil
}

func (r *c15Runner) Completion(ctx context.Context, req llm.CompletionRequest, fn func(llm.CompletionResponse)) error {
	fn(llm.CompletionResponse{Content: "ok", Done: true, DoneReason: llm.DoneReasonStop, PromptEvalCount: 1, PromptEvalDuration: 1, EvalCount: 1, EvalDuration: 1})
	return nil
}
func (r *c15Runner) Embedding(ctx context.Context, input string) ([]float32, error) {
	return []float32{0.5, 0.5}, nil
}
func (r *c15Runner) Tokenize(ctx context.Context, content string) ([]int, error) {
	return make([]int, len(strings.Fields(content))), nil
}
func (r *c15Runner) Detokenize(ctx context.Context, tokens []int) (string, error) { return "x", nil }
func (r *c15Runner) Close() error {
	r.closedNs.Store(time.Now().UnixNano())
	return nil
}
func (r *c15Runner) closedAt() time.Time {
	if ns := r.closedNs.Load(); ns != 0 {
		return time.Unix(0, ns)
	}
	return time.Time{}
}
func (r *c15Runner) EstimatedVRAM() uint64                  { return r.vram }
func (r *c15Runner) EstimatedTotal() uint64                 { return r.vram }
func (r *c15Runner) EstimatedVRAMByGPU(gpuid string) uint64 { return r.vram }

type c15NoLog struct{}

func (c15NoLog) Enabled(context.Context, slog.Level) bool  { return false }
func (c15NoLog) Handle(context.Context, slog.Record) error { return nil }
func (h c15NoLog) WithAttrs([]slog.Attr) slog.Handler      { return h }
func (h c15NoLog) WithGroup(string) slog.Handler           { return h }

type c15Log struct {
	op     string
	status int
	body   string
	t0, t1 time.Time
}

type c15LockedBuf struct {
	mu sync.Mutex
	b  bytes.Buffer
}

func (l *c15LockedBuf) Write(p []byte) (int, error) {
	l.mu.Lock()
	defer l.mu.Unlock()
	return l.b.Write(p)
}

func c15Do(h http.Handler, method, path string, body any) (int, string) {
	return c15DoCtx(context.Background(), 3*time.Second, h, method, path, body)
}

// c15PS issues GET /api/ps; status 0 = the request did not return (PsHandler does not watch the
// request context, so a lock that is never released wedges it for good).
func c15PS(h http.Handler) (int, string) {
	// PsHandler does no I/O: it answers in microseconds unless a lock it needs is never released.  The limit is
	// wall-clock, so it is generous (8 s + 1 s grace): under -race on a loaded host a healthy ps can take seconds.
	return c15DoCtx(context.Background(), 8*time.Second, h, "GET", "/api/ps", nil)
}

// c15DoCtx serves one request on its own goroutine.  Like net/http, the request context ends when
// the handler returns or the client goes away (`timeout`).  Handlers that do not watch their
// context (scheduleRunner waits for the scheduler's answer only; the scheduler drops a request
// whose context is already done without answering) would block the harness for ever: after the
// context has ended and a grace period has passed the request is abandoned (status 0).
func c15DoCtx(parent context.Context, timeout time.Duration, h http.Handler, method, path string, body any) (int, string) {
	var bs []byte
	switch b := body.(type) {
	case nil:
	case []byte:
		bs = b
	default:
		bs, _ = json.Marshal(b)
	}
	ctx, cancel := context.WithTimeout(parent, timeout)
	grace := time.Second
	if timeout < 100*time.Millisecond {
		grace = 150 * time.Millisecond // a client that went away on purpose
	}
	type res struct {
		code int
		body string
	}
	ch := make(chan res, 1)
	go func() {
		defer cancel()
		var rd io.Reader
		if bs != nil {
			rd = bytes.NewReader(bs)
		}
		req := httptest.NewRequest(method, path, rd).WithContext(ctx)
		w := NewRecorder()
		h.ServeHTTP(w, req)
		ch <- res{w.Code, w.Body.String()}
	}()
	select {
	case r := <-ch:
		return r.code, r.body
	case <-ctx.Done():
	}
	select {
	case r := <-ch:
		return r.code, r.body
	case <-time.After(grace):
		return 0, fmt.Sprintf("<no response %v after the request context ended>", grace)
	}
}

func TestVerifC15(t *testing.T) {
	out := zzverif.NewOut()
	defer out.Close()
	gin.SetMode(gin.TestMode)
	recov := &c15LockedBuf{}
	gin.DefaultErrorWriter = recov
	gin.DefaultWriter = io.Discard
	// logging through a shared handler would synchronise every goroutine with every other one
	oldLog := slog.Default()
	slog.SetDefault(slog.New(c15NoLog{}))
	defer slog.SetDefault(oldLog)

	t.Setenv("OLLAMA_MODELS", t.TempDir())
	t.Setenv("OLLAMA_MAX_LOADED_MODELS", "2")
	t.Setenv("OLLAMA_NUM_PARALLEL", "1")
	t.Setenv("OLLAMA_MAX_QUEUE", "512")

	secs := zzverif.EnvInt("VERIF_SECS", 10)
	rounds := zzverif.EnvInt("VERIF_ROUNDS", 4)
	workers := zzverif.EnvInt("VERIF_WORKERS", 12)
	root := zzverif.NewRng(zzverif.Seed())

	// three base models, each with its own GGUF blob (the scheduler keys runners by blob path);
	// created through the real handler on a throw-away server
	base := []string{"m0", "m1", "m2"}
	shortToPath := map[string]string{}
	{
		s0 := &Server{sched: InitScheduler(context.Background())}
		h0, err := s0.GenerateRoutes(nil)
		if err != nil {
			t.Fatalf("C15-SETUP: %v", err)
		}
		for i, name := range base {
			_, digest := createBinFile(t, ggml.KV{
				"general.architecture":          "llama",
				"llama.block_count":             uint32(1),
				"llama.context_length":          uint32(8192 + i),
				"llama.embedding_length":        uint32(4096),
				"llama.attention.head_count":    uint32(32),
				"llama.attention.head_count_kv": uint32(8),
				"tokenizer.ggml.tokens":         []string{""},
				"tokenizer.ggml.scores":         []float32{0},
				"tokenizer.ggml.token_type":     []int32{0},
			}, []ggml.Tensor{
				{Name: "token_embd.weight", Shape: []uint64{1}, WriterTo: bytes.NewReader(make([]byte, 4))},
				{Name: "blk.0.attn_norm.weight", Shape: []uint64{1}, WriterTo: bytes.NewReader(make([]byte, 4))},
				{Name: "output.weight", Shape: []uint64{1}, WriterTo: bytes.NewReader(make([]byte, 4))},
			})
			code, body := c15Do(h0, "POST", "/api/create", api.CreateRequest{Model: name, Files: map[string]string{"file.gguf": digest},
				Template: fmt.Sprintf("{{ .Prompt }}%d", i), Stream: &stream})
			if code != 200 {
				t.Fatalf("C15-SETUP: create %s: %d %s", name, code, body)
			}
			m, err := GetModel(name)
			if err != nil {
				t.Fatalf("C15-SETUP: %v", err)
			}
			shortToPath[m.ShortName] = m.ModelPath
		}
	}

	out.Add("workers", workers)
	out.Add("gomaxprocs", runtime.GOMAXPROCS(0))
	c15StoreRaces(t, out, root.Fork(), zzverif.EnvInt("VERIF_STORE_SWEEPS", 1), base)
	out.Flush()
	c15FailedLoadTrials(t, out, root.Fork(), zzverif.EnvInt("VERIF_TRIALS", 120), base, shortToPath)
	out.Flush()
	per := time.Duration(secs) * time.Second / time.Duration(rounds)
	for r := 0; r < rounds; r++ {
		c15Round(t, out, root.Fork(), r, per, workers, base, shortToPath)
		out.Flush() // the server under test can take the process down (nil runner in a handler goroutine)
	}

	recov.mu.Lock()
	rec := recov.b.String()
	recov.mu.Unlock()
	if rec != "" {
		// one L2 line per distinct panic site (first frame in package server)
		seen := map[string]bool{}
		for _, blk := range strings.Split(rec, "[Recovery]")[1:] {
			site := "?"
			for _, ln := range strings.Split(blk, "\n") {
				if strings.Contains(ln, "/server/") && strings.Contains(ln, ".go:") && !strings.Contains(ln, "zz_verif") {
					site = strings.TrimSpace(ln)
					if i := strings.Index(site, "/server/"); i >= 0 {
						site = site[i+1:]
					}
					if i := strings.Index(site, " "); i >= 0 {
						site = site[:i]
					}
					break
				}
			}
			// "<time> panic recovered:" then the panic value on the next line
			lines := strings.SplitN(strings.TrimSpace(blk), "\n", 3)
			first := lines[0]
			if len(lines) > 1 {
				first += " " + strings.TrimSpace(lines[1])
			}
			if !seen[site] {
				seen[site] = true
				out.L2("panic-site", fmt.Sprintf("seed=%d site=%s", zzverif.Seed(), site), first)
			}
			out.Count("panics_recovered")
		}
	}
}

// c15Why describes the nearest runners of the model around the request (diagnostics only)
func c15Why(rs []*c15Runner, path string, t0, t1 time.Time) string {
	var b strings.Builder
	n := 0
	for _, r := range rs {
		if r.modelPath != path {
			continue
		}
		n++
		if c := r.closedAt(); !c.IsZero() && t0.Sub(c) < 50*time.Millisecond && t0.Sub(c) > 0 {
			fmt.Fprintf(&b, " [a runner closed %v before the request began, lived %v]", t0.Sub(c), c.Sub(r.created))
		}
		if r.created.Sub(t1) > 0 && r.created.Sub(t1) < 50*time.Millisecond {
			fmt.Fprintf(&b, " [next runner created %v after the request ended]", r.created.Sub(t1))
		}
	}
	return fmt.Sprintf(" (request took %v, %d runners of the model this round)%s", t1.Sub(t0), n, b.String())
}

// c15FailedLoadTrials is the directed part of the search: /api/ps requests issued WHILE a model is
// loading, followed by the load failing (the requesting client goes away, or the runner process
// dies during start-up), so that the runner is expired, unloaded and removed while ps requests
// are in flight or queued on its lock.  Every ps must answer 200 in time and list only runners
// that were alive during the request.
func c15FailedLoadTrials(t *testing.T, out *zzverif.Out, rng *zzverif.Rng, trials int, base []string, shortToPath map[string]string) {
	ctx, cancel := context.WithCancel(context.Background())
	defer cancel()
	sched := InitScheduler(ctx)
	sched.getGpuFn = func() discover.GpuInfoList {
		g := discover.GpuInfo{Library: "metal"}
		g.TotalMemory = 24 * format.GigaByte
		g.FreeMemory = 12 * format.GigaByte
		return []discover.GpuInfo{g}
	}
	sched.getCpuFn = sched.getGpuFn
	var rmu sync.Mutex
	var runners []*c15Runner
	created := make(chan *c15Runner, 16)
	sched.newServerFn = func(gpus discover.GpuInfoList, model string, f *ggml.GGML, adapters []string, projectors []string, opts api.Options, numParallel int) (llm.LlamaServer, error) {
		r := &c15Runner{modelPath: model, created: time.Now(), vram: 1 << 20, loadMode: 2, fail: make(chan struct{})}
		rmu.Lock()
		runners = append(runners, r)
		rmu.Unlock()
		created <- r
		return r, nil
	}
	s := &Server{sched: sched}
	h, err := s.GenerateRoutes(nil)
	if err != nil {
		t.Fatalf("C15-SETUP: %v", err)
	}
	sched.Run(ctx)
	live := func(path string, t0, t1 time.Time) bool {
		rmu.Lock()
		defer rmu.Unlock()
		for _, r := range runners {
			if c := r.closedAt(); r.modelPath == path && !r.created.After(t1) && (c.IsZero() || !c.Before(t0)) {
				return true
			}
		}
		return false
	}
	type psRes struct {
		code   int
		body   string
		t0, t1 time.Time
	}
	wedged := false
	for trial := 0; trial < trials && !wedged; trial++ {
		tr := rng.Fork()
		model := base[trial%len(base)]
		mode := []string{"client-disconnect", "runner-crash"}[tr.Intn(2)]
		nps := 2 + tr.Intn(7)
		delay := time.Duration(tr.Intn(600)) * time.Microsecond
		caseLine := fmt.Sprintf("seed=%d phase=ps-during-failed-load trial=%d mode=%s ps=%d delay=%v", zzverif.Seed(), trial, mode, nps, delay)
		out.Count("cases")
		out.Count("failedload_trials")
		out.Count("failedload_mode_" + mode)
		gctx, gcancel := context.WithCancel(context.Background())
		genDone := make(chan int, 1)
		zero := api.Duration{}
		go func() {
			c, _ := c15DoCtx(gctx, 5*time.Second, h, "POST", "/api/generate", api.GenerateRequest{Model: model, Prompt: "hi", Stream: &stream, KeepAlive: &zero})
			genDone <- c
		}()
		var r *c15Runner
		select {
		case r = <-created:
		case <-time.After(3 * time.Second):
			out.Count("failedload_no_load_started")
			gcancel()
			<-genDone
			continue
		}
		res := make(chan psRes, nps)
		for i := 0; i < nps; i++ {
			go func() {
				t0 := time.Now()
				c, b := c15PS(h)
				res <- psRes{c, b, t0, time.Now()}
			}()
		}
		time.Sleep(delay) // let some of them reach the runner while it is loading
		if mode == "client-disconnect" {
			gcancel()
		} else {
			close(r.fail)
		}
		for i := 0; i < nps; i++ {
			p := <-res
			out.Count("failedload_ps_requests")
			switch {
			case p.code == 0:
				out.L2("ps-hung", caseLine, "GET /api/ps did not return: "+p.body)
				wedged = true
			case c15Panicked(p.code, p.body):
				out.L2("panic-recovered", caseLine+" op=ps", fmt.Sprintf("GET /api/ps answered %d with an empty body (recovered panic)", p.code))
			case p.code != 200:
				out.L2("ps-5xx", caseLine, fmt.Sprintf("GET /api/ps answered %d %.200s", p.code, p.body))
			default:
				var pr api.ProcessResponse
				if err := json.Unmarshal([]byte(p.body), &pr); err != nil {
					out.L2("ps-unparsable", caseLine, err.Error())
					continue
				}
				if len(pr.Models) > 0 {
					out.Count("failedload_ps_saw_loading_runner")
				}
				for _, m := range pr.Models {
					if path, ok := shortToPath[m.Name]; !ok || !live(path, p.t0, p.t1) {
						out.L2("ps-torn-down-runner", caseLine, fmt.Sprintf("model %s listed but no runner of it was alive during the request", m.Name))
					}
				}
			}
		}
		select {
		case <-genDone:
		case <-time.After(6 * time.Second):
			out.Count("failedload_generate_stuck")
			wedged = true
		}
		gcancel()
		// the failed runner must be gone, and ps must still answer
		deadline := time.Now().Add(2 * time.Second)
		for r.closedAt().IsZero() && time.Now().Before(deadline) {
			time.Sleep(100 * time.Microsecond)
		}
		if r.closedAt().IsZero() {
			out.Count("failedload_runner_not_closed")
		}
		if c, b := c15PS(h); c != 200 {
			kind := "ps-5xx"
			if c == 0 {
				kind = "ps-hung"
				wedged = true
			}
			out.L2(kind, caseLine+" after", fmt.Sprintf("GET /api/ps after the failed load answered %d %.200s", c, b))
		}
	}
}

// c15Panicked: gin's Recovery answers 500 with an empty body; every error a handler reports itself
// is a JSON object with an "error" member.  A 5xx that is not of that form is a recovered panic.
func c15Panicked(code int, body string) bool {
	if code < 500 {
		return false
	}
	var e struct {
		Error *string `json:"error"`
	}
	if json.Unmarshal([]byte(strings.TrimSpace(body)), &e) == nil && e.Error != nil {
		return false
	}
	return true
}

// c15StoreRaces is the directed search on STORE state (manifests and blobs, no mutex): one request
// that reads a model (show, tags, generate, create FROM it) is stalled in the middle of its reads
// while another request (delete, re-create, copy over it) runs to completion on the same name, then
// continues.  The stall needs no source hook: the blob the reader is about to open (the config
// blob or one of the layers) is replaced by a named pipe, so the open blocks like a read from a
// slow disk until the driver, having run the writer, feeds the original bytes.  Every stall point
// x reader x writer is enumerated.  No request may panic (recovered or not); the store must still
// answer afterwards.
func c15StoreRaces(t *testing.T, out *zzverif.Out, rng *zzverif.Rng, sweeps int, base []string) {
	ctx, cancel := context.WithCancel(context.Background())
	defer cancel()
	sched := InitScheduler(ctx)
	sched.getGpuFn = func() discover.GpuInfoList {
		g := discover.GpuInfo{Library: "metal"}
		g.TotalMemory = 24 * format.GigaByte
		g.FreeMemory = 12 * format.GigaByte
		return []discover.GpuInfo{g}
	}
	sched.getCpuFn = sched.getGpuFn
	sched.newServerFn = func(gpus discover.GpuInfoList, model string, f *ggml.GGML, adapters []string, projectors []string, opts api.Options, numParallel int) (llm.LlamaServer, error) {
		return &c15Runner{modelPath: model, created: time.Now(), vram: 1 << 20}, nil
	}
	s := &Server{sched: sched}
	h, err := s.GenerateRoutes(nil)
	if err != nil {
		t.Fatalf("C15-SETUP: %v", err)
	}
	sched.Run(ctx)

	const victim = "victim"
	zero := api.Duration{}
	readers := map[string]func() (int, string){
		"show": func() (int, string) { return c15Do(h, "POST", "/api/show", api.ShowRequest{Model: victim}) },
		"tags": func() (int, string) { return c15Do(h, "GET", "/api/tags", nil) },
		"generate": func() (int, string) {
			return c15Do(h, "POST", "/api/generate", api.GenerateRequest{Model: victim, Prompt: "hi", Stream: &stream, KeepAlive: &zero})
		},
		"create-from": func() (int, string) {
			return c15Do(h, "POST", "/api/create", api.CreateRequest{Model: "derived", From: victim, System: "derived", Stream: &stream})
		},
		"copy-from": func() (int, string) {
			return c15Do(h, "POST", "/api/copy", api.CopyRequest{Source: victim, Destination: "copied"})
		},
	}
	readerNames := []string{"show", "tags", "generate", "create-from", "copy-from"}
	writers := map[string]func(n int) (int, string){
		"delete": func(n int) (int, string) { return c15Do(h, "DELETE", "/api/delete", api.DeleteRequest{Model: victim}) },
		"recreate": func(n int) (int, string) {
			return c15Do(h, "POST", "/api/create", api.CreateRequest{Model: victim, From: base[1], System: fmt.Sprintf("other %d", n), Stream: &stream})
		},
		"copy-over": func(n int) (int, string) {
			return c15Do(h, "POST", "/api/copy", api.CopyRequest{Source: base[2], Destination: victim})
		},
	}
	writerNames := []string{"delete", "recreate", "copy-over"}

	n := 0
	for sweep := 0; sweep < sweeps; sweep++ {
		// stall points are discovered from the victim's manifest: config blob + every layer
		for stall := 0; ; stall++ {
			more := false
			for _, rn := range readerNames {
				for _, wn := range writerNames {
					n++
					code, body := c15Do(h, "POST", "/api/create", api.CreateRequest{Model: victim, From: base[0], Stream: &stream,
						System: fmt.Sprintf("system %d", n), Template: "{{ .Prompt }} victim", License: "a licence",
						Parameters: map[string]any{"temperature": 0.5}})
					if code != 200 {
						t.Fatalf("C15-SETUP: create victim: %d %s", code, body)
					}
					mf, err := ParseNamedManifest(model.ParseName(victim))
					if err != nil {
						t.Fatalf("C15-SETUP: %v", err)
					}
					blobs := []Layer{mf.Config}
					blobs = append(blobs, mf.Layers...)
					if stall >= len(blobs) {
						continue
					}
					more = true
					what := blobs[stall].MediaType
					what = what[strings.LastIndex(what, ".")+1:]
					if stall == 0 {
						what = "config"
					}
					if what == "model" {
						continue // the GGUF is opened more than once and seeked: a pipe cannot stand in for it
					}
					caseLine := fmt.Sprintf("seed=%d phase=store-race reader=%s writer=%s stall=%s", zzverif.Seed(), rn, wn, what)
					out.Count("cases")
					out.Count("storerace_trials")
					path, err := GetBlobsPath(blobs[stall].Digest)
					if err != nil {
						t.Fatalf("C15-SETUP: %v", err)
					}
					orig, err := os.ReadFile(path)
					if err != nil {
						t.Fatalf("C15-SETUP: %v", err)
					}
					if err := os.Remove(path); err != nil {
						t.Fatalf("C15-SETUP: %v", err)
					}
					if err := syscall.Mkfifo(path, 0o644); err != nil {
						_ = os.WriteFile(path, orig, 0o644)
						out.Count("storerace_no_fifo")
						return
					}
					type res struct {
						code int
						body string
					}
					rd := make(chan res, 1)
					go func() {
						c, b := readers[rn]()
						rd <- res{c, b}
					}()
					// wait until the reader has the pipe open (a non-blocking open for writing
					// succeeds only then)
					fd := -1
					var early *res
					deadline := time.Now().Add(400 * time.Millisecond)
				poll:
					for time.Now().Before(deadline) {
						if f, err := syscall.Open(path, syscall.O_WRONLY|syscall.O_NONBLOCK, 0); err == nil {
							fd = f
							break
						}
						select {
						case r := <-rd:
							early = &r
							break poll
						case <-time.After(100 * time.Microsecond):
						}
					}
					if fd < 0 {
						// this reader does not read this blob (or answered before): undo
						out.Count("storerace_stall_not_reached")
						if f, err := syscall.Open(path, syscall.O_RDWR|syscall.O_NONBLOCK, 0); err == nil {
							tmp := path + ".c15tmp"
							_ = os.WriteFile(tmp, orig, 0o644)
							_, _ = syscall.Write(f, orig)
							_ = os.Rename(tmp, path)
							syscall.Close(f)
						}
						if early == nil {
							r := <-rd
							early = &r
						}
						if c15Panicked(early.code, early.body) {
							out.L2("panic-recovered", caseLine+" (not stalled)", fmt.Sprintf("status=%d body=%.120q", early.code, early.body))
						}
						continue
					}
					out.Count("storerace_stalled_" + rn + "_at_" + what)
					// the other request, start to finish, while the reader is stalled
					wc, wb := writers[wn](n)
					out.Count(fmt.Sprintf("storerace_writer_%s_%dxx", wn, wc/100))
					if c15Panicked(wc, wb) {
						out.L2("panic-recovered", caseLine+" request=writer", fmt.Sprintf("status=%d body=%.120q", wc, wb))
					}
					// the slow read completes
					_, _ = syscall.Write(fd, orig)
					syscall.Close(fd)
					r := <-rd
					out.Count(fmt.Sprintf("storerace_reader_%s_%dxx", rn, r.code/100))
					switch {
					case r.code == 0:
						out.L2("store-reader-hung", caseLine, r.body)
					case c15Panicked(r.code, r.body):
						out.L2("panic-recovered", caseLine, fmt.Sprintf("the stalled %s request answered %d with body %.120q after %s completed (recovered panic)", rn, r.code, r.body, wn))
					}
					// the store must still answer
					for _, probe := range []string{"show", "tags"} {
						if c, b := readers[probe](); c15Panicked(c, b) || c == 0 {
							out.L2("panic-recovered", caseLine+" after="+probe, fmt.Sprintf("status=%d body=%.120q", c, b))
						}
					}
					// leave no pipe behind
					if fi, err := os.Lstat(path); err == nil && fi.Mode()&os.ModeNamedPipe != 0 {
						tmp := path + ".c15tmp"
						_ = os.WriteFile(tmp, orig, 0o644)
						_ = os.Rename(tmp, path)
					}
				}
			}
			if !more {
				break
			}
		}
	}
	c15Do(h, "DELETE", "/api/delete", api.DeleteRequest{Model: victim})
	c15Do(h, "DELETE", "/api/delete", api.DeleteRequest{Model: "derived"})
	c15Do(h, "DELETE", "/api/delete", api.DeleteRequest{Model: "copied"})
	_ = rng
}

type c15Worker struct {
	mu   sync.Mutex // worker-local: only the final reader ever contends
	logs []c15Log
}

// c15Round hammers one fresh server instance for `per`.
func c15Round(t *testing.T, out *zzverif.Out, root *zzverif.Rng, round int, per time.Duration, workers int, base []string, shortToPath map[string]string) {
	ctx, cancel := context.WithCancel(context.Background())
	defer cancel()
	sched := InitScheduler(ctx)
	sched.getGpuFn = func() discover.GpuInfoList {
		g := discover.GpuInfo{Library: "metal"}
		g.TotalMemory = 24 * format.GigaByte
		g.FreeMemory = 12 * format.GigaByte
		return []discover.GpuInfo{g}
	}
	sched.getCpuFn = func() discover.GpuInfoList {
		g := discover.GpuInfo{Library: "cpu"}
		g.TotalMemory = 32 * format.GigaByte
		g.FreeMemory = 26 * format.GigaByte
		return []discover.GpuInfo{g}
	}
	var rmu sync.Mutex // taken by the scheduler's pending loop (and, after the run, the reader) only
	var runners []*c15Runner
	sched.newServerFn = func(gpus discover.GpuInfoList, model string, f *ggml.GGML, adapters []string, projectors []string, opts api.Options, numParallel int) (llm.LlamaServer, error) {
		r := &c15Runner{modelPath: model, created: time.Now(), vram: 1 << 20}
		rmu.Lock()
		if len(runners)%5 == 3 {
			r.loadMode = 1 // every fifth load fails: ps must cope with a runner torn down right after loading
		}
		runners = append(runners, r)
		rmu.Unlock()
		return r, nil
	}
	s := &Server{sched: sched}
	h, err := s.GenerateRoutes(nil)
	if err != nil {
		t.Fatalf("C15-SETUP: %v", err)
	}
	sched.Run(ctx)

	stopAt := time.Now().Add(per)
	ws := make([]*c15Worker, workers)
	done := make(chan struct{}, workers)
	for wi := 0; wi < workers; wi++ {
		ws[wi] = &c15Worker{}
		go func(wi int, rng *zzverif.Rng, w *c15Worker) {
			defer func() { done <- struct{}{} }()
			n := 0
			for time.Now().Before(stopAt) {
				n++
				model := zzverif.Pick(rng, base)
				ka := zzverif.Pick(rng, []string{"0s", "1ms", "20ms", "1s"})
				var kaD api.Duration
				_ = kaD.UnmarshalJSON([]byte(`"` + ka + `"`))
				tmp := fmt.Sprintf("tmp%d-%d", wi, n%3)
				var op string
				var code int
				var body string
				t0 := time.Now()
				// every third worker mostly lists running models and loads/unloads: the clause under test
				k := rng.Intn(100)
				if wi%3 == 0 {
					k = rng.Intn(66)
				}
				switch {
				case k < 25:
					op = "ps"
					code, body = c15PS(h)
				case k < 40:
					op = "generate"
					if rng.Intn(6) == 0 {
						// a client that goes away almost at once (often while the model is loading)
						op = "generate-disconnect"
						code, body = c15DoCtx(context.Background(), time.Duration(200+rng.Intn(1500))*time.Microsecond, h, "POST", "/api/generate",
							api.GenerateRequest{Model: model, Prompt: "hi", Stream: &stream, KeepAlive: &kaD})
						break
					}
					code, body = c15Do(h, "POST", "/api/generate", api.GenerateRequest{Model: model, Prompt: "hi", Stream: &stream, KeepAlive: &kaD})
				case k < 50:
					op = "chat"
					code, body = c15Do(h, "POST", "/api/chat", api.ChatRequest{Model: model, Messages: []api.Message{{Role: "user", Content: "hi"}}, Stream: &stream, KeepAlive: &kaD})
				case k < 58:
					op = "embed"
					code, body = c15Do(h, "POST", "/api/embed", api.EmbedRequest{Model: model, Input: "a b c", KeepAlive: &kaD})
				case k < 66:
					op = "unload"
					zero := api.Duration{}
					if rng.Bool() {
						code, body = c15Do(h, "POST", "/api/generate", api.GenerateRequest{Model: model, KeepAlive: &zero})
					} else {
						code, body = c15Do(h, "POST", "/api/chat", api.ChatRequest{Model: model, KeepAlive: &zero})
					}
				case k < 72:
					op = "tags"
					code, body = c15Do(h, "GET", "/api/tags", nil)
				case k < 78:
					op = "show"
					code, body = c15Do(h, "POST", "/api/show", api.ShowRequest{Model: model})
				case k < 83:
					op = "create"
					code, body = c15Do(h, "POST", "/api/create", api.CreateRequest{Model: tmp, From: model, System: fmt.Sprintf("s%d", n), Stream: &stream})
				case k < 88:
					op = "copy"
					code, body = c15Do(h, "POST", "/api/copy", api.CopyRequest{Source: model, Destination: tmp})
				case k < 93:
					op = "delete"
					code, body = c15Do(h, "DELETE", "/api/delete", api.DeleteRequest{Model: tmp})
				default:
					op = "blob"
					data := []byte(fmt.Sprintf("blob-%d-%d", wi, rng.Intn(4)))
					code, body = c15Do(h, "POST", fmt.Sprintf("/api/blobs/sha256:%x", sha256.Sum256(data)), data)
					if rng.Bool() {
						c15Do(h, "HEAD", fmt.Sprintf("/api/blobs/sha256:%x", sha256.Sum256(data)), nil)
					}
				}
				l := c15Log{op: op, status: code, t0: t0, t1: time.Now()}
				if op == "ps" || code >= 500 || code == 0 {
					l.body = body
				}
				w.mu.Lock()
				w.logs = append(w.logs, l)
				w.mu.Unlock()
			}
		}(wi, root.Fork(), ws[wi])
	}
	// the pinned scheduler can deadlock (updateFreeSpace: loadedMu then refMu; the unload path:
	// refMu then loadedMu) and scheduleRunner does not watch the request context: do not wait
	// for ever for workers stuck behind it
	out.Count("rounds")
	finished := 0
	deadline := time.After(per + 12*time.Second)
wait:
	for finished < workers {
		select {
		case <-done:
			finished++
		case <-deadline:
			break wait
		}
	}
	if finished < workers {
		out.Count("rounds_scheduler_wedged")
		out.Add("workers_stuck", workers-finished)
	} else {
		time.Sleep(300 * time.Millisecond) // let keep-alive timers and unloads settle
	}
	cancel()
	time.Sleep(20 * time.Millisecond)

	// ---- L2 monitors ----
	rmu.Lock()
	rs := append([]*c15Runner{}, runners...)
	rmu.Unlock()
	live := func(path string, t0, t1 time.Time) bool {
		for _, r := range rs {
			if c := r.closedAt(); r.modelPath == path && !r.created.After(t1) && (c.IsZero() || !c.Before(t0)) {
				return true
			}
		}
		return false
	}
	for _, w := range ws {
		w.mu.Lock()
		logs := w.logs
		w.mu.Unlock()
		for _, l := range logs {
			out.Count("cases")
			out.Count("op_" + l.op)
			out.Count(fmt.Sprintf("status_%dxx", l.status/100))
			if l.op != "ps" && l.status == 0 {
				// scheduleRunner does not watch the request context (C02's concern): counted only
				out.Count("abandoned_" + l.op)
			}
			if l.op == "ps" && l.status == 0 {
				out.L2("ps-hung", fmt.Sprintf("seed=%d round=%d op=ps", zzverif.Seed(), round), "GET /api/ps did not return: "+l.body)
			}
			if l.status >= 500 {
				if c15Panicked(l.status, l.body) {
					// not the handler's own JSON error: gin's Recovery answered (a handler panicked)
					out.L2("panic-recovered", fmt.Sprintf("seed=%d round=%d op=%s", zzverif.Seed(), round, l.op), fmt.Sprintf("status=%d body=%.80q", l.status, l.body))
				} else {
					// an error the handler reported itself (e.g. a manifest deleted under a
					// concurrent list): not a panic, outside C15's statement; counted only
					out.Count("status_5xx_reported_by_handler_" + l.op)
				}
			}
			if l.op == "ps" && l.status == 200 {
				var pr api.ProcessResponse
				if err := json.Unmarshal([]byte(l.body), &pr); err != nil {
					out.L2("ps-unparsable", "op=ps", err.Error())
					continue
				}
				out.Add("ps_models_listed", len(pr.Models))
				if len(pr.Models) > 0 {
					out.Count("ps_nonempty")
				}
				for _, m := range pr.Models {
					p, ok := shortToPath[m.Name]
					if !ok {
						out.L2("ps-unknown-model", "op=ps", m.Name)
						continue
					}
					if !live(p, l.t0, l.t1) {
						out.L2("ps-torn-down-runner", fmt.Sprintf("seed=%d round=%d op=ps", zzverif.Seed(), round), fmt.Sprintf("model %s listed but no runner of it was alive during the request%s", m.Name, c15Why(rs, p, l.t0, l.t1)))
					}
					if m.Size != 1<<20 || m.SizeVRAM != 1<<20 {
						out.L2("ps-torn-fields", fmt.Sprintf("seed=%d round=%d op=ps", zzverif.Seed(), round), fmt.Sprintf("model %s size=%d vram=%d", m.Name, m.Size, m.SizeVRAM))
					}
				}
			}
		}
	}
	out.Add("runners_created", len(rs))
	for _, r := range rs {
		if !r.closedAt().IsZero() {
			out.Count("runners_closed")
		}
	}
}
