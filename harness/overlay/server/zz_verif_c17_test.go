package server

// Verification driver for C17 (streaming / non-streaming / OpenAI-compatible responses carry
// the same result).  Added to the package at build time with `go test -overlay`; never
// committed to /repo.
//
// A scripted llm.LlamaServer replays one split of a model output (+ optional failure) through
// the REAL router (GenerateRoutes: GenerateHandler, ChatHandler, streamResponse, the openai
// middleware writers) and, for the native endpoints, through the real api.Client.  Per request
// the driver writes the oracle command (ops.txt) and the canonical observation (impl.txt); per
// group (one split x one ending, all request shapes) it evaluates the property itself (L2).

import (
	"bytes"
	"context"
	"encoding/json"
	"errors"
	"fmt"
	"io"
	"net/http"
	"net/http/httptest"
	"net/url"
	"os"
	"regexp"
	"sort"
	"strconv"
	"strings"
	"testing"
	"time"

	"github.com/gin-gonic/gin"

	"github.com/ollama/ollama/api"
	"github.com/ollama/ollama/discover"
	"github.com/ollama/ollama/fs/ggml"
	"github.com/ollama/ollama/llm"
	"github.com/ollama/ollama/types/model"
	"github.com/ollama/ollama/zzverif"
)

// ---------------------------------------------------------------- scripted runner

type vc17Runner struct {
	llm.LlamaServer
	chunks    []llm.CompletionResponse
	err       error
	promptLen int
	calls     int
	// faults outside Completion: the method fails whenever it is called during the request
	loadErr, tokErr, detokErr error
}

const (
	vc17LoadMsg  = "load failed: runner gone"
	vc17TokMsg   = "tokenize failed: runner gone"
	vc17DetokMsg = "detokenize failed: runner gone"
	vc17BoomMsg  = "runner failed: boom"
	// text of the error the handlers send for a run that ends without a done chunk (server.errIncompleteResponse; spelled
	// out so that the driver still builds on a tree without that repair — the Tie compares the OBSERVED text with the model)
	vc17IncompleteMsg = "model runner stopped without completing the response"
)

func (m *vc17Runner) Completion(_ context.Context, r llm.CompletionRequest, fn func(llm.CompletionResponse)) error {
	m.promptLen = len(r.Prompt)
	m.calls++
	for _, c := range m.chunks {
		fn(c)
	}
	return m.err
}

// Tokenize: the harness tokenizer s -> [len s] (the model records the same number)
func (m *vc17Runner) Tokenize(_ context.Context, s string) ([]int, error) {
	if m.tokErr != nil {
		return nil, m.tokErr
	}
	return []int{len(s)}, nil
}

// Detokenize: a fixed text for any supplied context
func (m *vc17Runner) Detokenize(_ context.Context, _ []int) (string, error) {
	if m.detokErr != nil {
		return "", m.detokErr
	}
	return "earlier turn. ", nil
}

// ---------------------------------------------------------------- decoded observations

type vc17Call struct {
	name, args string
	index      int
}

// one native message / error line, or one OpenAI event
type vc17Ev struct {
	tag     string // g c e | k u D K t T E | ?...
	text    string
	calls   []vc17Call
	named   string // 1, 0, ?
	done    bool
	reason  string
	pec, ec int
	ctx     string
	finish  *string
	usage   *[3]int
}

// vc17Hex renders a byte string of an observation exactly like the oracle's hexL: hex, or
// #<length>:<fnv1a64> beyond 1024 bytes.
func vc17Hex(s string) string {
	if len(s) > 1024 {
		h := uint64(14695981039346656037)
		for i := 0; i < len(s); i++ {
			h ^= uint64(s[i])
			h *= 1099511628211
		}
		return fmt.Sprintf("#%d:%d", len(s), h)
	}
	return zzverif.Hex([]byte(s))
}

// vc17Enc is the compact INPUT encoding of a byte string (oracle `cbytes`, vc17Dec): `-` or segments
// joined by '+', a segment being hex or z<count>x<hexunit> for a unit repeated count times.
func vc17Enc(s string) string {
	if len(s) <= 512 {
		return zzverif.Hex([]byte(s))
	}
	var segs []string
	lit := 0
	flush := func(to int) {
		if to > lit {
			segs = append(segs, zzverif.Hex([]byte(s[lit:to])))
		}
	}
	for i := 0; i < len(s); {
		jumped := false
		for _, p := range []int{1, 2, 4, 8, 16} {
			if i+2*p > len(s) || s[i:i+p] != s[i+p:i+2*p] {
				continue
			}
			k := 2
			for i+(k+1)*p <= len(s) && s[i:i+p] == s[i+k*p:i+(k+1)*p] {
				k++
			}
			if k*p >= 128 {
				flush(i)
				segs = append(segs, fmt.Sprintf("z%dx%s", k, zzverif.Hex([]byte(s[i:i+p]))))
				i += k * p
				lit = i
				jumped = true
				break
			}
		}
		if !jumped {
			i++
		}
	}
	flush(len(s))
	return strings.Join(segs, "+")
}

func vc17Dec(t string) string {
	if t == "-" {
		return ""
	}
	var b strings.Builder
	for _, seg := range strings.Split(t, "+") {
		if rest, ok := strings.CutPrefix(seg, "z"); ok {
			n, unit, _ := strings.Cut(rest, "x")
			k, _ := strconv.Atoi(n)
			b.WriteString(strings.Repeat(string(zzverif.Unhex(unit)), k))
		} else {
			b.Write(zzverif.Unhex(seg))
		}
	}
	return b.String()
}

func vc17Calls(cs []vc17Call) string {
	if len(cs) == 0 {
		return "-"
	}
	parts := make([]string, len(cs))
	for i, c := range cs {
		parts[i] = fmt.Sprintf("%s/%s/%d", vc17Hex(c.name), vc17Hex(c.args), c.index)
	}
	return strings.Join(parts, ",")
}

func vc17B(b bool) string {
	if b {
		return "1"
	}
	return "0"
}

func vc17Opt(s *string) string {
	if s == nil {
		return "-"
	}
	return vc17Hex(*s)
}

func vc17Usage(u *[3]int) string {
	if u == nil {
		return "-"
	}
	return fmt.Sprintf("%d/%d/%d", u[0], u[1], u[2])
}

func (e vc17Ev) info() string {
	return fmt.Sprintf("m%s:d%s:%s:%d:%d", e.named, vc17B(e.done), vc17Hex(e.reason), e.pec, e.ec)
}

// String renders exactly like the Lean oracle (Oracle/C17.lean show*).
func (e vc17Ev) String() string {
	h := vc17Hex(e.text)
	switch e.tag {
	case "g":
		return fmt.Sprintf("g:%s:%s:%s", h, e.info(), e.ctx)
	case "c":
		return fmt.Sprintf("c:%s:%s:%s", h, vc17Calls(e.calls), e.info())
	case "e":
		return "e:" + h
	case "k":
		return fmt.Sprintf("k:%s:%s:%s", h, vc17Calls(e.calls), vc17Opt(e.finish))
	case "u":
		return "u:" + vc17Usage(e.usage)
	case "D":
		return "D"
	case "K":
		return fmt.Sprintf("K:m%s:%s:%s:%s:%s", e.named, h, vc17Calls(e.calls), vc17Opt(e.finish), vc17Usage(e.usage))
	case "t":
		return fmt.Sprintf("t:%s:%s:%s", h, vc17Opt(e.finish), vc17Usage(e.usage))
	case "T":
		return fmt.Sprintf("T:%s:%s:%s", h, vc17Opt(e.finish), vc17Usage(e.usage))
	case "E":
		return "E:" + h
	}
	return e.tag
}

func vc17Strict(data []byte, v any) error {
	d := json.NewDecoder(bytes.NewReader(data))
	d.DisallowUnknownFields()
	return d.Decode(v)
}

func vc17Args(a api.ToolCallFunctionArguments) string {
	b, err := json.Marshal(a)
	if err != nil {
		return "?" + err.Error()
	}
	return string(b)
}

func vc17Named(model, reqModel string, role *string) string {
	if model == reqModel && (role == nil || *role == "assistant") {
		return "1"
	}
	if model == "" && (role == nil || *role == "") {
		return "0"
	}
	return "?"
}

func vc17GenEv(r api.GenerateResponse, reqModel string) vc17Ev {
	ev := vc17Ev{tag: "g", text: r.Response, named: vc17Named(r.Model, reqModel, nil), done: r.Done,
		reason: r.DoneReason, pec: r.PromptEvalCount, ec: r.EvalCount, ctx: "-"}
	if r.Context != nil {
		parts := make([]string, len(r.Context))
		for i, t := range r.Context {
			parts[i] = strconv.Itoa(t)
		}
		ev.ctx = strings.Join(parts, ",")
	}
	return ev
}

func vc17ChatEv(r api.ChatResponse, reqModel string) vc17Ev {
	role := r.Message.Role
	ev := vc17Ev{tag: "c", text: r.Message.Content, named: vc17Named(r.Model, reqModel, &role), done: r.Done,
		reason: r.DoneReason, pec: r.PromptEvalCount, ec: r.EvalCount}
	for _, tc := range r.Message.ToolCalls {
		ev.calls = append(ev.calls, vc17Call{tc.Function.Name, vc17Args(tc.Function.Arguments), tc.Function.Index})
	}
	if len(r.Message.Images) > 0 {
		ev.tag = "?images"
	}
	return ev
}

// vc17CanonJSON re-encodes a JSON text canonically (sorted keys, Go string escaping, last duplicate
// key wins) WITHOUT interpreting numbers: number literals are kept as written (json.Number).
func vc17CanonJSON(raw []byte) string {
	d := json.NewDecoder(bytes.NewReader(raw))
	d.UseNumber()
	var v any
	if err := d.Decode(&v); err != nil {
		return "?invalid-json:" + string(raw)
	}
	if d.More() {
		return "?trailing-json:" + string(raw)
	}
	b, err := json.Marshal(v)
	if err != nil {
		return "?" + err.Error()
	}
	return string(b)
}

// the tool calls of a native chat line, taken from the raw bytes (arguments never pass through float64)
type vc17WireChat struct {
	Message struct {
		Role      string `json:"role"`
		Content   string `json:"content"`
		ToolCalls []struct {
			Function struct {
				Index     int             `json:"index"`
				Name      string          `json:"name"`
				Arguments json.RawMessage `json:"arguments"`
			} `json:"function"`
		} `json:"tool_calls"`
	} `json:"message"`
}

func vc17WireCalls(line []byte) ([]vc17Call, bool) {
	calls, _, _, ok := vc17WireMsg(line)
	return calls, ok
}

func vc17WireMsg(line []byte) ([]vc17Call, string, string, bool) {
	var w vc17WireChat
	if err := json.Unmarshal(line, &w); err != nil {
		return nil, "", "", false
	}
	var out []vc17Call
	for _, tc := range w.Message.ToolCalls {
		out = append(out, vc17Call{tc.Function.Name, vc17CanonJSON(tc.Function.Arguments), tc.Function.Index})
	}
	return out, w.Message.Role, w.Message.Content, true
}

// one line of a native body (NDJSON line, or the single non-stream JSON body)
func vc17Native(kind string, line []byte, reqModel string) vc17Ev {
	var probe map[string]json.RawMessage
	if err := json.Unmarshal(line, &probe); err != nil {
		return vc17Ev{tag: "?json"}
	}
	if e, ok := probe["error"]; ok {
		var s string
		if err := json.Unmarshal(e, &s); err != nil || len(probe) != 1 {
			return vc17Ev{tag: "?error-shape"}
		}
		return vc17Ev{tag: "e", text: s}
	}
	if kind == "gen" {
		var r api.GenerateResponse
		if err := vc17Strict(line, &r); err != nil {
			return vc17Ev{tag: "?gen:" + err.Error()}
		}
		return vc17GenEv(r, reqModel)
	}
	var r api.ChatResponse
	lenient := false
	if err := vc17Strict(line, &r); err != nil {
		// a number literal that Go's float64 cannot hold is the api type's limit, not a malformed
		// line: everything else is decoded, the arguments are taken from the raw bytes below
		var te *json.UnmarshalTypeError
		if !errors.As(err, &te) || te.Value[:min(6, len(te.Value))] != "number" {
			return vc17Ev{tag: "?chat:" + err.Error()}
		}
		lenient = true // the api type dropped the field holding that number
		if _, role, content, ok := vc17WireMsg(line); ok {
			r.Message.Role, r.Message.Content = role, content
		}
	}
	ev := vc17ChatEv(r, reqModel)
	calls, ok := vc17WireCalls(line)
	if !ok || (!lenient && len(calls) != len(ev.calls)) {
		return vc17Ev{tag: "?chat-tool-calls"}
	}
	ev.calls = calls
	return ev
}

type vc17OaCall struct {
	ID       string `json:"id"`
	Index    int    `json:"index"`
	Type     string `json:"type"`
	Function struct {
		Name      string `json:"name"`
		Arguments string `json:"arguments"`
	} `json:"function"`
}

type vc17OaMsg struct {
	Role      string       `json:"role"`
	Content   any          `json:"content"`
	ToolCalls []vc17OaCall `json:"tool_calls"`
}

type vc17OaBody struct {
	ID                string `json:"id"`
	Object            string `json:"object"`
	Created           int64  `json:"created"`
	Model             string `json:"model"`
	SystemFingerprint string `json:"system_fingerprint"`
	Choices           []struct {
		Index        int        `json:"index"`
		Text         *string    `json:"text"`
		Message      *vc17OaMsg `json:"message"`
		Delta        *vc17OaMsg `json:"delta"`
		FinishReason *string    `json:"finish_reason"`
	} `json:"choices"`
	Usage *struct {
		P int `json:"prompt_tokens"`
		C int `json:"completion_tokens"`
		T int `json:"total_tokens"`
	} `json:"usage"`
	Error *struct {
		Message string  `json:"message"`
		Type    string  `json:"type"`
		Param   any     `json:"param"`
		Code    *string `json:"code"`
	} `json:"error"`
}

func vc17OaMsgEv(tag string, m *vc17OaMsg, ev *vc17Ev) {
	ev.tag = tag
	s, ok := m.Content.(string)
	if !ok {
		ev.tag = "?content"
	}
	ev.text = s
	ev.named = "1"
	if m.Role == "" && tag == "K" {
		ev.named = "0" // the zero-value reply of a run that delivered nothing
	} else if m.Role != "assistant" {
		ev.tag = "?role"
	}
	for _, tc := range m.ToolCalls {
		if tc.Type != "function" || !strings.HasPrefix(tc.ID, "call_") {
			ev.tag = "?toolcall"
		}
		ev.calls = append(ev.calls, vc17Call{tc.Function.Name, vc17CanonJSON([]byte(tc.Function.Arguments)), tc.Index})
	}
}

// one OpenAI JSON payload (SSE data or the non-stream body)
func vc17Oa(data []byte, stream bool) vc17Ev {
	var b vc17OaBody
	if err := vc17Strict(data, &b); err != nil {
		return vc17Ev{tag: "?oa:" + err.Error()}
	}
	if b.Error != nil {
		if b.Error.Type != "api_error" || b.Error.Param != nil || b.Error.Code != nil {
			return vc17Ev{tag: "?oa-error-shape"}
		}
		return vc17Ev{tag: "E", text: b.Error.Message}
	}
	if b.SystemFingerprint != "fp_ollama" {
		return vc17Ev{tag: "?fingerprint"}
	}
	var usage *[3]int
	if b.Usage != nil {
		usage = &[3]int{b.Usage.P, b.Usage.C, b.Usage.T}
	}
	if len(b.Choices) == 0 {
		if !stream || usage == nil {
			return vc17Ev{tag: "?no-choices"}
		}
		return vc17Ev{tag: "u", usage: usage}
	}
	if len(b.Choices) != 1 || b.Choices[0].Index != 0 {
		return vc17Ev{tag: "?choices"}
	}
	c := b.Choices[0]
	ev := vc17Ev{finish: c.FinishReason, usage: usage}
	switch {
	case b.Object == "chat.completion.chunk" && stream && c.Delta != nil && c.Message == nil && c.Text == nil:
		vc17OaMsgEv("k", c.Delta, &ev)
		if usage != nil {
			ev.tag = "?chunk-usage"
		}
	case b.Object == "chat.completion" && !stream && c.Message != nil && c.Delta == nil && c.Text == nil:
		vc17OaMsgEv("K", c.Message, &ev)
	case b.Object == "text_completion" && c.Text != nil && c.Message == nil && c.Delta == nil:
		ev.text = *c.Text
		ev.tag = "t"
		if !stream {
			ev.tag = "T"
		}
	default:
		return vc17Ev{tag: "?object:" + b.Object}
	}
	if (ev.tag == "K" || ev.tag == "T") && usage == nil {
		ev.tag = "?usage"
	}
	return ev
}

// ---------------------------------------------------------------- harness

type vc17H struct {
	t      *testing.T
	router http.Handler
	run    *vc17Runner
	out    *zzverif.Out
	client *api.Client
	tools  *Model
	pcache map[string][]vc17Call
	rt     *vc17RT
	climit int
	groupN int  // groups run so far (the early-reply shapes run on every 8th group and on every fault group)
	all    bool // replay: every shape
	lcN    int  // classified load faults generated so far
}

type vc17RT struct {
	h    http.Handler
	last []byte // the body handed to api.Client by the last request
}

func (rt *vc17RT) RoundTrip(req *http.Request) (*http.Response, error) {
	w := NewRecorder()
	rt.h.ServeHTTP(w, req)
	rt.last = append([]byte(nil), w.Body.Bytes()...)
	return w.Result(), nil
}

// the scanner limit of the UNCHANGED api.Client (api/client.go maxBufferSize = 512 * format.KiloByte); the
// check re-reads it from the source (VERIF_C17_CLIENT_MAX)
const vc17ClientMaxDoc = 512000

const (
	vc17Plain = "vplain"
	vc17Tools = "vtools"
)

var vc17ToolDefs = json.RawMessage(`[{"type":"function","function":{"name":"get_weather","description":"d","parameters":{"type":"object","required":["city"],"properties":{"city":{"type":"string","description":"c"}}}}}]`)

func vc17Setup(t *testing.T) *vc17H {
	gin.SetMode(gin.TestMode)
	gin.DefaultWriter = io.Discard
	gin.DefaultErrorWriter = io.Discard
	t.Setenv("OLLAMA_MODELS", t.TempDir())
	t.Setenv("OLLAMA_MAX_LOADED_MODELS", "3")

	run := &vc17Runner{}
	cpu := func() discover.GpuInfoList { return discover.GpuInfoList{{Library: "cpu"}} }
	s := &Server{
		sched: &Scheduler{
			pendingReqCh:  make(chan *LlmRequest, 1),
			finishedReqCh: make(chan *LlmRequest, 1),
			expiredCh:     make(chan *runnerRef, 1),
			unloadedCh:    make(chan any, 1),
			loaded:        make(map[string]*runnerRef),
			newServerFn: func(discover.GpuInfoList, string, *ggml.GGML, []string, []string, api.Options, int) (llm.LlamaServer, error) {
				return run, nil
			},
			getGpuFn:     cpu,
			getCpuFn:     cpu,
			reschedDelay: 250 * time.Millisecond,
			// the runner is handed over directly: nothing is recorded as loaded, so no
			// keep-alive / expiry timer is ever armed and no wall-clock time is involved
			loadFn: func(req *LlmRequest, _ *ggml.GGML, _ discover.GpuInfoList, _ int) {
				if run.loadErr != nil {
					req.errCh <- run.loadErr
					return
				}
				req.successCh <- &runnerRef{llama: run}
			},
		},
	}
	ctx, cancel := context.WithCancel(context.Background())
	t.Cleanup(cancel)
	go s.sched.Run(ctx)

	_, digest := createBinFile(t, ggml.KV{
		"general.architecture":          "llama",
		"llama.block_count":             uint32(1),
		"llama.context_length":          uint32(8192),
		"llama.embedding_length":        uint32(4096),
		"llama.attention.head_count":    uint32(32),
		"llama.attention.head_count_kv": uint32(8),
		"tokenizer.ggml.tokens":         []string{""},
		"tokenizer.ggml.scores":         []float32{0},
		"tokenizer.ggml.token_type":     []int32{0},
	}, []ggml.Tensor{
		{Name: "token_embd.weight", Shape: []uint64{1}, WriterTo: bytes.NewReader(make([]byte, 4))},
		{Name: "blk.0.attn_norm.weight", Shape: []uint64{1}, WriterTo: bytes.NewReader(make([]byte, 4))},
		{Name: "blk.0.ffn_down.weight", Shape: []uint64{1}, WriterTo: bytes.NewReader(make([]byte, 4))},
		{Name: "blk.0.ffn_gate.weight", Shape: []uint64{1}, WriterTo: bytes.NewReader(make([]byte, 4))},
		{Name: "blk.0.ffn_up.weight", Shape: []uint64{1}, WriterTo: bytes.NewReader(make([]byte, 4))},
		{Name: "blk.0.ffn_norm.weight", Shape: []uint64{1}, WriterTo: bytes.NewReader(make([]byte, 4))},
		{Name: "blk.0.attn_k.weight", Shape: []uint64{1}, WriterTo: bytes.NewReader(make([]byte, 4))},
		{Name: "blk.0.attn_output.weight", Shape: []uint64{1}, WriterTo: bytes.NewReader(make([]byte, 4))},
		{Name: "blk.0.attn_q.weight", Shape: []uint64{1}, WriterTo: bytes.NewReader(make([]byte, 4))},
		{Name: "blk.0.attn_v.weight", Shape: []uint64{1}, WriterTo: bytes.NewReader(make([]byte, 4))},
		{Name: "output.weight", Shape: []uint64{1}, WriterTo: bytes.NewReader(make([]byte, 4))},
	})
	noStream := false
	for name, tmpl := range map[string]string{
		vc17Plain: `{{- range .Messages }}{{ .Role }}: {{ .Content }}
{{ end }}`,
		vc17Tools: `
{{- if .Tools }}
{{ .Tools }}
{{ end }}
{{- range .Messages }}
{{- .Role }}: {{ .Content }}
{{- range .ToolCalls }}{"name": "{{ .Function.Name }}", "arguments": {{ .Function.Arguments }}}
{{- end }}
{{ end }}`,
	} {
		w := createRequest(t, s.CreateHandler, api.CreateRequest{
			Model: name, Files: map[string]string{"file.gguf": digest}, Template: tmpl, Stream: &noStream,
		})
		if w.Code != http.StatusOK {
			t.Fatalf("create %s: status %d: %s", name, w.Code, w.Body.String())
		}
	}
	router, err := s.GenerateRoutes(nil)
	if err != nil {
		t.Fatal(err)
	}
	tm, err := GetModel(vc17Tools)
	if err != nil {
		t.Fatal(err)
	}
	h := &vc17H{t: t, router: router, run: run, out: zzverif.NewOut(), tools: tm, pcache: map[string][]vc17Call{}}
	h.rt = &vc17RT{h: router}
	h.climit = zzverif.EnvInt("VERIF_C17_CLIENT_MAX", vc17ClientMaxDoc)
	h.client = api.NewClient(&url.URL{Scheme: "http", Host: "verif.local"}, &http.Client{Transport: h.rt})
	return h
}

// parse: the REAL parseToolCalls of the tools model (memoised; it is a pure function of s for
// this template)
func (h *vc17H) parse(s string) []vc17Call {
	if v, ok := h.pcache[s]; ok {
		return v
	}
	tcs, ok := h.tools.parseToolCalls(s)
	var out []vc17Call
	if ok {
		for _, tc := range tcs {
			out = append(out, vc17Call{tc.Function.Name, vc17Args(tc.Function.Arguments), 0})
		}
	}
	h.pcache[s] = out
	return out
}

// ---------------------------------------------------------------- cases

// a group: one split of one output + one ending, run through every request shape
type vc17Group struct {
	pieces []string
	mask   uint64 // bit i set = cut between piece i and piece i+1
	end    string // ok | err | silent
	k      int    // err/silent: number of content chunks delivered before the end
	doneB  bool   // ok: the last content chunk itself carries done (instead of a separate empty done chunk)
	pec    int
	ec     int
	reason int    // llm.DoneReason of the done chunk
	nz     bool   // non-final chunks carry (irrelevant) non-zero counts
	fmtJS  bool   // requests ask for format json
	fault  string // none | load | detok | tok: runner method that fails outside Completion
	lclass string // fault=load: class of the scheduler's error ("" other | cap | cancel | queue | notexist)
	conv   string // conversation of the ctx chat shapes (letters s u a A t); "" = uau
}

func (g vc17Group) String() string {
	ps := make([]string, len(g.pieces))
	for i, p := range g.pieces {
		ps[i] = vc17Enc(p)
	}
	return fmt.Sprintf("grp pieces=%s mask=%d end=%s k=%d doneB=%s pec=%d ec=%d reason=%d nz=%s fmt=%s fault=%s conv=%s",
		strings.Join(ps, ","), g.mask, g.end, g.k, vc17B(g.doneB), g.pec, g.ec, g.reason, vc17B(g.nz), vc17B(g.fmtJS), g.fltLine(), g.convOf(vc17Shape{ctx: true}))
}

func (g vc17Group) flt() string {
	if g.fault == "" {
		return "none"
	}
	return g.fault
}

// fltLine: the fault as printed in the group line (load/<class> for a classified scheduler error)
func (g vc17Group) fltLine() string {
	if g.fault == "load" && g.lclass != "" {
		return "load/" + g.lclass
	}
	return g.flt()
}

// the scheduler's error for a load fault, by class, and what handleScheduleError must make of it
func (g vc17Group) loadError() error {
	switch g.lclass {
	case "cap":
		return fmt.Errorf("%w: verif", errCapabilities)
	case "cancel":
		return fmt.Errorf("load: %w", context.Canceled)
	case "queue":
		return ErrMaxQueue
	case "notexist":
		return fmt.Errorf("stat blob: %w", os.ErrNotExist)
	}
	return errors.New(vc17LoadMsg)
}

func (g vc17Group) loadExpect(s vc17Shape) (int, string) {
	switch g.lclass {
	case "cap":
		return 400, "does not support: verif"
	case "cancel":
		return 499, "request canceled"
	case "queue":
		return 503, "server busy, please try again.  maximum pending requests exceeded"
	case "notexist":
		return 404, fmt.Sprintf("model %q not found, try pulling it first", s.model)
	}
	return 500, vc17LoadMsg
}

// expectPre: what the handler must answer BEFORE the runner is started, in the order of the code:
// status+message of a failure, or the done_reason of an early reply ("load"/"unload"); 0,"","" = goes on
func (g vc17Group) expectPre(s vc17Shape) (int, string, string) {
	gen := s.ep == "gen" || s.ep == "oacmpl" || s.ep == "cgen"
	if s.empty && s.ka0 {
		return 0, "", "unload"
	}
	if gen && s.raw && s.ctx {
		return 400, "raw mode does not support template, system, or context", ""
	}
	if !gen && s.noToolSupport() {
		return 400, model.ParseName(s.model).String() + " does not support tools", ""
	}
	if g.flt() == "load" {
		st, msg := g.loadExpect(s)
		return st, msg, ""
	}
	if s.empty {
		return 0, "", "load"
	}
	return 0, "", ""
}

// expectErr: the error the request must report (""= none), from which method fails and which
// methods the request shape makes the handler call
func (g vc17Group) expectErr(s vc17Shape) string {
	gen := s.ep == "gen" || s.ep == "oacmpl" || s.ep == "cgen"
	if _, msg, early := g.expectPre(s); msg != "" || early != "" {
		return msg
	}
	switch g.flt() {
	case "detok":
		if gen && s.ctx {
			return vc17DetokMsg
		}
	case "tok":
		if !gen && s.hist(g) {
			return vc17TokMsg // chatPrompt measures earlier messages
		}
		if gen && !s.raw && g.end == "ok" {
			return vc17TokMsg // `context` of the done message
		}
	}
	if g.end == "err" {
		return vc17BoomMsg
	}
	if g.end == "silent" {
		return "*" // Completion returned nil without a done chunk: some error must be reported
	}
	return ""
}

func vc17ErrIs(got, exp string) bool { return exp == "*" || got == exp }

func vc17ParseGroup(line string) (vc17Group, error) {
	var g vc17Group
	f := strings.Fields(line)
	if len(f) < 11 || f[0] != "grp" {
		return g, fmt.Errorf("bad group line %q", line)
	}
	kv := map[string]string{}
	for _, x := range f[1:] {
		k, v, _ := strings.Cut(x, "=")
		kv[k] = v
	}
	for _, p := range strings.Split(kv["pieces"], ",") {
		g.pieces = append(g.pieces, vc17Dec(p))
	}
	g.mask, _ = strconv.ParseUint(kv["mask"], 10, 64)
	g.end = kv["end"]
	g.k, _ = strconv.Atoi(kv["k"])
	g.doneB = kv["doneB"] == "1"
	g.pec, _ = strconv.Atoi(kv["pec"])
	g.ec, _ = strconv.Atoi(kv["ec"])
	g.reason, _ = strconv.Atoi(kv["reason"])
	g.nz = kv["nz"] == "1"
	g.fmtJS = kv["fmt"] == "1"
	g.fault, g.lclass, _ = strings.Cut(kv["fault"], "/")
	g.conv = kv["conv"]
	return g, nil
}

// contents returns the content chunks of the split
func (g vc17Group) contents() []string {
	var out []string
	cur := ""
	for i, p := range g.pieces {
		cur += p
		if i == len(g.pieces)-1 || g.mask&(1<<uint(i)) != 0 {
			out = append(out, cur)
			cur = ""
		}
	}
	return out
}

func (g vc17Group) chunks() ([]llm.CompletionResponse, error) {
	cs := g.contents()
	var out []llm.CompletionResponse
	n := len(cs)
	if g.end != "ok" && g.k < n {
		n = g.k
	}
	for i := 0; i < n; i++ {
		c := llm.CompletionResponse{Content: cs[i]}
		if g.nz {
			c.PromptEvalCount, c.EvalCount = 1000+i, 2000+i
		}
		out = append(out, c)
	}
	switch g.end {
	case "ok":
		fin := llm.CompletionResponse{Done: true, DoneReason: llm.DoneReason(g.reason), PromptEvalCount: g.pec, EvalCount: g.ec,
			PromptEvalDuration: 3, EvalDuration: 5}
		if g.doneB && len(out) > 0 {
			fin.Content = out[len(out)-1].Content
			out[len(out)-1] = fin
		} else {
			out = append(out, fin)
		}
		return out, nil
	case "err":
		return out, errors.New(vc17BoomMsg)
	}
	return out, nil // silent: Completion returns nil without a done chunk
}

type vc17Shape struct {
	ep     string // gen chat oachat oacmpl cgen cchat
	stream int    // 1 true, 0 false, 2 absent (= streaming for native, false for openai)
	raw    bool
	tools  bool
	usage  bool
	model  string
	ctx    bool // generate: the request supplies `context` (Detokenize is called); chat: earlier turns (chatPrompt calls Tokenize)
	empty  bool // generate: prompt ""; chat: no messages
	ka0    bool // keep_alive: 0
}

// tools requested from the model whose template cannot render them
func (s vc17Shape) noToolSupport() bool { return s.tools && s.model == vc17Plain }

// pre: the request is answered before the runner is started whatever the runner would do
func (s vc17Shape) pre() bool { return s.empty || s.noToolSupport() || (s.raw && s.ctx) }

func (s vc17Shape) String() string {
	r := fmt.Sprintf("%s/s%d/r%s/t%s/u%s/%s", s.ep, s.stream, vc17B(s.raw), vc17B(s.tools), vc17B(s.usage), s.model)
	if s.ctx {
		r += "/ctx"
	}
	if s.empty {
		r += "/empty"
	}
	if s.ka0 {
		r += "/ka0"
	}
	return r
}

func (s vc17Shape) streaming() bool {
	if s.stream == 2 {
		return s.ep != "oachat" && s.ep != "oacmpl"
	}
	return s.stream == 1
}

var vc17Shapes = []vc17Shape{
	{ep: "gen", stream: 1, model: vc17Plain}, {ep: "gen", stream: 0, model: vc17Plain},
	{ep: "gen", stream: 1, raw: true, model: vc17Plain}, {ep: "gen", stream: 0, raw: true, model: vc17Plain},
	{ep: "gen", stream: 2, model: vc17Tools},
	{ep: "gen", stream: 1, ctx: true, model: vc17Plain}, {ep: "gen", stream: 0, ctx: true, model: vc17Plain},
	{ep: "chat", stream: 1, model: vc17Plain}, {ep: "chat", stream: 0, model: vc17Plain},
	{ep: "chat", stream: 2, model: vc17Tools}, {ep: "chat", stream: 0, model: vc17Tools},
	{ep: "chat", stream: 1, tools: true, model: vc17Tools}, {ep: "chat", stream: 0, tools: true, model: vc17Tools},
	{ep: "chat", stream: 2, tools: true, model: vc17Tools},
	{ep: "chat", stream: 1, ctx: true, model: vc17Plain}, {ep: "chat", stream: 0, ctx: true, model: vc17Plain},
	{ep: "chat", stream: 1, tools: true, ctx: true, model: vc17Tools}, {ep: "chat", stream: 0, tools: true, ctx: true, model: vc17Tools},
	{ep: "chat", stream: 2, ctx: true, model: vc17Tools},
	{ep: "oachat", stream: 1, model: vc17Plain}, {ep: "oachat", stream: 0, model: vc17Plain},
	{ep: "oachat", stream: 1, usage: true, model: vc17Plain}, {ep: "oachat", stream: 2, usage: true, model: vc17Tools},
	{ep: "oachat", stream: 1, tools: true, model: vc17Tools}, {ep: "oachat", stream: 0, tools: true, model: vc17Tools},
	{ep: "oachat", stream: 1, tools: true, usage: true, model: vc17Tools},
	{ep: "oachat", stream: 1, ctx: true, model: vc17Plain}, {ep: "oachat", stream: 0, ctx: true, model: vc17Plain},
	{ep: "oachat", stream: 1, tools: true, ctx: true, model: vc17Tools}, {ep: "oachat", stream: 0, tools: true, ctx: true, model: vc17Tools},
	{ep: "oacmpl", stream: 1, model: vc17Plain}, {ep: "oacmpl", stream: 0, model: vc17Plain},
	{ep: "oacmpl", stream: 1, usage: true, model: vc17Plain}, {ep: "oacmpl", stream: 2, model: vc17Tools},
	{ep: "cgen", stream: 1, model: vc17Plain}, {ep: "cgen", stream: 0, model: vc17Plain},
	{ep: "cgen", stream: 1, ctx: true, model: vc17Plain},
	{ep: "cchat", stream: 1, model: vc17Plain}, {ep: "cchat", stream: 0, model: vc17Plain},
	{ep: "cchat", stream: 1, tools: true, model: vc17Tools}, {ep: "cchat", stream: 0, tools: true, model: vc17Tools},
	{ep: "cchat", stream: 1, ctx: true, model: vc17Plain},
	{ep: "cchat", stream: 1, tools: true, ctx: true, model: vc17Tools}, {ep: "cchat", stream: 0, tools: true, ctx: true, model: vc17Tools},
	// requests answered before the runner is started (run on every 8th group and on every fault group)
	{ep: "gen", stream: 1, empty: true, model: vc17Plain}, {ep: "gen", stream: 0, empty: true, model: vc17Plain},
	{ep: "gen", stream: 1, empty: true, ka0: true, model: vc17Plain}, {ep: "gen", stream: 0, empty: true, ka0: true, model: vc17Plain},
	{ep: "gen", stream: 1, raw: true, ctx: true, model: vc17Plain}, {ep: "gen", stream: 0, raw: true, ctx: true, model: vc17Plain},
	{ep: "gen", stream: 2, raw: true, ctx: true, empty: true, model: vc17Plain},
	{ep: "chat", stream: 1, empty: true, model: vc17Plain}, {ep: "chat", stream: 0, empty: true, model: vc17Plain},
	{ep: "chat", stream: 1, empty: true, ka0: true, model: vc17Tools}, {ep: "chat", stream: 0, empty: true, ka0: true, model: vc17Tools},
	{ep: "chat", stream: 1, tools: true, model: vc17Plain}, {ep: "chat", stream: 0, tools: true, model: vc17Plain},
	{ep: "chat", stream: 2, tools: true, empty: true, model: vc17Plain}, {ep: "chat", stream: 1, tools: true, empty: true, ka0: true, model: vc17Plain},
	{ep: "oachat", stream: 1, tools: true, model: vc17Plain}, {ep: "oachat", stream: 0, tools: true, model: vc17Plain},
	{ep: "oacmpl", stream: 1, empty: true, model: vc17Plain}, {ep: "oacmpl", stream: 0, empty: true, model: vc17Plain},
	{ep: "oacmpl", stream: 1, usage: true, empty: true, model: vc17Plain},
	{ep: "cgen", stream: 1, empty: true, model: vc17Plain}, {ep: "cgen", stream: 0, empty: true, ka0: true, model: vc17Plain},
	{ep: "cchat", stream: 1, empty: true, model: vc17Plain}, {ep: "cchat", stream: 1, tools: true, model: vc17Plain},
}

// result of one request
type vc17Res struct {
	status int
	evs    []vc17Ev
	cerr   string // client view: "ok" or the error text
	client bool
	wire   []vc17Ev // client view: the lines api.Client was handed, decoded from the raw bytes
	ctype  string   // raw views: Content-Type of the response
	ids    []string // OpenAI views: the id of every payload
	lens   []int    // client view: their lengths
}

func (r vc17Res) canon() string {
	parts := make([]string, 0, len(r.evs)+2)
	if !r.client {
		parts = append(parts, strconv.Itoa(r.status))
	}
	for _, e := range r.evs {
		parts = append(parts, e.String())
	}
	if r.client {
		parts = append(parts, ";")
		if r.cerr == "" {
			parts = append(parts, "ok")
		} else {
			parts = append(parts, "err:"+vc17Hex(r.cerr))
		}
	}
	return strings.Join(parts, " ")
}

func (h *vc17H) body(s vc17Shape, g vc17Group) []byte {
	m := map[string]any{"model": s.model}
	switch s.stream {
	case 1:
		m["stream"] = true
	case 0:
		m["stream"] = false
	}
	switch s.ep {
	case "gen":
		m["prompt"] = "Why is the sky blue?"
		if s.empty {
			m["prompt"] = ""
		}
		if s.ka0 {
			m["keep_alive"] = 0
		}
		if s.raw {
			m["raw"] = true
		}
		if s.ctx {
			m["context"] = []int{3, 1, 4}
		}
		if g.fmtJS {
			m["format"] = "json"
			m["options"] = vc17Options
			if !s.raw {
				m["system"] = "Be terse."
			}
		}
	case "chat":
		m["messages"] = vc17Msgs(s, g, false)
		if s.ka0 {
			m["keep_alive"] = 0
		}
		if s.tools {
			m["tools"] = vc17ToolDefs
		}
		if g.fmtJS {
			m["format"] = "json"
			m["options"] = vc17Options
		}
	case "oachat":
		m["messages"] = vc17Msgs(s, g, true)
		if s.tools {
			m["tools"] = vc17ToolDefs
		}
		if s.usage {
			m["stream_options"] = map[string]any{"include_usage": true}
		}
		if g.fmtJS {
			m["response_format"] = map[string]any{"type": "json_object"}
			m["stop"] = []string{"\n\n", "END"}
			m["max_tokens"] = 64
			m["seed"] = 7
			m["temperature"] = 0.5
		}
	case "oacmpl":
		m["prompt"] = "Why is the sky blue?"
		if s.empty {
			m["prompt"] = ""
		}
		if s.usage {
			m["stream_options"] = map[string]any{"include_usage": true}
		}
		if g.fmtJS {
			m["stop"] = "END"
			m["max_tokens"] = 64
			m["seed"] = 7
		}
	}
	b, err := json.Marshal(m)
	if err != nil {
		h.t.Fatal(err)
	}
	return b
}

// request options (stop, num_predict, ...) are handed to the runner untouched; the replies must not depend on them
var vc17Options = map[string]any{"stop": []string{"\n\n", "END"}, "num_predict": 64, "temperature": 0, "seed": 7}

// conversation of a chat request: one letter per message — s system, u user, a assistant,
// A assistant carrying tool_calls, t tool result.  Shapes without ctx send the single user message;
// ctx shapes send the group's conversation (default: user, assistant, user).
func (g vc17Group) convOf(s vc17Shape) string {
	if !s.ctx {
		return "u"
	}
	if g.conv == "" {
		return "uau"
	}
	return g.conv
}

// hist: the request makes the handler call the runner before Completion (generate: Detokenize of
// the supplied context; chat: Tokenize in chatPrompt, which measures only EARLIER messages)
func (s vc17Shape) hist(g vc17Group) bool {
	if s.ep == "gen" || s.ep == "oacmpl" || s.ep == "cgen" {
		return s.ctx
	}
	return !s.empty && len(g.convOf(s)) >= 2
}

// vc17Msgs renders the conversation for the native API (openai=false) or /v1/chat/completions
func vc17Msgs(s vc17Shape, g vc17Group, openai bool) []map[string]any {
	out := []map[string]any{}
	if s.empty {
		return out
	}
	conv := g.convOf(s)
	for i, c := range conv {
		switch c {
		case 's':
			out = append(out, map[string]any{"role": "system", "content": "Be brief."})
		case 'u':
			text := fmt.Sprintf("Question %d?", i)
			if i == len(conv)-1 {
				text = "What is the weather in Paris?"
			}
			out = append(out, map[string]any{"role": "user", "content": text})
		case 'a':
			out = append(out, map[string]any{"role": "assistant", "content": fmt.Sprintf("Answer %d.", i)})
		case 'A':
			if openai {
				out = append(out, map[string]any{"role": "assistant", "tool_calls": []map[string]any{{"id": "call_abcd1234", "index": 0, "type": "function",
					"function": map[string]any{"name": "get_weather", "arguments": `{"city":"Paris"}`}}}})
			} else {
				out = append(out, map[string]any{"role": "assistant", "content": "", "tool_calls": []map[string]any{{
					"function": map[string]any{"name": "get_weather", "arguments": map[string]any{"city": "Paris"}}}}})
			}
		case 't':
			out = append(out, map[string]any{"role": "tool", "content": "22C, sunny"})
		}
	}
	return out
}

var vc17IDRe = regexp.MustCompile(`"id":"((?:chatcmpl|cmpl)-[0-9]+)"`)

var vc17Paths = map[string]string{"gen": "/api/generate", "chat": "/api/chat", "oachat": "/v1/chat/completions", "oacmpl": "/v1/completions"}

func (h *vc17H) request(s vc17Shape, g vc17Group) vc17Res {
	before := h.run.calls
	h.run.promptLen = 0
	var res vc17Res
	switch s.ep {
	case "cgen", "cchat":
		res.client = true
		var stream *bool
		if s.stream != 2 {
			b := s.stream == 1
			stream = &b
		}
		var format json.RawMessage
		if g.fmtJS {
			format = json.RawMessage(`"json"`)
		}
		var err error
		if s.ep == "cgen" {
			greq := &api.GenerateRequest{Model: s.model, Prompt: "Why is the sky blue?", Stream: stream, Raw: s.raw, Format: format}
			if s.empty {
				greq.Prompt = ""
			}
			if s.ka0 {
				greq.KeepAlive = &api.Duration{}
			}
			if g.fmtJS {
				greq.Options = vc17Options
				if !s.raw {
					greq.System = "Be terse."
				}
			}
			if s.ctx {
				greq.Context = []int{3, 1, 4}
			}
			err = h.client.Generate(context.Background(), greq,
				func(r api.GenerateResponse) error { res.evs = append(res.evs, vc17GenEv(r, s.model)); return nil })
		} else {
			var cmsgs []api.Message
			mb, _ := json.Marshal(vc17Msgs(s, g, false))
			if err := json.Unmarshal(mb, &cmsgs); err != nil {
				h.t.Fatal(err)
			}
			req := &api.ChatRequest{Model: s.model, Messages: cmsgs, Stream: stream, Format: format}
			if s.ka0 {
				req.KeepAlive = &api.Duration{}
			}
			if g.fmtJS {
				req.Options = vc17Options
			}
			if s.tools {
				if err := json.Unmarshal(vc17ToolDefs, &req.Tools); err != nil {
					h.t.Fatal(err)
				}
			}
			err = h.client.Chat(context.Background(), req,
				func(r api.ChatResponse) error { res.evs = append(res.evs, vc17ChatEv(r, s.model)); return nil })
		}
		if err != nil {
			res.cerr = err.Error()
		}
		for _, line := range bytes.Split(h.rt.last, []byte("\n")) {
			if len(line) == 0 {
				continue
			}
			res.lens = append(res.lens, len(line))
			res.wire = append(res.wire, vc17Native(s.ep[1:], line, s.model))
		}
	default:
		w := NewRecorder()
		req := httptest.NewRequest(http.MethodPost, vc17Paths[s.ep], bytes.NewReader(h.body(s, g)))
		req.Header.Set("Content-Type", "application/json")
		h.router.ServeHTTP(w, req)
		res.status = w.Code
		res.ctype = w.Header().Get("Content-Type")
		raw := w.Body.Bytes()
		if s.ep == "oachat" || s.ep == "oacmpl" {
			for _, m := range vc17IDRe.FindAllSubmatch(raw, -1) {
				res.ids = append(res.ids, string(m[1]))
			}
		}
		native := s.ep == "gen" || s.ep == "chat"
		switch {
		case native:
			for _, line := range bytes.Split(raw, []byte("\n")) {
				if len(line) == 0 {
					continue
				}
				res.evs = append(res.evs, vc17Native(s.ep, line, s.model))
			}
		case s.streaming() && w.Code == http.StatusOK:
			text := string(raw)
			for text != "" {
				ev, rest, ok := strings.Cut(text, "\n\n")
				text = rest
				payload, isData := strings.CutPrefix(ev, "data: ")
				switch {
				case !ok || !isData:
					res.evs = append(res.evs, vc17Ev{tag: "?sse-framing"})
				case payload == "[DONE]":
					res.evs = append(res.evs, vc17Ev{tag: "D"})
				default:
					res.evs = append(res.evs, vc17Oa([]byte(payload), true))
				}
			}
		default:
			res.evs = append(res.evs, vc17Oa(raw, false))
		}
	}
	// Completion runs exactly once for a request that gets as far as streaming / replying 200
	if n := h.run.calls - before; n > 1 || (s.pre() && n != 0) || (!s.pre() && n != 1 && (res.client && res.cerr == "" || !res.client && res.status == 200)) {
		res.evs = append(res.evs, vc17Ev{tag: fmt.Sprintf("?runner-calls=%d", n)})
	}
	return res
}

func (h *vc17H) op(s vc17Shape, g vc17Group, chunks []llm.CompletionResponse, runErr error, table string, lens []int) string {
	var b strings.Builder
	ep := s.ep
	fmt.Fprintf(&b, "run %d %s %s %s %s %s %s %d ", zzverif.EnvInt("VERIF_C17_VARIANT", 0), ep, vc17B(s.streaming()), vc17B(s.raw), vc17B(s.tools), vc17B(s.usage), vc17B(s.hist(g)), h.run.promptLen)
	// the request as far as the handlers look at it before the runner is started: empty, keep_alive 0, tools without
	// template support, class of the scheduler's error, model name as spelled and in canonical form (real ParseName)
	lclass := g.lclass
	if lclass == "" {
		lclass = "other"
	}
	fmt.Fprintf(&b, "%s %s %s %s %s %s ", vc17B(s.empty), vc17B(s.ka0), vc17B(s.noToolSupport()), lclass, zzverif.Hex([]byte(s.model)), zzverif.Hex([]byte(model.ParseName(s.model).String())))
	switch g.flt() {
	case "load":
		b.WriteString("load:" + zzverif.Hex([]byte(g.loadError().Error())) + " ")
	case "detok":
		b.WriteString("detok:" + zzverif.Hex([]byte(vc17DetokMsg)) + " ")
	case "tok":
		b.WriteString("tok:" + zzverif.Hex([]byte(vc17TokMsg)) + " ")
	default:
		b.WriteString("none ")
	}
	if runErr != nil {
		b.WriteString("err:" + zzverif.Hex([]byte(runErr.Error())))
	} else {
		b.WriteString("ok")
	}
	fmt.Fprintf(&b, " %d", len(chunks))
	for _, c := range chunks {
		fmt.Fprintf(&b, " %s %s %d %d %d", vc17Enc(c.Content), vc17B(c.Done), int(c.DoneReason), c.PromptEvalCount, c.EvalCount)
	}
	b.WriteString(" " + table)
	fmt.Fprintf(&b, " %d %d", h.climit, len(lens))
	for _, n := range lens {
		fmt.Fprintf(&b, " %d", n)
	}
	return b.String()
}

// parse table: the real parseToolCalls on every concatenation of consecutive chunks
func (h *vc17H) table(chunks []llm.CompletionResponse) (string, bool) {
	keys := map[string]bool{}
	for i := range chunks {
		acc := ""
		for j := i; j < len(chunks); j++ {
			acc += chunks[j].Content
			keys[acc] = true
		}
	}
	keys[""] = true
	ks := make([]string, 0, len(keys))
	for k := range keys {
		ks = append(ks, k)
	}
	sort.Strings(ks)
	var b strings.Builder
	fmt.Fprintf(&b, "%d", len(ks))
	for _, k := range ks {
		calls := h.parse(k)
		fmt.Fprintf(&b, " %s %d", vc17Enc(k), len(calls))
		for _, c := range calls {
			fmt.Fprintf(&b, " %s %s", zzverif.Hex([]byte(c.name)), vc17Enc(c.args))
		}
	}
	// early: some proper accumulated prefix (at a chunk boundary, before the last content) parses
	early := false
	acc := ""
	total := ""
	for _, c := range chunks {
		total += c.Content
	}
	for _, c := range chunks {
		acc += c.Content
		if acc != total && len(h.parse(acc)) > 0 {
			early = true
		}
	}
	return b.String(), early
}

func (h *vc17H) runGroup(g vc17Group) {
	chunks, runErr := g.chunks()
	h.run.chunks, h.run.err = chunks, runErr
	h.run.loadErr, h.run.tokErr, h.run.detokErr = nil, nil, nil
	switch g.flt() {
	case "load":
		h.run.loadErr = g.loadError()
	case "tok":
		h.run.tokErr = errors.New(vc17TokMsg)
	case "detok":
		h.run.detokErr = errors.New(vc17DetokMsg)
	}
	table, early := h.table(chunks)
	results := map[string]vc17Res{}
	h.groupN++
	runPre := h.all || g.fault != "" || h.groupN%8 == 0
	for _, s := range vc17Shapes {
		if s.pre() && !runPre {
			continue
		}
		res := h.request(s, g)
		tbl := "0"
		if s.tools {
			tbl = table
		}
		h.out.Case(h.op(s, g, chunks, runErr, tbl, res.lens), res.canon())
		results[s.String()] = res
		h.out.Count("cases")
		h.out.Count("shape_" + s.ep + "_s" + strconv.Itoa(s.stream))
	}
	h.out.Count("groups")
	h.out.Count("end_" + g.end)
	h.out.Count("fault_" + g.fltLine())
	if runPre {
		h.out.Count("groups_with_prestream_shapes")
	}
	if g.doneB {
		h.out.Count("done_chunk_has_content")
	}
	if g.fmtJS {
		h.out.Count("requests_with_format_options_system")
	}
	if early {
		h.out.Count("tools_early_parse")
	}
	total := strings.Join(g.contents(), "")
	if len(h.parse(total)) > 0 {
		h.out.Count("tools_whole_parses")
	}
	h.out.Count(fmt.Sprintf("chunks_%02d", min(len(chunks), 12)))
	h.monitors(g, chunks, results, early)
}

// ---------------------------------------------------------------- L2: the property on the real responses

type vc17Agg struct {
	text    string
	calls   []vc17Call
	finals  int  // number of terminal events (done message or error)
	lastFin bool // the last event is terminal
	last    *vc17Ev
	errs    []string
	bad     string
}

func vc17Aggregate(evs []vc17Ev) vc17Agg {
	var a vc17Agg
	for i := range evs {
		e := evs[i]
		switch e.tag {
		case "g", "c":
			a.text += e.text
			a.calls = append(a.calls, e.calls...)
			a.last = &evs[i]
			if e.done {
				a.finals++
			}
			a.lastFin = e.done
		case "e":
			a.errs = append(a.errs, e.text)
			a.finals++
			a.lastFin = true
		default:
			a.bad = e.tag
		}
	}
	return a
}

// f17aPrediction: the streamed tool reply as finding F17a describes it (per-chunk parse of the accumulated text with the
// REAL parseToolCalls, reset on a hit, remainder flushed with the done chunk)
func (h *vc17H) f17aPrediction(chunks []llm.CompletionResponse) (string, []vc17Call) {
	sb, text := "", ""
	var calls []vc17Call
	for _, c := range chunks {
		sb += c.Content
		if cs := h.parse(sb); len(cs) > 0 {
			calls = append(calls, cs...)
			sb = ""
			continue
		}
		if c.Done {
			if len(calls) == 0 {
				text += sb
			} else {
				text += c.Content
			}
		}
	}
	return text, calls
}

func vc17NoIdx(cs []vc17Call) string {
	parts := make([]string, len(cs))
	for i, c := range cs {
		parts[i] = c.name + c.args
	}
	return strings.Join(parts, ";")
}

func vc17Idx(cs []vc17Call) string {
	parts := make([]string, len(cs))
	for i, c := range cs {
		parts[i] = strconv.Itoa(c.index)
	}
	return strings.Join(parts, ",")
}

func vc17Fin(e *vc17Ev) string {
	if e == nil {
		return "<none>"
	}
	return fmt.Sprintf("done=%v reason=%q pec=%d ec=%d ctx=%s named=%s", e.done, e.reason, e.pec, e.ec, e.ctx, e.named)
}

func (h *vc17H) monitors(g vc17Group, chunks []llm.CompletionResponse, results map[string]vc17Res, early bool) {
	gl := g.String()
	fail := func(kind string, s vc17Shape, detail string) {
		if len(detail) > 1200 {
			detail = detail[:1200] + fmt.Sprintf("...(+%d)", len(detail)-1200)
		}
		h.out.L2(kind, gl+" shape="+s.String(), fmt.Sprintf("end=%s early=%s doneB=%s fault=%s %s", g.end, vc17B(early), vc17B(g.doneB), g.flt(), detail))
	}
	get := func(s vc17Shape) vc17Res { return results[s.String()] }
	want := ""
	for _, c := range chunks {
		want += c.Content
	}
	finish := func(reason int) string { return llm.DoneReason(reason).String() }

	for _, s := range vc17Shapes {
		if _, have := results[s.String()]; !have {
			continue // a pre-stream shape not run for this group
		}
		res := get(s)
		exp := g.expectErr(s)
		preStatus, preMsg, early := g.expectPre(s)
		wantStatus := 500 // of a failed request
		if preMsg != "" {
			wantStatus = preStatus
		}
		for _, e := range res.evs {
			if strings.HasPrefix(e.tag, "?") {
				fail("malformed-response", s, e.tag)
			}
		}
		native := s.ep == "gen" || s.ep == "chat"
		h.branches(s, g, res)
		// --- framing: Content-Type by kind of reply; one id for all the payloads of an OpenAI reply
		if !res.client {
			want := "application/json"
			switch {
			case native && s.streaming() && res.status == 200 && early == "":
				want = "application/x-ndjson"
			case !native && s.streaming() && res.status == 200:
				want = "text/event-stream"
			}
			if !strings.HasPrefix(res.ctype, want) {
				fail("content-type", s, fmt.Sprintf("status=%d content-type=%q want %q", res.status, res.ctype, want))
			}
			if !native && res.status == 200 {
				same := true // (a stream of error events only carries no id)
				for _, id := range res.ids {
					same = same && id == res.ids[0]
				}
				if !same {
					fail("openai-id", s, fmt.Sprintf("ids=%q", res.ids))
				}
			}
		}
		// --- a native stream ends with exactly one final message or one error
		if native && s.streaming() {
			a := vc17Aggregate(res.evs)
			// 200 + NDJSON, or (failure before anything was streamed) one 500 error body
			if (res.status != 200 || preMsg != "") && !(res.status == wantStatus && len(res.evs) == 1 && res.evs[0].tag == "e") {
				fail("stream-status", s, fmt.Sprintf("status=%d bodies=%d want-status=%d", res.status, len(res.evs), wantStatus))
			}
			if a.finals != 1 || !a.lastFin {
				fail("one-final", s, fmt.Sprintf("terminal-events=%d last-is-terminal=%v events=%d", a.finals, a.lastFin, len(res.evs)))
			}
			if exp != "" && (len(a.errs) != 1 || !vc17ErrIs(a.errs[0], exp)) {
				fail("error-lost", s, fmt.Sprintf("errors=%q want %q", a.errs, exp))
			}
			if exp == "" && len(a.errs) != 0 {
				fail("spurious-error", s, fmt.Sprintf("errors=%q", a.errs))
			}
			// same outcome as the non-streamed twin (expectation-free): it fails iff the stream carries
			// exactly that error
			o := s
			o.stream = 0
			if once, have := results[o.String()]; have && len(once.evs) == 1 {
				onceErr := ""
				if once.evs[0].tag == "e" {
					onceErr = once.evs[0].text
				}
				if (once.status == 200) != (onceErr == "") || strings.Join(a.errs, "|") != onceErr {
					fail("stream-once-outcome", s, fmt.Sprintf("stream errors=%q done-messages=%d; non-streamed status=%d error=%q", a.errs, a.finals-len(a.errs), once.status, onceErr))
				}
			}
		}
		// --- non-stream native: one body; the error of a failed run is reported
		if native && !s.streaming() {
			if len(res.evs) != 1 {
				fail("once-shape", s, fmt.Sprintf("bodies=%d", len(res.evs)))
				continue
			}
			e := res.evs[0]
			if exp != "" {
				if res.status != wantStatus || e.tag != "e" || !vc17ErrIs(e.text, exp) {
					fail("error-lost", s, fmt.Sprintf("status=%d body=%s want-status=%d", res.status, e, wantStatus))
				}
			} else {
				if res.status != 200 || e.tag == "e" {
					fail("spurious-error", s, fmt.Sprintf("status=%d body=%s", res.status, e))
				}
				// the reply is the model output, whatever the split
				if g.end == "ok" && early == "" {
					wantCalls := []vc17Call(nil)
					if s.tools {
						wantCalls = h.parse(want)
					}
					wantText := want
					if len(wantCalls) > 0 {
						wantText = ""
					}
					if e.text != wantText || vc17NoIdx(e.calls) != vc17NoIdx(wantCalls) {
						fail("once-content", s, fmt.Sprintf("got text=%q calls=%q want text=%q calls=%q", e.text, vc17NoIdx(e.calls), wantText, vc17NoIdx(wantCalls)))
					}
					if !e.done || e.reason != finish(g.reason) || e.pec != g.pec || e.ec != g.ec || e.named != "1" {
						fail("once-final", s, "got "+vc17Fin(&e)+fmt.Sprintf(" want done reason=%q pec=%d ec=%d", finish(g.reason), g.pec, g.ec))
					}
				}
			}
		}
		// --- a request answered before the runner is started: one final message (load / unload) or one error
		// body, identical with and without stream
		if native && early != "" {
			ok := res.status == 200 && len(res.evs) == 1
			if ok {
				e := res.evs[0]
				ok = (e.tag == "g" || e.tag == "c") && e.text == "" && len(e.calls) == 0 && e.done && e.reason == early && e.pec == 0 && e.ec == 0 && e.named == "1" && (e.ctx == "-" || e.ctx == "")
			}
			if !ok {
				fail("early-reply", s, fmt.Sprintf("status=%d want one final message with done_reason %q, got %s", res.status, early, res.canon()))
			}
		}
		if native && s.streaming() && s.pre() {
			o := s
			o.stream = 0
			if once, have := results[o.String()]; have && once.canon() != res.canon() {
				fail("prestream-same", s, fmt.Sprintf("streamed: %s; non-streamed: %s", res.canon(), once.canon()))
			}
		}
		// --- stream concatenation == non-stream reply (same endpoint, same request otherwise)
		if native && s.streaming() && (exp == "" || exp == "*") {
			o := s
			o.stream = 0
			once, have := results[o.String()]
			if have && len(once.evs) == 1 && once.evs[0].tag != "e" {
				a := vc17Aggregate(res.evs)
				oe := once.evs[0]
				kind := s.ep + "-stream-once"
				if s.tools {
					kind = "tools-split"
				}
				if a.text != oe.text || vc17NoIdx(a.calls) != vc17NoIdx(oe.calls) {
					mech := ""
					if s.tools {
						// what finding F17a explains, and nothing else: the streamed reply is exactly "parse the buffer at
						// every chunk, reset it on a hit, flush what is left at done" computed with the real parser
						pt, pc := h.f17aPrediction(chunks)
						mech = "mech=other "
						if a.text == pt && vc17NoIdx(a.calls) == vc17NoIdx(pc) {
							mech = "mech=early-parse-reset "
						}
					}
					fail(kind, s, mech+fmt.Sprintf("stream text=%q calls=[%s] once text=%q calls=[%s]", a.text, vc17NoIdx(a.calls), oe.text, vc17NoIdx(oe.calls)))
				} else if vc17Idx(a.calls) != vc17Idx(oe.calls) {
					fail("tools-index", s, fmt.Sprintf("ncalls=%d stream-index=%s once-index=%s", len(a.calls), vc17Idx(a.calls), vc17Idx(oe.calls)))
				}
				// (a stream that delivered nothing vs the zero-value reply: only without the F17d repair)
				if vc17Fin(a.last) != vc17Fin(&oe) && !(zzverif.EnvInt("VERIF_C17_VARIANT", 0)&8 == 0 && a.last == nil && !oe.done && oe.named == "0") {
					fail(s.ep+"-final-meta", s, "stream last: "+vc17Fin(a.last)+" once: "+vc17Fin(&oe))
				}
			}
		}
		// --- api.Client delivers what is on the wire (the very bytes it was handed), and what it delivers
		// ends with exactly one final message or one error, whatever the length of the lines
		if s.ep == "cgen" || s.ep == "cchat" {
			var msgs []string
			werr := ""
			for _, e := range res.wire {
				if e.tag == "e" {
					werr = e.text
					break
				}
				msgs = append(msgs, e.String())
			}
			var got []string
			dones := 0
			for _, e := range res.evs {
				got = append(got, e.String())
				if e.done {
					dones++
				}
			}
			maxLine := 0
			for _, n := range res.lens {
				maxLine = max(maxLine, n)
			}
			// a line the UNCHANGED client cannot hold (documented limit) is its own, known, class
			kindView, kindFinal := "client-view", "client-one-final"
			if maxLine >= vc17ClientMaxDoc {
				kindView, kindFinal = "client-line-dropped", "client-line-dropped"
			}
			// a line the unchanged client cannot hold may be REFUSED: an error, after delivering exactly the
			// messages before it
			refused := false
			if res.cerr != "" && werr == "" && len(got) < len(msgs) && len(got) < len(res.lens) && res.lens[len(got)] >= vc17ClientMaxDoc {
				refused = strings.Join(got, " ") == strings.Join(msgs[:len(got)], " ")
			}
			if !refused && (strings.Join(got, " ") != strings.Join(msgs, " ") || res.cerr != werr) {
				fail(kindView, s, fmt.Sprintf("maxline=%d lines=%d client delivered %d message(s) err=%q; wire has %d message(s) err=%q; client=%q wire=%q",
					maxLine, len(res.lens), len(got), res.cerr, len(msgs), werr, got, msgs))
			}
			terminals := dones
			if res.cerr != "" {
				terminals++
			}
			if terminals != 1 {
				fail(kindFinal, s, fmt.Sprintf("maxline=%d lines=%d client delivered %d final message(s) and err=%q", maxLine, len(res.lens), dones, res.cerr))
			}
		}
		// --- OpenAI-compatible endpoints carry the native content
		if s.ep == "oachat" || s.ep == "oacmpl" {
			o := s
			o.usage = false
			if s.ep == "oachat" {
				o.ep = "chat"
			} else {
				o.ep = "gen"
			}
			if s.streaming() {
				o.stream = 1
			} else {
				o.stream = 0
			}
			if o.ep == "gen" && o.model == vc17Tools {
				h.out.Count("l2_openai_skipped_no_twin_recorded")
				continue // no native twin was recorded for this model; covered by the plain model
			}
			if o.ep == "chat" && o.stream == 1 && o.model == vc17Tools && !o.tools {
				o.stream = 2
			}
			nat, ok := results[o.String()]
			if !ok {
				h.out.Count("l2_openai_skipped_no_twin_recorded")
				continue
			}
			na := vc17Aggregate(nat.evs)
			if s.streaming() {
				h.out.Count("l2_openai_compared_stream")
			} else {
				h.out.Count("l2_openai_compared_once")
			}
			if !s.streaming() {
				if len(res.evs) != 1 {
					fail("openai-once", s, fmt.Sprintf("bodies=%d", len(res.evs)))
					continue
				}
				e := res.evs[0]
				if exp != "" {
					if res.status != wantStatus || e.tag != "E" || !vc17ErrIs(e.text, exp) {
						fail("openai-error-lost", s, fmt.Sprintf("status=%d body=%s want-status=%d", res.status, e, wantStatus))
					}
					continue
				}
				if len(nat.evs) != 1 {
					h.out.Count("l2_openai_skipped_native_bodies")
					continue
				}
				ne := nat.evs[0]
				wantFinish := ne.reason
				if len(ne.calls) > 0 {
					wantFinish = "tool_calls"
				}
				gotFinish := ""
				if e.finish != nil {
					gotFinish = *e.finish
				}
				if e.text != ne.text || vc17Calls(e.calls) != vc17Calls(ne.calls) || gotFinish != wantFinish ||
					e.usage == nil || *e.usage != [3]int{ne.pec, ne.ec, ne.pec + ne.ec} || res.status != 200 {
					fail("openai-once", s, fmt.Sprintf("openai=%s native=%s", e, ne))
				}
				continue
			}
			// streaming
			var text string
			var calls []vc17Call
			dones, errsOa, usages := 0, 0, 0
			lastDone := false
			var lastFinish *string
			var usage *[3]int
			for _, e := range res.evs {
				lastDone = false
				switch e.tag {
				case "k", "t":
					text += e.text
					calls = append(calls, e.calls...)
					if e.finish != nil {
						lastFinish = e.finish
					}
				case "u":
					usages++
					usage = e.usage
				case "D":
					dones++
					lastDone = true
				case "E":
					errsOa++
				}
			}
			if !((dones == 1 && lastDone && errsOa == 0) || (dones == 0 && errsOa == 1)) {
				fail("openai-one-final", s, fmt.Sprintf("[DONE]=%d last-is-[DONE]=%v error-objects=%d events=%d", dones, lastDone, errsOa, len(res.evs)))
			}
			if exp != "" && (errsOa != 1 || (preMsg != "" && res.status != preStatus)) {
				fail("openai-error-lost", s, fmt.Sprintf("error-objects=%d status=%d", errsOa, res.status))
			}
			if text != na.text || vc17Calls(calls) != vc17Calls(na.calls) {
				fail("openai-stream", s, fmt.Sprintf("openai text=%q calls=%s native text=%q calls=%s", text, vc17Calls(calls), na.text, vc17Calls(na.calls)))
			}
			if g.end == "ok" && exp == "" && na.last != nil {
				wantFinish := na.last.reason
				if len(na.calls) > 0 {
					wantFinish = "tool_calls"
				}
				got := ""
				if lastFinish != nil {
					got = *lastFinish
				}
				// not evaluated for done_reason "" (connection closed: nobody is listening).  A tool call that arrives in
				// the done message itself is evaluated since round 7: finding F17f (finish_reason stop vs tool_calls)
				if got != wantFinish && na.last.reason != "" {
					fail("openai-finish", s, fmt.Sprintf("finish_reason=%q want %q", got, wantFinish))
				}
				if s.usage && (usages != 1 || usage == nil || *usage != [3]int{na.last.pec, na.last.ec, na.last.pec + na.last.ec}) {
					fail("openai-usage", s, fmt.Sprintf("usage-chunks=%d usage=%s native pec=%d ec=%d", usages, vc17Usage(usage), na.last.pec, na.last.ec))
				}
				if !s.usage && usages != 0 {
					fail("openai-usage", s, fmt.Sprintf("usage-chunks=%d but include_usage not requested", usages))
				}
			}
		}
	}
}

// branches: which branch of the handlers / writers / client (= of the model, L1 being exact) this reply
// came from, read off the real reply; the check fails closed when a branch the theorems talk about was
// never exercised (vlib/checks/c17.py REQUIRED_COUNTERS)
func (h *vc17H) branches(s vc17Shape, g vc17Group, res vc17Res) {
	c := func(name string) { h.out.Count("br_" + name) }
	evs := res.evs
	if s.pre() {
		fam := map[string]string{"gen": "gen", "oacmpl": "gen", "cgen": "gen", "chat": "chat", "oachat": "chat", "cchat": "chat"}[s.ep]
		switch {
		case res.client && res.cerr != "":
			c("pre_client_error")
		case res.client:
			c("pre_client_final_message")
		case res.status != 200:
			c(fmt.Sprintf("pre_%s_status_%d", fam, res.status))
		case len(evs) >= 1 && (evs[0].tag == "g" || evs[0].tag == "c"):
			c("pre_" + fam + "_reply_" + evs[0].reason)
		case len(evs) >= 1 && (evs[0].tag == "k" || evs[0].tag == "t"):
			c("pre_openai_stream_of_single_body")
		case len(evs) == 1:
			c("pre_openai_once_of_single_body")
		}
	}
	switch s.ep {
	case "gen", "chat":
		if s.streaming() {
			if res.status != 200 {
				c("native_stream_prefail_" + g.flt())
				return
			}
			callMsgs, sent, maxIdx := 0, false, 0
			for i, e := range evs {
				switch e.tag {
				case "e":
					switch {
					case e.text == vc17IncompleteMsg:
						c("native_stream_incomplete_error")
					case e.text == vc17TokMsg:
						c("gen_stream_context_tokenize_error")
					case e.text == vc17BoomMsg:
						c("native_stream_completion_error")
					}
				case "c":
					if len(e.calls) > 0 {
						callMsgs++
						if i < len(evs)-1 {
							c("tools_stream_calls_then_reset")
						}
						if e.done {
							c("tools_stream_calls_in_final_message")
						}
						for _, tc := range e.calls {
							maxIdx = max(maxIdx, tc.index)
						}
					} else if e.done && s.tools {
						switch {
						case sent:
							c("tools_stream_final_after_calls")
						case e.text != "" && len(g.contents()) >= 2:
							c("tools_stream_final_flushes_buffer")
						default:
							c("tools_stream_final_plain")
						}
					}
					sent = sent || len(e.calls) > 0
				case "g":
					if e.done && e.ctx != "-" {
						c("gen_stream_final_with_context")
					}
					if e.done && e.ctx == "-" {
						c("gen_stream_final_raw")
					}
				}
			}
			if callMsgs >= 2 {
				c("tools_stream_several_call_messages")
			}
			if maxIdx >= 1 {
				c("tools_stream_index_above_0")
			}
			if len(evs) == 0 {
				c("native_stream_empty")
			}
		} else if len(evs) == 1 {
			e := evs[0]
			switch {
			case e.tag == "e" && g.expectErr(s) == "*":
				c("native_once_incomplete_error")
			case e.tag == "e" && g.flt() != "none" && e.text != vc17BoomMsg:
				c("native_once_fault_" + g.flt())
			case e.tag == "e":
				c("native_once_completion_error")
			case len(e.calls) >= 2:
				c("tools_once_several_calls")
			case len(e.calls) == 1:
				c("tools_once_one_call")
			case s.tools:
				c("tools_once_no_call")
			}
		}
	case "oachat", "oacmpl":
		for i, e := range evs {
			switch e.tag {
			case "E":
				if s.streaming() && res.status == 200 {
					c("openai_stream_error_event")
				} else {
					c("openai_error_body")
				}
			case "u":
				c("openai_stream_usage_chunk")
			case "k":
				if e.finish != nil && *e.finish == "tool_calls" {
					c("openai_stream_finish_tool_calls")
				} else if e.finish != nil {
					c("openai_stream_finish_native")
				}
				if len(e.calls) > 0 && i < len(evs)-1 {
					c("openai_stream_delta_with_calls")
				}
			case "t":
				if e.finish != nil {
					c("openai_cmpl_stream_finish_native")
				}
				if e.usage != nil {
					c("openai_cmpl_chunk_zero_usage")
				}
			case "K":
				if e.finish != nil && *e.finish == "tool_calls" {
					c("openai_once_finish_tool_calls")
				}
				if e.named == "0" {
					c("openai_once_zero_value_reply")
				}
			}
		}
	case "cgen", "cchat":
		maxLine := 0
		for _, n := range res.lens {
			maxLine = max(maxLine, n)
		}
		switch {
		case maxLine >= h.climit:
			c("client_line_at_or_above_limit")
		case res.cerr != "":
			c("client_returns_error_line")
		default:
			c("client_delivers_all")
		}
	}
}

// ---------------------------------------------------------------- generators

var vc17Corpus = [][]string{
	{"Hel", "lo", " wor", "ld", "!"},
	{"The sky ", "is blue ", "because ", "of Rayleigh ", "scattering", "."},
	{`{"name":`, `"get_weather",`, `"arguments":`, `{"city":`, `"Paris"}`, `}`},
	{`{"name":"a","arguments":{}}`, `{"name":"b",`, `"arguments":{}}`},
	{`I will call `, `{"name":"get_weather",`, `"arguments":{"city":"Paris"}}`, ` now`, `.`},
	{`{"answer"`, `: 42`, `}`},
	{"héllo ", "wörld ", "日本", "語", " \U0001F600"},
	{`[{"name":"a",`, `"arguments":{"k":"v"}},`, `{"name":"b","arguments":{}}`, `]`},
	{"", "a", "", "b", ""},
	{`{"name":"a",`, `"argu`},
	{`{"name":"a","arguments":{"x":1}}`, ` `, `{"name":"a","arguments":{"x":1}}`, `{"name":"c","arguments":{"y":[1,2]}}`},
	{`{"tool_calls":[`, `{"name":"a","arguments":{"n":{"name":"z","arguments":{}}}}`, `]}`},
	{"x"},
	{},
	// tool-call arguments that do not survive a trip through float64 / are hard to re-encode
	{`{"name":"get_order",`, `"arguments":{"order_id":`, `9007199254740993}}`},
	{`{"name":"f","arguments":{"a":-9007199254740993,`, `"b":9223372036854775808,"c":18446744073709551616,`, `"d":123456789012345678901234567890}}`},
	{`{"name":"f","arguments":{"pi":3.141592653589793238462643383279,`, `"big":1e308,"tiny":1e-400,"nz":-0,"nzf":-0.0,"e":1E+2,"f":1.50}}`},
	{`{"name":"f","arguments":{"x":1e999}}`},
	{`{"name":"f","arguments":{"x":1e309}}`, ` and `, `{"name":"g","arguments":{"y":2}}`},
	{`{"name":"f","arguments":{"o":{"ids":[9007199254740993,1.0000000000000001,`, `{"n":-1e400}],"m":{"k":0.1}},"k":1,"k":2}}`},
	{`{"name":"f","arguments":{"s":"line\nbreak \"q\" \\ \u00e9 \ud83d\ude00 <tag>&amp; `, "\U0001F600 \u2028 é", `","t":"\u0000\t"}}`},
	{`{"name":"f","arguments":{"long":"`, strings.Repeat("0123456789abcdef", 160), `","n":12345678901234567890}}`},
	// string arguments holding JSON-structural characters (code, regexes, format strings, quoted JSON): nothing
	// outside a real JSON parse may decide whether the buffered text is a complete call
	{`{"name":"search_files","arguments":{"pattern":"func main() {",`, `"path":"cmd"}}`},
	{`{"name":"grep","arguments":{"re":"^\\s*}\\s*$",`, `"flags":"]["}}`},
	{`{"name":"say","arguments":{"text":":-} {{ .Prompt }} ]"`, `}}`, ` `, `{"name":"say","arguments":{"text":"}{"}}`},
	{`{"name":"emit","arguments":{"json":"{\"name\":\"x\",\"arguments\":{}}",`, `"n":1}}`},
	{`}{ `, `{"name":"a","arguments":{"k":"{"}}`, ` }`},
}

var vc17Frags = []string{
	`{`, `}`, `"name":`, `"a"`, `"b"`, `,`, `"arguments":`, `{}`, ` `, `x`, `[`, `]`, `{"k":1}`, `"`, `\`, "\n",
	`{"name":"c","arguments":{"q":2}}`, `{"name":"d","arguments":{}}`, `null`, `:`, `hello `, `"name":"e","arguments":{"z":"w"}`,
}

// JSON values for tool-call arguments that stress number / string re-encoding (ASCII only, so that a
// text built from them may be cut at any byte)
var vc17ArgLits = []string{
	"9007199254740991", "9007199254740992", "9007199254740993", "-9007199254740993", "9223372036854775807",
	"9223372036854775808", "-9223372036854775809", "18446744073709551615", "18446744073709551616",
	"123456789012345678901234567890", "0.1", "3.141592653589793238462643383279", "1.0000000000000001", "1.50", "100",
	"1e2", "1E+2", "1e21", "1e-7", "1e308", "1.7976931348623157e308", "1.7976931348623159e308", "1e309", "1e999", "-1e999",
	"1e-400", "5e-324", "2.5e-324", "-0", "-0.0", "0e0", "true", "null",
	`"plain"`, `"esc \\ \" \n \t \u00e9 \ud83d\ude00 \u2028 <&>"`, `"\u0000"`, `""`,
	// JSON-structural characters inside strings
	`"{"`, `"}"`, `"func main() {"`, `"}}"`, `"["`, `"]"`, `"a{b}c}"`, `":-}"`, `",\":{"`, `"{\"name\":\"z\",\"arguments\":{}}"`, `"\\{"`,
}

func vc17ArgValue(r *zzverif.Rng, depth int) string {
	if depth > 0 && r.Chance(1, 4) {
		n := r.Range(0, 3)
		parts := make([]string, n)
		if r.Bool() {
			for i := range parts {
				parts[i] = vc17ArgValue(r, depth-1)
			}
			return "[" + strings.Join(parts, ",") + "]"
		}
		for i := range parts {
			// keys may repeat (duplicate keys: the last one wins on every path)
			parts[i] = fmt.Sprintf("%q:%s", zzverif.Pick(r, []string{"k", "id", "n"}), vc17ArgValue(r, depth-1))
		}
		return "{" + strings.Join(parts, ",") + "}"
	}
	return zzverif.Pick(r, vc17ArgLits)
}

func vc17RandomText(r *zzverif.Rng, maxPieces int) []string {
	n := r.Range(1, maxPieces)
	out := make([]string, n)
	switch r.Intn(3) {
	case 0: // fragments
		for i := range out {
			out[i] = zzverif.Pick(r, vc17Frags)
		}
	case 1: // a well-formed sequence of calls cut at random byte positions
		var b strings.Builder
		for i, k := 0, r.Range(1, 3); i < k; i++ {
			if r.Chance(1, 3) {
				b.WriteString(zzverif.Pick(r, []string{" ", "ok ", "\n", "then "}))
			}
			val := strconv.Itoa(r.Intn(10))
			if r.Chance(1, 2) {
				val = vc17ArgValue(r, 2)
			}
			fmt.Fprintf(&b, `{"name":"%s","arguments":{"%s":%s}}`, zzverif.Pick(r, []string{"a", "b", "get_weather"}), zzverif.Pick(r, []string{"x", "city"}), val)
		}
		s := b.String()
		cuts := map[int]bool{}
		for len(cuts) < n-1 && len(cuts) < len(s)-1 {
			cuts[r.Range(1, len(s)-1)] = true
		}
		pos := make([]int, 0, len(cuts))
		for c := range cuts {
			pos = append(pos, c)
		}
		sort.Ints(pos)
		out = out[:0]
		prev := 0
		for _, p := range pos {
			out = append(out, s[prev:p])
			prev = p
		}
		out = append(out, s[prev:])
	default: // plain words
		for i := range out {
			out[i] = zzverif.Pick(r, []string{"the ", "sky ", "is ", "blue", ".", "\n", "", "42", " été", "\""})
		}
	}
	return out
}

// conversations of the ctx chat shapes: 1-6 messages, every kind of last message
var vc17Convs = []string{"uau", "u", "su", "uAt", "uAtAt", "suAtu", "ua", "us", "uA", "t", "A", "s", "a", "suauAt", "uAta", "utt", "sssu"}

func vc17Conv(r *zzverif.Rng) string {
	if r.Bool() {
		return zzverif.Pick(r, vc17Convs)
	}
	n := r.Range(1, 6)
	b := make([]byte, n)
	for i := range b {
		b[i] = "suaAt"[r.Intn(5)]
	}
	return string(b)
}

// long outputs (the api.Client scanner, the OpenAI writers and the handlers must cope with any length):
// a quoted string of the given total size, as one chunk and as a total over three chunks, and a tool call
// with an enormous argument string
func (h *vc17H) runLong(r *zzverif.Rng) {
	unit := "0123456789abcdef"
	quoted := func(n int) string { return `"` + strings.Repeat(unit, n/16+1)[:n-2] + `"` }
	sizes := []int{60 << 10, 64<<10 - 1, 64 << 10, 64<<10 + 1, 100 << 10, 300 << 10, 505000, 513000, 600 << 10}
	var texts [][]string
	for i, n := range sizes {
		t := quoted(n)
		texts = append(texts, []string{t})
		if i%3 == 0 || n == 600<<10 {
			a, b := n/3, 2*n/3
			texts = append(texts, []string{t[:a], t[a:b], t[b:]})
		}
	}
	for _, n := range []int{100 << 10, 600 << 10} {
		call := `{"name":"write_file","arguments":{"path":"a.txt","data":` + quoted(n) + `}}`
		texts = append(texts, []string{call}, []string{call[:n/2], call[n/2:]})
	}
	for _, pieces := range texts {
		g := vc17Group{pieces: pieces, mask: 1<<uint(len(pieces)-1) - 1, end: "ok", pec: r.Range(1, 50), ec: r.Range(1, 99), conv: vc17Conv(r)}
		h.runGroup(g)
		h.out.Count("long_groups")
		total := 0
		for _, p := range pieces {
			total += len(p)
		}
		h.out.Count(fmt.Sprintf("long_total_%07d", total))
	}
}

func (h *vc17H) runText(r *zzverif.Rng, pieces []string, exhaustiveMax, samples int) {
	n := len(pieces)
	var masks []uint64
	if n <= 1 {
		masks = []uint64{0}
	} else if n <= exhaustiveMax {
		for m := uint64(0); m < 1<<uint(n-1); m++ {
			masks = append(masks, m)
		}
		h.out.Count("texts_all_splits")
	} else {
		masks = append(masks, 0, 1<<uint(n-1)-1)
		for i := 0; i < samples; i++ {
			masks = append(masks, r.U64()&(1<<uint(n-1)-1))
		}
		h.out.Count("texts_sampled_splits")
	}
	h.out.Count("texts")
	for _, m := range masks {
		base := vc17Group{pieces: pieces, mask: m, end: "ok", pec: r.Range(1, 50), ec: r.Range(1, 99), reason: 0,
			nz: r.Chance(1, 4), fmtJS: r.Chance(1, 3), conv: vc17Conv(r)}
		h.out.Count("conv_len_" + strconv.Itoa(len(base.conv)))
		h.out.Count("conv_last_" + base.conv[len(base.conv)-1:])
		if r.Chance(1, 4) {
			base.reason = r.Range(1, 2)
		}
		h.runGroup(base)
		nc := len(base.contents())
		// one more ending per split (every ending for small texts)
		var extra []vc17Group
		if n <= 3 {
			b := base
			b.doneB = true
			extra = append(extra, b)
			for k := 0; k <= nc; k++ {
				e, s := base, base
				e.end, e.k = "err", k
				s.end, s.k = "silent", k
				extra = append(extra, e, s)
			}
		} else {
			x := base
			switch r.Intn(4) {
			case 0:
				x.doneB = true
			case 1, 2:
				x.end, x.k = "err", r.Range(0, nc)
			default:
				x.end, x.k = "silent", r.Range(0, nc)
			}
			extra = append(extra, x)
		}
		// faults outside Completion (Tokenize / Detokenize / load), mostly on complete runs
		if n <= 3 {
			for _, f := range []string{"load", "detok", "tok"} {
				x := base
				x.fault = f
				extra = append(extra, x)
			}
			lc := base
			lc.fault, lc.lclass = "load", []string{"cap", "cancel", "queue", "notexist"}[h.lcN%4] // every class in turn
			h.lcN++
			extra = append(extra, lc)
			for k := 0; k <= nc; k++ {
				e, s := base, base
				e.fault, e.end, e.k = "tok", "err", k
				s.fault, s.end, s.k = "tok", "silent", k
				extra = append(extra, e, s)
			}
			b := base
			b.fault, b.doneB = "tok", true
			extra = append(extra, b)
		} else {
			x := base
			x.fault = zzverif.Pick(r, []string{"tok", "tok", "detok", "load", "load"})
			if x.fault == "load" {
				x.lclass = zzverif.Pick(r, []string{"", "cap", "cancel", "queue", "notexist"})
			}
			switch r.Intn(8) {
			case 0:
				x.end, x.k = "err", r.Range(0, nc)
			case 1:
				x.end, x.k = "silent", r.Range(0, nc)
			case 2:
				x.doneB = true
			}
			extra = append(extra, x)
		}
		for _, x := range extra {
			h.runGroup(x)
		}
	}
}

func TestVerifC17(t *testing.T) {
	h := vc17Setup(t)
	defer h.out.Close()

	if p := os.Getenv("VERIF_REPLAY"); p != "" {
		raw, err := os.ReadFile(p)
		if err != nil {
			t.Fatal(err)
		}
		line := strings.TrimSpace(string(raw))
		if i := strings.Index(line, " shape="); i >= 0 {
			line = line[:i]
		}
		g, err := vc17ParseGroup(line)
		if err != nil {
			t.Fatal(err)
		}
		h.all = true
		h.runGroup(g)
		return
	}

	// regression inputs first
	if dir := os.Getenv("VERIF_CORPUS"); dir != "" {
		files, _ := os.ReadDir(dir)
		for _, f := range files {
			raw, err := os.ReadFile(dir + "/" + f.Name())
			if err != nil {
				t.Fatal(err)
			}
			for _, line := range strings.Split(string(raw), "\n") {
				if !strings.HasPrefix(line, "grp ") {
					continue
				}
				g, err := vc17ParseGroup(strings.TrimSpace(line))
				if err != nil {
					t.Fatal(err)
				}
				h.runGroup(g)
				h.out.Count("corpus_groups")
			}
		}
	}

	root := zzverif.NewRng(zzverif.Seed())
	h.runLong(root.Fork())
	exhaustiveMax := zzverif.EnvInt("VERIF_N", 6)
	randomTexts := zzverif.EnvInt("VERIF_TEXTS", 12)
	samples := zzverif.EnvInt("VERIF_SAMPLES", 12)
	for _, pieces := range vc17Corpus {
		h.runText(root.Fork(), pieces, exhaustiveMax, samples)
	}
	for i := 0; i < randomTexts; i++ {
		r := root.Fork()
		h.runText(r, vc17RandomText(r, exhaustiveMax+2), exhaustiveMax, samples)
	}
}

// TestVerifC17Table: Tie 1 — the real llm.DoneReason.String() over 0..7 (regenerated into
// lean/OllamaVerif/Generated/C17_Reasons.lean on every run)
func TestVerifC17Table(t *testing.T) {
	var b strings.Builder
	for i := 0; i < 8; i++ {
		fmt.Fprintf(&b, "%d %s\n", i, zzverif.Hex([]byte(llm.DoneReason(i).String())))
	}
	if err := os.WriteFile(zzverif.OutDir()+"/table.txt", []byte(b.String()), 0o644); err != nil {
		t.Fatal(err)
	}
}

// TestVerifC17Variant: Tie 1 — which of the repaired behaviours the tree under test shows, probed on the real
// handlers / writers / client with the findings' own inputs (regenerated into Generated/C17_Variant.lean and
// compared with the variant the theorems are read for by Tie.C17.tree_variant)
func TestVerifC17Variant(t *testing.T) {
	h := vc17Setup(t)
	defer h.out.Close()
	run := func(g vc17Group, s vc17Shape) vc17Res {
		chunks, runErr := g.chunks()
		h.run.chunks, h.run.err = chunks, runErr
		h.run.loadErr, h.run.tokErr, h.run.detokErr = nil, nil, nil
		return h.request(s, g)
	}
	a, b1, b2 := `{"name":"a","arguments":{}}`, `{"name":"b",`, `"arguments":{}}`
	var out strings.Builder
	put := func(name string, v bool) { fmt.Fprintf(&out, "%s %s\n", name, vc17B(v)) }
	// F17a: a parsable boundary prefix — the repaired streaming tool path still delivers both calls
	res := run(vc17Group{pieces: []string{a + b1, b2}, mask: 1, end: "ok", pec: 1, ec: 1}, vc17Shape{ep: "chat", stream: 1, tools: true, model: vc17Tools})
	put("toolsStream", len(vc17Aggregate(res.evs).calls) == 2)
	// F17b: the non-streamed reply numbers its calls
	res = run(vc17Group{pieces: []string{a + b1 + b2}, end: "ok", pec: 1, ec: 1}, vc17Shape{ep: "chat", stream: 0, tools: true, model: vc17Tools})
	put("toolsIndex", len(res.evs) == 1 && vc17Idx(res.evs[0].calls) == "0,1")
	// F17c: a runner error mid-stream is an error event on the OpenAI stream
	res = run(vc17Group{pieces: []string{"Hel"}, end: "err", k: 1}, vc17Shape{ep: "oachat", stream: 1, model: vc17Plain})
	oaErr := false
	for _, e := range res.evs {
		oaErr = oaErr || e.tag == "E"
	}
	put("oaErr", oaErr)
	// F17d: a run that ends without a done chunk is reported
	res = run(vc17Group{pieces: []string{"Hel"}, end: "silent", k: 1}, vc17Shape{ep: "gen", stream: 1, model: vc17Plain})
	put("incomplete", len(vc17Aggregate(res.evs).errs) == 1)
	incompleteText := strings.Join(vc17Aggregate(res.evs).errs, "|") // what the tree says for such a run ("" = nothing)
	// F17e: api.Client returns the scanner's error for a line it cannot hold
	long := `"` + strings.Repeat("0123456789abcdef", (h.climit+1000)/16+1)[:h.climit+1000] + `"`
	res = run(vc17Group{pieces: []string{long}, end: "ok", pec: 1, ec: 1}, vc17Shape{ep: "cgen", stream: 0, model: vc17Plain})
	put("clientFixed", res.cerr != "")
	// the two fixed error texts of the model, as OBSERVED: the handlers' incomplete-run error, the client's refusal of a long line
	consts := fmt.Sprintf("incomplete %s\ntoolong %s\n", zzverif.Hex([]byte(incompleteText)), zzverif.Hex([]byte(res.cerr)))
	if err := os.WriteFile(zzverif.OutDir()+"/consts.txt", []byte(consts), 0o644); err != nil {
		t.Fatal(err)
	}
	// F17f: a tool call delivered by the done message itself ends the OpenAI stream with tool_calls
	res = run(vc17Group{pieces: []string{a}, end: "ok", doneB: true, pec: 1, ec: 1}, vc17Shape{ep: "oachat", stream: 1, tools: true, model: vc17Tools})
	lastFinish := ""
	for _, e := range res.evs {
		if e.tag == "k" && e.finish != nil {
			lastFinish = *e.finish
		}
	}
	put("oaFinish", lastFinish == "tool_calls")
	if err := os.WriteFile(zzverif.OutDir()+"/variant.txt", []byte(out.String()), 0o644); err != nil {
		t.Fatal(err)
	}
}

// TestVerifC17F17f: plain replay of finding F17f on the real router (no model involved): the same runner output —
// one chunk that carries the whole tool call AND done — answered by /v1/chat/completions with stream:true and with
// stream:false.  Prints both finish_reason values; fails when they differ.
func TestVerifC17F17f(t *testing.T) {
	h := vc17Setup(t)
	defer h.out.Close()
	h.run.chunks = []llm.CompletionResponse{{Content: `{"name":"get_weather","arguments":{"city":"Paris"}}`, Done: true, DoneReason: llm.DoneReasonStop, PromptEvalCount: 5, EvalCount: 7}}
	g := vc17Group{end: "ok"}
	finish := func(stream int) string {
		res := h.request(vc17Shape{ep: "oachat", stream: stream, tools: true, model: vc17Tools}, g)
		last := "<none>"
		for _, e := range res.evs {
			if (e.tag == "k" || e.tag == "K") && e.finish != nil {
				last = *e.finish
			}
		}
		return last
	}
	s, o := finish(1), finish(0)
	t.Logf("finish_reason streamed=%q non-streamed=%q", s, o)
	if s != o {
		t.Fatalf("F17f: streamed /v1/chat/completions ends with finish_reason %q, the non-streamed reply for the same runner output says %q", s, o)
	}
}

// ---------------------------------------------------------------- waitForStream / streamResponse on progress channels

// TestVerifC17Progress: the non-streamed reply of the progress endpoints (pull / push / create): the REAL
// waitForStream and streamResponse over scripted channels.  L1: waitForStream's status + body vs the model; L2 (model-free):
// the stream carries every item as one line, and the non-streamed reply is the first terminal line of that stream.
func TestVerifC17Progress(t *testing.T) {
	gin.SetMode(gin.TestMode)
	out := zzverif.NewOut()
	defer out.Close()
	root := zzverif.NewRng(zzverif.Seed())
	n := zzverif.EnvInt("VERIF_N", 400)
	serve := func(items []any, stream bool) (int, string) {
		w := NewRecorder() // (implements CloseNotify, which c.Stream needs)
		c, _ := gin.CreateTestContext(w)
		c.Request = httptest.NewRequest(http.MethodPost, "/api/pull", nil)
		ch := make(chan any, len(items))
		for _, it := range items {
			ch <- it
		}
		close(ch)
		if stream {
			streamResponse(c, ch)
		} else {
			waitForStream(c, ch)
		}
		return w.Code, w.Body.String()
	}
	statuses := []string{"pulling manifest", "downloading", "verifying sha256 digest", "success", "", "Success"}
	for i := 0; i < n; i++ {
		r := root.Fork()
		k := r.Range(0, 6)
		var items []any
		var op strings.Builder
		fmt.Fprintf(&op, "progress %d", k)
		for j := 0; j < k; j++ {
			switch r.Intn(10) {
			case 0, 1, 2, 3, 4:
				st := zzverif.Pick(r, statuses)
				if j == k-1 && r.Bool() {
					st = "success"
				}
				items = append(items, api.ProgressResponse{Status: st, Digest: "sha256:abc", Total: 10, Completed: int64(j)})
				fmt.Fprintf(&op, " p %s", zzverif.Hex([]byte(st)))
			case 5:
				items = append(items, gin.H{"error": "pull failed: boom"})
				fmt.Fprintf(&op, " e %s ?", zzverif.Hex([]byte("pull failed: boom")))
			case 6:
				st := zzverif.Pick(r, []int{400, 401, 404, 500})
				items = append(items, gin.H{"error": "bad request: x", "status": st})
				fmt.Fprintf(&op, " e %s %d", zzverif.Hex([]byte("bad request: x")), st)
			case 7:
				items = append(items, gin.H{"error": 42, "status": 418})
				op.WriteString(" e ? 418")
			case 8:
				items = append(items, gin.H{"error": "m", "status": "teapot"})
				fmt.Fprintf(&op, " e %s ?", zzverif.Hex([]byte("m")))
			default:
				items = append(items, "not a progress value")
				op.WriteString(" o")
			}
		}
		code, body := serve(items, false)
		obs := fmt.Sprintf("%d ?%s", code, body)
		var pr api.ProgressResponse
		var eb struct {
			Error *string `json:"error"`
		}
		switch {
		case code == 200 && vc17Strict([]byte(body), &pr) == nil && pr.Status == "success":
			obs = "200 success"
		case code != 200 && json.Unmarshal([]byte(body), &eb) == nil && eb.Error != nil:
			obs = fmt.Sprintf("%d e:%s", code, zzverif.Hex([]byte(*eb.Error)))
		}
		out.Case(op.String(), obs)
		out.Count("cases")
		out.Count("progress_cases")
		out.Count("progress_once_" + strings.SplitN(obs, " ", 2)[0])
		// the stream: one line per item, status 200
		scode, sbody := serve(items, true)
		var lines []string
		for _, l := range strings.Split(sbody, "\n") {
			if l != "" {
				lines = append(lines, l)
			}
		}
		caseLine := op.String()
		if scode != 200 || len(lines) != len(items) {
			out.L2("progress-stream", caseLine, fmt.Sprintf("status=%d lines=%d items=%d", scode, len(lines), len(items)))
			continue
		}
		// the non-streamed reply is the first terminal line of the stream (derived from the stream's own bytes)
		want := "500 e:" + zzverif.Hex([]byte("unexpected end of progress response"))
		for _, l := range lines {
			var probe map[string]json.RawMessage
			if json.Unmarshal([]byte(l), &probe) != nil {
				want = "500 e:" + zzverif.Hex([]byte("unexpected progress response"))
				out.Count("progress_first_terminal_other")
				break
			}
			var st string
			if s, ok := probe["status"]; ok && json.Unmarshal(s, &st) == nil && probe["error"] == nil {
				if _, isProgress := probe["digest"]; isProgress || len(probe) == 1 {
					if st == "success" {
						want = "200 success"
						out.Count("progress_first_terminal_success")
						break
					}
					continue
				}
			}
			// an error item
			status := 500
			if s, ok := probe["status"]; ok {
				var v int
				if json.Unmarshal(s, &v) == nil {
					status = v
				}
			}
			msg := "unexpected error format in progress response"
			if e, ok := probe["error"]; ok {
				var v string
				if json.Unmarshal(e, &v) == nil {
					msg = v
				}
			}
			want = fmt.Sprintf("%d e:%s", status, zzverif.Hex([]byte(msg)))
			out.Count("progress_first_terminal_error")
			break
		}
		if want == "500 e:"+zzverif.Hex([]byte("unexpected end of progress response")) {
			out.Count("progress_no_terminal")
		}
		if obs != want {
			out.L2("progress-once-first-terminal", caseLine, fmt.Sprintf("non-streamed=%s first terminal line of the stream=%s stream=%q", obs, want, lines))
		}
	}
}
