package server

// C03 driver, part 2: in-memory registry/CDN/token RoundTripper, store materialisation,
// one pull attempt on the REAL PullModel under fake time, store observation.

import (
	"bytes"
	"context"
	"crypto/ed25519"
	"crypto/rand"
	"crypto/sha256"
	"encoding/hex"
	"encoding/json"
	"encoding/pem"
	"errors"
	"fmt"
	"io"
	"net/http"
	"os"
	"path/filepath"
	"regexp"
	"runtime"
	"sort"
	"strconv"
	"strings"
	"sync"
	"sync/atomic"
	"testing"
	"testing/synctest"
	"time"

	"golang.org/x/crypto/ssh"

	"github.com/ollama/ollama/api"
)

const (
	c3RegHost  = "registry.test"
	c3AuthHost = "auth.test"
	c3CDNHost  = "cdn.test"
	c3DeadHost = "dead.test"
	c3Realm    = "https://auth.test/token"
)

var c3GoodChallenge = `Bearer realm="` + c3Realm + `",service="registry.test",scope="repository:ns/m:pull"`

func c3ModelName(id int) string { return fmt.Sprintf("%s/ns/m%d:latest", c3RegHost, id) }

func c3DigestString(ref string) string {
	switch ref {
	case "e":
		return ""
	case "b":
		return "sha256:zz"
	}
	return "sha256:" + ref
}

var c3DigRe = regexp.MustCompile(`^sha256:[0-9a-f]{64}$`)

func c3RefOf(digest string) string {
	switch {
	case digest == "":
		return "e"
	case c3DigRe.MatchString(digest):
		return digest[7:]
	}
	return "b"
}

const (
	c3ConfigMedia = "application/vnd.docker.container.image.v1+json"
	c3LayerMedia  = "application/vnd.ollama.image.model"
)

func c3MediaOf(mt int, dflt string) string {
	if mt > 0 && mt < len(c3MediaTypes) {
		return c3MediaTypes[mt]
	}
	return dflt
}

// c3MediaIdx: the inverse (-1 = a media type outside the alphabet).
func c3MediaIdx(s, dflt string) int {
	if s == dflt {
		return 0
	}
	for k := 1; k < len(c3MediaTypes); k++ {
		if c3MediaTypes[k] == s {
			return k
		}
	}
	return -1
}

func c3ManifestJSON(m c3Manifest) []byte {
	mm := Manifest{SchemaVersion: 2, MediaType: "application/vnd.docker.distribution.manifest.v2+json"}
	mm.Config = Layer{MediaType: c3MediaOf(m.config.mt, c3ConfigMedia), Digest: c3DigestString(m.config.ref), Size: m.config.size}
	mm.Layers = []Layer{}
	for _, l := range m.layers {
		mm.Layers = append(mm.Layers, Layer{MediaType: c3MediaOf(l.mt, c3LayerMedia), Digest: c3DigestString(l.ref), Size: l.size})
	}
	b, err := json.Marshal(mm)
	if err != nil {
		panic(err)
	}
	return b
}

func c3Sha(b []byte) string {
	s := sha256.Sum256(b)
	return hex.EncodeToString(s[:])
}

// ---------------------------------------------------------------- fake network

type c3Net struct {
	mu       sync.Mutex
	c        *c3Case
	models   string
	ms       []c3Reply
	tok      []bool
	head     map[string][]c3Reply
	direct   map[string][]c3Reply
	chunks   map[string][][]c3Chunk
	content  map[string][]byte
	has      map[string]bool
	nm, nh   int
	nd, nc   int
	nt       int
	tokShape []string
	validate bool
	valid    map[string]bool
	issued   int
	regs     map[string]c3Manifest // two-pull cases: the manifest served per model ("m<id>")
	rereg    *c3Manifest           // the manifest served in this attempt when the tag was re-published
	// callerGone: the caller of a single PullModel cancelled at a progress callback.  A download that is started for a
	// later layer (resume records => no HEAD) is released by Wait at once, but its Run goroutine races with that
	// release: depending on the scheduler it may get zero, one or all of its requests through first.  The scripted
	// peer removes the race: a request that arrives after the caller went away is answered only by its context's
	// cancellation (a slow peer), which is the schedule the model describes ("released at once").
	callerGone atomic.Bool
	hook     func(req *http.Request) // called before anything else (may block: scripted interleavings)
	cancel   context.CancelFunc // cancels the context PullModel was called with
	dying    atomic.Bool
	countOut string // child mode: counters are rewritten here after every request
}

func c3NewNet(c *c3Case, a *c3Attempt, models string) *c3Net {
	n := &c3Net{c: c, models: models, head: map[string][]c3Reply{}, direct: map[string][]c3Reply{},
		chunks: map[string][][]c3Chunk{}, content: map[string][]byte{}, has: map[string]bool{}}
	n.ms = append(n.ms, a.ms...)
	n.rereg = a.reg
	n.tok = append(n.tok, a.tok...)
	n.tokShape = append(n.tokShape, a.tokShape...)
	n.validate, n.valid = a.validate, map[string]bool{}
	if a.validate && len(n.ms) > 0 && n.ms[0].kind == "unauth" {
		n.ms = n.ms[1:] // that 401 comes from the validation of the (missing) token
	}
	seen := map[string]bool{}
	for _, l := range a.ls {
		if seen[l.dig] { // the model's lookup takes the first entry
			continue
		}
		seen[l.dig] = true
		n.head[l.dig] = append([]c3Reply{}, l.head...)
		n.direct[l.dig] = append([]c3Reply{}, l.direct...)
		for _, cs := range l.chunks {
			n.chunks[l.dig] = append(n.chunks[l.dig], append([]c3Chunk{}, cs...))
		}
	}
	for _, b := range c.content {
		if !n.has[b.dig] {
			n.has[b.dig] = true
			n.content[b.dig] = b.content
		}
	}
	return n
}

func (n *c3Net) counts() string { return fmt.Sprintf("m%d,h%d,d%d,c%d,t%d", n.nm, n.nh, n.nd, n.nc, n.nt) }

func c3Resp(req *http.Request, status int, hdr map[string]string, body io.ReadCloser) *http.Response {
	h := http.Header{}
	for k, v := range hdr {
		h[http.CanonicalHeaderKey(k)] = []string{v}
	}
	if body == nil {
		body = io.NopCloser(bytes.NewReader(nil))
	}
	return &http.Response{Status: strconv.Itoa(status) + " X", StatusCode: status, Proto: "HTTP/1.1", ProtoMajor: 1, ProtoMinor: 1,
		Header: h, Body: body, ContentLength: -1, Request: req}
}

func c3BytesBody(b []byte) io.ReadCloser { return io.NopCloser(bytes.NewReader(b)) }

var errC3Reset = errors.New("read: connection reset by peer (RESET)")

type c3Body struct {
	cancel context.CancelFunc
	data   []byte
	end  string
	ctx  context.Context
	pos  int
}

func (b *c3Body) Read(p []byte) (int, error) {
	if b.pos < len(b.data) {
		k := copy(p, b.data[b.pos:])
		b.pos += k
		if b.pos == len(b.data) && b.end == "cancel" && b.cancel != nil {
			b.cancel() // the caller goes away at the very moment the last scripted byte was served
		}
		return k, nil
	}
	switch b.end {
	case "ueof":
		return 0, io.ErrUnexpectedEOF
	case "reset":
		return 0, errC3Reset
	case "cancel": // the caller of PullModel gives up here; the read then ends when the download is cancelled
		if b.cancel != nil {
			b.cancel()
		}
		<-b.ctx.Done()
		return 0, b.ctx.Err()
	case "stall":
		select {
		case <-b.ctx.Done():
			return 0, b.ctx.Err()
		case <-time.After(120 * time.Second):
			return 0, errC3Reset
		}
	}
	return 0, io.EOF
}

func (b *c3Body) Close() error { return nil }

func (n *c3Net) RoundTrip(req *http.Request) (*http.Response, error) {
	if n.hook != nil {
		n.hook(req)
	}
	if n.dying.Load() {
		select {} // child mode: the process is about to die of the panic; make no further request
	}
	if n.callerGone.Load() && n.regs == nil {
		<-req.Context().Done()
		return nil, req.Context().Err()
	}
	n.mu.Lock()
	defer n.mu.Unlock()
	defer func() {
		if n.countOut != "" {
			if f, err := os.OpenFile(n.countOut, os.O_APPEND|os.O_CREATE|os.O_WRONLY, 0o644); err == nil {
				_, _ = f.WriteString(n.counts() + "\n")
				_ = f.Close()
			}
		}
	}()
	if err := req.Context().Err(); err != nil {
		return nil, err
	}
	host, path := req.URL.Hostname(), req.URL.Path
	switch {
	case host == c3AuthHost && path == "/token":
		n.nt++
		ok, shape := true, ""
		if len(n.tok) > 0 {
			ok, n.tok = n.tok[0], n.tok[1:]
			if len(n.tokShape) > 0 {
				shape, n.tokShape = n.tokShape[0], n.tokShape[1:]
			}
		}
		token := "tok"
		if n.validate { // a registry that really issues and checks tokens
			n.issued++
			token = fmt.Sprintf("tok-%d", n.issued)
			if ok {
				n.valid[token] = true
			}
		}
		if shape != "" {
			status, body := c3RawToken(shape, token)
			return c3Resp(req, status, nil, c3BytesBody(body)), nil
		}
		if ok {
			return c3Resp(req, 200, nil, c3BytesBody([]byte(`{"token":"`+token+`"}`))), nil
		}
		return c3Resp(req, 403, nil, c3BytesBody([]byte("TOKERR"))), nil
	case host == c3RegHost && strings.Contains(path, "/manifests/"):
		n.nm++
		if resp := n.unauthorized(req); resp != nil {
			return resp, nil
		}
		r := c3Reply{"pass", "served"}
		if len(n.ms) > 0 {
			r, n.ms = n.ms[0], n.ms[1:]
		}
		return n.generic(req, r, func(arg string) (*http.Response, error) {
			if arg == "badjson" {
				return c3Resp(req, 200, nil, c3BytesBody([]byte("<html>oops"))), nil
			}
			if strings.HasPrefix(arg, "badjson-") {
				return c3Resp(req, 200, nil, c3BytesBody(c3RawManifest(strings.TrimPrefix(arg, "badjson-"), n.c.reg))), nil
			}
			if n.rereg != nil {
				return c3Resp(req, 200, nil, c3BytesBody(c3ManifestJSON(*n.rereg))), nil
			}
			if n.c.rawManifest != "" && n.regs == nil {
				return c3Resp(req, 200, nil, c3BytesBody(c3RawManifest(n.c.rawManifest, n.c.reg))), nil
			}
			reg := n.c.reg
			for k, m := range n.regs {
				if strings.Contains(path, "/"+k+"/manifests/") {
					reg = m
				}
			}
			return c3Resp(req, 200, nil, c3BytesBody(c3ManifestJSON(reg))), nil
		})
	case host == c3RegHost && strings.Contains(path, "/blobs/sha256:"):
		dig := path[strings.Index(path, "/blobs/sha256:")+len("/blobs/sha256:"):]
		if req.Method == http.MethodHead {
			n.nh++
			if resp := n.unauthorized(req); resp != nil {
				return resp, nil
			}
			r := c3Reply{"notfound", ""}
			if n.has[dig] {
				r = c3Reply{"pass", strconv.Itoa(len(n.content[dig]))}
			}
			if s := n.head[dig]; len(s) > 0 {
				r, n.head[dig] = s[0], s[1:]
			}
			return n.generic(req, r, func(arg string) (*http.Response, error) {
				if arg == "0" && !n.has[dig] {
					return c3Resp(req, 200, nil, nil), nil // no Content-Length header at all
				}
				switch arg { // other ways of saying "no usable length"
				case "0absent":
					return c3Resp(req, 200, nil, nil), nil
				case "0neg":
					arg = "-5"
				case "0nan":
					arg = "12abc"
				case "0empty":
					arg = ""
				}
				return c3Resp(req, 200, map[string]string{"Content-Length": arg}, nil), nil
			})
		}
		n.nd++
		if resp := n.unauthorized(req); resp != nil {
			return resp, nil
		}
		r := c3Reply{"notfound", ""}
		if n.has[dig] {
			r = c3Reply{"pass", "redirect"}
		}
		if s := n.direct[dig]; len(s) > 0 {
			r, n.direct[dig] = s[0], s[1:]
		}
		return n.generic(req, r, func(arg string) (*http.Response, error) {
			loc := "https://" + c3CDNHost + "/blob/" + dig
			switch arg {
			case "redirect200":
				return c3Resp(req, 200, map[string]string{"Location": loc}, nil), nil
			case "noloc":
				return c3Resp(req, 200, nil, c3BytesBody([]byte("body"))), nil
			case "noloc307":
				return c3Resp(req, 307, nil, nil), nil
			case "noloc301":
				return c3Resp(req, 301, nil, nil), nil
			case "badstatus":
				return c3Resp(req, 302, map[string]string{"Location": loc}, nil), nil
			case "badstatus301":
				return c3Resp(req, 301, map[string]string{"Location": loc}, nil), nil
			case "badstatus303":
				return c3Resp(req, 303, map[string]string{"Location": loc}, nil), nil
			case "badstatus308":
				return c3Resp(req, 308, map[string]string{"Location": loc}, nil), nil
			case "badloc":
				return c3Resp(req, 307, map[string]string{"Location": "https://cdn.test/%zz"}, nil), nil
			case "redirectdead":
				return c3Resp(req, 307, map[string]string{"Location": "https://" + c3DeadHost + "/blob/" + dig}, nil), nil
			}
			return c3Resp(req, 307, map[string]string{"Location": loc}, nil), nil
		})
	case host == c3DeadHost:
		n.nc++
		return nil, errors.New("NETERR dead host")
	case host == c3CDNHost && strings.HasPrefix(path, "/blob/"):
		n.nc++
		dig := strings.TrimPrefix(path, "/blob/")
		var s, e int64
		if _, err := fmt.Sscanf(req.Header.Get("Range"), "bytes=%d-%d", &s, &e); err != nil {
			return nil, errors.New("NETERR bad range " + req.Header.Get("Range"))
		}
		idx := n.partIndex(dig, e+1)
		r := c3Chunk{src: "honest", cut: -1, end: "eof"}
		if idx >= 0 && idx < len(n.chunks[dig]) && len(n.chunks[dig][idx]) > 0 {
			r, n.chunks[dig][idx] = n.chunks[dig][idx][0], n.chunks[dig][idx][1:]
		}
		if r.neterr {
			return nil, errors.New("NETERR")
		}
		content := n.content[dig]
		rng := func() []byte {
			lo, hi := s, e+1
			if lo > int64(len(content)) {
				lo = int64(len(content))
			}
			if hi > int64(len(content)) {
				hi = int64(len(content))
			}
			if hi < lo {
				hi = lo
			}
			return append([]byte{}, content[lo:hi]...)
		}
		var body []byte
		status := 206
		switch r.src {
		case "honest":
			body = rng()
			if !n.has[dig] {
				status = 404
			}
		case "full":
			body, status = append([]byte{}, content...), 200
		case "junk":
			body, status = r.junk, 503
		case "flip":
			body = rng()
			if r.flip < len(body) {
				body[r.flip] ^= 0xff
			}
		}
		if r.cut >= 0 && r.cut < len(body) {
			body = body[:r.cut]
		}
		return c3Resp(req, status, nil, &c3Body{data: body, end: r.end, ctx: req.Context(), cancel: n.cancel}), nil
	}
	return nil, errors.New("TOKNET unknown endpoint " + req.URL.String())
}

// unauthorized: in validating mode the registry answers 401 (with the well-formed challenge) to every request that
// does not carry a bearer token issued in THIS attempt — tokens of earlier attempts are expired.
func (n *c3Net) unauthorized(req *http.Request) *http.Response {
	if !n.validate || n.valid[strings.TrimPrefix(req.Header.Get("Authorization"), "Bearer ")] {
		return nil
	}
	resp := c3Resp(req, 401, nil, c3BytesBody([]byte("unauthorized")))
	resp.Header["Www-Authenticate"] = []string{c3GoodChallenge}
	return resp
}

func (n *c3Net) generic(req *http.Request, r c3Reply, pass func(arg string) (*http.Response, error)) (*http.Response, error) {
	switch r.kind {
	case "pass":
		return pass(r.arg)
	case "neterr":
		return nil, errors.New("NETERR")
	case "unauth":
		if n.countOut != "" && !c3ProbeFixed() && strings.HasPrefix(c3HdrDetail(r.arg), "header ends") {
			n.dying.Store(true)
		}
		resp := c3Resp(req, 401, nil, c3BytesBody([]byte("unauthorized")))
		resp.Header["Www-Authenticate"] = []string{r.arg}
		return resp, nil
	case "notfound":
		return c3Resp(req, 404, nil, c3BytesBody([]byte("not found"))), nil
	case "statusbig":
		return c3Resp(req, 502, nil, c3BytesBody([]byte("REGERR "+strings.Repeat("x", 10<<20)))), nil
	case "follow": // a redirect the client follows: the same URL again (same host, so the direct-URL policy follows it too)
		return c3Resp(req, 307, map[string]string{"Location": req.URL.String()}, nil), nil
	}
	return c3Resp(req, 500, nil, c3BytesBody([]byte("REGERR"))), nil
}

// partIndex finds the part whose record stops at `stop` (the records on disk are what the code uses).
func (n *c3Net) partIndex(dig string, stop int64) int {
	files, _ := filepath.Glob(filepath.Join(n.models, "blobs", "sha256-"+dig+"-partial-*"))
	for _, f := range files {
		b, err := os.ReadFile(f)
		if err != nil {
			continue
		}
		var j jsonBlobDownloadPart
		if json.Unmarshal(b, &j) == nil && j.Offset+j.Size == stop {
			return j.N
		}
	}
	return -1
}

// ---------------------------------------------------------------- store on disk

func c3Materialise(c *c3Case, models string) {
	must := func(err error) {
		if err != nil {
			panic(err)
		}
	}
	blobs := filepath.Join(models, "blobs")
	must(os.MkdirAll(blobs, 0o755))
	for _, b := range c.blobs {
		must(os.WriteFile(filepath.Join(blobs, "sha256-"+b.dig), b.content, 0o644))
	}
	for _, p := range c.partials {
		base := filepath.Join(blobs, "sha256-"+p.dig+"-partial")
		if p.hasData {
			must(os.WriteFile(base, p.data, 0o644))
		}
		for i, q := range p.parts {
			j, _ := json.Marshal(jsonBlobDownloadPart{N: i, Offset: q.off, Size: q.size, Completed: q.done})
			must(os.WriteFile(base+"-"+strconv.Itoa(i), append(j, '\n'), 0o644))
		}
	}
	for _, m := range c.manifests {
		p := filepath.Join(models, "manifests", c3RegHost, "ns", fmt.Sprintf("m%d", m.name), "latest")
		must(os.MkdirAll(filepath.Dir(p), 0o755))
		if m.corrupt {
			must(os.WriteFile(p, []byte("{not json"), 0o644))
		} else {
			must(os.WriteFile(p, c3ManifestJSON(m.m), 0o644))
		}
	}
}

type c3Disk struct {
	blobs    map[string][]byte
	pdata    map[string][]byte
	hasPData map[string]bool
	parts    map[string]map[int]jsonBlobDownloadPart
	other    []string
	mans     map[int]*Manifest // nil value = corrupt
	rawMans  map[int][]byte    // the manifest files as they are on disk
}

var c3FileRe = regexp.MustCompile(`^sha256-([0-9a-f]{64})(-partial(-(\d+))?)?$`)

func c3ReadDisk(models string) *c3Disk {
	d := &c3Disk{blobs: map[string][]byte{}, pdata: map[string][]byte{}, hasPData: map[string]bool{},
		parts: map[string]map[int]jsonBlobDownloadPart{}, mans: map[int]*Manifest{}, rawMans: map[int][]byte{}}
	ents, _ := os.ReadDir(filepath.Join(models, "blobs"))
	for _, e := range ents {
		m := c3FileRe.FindStringSubmatch(e.Name())
		if m == nil {
			d.other = append(d.other, e.Name())
			continue
		}
		b, _ := os.ReadFile(filepath.Join(models, "blobs", e.Name()))
		switch {
		case m[2] == "":
			d.blobs[m[1]] = b
		case m[4] == "":
			d.pdata[m[1]] = b
			d.hasPData[m[1]] = true
		default:
			var j jsonBlobDownloadPart
			k, _ := strconv.Atoi(m[4])
			if json.Unmarshal(b, &j) != nil {
				j = jsonBlobDownloadPart{N: -1}
			}
			if d.parts[m[1]] == nil {
				d.parts[m[1]] = map[int]jsonBlobDownloadPart{}
			}
			d.parts[m[1]][k] = j
		}
	}
	for id := 0; id < 4; id++ {
		p := filepath.Join(models, "manifests", c3RegHost, "ns", fmt.Sprintf("m%d", id), "latest")
		b, err := os.ReadFile(p)
		if err != nil {
			continue
		}
		d.rawMans[id] = b
		var m Manifest
		if json.NewDecoder(bytes.NewReader(b)).Decode(&m) != nil {
			d.mans[id] = nil
		} else {
			d.mans[id] = &m
		}
	}
	return d
}

func c3ShowManifest(m *Manifest) string {
	var ls []string
	// media types: nothing for the usual one (and for a descriptor without any: wrong-shape manifests), "@k" for the
	// k-th of the alphabet, "@?" for anything else
	mt := func(s, dflt string) string {
		switch k := c3MediaIdx(s, dflt); {
		case k == 0 || s == "":
			return ""
		case k < 0:
			return "@?"
		default:
			return "@" + strconv.Itoa(k)
		}
	}
	for _, l := range m.Layers {
		ls = append(ls, fmt.Sprintf("%s/%s%s", c3Short(c3RefOf(l.Digest)), c3SizeTok(l.Size), mt(l.MediaType, c3LayerMedia)))
	}
	return fmt.Sprintf("l(%s)c(%s/%s%s)", strings.Join(ls, ","), c3Short(c3RefOf(m.Config.Digest)), c3SizeTok(m.Config.Size), mt(m.Config.MediaType, c3ConfigMedia))
}

func c3Short(ref string) string {
	if len(ref) == 64 {
		return ref[:12]
	}
	return ref
}

func c3HexOrDash(b []byte) string {
	if len(b) == 0 {
		return "-"
	}
	return hex.EncodeToString(b)
}

// show renders the store exactly like the oracle's showStore.
func (d *c3Disk) show() string {
	var digs []string
	seen := map[string]bool{}
	for _, m := range []map[string][]byte{d.blobs, d.pdata} {
		for k := range m {
			if !seen[k] {
				seen[k] = true
				digs = append(digs, k)
			}
		}
	}
	for k := range d.parts {
		if !seen[k] {
			seen[k] = true
			digs = append(digs, k)
		}
	}
	sort.Strings(digs)
	var bl, pa, ma []string
	for _, k := range digs {
		if b, ok := d.blobs[k]; ok {
			bl = append(bl, k[:12]+":"+c3HexOrDash(b))
		}
		if d.hasPData[k] || len(d.parts[k]) > 0 {
			data := "none"
			if d.hasPData[k] {
				data = c3HexOrDash(d.pdata[k])
			}
			var ps []string
			var idx []int
			for i := range d.parts[k] {
				idx = append(idx, i)
			}
			sort.Ints(idx)
			for _, i := range idx {
				j := d.parts[k][i]
				if j.N != i {
					ps = append(ps, fmt.Sprintf("?N%d@%d", j.N, i))
					continue
				}
				ps = append(ps, fmt.Sprintf("%d/%d/%d", j.Offset, j.Size, j.Completed))
			}
			pa = append(pa, fmt.Sprintf("%s:%s:[%s]", k[:12], data, strings.Join(ps, ",")))
		}
	}
	for _, o := range d.other {
		bl = append(bl, "?"+o)
	}
	for id := 0; id < 4; id++ {
		m, ok := d.mans[id]
		if !ok {
			continue
		}
		if m == nil {
			ma = append(ma, fmt.Sprintf("%d:corrupt", id))
		} else {
			ma = append(ma, fmt.Sprintf("%d:%s", id, c3ShowManifest(m)))
		}
	}
	return fmt.Sprintf("blobs=[%s] partials=[%s] manifests=[%s]", strings.Join(bl, ","), strings.Join(pa, ";"), strings.Join(ma, ";"))
}

// ---------------------------------------------------------------- one attempt on the real code

func c3Classify(err error) string {
	if err == nil {
		return "ok"
	}
	s := err.Error()
	switch {
	case strings.HasPrefix(s, "pull model manifest:"):
		return "err:manifest"
	case errors.Is(err, errUnauthorized):
		return "err:unauthorized"
	case errors.Is(err, ErrInvalidDigestFormat):
		return "err:digest-format"
	case errors.Is(err, errMaxRetriesExceeded):
		return "err:max-retries"
	case errors.Is(err, errDigestMismatch):
		return "err:digest-mismatch"
	case errors.Is(err, context.Canceled):
		return "err:canceled"
	case errors.Is(err, context.DeadlineExceeded):
		return "err:deadline"
	case errors.Is(err, http.ErrNoLocation):
		return "err:no-location"
	case errors.Is(err, os.ErrNotExist):
		return "err:notfound"
	case strings.Contains(s, "unexpected status code"):
		return "err:direct-status"
	case strings.Contains(s, "TOKERR"), strings.Contains(s, "TOKNET"),
		strings.HasPrefix(s, "json: "), strings.HasPrefix(s, "invalid character"), strings.HasPrefix(s, "unexpected end of JSON"),
		s == "EOF", s == "unexpected EOF":
		return "err:auth" // outside the manifest (which is wrapped) only the token answer is decoded
	case strings.Contains(s, "REGERR"):
		return "err:http"
	case strings.Contains(s, "NETERR"), strings.Contains(s, "stopped after 10 redirects"):
		return "err:net"
	}
	return "err:other:" + strings.ReplaceAll(s, " ", "_")
}

func c3PanicSite(msg string) string {
	switch {
	case strings.Contains(msg, "getValue"):
		return "panic:challenge"
	case strings.Contains(msg, "downloadBlob"):
		return "panic:empty-digest"
	case strings.Contains(msg, "downloadChunk"):
		return "panic:download-chunk"
	case strings.Contains(msg, "server.PullModel"):
		return "panic:pull-model"
	}
	return "panic:other"
}

type c3Result struct {
	class    string
	counts   string
	statuses []string
	errText  string
	died     bool // child process died (panic on the download goroutine)
}

// c3Setup points the process at a store and installs the signing key getAuthorizationToken needs.
func c3Setup(t *testing.T, home string) {
	t.Setenv("HOME", home)
	key := filepath.Join(home, ".ollama", "id_ed25519")
	if _, err := os.Stat(key); err != nil {
		_, priv, err := ed25519.GenerateKey(rand.Reader)
		if err != nil {
			t.Fatal(err)
		}
		blk, err := ssh.MarshalPrivateKey(priv, "")
		if err != nil {
			t.Fatal(err)
		}
		_ = os.MkdirAll(filepath.Dir(key), 0o755)
		if err := os.WriteFile(key, pem.EncodeToMemory(blk), 0o600); err != nil {
			t.Fatal(err)
		}
	}
}

func c3ResetManager() {
	blobDownloadManager.Range(func(k, _ any) bool {
		blobDownloadManager.Delete(k)
		return true
	})
}

// c3RunAttempt runs PullModel once, in fake time, against the scripted network.
// Panics on the calling goroutine are recovered and classified; a panic on the download
// goroutine kills the process (such attempts are run in a child process by the caller).
func c3RunAttempt(t *testing.T, c *c3Case, a *c3Attempt, models string, countOut string) c3Result {
	var res c3Result
	os.Setenv("OLLAMA_MODELS", models)
	if c.noprune {
		os.Setenv("OLLAMA_NOPRUNE", "1")
	} else {
		os.Unsetenv("OLLAMA_NOPRUNE")
	}
	net := c3NewNet(c, a, models)
	net.countOut = countOut
	old := http.DefaultTransport
	http.DefaultTransport = net
	defer func() { http.DefaultTransport = old }()
	synctest.Test(t, func(t *testing.T) {
		func() {
			defer func() {
				if r := recover(); r != nil {
					buf := make([]byte, 1<<16)
					buf = buf[:runtime.Stack(buf, false)]
					res.class = c3PanicSite(string(buf))
				}
			}()
			ctx, cancel := context.WithCancel(context.Background())
			defer cancel()
			net.cancel = cancel
			verifying := 0
			err := PullModel(ctx, c3ModelName(c.name), &registryOptions{}, func(r api.ProgressResponse) {
				// scripted caller cancellation at a progress callback
				switch {
				case r.Status == "pulling manifest" && a.cancel == "start",
					r.Status == "writing manifest" && a.cancel == "writing",
					r.Status == "verifying sha256 digest" && a.cancel == fmt.Sprintf("verifying %d", verifying):
					net.callerGone.Store(true)
					cancel()
				}
				if r.Status == "verifying sha256 digest" {
					verifying++
				}
				if len(res.statuses) == 0 || res.statuses[len(res.statuses)-1] != r.Status {
					res.statuses = append(res.statuses, r.Status)
				}
			})
			res.class = c3Classify(err)
			if err != nil {
				res.errText = err.Error()
			}
		}()
		synctest.Wait()
	})
	if strings.HasPrefix(res.class, "panic") {
		c3ResetManager()
	}
	res.counts = net.counts()
	if res.class == "err:deadline" {
		res.counts = fmt.Sprintf("m%d,h%d,d*,c%d,t%d", net.nm, net.nh, net.nc, net.nt)
	}
	return res
}
