package server

// C11, decision logic as a pure function: the REAL Scheduler.findRunnerToUnload on generated sets of loaded
// runners (keep-alive incl. negative = "for ever", reference counts, model paths) against the model's findVictim
// (L1, exact) and against the property clause itself: "making room evicts an idle runner when one exists" (L2).

import (
	"fmt"
	"sort"
	"strings"
	"testing"
	"time"

	"github.com/ollama/ollama/zzverif"
)

func TestVerifC11Victim(t *testing.T) {
	out := zzverif.NewOut()
	defer out.Close()
	root := zzverif.NewRng(zzverif.Seed())
	durs := []time.Duration{0, 0, time.Nanosecond, time.Millisecond, 5 * time.Minute, 5 * time.Minute, time.Hour, -1, -time.Second, 1<<63 - 1}
	for i := 0; i < zzverif.EnvInt("VERIF_N", 3000); i++ {
		r := root.Fork()
		n := r.Intn(6)
		ids := []int{0, 1, 2, 3, 4, 5, 6, 7, 8, 9}
		for k := len(ids) - 1; k > 0; k-- {
			j := r.Intn(k + 1)
			ids[k], ids[j] = ids[j], ids[k]
		}
		ids = ids[:n]
		s := &Scheduler{loaded: map[string]*runnerRef{}}
		type row struct {
			id  int
			dur uint64
			ref uint
		}
		var rows []row
		idle := false
		for _, id := range ids {
			d := zzverif.Pick(r, durs)
			ref := uint(zzverif.Pick(r, []int{0, 0, 1, 2}))
			if r.Chance(1, 3) && len(rows) > 0 {
				d = time.Duration(rows[0].dur) // ties on the duration: the path decides
			}
			path := fmt.Sprintf("/models/m%02d", id)
			s.loaded[path] = &runnerRef{modelPath: path, sessionDuration: d, refCount: ref}
			rows = append(rows, row{id, uint64(d), ref})
			idle = idle || ref == 0
		}
		sort.Slice(rows, func(a, b int) bool { return rows[a].id < rows[b].id })
		var sb strings.Builder
		fmt.Fprintf(&sb, "victim %d", n)
		for _, w := range rows {
			fmt.Fprintf(&sb, " %d %d %d", w.id, w.dur, w.ref)
		}
		got := s.findRunnerToUnload()
		impl := "none"
		if got != nil {
			var id int
			fmt.Sscanf(got.modelPath, "/models/m%02d", &id)
			impl = fmt.Sprint(id)
			if idle && got.refCount != 0 {
				out.L2("c11-victim-busy", sb.String(), fmt.Sprintf("findRunnerToUnload chose %s (refCount %d) although an idle runner is loaded", got.modelPath, got.refCount))
			}
		} else if n > 0 {
			out.L2("c11-victim-none", sb.String(), "no victim although runners are loaded")
		}
		out.Case(sb.String(), impl)
		out.Count(fmt.Sprintf("victim_n_%d", n))
		if idle {
			out.Count("victim_some_idle")
		}
	}
}
