package server

// C19 driver, handler level: POST /api/chat through the REAL ChatHandler (model created with the
// real CreateHandler: TEMPLATE, SYSTEM, MESSAGE history, PARAMETER num_ctx) and the REAL Scheduler
// including its load path (`sched.load`, as InitScheduler wires it): only `newServerFn` is a mock, so
// the runner carries the options the scheduler loaded it with (NumCtx clamped and multiplied by
// the number of parallel slots, OLLAMA_NUM_PARALLEL = 1 / 2 / 4 / unset).  Observation point of the
// property: the prompt and image list handed to the runner's Completion — they must be cut for
// the REQUEST's context length (model options ⊕ request options), whatever the runner's copy says.
//
//   ops.txt : hchat <variant> <default num_ctx> <model num_ctx|-> <request num_ctx|-> <numParallel>
//                   <srchex> <tmpl> <systemhex> <model msgs> <request msgs>
//   impl.txt: load | ok loaded=<NumCtx given to newServerFn> imgs=<id:src:pre,…> prompt=<hex> | err:… | panic:…

import (
	"bytes"
	"encoding/base64"
	"context"
	"encoding/json"
	"fmt"
	"io"
	"net/http"
	"net/http/httptest"
	"os"
	"strconv"
	"strings"
	"testing"
	"time"

	"github.com/gin-gonic/gin"

	"github.com/ollama/ollama/api"
	"github.com/ollama/ollama/discover"
	"github.com/ollama/ollama/fs/ggml"
	"github.com/ollama/ollama/llm"
	"github.com/ollama/ollama/openai"
	"github.com/ollama/ollama/template"
	"github.com/ollama/ollama/zzverif"
)

func c19MsgTokens(ms []c19Msg) string {
	var sb strings.Builder
	fmt.Fprintf(&sb, "%d", len(ms))
	for _, m := range ms {
		fmt.Fprintf(&sb, " %s %s %d", m.role, zzverif.Hex([]byte(m.content)), len(m.imgs))
		for _, im := range m.imgs {
			fmt.Fprintf(&sb, " %d 1", im.src)
		}
	}
	return sb.String()
}

// c19HRunner can go through the scheduler's real load path.
type c19HRunner struct{ *mockRunner }

func (c19HRunner) WaitUntilRunning(context.Context) error { return nil }
func (c19HRunner) Ping(context.Context) error             { return nil }
func (c19HRunner) Close() error                           { return nil }
func (c19HRunner) EstimatedVRAM() uint64                  { return 0 }
func (c19HRunner) EstimatedTotal() uint64                 { return 0 }
func (c19HRunner) EstimatedVRAMByGPU(string) uint64       { return 0 }

func c19CPU() discover.GpuInfoList {
	g := discover.GpuInfo{Library: "cpu"}
	g.TotalMemory = 64 << 30
	g.FreeMemory = 64 << 30
	return discover.GpuInfoList{g}
}

// OpenAI-compatible entry (round 7): POST /v1/chat/completions -> openai.ChatMiddleware (fromChatRequest) ->
// ChatHandler.  A message's content is a string or an array of parts; every part becomes its own api.Message.
type c19OPart struct {
	isImg bool
	text  string
	img   c19Img
}

type c19OMsg struct {
	role    string
	isParts bool
	content string
	parts   []c19OPart
}

// c19Flatten is the SPECIFICATION of the conversion (written from the OpenAI semantics, not from the code):
// a string content is one message, each text part a message without images, each image part a message
// with no text and that one image.
func c19Flatten(oreq []c19OMsg) []c19Msg {
	var out []c19Msg
	for _, m := range oreq {
		if !m.isParts {
			out = append(out, c19Msg{role: m.role, content: m.content})
			continue
		}
		for _, p := range m.parts {
			if p.isImg {
				out = append(out, c19Msg{role: m.role, imgs: []c19Img{p.img}})
			} else {
				out = append(out, c19Msg{role: m.role, content: p.text})
			}
		}
	}
	return out
}

func c19OMsgTokens(oreq []c19OMsg) string {
	var sb strings.Builder
	fmt.Fprintf(&sb, "%d", len(oreq))
	for _, m := range oreq {
		if !m.isParts {
			fmt.Fprintf(&sb, " %s S %s", m.role, zzverif.Hex([]byte(m.content)))
			continue
		}
		fmt.Fprintf(&sb, " %s P %d", m.role, len(m.parts))
		for _, p := range m.parts {
			if p.isImg {
				fmt.Fprintf(&sb, " I %d 1", p.img.src)
			} else {
				fmt.Fprintf(&sb, " T %s", zzverif.Hex([]byte(p.text)))
			}
		}
	}
	return sb.String()
}

// c19Request is createRequest with a cancellable request context (the scheduler releases the
// runner when the request's context ends).
func c19Request(ctx context.Context, fn func(*gin.Context), body any) *httptest.ResponseRecorder {
	w := NewRecorder()
	c, _ := gin.CreateTestContext(w)
	var b bytes.Buffer
	if err := json.NewEncoder(&b).Encode(body); err != nil {
		panic(err)
	}
	c.Request = (&http.Request{Body: io.NopCloser(&b)}).WithContext(ctx)
	fn(c)
	return w.ResponseRecorder
}

func TestVerifC19Handler(t *testing.T) {
	gin.SetMode(gin.TestMode)
	e := c19NewEnv(t)
	out := zzverif.NewOut()
	defer out.Close()
	t.Setenv("OLLAMA_MAX_LOADED_MODELS", "1")
	dflt := api.DefaultOptions().NumCtx

	mock := mockRunner{CompletionResponse: llm.CompletionResponse{Done: true, DoneReason: llm.DoneReasonStop,
		PromptEvalCount: 1, PromptEvalDuration: 1, EvalCount: 1, EvalDuration: 1}}
	s := Server{sched: &Scheduler{
		pendingReqCh:  make(chan *LlmRequest, 1),
		finishedReqCh: make(chan *LlmRequest, 1),
		expiredCh:     make(chan *runnerRef, 1),
		unloadedCh:    make(chan any, 1),
		loaded:        make(map[string]*runnerRef),
		newServerFn:   newMockServer(&mock),
		getGpuFn:      discover.GetGPUInfo,
		getCpuFn:      discover.GetCPUInfo,
		reschedDelay:  250 * time.Millisecond,
		loadFn: func(req *LlmRequest, _ *ggml.GGML, _ discover.GpuInfoList, _ int) {
			req.successCh <- &runnerRef{llama: &mock}
		},
	}}
	ctx, cancel := context.WithCancel(context.Background())
	defer cancel()
	go s.sched.Run(ctx)

	t.Setenv("OLLAMA_MODELS", t.TempDir())
	_, digest := createBinFile(t, ggml.KV{
		"general.architecture":          "llama",
		"llama.block_count":             uint32(1),
		"llama.context_length":          uint32(8192),
		"llama.embedding_length":        uint32(4096),
		"llama.attention.head_count":    uint32(32),
		"llama.attention.head_count_kv": uint32(8),
		"tokenizer.ggml.tokens":         []string{""},
		"tokenizer.ggml.scores":         []float32{0},
		"tokenizer.ggml.token_type":     []int32{0},
	}, []ggml.Tensor{
		{Name: "token_embd.weight", Shape: []uint64{1}, WriterTo: bytes.NewReader(make([]byte, 4))},
		{Name: "blk.0.attn_norm.weight", Shape: []uint64{1}, WriterTo: bytes.NewReader(make([]byte, 4))},
		{Name: "blk.0.ffn_down.weight", Shape: []uint64{1}, WriterTo: bytes.NewReader(make([]byte, 4))},
		{Name: "blk.0.ffn_gate.weight", Shape: []uint64{1}, WriterTo: bytes.NewReader(make([]byte, 4))},
		{Name: "blk.0.ffn_up.weight", Shape: []uint64{1}, WriterTo: bytes.NewReader(make([]byte, 4))},
		{Name: "blk.0.ffn_norm.weight", Shape: []uint64{1}, WriterTo: bytes.NewReader(make([]byte, 4))},
		{Name: "blk.0.attn_k.weight", Shape: []uint64{1}, WriterTo: bytes.NewReader(make([]byte, 4))},
		{Name: "blk.0.attn_output.weight", Shape: []uint64{1}, WriterTo: bytes.NewReader(make([]byte, 4))},
		{Name: "blk.0.attn_q.weight", Shape: []uint64{1}, WriterTo: bytes.NewReader(make([]byte, 4))},
		{Name: "blk.0.attn_v.weight", Shape: []uint64{1}, WriterTo: bytes.NewReader(make([]byte, 4))},
		{Name: "output.weight", Shape: []uint64{1}, WriterTo: bytes.NewReader(make([]byte, 4))},
	})
	stream := false
	if w := createRequest(t, s.CreateHandler, api.CreateRequest{Model: "c19base", Files: map[string]string{"file.gguf": digest}, Stream: &stream}); w.Code != http.StatusOK {
		t.Fatalf("create base: %d %s", w.Code, w.Body.String())
	}

	toAPI := func(ms []c19Msg) []api.Message {
		var o []api.Message
		for _, m := range ms {
			am := api.Message{Role: c19RoleNames[m.role], Content: m.content}
			for _, im := range m.imgs {
				am.Images = append(am.Images, api.ImageData(e.imgBytes(im)))
			}
			o = append(o, am)
		}
		return o
	}

	idx := 0
	// modelCtx / reqCtx < 0: not set (PARAMETER num_ctx of the model / "num_ctx" option of the request)
	// oreq != nil: the request goes through the OpenAI-compatible entry; `req` is then the specified
	// conversion c19Flatten(oreq) (used by the model-free L2 clauses), the op line carries the OpenAI form
	runH := func(tc *c19Case, sys string, mm, req []c19Msg, parallelEnv string, modelCtx, reqCtx int, oreq []c19OMsg) {
		tools := tc.tools
		i := idx
		idx++
		name := fmt.Sprintf("c19m%d", i)
		cr := api.CreateRequest{Model: name, From: "c19base", Template: tc.src, System: sys, Messages: toAPI(mm), Stream: &stream}
		if modelCtx >= 0 {
			cr.Parameters = map[string]any{"num_ctx": modelCtx}
		}
		if w := createRequest(t, s.CreateHandler, cr); w.Code != http.StatusOK {
			t.Fatalf("create %s: %d %s (template %q)", name, w.Code, w.Body.String(), tc.src)
		}

		// a fresh REAL scheduler for this request: real GetRunner / processPending / load
		t.Setenv("OLLAMA_NUM_PARALLEL", parallelEnv)
		loadedNumCtx, loadedParallel := 0, 0
		sched := &Scheduler{
			pendingReqCh:  make(chan *LlmRequest, 1),
			finishedReqCh: make(chan *LlmRequest, 1),
			expiredCh:     make(chan *runnerRef, 1),
			unloadedCh:    make(chan any, 1),
			loaded:        make(map[string]*runnerRef),
			newServerFn: func(_ discover.GpuInfoList, _ string, _ *ggml.GGML, _, _ []string, opts api.Options, numParallel int) (llm.LlamaServer, error) {
				loadedNumCtx, loadedParallel = opts.NumCtx, numParallel
				return c19HRunner{&mock}, nil
			},
			getGpuFn:     c19CPU,
			getCpuFn:     c19CPU,
			reschedDelay: 250 * time.Millisecond,
		}
		sched.loadFn = sched.load
		cs := Server{sched: sched}
		sctx, scancel := context.WithCancel(context.Background())
		go sched.Run(sctx)
		rctx, rcancel := context.WithCancel(context.Background())
		defer func() {
			rcancel()
			scancel()
		}()

		opt := func(v int) string {
			if v < 0 {
				return "-"
			}
			return strconv.Itoa(v)
		}

		called := false
		var got llm.CompletionRequest
		mock.CompletionFn = func(_ context.Context, cr llm.CompletionRequest, fn func(llm.CompletionResponse)) error {
			called, got = true, cr
			fn(mock.CompletionResponse)
			return nil
		}
		impl := ""
		var body string
		func() {
			defer func() {
				if p := recover(); p != nil {
					if strings.Contains(fmt.Sprint(p), "parse.Node is nil, not *parse.ListNode") {
						impl = "panic:template-cut"
					} else {
						impl = "panic:other:" + strings.ReplaceAll(fmt.Sprint(p), " ", "_")
					}
				}
			}()
			creq := api.ChatRequest{Model: name, Messages: toAPI(req), Stream: &stream, Tools: tools}
			if reqCtx >= 0 {
				creq.Options = map[string]any{"num_ctx": reqCtx}
			}
			var w *httptest.ResponseRecorder
			if oreq == nil {
				w = c19Request(rctx, cs.ChatHandler, creq)
			} else {
				var om []map[string]any
				for _, m := range oreq {
					if !m.isParts {
						om = append(om, map[string]any{"role": c19RoleNames[m.role], "content": m.content})
						continue
					}
					parts := []map[string]any{}
					for k, p := range m.parts {
						switch {
						case !p.isImg:
							parts = append(parts, map[string]any{"type": "text", "text": p.text})
						case k%2 == 0:
							parts = append(parts, map[string]any{"type": "image_url", "image_url": map[string]any{"url": "data:image/png;base64," + base64.StdEncoding.EncodeToString(e.imgBytes(p.img))}})
						default:
							parts = append(parts, map[string]any{"type": "image_url", "image_url": "data:image/jpeg;base64," + base64.StdEncoding.EncodeToString(e.imgBytes(p.img))})
						}
					}
					om = append(om, map[string]any{"role": c19RoleNames[m.role], "content": parts})
				}
				obody := map[string]any{"model": name, "messages": om}
				if len(tools) > 0 {
					obody["tools"] = tools
				}
				var b bytes.Buffer
				if err := json.NewEncoder(&b).Encode(obody); err != nil {
					panic(err)
				}
				eng := gin.New()
				eng.POST("/v1/chat/completions", openai.ChatMiddleware(), cs.ChatHandler)
				rec := NewRecorder()
				hreq, _ := http.NewRequestWithContext(rctx, http.MethodPost, "/v1/chat/completions", &b)
				hreq.Header.Set("Content-Type", "application/json")
				eng.ServeHTTP(rec, hreq)
				w = rec.ResponseRecorder
			}
			body = w.Body.String()
			switch {
			case w.Code == http.StatusOK && !called && strings.Contains(body, `"done_reason":"load"`):
				impl = "load"
			case w.Code == http.StatusOK && called:
				var imgs []string
				for _, im := range got.Images {
					src, pre, ok := e.identify(im.Data)
					p := 0
					if pre {
						p = 1
					}
					if !ok {
						imgs = append(imgs, fmt.Sprintf("%d:?:?", im.ID))
					} else {
						imgs = append(imgs, fmt.Sprintf("%d:%d:%d", im.ID, src, p))
					}
				}
				is := "-"
				if len(imgs) > 0 {
					is = strings.Join(imgs, ",")
				}
				impl = fmt.Sprintf("ok loaded=%d imgs=%s prompt=%s", loadedNumCtx, is, zzverif.Hex([]byte(got.Prompt)))
			case w.Code == http.StatusInternalServerError && strings.Contains(body, "template:"):
				impl = "err:template"
			default:
				impl = fmt.Sprintf("http:%d:%s", w.Code, strings.ReplaceAll(c19Clip(body), " ", "_"))
			}
		}()
		// drop the model again: name resolution scans every manifest, so keeping them makes the run quadratic
		createRequest(t, s.DeleteHandler, api.DeleteRequest{Model: name})
		line := fmt.Sprintf("hchat %d %d %s %s %d %s %s %s %s %s", e.fixed, dflt, opt(modelCtx), opt(reqCtx), loadedParallel,
			zzverif.Hex([]byte(tc.src)), tc.ast+fmt.Sprintf(" %d %s", len(tools), zzverif.Hex([]byte(tools.String()))), zzverif.Hex([]byte(sys)), c19MsgTokens(mm), c19MsgTokens(req))
		if oreq != nil {
			line = fmt.Sprintf("ochat %d %d %s %s %d %s %s %s %s %s", e.fixed, dflt, opt(modelCtx), opt(reqCtx), loadedParallel,
				zzverif.Hex([]byte(tc.src)), tc.ast+fmt.Sprintf(" %d %s", len(tools), zzverif.Hex([]byte(tools.String()))), zzverif.Hex([]byte(sys)), c19MsgTokens(mm), c19OMsgTokens(oreq))
			out.Count("handler_via_openai_entry")
			for _, m := range oreq {
				if m.isParts {
					out.Count("handler_openai_message_with_parts")
					break
				}
			}
		}
		out.Count(fmt.Sprintf("handler_tools_%d", len(tools)))
		out.Case(line, impl)
		out.Count(fmt.Sprintf("handler_loaded_parallel_%d", loadedParallel))
		if modelCtx >= 0 {
			out.Count("handler_model_has_num_ctx")
		}
		if reqCtx < 0 {
			out.Count("handler_request_without_num_ctx")
		}
		// the context length of THIS request: request option, else model parameter, else default
		lim := dflt
		if modelCtx >= 0 {
			lim = modelCtx
		}
		if reqCtx >= 0 {
			lim = reqCtx
		}
		if impl == "panic:template-cut" {
			out.L2("template-panic", line, "deleteNode else-list: POST /api/chat panics in template.Execute: interface conversion: parse.Node is nil, not *parse.ListNode")
		}
		out.Count("cases")
		out.Count("handler_" + strings.SplitN(strings.SplitN(impl, " ", 2)[0], ":", 2)[0])
		if sys != "" {
			out.Count("handler_model_has_system")
		}
		if len(mm) > 0 {
			out.Count("handler_model_has_messages")
		}
		if len(req) > 0 && req[0].role == "s" {
			out.Count("handler_request_starts_with_system")
		}

		// L2 (any template, conversations without images so that no content is rewritten): the prompt
		// handed to the runner is the real template applied to system(<n) ++ conversation[n:], where
		// [n:] is the longest recent run, all of whose shorter suffixes fit, for the REQUEST's context
		// length `lim` — not for what the scheduler loaded the runner with.
		if strings.HasPrefix(impl, "ok ") {
			var conv []api.Message
			conv = append(conv, toAPI(mm)...)
			conv = append(conv, toAPI(req)...)
			if req[0].role != "s" && sys != "" {
				conv = append([]api.Message{{Role: "system", Content: sys}}, conv...)
			}
			images := false
			for _, m := range conv {
				images = images || len(m.Images) > 0
			}
			renderFrom := func(i int) (string, bool) {
				var in []api.Message
				for j := 0; j < i; j++ {
					if conv[j].Role == "system" {
						in = append(in, conv[j])
					}
				}
				in = append(in, conv[i:]...)
				var b bytes.Buffer
				if err := e.tmplOf(tc).Execute(&b, template.Values{Messages: in, Tools: tools}); err != nil {
					return "", false
				}
				return b.String(), true
			}
			specPrompt := func(limit int) (string, int, bool) {
				n := len(conv) - 1
				for n > 0 {
					r, ok := renderFrom(n - 1)
					if !ok {
						return "", 0, false
					}
					if len(strings.Fields(r)) > limit {
						break
					}
					n--
				}
				r, ok := renderFrom(n)
				return r, n, ok
			}
			if images {
				// the same with images (round 7): the cut is computed on the original contents (as the walk measures
				// them; these models have no projector, so images cost nothing), the final prompt is the template on
				// system(<n) ++ the retained messages REWRITTEN by the specification of the tag numbering (images of the
				// retained run numbered from 0 in order; first `[img]` replaced, else tag prefixed).  For requests through
				// the OpenAI entry `conv` is the SPECIFIED conversion (c19Flatten): an image part that is not its own
				// message, or is numbered differently, shows up here with the request as input.
				if _, n, ok := specPrompt(lim); ok {
					var in []api.Message
					for j := 0; j < n; j++ {
						if conv[j].Role == "system" {
							in = append(in, conv[j])
						}
					}
					k := 0
					for _, m := range conv[n:] {
						c, pre := m.Content, ""
						for range m.Images {
							tag := fmt.Sprintf("[img-%d]", k)
							k++
							if strings.Contains(c, "[img]") {
								c = strings.Replace(c, "[img]", tag, 1)
							} else {
								pre += tag
							}
						}
						m.Content = pre + c
						in = append(in, m)
					}
					var b bytes.Buffer
					if err := e.tmplOf(tc).Execute(&b, template.Values{Messages: in, Tools: tools}); err == nil {
						out.Count("handler_l2_prompt_spec_with_images_evaluated")
						if b.String() != got.Prompt || k != len(got.Images) {
							via := "POST /api/chat"
							if oreq != nil {
								via = "POST /v1/chat/completions (every content part its own message)"
							}
							out.L2("handler-prompt-spec", line, fmt.Sprintf("%s: the prompt / images sent to the runner (%d images) are not the template applied to the specified conversation cut for num_ctx %d (retained run [%d:], %d images, tags numbered in order): got %q want %q", via, len(got.Images), lim, n, k, c19Clip(got.Prompt), c19Clip(b.String())))
						}
					}
				}
			}
			if !images {
				if want, n, ok := specPrompt(lim); ok {
					out.Count("handler_l2_limit_evaluated")
					if n > 0 {
						out.Count("handler_l2_limit_truncating")
						if _, n2, _ := specPrompt(lim * max(loadedParallel, 1)); n2 < n {
							out.Count("handler_l2_limit_between_numctx_and_numctx_x_parallel")
						}
					}
					if want != got.Prompt {
						why := ""
						for _, k := range []int{2, 4} {
							if alt, n2, ok := specPrompt(lim * k); ok && alt == got.Prompt {
								why = fmt.Sprintf(" (it is the prompt cut for %d x num_ctx = %d: run [%d:]; the runner was loaded with NumCtx %d for %d parallel slots)", k, lim*k, n2, loadedNumCtx, loadedParallel)
								break
							}
						}
						out.L2("handler-limit", line, fmt.Sprintf("the prompt sent to the runner is not the conversation cut for the request's num_ctx %d (retained run [%d:])%s", lim, n, why))
					}
				}
			}
		}

		// L2 (images, end to end): the latest message is always retained, so each of its images is handed
		// to the runner exactly once — also when the message has no text at all; when everything fits,
		// every image of the request is; on templates that print every content, each sent image is tagged
		// exactly once in the prompt.
		if strings.HasPrefix(impl, "ok ") {
			sent := map[int]int{}
			for _, im := range got.Images {
				if src, _, ok := e.identify(im.Data); ok {
					sent[src]++
				}
			}
			total, imageOnly := 0, 0
			for _, m := range req {
				total += len(m.imgs)
				if m.content == "" && len(m.imgs) > 0 {
					imageOnly++
				}
			}
			if imageOnly > 0 {
				out.Count("handler_request_has_image_only_message")
			}
			last := req[len(req)-1]
			if len(last.imgs) > 0 {
				out.Count("handler_latest_has_images")
				if last.content == "" {
					out.Count("handler_latest_is_image_only")
				}
			}
			for _, im := range last.imgs {
				if sent[im.src] != 1 {
					out.L2("handler-latest-image-missing", line, fmt.Sprintf("image src=%d of the latest message (content %q, %d images) was handed to the runner %d times; %d images sent in all", im.src, last.content, len(last.imgs), sent[im.src], len(got.Images)))
				}
			}
			if lim >= 1<<16 && len(got.Images) != total {
				out.L2("handler-image-count", line, fmt.Sprintf("everything fits (num_ctx %d) but %d images were handed to the runner, the request has %d (%d image-only messages)", lim, len(got.Images), total, imageOnly))
			}
			if tc.style == c19StyleMessages || tc.style == c19StyleInPlace || tc.style == c19StyleTools {
				literal := false
				for _, m := range req {
					literal = literal || strings.Contains(m.content, "[img-")
				}
				if tags := strings.Count(got.Prompt, "[img-"); !literal && tags != len(got.Images) {
					out.L2("handler-image-tag", line, fmt.Sprintf("%d images handed to the runner but %d tags in the prompt", len(got.Images), tags))
				}
			}
		}

		// L2, end to end, on templates that render every role where it stands (style 3) or the
		// system header + other roles (style 0): the request's latest message and the model's
		// SYSTEM reach the runner.
		if !strings.HasPrefix(impl, "ok ") || (tc.style != c19StyleMessages && tc.style != c19StyleInPlace) {
			return
		}
		out.Count("handler_l2_evaluated")
		last := req[len(req)-1]
		// (through the OpenAI entry the converted messages are renumbered and a content may be split into parts: there
		// the latest converted message's whole text must be in the prompt)
		latestMark := fmt.Sprintf("m%dq", len(req)-1)
		if oreq != nil {
			latestMark = last.content
		}
		if last.content != "" && !strings.Contains(got.Prompt, latestMark) {
			out.L2("handler-latest-missing", line, fmt.Sprintf("the request's latest message (role %s) is not in the prompt sent to the runner", last.role))
		}
		if sys != "" && req[0].role != "s" && !strings.Contains(got.Prompt, "y0q") {
			out.L2("handler-model-system-missing", line, "the model's SYSTEM is not in the prompt sent to the runner although the request does not start with a system message")
		}
	}

	if p := os.Getenv("VERIF_REPLAY"); p != "" {
		raw, err := os.ReadFile(p)
		if err != nil {
			t.Fatal(err)
		}
		for _, ln := range strings.Split(string(raw), "\n") {
			f := strings.Fields(ln)
			if len(f) < 6 || (f[0] != "hchat" && f[0] != "ochat") {
				continue
			}
			// reuse the chat-line parser: chat <variant> <mllama> <proj> <limit> <mode> <src> <tmpl…> <msgs>
			pos := 0
			next := func() string { pos++; return f[pos-1] }
			next()
			next()
			next() // default num_ctx: a fact of the tree under test
			optv := func(x string) int {
				if x == "-" {
					return -1
				}
				v, _ := strconv.Atoi(x)
				return v
			}
			modelCtx, reqCtx := optv(next()), optv(next())
			parallelEnv := next()
			if parallelEnv == "0" {
				parallelEnv = ""
			}
			tc := &c19Case{style: c19StyleGenerated, src: string(zzverif.Unhex(next()))}
			e.resolveStyle(tc)
			e.tmplOf(tc)
			// the serialised tree is regenerated from the source: find the system field by re-serialising
			skip := len(strings.Fields(tc.ast))
			pos += skip
			if nt, _ := strconv.Atoi(next()); nt > 0 {
				if err := json.Unmarshal(zzverif.Unhex(next()), &tc.tools); err != nil {
					t.Fatal(err)
				}
			} else {
				next()
			}
			sys := string(zzverif.Unhex(next()))
			readMsgs := func() []c19Msg {
				k, _ := strconv.Atoi(next())
				var ms []c19Msg
				for ; k > 0; k-- {
					m := c19Msg{role: next()}
					m.content = string(zzverif.Unhex(next()))
					ni, _ := strconv.Atoi(next())
					for ; ni > 0; ni-- {
						src, _ := strconv.Atoi(next())
						next()
						m.imgs = append(m.imgs, c19Img{src: src, ok: true})
					}
					ms = append(ms, m)
				}
				return ms
			}
			mm := readMsgs()
			if f[0] == "ochat" {
				k, _ := strconv.Atoi(next())
				var oreq []c19OMsg
				for ; k > 0; k-- {
					om := c19OMsg{role: next()}
					if next() == "S" {
						om.content = string(zzverif.Unhex(next()))
					} else {
						om.isParts = true
						np, _ := strconv.Atoi(next())
						for ; np > 0; np-- {
							if next() == "T" {
								om.parts = append(om.parts, c19OPart{text: string(zzverif.Unhex(next()))})
							} else {
								src, _ := strconv.Atoi(next())
								next()
								om.parts = append(om.parts, c19OPart{isImg: true, img: c19Img{src: src, ok: true}})
							}
						}
					}
					oreq = append(oreq, om)
				}
				runH(tc, sys, mm, c19Flatten(oreq), parallelEnv, modelCtx, -1, oreq)
				continue
			}
			req := readMsgs()
			runH(tc, sys, mm, req, parallelEnv, modelCtx, reqCtx, nil)
		}
		return
	}

	root := zzverif.NewRng(zzverif.Seed() + 7777).Fork()
	n := zzverif.EnvInt("VERIF_N", 300)
	for i := 0; i < n; i++ {
		r := root.Fork()
		// template: a harness style or a generated one the model can execute
		var tc *c19Case
		for {
			tc = &c19Case{}
			switch x := r.Intn(10); {
			case x < 5:
				tc.style = r.Intn(len(c19TemplateSrc))
			case x < 8:
				tc.style, tc.src = c19StyleGenerated, c19GenMessagesTemplate(r)
			default:
				tc.style, tc.src = c19StyleGenerated, c19GenLegacyTemplate(r)
			}
			e.tmplOf(tc)
			if tc.ast != "X" {
				break
			}
		}
		// tools only for templates that mention them (otherwise the handler answers "does not support tools")
		if strings.Contains(tc.src, ".Tools") && r.Chance(2, 3) {
			tc.tools = c19GenTools(r)
		}
		words := func(j int, mark string) string {
			parts := []string{fmt.Sprintf("%s%dq", mark, j)}
			for w := r.Pick3(0, 2, 8); w > 0; w-- {
				parts = append(parts, zzverif.Pick(r, c19Words))
			}
			return strings.Join(parts, " ")
		}
		sys := ""
		if r.Chance(2, 3) {
			sys = words(0, "y")
		}
		var mm, req []c19Msg
		for j := r.Pick3(0, 1, 3); j > 0; j-- {
			mm = append(mm, c19Msg{role: zzverif.Pick(r, []string{"u", "a", "u", "a", "s"}), content: words(len(mm), "h")})
		}
		nreq := r.Pick3(1, 3, 6)
		if r.Chance(1, 25) {
			nreq = 0
		}
		src := 1
		withImages := r.Chance(1, 3)
		for j := 0; j < nreq; j++ {
			m := c19Msg{role: zzverif.Pick(r, []string{"u", "a", "u", "a", "s", "t"}), content: words(j, "m")}
			if j == 0 && r.Chance(1, 4) {
				m.role = "s"
			}
			if withImages && r.Chance(1, 3) {
				for k := r.Range(1, 2); k > 0; k-- {
					m.imgs = append(m.imgs, c19Img{src: src, ok: true})
					src++
				}
				if r.Chance(1, 2) {
					m.content += " [img]"
				}
				// IMAGE-ONLY message: no text at all (also as the latest turn)
				if r.Chance(1, 3) {
					m.content = ""
				}
			} else if r.Chance(1, 12) {
				m.content = "" // empty turn without images
			}
			if withImages && j == nreq-1 && r.Chance(1, 4) {
				m.content, m.imgs = "", []c19Img{{src: src, ok: true}} // image-only latest turn
				src++
			}
			req = append(req, m)
		}
		// num_ctx aimed at the sizes of the suffixes (whitespace tokens of the contents, roughly)
		total := 0
		var sizes []int
		for j := len(req) - 1; j >= 0; j-- {
			total += len(strings.Fields(req[j].content)) + 2
			sizes = append(sizes, total)
		}
		// the scheduler's parallel slots, and a context length aimed at the suffix sizes and at those
		// sizes divided by the number of slots (conversation between num_ctx and num_ctx x parallel)
		parallelEnv := zzverif.Pick(r, []string{"1", "2", "4", "", "2", "4"})
		limit := r.Range(1, 40)
		if len(sizes) > 0 && r.Chance(3, 4) {
			limit = max(1, zzverif.Pick(r, sizes)/zzverif.Pick(r, []int{1, 1, 2, 3, 4})+r.Range(-3, 6))
		}
		if r.Chance(1, 12) {
			limit = 1 << 16
		}
		// where the context length comes from: request option, model PARAMETER, both, neither (default)
		modelCtx, reqCtx := -1, limit
		switch r.Intn(8) {
		case 0:
			modelCtx, reqCtx = limit, -1
		case 1:
			modelCtx = r.Range(1, 60) // overridden by the request
		case 2:
			reqCtx = -1 // default context length
		}

		// one request in four through the OpenAI-compatible entry: contents as strings or as arrays of text /
		// image parts (every image is a part); no request option for the context length there
		if len(req) > 0 && r.Chance(1, 4) {
			var oreq []c19OMsg
			for _, m := range req {
				om := c19OMsg{role: m.role, content: m.content}
				if len(m.imgs) > 0 || r.Chance(1, 3) {
					om.isParts = true
					ws := strings.Fields(m.content)
					if len(ws) > 1 && r.Chance(1, 2) {
						k := r.Range(1, len(ws)-1)
						om.parts = append(om.parts, c19OPart{text: strings.Join(ws[:k], " ")}, c19OPart{text: strings.Join(ws[k:], " ")})
					} else if m.content != "" || r.Chance(1, 2) {
						om.parts = append(om.parts, c19OPart{text: m.content})
					}
					for _, im := range m.imgs {
						pos := r.Intn(len(om.parts) + 1)
						om.parts = append(om.parts[:pos], append([]c19OPart{{isImg: true, img: im}}, om.parts[pos:]...)...)
					}
				}
				oreq = append(oreq, om)
			}
			if flat := c19Flatten(oreq); len(flat) > 0 {
				if reqCtx >= 0 {
					modelCtx, reqCtx = reqCtx, -1
				}
				runH(tc, sys, mm, flat, parallelEnv, modelCtx, -1, oreq)
				continue
			}
		}
		runH(tc, sys, mm, req, parallelEnv, modelCtx, reqCtx, nil)
	}
}
