package server

// C19 driver, handler level: POST /api/chat through the REAL ChatHandler (model created with the
// real CreateHandler: TEMPLATE, SYSTEM, MESSAGE history), with the scheduler's loader mocked as in
// routes_generate_test.go.  Observation point of the property: the prompt and image list handed
// to the runner's Completion.
//
//   ops.txt : hchat <variant> <num_ctx> <srchex> <tmpl> <systemhex> <model msgs> <request msgs>
//   impl.txt: load | ok imgs=<id:src:pre,…> prompt=<hex> | err:… | panic:…

import (
	"bytes"
	"context"
	"fmt"
	"net/http"
	"os"
	"strconv"
	"strings"
	"testing"
	"time"

	"github.com/gin-gonic/gin"

	"github.com/ollama/ollama/api"
	"github.com/ollama/ollama/discover"
	"github.com/ollama/ollama/fs/ggml"
	"github.com/ollama/ollama/llm"
	"github.com/ollama/ollama/zzverif"
)

func c19MsgTokens(ms []c19Msg) string {
	var sb strings.Builder
	fmt.Fprintf(&sb, "%d", len(ms))
	for _, m := range ms {
		fmt.Fprintf(&sb, " %s %s %d", m.role, zzverif.Hex([]byte(m.content)), len(m.imgs))
		for _, im := range m.imgs {
			fmt.Fprintf(&sb, " %d 1", im.src)
		}
	}
	return sb.String()
}

func TestVerifC19Handler(t *testing.T) {
	gin.SetMode(gin.TestMode)
	e := c19NewEnv(t)
	out := zzverif.NewOut()
	defer out.Close()

	mock := mockRunner{CompletionResponse: llm.CompletionResponse{Done: true, DoneReason: llm.DoneReasonStop,
		PromptEvalCount: 1, PromptEvalDuration: 1, EvalCount: 1, EvalDuration: 1}}
	s := Server{sched: &Scheduler{
		pendingReqCh:  make(chan *LlmRequest, 1),
		finishedReqCh: make(chan *LlmRequest, 1),
		expiredCh:     make(chan *runnerRef, 1),
		unloadedCh:    make(chan any, 1),
		loaded:        make(map[string]*runnerRef),
		newServerFn:   newMockServer(&mock),
		getGpuFn:      discover.GetGPUInfo,
		getCpuFn:      discover.GetCPUInfo,
		reschedDelay:  250 * time.Millisecond,
		loadFn: func(req *LlmRequest, _ *ggml.GGML, _ discover.GpuInfoList, _ int) {
			req.successCh <- &runnerRef{llama: &mock}
		},
	}}
	ctx, cancel := context.WithCancel(context.Background())
	defer cancel()
	go s.sched.Run(ctx)

	t.Setenv("OLLAMA_MODELS", t.TempDir())
	_, digest := createBinFile(t, ggml.KV{
		"general.architecture":          "llama",
		"llama.block_count":             uint32(1),
		"llama.context_length":          uint32(8192),
		"llama.embedding_length":        uint32(4096),
		"llama.attention.head_count":    uint32(32),
		"llama.attention.head_count_kv": uint32(8),
		"tokenizer.ggml.tokens":         []string{""},
		"tokenizer.ggml.scores":         []float32{0},
		"tokenizer.ggml.token_type":     []int32{0},
	}, []ggml.Tensor{
		{Name: "token_embd.weight", Shape: []uint64{1}, WriterTo: bytes.NewReader(make([]byte, 4))},
		{Name: "blk.0.attn_norm.weight", Shape: []uint64{1}, WriterTo: bytes.NewReader(make([]byte, 4))},
		{Name: "blk.0.ffn_down.weight", Shape: []uint64{1}, WriterTo: bytes.NewReader(make([]byte, 4))},
		{Name: "blk.0.ffn_gate.weight", Shape: []uint64{1}, WriterTo: bytes.NewReader(make([]byte, 4))},
		{Name: "blk.0.ffn_up.weight", Shape: []uint64{1}, WriterTo: bytes.NewReader(make([]byte, 4))},
		{Name: "blk.0.ffn_norm.weight", Shape: []uint64{1}, WriterTo: bytes.NewReader(make([]byte, 4))},
		{Name: "blk.0.attn_k.weight", Shape: []uint64{1}, WriterTo: bytes.NewReader(make([]byte, 4))},
		{Name: "blk.0.attn_output.weight", Shape: []uint64{1}, WriterTo: bytes.NewReader(make([]byte, 4))},
		{Name: "blk.0.attn_q.weight", Shape: []uint64{1}, WriterTo: bytes.NewReader(make([]byte, 4))},
		{Name: "blk.0.attn_v.weight", Shape: []uint64{1}, WriterTo: bytes.NewReader(make([]byte, 4))},
		{Name: "output.weight", Shape: []uint64{1}, WriterTo: bytes.NewReader(make([]byte, 4))},
	})
	stream := false
	if w := createRequest(t, s.CreateHandler, api.CreateRequest{Model: "c19base", Files: map[string]string{"file.gguf": digest}, Stream: &stream}); w.Code != http.StatusOK {
		t.Fatalf("create base: %d %s", w.Code, w.Body.String())
	}

	toAPI := func(ms []c19Msg) []api.Message {
		var o []api.Message
		for _, m := range ms {
			am := api.Message{Role: c19RoleNames[m.role], Content: m.content}
			for _, im := range m.imgs {
				am.Images = append(am.Images, api.ImageData(e.imgBytes(im)))
			}
			o = append(o, am)
		}
		return o
	}

	idx := 0
	runH := func(tc *c19Case, sys string, mm, req []c19Msg, limit int) {
		i := idx
		idx++
		name := fmt.Sprintf("c19m%d", i)
		cr := api.CreateRequest{Model: name, From: "c19base", Template: tc.src, System: sys, Messages: toAPI(mm), Stream: &stream}
		if w := createRequest(t, s.CreateHandler, cr); w.Code != http.StatusOK {
			t.Fatalf("create %s: %d %s (template %q)", name, w.Code, w.Body.String(), tc.src)
		}

		line := fmt.Sprintf("hchat %d %d %s %s %s %s %s", e.fixed, limit, zzverif.Hex([]byte(tc.src)), tc.ast,
			zzverif.Hex([]byte(sys)), c19MsgTokens(mm), c19MsgTokens(req))

		called := false
		var got llm.CompletionRequest
		mock.CompletionFn = func(_ context.Context, cr llm.CompletionRequest, fn func(llm.CompletionResponse)) error {
			called, got = true, cr
			fn(mock.CompletionResponse)
			return nil
		}
		impl := ""
		var body string
		func() {
			defer func() {
				if p := recover(); p != nil {
					if strings.Contains(fmt.Sprint(p), "parse.Node is nil, not *parse.ListNode") {
						impl = "panic:template-cut"
					} else {
						impl = "panic:other:" + strings.ReplaceAll(fmt.Sprint(p), " ", "_")
					}
				}
			}()
			w := createRequest(t, s.ChatHandler, api.ChatRequest{Model: name, Messages: toAPI(req),
				Options: map[string]any{"num_ctx": limit}, Stream: &stream})
			body = w.Body.String()
			switch {
			case w.Code == http.StatusOK && !called && strings.Contains(body, `"done_reason":"load"`):
				impl = "load"
			case w.Code == http.StatusOK && called:
				var imgs []string
				for _, im := range got.Images {
					src, pre, ok := e.identify(im.Data)
					p := 0
					if pre {
						p = 1
					}
					if !ok {
						imgs = append(imgs, fmt.Sprintf("%d:?:?", im.ID))
					} else {
						imgs = append(imgs, fmt.Sprintf("%d:%d:%d", im.ID, src, p))
					}
				}
				is := "-"
				if len(imgs) > 0 {
					is = strings.Join(imgs, ",")
				}
				impl = fmt.Sprintf("ok imgs=%s prompt=%s", is, zzverif.Hex([]byte(got.Prompt)))
			case w.Code == http.StatusInternalServerError && strings.Contains(body, "template:"):
				impl = "err:template"
			default:
				impl = fmt.Sprintf("http:%d:%s", w.Code, strings.ReplaceAll(c19Clip(body), " ", "_"))
			}
		}()
		// drop the model again: name resolution scans every manifest, so keeping them makes the run quadratic
		createRequest(t, s.DeleteHandler, api.DeleteRequest{Model: name})
		out.Case(line, impl)
		if impl == "panic:template-cut" {
			out.L2("template-panic", line, "deleteNode else-list: POST /api/chat panics in template.Execute: interface conversion: parse.Node is nil, not *parse.ListNode")
		}
		out.Count("cases")
		out.Count("handler_" + strings.SplitN(strings.SplitN(impl, " ", 2)[0], ":", 2)[0])
		if sys != "" {
			out.Count("handler_model_has_system")
		}
		if len(mm) > 0 {
			out.Count("handler_model_has_messages")
		}
		if len(req) > 0 && req[0].role == "s" {
			out.Count("handler_request_starts_with_system")
		}

		// L2, end to end, on templates that render every role where it stands (style 3) or the
		// system header + other roles (style 0): the request's latest message and the model's
		// SYSTEM reach the runner.
		if !strings.HasPrefix(impl, "ok ") || (tc.style != c19StyleMessages && tc.style != c19StyleInPlace) {
			return
		}
		out.Count("handler_l2_evaluated")
		last := req[len(req)-1]
		if !strings.Contains(got.Prompt, fmt.Sprintf("m%dq", len(req)-1)) {
			out.L2("handler-latest-missing", line, fmt.Sprintf("the request's latest message (role %s) is not in the prompt sent to the runner", last.role))
		}
		if sys != "" && req[0].role != "s" && !strings.Contains(got.Prompt, "y0q") {
			out.L2("handler-model-system-missing", line, "the model's SYSTEM is not in the prompt sent to the runner although the request does not start with a system message")
		}
	}

	if p := os.Getenv("VERIF_REPLAY"); p != "" {
		raw, err := os.ReadFile(p)
		if err != nil {
			t.Fatal(err)
		}
		for _, ln := range strings.Split(string(raw), "\n") {
			f := strings.Fields(ln)
			if len(f) < 6 || f[0] != "hchat" {
				continue
			}
			// reuse the chat-line parser: chat <variant> <mllama> <proj> <limit> <mode> <src> <tmpl…> <msgs>
			pos := 0
			next := func() string { pos++; return f[pos-1] }
			next()
			next()
			limit, _ := strconv.Atoi(next())
			tc := &c19Case{style: c19StyleGenerated, src: string(zzverif.Unhex(next()))}
			e.resolveStyle(tc)
			e.tmplOf(tc)
			// the serialised tree is regenerated from the source: find the system field by re-serialising
			skip := len(strings.Fields(tc.ast))
			pos += skip
			sys := string(zzverif.Unhex(next()))
			readMsgs := func() []c19Msg {
				k, _ := strconv.Atoi(next())
				var ms []c19Msg
				for ; k > 0; k-- {
					m := c19Msg{role: next()}
					m.content = string(zzverif.Unhex(next()))
					ni, _ := strconv.Atoi(next())
					for ; ni > 0; ni-- {
						src, _ := strconv.Atoi(next())
						next()
						m.imgs = append(m.imgs, c19Img{src: src, ok: true})
					}
					ms = append(ms, m)
				}
				return ms
			}
			mm := readMsgs()
			req := readMsgs()
			runH(tc, sys, mm, req, limit)
		}
		return
	}

	root := zzverif.NewRng(zzverif.Seed() + 7777).Fork()
	n := zzverif.EnvInt("VERIF_N", 300)
	for i := 0; i < n; i++ {
		r := root.Fork()
		// template: a harness style or a generated one the model can execute
		var tc *c19Case
		for {
			tc = &c19Case{}
			switch x := r.Intn(10); {
			case x < 5:
				tc.style = r.Intn(4)
			case x < 8:
				tc.style, tc.src = c19StyleGenerated, c19GenMessagesTemplate(r)
			default:
				tc.style, tc.src = c19StyleGenerated, c19GenLegacyTemplate(r)
			}
			e.tmplOf(tc)
			if tc.ast != "X" {
				break
			}
		}
		words := func(j int, mark string) string {
			parts := []string{fmt.Sprintf("%s%dq", mark, j)}
			for w := r.Pick3(0, 2, 8); w > 0; w-- {
				parts = append(parts, zzverif.Pick(r, c19Words))
			}
			return strings.Join(parts, " ")
		}
		sys := ""
		if r.Chance(2, 3) {
			sys = words(0, "y")
		}
		var mm, req []c19Msg
		for j := r.Pick3(0, 1, 3); j > 0; j-- {
			mm = append(mm, c19Msg{role: zzverif.Pick(r, []string{"u", "a", "u", "a", "s"}), content: words(len(mm), "h")})
		}
		nreq := r.Pick3(1, 3, 6)
		if r.Chance(1, 25) {
			nreq = 0
		}
		src := 1
		for j := 0; j < nreq; j++ {
			m := c19Msg{role: zzverif.Pick(r, []string{"u", "a", "u", "a", "s", "t"}), content: words(j, "m")}
			if j == 0 && r.Chance(1, 4) {
				m.role = "s"
			}
			if r.Chance(1, 5) {
				for k := r.Range(1, 2); k > 0; k-- {
					m.imgs = append(m.imgs, c19Img{src: src, ok: true})
					src++
				}
				if r.Chance(1, 2) {
					m.content += " [img]"
				}
			}
			req = append(req, m)
		}
		// num_ctx aimed at the sizes of the suffixes (whitespace tokens of the contents, roughly)
		total := 0
		var sizes []int
		for j := len(req) - 1; j >= 0; j-- {
			total += len(strings.Fields(req[j].content)) + 2
			sizes = append(sizes, total)
		}
		limit := r.Range(1, 40)
		if len(sizes) > 0 && r.Chance(2, 3) {
			limit = zzverif.Pick(r, sizes) + r.Range(-3, 6)
		}
		if r.Chance(1, 10) {
			limit = 1 << 16
		}

		runH(tc, sys, mm, req, limit)
	}
}
