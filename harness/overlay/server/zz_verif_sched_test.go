package server

// Verification driver for C01 / C02 / C11 (the model-load scheduler, server/sched.go).
// Added to the package at build time with `go test -overlay`; never committed to /repo.
// Contract with the Lean oracle: /verif/notes/SCHED_PROTOCOL.md.
//
// The REAL Scheduler (InitScheduler + Run) runs inside a testing/synctest bubble on a scripted
// environment: a fake newServerFn returning scripted llm.LlamaServer mocks, fake getGpuFn/getCpuFn,
// one tiny real GGUF per model (so llm.LoadModel / PredictServerFit run for real), fake time.
// One line per trace:
//
//	sched-trace <maxRunners> <maxQueue> <defaultSession> <cpu> <ngpus> | <ev> ; <obs> | <ev> ; <obs> ...
//
// Events (SCHED_PROTOCOL.md plus): `submitr m opts sess` = submit whose requester is the REAL Server.scheduleRunner
// (models are installed in a real model store, GetModel / modelOptions / GetRunner / its select run); `ping r 2` = from
// now on Ping of runner r parks (needsReload holds refMu) until `pingdone r 0|1` or until its 10 s context ends;
// `ping r 3` = the same but the mock releases the caller's refMu while parked (the scheduler thread descheduled between
// needsReload and useLoadedRunner);
// `sysmem K` (cpu configurations) = K KiB of free system memory reported to the scheduler;
// `closefail r 0|1` = Close of runner r returns nil / an error (the call completes and counts all the same);
// `envspell k` (first event only) = the spelling of the OLLAMA_* values the driver writes (plain, quoted, spaces);
// options classes 0..5 = NumCtx 8/16 x use_mmap unset/true/false (fresh pointer per request);
// `parallel n` (OLLAMA_NUM_PARALLEL, 0 = automatic), `gpumem 1` (GPU 1 has no room for a model: a second model does not
// fit next to one still loading on GPU 0 and is put back on the queue), `gpumem K` (K >= 2, one GPU: it reports K KiB
// free, the real PredictServerFit decides; the generator bisects each model's fit boundary), `closedelay ms` (Close of runners started from
// now on takes that much fake time; a runner is LIVE until Close has returned; closeCount in the observation counts
// returned Close calls, closed is llama == nil as before).
// Requesters of the GetRunner path whose request was cancelled before it was answered do not listen while the scheduler
// reacts to an event and listen again before the driver observes (see quiesce): a hand-over that races with the
// cancellation meets a requester that is not ready, deterministically, whichever case a two-way select would take.
//
// Events that are not enabled when their turn comes (`loaddone` of a runner that is not loading, `done` of an unknown
// or finished request, `advance` while a goroutine is parked on a mutex, ...) are skipped and do not appear in the
// line; `advance <ms>` reports the fake time that actually passed (it is cut short after 256 timer hops or when a
// goroutine parks on a mutex).  So the line is always exactly what was executed, and replaying it reproduces it.
//
// L2 kinds: c01-closed-in-use c01-double-close c01-grant-closed c02-double-reply c02-blocked-submit c02-unanswered
// c02-not-drained c11-over-limit c11-two-per-model c11-no-reuse c11-victim-busy (SCHED_PROTOCOL.md) and, in addition,
// c11-wrong-options (a runner is started with NumCtx != the request's NumCtx x the parallel factor passed),
// c11-started-without-fit (a runner started next to loaded ones although its own estimate exceeds the free memory),
// c02-deadlock-queue / -lockorder / -handover / -unconsumed / -self-queue (goroutines parked for good, see monitors();
// once one of them fired the liveness monitors are silent for that trace).
// c02-unanswered is evaluated at every quiescent point at which no load / Ping / Close is in flight, every request that
// holds a runner is done and 300 ms of fake time have passed since the last event (at the very end of a drained trace
// every request is done, so "unanswered and not cancelled" could never be observed there).
//
// Environment: VERIF_N (default 300), VERIF_SEED, VERIF_REPLAY=<file of script lines>, VERIF_SHRINK=1 (greedy shrinking of
// one script per L2 kind -> shrunk.txt in VERIF_OUT), VERIF_SCHED_CFG="<maxRunners> <maxQueue> <defSess> <cpu> <ngpus>"
// (pins configuration fields of generated traces, `-` = random), VERIF_SCHED_LOG=<file> (the scheduler's debug log),
// VERIF_CORPUS=<dir> (scripts run before the generated ones), VERIF_EXTEND=1 (with VERIF_REPLAY: drain-and-probe suffix
// after each script, see schedExtend), VERIF_TIER (quick: at most 6 requests per generated trace),
// VERIF_SCHED_NOBLOCKPING=1 (no blocking pings).
// Not meant for -race: at quiescent points with mutex-parked goroutines the driver reads scheduler state unlocked.
//
// Quiescence.  synctest.Wait() alone cannot be used: sched.go holds runnerRef.refMu across
// WaitUntilRunning (and loadedMu+refMu across channel sends in expireRunner), and a goroutine parked
// on a sync.Mutex is NOT "durably blocked" for synctest — Wait() would hang and fake time would never
// advance.  The driver therefore takes a census of the bubble's goroutines (runtime.Stack) after
// yielding: quiescent = every other goroutine of the bubble is parked either durably (channel, select,
// sleep) or on a sync.Mutex.  When no goroutine is parked on a mutex the driver additionally calls
// synctest.Wait() (returns at once; gives the race detector its happens-before edge).
// `advance` moves fake time in hops that stop at every pending timer deadline (10 ms re-queuers,
// reschedDelay re-queuers, keep-alive timers), so the driver never sleeps across an instant at which a
// goroutine parks on a mutex (which would freeze fake time for ever); it stops early (and reports the
// time actually advanced) when that happens.
//
// Determinism.  Inside a child GOMAXPROCS is 1 and the GC is off, so goroutine hand-offs are reproducible.  Three things
// remain random BY DESIGN in the Go runtime: the poll order of `select` (processCompleted's select over finishedReqCh /
// expiredCh, processPending's over pendingReqCh / unloadedCh), the firing order of fake-time timers due at the same
// instant (two reschedDelay re-queuers started in one cascade), and the start of a map iteration (updateFreeSpace
// locks the runners' refMu in the iteration order of `loaded`).  All outcomes are legal behaviours which the model
// covers as nondeterminism, but they make ~2-3 of 1000 generated traces differ between two runs of the same seed.
// They disappear (checked: 5 runs x 5000 traces byte-identical, ops and l2) when the check adds three one-line patches
// of the harness toolchain's runtime to the overlay (absolute paths pass through vlib's overlay mapping unchanged):
//     $GOROOT/src/runtime/select.go:  `j := cheaprandn(uint32(norder + 1))` -> `j := uint32(norder)`
//     $GOROOT/src/runtime/time.go:    `t.rand = cheaprand()`                -> `t.rand = 0`
//     $GOROOT/src/internal/runtime/maps/table.go: `it.entryOffset = rand()` -> `= 0`, `it.dirOffset = rand()` -> `= 0`
// (first build ~45 s, cached afterwards).  The driver reports which mode it runs in: stats runtime_select_deterministic,
// runtime_timer_ties_deterministic, runtime_map_iteration_deterministic.
//
// Process structure.  A trace whose goroutines cannot all be made to exit would make synctest.Test
// panic (or hang).  The parent test therefore runs the traces in child processes (this same test binary,
// VERIF_SCHED_JOBS set); a child handles consecutive traces in one process and only exits (from inside
// the bubble, after flushing its records) when a trace does not end cleanly; the parent then starts a
// new child at the next trace.

import (
	"bufio"
	"bytes"
	"context"
	"crypto/sha256"
	"errors"
	"fmt"
	"io"
	"log/slog"
	"os"
	"os/exec"
	"path/filepath"
	"runtime"
	"runtime/debug"
	"sort"
	"strconv"
	"strings"
	"syscall"
	"testing"
	"testing/synctest"
	"time"

	"github.com/ollama/ollama/api"
	"github.com/ollama/ollama/discover"
	"github.com/ollama/ollama/format"
	"github.com/ollama/ollama/fs/ggml"
	"github.com/ollama/ollama/llm"
	"github.com/ollama/ollama/types/model"
	"github.com/ollama/ollama/zzverif"
)

const (
	schedNModels      = 3
	schedMaxReqs      = 24
	schedReschedDelay = 100 * time.Millisecond
	schedShort        = 50 * time.Millisecond
	schedLong         = time.Hour
	schedMaxHops      = 256 // bound on timer hops of one `advance` (a busy expired runner re-queues every 10 ms for ever)
	schedSettle       = 300 * time.Millisecond
)

// ---------------------------------------------------------------------------------------------
// scripts

type schedCfg struct {
	maxRunners, maxQueue, defSess, cpu, ngpus int
}

func (c schedCfg) header() string {
	return fmt.Sprintf("sched-trace %d %d %d %d %d", c.maxRunners, c.maxQueue, c.defSess, c.cpu, c.ngpus)
}

type schedEv struct {
	kind string // submit | submitr | done | loaddone | ping | pingdone | unload | advance | failstart | parallel | gpumem | closedelay
	a, b int
	sess string // submit only: - 0 S L
}

func (e schedEv) String() string {
	switch e.kind {
	case "submit", "submitr":
		return fmt.Sprintf("%s %d %d %s", e.kind, e.a, e.b, e.sess)
	case "done", "unload", "advance", "parallel", "gpumem", "closedelay", "envspell", "sysmem":
		return fmt.Sprintf("%s %d", e.kind, e.a)
	default:
		return fmt.Sprintf("%s %d %d", e.kind, e.a, e.b)
	}
}

func schedScript(cfg schedCfg, evs []schedEv) string {
	var sb strings.Builder
	sb.WriteString(cfg.header())
	for _, e := range evs {
		sb.WriteString(" | ")
		sb.WriteString(e.String())
	}
	return sb.String()
}

// schedParse reads a `sched-trace` line; observations (after ';') are optional and ignored.
func schedParse(line string) (schedCfg, []schedEv, error) {
	var cfg schedCfg
	parts := strings.Split(strings.TrimSpace(line), "|")
	h := strings.Fields(parts[0])
	if len(h) != 6 || h[0] != "sched-trace" {
		return cfg, nil, fmt.Errorf("bad header %q", parts[0])
	}
	var n [5]int
	for i := range n {
		v, err := strconv.Atoi(h[i+1])
		if err != nil {
			return cfg, nil, err
		}
		n[i] = v
	}
	cfg = schedCfg{n[0], n[1], n[2], n[3], n[4]}
	if cfg.maxQueue < 1 || cfg.ngpus < 1 || cfg.defSess < 0 || cfg.defSess > 2 || cfg.maxRunners < 0 {
		return cfg, nil, fmt.Errorf("bad configuration %q", parts[0])
	}
	var evs []schedEv
	for _, p := range parts[1:] {
		if i := strings.Index(p, ";"); i >= 0 {
			p = p[:i]
		}
		f := strings.Fields(p)
		if len(f) == 0 {
			continue
		}
		e := schedEv{kind: f[0]}
		want := 3
		switch f[0] {
		case "submit", "submitr":
			want = 4
		case "done", "unload", "advance", "parallel", "gpumem", "closedelay", "envspell", "sysmem":
			want = 2
		case "loaddone", "ping", "failstart", "pingdone", "closefail":
		default:
			return cfg, nil, fmt.Errorf("unknown event %q", p)
		}
		if len(f) != want {
			return cfg, nil, fmt.Errorf("bad event %q", p)
		}
		var err error
		if e.a, err = strconv.Atoi(f[1]); err != nil {
			return cfg, nil, err
		}
		if want >= 3 {
			if e.b, err = strconv.Atoi(f[2]); err != nil {
				return cfg, nil, err
			}
		}
		if want == 4 {
			e.sess = f[3]
			if e.sess != "-" && e.sess != "0" && e.sess != "S" && e.sess != "L" {
				return cfg, nil, fmt.Errorf("bad session %q", p)
			}
		}
		evs = append(evs, e)
	}
	return cfg, evs, nil
}

// an event source: a fixed script or the online generator (which looks at the real state at quiescence)
type schedSource interface {
	next(r *schedRun) (schedEv, bool)
	spell() int // the spelling of the environment (`envspell`, first event of the script)
}

func (f *schedFixed) spell() int {
	if len(f.evs) > 0 && f.evs[0].kind == "envspell" && f.evs[0].a >= 0 && f.evs[0].a <= 4 {
		return f.evs[0].a
	}
	return 0
}

// schedSpell writes an environment value in one of the spellings envconfig accepts (envconfig.Var trims white space,
// then quotes): env files of systemd / docker often carry the quotes
func schedSpell(v string, k int) string {
	switch k {
	case 1:
		return `"` + v + `"`
	case 2:
		return "'" + v + "'"
	case 3:
		return "  " + v + " "
	case 4:
		return ` "` + v + `"  `
	}
	return v
}

type schedFixed struct {
	evs []schedEv
	i   int
}

func (f *schedFixed) next(*schedRun) (schedEv, bool) {
	if f.i >= len(f.evs) {
		return schedEv{}, false
	}
	f.i++
	return f.evs[f.i-1], true
}

// ---------------------------------------------------------------------------------------------
// scripted llm.LlamaServer

type schedMock struct {
	r       *schedRun
	id      int
	model   int
	opts    int
	gpuID   string
	loadReq int        // request whose load this is (-1 unknown)
	rel     chan error // the script releases WaitUntilRunning through this
	waiting bool       // WaitUntilRunning is in flight
	pingOK  bool
	closes  int // Close calls that have RETURNED (the observation's closeCount; the runner is live until then)

	numCtx, np   int           // what newServerFn was given
	closeCalls   int           // Close calls that have started
	closeDelay   time.Duration // fake time Close takes (the runner process shutting down)
	closing      bool
	closeAt      time.Time
	closeRel     chan struct{}
	pingBlock    bool // Ping parks until the script releases it (`pingdone`) or its ctx ends
	pingOpen     bool // ... and lets go of the caller's refMu while parked (`ping r 3`)
	closeErr     bool // Close returns an error (`closefail`); the call is complete all the same
	pinging      bool
	pingDeadline time.Time
	pingRel      chan error
}

// WaitUntilRunning deliberately ignores ctx: `.loadDone r false` is an environment event of the model, so a
// cancelled load fails only when the script says so (`done q` of a loading request is followed by `loaddone r 0`).
func (m *schedMock) WaitUntilRunning(ctx context.Context) error {
	if m.r.ending {
		return errors.New("verif: trace ended")
	}
	m.waiting = true
	err := <-m.rel
	m.waiting = false
	return err
}

func (m *schedMock) Ping(ctx context.Context) error {
	if m.pingBlock && !m.r.ending {
		// needsReload calls Ping with refMu held and a 10 s (2 min while loading) timeout on the SCHEDULER's context
		m.pinging = true
		m.pingDeadline, _ = ctx.Deadline()
		// open window (`ping r 3`): Ping is the last thing needsReload evaluates; parking here with the caller's refMu
		// released is the scheduler thread being descheduled right after needsReload returned "usable" and before
		// useLoadedRunner takes refMu again - everything else (keep-alive expiry, unload, finished events) may run
		var ref *runnerRef
		if m.pingOpen {
			if ref = m.r.refs[m.id]; ref != nil {
				m.r.stats["ping_open_window"]++
				ref.refMu.Unlock()
			}
		}
		var err error
		select {
		case err = <-m.pingRel:
		case <-ctx.Done():
			err = ctx.Err()
			m.r.stats["ping_ctx_ended"]++
		}
		if ref != nil {
			ref.refMu.Lock()
		}
		m.pinging = false
		return err
	}
	if m.pingOK {
		return nil
	}
	return errors.New("verif: ping failed")
}

// Close takes closeDelay of fake time (the runner process needs time to exit); the runner is LIVE until Close has
// returned.  The driver releases it early when another goroutine is parked on a mutex the closer holds (fake time
// cannot move then; in reality that goroutine simply waits for Close).
func (m *schedMock) Close() error {
	m.closeCalls++
	if m.closeDelay > 0 && !m.r.ending {
		m.closing = true
		m.closeAt = time.Now().Add(m.closeDelay)
		select {
		case <-time.After(m.closeDelay):
		case <-m.closeRel:
		}
		m.closing = false
	}
	m.closes++
	if m.closeErr {
		m.r.stats["close_returned_error"]++
		return errors.New("verif: the runner process could not be stopped")
	}
	return nil
}

func (m *schedMock) Completion(ctx context.Context, req llm.CompletionRequest, fn func(llm.CompletionResponse)) error {
	return nil
}
func (m *schedMock) Embedding(ctx context.Context, input string) ([]float32, error) { return nil, nil }
func (m *schedMock) Tokenize(ctx context.Context, content string) ([]int, error)    { return nil, nil }
func (m *schedMock) Detokenize(ctx context.Context, tokens []int) (string, error)   { return "", nil }
func (m *schedMock) EstimatedVRAM() uint64                                          { return 10 }
func (m *schedMock) EstimatedTotal() uint64                                         { return 10 }
func (m *schedMock) EstimatedVRAMByGPU(id string) uint64 {
	if id == m.gpuID {
		return 10
	}
	return 0
}

// ---------------------------------------------------------------------------------------------
// one trace

type schedReq struct {
	id, model, opts int
	sess            string
	ctx             context.Context
	cancel          context.CancelFunc
	done            bool
	returned        bool // GetRunner returned
	nRunner, nErr   int
	lastRunner      int // id of the runner received last (-1: unknown pointer)
	busyErr         bool
	fullAtSubmit    bool
	grantClosed     string
	routed          bool          // the requester is the real Server.scheduleRunner (server/routes.go)
	leftEarly       bool          // scheduleRunner returned the context's error without a reply from the scheduler
	nilGrant        bool          // scheduleRunner returned a nil llama: the runner was unloaded before it looked
	ctl             chan struct{} // pauses / resumes the GetRunner-path requester
	paused          bool
}

func (q *schedReq) replies() int { return q.nRunner + q.nErr }

type schedSnap struct {
	loaded   map[int]int // model -> runner id
	refCount []uint
	sess     []time.Duration
	closed   []bool
	closing  []bool // Close has been called (it may not have returned yet)
	ppIdle   bool   // processPending was parked in its top-level select
	pcIdle   bool   // processCompleted was parked in its select (no event taken and not yet handled, e.g. during a slow Close)
}

type schedL2 struct{ kind, detail string }

type schedResult struct {
	line, script string
	l2           []schedL2
	stats        map[string]int
	clean        bool
}

type schedRun struct {
	cfg    schedCfg
	models []*Model
	s      *Scheduler
	ctx    context.Context
	cancel context.CancelFunc
	stop   chan struct{}
	ending bool

	grantWrong []string
	mocks     []*schedMock
	refs      []*runnerRef
	reqs      []*schedReq
	reqByCtx  map[context.Context]int
	failStart [schedNModels]bool

	// goroutine census
	buf    []byte
	bubble string
	base   map[string]bool
	cen    schedCensus
	cands  []time.Time // candidate deadlines of sleeping helper goroutines

	t0       time.Time
	lastAct  time.Time // fake time of the last non-advance event
	prev     schedSnap
	lastEv   schedEv
	executed []schedEv
	line     strings.Builder
	l2       []schedL2
	l2seen   map[string]bool
	stats    map[string]int
	noReuse  []string
	wrongOpt []string
	noFit    []string

	srv        *Server
	closeDelay time.Duration // for runners started from now on (`closedelay`)
	gpumem     int           // `gpumem`
	sysmem     int           // `sysmem` (KiB, 0 = plenty)
	routedWait int           // scheduleRunner calls that have not returned
	inWindow   bool
	spell      int // spelling of the environment values (`envspell`)
	mutexWho   string
	mutexSince int64 // wall clock (us) at which goroutines were first seen parked on a mutex
}

type schedCensus struct {
	others, active, mutex, sleeping, durable int
	schedSend, handover                      int
	ppIdle, ppWaitUnload, pcIdle             bool // where the two scheduler loops are parked
	ppSelect, sendChans                      string
	ppSelf                                   string // the pending loop itself sleeps / sends on its own queue
	activeDesc, mutexDesc                    string
}

func (r *schedRun) flag(kind, detail string) {
	if r.l2seen[kind] {
		return
	}
	r.l2seen[kind] = true
	r.l2 = append(r.l2, schedL2{kind, fmt.Sprintf("after event %d (%s): %s", len(r.executed), r.lastEv, detail)})
}

// census parses runtime.Stack(all) and classifies the goroutines of this bubble (other than the caller
// and the synctest infrastructure goroutines recorded in r.base).
func (r *schedRun) census() schedCensus {
	var c schedCensus
	for {
		n := runtime.Stack(r.buf, true)
		if n < len(r.buf) {
			r.scan(r.buf[:n], &c, nil)
			return c
		}
		r.buf = make([]byte, 2*len(r.buf))
	}
}

func (r *schedRun) scan(b []byte, c *schedCensus, ids map[string]bool) {
	first := true
	for len(b) > 0 {
		nl := bytes.IndexByte(b, '\n')
		var ln []byte
		if nl < 0 {
			ln, b = b, nil
		} else {
			ln, b = b[:nl], b[nl+1:]
		}
		if !bytes.HasPrefix(ln, []byte("goroutine ")) {
			continue
		}
		lb := bytes.IndexByte(ln, '[')
		rb := bytes.LastIndexByte(ln, ']')
		if lb < 0 || rb < lb {
			continue
		}
		id := string(bytes.TrimSpace(ln[len("goroutine "):lb]))
		attrs := strings.Split(string(ln[lb+1:rb]), ", ")
		bub := ""
		for _, a := range attrs[1:] {
			if strings.HasPrefix(a, "synctest bubble ") {
				bub = a
			}
		}
		if first {
			// the calling goroutine comes first
			first = false
			if r.bubble == "" {
				r.bubble = bub
			}
			if ids != nil {
				ids[id] = true
			}
			continue
		}
		if bub == "" || bub != r.bubble {
			continue
		}
		if ids != nil {
			ids[id] = true
			continue
		}
		if r.base[id] {
			continue
		}
		if c == nil {
			continue
		}
		c.others++
		st := attrs[0]
		switch {
		case st == "sync.Mutex.Lock" || st == "sync.RWMutex.Lock" || st == "sync.RWMutex.RLock":
			c.mutex++
			// name the first frame of package server (which scheduler function is parked)
			blk := b
			if e := bytes.Index(blk, []byte("\n\n")); e >= 0 {
				blk = blk[:e]
			}
			if i := bytes.Index(blk, []byte("ollama/server.")); i >= 0 {
				fn := blk[i+len("ollama/server."):]
				if j := bytes.IndexAny(fn, "(\n"); j >= 0 {
					// methods print as (*T).name(: keep the receiver too
					if j == 0 {
						if k := bytes.IndexByte(fn[1:], '('); k >= 0 {
							j = k + 1
						}
					}
					fn = fn[:j]
				}
				// keep the list sorted: the order of goroutines in the dump is not reproducible
				l := append(strings.Split(c.mutexDesc, ","), string(fn))
				if c.mutexDesc == "" {
					l = l[1:]
				}
				sort.Strings(l)
				c.mutexDesc = strings.Join(l, ",")
			}
		case strings.HasPrefix(st, "sleep"):
			c.sleeping++
			// the first frame of package server: the pending loop itself must never sleep
			if i := bytes.Index(b, []byte("ollama/server.")); i >= 0 && bytes.HasPrefix(b[i:], []byte("ollama/server.(*Scheduler).processPending(")) {
				if e := bytes.Index(b, []byte("\n\n")); e < 0 || i < e {
					c.ppSelf = "sleeping in time.Sleep"
				}
			}
		case strings.HasPrefix(st, "chan send"):
			c.durable++
			// a scheduler goroutine parked on a send: a full scheduler channel (their capacity is OLLAMA_MAX_QUEUE)
			blk := b
			if e := bytes.Index(blk, []byte("\n\n")); e >= 0 {
				blk = blk[:e]
			}
			switch src := schedSendSite(blk); {
			case strings.Contains(src, "successCh <-"):
				c.handover++ // the unbuffered hand-over of a runner to its requester (made with refMu held)
			case strings.Contains(src, "pendingReqCh <-"):
				// a delayed request waits for room in the pending queue: processPending may be waiting for a `done`
				if bytes.HasPrefix(b, []byte("github.com/ollama/ollama/server.(*Scheduler).processPending(")) {
					c.ppSelf = "parked in a send on pendingReqCh" // ... unless it is the loop itself: nobody else receives from it
				}
			case src != "":
				c.schedSend++
				// which channel: the text before "<-" on that source line
				if i := strings.Index(src, "<-"); i > 0 {
					l := append(strings.Split(c.sendChans, ","), strings.TrimSpace(src[:i]))
					if c.sendChans == "" {
						l = l[1:]
					}
					sort.Strings(l)
					c.sendChans = strings.Join(l, ",")
				}
			}
		case strings.HasPrefix(st, "select") && bytes.HasPrefix(b, []byte("github.com/ollama/ollama/server.(*Scheduler).process")):
			// one of the two loops, parked in one of ITS OWN selects (the first frame is the loop itself)
			c.durable++
			blk := b
			if e := bytes.Index(blk, []byte("\n\n")); e >= 0 {
				blk = blk[:e]
			}
			switch sel := schedSelectCases(blk); {
			case bytes.HasPrefix(b, []byte("github.com/ollama/ollama/server.(*Scheduler).processCompleted(")):
				c.pcIdle = true
			case strings.Contains(sel, "s.pendingReqCh"):
				c.ppIdle, c.ppSelect = true, sel
			case strings.Contains(sel, "s.unloadedCh"):
				c.ppWaitUnload, c.ppSelect = true, sel // "waiting for pending requests to complete and unload to occur"
			}
		case strings.HasSuffix(st, "(durable)") || st == "chan receive (nil chan)" || st == "chan send (nil chan)" ||
			st == "select (no cases)" || st == "sync.Cond.Wait":
			c.durable++
		default:
			c.active++
			c.activeDesc = st
		}
	}
}

var schedSrc = map[string][]string{}

// schedSendSite returns the source line of sched.go at which the goroutine of this stack block is parked ("" if none):
// the dump does not say which channel a send is parked on, the source line does.
func schedSendSite(blk []byte) string {
	i := bytes.Index(blk, []byte("/sched.go:"))
	if i < 0 {
		return ""
	}
	st := bytes.LastIndexByte(blk[:i], '\t')
	end := i + len("/sched.go:")
	n := 0
	for end < len(blk) && blk[end] >= '0' && blk[end] <= '9' {
		n = n*10 + int(blk[end]-'0')
		end++
	}
	path := string(blk[st+1 : i+len("/sched.go")])
	lines, ok := schedSrc[path]
	if !ok {
		data, _ := os.ReadFile(path)
		lines = strings.Split(string(data), "\n")
		schedSrc[path] = lines
	}
	if n >= 1 && n <= len(lines) {
		return lines[n-1]
	}
	return ""
}

// schedSelectCases returns the text of the select statement of sched.go in which the goroutine of this block is parked
func schedSelectCases(blk []byte) string {
	i := bytes.Index(blk, []byte("/sched.go:"))
	if i < 0 {
		return ""
	}
	schedSendSite(blk) // loads the file
	st := bytes.LastIndexByte(blk[:i], '\t')
	lines := schedSrc[string(blk[st+1:i+len("/sched.go")])]
	n := 0
	for e := i + len("/sched.go:"); e < len(blk) && blk[e] >= '0' && blk[e] <= '9'; e++ {
		n = n*10 + int(blk[e]-'0')
	}
	if n < 1 || n > len(lines) || !strings.Contains(lines[n-1], "select {") {
		return ""
	}
	indent := lines[n-1][:len(lines[n-1])-len(strings.TrimLeft(lines[n-1], "\t"))]
	var sb strings.Builder
	for j := n; j < len(lines) && lines[j] != indent+"}"; j++ {
		if strings.HasPrefix(lines[j], indent+"case ") {
			sb.WriteString(lines[j])
			sb.WriteByte('\n')
		}
	}
	return sb.String()
}

// quiesce returns when every other goroutine of the bubble is parked (durably or on a mutex).  On the way it lets the
// paused requesters (cancelled, not yet answered) listen for a moment, and lets a Close return on which others wait.
func (r *schedRun) quiesce() {
	r.park()
	for {
		// Requesters whose request was cancelled before it was answered do not listen while the scheduler reacts to
		// an event (a requester that is momentarily busy, e.g. writing its 499): a hand-over that races with the
		// cancellation then meets a requester that is NOT ready, deterministically.  They listen again before the
		// driver looks, so the observation is the one an always-listening requester produces.
		var ps []*schedReq
		for _, q := range r.reqs {
			if q.paused {
				ps = append(ps, q)
			}
		}
		if len(ps) > 0 && !r.inWindow {
			r.inWindow = true
			for _, q := range ps {
				r.ctl(q, false)
			}
			r.park()
			for _, q := range ps {
				if q.replies() == 0 && !r.ending {
					r.ctl(q, true)
				}
			}
			r.park()
			r.inWindow = false
		}
		// a goroutine is parked on a mutex while a Close is sleeping in fake time: fake time is frozen, let Close return
		released := false
		if r.cen.mutex > 0 {
			for _, m := range r.mocks {
				if m.closing && len(m.closeRel) == 0 {
					if !released {
						// (every waiter past sync.Mutex's 1 ms starvation threshold first, see below)
						for t0 := schedRealNow(); schedRealNow()-t0 < 1500; {
						}
					}
					m.closeRel <- struct{}{}
					r.stats["close_released_for_mutex_waiter"]++
					released = true
				}
			}
		}
		if !released {
			break
		}
		r.park()
	}
	if r.cen.mutex == 0 {
		synctest.Wait()
		r.mutexSince = 0
	} else {
		r.stats["q_mutex_parked"]++
		// sync.Mutex hands a lock over directly (instead of letting a running goroutine barge in) once a waiter has waited
		// for more than 1 ms of REAL time.  Let every waiter that is parked at a quiescent point cross that threshold, so
		// that the hand-off order after the next event does not depend on how fast the driver happens to run.
		if r.mutexSince == 0 || r.cen.mutexDesc != r.mutexWho {
			r.mutexSince, r.mutexWho = schedRealNow(), r.cen.mutexDesc // (a new waiter: count from now)
		}
		for schedRealNow()-r.mutexSince < 1500 {
		}
	}
	now := time.Now()
	k := 0
	for _, c := range r.cands {
		if c.After(now) {
			r.cands[k] = c
			k++
		}
	}
	r.cands = r.cands[:k]
	if r.cen.sleeping > 0 {
		// a helper sleeps 10 ms (expired re-queuer) or reschedDelay; it was started at an instant the driver
		// stopped at, so stopping again 10 ms and reschedDelay after EVERY stop never skips a wake-up
		r.cands = append(r.cands, now.Add(10*time.Millisecond), now.Add(schedReschedDelay))
	}
}

// schedRealNow: wall clock in microseconds (time.Now is fake inside the bubble)
func schedRealNow() int64 {
	var tv syscall.Timeval
	syscall.Gettimeofday(&tv)
	return int64(tv.Sec)*1000000 + int64(tv.Usec)
}

// ctl pauses / resumes the requester goroutine of q (which is parked in its select).
func (r *schedRun) ctl(q *schedReq, pause bool) {
	select {
	case q.ctl <- struct{}{}:
		q.paused = pause
	default:
		panic(fmt.Sprintf("verif sched: requester of request %d is not parked (pause=%v)", q.id, pause))
	}
}

func (r *schedRun) park() {
	for i := 0; ; i++ {
		runtime.Gosched()
		c := r.census()
		if c.active == 0 {
			r.cen = c
			break
		}
		if i > 200000 {
			n := runtime.Stack(r.buf, true)
			panic("verif sched: no quiescence (" + c.activeDesc + ")\n" + string(r.buf[:n]))
		}
	}
}

// advance moves fake time by up to d, stopping at every pending timer deadline; returns the time advanced.
func (r *schedRun) advance(d time.Duration) time.Duration {
	start := time.Now()
	target := start.Add(d)
	for hops := 0; hops < schedMaxHops && r.cen.mutex == 0; hops++ {
		now := time.Now()
		if !now.Before(target) {
			break
		}
		next := target
		for _, c := range r.cands {
			if c.After(now) && c.Before(next) {
				next = c
			}
		}
		for _, ref := range r.refs {
			if ref != nil && ref.expireTimer != nil && ref.expiresAt.After(now) && ref.expiresAt.Before(next) {
				next = ref.expiresAt
			}
		}
		for _, m := range r.mocks {
			if m.closing && m.closeAt.After(now) && m.closeAt.Before(next) {
				next = m.closeAt
			}
			if m.pinging && m.pingDeadline.After(now) && m.pingDeadline.Before(next) {
				next = m.pingDeadline
			}
		}
		slog.Debug("verif hop", "d", next.Sub(now), "census", fmt.Sprint(r.cen))
		time.Sleep(next.Sub(now))
		slog.Debug("verif hop woke")
		r.quiesce()
	}
	return time.Since(start)
}

func (r *schedRun) modelIndex(path string) int {
	for i, m := range r.models {
		if m.ModelPath == path {
			return i
		}
	}
	return -1
}

func (r *schedRun) refID(ref *runnerRef) int {
	for i, x := range r.refs {
		if x == ref {
			return i
		}
	}
	if ref != nil {
		if m, ok := ref.llama.(*schedMock); ok && m != nil {
			if r.refs[m.id] == nil {
				r.refs[m.id] = ref
			}
			return m.id
		}
	}
	return -1
}

// schedOptsClass: request class k asks for NumCtx = 8+8k; a runner is started with NumCtx * numParallel
// and class = k + 2*mm with mm = 0 / 1 / 2 for use_mmap unset / true / false (a fresh *bool per request: options that are
// equal by value are one class, whatever the pointers)
func schedOptsClass(o api.Options, np int, adapters, projectors []string) int {
	mm := 0
	if o.UseMMap != nil {
		mm = 2
		if *o.UseMMap {
			mm = 1
		}
	}
	c := o.NumCtx/max(1, np)/8 - 1 + 2*mm
	// classes 6.. : the model carries an adapter (+6) / a projector (+12) — the other two comparisons of needsReload
	if len(adapters) > 0 {
		c += 6
	}
	if len(projectors) > 0 {
		c += 12
	}
	return c
}

// the adapter / projector a request of class >= 6 / >= 12 carries (files that do not exist: the estimator counts 0 bytes)
var schedAdapter, schedProjector = []string{"/verif-no-such-dir/adapter.gguf"}, []string{"/verif-no-such-dir/projector.gguf"}

func schedNumCtx(class int) int { return 8 + 8*(class%2) }

func (r *schedRun) gpus() discover.GpuInfoList {
	if r.cfg.cpu == 1 {
		g := discover.GpuInfo{Library: "cpu"}
		g.TotalMemory = 32 * format.GigaByte
		g.FreeMemory = 26 * format.GigaByte
		if r.sysmem > 0 {
			g.FreeMemory = uint64(r.sysmem) * format.KibiByte // `sysmem K`: the free system memory the scheduler is told
		}
		return discover.GpuInfoList{g}
	}
	var l discover.GpuInfoList
	for i := 0; i < r.cfg.ngpus; i++ {
		g := discover.GpuInfo{Library: "metal", ID: strconv.Itoa(i)}
		g.TotalMemory = 24 * format.GigaByte
		g.FreeMemory = uint64(12-i) * format.GigaByte
		if i == 0 && r.gpumem >= 2 {
			// `gpumem K`, K >= 2: GPU 0 reports K KiB free (what other applications / the loaded models leave): the real
			// PredictServerFit / updateFreeSpace decide between "start next to the loaded runners" and "evict first"
			g.FreeMemory = uint64(r.gpumem) * format.KibiByte
		}
		if i > 0 && r.gpumem >= 1 {
			// too little for any model: a second model does not fit next to one that is still loading on GPU 0, so the
			// request is put back on the queue (reschedDelay) and pickBestFullFitByLibrary's back-off runs
			g.FreeMemory = 64 * format.KibiByte
		}
		l = append(l, g)
	}
	return l
}

func (r *schedRun) effMax() int {
	m := r.cfg.maxRunners
	if m == 0 {
		m = defaultModelsPerGPU * len(r.gpus())
	}
	return max(1, m)
}

func (r *schedRun) setup() {
	r.ctx, r.cancel = context.WithCancel(context.Background())
	r.stop = make(chan struct{})
	r.reqByCtx = map[context.Context]int{}
	r.l2seen = map[string]bool{}
	r.stats = map[string]int{}
	r.buf = make([]byte, 1<<18)
	r.base = map[string]bool{}
	ids := map[string]bool{}
	n := runtime.Stack(r.buf, true)
	r.scan(r.buf[:n], nil, ids)
	r.base = ids
	r.t0 = time.Now()
	r.lastAct = r.t0

	s := InitScheduler(r.ctx)
	r.s = s
	s.reschedDelay = schedReschedDelay
	s.getGpuFn = r.gpus
	s.getCpuFn = r.gpus
	s.newServerFn = func(gpus discover.GpuInfoList, model string, f *ggml.GGML, adapters []string, projectors []string, opts api.Options, numParallel int) (llm.LlamaServer, error) {
		mi := r.modelIndex(model)
		k := schedOptsClass(opts, numParallel, adapters, projectors)
		var last *schedMock
		for _, m := range r.mocks {
			if m.model != mi {
				continue
			}
			last = m
			if m.closeCalls == 0 && m.opts == k && m.pingOK && !m.pingBlock && !m.waiting {
				if ref := r.refs[m.id]; ref == nil || ref.llama != nil {
					r.noReuse = append(r.noReuse, fmt.Sprintf("newServerFn for model %d opts %d while runner %d (same model and opts, healthy, not closed) is live", mi, k, m.id))
				}
			}
		}
		if last != nil {
			switch {
			case last.opts != k:
				r.stats["sc_reload_opts"]++
			case !last.pingOK:
				r.stats["sc_reload_ping"]++
			default:
				r.stats["sc_load_again"]++
			}
		}
		// "while other models are loaded, a new runner is started only on GPUs where it is predicted to fit in the memory
		// those models leave free": the GPU list handed over carries the free memory after updateFreeSpace; the estimate the
		// runner itself would make (llm.NewLlamaServer calls EstimateGPULayers on these inputs) must not plan more than that
		if len(gpus) > 0 {
			others := 0
			locked := r.s.loadedMu.TryLock()
			for _, ref := range r.s.loaded {
				if ref.llama != nil {
					others++
				}
			}
			if locked {
				r.s.loadedMu.Unlock()
			}
			if others > 0 && gpus[0].Library == "cpu" {
				// CPU mode: the whole model lives in system memory.  The estimate's TotalSize, but never less than the sum
				// of the model's tensor sizes (so that a TotalSize that is not filled in cannot hide), against the free
				// system memory the scheduler was given
				est := llm.EstimateGPULayers(gpus, f, projectors, opts, numParallel)
				need, tensors := est.TotalSize, uint64(0)
				for _, t := range f.Tensors().Items() {
					tensors += t.Size()
				}
				r.stats["sc_started_next_to_loaded_cpu"]++
				if need < tensors {
					need = tensors
				}
				if need > gpus[0].FreeMemory {
					r.noFit = append(r.noFit, fmt.Sprintf("runner for model %d started next to %d loaded runner(s) in CPU mode: it needs %d bytes (estimate TotalSize %d, tensors %d) but %d bytes of system memory are free",
						mi, others, need, est.TotalSize, tensors, gpus[0].FreeMemory))
				}
			} else if others > 0 {
				est := llm.EstimateGPULayers(gpus, f, projectors, opts, numParallel)
				r.stats["sc_started_next_to_loaded"]++
				for i := range gpus {
					if i < len(est.GPUSizes) && est.GPUSizes[i] > gpus[i].FreeMemory {
						r.noFit = append(r.noFit, fmt.Sprintf("runner for model %d started next to %d loaded runner(s): its estimate plans %d bytes on GPU %s, which has %d bytes free (short by %d)",
							mi, others, est.GPUSizes[i], gpus[i].ID, gpus[i].FreeMemory, est.GPUSizes[i]-gpus[i].FreeMemory))
					}
				}
				if est.Layers < int(f.KV().BlockCount())+1 {
					r.noFit = append(r.noFit, fmt.Sprintf("runner for model %d started next to %d loaded runner(s) although only %d of %d layers fit the free memory",
						mi, others, est.Layers, f.KV().BlockCount()+1))
				}
			}
		}
		if mi >= 0 && r.failStart[mi] {
			r.stats["sc_newserver_fail"]++
			return nil, errors.New("verif: runner did not start")
		}
		m := &schedMock{r: r, id: len(r.mocks), model: mi, opts: k, loadReq: -1, rel: make(chan error, 1), pingOK: true,
			numCtx: opts.NumCtx, np: numParallel, closeDelay: r.closeDelay, closeRel: make(chan struct{}, 1), pingRel: make(chan error, 1)}
		if len(gpus) > 0 {
			m.gpuID = gpus[0].ID
		}
		r.mocks = append(r.mocks, m)
		r.refs = append(r.refs, nil)
		r.stats["runners_started"]++
		return m, nil
	}
	// loadFn is the scheduler's own test seam; the wrapper only records which runnerRef belongs to the mock
	s.loadFn = func(req *LlmRequest, f *ggml.GGML, gpus discover.GpuInfoList, numParallel int) {
		before := len(r.mocks)
		s.load(req, f, gpus, numParallel)
		if len(r.mocks) == before+1 {
			m := r.mocks[before]
			s.loadedMu.Lock()
			ref := s.loaded[req.model.ModelPath]
			s.loadedMu.Unlock()
			if ref != nil && ref.llama == llm.LlamaServer(m) {
				r.refs[before] = ref
			}
			if qi, ok := r.reqByCtx[req.ctx]; ok {
				m.loadReq = qi
				// the options a runner is started with must be the request's: NumCtx x the parallel factor in force
				q := r.reqs[qi]
				if want := schedNumCtx(q.opts) * max(1, m.np); m.numCtx != want {
					r.wrongOpt = append(r.wrongOpt, fmt.Sprintf("runner %d for request %d (model %d, NumCtx %d) was started with NumCtx %d and numParallel %d (expected NumCtx %d)",
						m.id, qi, q.model, schedNumCtx(q.opts), m.numCtx, m.np, want))
				}
				if m.opts/2 != q.opts/2 {
					r.wrongOpt = append(r.wrongOpt, fmt.Sprintf("runner %d for request %d was started with use_mmap / adapter / projector class %d, the request has %d", m.id, qi, m.opts/2, q.opts/2))
				}
				m.opts = q.opts // what it was asked to serve
				if r.stats != nil && m.np != 1 {
					r.stats[fmt.Sprintf("sc_started_parallel_%d", m.np)]++
				}
			}
		}
	}
	r.srv = &Server{sched: s}
	s.Run(r.ctx)
	r.quiesce()
	r.prev = r.snap()
}

func (r *schedRun) snap() schedSnap {
	sn := schedSnap{loaded: map[int]int{}, ppIdle: r.cen.ppIdle, pcIdle: r.cen.pcIdle}
	// everything else is parked; loadedMu may be held by a parked expireRunner, so do not insist on it
	locked := r.s.loadedMu.TryLock()
	for path, ref := range r.s.loaded {
		sn.loaded[r.modelIndex(path)] = r.refID(ref)
	}
	if locked {
		r.s.loadedMu.Unlock()
	}
	for i := range r.mocks {
		ref := r.refs[i]
		if ref == nil {
			sn.refCount = append(sn.refCount, 0)
			sn.sess = append(sn.sess, -1)
			sn.closed = append(sn.closed, false)
			sn.closing = append(sn.closing, r.mocks[i].closeCalls > 0)
			r.stats["runner_ref_unknown"]++
			continue
		}
		sn.refCount = append(sn.refCount, ref.refCount)
		sn.sess = append(sn.sess, ref.sessionDuration)
		sn.closed = append(sn.closed, ref.llama == nil)
		sn.closing = append(sn.closing, r.mocks[i].closeCalls > 0)
	}
	return sn
}

func (r *schedRun) obsString(sn schedSnap) string {
	var sb strings.Builder
	sb.WriteString("L=")
	var ms []int
	for m := range sn.loaded {
		ms = append(ms, m)
	}
	sort.Ints(ms)
	for i, m := range ms {
		if i > 0 {
			sb.WriteByte(',')
		}
		if id := sn.loaded[m]; id >= 0 {
			fmt.Fprintf(&sb, "%d:%d", m, id)
		} else {
			fmt.Fprintf(&sb, "%d:?", m)
		}
	}
	if len(ms) == 0 {
		sb.WriteByte('-')
	}
	sb.WriteString("  R=")
	for i, m := range r.mocks {
		if i > 0 {
			sb.WriteByte(',')
		}
		rc := strconv.FormatUint(uint64(sn.refCount[i]), 10)
		if sn.refCount[i] > 1<<63 {
			rc = "W"
		}
		cl := 0
		if sn.closed[i] {
			cl = 1
		}
		fmt.Fprintf(&sb, "%d:%s:%d:%d", i, rc, cl, m.closes)
	}
	if len(r.mocks) == 0 {
		sb.WriteByte('-')
	}
	sb.WriteString("  Q=")
	for i, q := range r.reqs {
		if i > 0 {
			sb.WriteByte(',')
		}
		what := "-"
		switch {
		case q.nRunner > 0 && q.nErr > 0:
			what = "B"
		case q.nRunner > 0:
			what = "R" + strconv.Itoa(q.lastRunner)
			if q.lastRunner < 0 {
				what = "R?"
			}
		case q.nErr > 0:
			what = "E"
		}
		fmt.Fprintf(&sb, "%d:%d:%s", i, q.replies(), what)
	}
	if len(r.reqs) == 0 {
		sb.WriteByte('-')
	}
	return sb.String()
}

func (r *schedRun) sessDur(s string) *api.Duration {
	switch s {
	case "0":
		return &api.Duration{Duration: 0}
	case "S":
		return &api.Duration{Duration: schedShort}
	case "L":
		return &api.Duration{Duration: schedLong}
	}
	return nil
}

func (r *schedRun) enabled(e schedEv) bool {
	switch e.kind {
	case "submit", "submitr":
		return e.a >= 0 && e.a < schedNModels && e.b >= 0 && (e.b <= 5 || e.kind == "submit" && e.b <= 23) && len(r.reqs) < schedMaxReqs
	case "closefail":
		return e.a >= 0 && e.a < len(r.mocks) && (e.b == 0 || e.b == 1)
	case "envspell":
		return len(r.executed) == 0 && e.a == r.spell // only as the first event: the environment is written before InitScheduler
	case "parallel":
		return e.a >= 0 && e.a <= 8
	case "sysmem":
		return e.a >= 0 && e.a <= 1<<30 && r.cfg.cpu == 1
	case "gpumem":
		// K >= 2 only with a single GPU: a runner placed on two GPUs (spread, or a partial first load) makes the real
		// waitForVRAMRecovery poll discover.GetGPUInfo for 5 s
		return e.a == 0 || e.a == 1 || e.a <= 1<<30 && r.cfg.cpu == 0 && r.cfg.ngpus == 1
	case "closedelay":
		return e.a >= 0 && e.a <= 1000
	case "pingdone":
		return e.a >= 0 && e.a < len(r.mocks) && r.mocks[e.a].pinging && (e.b == 0 || e.b == 1)
	case "done":
		return e.a >= 0 && e.a < len(r.reqs) && !r.reqs[e.a].done
	case "loaddone":
		return e.a >= 0 && e.a < len(r.mocks) && r.mocks[e.a].waiting && (e.b == 0 || e.b == 1)
	case "ping":
		return e.a >= 0 && e.a < len(r.mocks) && e.b >= 0 && e.b <= 3 && !r.mocks[e.a].pinging
	case "unload":
		return e.a >= 0 && e.a < schedNModels
	case "failstart":
		return e.a >= 0 && e.a < schedNModels && (e.b == 0 || e.b == 1)
	case "advance":
		return e.a > 0 && r.cen.mutex == 0
	}
	return false
}

// apply performs one environment event on the real scheduler, waits for quiescence, records the observation and
// evaluates the L2 monitors.  It returns false if the event was not enabled (nothing happened, nothing recorded).
func (r *schedRun) apply(e schedEv) bool {
	if !r.enabled(e) {
		r.stats["ev_skipped_"+e.kind]++
		return false
	}
	if e.kind == "submitr" {
		e.b %= 6 // the routed path takes the model from the store: no adapter / projector variants
	}
	if e.kind == "submit" || e.kind == "submitr" {
		e.b %= 24
	}
	r.lastEv = e
	slog.Debug("verif event", "ev", e.String(), "census", fmt.Sprint(r.cen))
	var subq *schedReq
	switch e.kind {
	case "submit", "submitr":
		q := &schedReq{id: len(r.reqs), model: e.a, opts: e.b, sess: e.sess, lastRunner: -1, routed: e.kind == "submitr", ctl: make(chan struct{})}
		q.ctx, q.cancel = context.WithCancel(context.Background())
		q.fullAtSubmit = len(r.s.pendingReqCh) == cap(r.s.pendingReqCh)
		r.reqs = append(r.reqs, q)
		r.reqByCtx[q.ctx] = q.id
		subq = q
		opts := api.DefaultOptions()
		opts.NumCtx = schedNumCtx(e.b)
		reqOpts := map[string]any{"num_ctx": float64(schedNumCtx(e.b))}
		if (e.b/2)%3 != 0 {
			v := (e.b/2)%3 == 1
			opts.UseMMap = &v // a fresh pointer per request, as every decoded API request has
			reqOpts["use_mmap"] = v
			r.stats["reqs_explicit_use_mmap"]++
		}
		mdl, sess := r.models[e.a], r.sessDur(e.sess)
		if e.b >= 6 && !q.routed {
			// same model path, other adapters / projectors (what a Modelfile with ADAPTER lines resolves to)
			m2 := *mdl
			if (e.b/6)%2 == 1 {
				m2.AdapterPaths = schedAdapter
				r.stats["reqs_with_adapter"]++
			}
			if e.b/12 == 1 {
				m2.ProjectorPaths = schedProjector
				r.stats["reqs_with_projector"]++
			}
			mdl = &m2
		}
		granted := func(id int, nilLlama bool) {
			q.nRunner++
			q.lastRunner = id
			// a request that is already done (cancelled) is no user of the runner: its finish event may
			// legitimately unload the runner before this goroutine gets to look at it
			if q.done {
				r.stats["grant_after_done"]++
			} else if nilLlama {
				q.grantClosed = fmt.Sprintf("request %d received runner %d with llama == nil", q.id, id)
			} else if id >= 0 && r.mocks[id].closeCalls > 0 {
				q.grantClosed = fmt.Sprintf("request %d received runner %d whose server was already closed", q.id, id)
			}
			if id >= 0 && r.mocks[id].loadReq != q.id {
				r.stats["sc_reuse"]++
			}
			// "reuses that runner when compatible ... a request with incompatible options is served by a runner started with
			// its options" (Properties/C11Opts.lean granted_runner_has_request_options): the runner handed over serves this
			// request's options class (context size, use_mmap, adapter, projector) and model
			if id >= 0 && !q.done && !nilLlama && (r.mocks[id].opts != q.opts || r.mocks[id].model != q.model) {
				r.grantWrong = append(r.grantWrong, fmt.Sprintf("request %d (model %d, options class %d) received runner %d, which was started for model %d with options class %d",
					q.id, q.model, q.opts, id, r.mocks[id].model, r.mocks[id].opts))
			}
		}
		failed := func(err error) {
			q.nErr++
			slog.Debug("verif request failed", "q", q.id, "err", err)
			if errors.Is(err, ErrMaxQueue) {
				q.busyErr = true
				r.stats["sc_queue_overflow"]++
			}
		}
		if q.routed {
			// the requester is the real Server.scheduleRunner: GetModel from the model store, modelOptions, GetRunner and
			// its select; like a handler it stops listening once it has its answer
			r.routedWait++
			r.stats["reqs_routed"]++
			go func() {
				llama, _, _, err := r.srv.scheduleRunner(q.ctx, mdl.ShortName, []model.Capability{model.CapabilityCompletion}, reqOpts, sess)
				r.routedWait--
				q.returned = true
				switch {
				case err == nil:
					id := -1
					if m, ok := llama.(*schedMock); ok && m != nil {
						id = m.id
					}
					granted(id, llama == nil)
					q.nilGrant = llama == nil
				case q.done && errors.Is(err, context.Canceled):
					q.leftEarly = true // not an answer of the scheduler
				default:
					failed(err)
				}
			}()
			break
		}
		go func() {
			succ, errc := r.s.GetRunner(q.ctx, mdl, opts, sess)
			q.returned = true
			for {
				select {
				case ref := <-succ:
					granted(r.refID(ref), ref.llama == nil)
				case err := <-errc:
					failed(err)
				case <-q.ctl: // paused: not listening until resumed
					select {
					case <-q.ctl:
					case <-r.stop:
						return
					}
				case <-r.stop:
					return
				}
			}
		}()
	case "done":
		q := r.reqs[e.a]
		q.done = true
		loading := false
		for _, m := range r.mocks {
			if m.waiting && m.loadReq == q.id {
				loading = true
			}
		}
		switch {
		case loading:
			r.stats["sc_cancel_loading"]++
		case q.replies() == 0:
			r.stats["sc_cancel_before_reply"]++
		}
		for _, m := range r.mocks {
			if m.pinging && m.model == q.model && q.replies() == 0 {
				r.stats["sc_cancel_during_ping"]++
			}
		}
		if !q.routed && q.replies() == 0 && q.returned {
			r.ctl(q, true) // see quiesce
		}
		q.cancel()
	case "loaddone":
		if e.b == 1 {
			r.mocks[e.a].rel <- nil
		} else {
			r.stats["sc_load_fail"]++
			r.mocks[e.a].rel <- errors.New("verif: load failed")
		}
	case "ping":
		if m := r.mocks[e.a]; e.b >= 2 {
			m.pingBlock, m.pingOpen = true, e.b == 3
		} else {
			m.pingOK, m.pingBlock, m.pingOpen = e.b == 1, false, false
		}
	case "pingdone":
		if e.b == 1 {
			r.mocks[e.a].pingRel <- nil
		} else {
			r.mocks[e.a].pingRel <- errors.New("verif: ping failed")
		}
	case "parallel":
		if e.a == 0 {
			os.Unsetenv("OLLAMA_NUM_PARALLEL") // automatic
		} else {
			os.Setenv("OLLAMA_NUM_PARALLEL", schedSpell(strconv.Itoa(e.a), r.spell))
		}
	case "closefail":
		r.mocks[e.a].closeErr = e.b == 1
	case "envspell":
		// took effect before InitScheduler (schedRunOne)
	case "gpumem":
		r.gpumem = e.a
	case "sysmem":
		r.sysmem = e.a
	case "closedelay":
		r.closeDelay = time.Duration(e.a) * time.Millisecond
	case "failstart":
		r.failStart[e.a] = e.b == 0
	case "unload":
		id, ok := r.prev.loaded[e.a]
		switch {
		case !ok:
			r.stats["sc_unload_absent"]++
		case id >= 0 && r.mocks[id].waiting:
			r.stats["sc_unload_loading"]++
		case id >= 0 && r.prev.refCount[id] > 0:
			r.stats["sc_unload_busy"]++
		default:
			r.stats["sc_unload_idle"]++
		}
		if n := len(r.executed); n > 0 && r.executed[n-1].kind == "unload" && r.executed[n-1].a == e.a {
			r.stats["sc_unload_dup"]++
		}
		model := r.models[e.a]
		go r.s.expireRunner(model)
	case "advance":
		asked := time.Duration(e.a) * time.Millisecond
		d := r.advance(asked)
		e.a = int(d / time.Millisecond) // the line reports the time actually advanced
		if e.a == 0 {
			r.stats["ev_skipped_advance"]++
			return false
		}
		if d < asked {
			r.stats["advance_cut_short"]++
		}
		r.lastEv = e
	}
	if e.kind != "advance" {
		r.quiesce()
		r.lastAct = time.Now()
	}
	r.stats["ev_"+e.kind]++
	r.executed = append(r.executed, e)
	sn := r.snap()
	for _, q := range r.reqs {
		if q.nilGrant {
			// scheduleRunner only returns runner.llama; for a cancelled request the finish event may have unloaded the
			// runner before scheduleRunner looked at it: it is the runner of that model that was closed in this step
			q.nilGrant = false
			var ids []int
			for id := range sn.closed {
				if r.mocks[id].model == q.model && sn.closed[id] && (id >= len(r.prev.closed) || !r.prev.closed[id]) {
					ids = append(ids, id)
				}
			}
			if len(ids) == 1 {
				q.lastRunner = ids[0]
			} else {
				r.stats["routed_grant_runner_unknown"]++
			}
		}
	}
	r.line.WriteString(" | ")
	r.line.WriteString(e.String())
	r.line.WriteString(" ; ")
	r.line.WriteString(r.obsString(sn))
	r.monitors(e, subq, sn)
	r.prev = sn
	for _, id := range sn.loaded {
		if id >= 0 && sn.refCount[id] == 0 && !r.mocks[id].waiting {
			r.stats["q_idle_loaded_runner"]++
			break
		}
	}
	return true
}

// ---------------------------------------------------------------------------------------------
// L2 monitors on the real scheduler (independent of the model)

func (r *schedRun) monitors(e schedEv, subq *schedReq, sn schedSnap) {
	for _, w := range r.grantWrong {
		r.flag("c11-granted-incompatible", w)
	}
	// C01
	for _, q := range r.reqs {
		if q.grantClosed != "" {
			r.flag("c01-grant-closed", q.grantClosed)
		}
		if q.nRunner > 0 && !q.done && q.lastRunner >= 0 && r.mocks[q.lastRunner].closeCalls > 0 {
			r.flag("c01-closed-in-use", fmt.Sprintf("runner %d (model %d) was closed while request %d, which received it, is not done", q.lastRunner, r.mocks[q.lastRunner].model, q.id))
		}
		// "never ... unloaded while that request is still in progress": the runner a request in progress holds is still THE
		// entry of its model in s.loaded (Properties/C01Bridge.lean `in_progress_runner_is_loaded_and_open`)
		if q.nRunner > 0 && !q.done && q.lastRunner >= 0 && q.lastRunner < len(r.mocks) {
			if id, ok := sn.loaded[r.mocks[q.lastRunner].model]; !ok || id != q.lastRunner {
				r.flag("c01-unloaded-in-use", fmt.Sprintf("runner %d (model %d) is no longer the loaded entry of its model (entry: %v %d) while request %d, which received it, is not done", q.lastRunner, r.mocks[q.lastRunner].model, ok, id, q.id))
			}
		}
		if q.replies() > 1 {
			r.flag("c02-double-reply", fmt.Sprintf("request %d received %d replies (%d runners, %d errors)", q.id, q.replies(), q.nRunner, q.nErr))
		}
	}
	live := 0
	perModel := map[int][]int{}
	for _, m := range r.mocks {
		if m.closeCalls > 1 {
			r.flag("c01-double-close", fmt.Sprintf("runner %d closed %d times", m.id, m.closeCalls))
		}
		if m.closes == 0 { // live: started and Close has not RETURNED
			live++
			perModel[m.model] = append(perModel[m.model], m.id)
		}
	}
	// C11
	if live > r.effMax() {
		r.flag("c11-over-limit", fmt.Sprintf("%d live runners, limit %d", live, r.effMax()))
	}
	for m := 0; m < schedNModels; m++ {
		if ids := perModel[m]; len(ids) > 1 {
			r.flag("c11-two-per-model", fmt.Sprintf("model %d has live runners %v", m, ids))
		}
	}
	for _, d := range r.noReuse {
		r.flag("c11-no-reuse", d)
	}
	r.noReuse = nil
	for _, d := range r.wrongOpt {
		r.flag("c11-wrong-options", d)
	}
	r.wrongOpt = nil
	for _, d := range r.noFit {
		r.flag("c11-started-without-fit", d)
	}
	r.noFit = nil
	// C02: submit never blocks, and answers ErrMaxQueue exactly when the queue is full
	if subq != nil {
		switch {
		case subq.routed && !subq.returned:
			// scheduleRunner only returns with the answer
		case !subq.returned:
			r.flag("c02-blocked-submit", fmt.Sprintf("GetRunner of request %d did not return", subq.id))
		case subq.fullAtSubmit && !(subq.busyErr && subq.nRunner == 0):
			r.flag("c02-blocked-submit", fmt.Sprintf("request %d submitted on a full queue did not get ErrMaxQueue", subq.id))
		case !subq.fullAtSubmit && subq.busyErr:
			r.flag("c02-blocked-submit", fmt.Sprintf("request %d got ErrMaxQueue although the queue had room", subq.id))
		}
	}
	// reuse: the model's runner is loaded, finished loading, has the same options and answers pings: if the request was
	// answered in this step (processPending was idle and decided on exactly the previous quiescent state), the answer
	// must be that runner and no runner may have been started for it
	if subq != nil && r.prev.pcIdle {
		if id, ok := r.prev.loaded[e.a]; ok && id >= 0 && !r.prev.closed[id] && !r.prev.closing[id] && r.mocks[id].opts == e.b && r.mocks[id].pingOK && !r.mocks[id].pingBlock && !r.mocks[id].waiting {
			for _, m := range r.mocks {
				if m.loadReq == subq.id {
					r.flag("c11-no-reuse", fmt.Sprintf("request %d (model %d opts %d) started runner %d although runner %d was loaded with the same options and healthy", subq.id, e.a, e.b, m.id, id))
				}
			}
			if subq.nRunner > 0 && subq.lastRunner != id {
				r.flag("c11-no-reuse", fmt.Sprintf("request %d (model %d opts %d) received runner %d although runner %d was loaded with the same options and healthy", subq.id, e.a, e.b, subq.lastRunner, id))
			}
			// a submit only enqueues: whatever changed in this step was decided for this request.  The runner's keep-alive
			// was zeroed although the request does not ask for that: the pending loop expired it in order to reload
			if subq.nRunner == 0 && e.sess != "0" && r.prev.sess[id] > 0 && sn.sess[id] == 0 {
				r.flag("c11-no-reuse", fmt.Sprintf("request %d (model %d opts %d) made the scheduler expire runner %d, which was loaded with the same options and healthy, instead of using it", subq.id, e.a, e.b, id))
			}
		}
	}
	// victim choice: a `submit` taken by an idle processPending decides on exactly the previous quiescent state.
	if subq != nil && r.prev.pcIdle {
		for id := range r.prev.sess {
			if r.prev.sess[id] <= 0 || sn.sess[id] != 0 || r.mocks[id].model == e.a || r.prev.closed[id] {
				continue
			}
			if lid, ok := r.prev.loaded[r.mocks[id].model]; !ok || lid != id {
				continue
			}
			waiting := false
			for _, q := range r.reqs[:len(r.reqs)-1] {
				if q.model == r.mocks[id].model && q.replies() == 0 && !q.done {
					waiting = true
				}
			}
			if waiting {
				continue
			}
			if r.prev.refCount[id] == 0 {
				r.stats["sc_evict_idle"]++
				continue
			}
			r.stats["sc_evict_busy"]++
			for _, oid := range r.prev.loaded {
				// (still loaded and idle now: it was not unloaded by an earlier decision for the same request, e.g. a reload)
				if cur, ok := sn.loaded[r.mocks[max(oid, 0)].model]; oid >= 0 && oid != id && r.prev.refCount[oid] == 0 && !r.mocks[oid].waiting &&
					ok && cur == oid && sn.refCount[oid] == 0 && !sn.closing[oid] {
					r.flag("c11-victim-busy", fmt.Sprintf("runner %d (refCount %d) chosen for eviction while runner %d was idle", id, r.prev.refCount[id], oid))
				}
			}
		}
	}
	// making room evicts an idle runner when one exists.  A submit only enqueues; processPending was idle, so it took THIS
	// request and decided on exactly the previous quiescent state.  The request's model was not loaded (no reload), and
	// now processPending waits for an unload although a runner that was idle then is still loaded and idle, nothing is
	// closing and processCompleted has nothing left to do: the victim it waits for is a busy one.
	if subq != nil && r.prev.ppIdle && r.prev.pcIdle && r.cen.ppWaitUnload && r.cen.pcIdle && r.cen.mutex == 0 && subq.replies() == 0 {
		if _, reload := r.prev.loaded[e.a]; !reload {
			closing := false
			for _, m := range r.mocks {
				if m.closing || m.waiting && r.prev.loaded[m.model] != m.id {
					closing = true
				}
			}
			for _, id := range r.prev.loaded {
				if closing || id < 0 || r.prev.refCount[id] != 0 || r.prev.closing[id] || r.mocks[id].waiting || r.mocks[id].pinging {
					continue
				}
				if cur, ok := sn.loaded[r.mocks[id].model]; ok && cur == id && sn.refCount[id] == 0 && !sn.closing[id] {
					var busy []string
					for _, b := range sn.loaded {
						if b >= 0 && sn.refCount[b] > 0 && sn.sess[b] == 0 {
							busy = append(busy, fmt.Sprintf("%d (refCount %d)", b, sn.refCount[b]))
						}
					}
					sort.Strings(busy)
					r.flag("c11-victim-busy", fmt.Sprintf("request %d (model %d) waits for the unload of a busy runner (expired while in use: %s) although runner %d (model %d) is loaded and idle",
						subq.id, e.a, strings.Join(busy, ", "), id, r.mocks[id].model))
				}
			}
		}
	}
	// deadlock: goroutines parked on a sync.Mutex although no load is in flight (the load goroutine is the only one
	// that legitimately parks, in WaitUntilRunning, while holding a mutex) and no helper is sleeping: the holder is
	// parked on a channel whose only consumers are parked too
	if r.cen.handover > 0 {
		// after the requesters have been given their chance to listen (quiesce) a hand-over is still parked: its
		// requester has left without its answer; refMu stays held, the loop (or the load goroutine) never returns
		r.flag("c02-deadlock-handover", fmt.Sprintf("%d goroutines parked in the hand-over of a runner to a requester that is no longer listening (%d more parked on a mutex: %s)",
			r.cen.handover, r.cen.mutex, r.cen.mutexDesc))
	}
	if r.cen.ppSelf != "" {
		// the pending loop is the only receiver of pendingReqCh: if it sends on it (or sleeps with the queue unattended)
		// every queued request waits, and with a full queue it waits for ever
		r.flag("c02-deadlock-self-queue", fmt.Sprintf("the pending loop (processPending itself, not a helper goroutine) is %s; %d of %d queue slots are taken",
			r.cen.ppSelf, len(r.s.pendingReqCh), cap(r.s.pendingReqCh)))
	}
	if strings.Contains(r.cen.sendChans, "s.unloadedCh") && r.cen.ppSelect != "" && !strings.Contains(r.cen.ppSelect, "s.unloadedCh") {
		// processCompleted reports every unload on unloadedCh; processPending is parked in a select that does not
		// receive from it, so nobody will ever take the event: processCompleted is parked for good (no finished or expired
		// event is handled any more)
		r.flag("c02-deadlock-unconsumed", fmt.Sprintf("processCompleted is parked sending on unloadedCh (capacity %d, full) while processPending is parked in a select without a receive from it (cases: %s)",
			r.cfg.maxQueue, strings.Join(strings.Fields(r.cen.ppSelect), " ")))
	} else if (r.cen.mutex > 0 || r.cen.schedSend > 0) && r.cen.sleeping == 0 && r.cen.handover == 0 {
		// (a send on finishedReqCh / expiredCh / unloadedCh that is still parked now: its consumer loop is parked on a
		// mutex or on a full channel itself - processCompleted sends on expiredCh, which only it drains)
		inflight := false
		for _, m := range r.mocks {
			if m.waiting || m.pinging || m.closing {
				inflight = true
			}
		}
		if !inflight && r.cen.schedSend > 0 {
			// e.g. expireRunner holds loadedMu+refMu and sends on the full expiredCh, whose only consumer needs one of them
			r.flag("c02-deadlock-queue", fmt.Sprintf("%d goroutines parked on a mutex (%s) and %d scheduler goroutines parked on a send to a full channel (capacity %d), no load in flight; channels: %s",
				r.cen.mutex, r.cen.mutexDesc, r.cen.schedSend, r.cfg.maxQueue, r.cen.sendChans))
		} else if !inflight {
			// a cycle of mutexes only: lock-order inversion (loadedMu -> refMu in expireRunner / updateFreeSpace,
			// refMu -> loadedMu in processCompleted's expired case)
			r.flag("c02-deadlock-lockorder", fmt.Sprintf("%d goroutines parked on a mutex (%s), none parked on a channel send, no load in flight", r.cen.mutex, r.cen.mutexDesc))
		}
	}
	// liveness: nothing in flight, nobody holds a runner, all helper delays have passed: every request that is
	// still waiting must have been answered
	// (in a wedged trace the liveness monitors below would only repeat the deadlock)
	settled := r.cen.mutex == 0 && time.Since(r.lastAct) >= schedSettle && !r.l2seen["c02-deadlock-queue"] &&
		!r.l2seen["c02-deadlock-lockorder"] && !r.l2seen["c02-deadlock-handover"] && !r.l2seen["c02-deadlock-unconsumed"]
	for _, m := range r.mocks {
		if m.waiting || m.pinging || m.closing {
			settled = false
		}
	}
	allDone := true
	for _, q := range r.reqs {
		if !q.done {
			allDone = false
			if q.nRunner > 0 {
				settled = false
			}
		}
	}
	if settled {
		for _, q := range r.reqs {
			if !q.done && q.replies() == 0 {
				r.flag("c02-unanswered", fmt.Sprintf("request %d (model %d) has no reply although no load is in flight, no request holds a runner and %v passed", q.id, q.model, time.Since(r.lastAct)))
			}
		}
	}
	// drain: every request is done and still a helper re-queues expired events 2 s later: some refCount never returns to 0
	if settled && allDone && r.cen.sleeping > 0 && time.Since(r.lastAct) >= 2*time.Second {
		r.flag("c02-not-drained", fmt.Sprintf("%d helper goroutines still re-queueing %v after the last request finished", r.cen.sleeping, time.Since(r.lastAct)))
	}
	// drain: additionally every request is done and every keep-alive has passed
	if settled && allDone && time.Since(r.lastAct) > schedLong+time.Second {
		r.stats["end_state_checked"]++
		if len(sn.loaded) != 0 {
			r.flag("c02-not-drained", fmt.Sprintf("%d entries left in loaded after drain", len(sn.loaded)))
		}
		for _, m := range r.mocks {
			if m.closes == 0 {
				r.flag("c02-not-drained", fmt.Sprintf("runner %d (model %d) was never closed", m.id, m.model))
			}
		}
	}
}

// finish ends the trace: everything is cancelled and released, the scheduler's channels are drained by a helper so
// that blocked senders can leave, and the bubble's goroutines are counted.  Returns whether the bubble is clean.
func (r *schedRun) finish() bool {
	r.ending = true
	for _, q := range r.reqs {
		q.cancel()
	}
	release := func() {
		for _, m := range r.mocks {
			if m.waiting && len(m.rel) == 0 {
				m.rel <- errors.New("verif: trace ended")
			}
			if m.pinging && len(m.pingRel) == 0 {
				m.pingRel <- errors.New("verif: trace ended")
			}
			if m.closing && len(m.closeRel) == 0 {
				m.closeRel <- struct{}{}
			}
		}
	}
	release()
	r.quiesce()
	r.cancel()
	s := r.s
	// Shutdown as in routes.go Serve (`schedDone(); sched.unloadAllRunners()`), Properties/C02Shutdown.lean
	// `shutdown_closes_every_started_runner`: right after unloadAllRunners every runner that was ever started has had its
	// Close() called (the ones still loaded by unloadAllRunners, the others by the scheduler before), none of them twice on
	// account of the shutdown.  Skipped when a goroutine is parked for good (known deadlocks: it may hold loadedMu, which
	// unloadAllRunners needs) or a load / health check was still in flight when the trace ended.
	wedged := r.cen.mutex != 0
	for _, l := range r.l2 {
		if strings.HasPrefix(l.kind, "c02-deadlock") {
			wedged = true
		}
	}
	if !wedged {
		before := make([]int, len(r.mocks))
		for i, m := range r.mocks {
			before[i] = m.closeCalls
		}
		s.unloadAllRunners()
		r.stats["shutdown_unloadAllRunners"]++
		for i, m := range r.mocks {
			switch {
			case m.closeCalls == 0:
				r.flag("c02-shutdown-not-closed", fmt.Sprintf("runner %d was started, and after the scheduler was stopped and unloadAllRunners ran its Close() has never been called (loaded=%d entries)", i, len(s.loaded)))
			case m.closeCalls > before[i] && before[i] > 0:
				r.flag("c01-double-close", fmt.Sprintf("runner %d: Close() had been called %d time(s) and unloadAllRunners called it again", i, before[i]))
			case m.closeCalls > before[i]:
				r.stats["shutdown_closed_by_unloadAllRunners"]++
			}
		}
	}
	go func() {
		for {
			select {
			case req := <-s.pendingReqCh:
				select {
				case req.errCh <- errors.New("verif: trace ended"): // lets a scheduleRunner that still waits return
				default:
				}
			case <-s.finishedReqCh:
			case <-s.expiredCh:
			case <-s.unloadedCh:
			case <-r.stop:
				return
			}
		}
	}()
	nreq := 0
	for _, q := range r.reqs {
		if !q.routed {
			nreq++
		}
	}
	want := nreq + 1
	for i := 0; i < 8; i++ {
		r.quiesce()
		release()
		r.quiesce()
		if r.cen.others == want && r.cen.mutex == 0 && r.cen.sleeping == 0 {
			break
		}
		if r.cen.mutex == 0 {
			r.advance(250 * time.Millisecond)
		}
	}
	// (a scheduleRunner whose cancelled request was skipped by the pending loop waits for ever: r.routedWait > 0)
	clean := r.cen.others == want && r.cen.mutex == 0 && r.cen.sleeping == 0
	if !clean {
		n := runtime.Stack(r.buf, true)
		slog.Debug("verif unclean end", "census", fmt.Sprint(r.cen), "want", want, "dump", string(r.buf[:n]))
		return false
	}
	close(r.stop)
	for i := 0; i < 1000; i++ {
		runtime.Gosched()
		if c := r.census(); c.others == 0 {
			return true
		}
	}
	return false
}

// ---------------------------------------------------------------------------------------------
// running traces

type schedJob struct {
	gen    bool
	seed   uint64 // gen
	script string // fixed
}

func (j schedJob) String() string {
	if j.gen {
		return "gen " + strconv.FormatUint(j.seed, 10)
	}
	return j.script
}

func schedSetenv(cfg schedCfg, spell int) {
	if cfg.maxRunners > 0 {
		os.Setenv("OLLAMA_MAX_LOADED_MODELS", schedSpell(strconv.Itoa(cfg.maxRunners), spell))
	} else {
		os.Unsetenv("OLLAMA_MAX_LOADED_MODELS") // sched.go sets it itself on first use ("HACK")
	}
	os.Setenv("OLLAMA_MAX_QUEUE", schedSpell(strconv.Itoa(cfg.maxQueue), spell))
	os.Setenv("OLLAMA_KEEP_ALIVE", schedSpell([]string{"0", "50ms", "1h"}[cfg.defSess], spell))
	os.Setenv("OLLAMA_NUM_PARALLEL", schedSpell("1", spell))
	os.Unsetenv("OLLAMA_SCHED_SPREAD")
}

// schedRunOne runs one trace in its own bubble.  onUnclean is called INSIDE the bubble when the trace's goroutines
// cannot be made to exit (the caller must leave the process).
func schedRunOne(t *testing.T, models []*Model, cfg schedCfg, src schedSource, onUnclean func(*schedResult)) *schedResult {
	schedSetenv(cfg, src.spell())
	res := &schedResult{}
	synctest.Test(t, func(t *testing.T) {
		r := &schedRun{cfg: cfg, models: models, spell: src.spell()}
		r.setup()
		r.line.WriteString(cfg.header())
		for n := 0; n < 400; n++ {
			e, ok := src.next(r)
			if !ok {
				break
			}
			r.apply(e)
		}
		res.line = r.line.String()
		res.script = schedScript(cfg, r.executed)
		res.l2 = r.l2
		res.stats = r.stats
		r.stats["events"] += len(r.executed)
		r.stats["reqs"] += len(r.reqs)
		if g, ok := src.(*schedGen); ok {
			g.finalStats(r)
		}
		res.clean = r.finish()
		res.l2 = r.l2 // finish() runs the shutdown monitor
		if !res.clean {
			onUnclean(res)
		}
	})
	return res
}

var schedOutputBytes = [schedNModels]int{32, 1 << 20, 4 << 20}

// schedGGML: the decoded GGUF metadata of the models (for the generator's search of the fit boundary)
var schedGGML [schedNModels]*ggml.GGML

// schedFitBoundary returns the smallest free memory (KiB) of a single metal GPU at which the REAL llm.PredictServerFit says
// that model m with options class k and parallel factor np fits completely (bisection).
var schedBoundaryCache = map[[3]int]int{}

func schedFitBoundary(m, k, np int) int {
	key := [3]int{m, k, np}
	if v, ok := schedBoundaryCache[key]; ok {
		return v
	}
	opts := api.DefaultOptions()
	opts.NumCtx = schedNumCtx(k) * max(1, np)
	fits := func(kib int) bool {
		g := discover.GpuInfo{Library: "metal", ID: "0"}
		g.TotalMemory = 24 * format.GigaByte
		g.FreeMemory = uint64(kib) * format.KibiByte
		ok, _ := llm.PredictServerFit(discover.GpuInfoList{g}, schedGGML[m], nil, nil, opts, max(1, np))
		return ok
	}
	lo, hi := 0, 1<<24 // 16 GiB
	for lo+1 < hi {
		if mid := (lo + hi) / 2; fits(mid) {
			hi = mid
		} else {
			lo = mid
		}
	}
	schedBoundaryCache[key] = hi
	slog.Debug("verif fit boundary", "model", m, "opts", k, "parallel", np, "KiB", hi)
	return hi
}

// schedModels installs (create) or opens the models in a real model store under dir (OLLAMA_MODELS): manifest + config
// blob + one tiny GGUF blob per model, so that GetModel - and therefore Server.scheduleRunner - works.  The scheduler
// orders eviction victims by model path, i.e. by blob digest: the GGUFs carry a nonce chosen so that the digests are
// ordered like the model indices (the Lean model orders by model index).
func schedModels(dir string, create bool) ([]*Model, error) {
	os.Setenv("OLLAMA_MODELS", dir)
	put := func(data []byte) (string, error) {
		d := fmt.Sprintf("sha256:%x", sha256.Sum256(data))
		p, err := GetBlobsPath(d)
		if err != nil {
			return "", err
		}
		return d, os.WriteFile(p, data, 0o644)
	}
	var ms []*Model
	prev := ""
	for i := 0; i < schedNModels; i++ {
		name := fmt.Sprintf("verif-m%d", i)
		if create {
			var gguf []byte
			for nonce := 0; ; nonce++ {
				f, err := os.CreateTemp(dir, "gguf")
				if err != nil {
					return nil, err
				}
				err = ggml.WriteGGUF(f, ggml.KV{
					"general.architecture":          "llama",
					"general.name":                  fmt.Sprintf("%s-%d", name, nonce),
					"llama.context_length":          uint32(32),
					"llama.embedding_length":        uint32(4096),
					"llama.block_count":             uint32(1),
					"llama.attention.head_count":    uint32(32),
					"llama.attention.head_count_kv": uint32(32),
					"tokenizer.ggml.tokens":         []string{" "},
					"tokenizer.ggml.scores":         []float32{0},
					"tokenizer.ggml.token_type":     []int32{0},
				}, []ggml.Tensor{
					{Name: "blk.0.attn.weight", Kind: uint32(0), Offset: uint64(0), Shape: []uint64{1, 1, 1, 1}, WriterTo: bytes.NewReader(make([]byte, 32))},
					// an output layer of 32 B / 1 MiB / 4 MiB (F32): with a sizeable one there are free-memory values at which
					// all layers and the output fit a GPU but the compute graph does not
					{Name: "output.weight", Kind: uint32(0), Offset: uint64(0), Shape: []uint64{uint64(schedOutputBytes[i] / 4)}, WriterTo: bytes.NewReader(make([]byte, schedOutputBytes[i]))},
				})
				f.Close()
				if err == nil {
					gguf, err = os.ReadFile(f.Name())
				}
				os.Remove(f.Name())
				if err != nil {
					return nil, err
				}
				if d := fmt.Sprintf("sha256:%x", sha256.Sum256(gguf)); d > prev {
					prev = d
					break
				}
			}
			md, err := put(gguf)
			if err != nil {
				return nil, err
			}
			cfg := []byte(`{"model_format":"gguf","model_family":"llama","model_families":["llama"],"model_type":"1B","file_type":"F32"}`)
			cd, err := put(cfg)
			if err != nil {
				return nil, err
			}
			man := fmt.Sprintf(`{"schemaVersion":2,"mediaType":"application/vnd.docker.distribution.manifest.v2+json","config":{"mediaType":"application/vnd.docker.container.image.v1+json","digest":%q,"size":%d},"layers":[{"mediaType":"application/vnd.ollama.image.model","digest":%q,"size":%d}]}`,
				cd, len(cfg), md, len(gguf))
			mp, err := ParseModelPath(name).GetManifestPath()
			if err != nil {
				return nil, err
			}
			if err := os.MkdirAll(filepath.Dir(mp), 0o755); err != nil {
				return nil, err
			}
			if err := os.WriteFile(mp, []byte(man), 0o644); err != nil {
				return nil, err
			}
		}
		m, err := GetModel(name)
		if err != nil {
			return nil, err
		}
		if schedGGML[i], err = llm.LoadModel(m.ModelPath, 0); err != nil {
			return nil, err
		}
		if len(ms) > 0 && ms[len(ms)-1].ModelPath >= m.ModelPath {
			return nil, fmt.Errorf("model paths are not ordered: %s %s", ms[len(ms)-1].ModelPath, m.ModelPath)
		}
		ms = append(ms, m)
	}
	return ms, nil
}

// schedChild: run the jobs of VERIF_SCHED_JOBS from index VERIF_SCHED_START on, appending records to VERIF_SCHED_RECS.
func schedChild(t *testing.T) {
	data, err := os.ReadFile(os.Getenv("VERIF_SCHED_JOBS"))
	if err != nil {
		t.Fatal(err)
	}
	jobs := strings.Split(strings.TrimRight(string(data), "\n"), "\n")
	start := zzverif.EnvInt("VERIF_SCHED_START", 0)
	t.Setenv("OLLAMA_MODELS", os.Getenv("VERIF_SCHED_MODELS")) // restored when the test ends
	models, err := schedModels(os.Getenv("VERIF_SCHED_MODELS"), false)
	if err != nil {
		t.Fatal(err)
	}
	f, err := os.OpenFile(os.Getenv("VERIF_SCHED_RECS"), os.O_WRONLY|os.O_APPEND|os.O_CREATE, 0o644)
	if err != nil {
		t.Fatal(err)
	}
	w := bufio.NewWriter(f)
	old := slog.Default()
	slog.SetDefault(slog.New(slog.NewTextHandler(io.Discard, &slog.HandlerOptions{Level: slog.Level(100)})))
	if lf := os.Getenv("VERIF_SCHED_LOG"); lf != "" {
		// debugging aid: the scheduler's own debug log (without wall-clock times) of every trace of this child
		if w, err := os.OpenFile(lf, os.O_WRONLY|os.O_APPEND|os.O_CREATE, 0o644); err == nil {
			defer w.Close()
			slog.SetDefault(slog.New(slog.NewTextHandler(w, &slog.HandlerOptions{Level: slog.LevelDebug,
				ReplaceAttr: func(_ []string, a slog.Attr) slog.Attr {
					if a.Key == slog.TimeKey {
						return slog.Attr{}
					}
					return a
				}})))
		}
	}
	defer slog.SetDefault(old)
	defer runtime.GOMAXPROCS(runtime.GOMAXPROCS(1))  // no parallelism inside the bubble: deterministic hand-offs
	defer debug.SetGCPercent(debug.SetGCPercent(-1)) // no GC workers perturbing the run queue inside a trace
	for _, k := range []string{"OLLAMA_MAX_LOADED_MODELS", "OLLAMA_MAX_QUEUE", "OLLAMA_KEEP_ALIVE", "OLLAMA_NUM_PARALLEL", "OLLAMA_SCHED_SPREAD"} {
		t.Setenv(k, "") // restored when the test ends
	}
	for idx := start; idx < len(jobs); idx++ {
		job := jobs[idx]
		if (idx-start)%64 == 63 {
			runtime.GC()
		}
		var cfg schedCfg
		var src schedSource
		if strings.HasPrefix(job, "gen ") {
			seed, _ := strconv.ParseUint(job[4:], 10, 64)
			g := newSchedGen(zzverif.NewRng(seed))
			cfg, src = g.cfg, g
		} else {
			c, evs, err := schedParse(job)
			if err != nil {
				fmt.Fprintf(w, "X\t%d\t%s\n", idx, strings.ReplaceAll(err.Error(), "\n", " "))
				fmt.Fprintf(w, "D\t%d\t1\n", idx)
				w.Flush()
				continue
			}
			cfg, src = c, &schedFixed{evs: evs}
			if os.Getenv("VERIF_EXTEND") != "" {
				src = newSchedExtend(evs, job)
			}
		}
		emit := func(res *schedResult) {
			fmt.Fprintf(w, "C\t%s\n", res.line)
			for _, l := range res.l2 {
				fmt.Fprintf(w, "L\t%s\t%s\t%s\n", l.kind, res.script, strings.Join(strings.Fields(l.detail), " "))
			}
			keys := make([]string, 0, len(res.stats))
			for k := range res.stats {
				keys = append(keys, k)
			}
			sort.Strings(keys)
			for _, k := range keys {
				fmt.Fprintf(w, "S\t%s\t%d\n", k, res.stats[k])
			}
			c := 0
			if res.clean {
				c = 1
			}
			fmt.Fprintf(w, "D\t%d\t%d\n", idx, c)
			w.Flush()
		}
		res := schedRunOne(t, models, cfg, src, func(res *schedResult) {
			emit(res)
			f.Close()
			os.Exit(0) // from inside the bubble: its goroutines cannot be made to exit
		})
		emit(res)
	}
	f.Close()
}

type schedRec struct {
	line   string
	script string
	l2     []schedL2
	stats  map[string]int
	clean  bool
	err    string
}

// schedRunJobs runs the jobs in child processes and returns one record per job.
func schedRunJobs(t *testing.T, testName string, dir string, jobs []schedJob) []schedRec {
	jf := filepath.Join(dir, "jobs.txt")
	var sb strings.Builder
	for _, j := range jobs {
		sb.WriteString(j.String())
		sb.WriteByte('\n')
	}
	if err := os.WriteFile(jf, []byte(sb.String()), 0o644); err != nil {
		t.Fatal(err)
	}
	recs := make([]schedRec, len(jobs))
	rf := filepath.Join(dir, "recs.txt")
	for start := 0; start < len(jobs); {
		os.Remove(rf)
		cmd := exec.Command(os.Args[0], "-test.run=^"+testName+"$", "-test.count=1",
			fmt.Sprintf("-test.timeout=%ds", 120+(len(jobs)-start)/50))
		cmd.Env = append(os.Environ(), "VERIF_SCHED_JOBS="+jf, "VERIF_SCHED_START="+strconv.Itoa(start),
			"VERIF_SCHED_RECS="+rf, "VERIF_SCHED_MODELS="+dir)
		outb, runErr := cmd.CombinedOutput()
		data, _ := os.ReadFile(rf)
		last := start - 1
		cur := schedRec{stats: map[string]int{}}
		for _, ln := range strings.Split(string(data), "\n") {
			f := strings.Split(ln, "\t")
			switch {
			case f[0] == "C" && len(f) == 2:
				cur.line = f[1]
			case f[0] == "L" && len(f) == 4:
				cur.script = f[2]
				cur.l2 = append(cur.l2, schedL2{f[1], f[3]})
			case f[0] == "S" && len(f) == 3:
				n, _ := strconv.Atoi(f[2])
				cur.stats[f[1]] += n
			case f[0] == "X" && len(f) == 3:
				cur.err = f[2]
			case f[0] == "D" && len(f) == 3:
				idx, _ := strconv.Atoi(f[1])
				cur.clean = f[2] == "1"
				if idx >= 0 && idx < len(recs) {
					recs[idx] = cur
					last = idx
				}
				cur = schedRec{stats: map[string]int{}}
			}
		}
		if last < start {
			// the child made no progress: trace `start` hangs or crashes the driver
			tail := string(outb)
			if dbg := os.Getenv("VERIF_SCHED_CHILDLOG"); dbg != "" {
				os.WriteFile(dbg, outb, 0o644)
			}
			if len(tail) > 3000 {
				tail = tail[len(tail)-3000:]
			}
			t.Fatalf("sched child made no progress on job %d (%s): %v\n%s", start, jobs[start], runErr, tail)
		}
		start = last + 1
	}
	return recs
}

func schedIsChild() bool { return os.Getenv("VERIF_SCHED_JOBS") != "" }

func schedEmit(out *zzverif.Out, recs []schedRec) {
	for _, rc := range recs {
		if rc.err != "" {
			out.Count("script_errors")
			continue
		}
		out.Case(rc.line, "ok")
		out.Count("traces")
		if !rc.clean {
			out.Count("traces_unclean_end")
		}
		for _, l := range rc.l2 {
			out.L2(l.kind, rc.script, l.detail)
			out.Count("l2_" + l.kind)
		}
		for k, v := range rc.stats {
			out.Add(k, v)
		}
	}
}

// schedRuntimeDeterminism reports whether the two places where the Go runtime is random ON PURPOSE have been made
// deterministic in this build (see the header comment): the poll order of select, and the firing order of fake-time
// timers that are due at the same instant.
func schedRuntimeDeterminism(t *testing.T) (sel, timers, maps bool) {
	mp := map[int]int{1: 1, 2: 2, 3: 3, 4: 4}
	firsts := map[int]bool{}
	for i := 0; i < 64; i++ {
		for k := range mp {
			firsts[k] = true
			break
		}
	}
	maps = len(firsts) == 1
	a, b := make(chan int, 1), make(chan int, 1)
	first := 0
	for i := 0; i < 64; i++ {
		a <- 1
		b <- 1
		select {
		case <-a:
			first++
			<-b
		case <-b:
			<-a
		}
	}
	sel = first == 0 || first == 64
	orders := map[string]bool{}
	for k := 0; k < 24; k++ {
		synctest.Test(t, func(t *testing.T) {
			got := make(chan string, 2)
			go func() { time.Sleep(time.Second); got <- "A" }()
			synctest.Wait() // A sleeps before B starts: the order in which the timers are created is fixed
			go func() { time.Sleep(time.Second); got <- "B" }()
			orders[<-got+<-got] = true
		})
	}
	return sel, len(orders) == 1, maps
}

func TestVerifSched(t *testing.T) {
	if schedIsChild() {
		schedChild(t)
		return
	}
	dir := t.TempDir()
	t.Setenv("OLLAMA_MODELS", dir)
	if _, err := schedModels(dir, true); err != nil {
		t.Fatal(err)
	}
	out := zzverif.NewOut()
	defer out.Close()
	if sel, tim, mp := schedRuntimeDeterminism(t); true {
		if sel {
			out.Count("runtime_select_deterministic")
		}
		if tim {
			out.Count("runtime_timer_ties_deterministic")
		}
		if mp {
			out.Count("runtime_map_iteration_deterministic")
		}
		if !sel || !tim || !mp {
			t.Logf("note: Go runtime randomisation is active (select=%v timer ties=%v map iteration=%v): 2-3 traces per 1000 can differ between runs", !sel, !tim, !mp)
		}
	}
	var jobs []schedJob
	if rp := os.Getenv("VERIF_REPLAY"); rp != "" {
		data, err := os.ReadFile(rp)
		if err != nil {
			t.Fatal(err)
		}
		for _, ln := range strings.Split(string(data), "\n") {
			if ln = strings.TrimSpace(ln); ln != "" {
				if _, _, err := schedParse(ln); err != nil {
					t.Fatalf("replay: %v", err)
				}
				jobs = append(jobs, schedJob{script: ln})
			}
		}
	} else {
		// regression corpus first: scripts on which model and scheduler once disagreed (VERIF_CORPUS=<dir>, *.txt, one script per line)
		if cd := os.Getenv("VERIF_CORPUS"); cd != "" {
			files, _ := filepath.Glob(filepath.Join(cd, "*.txt"))
			sort.Strings(files)
			for _, f := range files {
				data, _ := os.ReadFile(f)
				for _, ln := range strings.Split(string(data), "\n") {
					if ln = strings.TrimSpace(ln); ln != "" && !strings.HasPrefix(ln, "#") {
						if _, _, err := schedParse(ln); err != nil {
							t.Fatalf("corpus %s: %v", f, err)
						}
						jobs = append(jobs, schedJob{script: ln})
						out.Count("corpus_scripts")
					}
				}
			}
		}
		root := zzverif.NewRng(zzverif.Seed())
		n := zzverif.EnvInt("VERIF_N", 300)
		for i := 0; i < n; i++ {
			jobs = append(jobs, schedJob{gen: true, seed: root.Fork().U64()})
		}
	}
	recs := schedRunJobs(t, "TestVerifSched", dir, jobs)
	schedEmit(out, recs)
	if os.Getenv("VERIF_SHRINK") != "" {
		schedShrinkAll(t, dir, recs)
	}
}
