package server

// Verification driver for C19 (chatPrompt keeps the newest messages that fit, system messages,
// each image once).  Added to the package at build time with `go test -overlay`; never
// committed to /repo.
//
// Every case is fully described by its oracle command line (`chat …`), so a replay is the raw
// line.  The driver
//   - evaluates the REAL template + tokenizer on every suffix the loop may consider and sends the
//     resulting cost vector on the command line,
//   - calls the REAL chatPrompt on a fresh copy of the conversation,
//   - L1: prints the observable result (tokenizer calls, images, contents of all messages after
//     the in-place rewrite, prompt string) exactly like the Lean oracle,
//   - L2: evaluates every clause of the property directly on the real output, independently of
//     the model (the specification of "the retained run" is computed from the real cost vector).

import (
	"bytes"
	"context"
	"encoding/binary"
	"encoding/json"
	"errors"
	"fmt"
	"image"
	"image/png"
	"os"
	"regexp"
	"slices"
	"strconv"
	"strings"
	"testing"

	"github.com/ollama/ollama/api"
	"github.com/ollama/ollama/model/models/mllama"
	"github.com/ollama/ollama/template"
	"github.com/ollama/ollama/zzverif"
)

const (
	c19StyleMessages = 0 // {{.System}} header + non-system messages
	c19StyleLegacy   = 1 // {{.System}} {{.Prompt}} {{.Response}}
	c19StyleDefault  = 2 // {{ .Prompt }}
	c19StyleInPlace  = 3 // every message, system ones included, in place
	c19StyleTools    = 4 // the request's tools, then every message in place
)

var c19TemplateSrc = []string{
	`{{if .System}}S<{{.System}}>{{end}}{{range .Messages}}{{if ne .Role "system"}}[{{.Role}}|{{.Content}}]{{end}}{{end}}`,
	`
{{- if .System }}{{ .System }} {{ end }}
{{- if .Prompt }}{{ .Prompt }} {{ end }}
{{- if .Response }}{{ .Response }} {{ end }}`,
	`{{ .Prompt }}`,
	`{{range .Messages}}[{{.Role}}|{{.Content}}]{{end}}`,
	`{{if .Tools}}T<{{.Tools}}>
{{end}}{{range .Messages}}[{{.Role}}|{{.Content}}]{{end}}`,
}

// real templates shipped in /repo/template, styles 4, 5, …: the oracle does not render these
// (prompt and cost cross-check are reported as `?`); the cost vector still comes from the real
// template, and L2 compares the prompt with the real template applied to the specified input.
var c19RealTemplates = []string{"chatml", "llama3-instruct", "alpaca", "mistral-instruct", "gemma-instruct", "llama2-chat", "command-r"}

type c19Img struct {
	src int
	ok  bool
}

type c19Msg struct {
	role    string // s u a t o
	content string
	imgs    []c19Img
}

type c19Case struct {
	mllama  bool
	proj    int // 0 nil, 1 empty non-nil, 2 non-empty
	limit   int
	style   int    // 0-3 harness templates, 4.. shipped templates, -1 generated (src)
	src     string // template source when style < 0
	mode    int    // tokenizer: 0 fields, 1 bytes
	tokFail int    // 1 + the index i whose measurement makes the tokenizer fail (0: never); carried by the cost vector as K
	msgs    []c19Msg
	tools   api.Tools // the request's tools: part of every candidate render and of the final one

	tm  *template.Template // parsed lazily
	ast string             // serialised parse tree ("X" = outside the modelled subset)
}

const c19StyleGenerated = -1

var c19RoleNames = map[string]string{"s": "system", "u": "user", "a": "assistant", "t": "tool", "o": "control"}

type c19Env struct {
	tmpl     []*template.Template
	pool     [][]byte // decodable PNGs, src = 1000+idx
	poolPre  [][]byte // their mllama.Preprocess output, serialised as chatPrompt does
	poolAR   []int
	srcs     []string
	pairs    *os.File
	npairs   int
	maxPairs int
	sanitizeSpec bool // apiMsgs returns sanitised contents (specification side on an F5-repaired tree)
	fixed    int // variant of the tree under test: f4fixed + 2*lmode + 8*efix + 16*f5fixed (see the oracle)
	probeOdd int // probes that matched neither variant
}

// tmplOf parses (once) and serialises the case's template with the real template.Parse.
func (e *c19Env) tmplOf(c *c19Case) *template.Template {
	if c.tm == nil {
		if c.style >= 0 {
			c.tm = e.tmpl[c.style]
			c.src = e.srcs[c.style]
		} else {
			tm, err := template.Parse(c.src)
			if err != nil {
				panic(fmt.Sprintf("generated template does not parse: %v: %q", err, c.src))
			}
			c.tm = tm
		}
		c.ast, _ = c19Serialise(c.tm)
	}
	return c.tm
}

func c19NewEnv(t *testing.T) *c19Env {
	e := &c19Env{}
	for _, s := range c19TemplateSrc {
		tm, err := template.Parse(s)
		if err != nil {
			t.Fatal(err)
		}
		e.tmpl = append(e.tmpl, tm)
		e.srcs = append(e.srcs, s)
	}
	for _, name := range c19RealTemplates {
		src, err := os.ReadFile("../template/" + name + ".gotmpl")
		if err != nil {
			t.Fatalf("real template %s: %v", name, err)
		}
		text := strings.ReplaceAll(string(src), "\r\n", "\n")
		tm, err := template.Parse(text)
		if err != nil {
			t.Fatalf("real template %s: %v", name, err)
		}
		e.tmpl = append(e.tmpl, tm)
		e.srcs = append(e.srcs, text)
	}
	for _, sz := range [][2]int{{5, 5}, {6, 3}, {2, 7}} {
		img := image.NewRGBA(image.Rect(0, 0, sz[0], sz[1]))
		for i := range img.Pix {
			img.Pix[i] = byte(i*7 + sz[0])
		}
		var buf bytes.Buffer
		if err := png.Encode(&buf, img); err != nil {
			t.Fatal(err)
		}
		e.pool = append(e.pool, buf.Bytes())
		data, opts, err := mllama.Preprocess(bytes.NewReader(buf.Bytes()))
		if err != nil {
			t.Fatal(err)
		}
		b := new(bytes.Buffer)
		if err := binary.Write(b, binary.LittleEndian, data); err != nil {
			t.Fatal(err)
		}
		e.poolPre = append(e.poolPre, b.Bytes())
		e.poolAR = append(e.poolAR, opts["aspectRatioIndex"].(int))
	}
	// Tie-1 style fact: which variant is the tree under test?  (F4 probe.)
	probe := c19Case{style: c19StyleLegacy, limit: 1, msgs: []c19Msg{
		{role: "u", content: "long long long"}, {role: "s", content: "SYS"}, {role: "u", content: "hi"}}}
	r := e.runReal(&probe)
	switch r.prompt {
	case "hi ":
		e.fixed = 0
	case "SYS hi ":
		e.fixed = 1
	default:
		// neither variant: carry on as "pinned" so that L1/L2 produce concrete failing inputs
		t.Logf("C19 variant probe: unexpected prompt %q (err=%v)", r.prompt, r.err)
		e.probeOdd++
	}
	// same for the legacy template loop (F4b probe): bit 1 of the variant
	probe = c19Case{style: c19StyleLegacy, limit: 2048, msgs: []c19Msg{
		{role: "u", content: "hello"}, {role: "a", content: ""}, {role: "u", content: "again"}}}
	r = e.runReal(&probe)
	switch r.prompt {
	case "again ":
	case "hello again ":
		e.fixed |= 2 // lmode 1: flush repair
	case "hello\n\nagain ":
		e.fixed |= 4 // lmode 2: join repair
	default:
		t.Logf("C19 legacy variant probe: unexpected prompt %q (err=%v)", r.prompt, r.err)
		e.probeOdd++
	}
	// deleteNode else-list (F4c probe): bit 3
	probe = c19Case{style: c19StyleGenerated, src: `{{ .Prompt }}{{ if .System }}{{ .Response }}{{ else }}x{{ end }}`, limit: 2048,
		msgs: []c19Msg{{role: "u", content: "hi"}}}
	r = e.runReal(&probe)
	switch {
	case r.panicked != "":
	case r.err == nil && r.prompt == "hi":
		e.fixed |= 8
	default:
		t.Logf("C19 cut variant probe: unexpected prompt %q (err=%v)", r.prompt, r.err)
		e.probeOdd++
	}
	// literal image tag in the text (F5 probe): bit 4.  Repaired = chatPrompt neutralises `[img-` in every
	// incoming content first (proposed_fixes/C19-F5-literal-image-tag.patch)
	probe = c19Case{style: c19StyleInPlace, limit: 2048, proj: 2, msgs: []c19Msg{{role: "u", content: "see [img-0]", imgs: []c19Img{{1, true}}}}}
	r = e.runReal(&probe)
	switch r.prompt {
	case "[user|[img-0]see [img-0]]":
	case "[user|[img-0]see [img -0]]":
		e.fixed |= 16
	default:
		t.Logf("C19 literal-tag variant probe: unexpected prompt %q (err=%v)", r.prompt, r.err)
		e.probeOdd++
	}
	return e
}

func (e *c19Env) imgBytes(im c19Img) []byte {
	if !im.ok {
		return []byte(fmt.Sprintf("BAD:%d", im.src))
	}
	if im.src >= 1000 {
		return e.pool[(im.src-1000)%len(e.pool)]
	}
	return []byte(fmt.Sprintf("IMG:%d", im.src))
}

func (e *c19Env) apiMsgs(c *c19Case) []api.Message {
	out := make([]api.Message, len(c.msgs))
	for i, m := range c.msgs {
		out[i] = api.Message{Role: c19RoleNames[m.role], Content: m.content}
		if e.fixed&16 != 0 && e.sanitizeSpec {
			// repaired tree: what the specification renders / measures is the sanitised text (the real chatPrompt
			// gets the raw text: runReal switches this off)
			out[i].Content = strings.ReplaceAll(m.content, "[img-", "[img -")
		}
		for _, im := range m.imgs {
			out[i].Images = append(out[i].Images, api.ImageData(e.imgBytes(im)))
		}
	}
	return out
}

func (e *c19Env) model(c *c19Case) *Model {
	m := &Model{Template: e.tmplOf(c)}
	switch c.proj {
	case 1:
		m.ProjectorPaths = []string{}
	case 2:
		m.ProjectorPaths = []string{"vision"}
	}
	if c.mllama {
		m.Config = ConfigV2{ModelFamilies: []string{"mllama"}}
	}
	return m
}

func c19Tokens(mode int, s string) int {
	if mode == 1 {
		return len(s)
	}
	n, in := 0, false
	for i := 0; i < len(s); i++ {
		if s[i] == ' ' || s[i] == '\n' {
			in = false
		} else if !in {
			in = true
			n++
		}
	}
	return n
}

// costs[i] = tokens of the real template on system(i) ++ msgs[i:], for 0 <= i < L-1;
// -1 = Execute returned an error, -2 = Execute panicked.
func (e *c19Env) costs(c *c19Case) []int {
	var out []int
	tm := e.tmplOf(c)
	for i := 0; i+1 < len(c.msgs); i++ {
		msgs := e.apiMsgs(c)
		var in []api.Message
		for j := 0; j < i; j++ {
			if msgs[j].Role == "system" {
				in = append(in, msgs[j])
			}
		}
		in = append(in, msgs[i:]...)
		x := c19Measure(tm, c.mode, in, c.tools)
		if c.tokFail > 0 && i == c.tokFail-1 && x >= 0 {
			x = -3
		}
		out = append(out, x)
	}
	return out
}

func c19Measure(tm *template.Template, mode int, in []api.Message, tools api.Tools) (n int) {
	defer func() {
		if r := recover(); r != nil {
			n = -2
		}
	}()
	var b bytes.Buffer
	if err := tm.Execute(&b, template.Values{Messages: in, Tools: tools}); err != nil {
		return -1
	}
	return c19Tokens(mode, b.String())
}

type c19Real struct {
	panicked string
	err      error
	prompt   string
	images   []struct {
		id, ar int
		data   []byte
	}
	msgs  []api.Message // after the call
	calls int
	tokIn []string // what the tokenizer was called with, in order
}

func (e *c19Env) runReal(c *c19Case) (r c19Real) {
	spec := e.sanitizeSpec
	e.sanitizeSpec = false
	r.msgs = e.apiMsgs(c)
	e.sanitizeSpec = spec
	tok := func(_ context.Context, s string) ([]int, error) {
		r.calls++
		r.tokIn = append(r.tokIn, s)
		// call number k measures index L-1-k
		if c.tokFail > 0 && len(c.msgs)-1-r.calls == c.tokFail-1 {
			return nil, errors.New("c19: tokenizer failure")
		}
		return make([]int, c19Tokens(c.mode, s)), nil
	}
	opts := api.Options{Runner: api.Runner{NumCtx: c.limit}}
	func() {
		defer func() {
			if p := recover(); p != nil {
				r.panicked = fmt.Sprint(p)
			}
		}()
		prompt, images, err := chatPrompt(context.Background(), e.model(c), tok, &opts, r.msgs, c.tools)
		r.prompt, r.err = prompt, err
		for _, im := range images {
			r.images = append(r.images, struct {
				id, ar int
				data   []byte
			}{im.ID, im.AspectRatioID, im.Data})
		}
	}()
	return r
}

func (c *c19Case) opLine(fixed int, costs []int) string {
	var sb strings.Builder
	b2i := func(b bool) int {
		if b {
			return 1
		}
		return 0
	}
	fmt.Fprintf(&sb, "chat %d %d %d %d %d %s %s %d", fixed, b2i(c.mllama), c.proj, c.limit, c.mode, zzverif.Hex([]byte(c.src)), c.ast+fmt.Sprintf(" %d %s", len(c.tools), zzverif.Hex([]byte(c.tools.String()))), len(c.msgs))
	for _, m := range c.msgs {
		fmt.Fprintf(&sb, " %s %s %d", m.role, zzverif.Hex([]byte(m.content)), len(m.imgs))
		for _, im := range m.imgs {
			fmt.Fprintf(&sb, " %d %d", im.src, b2i(im.ok))
		}
	}
	fmt.Fprintf(&sb, " %d", len(costs))
	for _, x := range costs {
		switch x {
		case -1:
			sb.WriteString(" E")
		case -2:
			sb.WriteString(" P")
		case -3:
			sb.WriteString(" K")
		default:
			fmt.Fprintf(&sb, " %d", x)
		}
	}
	return sb.String()
}

func c19ParseLine(line string) (*c19Case, error) {
	f := strings.Fields(line)
	p := 0
	next := func() string {
		if p >= len(f) {
			panic("short line")
		}
		p++
		return f[p-1]
	}
	num := func() int {
		v, err := strconv.Atoi(next())
		if err != nil {
			panic(err)
		}
		return v
	}
	c := &c19Case{}
	var perr error
	func() {
		defer func() {
			if r := recover(); r != nil {
				perr = fmt.Errorf("%v", r)
			}
		}()
		if next() != "chat" {
			panic("not a chat line")
		}
		_ = num() // fixed: decided by the tree under test
		c.mllama = num() != 0
		c.proj = num()
		c.limit = num()
		c.mode = num()
		c.src = string(zzverif.Unhex(next()))
		c.style = c19StyleGenerated // resolved against the known sources by the caller
		// skip the serialised tree: it is regenerated from the source
		if next() == "T" {
			var skipNodes func()
			skipExpr := func() {}
			skipExpr = func() {
				switch next() {
				case "f", "v", "s":
					next()
				case "not":
					skipExpr()
				default: // eq ne and or
					skipExpr()
					skipExpr()
				}
			}
			skipNodes = func() {
				for k := num(); k > 0; k-- {
					switch next() {
					case "T":
						next()
					case "A":
						skipExpr()
					default: // I, R
						skipExpr()
						skipNodes()
						num()
						skipNodes()
					}
				}
			}
			skipNodes()
		}
		if nt := num(); nt > 0 {
			if err := json.Unmarshal(zzverif.Unhex(next()), &c.tools); err != nil {
				panic(err)
			}
		} else {
			next()
		}
		n := num()
		for i := 0; i < n; i++ {
			m := c19Msg{role: next()}
			m.content = string(zzverif.Unhex(next()))
			k := num()
			for j := 0; j < k; j++ {
				src := num()
				m.imgs = append(m.imgs, c19Img{src: src, ok: num() != 0})
			}
			c.msgs = append(c.msgs, m)
		}
		// the cost vector is re-measured; only the injected tokenizer failure is part of the case
		if p < len(f) {
			for i, k := 0, num(); i < k; i++ {
				if next() == "K" {
					c.tokFail = i + 1
				}
			}
		}
	}()
	return c, perr
}

// identify returned image data: (src, pre) or ok=false
func (e *c19Env) identify(data []byte) (src int, pre bool, ok bool) {
	s := string(data)
	if strings.HasPrefix(s, "IMG:") || strings.HasPrefix(s, "BAD:") {
		v, err := strconv.Atoi(s[4:])
		return v, false, err == nil
	}
	for i := range e.pool {
		if bytes.Equal(data, e.pool[i]) {
			return 1000 + i, false, true
		}
		if bytes.Equal(data, e.poolPre[i]) {
			return 1000 + i, true, true
		}
	}
	return 0, false, false
}

func (e *c19Env) implLine(c *c19Case, r *c19Real) string {
	if r.panicked != "" {
		if strings.Contains(r.panicked, "slice bounds out of range [-1:]") {
			return "panic:empty"
		}
		if strings.Contains(r.panicked, "parse.Node is nil, not *parse.ListNode") {
			return "panic:template-cut"
		}
		return "panic:other:" + strings.ReplaceAll(r.panicked, " ", "_")
	}
	if r.err != nil {
		switch {
		case errors.Is(r.err, errTooManyImages):
			return "err:too-many-images"
		case strings.Contains(r.err.Error(), "failed to decode image"):
			return "err:preprocess"
		case strings.HasPrefix(r.err.Error(), "template:"):
			return "err:template"
		case r.err.Error() == "c19: tokenizer failure":
			return "err:tokenize"
		}
		return "err:other:" + strings.ReplaceAll(r.err.Error(), " ", "_")
	}
	var imgs []string
	for _, im := range r.images {
		src, pre, ok := e.identify(im.data)
		if !ok {
			imgs = append(imgs, fmt.Sprintf("%d:?:?", im.id))
			continue
		}
		p := 0
		if pre {
			p = 1
		}
		imgs = append(imgs, fmt.Sprintf("%d:%d:%d", im.id, src, p))
	}
	is := "-"
	if len(imgs) > 0 {
		is = strings.Join(imgs, ",")
	}
	var ms []string
	for _, m := range r.msgs {
		ms = append(ms, zzverif.Hex([]byte(m.Content)))
	}
	if c.ast == "X" {
		return fmt.Sprintf("ok q=%d imgs=%s msgs=%s prompt=? costs=? tok=?", r.calls, is, strings.Join(ms, ";"))
	}
	toks := "-"
	if len(r.tokIn) > 0 {
		var ls []string
		for _, x := range r.tokIn {
			ls = append(ls, strconv.Itoa(len(x)))
		}
		toks = strings.Join(ls, ",")
	}
	return fmt.Sprintf("ok q=%d imgs=%s msgs=%s prompt=%s costs=ok tok=%s", r.calls, is, strings.Join(ms, ";"), zzverif.Hex([]byte(r.prompt)), toks)
}

func c19Rendered(style int, role string) bool {
	switch style {
	case c19StyleLegacy:
		return role == "s" || role == "u" || role == "a"
	case c19StyleDefault:
		return role == "u" || role == "a"
	}
	return true
}

func c19Clip(s string) string {
	if len(s) > 120 {
		return s[:120] + "…"
	}
	return s
}

func c19Marker(j int) string { return fmt.Sprintf("m%dq", j) }

// l2 evaluates the property on the real result.  Messages built by the generator start with the
// unique word m<j>q; clauses about a message are only evaluated if its content carries its marker.
func (e *c19Env) l2(out *zzverif.Out, c *c19Case, costs []int, r *c19Real, line string) {
	if strings.Contains(r.panicked, "parse.Node is nil, not *parse.ListNode") {
		// no prompt at all: the template layer panics on a template that parses fine
		out.L2("template-panic", line, "deleteNode else-list: chatPrompt panics in template.Execute: "+c19Clip(r.panicked))
	}
	// (T) what the tokenizer is asked to measure: call k must be the real template applied to
	// system(i) ++ msgs[i:] for i = L-1-k WITH the request's tools — the same Values the final prompt
	// is rendered from (independent render by the driver on a fresh copy of the conversation).
	if r.panicked == "" {
		for k, got := range r.tokIn {
			i := len(c.msgs) - 2 - k
			if i < 0 {
				out.L2("candidate-render", line, fmt.Sprintf("tokenizer call %d has no candidate (conversation of %d messages)", k+1, len(c.msgs)))
				break
			}
			msgs := e.apiMsgs(c)
			var in []api.Message
			for j := 0; j < i; j++ {
				if msgs[j].Role == "system" {
					in = append(in, msgs[j])
				}
			}
			in = append(in, msgs[i:]...)
			var b bytes.Buffer
			if err := e.tmplOf(c).Execute(&b, template.Values{Messages: in, Tools: c.tools}); err != nil {
				break
			}
			if b.String() != got {
				out.L2("candidate-render", line, fmt.Sprintf("tokenizer call %d measured %d bytes (%d tokens); the candidate system(<%d) ++ msgs[%d:] with the request's %d tools renders to %d bytes (%d tokens)",
					k+1, len(got), c19Tokens(c.mode, got), i, i, len(c.tools), b.Len(), c19Tokens(c.mode, b.String())))
				break
			}
			out.Count("l2_candidate_render_checked")
		}
	}
	if r.panicked != "" || r.err != nil {
		return
	}
	L := len(c.msgs)
	if L == 0 {
		// the pinned code panics on an empty conversation (callers never pass one); nothing to keep
		out.Count("empty_conversation_returned")
		return
	}
	imgTok := 768
	if c.mllama {
		imgTok = 1
	}
	fitsAt := func(i int) bool {
		t := costs[i]
		if c.proj != 0 {
			for _, m := range c.msgs[i:] {
				t += imgTok * len(m.imgs)
			}
		}
		return t <= c.limit
	}
	// specification of the retained run: the longest suffix all of whose shorter suffixes
	// (down to two messages) fit; the latest message alone if nothing more fits.
	n := L - 1
	for n > 0 && fitsAt(n-1) {
		n--
	}
	any := L - 1 // longest suffix that fits, without the "all shorter ones" condition
	for i := 0; i < L-1; i++ {
		if costs[i] >= 0 && fitsAt(i) { // a negative entry is a failed measurement (never visited by this call), not a cost
			any = i
			break
		}
	}
	if any != n {
		// a longer run than the retained one fits: the walk stopped at the first over-budget candidate (what the
		// code guarantees for every cost, `cut_is_spec`); the statement's "longest run that fits" reading fails here
		out.Count("spec_nonmonotone_cost")
		switch {
		case c.style >= 0 && c.style < len(c19TemplateSrc):
			out.Count(fmt.Sprintf("spec_nonmonotone_cost_harness_style_%d_tokenizer_%d", c.style, c.mode))
		case c.style >= len(c19TemplateSrc):
			out.Count("spec_nonmonotone_cost_shipped_template_" + c19RealTemplates[c.style-len(c19TemplateSrc)])
		default:
			out.Count("spec_nonmonotone_cost_generated_template")
		}
	}
	out.Count(fmt.Sprintf("kept_%s", map[bool]string{true: "all", false: "some"}[n == 0]))
	if n == L-1 && L > 1 {
		out.Count("kept_latest_only")
	}
	// (0) template-agnostic form of "latest kept, retained run, system messages kept": the prompt
	// is the real template applied to [system messages before n] ++ msgs[n:] (contents as
	// rewritten by the real call; the rewrite itself is checked by the image clauses below).
	specRender := func(sysUpTo int) string {
		var in []api.Message
		for j := 0; j < sysUpTo; j++ {
			if r.msgs[j].Role == "system" {
				in = append(in, r.msgs[j])
			}
		}
		in = append(in, r.msgs[n:]...)
		var b bytes.Buffer
		if err := e.tmplOf(c).Execute(&b, template.Values{Messages: in, Tools: c.tools}); err != nil {
			return "<execute error: " + err.Error() + ">"
		}
		return b.String()
	}
	// Finding F6 (the statement's "longest recent run that fits" vs the walk's "stop at the first over-budget candidate"):
	// a longer recent run than the retained one fits.  Reported (kind not-longest-fitting-run) exactly when the real
	// prompt IS the first-failure one and the measured totals are non-monotone — the detail carries them; a prompt that
	// is not the first-failure one is reported by the clauses below, unlabelled.
	if any != n && specRender(n) == r.prompt {
		totalAt := func(i int) int {
			t := costs[i]
			if c.proj != 0 {
				for _, m := range c.msgs[i:] {
					t += imgTok * len(m.imgs)
				}
			}
			return t
		}
		kept := "the latest message alone (never measured)"
		if n < L-1 {
			kept = fmt.Sprintf("run [%d:] measured %d", n, totalAt(n))
		}
		if totalAt(n-1) > c.limit && totalAt(any) <= c.limit && any < n-1 {
			out.L2("not-longest-fitting-run", line, fmt.Sprintf("non-monotone measured total: num_ctx %d; retained %s; the walk stopped at candidate [%d:] measured %d (over budget); the longer run [%d:] measures %d and fits (style=%d tokenizer=%d)", c.limit, kept, n-1, totalAt(n-1), any, totalAt(any), c.style, c.mode))
		} else {
			out.L2("not-longest-fitting-run", line, fmt.Sprintf("a longer run [%d:] fits than the retained [%d:] and the measured totals do not explain it", any, n))
		}
	}
	if want := specRender(n); want != r.prompt {
		if n > 0 && c.msgs[n-1].role == "s" && specRender(n-1) == r.prompt {
			out.L2("system-dropped", line, fmt.Sprintf("at-cut style=%d render: the prompt is the template applied without system message %d, which immediately precedes the retained run [%d:]", c.style, n-1, n))
		} else {
			out.L2("prompt-not-spec-render", line, fmt.Sprintf("style=%d: prompt %q differs from the template applied to system(<%d) ++ msgs[%d:] = %q", c.style, c19Clip(r.prompt), n, n, c19Clip(want)))
		}
	} else {
		out.Count("l2_prompt_equals_spec_render")
	}
	// (F) the prompt that is sent fits: whenever more than the latest message is retained, the real
	// tokenizer on the real final prompt gives at most num_ctx (conversations without images: the
	// contents are not rewritten, so the final prompt is one of the measured candidates).
	convImages := 0
	for _, m := range c.msgs {
		convImages += len(m.imgs)
	}
	if convImages == 0 {
		var in []api.Message
		for j := 0; j < L-1; j++ {
			if r.msgs[j].Role == "system" {
				in = append(in, r.msgs[j])
			}
		}
		in = append(in, r.msgs[L-1])
		var b bytes.Buffer
		if err := e.tmplOf(c).Execute(&b, template.Values{Messages: in, Tools: c.tools}); err == nil && b.String() != r.prompt {
			out.Count("l2_final_prompt_fits_evaluated")
			if got := c19Tokens(c.mode, r.prompt); got > c.limit {
				out.L2("final-prompt-exceeds-limit", line, fmt.Sprintf("more than the latest message is retained but the prompt has %d tokens, num_ctx is %d (request with %d tools, %d bytes of tools JSON)", got, c.limit, len(c.tools), len(c.tools.String())))
			}
		}
	}
	generic := c.style > c19StyleTools || c.style < 0
	// templates outside the harness set: the marker clauses apply when the SOURCE shows that the
	// content of every message is printed unconditionally inside a range over the messages
	// (syntactic analysis of the parse tree, independent of Execute/Vars)
	rendersAll := generic && c.ast != "X" && c19RendersAllContent(e.tmplOf(c)) // inside the subset: no continue/break/variables
	if rendersAll {
		out.Count("l2_marker_clauses_on_generated_or_shipped_template")
	}
	hasMarker := func(j int) bool { return strings.Contains(c.msgs[j].content, c19Marker(j)) }
	literalTag := false
	for _, m := range c.msgs {
		if strings.Contains(m.content, "[img-") {
			literalTag = true
		}
	}
	cnt := func(j int) int { return strings.Count(r.prompt, c19Marker(j)) }
	// Diagnosis for the legacy (non-messages) template path only, used to label failures for
	// known-finding matching (it never turns a failure into a pass): replay which pending
	// system/prompt/response slot the pinned legacy loop overwrites, without rendering it, on the
	// list the specification says the template must receive (system messages before n, then
	// msgs[n:], contents as rewritten by the real call).  lost[j] = message that overwrote j.
	lost := map[int]int{}
	if c.style == c19StyleLegacy || c.style == c19StyleDefault {
		type slot struct {
			content string
			idx     []int
		}
		var groups []struct {
			role string
			slot
		}
		add := func(j int) {
			role, content := c.msgs[j].role, r.msgs[j].Content
			if k := len(groups); k > 0 && groups[k-1].role == role {
				groups[k-1].content += "\n\n" + content
				groups[k-1].idx = append(groups[k-1].idx, j)
				return
			}
			groups = append(groups, struct {
				role string
				slot
			}{role, slot{content, []int{j}}})
		}
		for j := 0; j < n; j++ {
			if c.msgs[j].role == "s" {
				add(j)
			}
		}
		for j := n; j < L; j++ {
			add(j)
		}
		var sys, prompt, resp slot
		flush := func() { sys, prompt, resp = slot{}, slot{}, slot{} }
		write := func(dst *slot, g slot) {
			if dst.content != "" {
				for _, j := range dst.idx {
					lost[j] = g.idx[0]
				}
			}
			*dst = g
		}
		for _, g := range groups {
			switch g.role {
			case "s":
				if prompt.content != "" || resp.content != "" {
					flush()
				}
				write(&sys, g.slot)
			case "u":
				if resp.content != "" {
					flush()
				}
				write(&prompt, g.slot)
			case "a":
				write(&resp, g.slot)
			}
		}
	}
	overwrittenBy := func(j int) int {
		if k, ok := lost[j]; ok {
			return k
		}
		return -1
	}
	why := func(j int) string {
		if k := overwrittenBy(j); k >= 0 {
			return fmt.Sprintf(" legacy-overwritten-by=%d", k)
		}
		return ""
	}

	// (a) latest kept
	if rendersAll && hasMarker(L-1) && cnt(L-1) == 0 {
		out.L2("latest-dropped", line, fmt.Sprintf("marker %s of the latest message not in the prompt although the template prints every message's content", c19Marker(L-1)))
	}
	if rendersAll {
		for j := 0; j < L; j++ {
			if !hasMarker(j) {
				continue
			}
			switch k := cnt(j); {
			case j >= n && k == 0:
				out.L2("retained-missing", line, fmt.Sprintf("generated/shipped template printing every content: message %d (role %s) of the retained run [%d:] is not in the prompt", j, c.msgs[j].role, n))
			case j < n && c.msgs[j].role != "s" && k != 0:
				out.L2("dropped-present", line, fmt.Sprintf("generated/shipped template: message %d precedes the retained run [%d:] but occurs %d times in the prompt", j, n, k))
			}
		}
	}
	if !generic && hasMarker(L-1) && c19Rendered(c.style, c.msgs[L-1].role) && cnt(L-1) == 0 {
		out.L2("latest-dropped", line, fmt.Sprintf("marker %s of the latest message not in the prompt", c19Marker(L-1)))
	}
	// (b) retained = msgs[n:], once each, in order; dropped non-system messages absent
	last := -1
	for j := 0; j < L; j++ {
		if generic || !hasMarker(j) || !c19Rendered(c.style, c.msgs[j].role) {
			continue
		}
		k := cnt(j)
		sys := c.msgs[j].role == "s"
		switch {
		case j >= n && k != 1:
			out.L2("retained-missing", line, fmt.Sprintf("style=%d%s: message %d (role %s) of the retained run [%d:] occurs %d times in the prompt", c.style, why(j), j, c.msgs[j].role, n, k))
		case j < n && !sys && k != 0:
			out.L2("dropped-present", line, fmt.Sprintf("message %d precedes the retained run [%d:] but occurs %d times in the prompt", j, n, k))
		case j < n && sys && k != 1:
			// (c) every system message before the retained run is in the prompt
			where := "before-cut"
			if j == n-1 {
				where = "at-cut"
			}
			out.L2("system-dropped", line, fmt.Sprintf("%s style=%d%s: system message %d precedes the retained run [%d:] and occurs %d times in the prompt", where, c.style, why(j), j, n, k))
		}
		if k == 1 && !(sys && c.style == c19StyleMessages) {
			pos := strings.Index(r.prompt, c19Marker(j))
			if pos < last {
				out.L2("order", line, fmt.Sprintf("message %d appears before an earlier message", j))
			}
			last = pos
		}
	}
	// (d)(e) images: exactly the retained messages' images, in order, ids = positions, each tag once
	type exp struct {
		msg int
		im  c19Img
	}
	var want []exp
	for j := n; j < L; j++ {
		for _, im := range c.msgs[j].imgs {
			want = append(want, exp{j, im})
		}
	}
	if len(r.images) != len(want) {
		out.L2("image-count", line, fmt.Sprintf("%d images returned, retained run [%d:] has %d", len(r.images), n, len(want)))
	}
	preproc := c.mllama && c.proj == 2
	for k, im := range r.images {
		if im.id != k {
			out.L2("image-id", line, fmt.Sprintf("image at position %d has ID %d", k, im.id))
		}
		src, pre, ok := e.identify(im.data)
		if k < len(want) && (!ok || src != want[k].im.src || pre != preproc) {
			out.L2("image-data", line, fmt.Sprintf("image %d is src=%d pre=%v ok=%v, want src=%d pre=%v", k, src, pre, ok, want[k].im.src, preproc))
		}
		if ok && pre && im.ar != e.poolAR[src-1000] {
			out.L2("image-aspect", line, fmt.Sprintf("image %d aspect ratio id %d, want %d", k, im.ar, e.poolAR[src-1000]))
		}
		// images of dropped messages are not sent (sources below 1000 are unique per conversation)
		if ok && src < 1000 {
			for j := 0; j < n; j++ {
				for _, d := range c.msgs[j].imgs {
					if d.src == src {
						out.L2("dropped-image-sent", line, fmt.Sprintf("image src=%d of dropped message %d returned at position %d", src, j, k))
					}
				}
			}
		}
	}
	// typed[N] = how often the TEXT of the conversation makes the prompt mention image N, exactly as the runner
	// reads it: the matches of `\[img-(\d+)\]` in the real template applied to system(<n) ++ msgs[n:] with the
	// ORIGINAL contents (before chatPrompt writes its own tags; on an F5-repaired tree: after its sanitising) — typed
	// tags, unfinished typed tags completed by template text, leading zeros.  chatPrompt's own tags start with `[`
	// and are inserted at the front / in place of `[img]`, so they neither create nor destroy such a match.
	// Finding F5: a failure is labelled iff it is EXACTLY what these typed mentions explain (the label is for
	// known-finding matching; it never turns a failure into a pass).
	const label = "literal image tag in message text: "
	typed, typedKnown := e.typedMentions(c, n)
	if literalTag {
		out.Count("l2_literal_tag_in_text_evaluated")
	}
	if len(typed) > 0 {
		out.Count("l2_typed_tag_reaches_prompt")
	}
	origContent := e.apiMsgs(c)
	for k, w := range want {
		tag := fmt.Sprintf("[img-%d]", k)
		got, typedHere := c19CountTag(r.msgs[w.msg].Content, k), c19CountTag(origContent[w.msg].Content, k)
		switch {
		case got != 1+typedHere:
			out.L2("image-tag-msg", line, fmt.Sprintf("tag %s occurs %d times in the rewritten message %d (%d typed in its text)", tag, got, w.msg, typedHere))
		case typedHere > 0:
			out.L2("image-tag-msg", line, fmt.Sprintf("%stag %s occurs %d times in the rewritten message %d (once written by chatPrompt, %d typed in the text): the runner embeds image %d %d times", label, tag, got, w.msg, typedHere, k, got))
		}
		if generic || !typedKnown {
			continue
		}
		if c19Rendered(c.style, c.msgs[w.msg].role) {
			switch gotP := c19CountTag(r.prompt, k); {
			case gotP != 1+typed[k]:
				out.L2("image-tag-prompt", line, fmt.Sprintf("style=%d%s: tag %s (message %d, role %s) occurs %d times in the prompt (%d mentions typed in the text)", c.style, why(w.msg), tag, w.msg, c.msgs[w.msg].role, gotP, typed[k]))
			case typed[k] > 0:
				out.L2("image-tag-prompt", line, fmt.Sprintf("%stag %s occurs %d times in the prompt (once written by chatPrompt, %d typed in the text): the runner embeds image %d %d times", label, tag, gotP, typed[k], k, gotP))
			}
		} else {
			out.Count("image_on_role_not_rendered_by_template")
		}
	}
	// mentions of images that are not in the returned list: what the runner answers `invalid image index` to
	inPrompt := map[int]int{}
	for _, mt := range c19TagRe.FindAllStringSubmatch(r.prompt, -1) {
		if v, err := strconv.Atoi(mt[1]); err == nil && v >= len(want) {
			inPrompt[v]++
		}
	}
	var dangling []int
	for v := range inPrompt {
		dangling = append(dangling, v)
	}
	slices.Sort(dangling)
	for _, v := range dangling {
		if typedKnown && typed[v] == inPrompt[v] {
			out.L2("image-tag-dangling", line, fmt.Sprintf("%sthe prompt mentions image %d (%d times, all typed in message texts) but only %d images are returned: the runner answers `invalid image index: %d`", label, v, inPrompt[v], len(want), v))
		} else {
			out.L2("image-tag-dangling", line, fmt.Sprintf("prompt mentions image %d %d times (%d typed in message texts) but only %d images are expected", v, inPrompt[v], typed[v], len(want)))
		}
	}
}

// specCut: the specification of the retained run, from the real cost vector: the longest suffix all of whose
// shorter suffixes (down to two messages) fit; the latest message alone if nothing more fits.
func (e *c19Env) specCut(c *c19Case, costs []int) int {
	L := len(c.msgs)
	imgTok := 768
	if c.mllama {
		imgTok = 1
	}
	n := L - 1
	for n > 0 {
		t := costs[n-1]
		if c.proj != 0 {
			for _, m := range c.msgs[n-1:] {
				t += imgTok * len(m.imgs)
			}
		}
		if t > c.limit {
			break
		}
		n--
	}
	return n
}

// typedMentions: how often the TEXT of the conversation makes the prompt mention image N, exactly as the runner
// reads it (see l2); ok=false if the template cannot be rendered on the specified input.
func (e *c19Env) typedMentions(c *c19Case, n int) (map[int]int, bool) {
	typed := map[int]int{}
	orig := e.apiMsgs(c)
	var in []api.Message
	for j := 0; j < n; j++ {
		if orig[j].Role == "system" {
			in = append(in, orig[j])
		}
	}
	in = append(in, orig[n:]...)
	var b bytes.Buffer
	if err := e.tmplOf(c).Execute(&b, template.Values{Messages: in, Tools: c.tools}); err != nil {
		return typed, false
	}
	for _, mt := range c19TagRe.FindAllStringSubmatch(b.String(), -1) {
		if v, err := strconv.Atoi(mt[1]); err == nil {
			typed[v]++
		}
	}
	return typed, true
}

// c19CountTag: matches of the runner's regexp whose number is k
func c19CountTag(text string, k int) int {
	cnt := 0
	for _, mt := range c19TagRe.FindAllStringSubmatch(text, -1) {
		if v, err := strconv.Atoi(mt[1]); err == nil && v == k {
			cnt++
		}
	}
	return cnt
}

var c19TagRe = regexp.MustCompile(`\[img-(\d+)\]`)

var c19Words = []string{"a", "bb", "cde", "fgh", "ij", "kl", "abcdefghijkl", "I-I'm", "wager.", "{{x}}", "]", "[", "[im", "g]", "|", "S<", ">"}

func c19Gen(r *zzverif.Rng) *c19Case {
	c := &c19Case{}
	c.mllama = r.Chance(1, 4)
	switch x := r.Intn(10); {
	case x < 4:
		c.proj = 0
	case x < 5:
		c.proj = 1
	default:
		c.proj = 2
	}
	switch x := r.Intn(10); {
	case x < 4:
		c.style = r.Intn(len(c19TemplateSrc))
	case x < 6:
		c.style = len(c19TemplateSrc) + r.Intn(len(c19RealTemplates))
	case x < 8:
		c.style, c.src = c19StyleGenerated, c19GenMessagesTemplate(r)
	default:
		c.style, c.src = c19StyleGenerated, c19GenLegacyTemplate(r)
	}
	// the request's tools (0-3, descriptions of varying size); half of the requests with tools go to a
	// template that certainly renders them
	c.tools = c19GenTools(r)
	if len(c.tools) > 0 && r.Chance(1, 2) {
		if r.Chance(1, 2) {
			c.style, c.src = c19StyleTools, ""
		} else {
			c.style, c.src = c19StyleGenerated, c19Act(r, "if .Tools")+zzverif.Pick(r, c19TmplText)+c19Act(r, zzverif.Pick(r, []string{".Tools", "json .Tools"}))+c19Act(r, "end")+c19GenMessagesTemplate(r)
		}
	}
	c.mode = r.Intn(2)
	L := r.Pick3(1, 4, 9)
	if r.Chance(1, 200) {
		L = 0
	}
	preproc := c.mllama && c.proj == 2
	imgRate := r.Pick3(0, 2, 6) // per-message chance (in tenths) of carrying images
	if preproc && imgRate > 2 {
		imgRate = 2 // mllama.Preprocess is slow; keep these conversations light
	}
	roleW := [][]string{
		{"u", "a", "u", "a", "s", "u", "t", "o"},
		{"s", "s", "u", "a", "s"},
		{"u", "a"},
	}[r.Intn(3)]
	nextSrc := 1
	for j := 0; j < L; j++ {
		m := c19Msg{role: zzverif.Pick(r, roleW)}
		if j == 0 && r.Chance(1, 3) {
			m.role = "s"
		}
		var parts []string
		if !r.Chance(1, 12) {
			parts = append(parts, c19Marker(j))
			for w := r.Pick3(0, 3, 12); w > 0; w-- {
				parts = append(parts, zzverif.Pick(r, c19Words))
			}
		}
		if r.Chance(1, 40) {
			// literal tag typed in the text (finding F5): an index that may or may not be an image of the conversation,
			// a leading-zero form, an unfinished tag
			parts = append(parts, zzverif.Pick(r, []string{"[img-0]", "[img-0]", "[img-1]", "[img-5]", "[img-01]", "[img-", "[img-2"}))
		}
		nimg := 0
		if r.Intn(10) < imgRate {
			nimg = r.Pick3(1, 2, 3)
			if c.mllama && !r.Chance(1, 8) {
				nimg = 1
			}
		}
		// placeholders: as many as images, fewer, more, or none
		slots := 0
		if nimg > 0 || r.Chance(1, 15) {
			slots = []int{0, 0, nimg, nimg, r.Intn(nimg + 2), nimg + 1}[r.Intn(6)]
		}
		for s := 0; s < slots; s++ {
			pos := r.Intn(len(parts) + 1)
			parts = append(parts[:pos], append([]string{"[img]"}, parts[pos:]...)...)
		}
		seps := []string{" ", " ", " ", "\n", "\n\n", ""}
		for i, p := range parts {
			if i > 0 {
				sep := zzverif.Pick(r, seps)
				if sep == "" && (strings.HasPrefix(p, "m") || strings.HasPrefix(parts[i-1], "m")) {
					sep = " " // keep markers whole words
				}
				m.content += sep
			}
			m.content += p
		}
		for k := 0; k < nimg; k++ {
			im := c19Img{src: nextSrc, ok: true}
			nextSrc++
			if preproc || r.Chance(1, 10) {
				im.src = 1000 + r.Intn(3)
			}
			if r.Chance(1, 60) {
				im = c19Img{src: nextSrc, ok: false}
				nextSrc++
			}
			m.imgs = append(m.imgs, im)
		}
		c.msgs = append(c.msgs, m)
	}
	return c
}

func c19GenTools(r *zzverif.Rng) api.Tools {
	n := zzverif.Pick(r, []int{0, 0, 0, 0, 1, 1, 2, 3})
	var tools api.Tools
	for k := 0; k < n; k++ {
		var t api.Tool
		t.Type = "function"
		t.Function.Name = fmt.Sprintf("fn%d", k)
		var d []string
		for w := r.Pick3(0, 4, 14); w > 0; w-- {
			d = append(d, zzverif.Pick(r, c19Words))
		}
		t.Function.Description = strings.Join(d, " ")
		t.Function.Parameters.Type = "object"
		if r.Chance(1, 2) {
			t.Function.Parameters.Required = []string{"a"}
		}
		tools = append(tools, t)
	}
	return tools
}

// pickLimit aims the context length at the boundaries of the measured totals.
func (e *c19Env) pickLimit(r *zzverif.Rng, c *c19Case, costs []int) int {
	imgTok := 768
	if c.mllama {
		imgTok = 1
	}
	var totals []int
	for i := range costs {
		t := costs[i]
		if c.proj != 0 {
			for _, m := range c.msgs[i:] {
				t += imgTok * len(m.imgs)
			}
		}
		totals = append(totals, t)
	}
	switch x := r.Intn(20); {
	case x == 0:
		return 0
	case x == 1:
		return -r.Range(1, 5)
	case x == 2:
		return 1
	case x == 3:
		return 1 << 20
	case x < 7 || len(totals) == 0:
		return r.Range(1, 40)
	default:
		return zzverif.Pick(r, totals) + r.Range(-1, 1)
	}
}

var c19Fixed = []c19Case{
	// the F4 probe and neighbours
	{style: 1, limit: 1, msgs: []c19Msg{{role: "u", content: "m0q long long long"}, {role: "s", content: "m1q SYS"}, {role: "u", content: "m2q hi"}}},
	{style: 0, limit: 3, msgs: []c19Msg{{role: "s", content: "m0q A"}, {role: "u", content: "m1q long long long"}, {role: "s", content: "m2q B"}, {role: "u", content: "m3q hi"}}},
	{style: 3, limit: 2, msgs: []c19Msg{{role: "s", content: "m0q"}, {role: "s", content: "m1q"}, {role: "u", content: "m2q"}}},
	// F4b (legacy loop overwrites a pending turn) and F4c (deleteNode else-list panic)
	{style: 1, limit: 2048, msgs: []c19Msg{{role: "u", content: "m0q hello"}, {role: "a", content: ""}, {role: "u", content: "m2q again"}}},
	{style: c19StyleGenerated, src: `{{ .Prompt }}{{ if .System }}{{ .Response }}{{ else }}x{{ end }}`, limit: 2048, msgs: []c19Msg{{role: "u", content: "m0q hi"}}},
	// shapes from prompt_test.go
	{style: 1, proj: 2, limit: 1024, msgs: []c19Msg{{role: "u", content: "m0q You're a test, Harry!"}, {role: "u", imgs: []c19Img{{1, true}}}, {role: "u", imgs: []c19Img{{2, true}}}, {role: "a", content: "m3q I-I'm a what?"}, {role: "u", content: "m4q A test."}}},
	{style: 1, proj: 2, limit: 2048, msgs: []c19Msg{{role: "u", content: "m0q Compare these two [img] pictures", imgs: []c19Img{{1, true}, {2, true}}}}},
	{style: 1, proj: 2, mllama: true, limit: 2048, msgs: []c19Msg{{role: "u", content: "m0q one", imgs: []c19Img{{1000, true}}}, {role: "a", content: "m1q two"}, {role: "u", content: "m2q three", imgs: []c19Img{{1001, true}}}}},
	{style: 1, proj: 2, mllama: true, limit: 2048, msgs: []c19Msg{{role: "u", content: "m0q one", imgs: []c19Img{{1000, true}, {1001, true}}}}},
	{style: 1, proj: 2, mllama: true, limit: 1, msgs: []c19Msg{{role: "u", content: "m0q one two three four", imgs: []c19Img{{1000, true}, {1001, true}}}, {role: "a", content: "m1q a b c d e f"}, {role: "u", content: "m2q x"}}},
	// round 7: one directed case per rare model branch, so that the coverage requirement of the check
	// (REQUIRED_BRANCHES) never depends on the seed
	{style: 1, proj: 2, mllama: true, limit: 2048, msgs: []c19Msg{{role: "u", content: "m0q one", imgs: []c19Img{{7, false}}}}},                                                            // mllama.Preprocess fails
	{style: 1, limit: 2048, msgs: []c19Msg{{role: "a", content: "m0q x"}, {role: "t", content: "m1q tool"}, {role: "a", content: "m2q y"}, {role: "u", content: "m3q z"}}},             // join into an occupied response slot, then a flush
	{style: 1, limit: 2048, msgs: []c19Msg{{role: "s", content: "m0q a"}, {role: "u", content: ""}, {role: "s", content: "m2q b"}, {role: "u", content: "m3q hi"}}},                      // join into an occupied system slot
	{style: 1, limit: 2048, msgs: []c19Msg{{role: "u", content: "m0q a"}, {role: "t", content: "m1q x"}, {role: "u", content: "m2q b"}}},                                                // join into an occupied prompt slot
	{style: 1, limit: 2048, msgs: []c19Msg{{role: "u", content: "m0q a"}, {role: "s", content: "m1q late"}, {role: "u", content: "m2q b"}, {role: "a", content: "m3q c"}, {role: "s", content: "m4q t"}}}, // a system message closes an unanswered turn (seeded K)
	{style: 3, limit: 2048, tokFail: 1, msgs: []c19Msg{{role: "u", content: "m0q a"}, {role: "a", content: "m1q b"}, {role: "u", content: "m2q c"}}},                                 // tokenizer error while measuring
	{style: c19StyleGenerated, src: `{{ range .Messages }}{{ .Content }}{{ .Nope }}{{ end }}`, limit: 2048, msgs: []c19Msg{{role: "u", content: "m0q a"}, {role: "a", content: "m1q b"}}}, // Execute error while measuring
	{style: 1, limit: 10},                                                                                                                                                          // empty conversation
	// first failure is not longest-fitting with a whitespace tokenizer: run [2:] = `[system|a\n\nc][user|d]` is 2 tokens,
	// runs [1:] and [0:] are 1 token (Lean: first_failure_not_longest_inplace_fields); counted as spec_nonmonotone_cost
	{style: 3, limit: 1, msgs: []c19Msg{{role: "s", content: "a"}, {role: "u", content: "b"}, {role: "s", content: "c"}, {role: "u", content: "d"}}},
	// finding F5 (typed image tags), one directed case per shape: typed tag of an own image; typed tag without any
	// image; unfinished typed tag that the template's `]` completes; leading zeros
	{style: 3, proj: 2, limit: 2048, msgs: []c19Msg{{role: "u", content: "m0q see [img-0]", imgs: []c19Img{{1, true}}}}},
	{style: 3, proj: 2, limit: 2048, msgs: []c19Msg{{role: "u", content: "m0q [img-5]"}}},
	{style: 3, proj: 2, limit: 2048, msgs: []c19Msg{{role: "u", content: "m0q a"}, {role: "a", content: "m1q ends with [img-2"}}},
	{style: 0, proj: 2, limit: 2048, msgs: []c19Msg{{role: "u", content: "m0q [img-00] x", imgs: []c19Img{{1, true}}}, {role: "a", content: "m1q b"}}},
	{style: 1, proj: 0, limit: 2048, msgs: []c19Msg{{role: "u", content: "m0q a", imgs: []c19Img{{1, true}}}, {role: "u", content: "m1q b"}, {role: "a", content: "m2q c"}}}, // nil projector list: images not charged; adjacent users merged
	{style: 1, proj: 1, mllama: true, limit: 2048, msgs: []c19Msg{{role: "u", content: "m0q a", imgs: []c19Img{{1, true}}}}},                                                 // mllama without projector: raw image data
	{style: 0, proj: 2, limit: 2000, msgs: []c19Msg{{role: "u", content: "m0q old", imgs: []c19Img{{1, true}}}, {role: "s", content: "m1q mid"}, {role: "u", content: "m2q [img] and [img] [img]", imgs: []c19Img{{2, true}}}, {role: "a", content: "[img] m3q"}}}, // system message at the cut; more placeholders than images; placeholder without image
}

// emitPair records what chatPrompt hands to the runner (prompt + image ids) for the runner-side
// driver (harness/overlay/runner_ollamarunner/zz_verif_c19_test.go), which feeds it to the real
// `inputs`.
func (e *c19Env) emitPair(c *c19Case, r *c19Real, costs []int) {
	if e.pairs == nil || e.npairs >= e.maxPairs {
		return
	}
	e.npairs++
	// H1: no message text contains `[img-`.  H0[S]/<typed>: some text does; <typed> = the image numbers the TEXT makes the
	// prompt mention, with multiplicity, exactly as the runner reads them (typedMentions; `-` none, `?` unknown);
	// S: the template prints every message's content exactly once, so "each returned image is embedded exactly
	// once + its typed mentions" can be evaluated on the runner side.
	h := "H1"
	for _, m := range c.msgs {
		if strings.Contains(m.content, "[img-") {
			h = "H0"
		}
	}
	if h == "H0" {
		if c.style == c19StyleMessages || c.style == c19StyleInPlace || c.style == c19StyleTools {
			h = "H0S"
		}
		typed, ok := e.typedMentions(c, e.specCut(c, costs))
		switch {
		case !ok:
			h += "/?"
		case len(typed) == 0:
			h += "/-"
		default:
			var nums []int
			for v, k := range typed {
				for ; k > 0; k-- {
					nums = append(nums, v)
				}
			}
			slices.Sort(nums)
			var ps []string
			for _, v := range nums {
				ps = append(ps, strconv.Itoa(v))
			}
			h += "/" + strings.Join(ps, ".")
		}
	}
	fmt.Fprintf(e.pairs, "%s %s %d", h, zzverif.Hex([]byte(r.prompt)), len(r.images))
	for _, im := range r.images {
		fmt.Fprintf(e.pairs, " %d", im.id)
	}
	fmt.Fprintln(e.pairs)
}

// resolveStyle gives a replayed case (which carries only the template source) its style label.
func (e *c19Env) resolveStyle(c *c19Case) {
	for i, s := range e.srcs {
		if s == c.src {
			c.style = i
		}
	}
}

func (e *c19Env) runCase(out *zzverif.Out, c *c19Case) {
	costs := e.costs(c)
	r := e.runReal(c)
	line := c.opLine(e.fixed, costs)
	out.Case(line, e.implLine(c, &r))
	out.Count("cases")
	out.Count(fmt.Sprintf("tools_%d", len(c.tools)))
	if len(c.tools) > 0 && strings.Contains(c.src, "Tools") {
		out.Count("tools_and_template_mentions_tools")
	}
	if c.style >= 0 {
		out.Count(fmt.Sprintf("style_%d", c.style))
	} else if strings.Contains(c.src, ".Messages") {
		out.Count("style_generated_messages")
	} else {
		out.Count("style_generated_legacy")
	}
	if c.ast == "X" {
		out.Count("template_opaque_to_model")
	} else {
		out.Count("template_executed_by_model")
	}
	out.Count(fmt.Sprintf("len_%d", min(len(c.msgs), 6)))
	if c.mllama {
		out.Count("mllama")
	}
	out.Count(fmt.Sprintf("proj_%d", c.proj))
	ni, ns := 0, 0
	for _, m := range c.msgs {
		ni += len(m.imgs)
		if m.role == "s" {
			ns++
		}
	}
	if ni > 0 {
		out.Count("with_images")
	}
	if ns > 0 {
		out.Count("with_system")
	}
	switch {
	case r.panicked != "":
		out.Count("outcome_panic")
	case r.err != nil:
		out.Count("outcome_err")
		if r.err.Error() == "c19: tokenizer failure" {
			out.Count("outcome_err_tokenizer_injected")
		}
	default:
		out.Count("outcome_ok")
		if len(r.images) > 0 {
			out.Count("ok_with_images_returned")
		}
		e.emitPair(c, &r, costs)
	}
	e.branches(out, c, costs, &r)
	e.l2(out, c, costs, &r, line)
}

func TestVerifC19(t *testing.T) {
	e := c19NewEnv(t)
	out := zzverif.NewOut()
	defer out.Close()
	if f, err := os.Create(zzverif.OutDir() + "/pairs.txt"); err == nil {
		e.pairs, e.maxPairs = f, zzverif.EnvInt("VERIF_PAIRS", 4000)
		defer f.Close()
	}
	out.Add("variant_probe_unexpected", e.probeOdd)
	out.Add("variant_f4_fixed", e.fixed&1)
	out.Add("variant_legacy_mode", (e.fixed>>1)&3)
	out.Add("variant_cut_else_fixed", (e.fixed>>3)&1)
	out.Add("variant_f5_literal_tag_fixed", (e.fixed>>4)&1)
	e.sanitizeSpec = true

	if p := os.Getenv("VERIF_REPLAY"); p != "" {
		raw, err := os.ReadFile(p)
		if err != nil {
			t.Fatal(err)
		}
		for _, ln := range strings.Split(string(raw), "\n") {
			if !strings.HasPrefix(ln, "chat ") {
				continue // hchat / resolve lines belong to the handler / runner drivers
			}
			c, err := c19ParseLine(ln)
			if err != nil {
				t.Fatal(err)
			}
			e.resolveStyle(c)
			e.runCase(out, c)
		}
		return
	}

	for i := range c19Fixed {
		c := c19Fixed[i]
		e.runCase(out, &c)
	}
	// regression corpus (raw case lines), run before the generated cases
	if dir := os.Getenv("VERIF_CORPUS"); dir != "" {
		ents, _ := os.ReadDir(dir)
		for _, ent := range ents {
			raw, err := os.ReadFile(dir + "/" + ent.Name())
			if err != nil {
				t.Fatal(err)
			}
			for _, ln := range strings.Split(string(raw), "\n") {
				if strings.HasPrefix(ln, "chat ") {
					c, err := c19ParseLine(ln)
					if err != nil {
						t.Fatalf("%s: %v", ent.Name(), err)
					}
					e.resolveStyle(c)
					e.runCase(out, c)
					out.Count("corpus_cases")
				}
			}
		}
	}
	// NewRng(seed+1) is NewRng(seed) advanced by one draw, so consecutive seeds would replay the
	// same cases shifted by one; forking once decorrelates them.
	root := zzverif.NewRng(zzverif.Seed()).Fork()
	n := zzverif.EnvInt("VERIF_N", 3000)
	for i := 0; i < n; i++ {
		r := root.Fork()
		c := c19Gen(r)
		if len(c.msgs) >= 2 && r.Chance(1, 40) {
			c.tokFail = 1 + r.Intn(len(c.msgs)-1)
		}
		c.limit = e.pickLimit(r, c, e.costs(c))
		e.runCase(out, c)
	}
}

// TestVerifC19Probe shows the two findings on the real code with no model involved
// (`go test -run TestVerifC19Probe -v`).
func TestVerifC19Probe(t *testing.T) {
	legacy, _ := template.Parse(c19TemplateSrc[c19StyleLegacy])
	tok := func(_ context.Context, s string) ([]int, error) { return make([]int, len(strings.Fields(s))), nil }
	run := func(limit int, msgs []api.Message) string {
		opts := api.Options{Runner: api.Runner{NumCtx: limit}}
		p, _, err := chatPrompt(context.Background(), &Model{Template: legacy}, tok, &opts, msgs, nil)
		if err != nil {
			t.Fatal(err)
		}
		return p
	}
	// F4: the system message at the cut is dropped
	t.Logf("F4 prompt=%q", run(1, []api.Message{{Role: "user", Content: "long long long"}, {Role: "system", Content: "SYS"}, {Role: "user", Content: "hi"}}))
	// legacy overwrite: everything fits, yet "hello" / "first" / "A" never reach the prompt
	t.Logf("legacy-overwrite (empty assistant) prompt=%q", run(2048, []api.Message{{Role: "user", Content: "hello"}, {Role: "assistant", Content: ""}, {Role: "user", Content: "again"}}))
	t.Logf("legacy-overwrite (tool between) prompt=%q", run(2048, []api.Message{{Role: "user", Content: "first"}, {Role: "tool", Content: "42"}, {Role: "user", Content: "second"}}))
	t.Logf("legacy-overwrite (system) prompt=%q", run(2048, []api.Message{{Role: "system", Content: "A"}, {Role: "user", Content: ""}, {Role: "system", Content: "B"}, {Role: "user", Content: "hi"}}))
	// first failure is not longest-fitting (strings.Fields tokenizer, in-place template, num_ctx 1): the whole conversation is
	// ONE token, yet only the latest message is kept, because the run [2:] measures 2 tokens (collate's blank line)
	inPlace, _ := template.Parse(c19TemplateSrc[c19StyleInPlace])
	opts := api.Options{Runner: api.Runner{NumCtx: 1}}
	conv := []api.Message{{Role: "system", Content: "a"}, {Role: "user", Content: "b"}, {Role: "system", Content: "c"}, {Role: "user", Content: "d"}}
	p, _, err := chatPrompt(context.Background(), &Model{Template: inPlace}, tok, &opts, conv, nil)
	var whole bytes.Buffer
	_ = inPlace.Execute(&whole, template.Values{Messages: []api.Message{{Role: "system", Content: "a"}, {Role: "user", Content: "b"}, {Role: "system", Content: "c"}, {Role: "user", Content: "d"}}})
	t.Logf("first-failure-not-longest: prompt=%q err=%v; the whole conversation renders to %q = %d token(s)", p, err, whole.String(), len(strings.Fields(whole.String())))
}

// TestVerifC19ProbeLiteralTag: finding F5 on the real chatPrompt, no model involved: a literal `[img-N]` in a
// message's text reaches the prompt untouched, next to the tags chatPrompt writes itself.
func TestVerifC19ProbeLiteralTag(t *testing.T) {
	inPlace, _ := template.Parse(c19TemplateSrc[c19StyleInPlace])
	tok := func(_ context.Context, s string) ([]int, error) { return make([]int, len(strings.Fields(s))), nil }
	opts := api.Options{Runner: api.Runner{NumCtx: 2048}}
	m := &Model{Template: inPlace, ProjectorPaths: []string{"vision"}}
	p, imgs, err := chatPrompt(context.Background(), m, tok, &opts, []api.Message{{Role: "user", Content: "see [img-0]", Images: []api.ImageData{[]byte("IMG")}}}, nil)
	t.Logf("text with a literal tag + one image: prompt=%q images=%d err=%v", p, len(imgs), err)
	if strings.Count(p, "[img-0]") != 2 || len(imgs) != 1 {
		t.Errorf("expected the tag of the single image twice in the prompt")
	}
	p, imgs, err = chatPrompt(context.Background(), m, tok, &opts, []api.Message{{Role: "user", Content: "[img-5]"}}, nil)
	t.Logf("text with a literal tag, no image: prompt=%q images=%d err=%v", p, len(imgs), err)
	if !strings.Contains(p, "[img-5]") || len(imgs) != 0 {
		t.Errorf("expected a tag without image in the prompt")
	}
}

// TestVerifC19Trees (Tie 1) writes the parse trees that the REAL template.Parse builds for the four
// harness templates as Lean terms (trees.txt: one `name := term` per line); the check regenerates
// lean/OllamaVerif/Generated/C19_Trees.lean from it and Tie/C19.lean proves by `rfl` that the trees
// the property theorems talk about are these.
func TestVerifC19Trees(t *testing.T) {
	f, err := os.Create(zzverif.OutDir() + "/trees.txt")
	if err != nil {
		t.Fatal(err)
	}
	defer f.Close()
	for i, name := range []string{"header", "legacy", "dflt", "inPlace"} {
		tm, err := template.Parse(c19TemplateSrc[i])
		if err != nil {
			t.Fatal(err)
		}
		if ast, why := c19Serialise(tm); ast == "X" {
			t.Fatalf("harness template %s outside the subset: %s", name, why)
		}
		fmt.Fprintf(f, "%s := %s\n", name, c19LeanList(tm.Tree.Root))
	}
	// Tie-1 constants obtained by executing the real code on probe inputs (zz_verif_c19cov_test.go)
	c19WriteConsts(t, c19NewEnv(t))
}
