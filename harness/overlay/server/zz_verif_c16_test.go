package server

// Verification driver for C16, scheduler side: Scheduler.updateFreeSpace (server/sched.go), the
// adjustment of the reported free memory by the predictions of the loaded runners, and its
// composition with the real estimator.  Added with `go test -overlay`; never committed to /repo.
//
//   L1: FreeMemory of every GPU after the REAL updateFreeSpace == oracle `c16free`.
//   L2: `free-raised`  — adjusted free > reported free;
//       `sched-alloc-exceeds-reported` — real llm.EstimateGPULayers on the adjusted list plans
//        size + overhead > REPORTED free on some GPU (sizes != 0).

import (
	"bytes"
	"context"
	"encoding/json"
	"fmt"
	"io"
	"log/slog"
	"math/bits"
	"os"
	"path/filepath"
	"sort"
	"strconv"
	"strings"
	"testing"
	"testing/synctest"
	"time"

	"github.com/ollama/ollama/api"
	"github.com/ollama/ollama/discover"
	"github.com/ollama/ollama/fs/ggml"
	"github.com/ollama/ollama/llm"
	"github.com/ollama/ollama/zzverif"
)

type vsGPU struct {
	Lib   string `json:"lib"`
	ID    string `json:"id"`
	Total uint64 `json:"total"`
	Free  uint64 `json:"free"`
	Min   uint64 `json:"min,omitempty"`
}

type vsRunner struct {
	Nil bool              `json:"nil,omitempty"` // runnerRef.llama == nil
	Est map[string]uint64 `json:"est,omitempty"` // EstimatedVRAMByGPU
}

type vsCfg struct {
	Kind    string     `json:"kind"` // "sched"
	GPUs    []vsGPU    `json:"gpus"`
	Runners []vsRunner `json:"runners"`
	Model   int        `json:"model"` // which synthetic model the composition uses (-1: none)
	NumGPU  int        `json:"num_gpu"`
	Tag     string     `json:"tag,omitempty"`
}

func vsList(cfg *vsCfg) discover.GpuInfoList {
	var l discover.GpuInfoList
	for _, g := range cfg.GPUs {
		gi := discover.GpuInfo{Library: g.Lib, ID: g.ID, MinimumMemory: g.Min}
		gi.TotalMemory = g.Total
		gi.FreeMemory = g.Free
		l = append(l, gi)
	}
	return l
}

func vsOp(cfg *vsCfg) string {
	type k struct{ lib, id string }
	keys := map[k]int{}
	ids := map[string]int{}
	var sb strings.Builder
	fmt.Fprintf(&sb, "c16free %d", len(cfg.GPUs))
	for _, g := range cfg.GPUs {
		kk := k{g.Lib, g.ID}
		if _, ok := keys[kk]; !ok {
			keys[kk] = len(keys)
		}
		if _, ok := ids[g.ID]; !ok {
			ids[g.ID] = len(ids)
		}
		fmt.Fprintf(&sb, " %d %d %d %d", keys[kk], ids[g.ID], g.Total, g.Free)
	}
	fmt.Fprintf(&sb, " %d", len(cfg.Runners))
	for _, r := range cfg.Runners {
		if r.Nil {
			sb.WriteString(" nil")
			continue
		}
		// only IDs that occur in the GPU list are ever asked for; sorted by ID class
		n := 0
		var parts []string
		for id, cls := range ids {
			if v, ok := r.Est[id]; ok {
				parts = append(parts, fmt.Sprintf("%d %d", cls, v))
				n++
			}
		}
		// deterministic order (Go map iteration is random): sort by class
		for i := 0; i < len(parts); i++ {
			for j := i + 1; j < len(parts); j++ {
				a, _ := strconv.Atoi(strings.Fields(parts[i])[0])
				b, _ := strconv.Atoi(strings.Fields(parts[j])[0])
				if b < a {
					parts[i], parts[j] = parts[j], parts[i]
				}
			}
		}
		fmt.Fprintf(&sb, " %d", n)
		for _, p := range parts {
			sb.WriteString(" " + p)
		}
	}
	return sb.String()
}

type vsModels struct {
	files  []*ggml.GGML
	blocks []int
}

func vsBuildModels(dir string) *vsModels {
	m := &vsModels{}
	specs := []struct {
		blocks int
		layer  uint64 // elements (F32) per block tensor
		ctx    uint32
	}{{4, 1 << 20, 2048}, {32, 32 << 20, 8192}, {80, 200 << 20, 8192}}
	for i, sp := range specs {
		kv := ggml.KV{
			"general.architecture":          "llama",
			"llama.block_count":             uint32(sp.blocks),
			"llama.embedding_length":        uint32(4096),
			"llama.attention.head_count":    uint32(32),
			"llama.attention.head_count_kv": uint32(8),
			"llama.context_length":          sp.ctx,
			"tokenizer.ggml.tokens":         []string{"a", "b"},
		}
		var ts []ggml.Tensor
		for b := 0; b < sp.blocks; b++ {
			ts = append(ts, ggml.Tensor{Name: fmt.Sprintf("blk.%d.attn_q.weight", b), Kind: 0, Shape: []uint64{sp.layer + uint64(b)*1024}, WriterTo: bytes.NewReader(nil)})
		}
		ts = append(ts, ggml.Tensor{Name: "token_embd.weight", Kind: 0, Shape: []uint64{sp.layer / 2}, WriterTo: bytes.NewReader(nil)})
		ts = append(ts, ggml.Tensor{Name: "output.weight", Kind: 0, Shape: []uint64{sp.layer / 2}, WriterTo: bytes.NewReader(nil)})
		p := filepath.Join(dir, fmt.Sprintf("vs%d.gguf", i))
		f, err := os.Create(p)
		if err != nil {
			panic(err)
		}
		if err := ggml.WriteGGUF(f, kv, ts); err != nil {
			panic(err)
		}
		f.Close()
		g, err := llm.LoadModel(p, 0)
		if err != nil {
			panic(err)
		}
		m.files = append(m.files, g)
		m.blocks = append(m.blocks, sp.blocks)
	}
	return m
}

func vsRun(out *zzverif.Out, cfg *vsCfg, models *vsModels) {
	js, err := json.Marshal(cfg)
	if err != nil {
		panic(err)
	}
	caseLine := string(js)
	ctx, done := context.WithCancel(context.Background())
	defer done()
	s := InitScheduler(ctx)
	gpus := vsList(cfg)
	s.loadedMu.Lock()
	for i, r := range cfg.Runners {
		ref := &runnerRef{gpus: gpus, numParallel: 1}
		if !r.Nil {
			ref.llama = &mockLlm{estimatedVRAMByGPU: r.Est}
		}
		s.loaded[fmt.Sprintf("m%d", i)] = ref
	}
	s.loadedMu.Unlock()

	impl := ""
	func() {
		defer func() {
			if x := recover(); x != nil {
				impl = "panic:" + strings.ReplaceAll(fmt.Sprint(x), "\n", " ")
			}
		}()
		s.updateFreeSpace(gpus)
		parts := make([]string, len(gpus))
		for i := range gpus {
			parts[i] = strconv.FormatUint(gpus[i].FreeMemory, 10)
		}
		impl = strings.Join(parts, ",")
		if len(parts) == 0 {
			impl = "-"
		}
	}()
	out.Case(vsOp(cfg), impl)
	out.Count("sched_cases")
	out.Count(fmt.Sprintf("sched_runners_%d", len(cfg.Runners)))
	if cfg.Tag != "" {
		out.Count("sched_gen_" + cfg.Tag)
	}
	if strings.HasPrefix(impl, "panic:") {
		out.L2("panic", caseLine, impl)
		return
	}
	lowered, zeroed := false, false
	for i := range gpus {
		rep := cfg.GPUs[i].Free
		adj := gpus[i].FreeMemory
		if adj > rep {
			out.L2("free-raised", caseLine, fmt.Sprintf("gpu=%d (%s/%s) reported free=%d adjusted free=%d total=%d", i, cfg.GPUs[i].Lib, cfg.GPUs[i].ID, rep, adj, cfg.GPUs[i].Total))
		}
		if gpus[i].TotalMemory != cfg.GPUs[i].Total || gpus[i].ID != cfg.GPUs[i].ID {
			out.L2("gpu-list-changed", caseLine, fmt.Sprintf("gpu=%d", i))
		}
		if adj < rep {
			lowered = true
			if adj == 0 {
				zeroed = true
			}
		}
	}
	switch {
	case zeroed:
		out.Count("sched_some_zeroed")
	case lowered:
		out.Count("sched_some_lowered")
	default:
		out.Count("sched_unchanged")
	}

	// composition with the real estimator: what is planned on the adjusted list never exceeds
	// the REPORTED free memory less the overhead
	if cfg.Model < 0 || models == nil {
		return
	}
	overhead := uint64(0)
	if v := os.Getenv("OLLAMA_GPU_OVERHEAD"); v != "" {
		overhead, _ = strconv.ParseUint(v, 10, 64)
	}
	opts := api.DefaultOptions()
	opts.NumGPU = cfg.NumGPU
	opts.NumCtx = 2048
	func() {
		defer func() {
			if x := recover(); x != nil {
				out.L2("panic", caseLine, "estimator: "+fmt.Sprint(x))
			}
		}()
		for _, grp := range gpus.ByLibrary() {
			gl := append(discover.GpuInfoList(nil), grp...)
			e := llm.EstimateGPULayers(gl, models.files[cfg.Model], nil, opts, 1)
			out.Count("sched_compositions")
			if e.Layers > 0 {
				out.Count("sched_compositions_with_layers")
			}
			for i, sz := range e.GPUSizes {
				// find the reported figure of this GPU: same Library and ID, first unused match
				rep := uint64(0)
				found := false
				for j, g := range cfg.GPUs {
					if g.Lib == gl[i].Library && g.ID == gl[i].ID && gpus[j].FreeMemory == gl[i].FreeMemory {
						rep, found = g.Free, true
						break
					}
				}
				if !found {
					continue
				}
				need, c := bits.Add64(sz, overhead, 0)
				if sz != 0 && (c != 0 || need > rep) {
					// label with a coarse no-wrap flag (all figures < 2^62 => no estimator sum wraps for these models)
					nowrap := true
					for _, g := range cfg.GPUs {
						if g.Free >= 1<<62 || g.Min >= 1<<62 || g.Total >= 1<<62 {
							nowrap = false
						}
					}
					out.L2("sched-alloc-exceeds-reported", caseLine, fmt.Sprintf("nowrap=%v gpu=%s/%s size=%d overhead=%d reported free=%d adjusted free=%d", nowrap, gl[i].Library, gl[i].ID, sz, overhead, rep, gl[i].FreeMemory))
				}
			}
		}
	}()
}

func vsGen(r *zzverif.Rng, out *zzverif.Out) *vsCfg {
	cfg := &vsCfg{Kind: "sched", Model: -1, NumGPU: -1}
	n := r.Range(1, 4)
	if r.Chance(1, 4) {
		n = r.Range(1, 8)
	}
	libs := []string{"cuda", "cuda", "rocm", "metal", "cpu"}
	ids := []string{"0", "1", "2", "GPU-a", "GPU-b", ""}
	lib := zzverif.Pick(r, libs)
	huge := r.Chance(1, 15)
	for i := 0; i < n; i++ {
		g := vsGPU{Lib: lib, ID: strconv.Itoa(i)}
		if r.Chance(1, 5) {
			g.Lib = zzverif.Pick(r, libs)
		}
		if r.Chance(1, 4) { // repeated / unusual IDs (same ID in two libraries, duplicates)
			g.ID = zzverif.Pick(r, ids)
		}
		switch r.Intn(6) {
		case 0:
			g.Total = uint64(r.Intn(4096))
		default:
			g.Total = uint64(r.Range(1, 80)) << 30
		}
		switch r.Intn(8) {
		case 0:
			g.Free = g.Total
		case 1:
			g.Free = 0
		case 2: // reported free above total (seen with unified memory / bad drivers)
			g.Free = g.Total + uint64(r.Intn(1<<30))
		default:
			g.Free = g.Total / 16 * uint64(r.Range(0, 16))
		}
		if huge {
			g.Total = ^uint64(0) - uint64(r.Intn(1<<20))
			if r.Bool() {
				g.Free = ^uint64(0) - uint64(r.Intn(1<<20))
			}
		}
		g.Min = zzverif.Pick(r, []uint64{0, 0, 457 << 20})
		cfg.GPUs = append(cfg.GPUs, g)
	}
	nr := r.Range(0, 4)
	for k := 0; k < nr; k++ {
		if r.Chance(1, 12) {
			cfg.Runners = append(cfg.Runners, vsRunner{Nil: true})
			continue
		}
		run := vsRunner{Est: map[string]uint64{}}
		for _, g := range cfg.GPUs {
			if r.Chance(1, 4) {
				continue // this runner is not on that GPU
			}
			var v uint64
			switch r.Intn(8) {
			case 0:
				v = 0
			case 1: // exactly what the other processes leave: total - free (boundary of the comparison)
				if g.Total >= g.Free {
					v = g.Total - g.Free
				}
			case 2:
				if g.Total >= g.Free {
					v = g.Total - g.Free + 1
				}
			case 3:
				if g.Total > g.Free {
					v = g.Total - g.Free - 1
				}
			case 4: // more than the GPU has
				v = g.Total + uint64(r.Intn(1<<20)) + 1
			default:
				v = g.Total / 32 * uint64(r.Range(0, 24))
			}
			if huge && r.Bool() {
				v = ^uint64(0) - uint64(r.Intn(1<<20)) // sums wrap
			}
			run.Est[g.ID] = v
		}
		if r.Chance(1, 6) {
			run.Est["not-in-list"] = uint64(r.Intn(1 << 30))
		}
		cfg.Runners = append(cfg.Runners, run)
	}
	if !huge && r.Chance(1, 2) {
		cfg.Model = r.Intn(3)
		cfg.NumGPU = zzverif.Pick(r, []int{-1, -1, -1, 0, 1, 999})
	}
	if huge {
		cfg.Tag = "huge"
	} else {
		cfg.Tag = "plain"
	}
	return cfg
}

func TestVerifC16Sched(t *testing.T) {
	slog.SetDefault(slog.New(slog.NewTextHandler(io.Discard, nil)))
	t.Setenv("OLLAMA_FLASH_ATTENTION", "")
	t.Setenv("OLLAMA_KV_CACHE_TYPE", "")
	out := zzverif.NewOut()
	defer out.Close()
	models := vsBuildModels(t.TempDir())

	if rp := os.Getenv("VERIF_REPLAY"); rp != "" {
		raw, err := os.ReadFile(rp)
		if err != nil {
			t.Fatal(err)
		}
		var cfg vsCfg
		if err := json.Unmarshal(bytes.TrimSpace(raw), &cfg); err != nil || cfg.Kind != "sched" {
			t.Fatalf("replay case is not a C16 scheduler configuration: %v", err)
		}
		vsRun(out, &cfg, models)
		return
	}
	if cd := os.Getenv("VERIF_CORPUS"); cd != "" {
		files, _ := filepath.Glob(cd + "/sched-*.json")
		for _, fn := range files {
			raw, err := os.ReadFile(fn)
			if err != nil {
				t.Fatal(err)
			}
			var cfg vsCfg
			if err := json.Unmarshal(bytes.TrimSpace(raw), &cfg); err != nil {
				t.Fatalf("%s: %v", fn, err)
			}
			cfg.Tag = "corpus"
			vsRun(out, &cfg, models)
		}
	}
	target := zzverif.EnvInt("VERIF_N", 3000)
	root := zzverif.NewRng(zzverif.Seed() ^ 0xC16)
	for k := 0; k < target; k++ {
		r := root.Fork()
		if k%4 == 0 {
			t.Setenv("OLLAMA_GPU_OVERHEAD", strconv.Itoa(r.Intn(1<<30)))
		} else {
			t.Setenv("OLLAMA_GPU_OVERHEAD", "0")
		}
		vsRun(out, vsGen(r, out), models)
	}
}

// ---------------------------------------------------------------------------------------------
// pickBestFullFitByLibrary / pickBestPartialFitByLibrary
//
//   L1: returned GPU ids (in order) + *numParallel of the REAL functions == oracle c16pick / c16part
//   L2: `full-fit-not-placed` — a non-nil full-fit result on which the real EstimateGPULayers (same list,
//        same order, same options, same parallelism: what NewLlamaServer does next) does not place every
//        requested layer; `full-fit-bad-list`, `partial-not-a-group`.

type vpTensor struct {
	Name  string `json:"n"`
	Elems uint64 `json:"e"` // F32 elements
}

type vpCfg struct {
	Kind       string     `json:"kind"` // "pick"
	Arch       string     `json:"arch"`
	Blocks     int        `json:"blocks"`
	Heads      uint32     `json:"heads"`
	HeadsKV    uint32     `json:"heads_kv"`
	Emb        uint32     `json:"emb"`
	Tensors    []vpTensor `json:"t"`
	Projs      [][]uint64 `json:"projs,omitempty"` // per projector file: F32 element counts of its tensors
	GPUs       []vsGPU    `json:"gpus"`
	Variants   []string   `json:"variants,omitempty"` // per GPU
	NumGPU     int        `json:"num_gpu"`
	OrigNumCtx int        `json:"orig_num_ctx"`
	NumBatch   int        `json:"num_batch"`
	Parallel   int        `json:"parallel"` // requested *numParallel (<= 0: auto)
	Spread     bool       `json:"spread,omitempty"`
	Overhead   uint64     `json:"overhead"`
	Tag        string     `json:"tag,omitempty"`
	Embed      bool       `json:"embed,omitempty"`  // <arch>.pooling_type present: no completion capability
	Mllama     bool       `json:"mllama,omitempty"` // Config.ModelFamilies contains "mllama"
}

type vpLoaded struct {
	f     *ggml.GGML
	path  string
	projs []string
	projW []uint64
}

func vpWrite(path, arch string, kv ggml.KV, ts []vpTensor) {
	kv["general.architecture"] = arch
	kv["tokenizer.ggml.tokens"] = []string{"a", "b", "c"}
	var tt []ggml.Tensor
	for _, t := range ts {
		tt = append(tt, ggml.Tensor{Name: t.Name, Kind: 0, Shape: []uint64{t.Elems}, WriterTo: bytes.NewReader(nil)})
	}
	f, err := os.Create(path)
	if err != nil {
		panic(err)
	}
	defer f.Close()
	if err := ggml.WriteGGUF(f, kv, tt); err != nil {
		panic(err)
	}
}

func vpLoad(dir string, cfg *vpCfg) *vpLoaded {
	l := &vpLoaded{path: filepath.Join(dir, "model.gguf")}
	a := cfg.Arch
	mkv := ggml.KV{
		a + ".block_count":             uint32(cfg.Blocks),
		a + ".embedding_length":        cfg.Emb,
		a + ".attention.head_count":    cfg.Heads,
		a + ".attention.head_count_kv": cfg.HeadsKV,
		a + ".context_length":          uint32(8192),
	}
	if cfg.Embed {
		mkv[a+".pooling_type"] = uint32(1)
	}
	vpWrite(l.path, a, mkv, cfg.Tensors)
	g, err := llm.LoadModel(l.path, 0)
	if err != nil {
		panic(err)
	}
	l.f = g
	for i, pt := range cfg.Projs {
		pp := filepath.Join(dir, fmt.Sprintf("proj%d.gguf", i))
		var ts []vpTensor
		for k, e := range pt {
			ts = append(ts, vpTensor{Name: fmt.Sprintf("v.blk.%d.attn_q.weight", k), Elems: e})
		}
		vpWrite(pp, "clip", ggml.KV{}, ts)
		// what llm.projectorMemoryRequirements computes for a non-mllama projector: the sum of all layer sizes, graph 0
		pf, err := llm.LoadModel(pp, 0)
		if err != nil {
			panic(err)
		}
		var w uint64
		for _, layer := range pf.Tensors().GroupLayers() {
			w += layer.Size()
		}
		l.projs = append(l.projs, pp)
		l.projW = append(l.projW, w)
	}
	return l
}

func vpOptU(ok bool, v uint64) string {
	if !ok {
		return "-"
	}
	return strconv.FormatUint(v, 10)
}

// vpCommon: the estimator's derived inputs for parallelism p and context numCtx (the <common> block of
// the oracle commands), recomputed with the exported functions the estimator calls.
func vpCommon(cfg *vpCfg, l *vpLoaded, variant, numCtx, p int) string {
	f := l.f
	var sb strings.Builder
	fmt.Fprintf(&sb, "%d %d %d %d", variant, cfg.NumGPU, cfg.Overhead, len(l.projs))
	for i := range l.projs {
		fmt.Fprintf(&sb, " %d 0", l.projW[i])
		numCtx = max(numCtx, 2048)
	}
	vw, vg := f.VisionGraphSize()
	fmt.Fprintf(&sb, " %d %d", vw, vg)
	layers := f.Tensors().GroupLayers()
	blk0, ok := layers["blk.0"]
	var b0 uint64
	if ok {
		b0 = blk0.Size()
	}
	fmt.Fprintf(&sb, " %s", vpOptU(ok, b0))
	kv, gp, gf := f.GraphSize(uint64(numCtx), uint64(min(numCtx, cfg.NumBatch)), p, "")
	fmt.Fprintf(&sb, " %d", len(kv))
	for i := range kv {
		blk, ok := layers[fmt.Sprintf("blk.%d", i)]
		var sz uint64
		if ok {
			sz = blk.Size()
		}
		fmt.Fprintf(&sb, " %s %d", vpOptU(ok, sz), kv[i])
	}
	fmt.Fprintf(&sb, " %d %d %d", gp, gf, f.KV().GQA())
	for _, name := range []string{"output_norm", "output", "token_embd"} {
		lay, ok := layers[name]
		var sz uint64
		if ok {
			sz = lay.Size()
		}
		fmt.Fprintf(&sb, " %s", vpOptU(ok, sz))
	}
	return sb.String()
}

func vpLibTok(lib string) string {
	if lib == "cpu" || lib == "metal" {
		return lib
	}
	return "gpu"
}

func vpInventory(cfg *vpCfg) discover.GpuInfoList {
	var l discover.GpuInfoList
	for i, g := range cfg.GPUs {
		gi := discover.GpuInfo{Library: g.Lib, ID: fmt.Sprintf("G%d", i), MinimumMemory: g.Min}
		if i < len(cfg.Variants) {
			gi.Variant = cfg.Variants[i]
		}
		gi.FreeMemory = g.Free
		gi.TotalMemory = g.Total
		l = append(l, gi)
	}
	return l
}

func vpGpuToks(gpus discover.GpuInfoList) string {
	keys := map[string]int{}
	var sb strings.Builder
	fmt.Fprintf(&sb, "%d", len(gpus))
	for _, x := range gpus {
		k := x.Library
		if x.Variant != "" {
			k += "_" + x.Variant
		}
		if _, ok := keys[k]; !ok {
			keys[k] = len(keys)
		}
		id, _ := strconv.Atoi(strings.TrimPrefix(x.ID, "G"))
		fmt.Fprintf(&sb, " %d %d %s %d %d", keys[k], id, vpLibTok(x.Library), x.FreeMemory, x.MinimumMemory)
	}
	return sb.String()
}

func vpIds(l discover.GpuInfoList) string {
	if len(l) == 0 {
		return "-"
	}
	parts := make([]string, len(l))
	for i, g := range l {
		parts[i] = strings.TrimPrefix(g.ID, "G")
	}
	return strings.Join(parts, ",")
}

// vpVariant: which overhead comparisons the estimator of this tree implements (see the llm driver).
func vpVariant(l *vpLoaded) int {
	// the model is run at the variant the tree is expected to implement (1: finding W1 is fixed in /repo) unless the
	// caller pins another one; the llm driver reports what the tree really does (code_variant_<n>)
	return zzverif.EnvInt("VERIF_C16_VARIANT", 1)
}

func vpReq(cfg *vpCfg, l *vpLoaded) *LlmRequest {
	opts := api.DefaultOptions()
	opts.NumGPU = cfg.NumGPU
	opts.NumBatch = cfg.NumBatch
	opts.NumCtx = cfg.OrigNumCtx
	if cfg.Parallel > 0 {
		opts.NumCtx = cfg.OrigNumCtx * cfg.Parallel // what processPending does for an explicit parallel setting
	}
	return &LlmRequest{ctx: context.Background(), model: &Model{ModelPath: l.path, ProjectorPaths: l.projs}, opts: opts, origNumCtx: cfg.OrigNumCtx}
}

func vpRun(out *zzverif.Out, cfg *vpCfg, l *vpLoaded, variant int) {
	js, err := json.Marshal(cfg)
	if err != nil {
		panic(err)
	}
	caseLine := string(js)
	os.Setenv("OLLAMA_GPU_OVERHEAD", strconv.FormatUint(cfg.Overhead, 10))
	if cfg.Spread {
		os.Setenv("OLLAMA_SCHED_SPREAD", "1")
	} else {
		os.Setenv("OLLAMA_SCHED_SPREAD", "")
	}
	inv := vpInventory(cfg)
	blocks := int(l.f.KV().BlockCount())

	// ---- full fit
	tries := []int{cfg.Parallel}
	if cfg.Parallel <= 0 {
		tries = []int{defaultParallel, 1}
	}
	var sb strings.Builder
	fmt.Fprintf(&sb, "c16pick %d %d %d %d", map[bool]int{false: 0, true: 1}[cfg.Spread], cfg.Parallel, defaultParallel, len(tries))
	for _, p := range tries {
		fmt.Fprintf(&sb, " %d %s", p, vpCommon(cfg, l, variant, cfg.OrigNumCtx*p, p))
	}
	sb.WriteString(" " + vpGpuToks(inv))
	req := vpReq(cfg, l)
	np := cfg.Parallel
	var got discover.GpuInfoList
	impl := ""
	func() {
		defer func() {
			if x := recover(); x != nil {
				impl = "panic:" + strings.ReplaceAll(fmt.Sprint(x), "\n", " ")
			}
		}()
		got = pickBestFullFitByLibrary(req, l.f, append(discover.GpuInfoList(nil), inv...), &np)
		if got == nil {
			impl = "nil"
		} else {
			impl = fmt.Sprintf("ids=%s p=%d", vpIds(got), np)
		}
	}()
	out.Case(sb.String(), impl)
	out.Count("pick_cases")
	out.Count(fmt.Sprintf("pick_ngpus_%d", len(inv)))
	if cfg.Tag != "" {
		out.Count("pick_gen_" + cfg.Tag)
	}
	if strings.HasPrefix(impl, "panic:") {
		out.L2("panic", caseLine, impl)
		return
	}
	want := func(layers int) bool { // every layer of the model, or the user's limit if that is lower
		if cfg.NumGPU < 0 {
			return layers == blocks+1
		}
		return layers > 0 && layers >= min(cfg.NumGPU, blocks+1)
	}
	switch {
	case got == nil:
		out.Count("pick_full_nil")
	default:
		if len(got) == 1 {
			out.Count("pick_full_single")
		} else {
			out.Count("pick_full_multi")
		}
		out.Count(fmt.Sprintf("pick_full_p_%d", np))
		// the list must be non-empty, from the inventory, of one library key
		okList := len(got) > 0
		for _, g := range got {
			found := false
			for _, x := range inv {
				if x.ID == g.ID && x.Library == g.Library && x.FreeMemory == g.FreeMemory {
					found = true
				}
			}
			if !found || g.Library != got[0].Library || g.Variant != got[0].Variant {
				okList = false
			}
		}
		inTries := false
		for _, p := range tries {
			if p == np {
				inTries = true
			}
		}
		if !okList || !inTries {
			out.L2("full-fit-bad-list", caseLine, fmt.Sprintf("returned %s p=%d", vpIds(got), np))
		}
		// what NewLlamaServer does next: the estimator on the returned list, same order, same options
		e := llm.EstimateGPULayers(append(discover.GpuInfoList(nil), got...), l.f, l.projs, req.opts, np)
		if !want(e.Layers) {
			out.L2("full-fit-not-placed", caseLine, fmt.Sprintf("full fit declared on [%s] with numParallel=%d NumCtx=%d, but the estimator on that list places %d of %d layers (num_gpu=%d, split=%q)",
				vpIds(got), np, req.opts.NumCtx, e.Layers, blocks+1, cfg.NumGPU, e.TensorSplit))
		}
		if os.Getenv("VERIF_C16_LITERAL") != "" && e.Layers != blocks+1 {
			class := "other"
			if cfg.NumGPU > 0 && cfg.NumGPU < blocks+1 {
				class = "user-limit"
			}
			out.L2("full-fit-partial-offload", caseLine, fmt.Sprintf("class=%s full fit declared on [%s] although %d of the model's %d layers are placed there (num_gpu=%d)", class, vpIds(got), e.Layers, blocks+1, cfg.NumGPU))
		}
		if len(got) > 1 {
			// coverage: is the estimate sensitive to the order of this list? (enumeration order of the same GPUs)
			var enum discover.GpuInfoList
			for _, x := range inv {
				for _, g := range got {
					if x.ID == g.ID {
						enum = append(enum, x)
					}
				}
			}
			e2 := llm.EstimateGPULayers(enum, l.f, l.projs, req.opts, np)
			if vpIds(enum) != vpIds(got) {
				out.Count("pick_full_multi_reordered")
				if want(e.Layers) && !want(e2.Layers) {
					out.Count("pick_full_multi_order_sensitive")
				}
			}
		}
	}

	// ---- partial fit
	req2 := vpReq(cfg, l)
	np2 := cfg.Parallel
	pp := cfg.Parallel
	ctx2 := req2.opts.NumCtx
	if pp <= 0 {
		pp = 1
		ctx2 = cfg.OrigNumCtx
	}
	op2 := "c16part " + vpCommon(cfg, l, variant, ctx2, pp) + " " + vpGpuToks(inv)
	impl2 := ""
	var got2 discover.GpuInfoList
	func() {
		defer func() {
			if x := recover(); x != nil {
				impl2 = "panic:" + strings.ReplaceAll(fmt.Sprint(x), "\n", " ")
			}
		}()
		got2 = pickBestPartialFitByLibrary(req2, l.f, append(discover.GpuInfoList(nil), inv...), &np2)
		impl2 = "ids=" + vpIds(got2)
	}()
	out.Case(op2, impl2)
	if strings.HasPrefix(impl2, "panic:") {
		out.L2("panic", caseLine, impl2)
		return
	}
	groups := inv.ByLibrary()
	isGroup := vpIds(got2) == vpIds(inv)
	for _, g := range groups {
		if vpIds(g) == vpIds(got2) {
			isGroup = true
		}
	}
	if !isGroup || np2 != pp {
		out.L2("partial-not-a-group", caseLine, fmt.Sprintf("returned %s numParallel=%d", vpIds(got2), np2))
	}
	out.Count(fmt.Sprintf("pick_partial_groups_%d", len(groups)))
}

func vpGen(r *zzverif.Rng) *vpCfg {
	cfg := &vpCfg{Kind: "pick", Arch: zzverif.Pick(r, []string{"llama", "llama", "qwen2", "verifarch"}),
		Heads: 32, HeadsKV: uint32(zzverif.Pick(r, []int{8, 32})), Emb: uint32(zzverif.Pick(r, []int{1024, 4096}))}
	cfg.Blocks = r.Range(1, 24)
	base := uint64(1) << uint(r.Range(18, 27)) // elements: 1 MiB .. 512 MiB per tensor
	uneven := r.Intn(3)
	for i := 0; i < cfg.Blocks; i++ {
		e := base
		switch uneven {
		case 1:
			e = base + r.U64()%(base/4+1)
		case 2:
			e = base/8 + r.U64()%(base*2)
		}
		if cfg.Blocks > 2 && r.Chance(1, 30) {
			continue // a block without tensors
		}
		cfg.Tensors = append(cfg.Tensors, vpTensor{Name: fmt.Sprintf("blk.%d.attn_q.weight", i), Elems: e})
	}
	cfg.Tensors = append(cfg.Tensors, vpTensor{Name: "token_embd.weight", Elems: base/2 + 1})
	if r.Bool() {
		cfg.Tensors = append(cfg.Tensors, vpTensor{Name: "output.weight", Elems: base/2 + uint64(r.Intn(4096)) + 1})
	}
	if r.Chance(3, 4) {
		cfg.Tensors = append(cfg.Tensors, vpTensor{Name: "output_norm.weight", Elems: uint64(r.Range(1, 8192))})
	}
	if r.Chance(2, 5) { // projector(s): gpu-zero overhead, makes the estimate depend on which GPU comes first
		np := r.Range(1, 2)
		for i := 0; i < np; i++ {
			var ts []uint64
			for k := 0; k < r.Range(1, 3); k++ {
				ts = append(ts, base*uint64(r.Range(1, 6))/2+1)
			}
			cfg.Projs = append(cfg.Projs, ts)
		}
	}
	cfg.OrigNumCtx = zzverif.Pick(r, []int{512, 2048, 2048, 4096})
	cfg.NumBatch = zzverif.Pick(r, []int{512, 512, 128})
	cfg.Parallel = zzverif.Pick(r, []int{0, 0, 0, 1, 1, 2, -1})
	cfg.Spread = r.Chance(1, 6)
	if r.Chance(1, 5) {
		cfg.Overhead = uint64(r.Range(1, 2048)) << 20
	}
	switch r.Intn(10) {
	case 0:
		cfg.NumGPU = cfg.Blocks + 1
	case 1:
		cfg.NumGPU = r.Range(1, cfg.Blocks+1)
	case 2:
		cfg.NumGPU = zzverif.Pick(r, []int{0, 999})
	default:
		cfg.NumGPU = -1
	}
	return cfg
}

// vpGenGPUs draws an inventory whose free memory is scaled to `need` (bytes the model needs in total).
func vpGenGPUs(r *zzverif.Rng, cfg *vpCfg, need uint64) {
	n := r.Range(2, 5)
	if r.Chance(1, 5) {
		n = r.Range(1, 8)
	}
	libs := []string{"cuda", "cuda", "rocm", "oneapi", "metal"}
	lib := zzverif.Pick(r, libs)
	lib2 := zzverif.Pick(r, libs)
	mixed := r.Chance(1, 4)
	cfg.GPUs, cfg.Variants = nil, nil
	mode := r.Intn(6)
	cfg.Tag = []string{"single_fits", "sum_fits", "sum_fits_small_first", "sum_near", "none_fits", "random"}[mode]
	for i := 0; i < n; i++ {
		g := vsGPU{Lib: lib, Min: zzverif.Pick(r, []uint64{0, 0, 457 << 20, uint64(r.Intn(256 << 20))})}
		v := ""
		if mixed {
			switch r.Intn(3) {
			case 0:
				g.Lib = lib2
			case 1:
				v = "v12"
			}
		}
		share := need/uint64(n) + 1
		switch mode {
		case 0:
			g.Free = need/8*uint64(r.Range(2, 12)) + g.Min
		case 1:
			g.Free = share/8*uint64(r.Range(9, 20)) + need/16 + g.Min
		case 2:
			if i == 0 {
				g.Free = share/16*uint64(r.Range(2, 12)) + need/16 + g.Min
			} else {
				g.Free = need/uint64(max(n-1, 1))/8*uint64(r.Range(8, 14)) + need/16 + g.Min
			}
		case 3:
			g.Free = share/32*uint64(r.Range(30, 52)) + need/16 + g.Min
		case 4:
			g.Free = share / 16 * uint64(r.Range(0, 10))
		default:
			g.Free = need/16*uint64(r.Range(0, 24)) + uint64(r.Intn(1<<20))
		}
		if len(cfg.GPUs) > 0 && r.Chance(1, 12) {
			g.Free = cfg.GPUs[r.Intn(len(cfg.GPUs))].Free // a tie in free memory (stable sort)
		}
		g.Total = g.Free + uint64(r.Intn(1<<30))
		cfg.GPUs = append(cfg.GPUs, g)
		cfg.Variants = append(cfg.Variants, v)
	}
}

func TestVerifC16Pick(t *testing.T) {
	slog.SetDefault(slog.New(slog.NewTextHandler(io.Discard, nil)))
	t.Setenv("OLLAMA_FLASH_ATTENTION", "")
	t.Setenv("OLLAMA_KV_CACHE_TYPE", "")
	t.Setenv("OLLAMA_GPU_OVERHEAD", "0")
	t.Setenv("OLLAMA_SCHED_SPREAD", "")
	out := zzverif.NewOut()
	defer out.Close()
	base := t.TempDir()

	one := func(cfg *vpCfg) {
		dir, err := os.MkdirTemp(base, "p")
		if err != nil {
			t.Fatal(err)
		}
		defer os.RemoveAll(dir)
		l := vpLoad(dir, cfg)
		vpRun(out, cfg, l, vpVariant(l))
	}
	if rp := os.Getenv("VERIF_REPLAY"); rp != "" {
		raw, err := os.ReadFile(rp)
		if err != nil {
			t.Fatal(err)
		}
		var cfg vpCfg
		if err := json.Unmarshal(bytes.TrimSpace(raw), &cfg); err != nil || cfg.Kind != "pick" {
			t.Fatalf("replay case is not a C16 pick configuration: %v", err)
		}
		one(&cfg)
		return
	}
	if cd := os.Getenv("VERIF_CORPUS"); cd != "" {
		files, _ := filepath.Glob(cd + "/pick-*.json")
		for _, fn := range files {
			raw, err := os.ReadFile(fn)
			if err != nil {
				t.Fatal(err)
			}
			var cfg vpCfg
			if err := json.Unmarshal(bytes.TrimSpace(raw), &cfg); err != nil {
				t.Fatalf("%s: %v", fn, err)
			}
			cfg.Tag = "corpus"
			one(&cfg)
		}
	}
	target := zzverif.EnvInt("VERIF_N", 1500)
	root := zzverif.NewRng(zzverif.Seed() ^ 0xF17)
	cases := 0
	for cases < target {
		r := root.Fork()
		cfg := vpGen(r)
		dir, err := os.MkdirTemp(base, "m")
		if err != nil {
			t.Fatal(err)
		}
		l := vpLoad(dir, cfg)
		variant := vpVariant(l)
		// total requirement with unlimited memory (scales the inventory)
		os.Setenv("OLLAMA_GPU_OVERHEAD", "0")
		big := discover.GpuInfo{Library: "cuda", ID: "big"}
		big.FreeMemory = 1 << 60
		o := api.DefaultOptions()
		o.NumCtx = cfg.OrigNumCtx
		o.NumBatch = cfg.NumBatch
		need := llm.EstimateGPULayers([]discover.GpuInfo{big}, l.f, l.projs, o, 1).TotalSize
		for k := 0; k < 8; k++ {
			rr := r.Fork()
			vpGenGPUs(rr, cfg, need)
			vpRun(out, cfg, l, variant)
			cases++
		}
		os.RemoveAll(dir)
	}
}

// ---------------------------------------------------------------------------------------------
// the scheduler's load path: the REAL Scheduler.processPending (GPU branch) on histories of requests
//
// One case = one scheduling attempt of the real processPending (under testing/synctest) for a model that is not
// loaded, with `loadFn` replaced by a recorder: inventory from getGpuFn, runners in s.loaded (loading flags, the
// GPUs they were provisioned on, per-GPU predictions).  A history = a sequence of requests for further models on
// the same scheduler state (the recorder installs the runner the way Scheduler.load does; an eviction removes the
// runner the real code picked; a delay lets the loading runners finish).
//
//   L1: the decision (load full/partial on which GPUs in which order with which adjusted free figures and
//       numParallel | evict | delay) == oracle `c16load` (model `loadDecision`: filterGPUsWithoutLoadingModels,
//       updateFreeSpace, pickBestFullFitByLibrary / pickBestPartialFitByLibrary and the glue between them).
//   L2 (model-independent, real estimator on the very arguments of loadFn):
//       `load-exceeds-reported`  size + overhead > the free memory the GPU REPORTED for this request;
//       `load-exceeds-total`     sum over all loaded runners of the sizes planned on a GPU (+ overhead) > its total;
//       `load-on-loading-gpu`    the new model goes to a GPU on which another model is still loading;
//       `load-partial-with-loaded` not every requested layer placed although other models are loaded;
//       `load-parallel`          embedding / mllama model loaded with numParallel != 1.

type vlStep struct {
	Free    []uint64 `json:"free"`              // FreeMemory every inventory GPU reports at this request
	RefBusy bool     `json:"busy,omitempty"`    // loaded runners have refCount 1 (nothing idle)
}

type vlCfg struct {
	Kind  string   `json:"kind"` // "load"
	M     vpCfg    `json:"m"`    // model, inventory (Total, Min, Lib, Variants), options, parallel, spread, overhead
	Steps []vlStep `json:"steps"`
}

type vlRunner struct {
	name    string
	ids     []int // inventory indices of runner.gpus, in order
	sizes   []uint64
	loading bool
}

func vlIdx(id string) int {
	n, _ := strconv.Atoi(strings.TrimPrefix(id, "G"))
	return n
}

type vlOutcome struct {
	kind   string // load | evict | delay | none
	gpus   discover.GpuInfoList
	p      int
	opts   api.Options
	victim string
}

// vlAttempt runs the real processPending once on the given state.
func vlAttempt(t *testing.T, cfg *vlCfg, l *vpLoaded, step *vlStep, runners []*vlRunner, modelPath string) vlOutcome {
	var res vlOutcome
	res.kind = "none"
	synctest.Test(t, func(t *testing.T) {
		ctx, cancel := context.WithCancel(context.Background())
		s := InitScheduler(ctx)
		inv := vpInventory(&cfg.M)
		for i := range inv {
			inv[i].FreeMemory = step.Free[i]
		}
		s.getGpuFn = func() discover.GpuInfoList { return append(discover.GpuInfoList(nil), inv...) }
		s.getCpuFn = func() discover.GpuInfoList {
			if len(inv) == 1 && inv[0].Library == "cpu" {
				return append(discover.GpuInfoList(nil), inv...)
			}
			panic("cpu list requested")
		}
		s.reschedDelay = time.Millisecond
		refs := map[string]*runnerRef{}
		for _, r := range runners {
			var gl discover.GpuInfoList
			est := map[string]uint64{}
			for k, ix := range r.ids {
				gl = append(gl, inv[ix])
				if k < len(r.sizes) {
					if _, dup := est[inv[ix].ID]; !dup {
						est[inv[ix].ID] = r.sizes[k]
					}
				}
			}
			ref := &runnerRef{gpus: gl, numParallel: 1, loading: r.loading, modelPath: r.name, sessionDuration: time.Hour,
				llama: &mockLlm{estimatedVRAMByGPU: est}, model: &Model{ModelPath: r.name}}
			if step.RefBusy {
				ref.refCount = 1
			}
			refs[r.name] = ref
			s.loaded[r.name] = ref
		}
		called := false
		s.loadFn = func(req *LlmRequest, f *ggml.GGML, gpus discover.GpuInfoList, numParallel int) {
			called = true
			res.gpus = append(discover.GpuInfoList(nil), gpus...)
			res.p = numParallel
			res.opts = req.opts
		}
		opts := api.DefaultOptions()
		opts.NumGPU = cfg.M.NumGPU
		opts.NumBatch = cfg.M.NumBatch
		opts.NumCtx = cfg.M.OrigNumCtx
		m := &Model{ModelPath: modelPath, ProjectorPaths: l.projs}
		if cfg.M.Mllama {
			m.Config.ModelFamilies = []string{"mllama"}
		}
		req := &LlmRequest{ctx: ctx, model: m, opts: opts, successCh: make(chan *runnerRef, 1), errCh: make(chan error, 1)}
		go s.processPending(ctx)
		s.pendingReqCh <- req
		synctest.Wait()
		switch {
		case called:
			res.kind = "load"
		default:
			for name, ref := range refs {
				if ref.sessionDuration == 0 {
					res.kind, res.victim = "evict", name
				}
			}
			if res.kind == "none" {
				select {
				case err := <-req.errCh:
					res.kind = "err:" + strings.ReplaceAll(err.Error(), " ", "_")
				default:
					if req.schedAttempts >= 1 {
						res.kind = "delay"
					}
				}
			}
		}
		cancel()
		// the fake clock stops when this function returns: let the requeue goroutine of the delay path
		// (time.Sleep(reschedDelay); pendingReqCh <- pending) run out first
		time.Sleep(10 * time.Millisecond)
		synctest.Wait()
	})
	return res
}

func vlOp(cfg *vlCfg, l *vpLoaded, variant int, step *vlStep, runners []*vlRunner) string {
	var sb strings.Builder
	b := func(x bool) int {
		if x {
			return 1
		}
		return 0
	}
	ps := []int{defaultParallel, 1}
	if cfg.M.Parallel > 1 && cfg.M.Parallel != defaultParallel {
		ps = append(ps, cfg.M.Parallel)
	}
	fmt.Fprintf(&sb, "c16load %d %d %d %d %d %d", b(cfg.M.Spread), cfg.M.Parallel, b(cfg.M.Mllama), b(cfg.M.Embed), defaultParallel, len(ps))
	for _, p := range ps {
		fmt.Fprintf(&sb, " %d %s", p, vpCommon(&cfg.M, l, variant, cfg.M.OrigNumCtx*p, p))
	}
	inv := vpInventory(&cfg.M)
	keys := map[string]int{}
	fmt.Fprintf(&sb, " %d", len(inv))
	for i, x := range inv {
		k := x.Library
		if x.Variant != "" {
			k += "_" + x.Variant
		}
		if _, ok := keys[k]; !ok {
			keys[k] = len(keys)
		}
		fmt.Fprintf(&sb, " %d %d %s %d %d %d %d", keys[k], i, vpLibTok(x.Library), step.Free[i], x.MinimumMemory, i, x.TotalMemory)
	}
	fmt.Fprintf(&sb, " %d", len(runners))
	for _, r := range runners {
		fmt.Fprintf(&sb, " %d %d", b(r.loading), len(r.ids))
		for _, ix := range r.ids {
			fmt.Fprintf(&sb, " %d", ix)
		}
		fmt.Fprintf(&sb, " %d", len(r.sizes))
		for _, z := range r.sizes {
			fmt.Fprintf(&sb, " %d", z)
		}
	}
	return sb.String()
}

func vlFrees(l discover.GpuInfoList) string {
	if len(l) == 0 {
		return "-"
	}
	parts := make([]string, len(l))
	for i, g := range l {
		parts[i] = strconv.FormatUint(g.FreeMemory, 10)
	}
	return strings.Join(parts, ",")
}

func vlRunHistory(t *testing.T, out *zzverif.Out, cfg *vlCfg, l *vpLoaded, variant int) (cases int) {
	js, err := json.Marshal(cfg)
	if err != nil {
		panic(err)
	}
	caseLine := string(js) // accurate-report sentinels (2^64-1) are resolved the same way on replay
	os.Setenv("OLLAMA_GPU_OVERHEAD", strconv.FormatUint(cfg.M.Overhead, 10))
	os.Setenv("OLLAMA_SCHED_SPREAD", map[bool]string{false: "", true: "1"}[cfg.M.Spread])
	os.Setenv("OLLAMA_NUM_PARALLEL", strconv.Itoa(max(cfg.M.Parallel, 0)))
	os.Setenv("OLLAMA_MAX_LOADED_MODELS", "64")
	blocks := int(l.f.KV().BlockCount())
	inv := vpInventory(&cfg.M)
	var runners []*vlRunner
	out.Count("load_histories")
	for si := range cfg.Steps {
		stepv := vlStep{RefBusy: cfg.Steps[si].RefBusy, Free: append([]uint64(nil), cfg.Steps[si].Free...)}
		step := &stepv
		for i := range step.Free {
			if step.Free[i] == ^uint64(0) { // an accurate driver: total less what the loaded models were planned to use
				used := uint64(0)
				for _, r := range runners {
					for k, rx := range r.ids {
						if rx == i && k < len(r.sizes) {
							used += r.sizes[k]
						}
					}
				}
				step.Free[i] = 0
				if used <= inv[i].TotalMemory {
					step.Free[i] = inv[i].TotalMemory - used
				}
			}
		}
		name := fmt.Sprintf("%s.req%02d", l.path, si)
		if err := os.Link(l.path, name); err != nil {
			panic(err)
		}
		for attempt := 0; attempt < 8; attempt++ {
			sort.Slice(runners, func(i, j int) bool { return runners[i].name < runners[j].name })
			op := vlOp(cfg, l, variant, step, runners)
			var res vlOutcome
			impl := ""
			func() {
				defer func() {
					if x := recover(); x != nil {
						impl = "panic:" + strings.ReplaceAll(fmt.Sprint(x), "\n", " ")
					}
				}()
				res = vlAttempt(t, cfg, l, step, runners, name)
			}()
			var e llm.MemoryEstimate
			wantLayers := func(layers int) bool {
				if cfg.M.NumGPU < 0 {
					return layers >= blocks+1
				}
				return layers > 0 && layers >= min(cfg.M.NumGPU, blocks+1)
			}
			full := false
			if impl == "" {
				switch res.kind {
				case "load":
					e = llm.EstimateGPULayers(append(discover.GpuInfoList(nil), res.gpus...), l.f, l.projs, res.opts, res.p)
					full = wantLayers(e.Layers)
					impl = fmt.Sprintf("load ids=%s free=%s p=%d", vpIds(res.gpus), vlFrees(res.gpus), res.p)
				default:
					impl = res.kind
				}
			}
			out.Case(op, impl)
			cases++
			out.Count("load_cases")
			out.Count(fmt.Sprintf("load_runners_%d", len(runners)))
			nloading := 0
			for _, r := range runners {
				if r.loading {
					nloading++
				}
			}
			if nloading > 0 {
				out.Count("load_with_loading_runner")
			}
			if strings.HasPrefix(impl, "panic:") || strings.HasPrefix(impl, "err:") || impl == "none" {
				out.L2("panic", caseLine, fmt.Sprintf("step=%d attempt=%d %s", si, attempt, impl))
				return cases
			}
			if res.kind == "evict" {
				out.Count("load_decision_evict")
				var keep []*vlRunner
				for _, r := range runners {
					if r.name != res.victim {
						keep = append(keep, r)
					}
				}
				runners = keep
				continue
			}
			if res.kind == "delay" {
				out.Count("load_decision_delay")
				for _, r := range runners {
					r.loading = false
				}
				continue
			}
			// ---- a load: L2 on the real estimate for the very arguments of loadFn
			if full {
				out.Count("load_decision_full")
			} else {
				out.Count("load_decision_partial")
			}
			if len(res.gpus) > 1 {
				out.Count("load_multi_gpu")
			}
			lowered := false
			nr := &vlRunner{name: name, loading: true}
			for i, g := range res.gpus {
				ix := vlIdx(g.ID)
				nr.ids = append(nr.ids, ix)
				if g.FreeMemory < step.Free[ix] {
					lowered = true
				}
				for _, r := range runners {
					if r.loading {
						for _, rx := range r.ids {
							if rx == ix {
								out.L2("load-on-loading-gpu", caseLine, fmt.Sprintf("step=%d gpu=%s is still loading %s", si, g.ID, filepath.Base(r.name)))
							}
						}
					}
				}
				var sz uint64
				if i < len(e.GPUSizes) {
					sz = e.GPUSizes[i]
				}
				if sz != 0 {
					need, c := bits.Add64(sz, cfg.M.Overhead, 0)
					if c != 0 || need > step.Free[ix] {
						out.L2("load-exceeds-reported", caseLine, fmt.Sprintf("nowrap=true step=%d gpu=%s size=%d overhead=%d reported free=%d adjusted free=%d", si, g.ID, sz, cfg.M.Overhead, step.Free[ix], g.FreeMemory))
					}
					used := need
					for _, r := range runners {
						for k, rx := range r.ids {
							if rx == ix && k < len(r.sizes) {
								used += r.sizes[k]
							}
						}
					}
					if used > inv[ix].TotalMemory {
						out.L2("load-exceeds-total", caseLine, fmt.Sprintf("nowrap=true step=%d gpu=%s planned for all loaded models=%d (new %d + overhead %d) total=%d", si, g.ID, used, sz, cfg.M.Overhead, inv[ix].TotalMemory))
					}
				}
			}
			if lowered {
				out.Count("load_on_lowered_free")
			}
			nr.sizes = append(nr.sizes, e.GPUSizes...)
			if len(runners) > 0 && !wantLayers(e.Layers) {
				out.L2("load-partial-with-loaded", caseLine, fmt.Sprintf("step=%d %d other model(s) loaded, yet only %d of %d layers placed (num_gpu=%d) on [%s]", si, len(runners), e.Layers, blocks+1, cfg.M.NumGPU, vpIds(res.gpus)))
			}
			if (cfg.M.Embed || cfg.M.Mllama) && res.p != 1 {
				out.L2("load-parallel", caseLine, fmt.Sprintf("step=%d numParallel=%d for an embedding/mllama model", si, res.p))
			}
			out.Count(fmt.Sprintf("load_p_%d", res.p))
			if (cfg.M.Embed || cfg.M.Mllama) && cfg.M.Parallel != 1 {
				out.Count("load_forced_parallel_1")
			}
			runners = append(runners, nr)
			break
		}
	}
	out.Count(fmt.Sprintf("load_final_runners_%d", len(runners)))
	return cases
}

func vlGen(r *zzverif.Rng, cfg *vlCfg, need uint64) {
	m := &cfg.M
	n := r.Range(1, 4)
	if r.Chance(1, 6) {
		n = r.Range(1, 8)
	}
	libs := []string{"cuda", "cuda", "rocm", "oneapi", "metal"}
	lib := zzverif.Pick(r, libs)
	lib2 := zzverif.Pick(r, libs)
	mixed := r.Chance(1, 5)
	m.GPUs, m.Variants = nil, nil
	mode := zzverif.Pick(r, []int{0, 0, 0, 1, 1, 2, 2, 3})
	m.Tag = []string{"roomy", "one_each", "split", "tight"}[mode]
	for i := 0; i < n; i++ {
		g := vsGPU{Lib: lib, Min: zzverif.Pick(r, []uint64{0, 0, 457 << 20, uint64(r.Intn(256 << 20))})}
		v := ""
		if mixed {
			switch r.Intn(3) {
			case 0:
				g.Lib = lib2
			case 1:
				v = "v12"
			}
		}
		switch mode {
		case 0: // several models per GPU
			g.Total = need/4*uint64(r.Range(5, 24)) + g.Min
		case 1: // about one model per GPU
			g.Total = need/16*uint64(r.Range(14, 30)) + g.Min
		case 2: // a model needs most of the GPUs
			g.Total = need/uint64(n)/8*uint64(r.Range(7, 20)) + need/16 + g.Min
		default:
			g.Total = need/32*uint64(r.Range(1, 40)) + g.Min
		}
		m.GPUs = append(m.GPUs, g)
		m.Variants = append(m.Variants, v)
	}
	m.Embed = r.Chance(1, 10)
	m.Mllama = r.Chance(1, 10)
	if m.Parallel < 0 {
		m.Parallel = 0
	}
	if m.NumGPU == 0 {
		m.NumGPU = -1
	}
	cfg.Steps = nil
	ns := r.Range(2, 8)
	for k := 0; k < ns; k++ {
		st := vlStep{RefBusy: r.Chance(1, 4)}
		for i := range m.GPUs {
			t := m.GPUs[i].Total
			var f uint64
			switch r.Intn(8) {
			case 0, 1: // laggy driver: still reports everything free
				f = t
			case 2:
				f = t / 16 * uint64(r.Range(0, 16))
			case 3:
				f = t - t/64*uint64(r.Range(0, 8))
			default: // an accurate driver report, resolved at run time: total less what the loaded models use
				f = ^uint64(0)
			}
			st.Free = append(st.Free, f)
		}
		cfg.Steps = append(cfg.Steps, st)
	}
}

func TestVerifC16Load(t *testing.T) {
	slog.SetDefault(slog.New(slog.NewTextHandler(io.Discard, nil)))
	t.Setenv("OLLAMA_FLASH_ATTENTION", "")
	t.Setenv("OLLAMA_KV_CACHE_TYPE", "")
	t.Setenv("OLLAMA_GPU_OVERHEAD", "0")
	t.Setenv("OLLAMA_SCHED_SPREAD", "")
	t.Setenv("OLLAMA_NUM_PARALLEL", "0")
	t.Setenv("OLLAMA_MAX_LOADED_MODELS", "64")
	out := zzverif.NewOut()
	defer out.Close()
	base := t.TempDir()

	one := func(cfg *vlCfg) {
		dir, err := os.MkdirTemp(base, "h")
		if err != nil {
			t.Fatal(err)
		}
		defer os.RemoveAll(dir)
		l := vpLoad(dir, &cfg.M)
		vlRunHistory(t, out, cfg, l, vpVariant(l))
	}
	if rp := os.Getenv("VERIF_REPLAY"); rp != "" {
		raw, err := os.ReadFile(rp)
		if err != nil {
			t.Fatal(err)
		}
		var cfg vlCfg
		if err := json.Unmarshal(bytes.TrimSpace(raw), &cfg); err != nil || cfg.Kind != "load" {
			t.Fatalf("replay case is not a C16 load-path history: %v", err)
		}
		one(&cfg)
		return
	}
	if cd := os.Getenv("VERIF_CORPUS"); cd != "" {
		files, _ := filepath.Glob(cd + "/load-*.json")
		for _, fn := range files {
			raw, err := os.ReadFile(fn)
			if err != nil {
				t.Fatal(err)
			}
			var cfg vlCfg
			if err := json.Unmarshal(bytes.TrimSpace(raw), &cfg); err != nil {
				t.Fatalf("%s: %v", fn, err)
			}
			one(&cfg)
		}
	}
	target := zzverif.EnvInt("VERIF_N", 600)
	root := zzverif.NewRng(zzverif.Seed() ^ 0x10AD)
	cases := 0
	for cases < target {
		r := root.Fork()
		cfg := &vlCfg{Kind: "load", M: *vpGen(r)}
		dir, err := os.MkdirTemp(base, "m")
		if err != nil {
			t.Fatal(err)
		}
		cfg.M.Embed, cfg.M.Mllama = false, false
		l := vpLoad(dir, &cfg.M)
		variant := vpVariant(l)
		os.Setenv("OLLAMA_GPU_OVERHEAD", "0")
		big := discover.GpuInfo{Library: "cuda", ID: "big"}
		big.FreeMemory = 1 << 60
		o := api.DefaultOptions()
		o.NumCtx = cfg.M.OrigNumCtx
		o.NumBatch = cfg.M.NumBatch
		need := llm.EstimateGPULayers([]discover.GpuInfo{big}, l.f, l.projs, o, 1).TotalSize
		for k := 0; k < 4; k++ {
			rr := r.Fork()
			vlGen(rr, cfg, need)
			if cfg.M.Embed { // the capability is read from the file: rewrite it
				os.RemoveAll(dir)
				os.MkdirAll(dir, 0o755)
				l = vpLoad(dir, &cfg.M)
			}
			cases += vlRunHistory(t, out, cfg, l, variant)
			if cfg.M.Embed {
				cfg.M.Embed = false
				os.RemoveAll(dir)
				os.MkdirAll(dir, 0o755)
				l = vpLoad(dir, &cfg.M)
			}
			// remove the per-request links of this history
			links, _ := filepath.Glob(l.path + ".req*")
			for _, ln := range links {
				os.Remove(ln)
			}
		}
		os.RemoveAll(dir)
	}
}

// ---------------------------------------------------------------------------------------------
// the CPU branch of the REAL Scheduler.processPending (`len(gpus) == 1 && gpus[0].Library == "cpu"`)
//
//   L1: load (numParallel) | evict == oracle `c16cpu` (model `cpuDecision`: first model loads; next to loaded models only
//       if the estimate's TotalSize <= free system memory — maybeFindCPURunnerToUnload).
//   L2: `cpu-load-exceeds-system-memory` (loaded next to other models although the real estimate's TotalSize exceeds the
//       free system memory), `cpu-load-offloads` (layers offloaded in CPU mode).

type vuCfg struct {
	Kind    string `json:"kind"` // "cpu"
	M       vpCfg  `json:"m"`    // model + options; GPUs = the single "cpu" entry (Free = free system memory)
	Runners int    `json:"runners"`
	Busy    bool   `json:"busy,omitempty"`
}

func vuRun(t *testing.T, out *zzverif.Out, cfg *vuCfg, l *vpLoaded, variant int) {
	js, _ := json.Marshal(cfg)
	caseLine := string(js)
	os.Setenv("OLLAMA_GPU_OVERHEAD", strconv.FormatUint(cfg.M.Overhead, 10))
	os.Setenv("OLLAMA_SCHED_SPREAD", "")
	os.Setenv("OLLAMA_NUM_PARALLEL", strconv.Itoa(max(cfg.M.Parallel, 0)))
	os.Setenv("OLLAMA_MAX_LOADED_MODELS", "64")
	lc := &vlCfg{Kind: "load", M: cfg.M}
	step := &vlStep{Free: []uint64{cfg.M.GPUs[0].Free}, RefBusy: cfg.Busy}
	var runners []*vlRunner
	for i := 0; i < cfg.Runners; i++ {
		runners = append(runners, &vlRunner{name: fmt.Sprintf("other%d", i), ids: []int{0}, sizes: []uint64{0}})
	}
	b := func(x bool) int {
		if x {
			return 1
		}
		return 0
	}
	ps := []int{defaultParallel, 1}
	if cfg.M.Parallel > 1 && cfg.M.Parallel != defaultParallel {
		ps = append(ps, cfg.M.Parallel)
	}
	var sb strings.Builder
	fmt.Fprintf(&sb, "c16cpu %d %d %d %d %d", cfg.M.Parallel, b(cfg.M.Mllama), b(cfg.M.Embed), defaultParallel, len(ps))
	for _, p := range ps {
		fmt.Fprintf(&sb, " %d %s", p, vpCommon(&cfg.M, l, variant, cfg.M.OrigNumCtx*p, p))
	}
	fmt.Fprintf(&sb, " %d %d %d", cfg.M.GPUs[0].Free, cfg.M.GPUs[0].Min, cfg.Runners)
	name := l.path + ".cpureq"
	os.Remove(name)
	if err := os.Link(l.path, name); err != nil {
		panic(err)
	}
	defer os.Remove(name)
	var res vlOutcome
	impl := ""
	func() {
		defer func() {
			if x := recover(); x != nil {
				impl = "panic:" + strings.ReplaceAll(fmt.Sprint(x), "\n", " ")
			}
		}()
		res = vlAttempt(t, lc, l, step, runners, name)
	}()
	if impl == "" {
		switch res.kind {
		case "load":
			impl = fmt.Sprintf("load ids=%s free=%s p=%d", vpIds(res.gpus), vlFrees(res.gpus), res.p)
		default:
			impl = res.kind
		}
	}
	out.Case(sb.String(), impl)
	out.Count("cpu_cases")
	out.Count(fmt.Sprintf("cpu_runners_%d", min(cfg.Runners, 2)))
	if strings.HasPrefix(impl, "panic:") || strings.HasPrefix(impl, "err:") || impl == "none" || impl == "delay" {
		out.L2("panic", caseLine, "cpu branch: "+impl)
		return
	}
	if res.kind == "evict" {
		out.Count("cpu_decision_evict")
		return
	}
	out.Count("cpu_decision_load")
	out.Count(fmt.Sprintf("cpu_p_%d", res.p))
	np := 1
	if cfg.M.OrigNumCtx > 0 {
		np = res.opts.NumCtx / cfg.M.OrigNumCtx
	}
	e := llm.EstimateGPULayers(append(discover.GpuInfoList(nil), res.gpus...), l.f, l.projs, res.opts, np)
	if e.Layers != 0 || e.VRAMSize != 0 {
		out.L2("cpu-load-offloads", caseLine, fmt.Sprintf("layers=%d vram=%d in CPU mode", e.Layers, e.VRAMSize))
	}
	if cfg.Runners > 0 {
		out.Count("cpu_load_next_to_loaded")
		if e.TotalSize > cfg.M.GPUs[0].Free {
			out.L2("cpu-load-exceeds-system-memory", caseLine, fmt.Sprintf("%d model(s) loaded, new model needs TotalSize=%d > free system memory=%d (numParallel=%d NumCtx=%d)", cfg.Runners, e.TotalSize, cfg.M.GPUs[0].Free, res.p, res.opts.NumCtx))
		}
	}
}

func TestVerifC16Cpu(t *testing.T) {
	slog.SetDefault(slog.New(slog.NewTextHandler(io.Discard, nil)))
	t.Setenv("OLLAMA_FLASH_ATTENTION", "")
	t.Setenv("OLLAMA_KV_CACHE_TYPE", "")
	t.Setenv("OLLAMA_GPU_OVERHEAD", "0")
	t.Setenv("OLLAMA_SCHED_SPREAD", "")
	t.Setenv("OLLAMA_NUM_PARALLEL", "0")
	t.Setenv("OLLAMA_MAX_LOADED_MODELS", "64")
	out := zzverif.NewOut()
	defer out.Close()
	base := t.TempDir()
	if rp := os.Getenv("VERIF_REPLAY"); rp != "" {
		raw, err := os.ReadFile(rp)
		if err != nil {
			t.Fatal(err)
		}
		var cfg vuCfg
		if err := json.Unmarshal(bytes.TrimSpace(raw), &cfg); err != nil || cfg.Kind != "cpu" {
			t.Fatalf("replay case is not a C16 CPU-branch configuration: %v", err)
		}
		l := vpLoad(base, &cfg.M)
		vuRun(t, out, &cfg, l, vpVariant(l))
		return
	}
	target := zzverif.EnvInt("VERIF_N", 600)
	root := zzverif.NewRng(zzverif.Seed() ^ 0xC90)
	cases := 0
	for cases < target {
		r := root.Fork()
		cfg := &vuCfg{Kind: "cpu", M: *vpGen(r)}
		cfg.M.Embed = r.Chance(1, 10)
		cfg.M.Mllama = r.Chance(1, 10)
		if cfg.M.Parallel < 0 {
			cfg.M.Parallel = 0
		}
		dir, err := os.MkdirTemp(base, "c")
		if err != nil {
			t.Fatal(err)
		}
		l := vpLoad(dir, &cfg.M)
		variant := vpVariant(l)
		peff := cfg.M.Parallel
		if cfg.M.Embed || cfg.M.Mllama {
			peff = 1
		}
		if peff <= 0 {
			peff = defaultParallel
		}
		total := func(free uint64) uint64 {
			os.Setenv("OLLAMA_GPU_OVERHEAD", strconv.FormatUint(cfg.M.Overhead, 10))
			g := discover.GpuInfo{Library: "cpu", ID: "G0"}
			g.FreeMemory = free
			o := api.DefaultOptions()
			o.NumGPU = cfg.M.NumGPU
			o.NumBatch = cfg.M.NumBatch
			o.NumCtx = cfg.M.OrigNumCtx * peff
			return llm.EstimateGPULayers([]discover.GpuInfo{g}, l.f, l.projs, o, peff).TotalSize
		}
		need := total(1 << 60)
		for k := 0; k < 6; k++ {
			rr := r.Fork()
			var free uint64
			switch rr.Intn(5) {
			case 0:
				free = need / 8 * uint64(rr.Range(0, 7))
			case 1:
				free = need + need/8*uint64(rr.Range(0, 8))
			default: // around the comparison TotalSize <= free (TotalSize itself depends on free: the CPU entry is "admitted" or not)
				free = total(need) + uint64(rr.Intn(3)) - 1
				if rr.Bool() {
					free = total(free) + uint64(rr.Intn(3)) - 1
				}
			}
			cfg.M.GPUs = []vsGPU{{Lib: "cpu", Free: free, Total: free + uint64(rr.Intn(1<<30)), Min: zzverif.Pick(rr, []uint64{0, 0, 457 << 20})}}
			cfg.M.Variants = nil
			cfg.Runners = zzverif.Pick(rr, []int{0, 1, 1, 2, 3})
			cfg.Busy = rr.Chance(1, 4)
			if rr.Chance(1, 8) {
				cfg.M.NumGPU = 0 // getCpuFn path
			} else if cfg.M.NumGPU == 0 {
				cfg.M.NumGPU = -1
			}
			vuRun(t, out, cfg, l, variant)
			cases++
		}
		os.RemoveAll(dir)
	}
}
