package server

// Verification driver for C16, scheduler side: Scheduler.updateFreeSpace (server/sched.go), the
// adjustment of the reported free memory by the predictions of the loaded runners, and its
// composition with the real estimator.  Added with `go test -overlay`; never committed to /repo.
//
//   L1: FreeMemory of every GPU after the REAL updateFreeSpace == oracle `c16free`.
//   L2: `free-raised`  — adjusted free > reported free;
//       `sched-alloc-exceeds-reported` — real llm.EstimateGPULayers on the adjusted list plans
//        size + overhead > REPORTED free on some GPU (sizes != 0).

import (
	"bytes"
	"context"
	"encoding/json"
	"fmt"
	"io"
	"log/slog"
	"math/bits"
	"os"
	"path/filepath"
	"strconv"
	"strings"
	"testing"

	"github.com/ollama/ollama/api"
	"github.com/ollama/ollama/discover"
	"github.com/ollama/ollama/fs/ggml"
	"github.com/ollama/ollama/llm"
	"github.com/ollama/ollama/zzverif"
)

type vsGPU struct {
	Lib   string `json:"lib"`
	ID    string `json:"id"`
	Total uint64 `json:"total"`
	Free  uint64 `json:"free"`
	Min   uint64 `json:"min,omitempty"`
}

type vsRunner struct {
	Nil bool              `json:"nil,omitempty"` // runnerRef.llama == nil
	Est map[string]uint64 `json:"est,omitempty"` // EstimatedVRAMByGPU
}

type vsCfg struct {
	Kind    string     `json:"kind"` // "sched"
	GPUs    []vsGPU    `json:"gpus"`
	Runners []vsRunner `json:"runners"`
	Model   int        `json:"model"` // which synthetic model the composition uses (-1: none)
	NumGPU  int        `json:"num_gpu"`
	Tag     string     `json:"tag,omitempty"`
}

func vsList(cfg *vsCfg) discover.GpuInfoList {
	var l discover.GpuInfoList
	for _, g := range cfg.GPUs {
		gi := discover.GpuInfo{Library: g.Lib, ID: g.ID, MinimumMemory: g.Min}
		gi.TotalMemory = g.Total
		gi.FreeMemory = g.Free
		l = append(l, gi)
	}
	return l
}

func vsOp(cfg *vsCfg) string {
	type k struct{ lib, id string }
	keys := map[k]int{}
	ids := map[string]int{}
	var sb strings.Builder
	fmt.Fprintf(&sb, "c16free %d", len(cfg.GPUs))
	for _, g := range cfg.GPUs {
		kk := k{g.Lib, g.ID}
		if _, ok := keys[kk]; !ok {
			keys[kk] = len(keys)
		}
		if _, ok := ids[g.ID]; !ok {
			ids[g.ID] = len(ids)
		}
		fmt.Fprintf(&sb, " %d %d %d %d", keys[kk], ids[g.ID], g.Total, g.Free)
	}
	fmt.Fprintf(&sb, " %d", len(cfg.Runners))
	for _, r := range cfg.Runners {
		if r.Nil {
			sb.WriteString(" nil")
			continue
		}
		// only IDs that occur in the GPU list are ever asked for; sorted by ID class
		n := 0
		var parts []string
		for id, cls := range ids {
			if v, ok := r.Est[id]; ok {
				parts = append(parts, fmt.Sprintf("%d %d", cls, v))
				n++
			}
		}
		// deterministic order (Go map iteration is random): sort by class
		for i := 0; i < len(parts); i++ {
			for j := i + 1; j < len(parts); j++ {
				a, _ := strconv.Atoi(strings.Fields(parts[i])[0])
				b, _ := strconv.Atoi(strings.Fields(parts[j])[0])
				if b < a {
					parts[i], parts[j] = parts[j], parts[i]
				}
			}
		}
		fmt.Fprintf(&sb, " %d", n)
		for _, p := range parts {
			sb.WriteString(" " + p)
		}
	}
	return sb.String()
}

type vsModels struct {
	files  []*ggml.GGML
	blocks []int
}

func vsBuildModels(dir string) *vsModels {
	m := &vsModels{}
	specs := []struct {
		blocks int
		layer  uint64 // elements (F32) per block tensor
		ctx    uint32
	}{{4, 1 << 20, 2048}, {32, 32 << 20, 8192}, {80, 200 << 20, 8192}}
	for i, sp := range specs {
		kv := ggml.KV{
			"general.architecture":          "llama",
			"llama.block_count":             uint32(sp.blocks),
			"llama.embedding_length":        uint32(4096),
			"llama.attention.head_count":    uint32(32),
			"llama.attention.head_count_kv": uint32(8),
			"llama.context_length":          sp.ctx,
			"tokenizer.ggml.tokens":         []string{"a", "b"},
		}
		var ts []ggml.Tensor
		for b := 0; b < sp.blocks; b++ {
			ts = append(ts, ggml.Tensor{Name: fmt.Sprintf("blk.%d.attn_q.weight", b), Kind: 0, Shape: []uint64{sp.layer + uint64(b)*1024}, WriterTo: bytes.NewReader(nil)})
		}
		ts = append(ts, ggml.Tensor{Name: "token_embd.weight", Kind: 0, Shape: []uint64{sp.layer / 2}, WriterTo: bytes.NewReader(nil)})
		ts = append(ts, ggml.Tensor{Name: "output.weight", Kind: 0, Shape: []uint64{sp.layer / 2}, WriterTo: bytes.NewReader(nil)})
		p := filepath.Join(dir, fmt.Sprintf("vs%d.gguf", i))
		f, err := os.Create(p)
		if err != nil {
			panic(err)
		}
		if err := ggml.WriteGGUF(f, kv, ts); err != nil {
			panic(err)
		}
		f.Close()
		g, err := llm.LoadModel(p, 0)
		if err != nil {
			panic(err)
		}
		m.files = append(m.files, g)
		m.blocks = append(m.blocks, sp.blocks)
	}
	return m
}

func vsRun(out *zzverif.Out, cfg *vsCfg, models *vsModels) {
	js, err := json.Marshal(cfg)
	if err != nil {
		panic(err)
	}
	caseLine := string(js)
	ctx, done := context.WithCancel(context.Background())
	defer done()
	s := InitScheduler(ctx)
	gpus := vsList(cfg)
	s.loadedMu.Lock()
	for i, r := range cfg.Runners {
		ref := &runnerRef{gpus: gpus, numParallel: 1}
		if !r.Nil {
			ref.llama = &mockLlm{estimatedVRAMByGPU: r.Est}
		}
		s.loaded[fmt.Sprintf("m%d", i)] = ref
	}
	s.loadedMu.Unlock()

	impl := ""
	func() {
		defer func() {
			if x := recover(); x != nil {
				impl = "panic:" + strings.ReplaceAll(fmt.Sprint(x), "\n", " ")
			}
		}()
		s.updateFreeSpace(gpus)
		parts := make([]string, len(gpus))
		for i := range gpus {
			parts[i] = strconv.FormatUint(gpus[i].FreeMemory, 10)
		}
		impl = strings.Join(parts, ",")
		if len(parts) == 0 {
			impl = "-"
		}
	}()
	out.Case(vsOp(cfg), impl)
	out.Count("sched_cases")
	out.Count(fmt.Sprintf("sched_runners_%d", len(cfg.Runners)))
	if cfg.Tag != "" {
		out.Count("sched_gen_" + cfg.Tag)
	}
	if strings.HasPrefix(impl, "panic:") {
		out.L2("panic", caseLine, impl)
		return
	}
	lowered, zeroed := false, false
	for i := range gpus {
		rep := cfg.GPUs[i].Free
		adj := gpus[i].FreeMemory
		if adj > rep {
			out.L2("free-raised", caseLine, fmt.Sprintf("gpu=%d (%s/%s) reported free=%d adjusted free=%d total=%d", i, cfg.GPUs[i].Lib, cfg.GPUs[i].ID, rep, adj, cfg.GPUs[i].Total))
		}
		if gpus[i].TotalMemory != cfg.GPUs[i].Total || gpus[i].ID != cfg.GPUs[i].ID {
			out.L2("gpu-list-changed", caseLine, fmt.Sprintf("gpu=%d", i))
		}
		if adj < rep {
			lowered = true
			if adj == 0 {
				zeroed = true
			}
		}
	}
	switch {
	case zeroed:
		out.Count("sched_some_zeroed")
	case lowered:
		out.Count("sched_some_lowered")
	default:
		out.Count("sched_unchanged")
	}

	// composition with the real estimator: what is planned on the adjusted list never exceeds
	// the REPORTED free memory less the overhead
	if cfg.Model < 0 || models == nil {
		return
	}
	overhead := uint64(0)
	if v := os.Getenv("OLLAMA_GPU_OVERHEAD"); v != "" {
		overhead, _ = strconv.ParseUint(v, 10, 64)
	}
	opts := api.DefaultOptions()
	opts.NumGPU = cfg.NumGPU
	opts.NumCtx = 2048
	func() {
		defer func() {
			if x := recover(); x != nil {
				out.L2("panic", caseLine, "estimator: "+fmt.Sprint(x))
			}
		}()
		for _, grp := range gpus.ByLibrary() {
			gl := append(discover.GpuInfoList(nil), grp...)
			e := llm.EstimateGPULayers(gl, models.files[cfg.Model], nil, opts, 1)
			out.Count("sched_compositions")
			if e.Layers > 0 {
				out.Count("sched_compositions_with_layers")
			}
			for i, sz := range e.GPUSizes {
				// find the reported figure of this GPU: same Library and ID, first unused match
				rep := uint64(0)
				found := false
				for j, g := range cfg.GPUs {
					if g.Lib == gl[i].Library && g.ID == gl[i].ID && gpus[j].FreeMemory == gl[i].FreeMemory {
						rep, found = g.Free, true
						break
					}
				}
				if !found {
					continue
				}
				need, c := bits.Add64(sz, overhead, 0)
				if sz != 0 && (c != 0 || need > rep) {
					// label with a coarse no-wrap flag (all figures < 2^62 => no estimator sum wraps for these models)
					nowrap := true
					for _, g := range cfg.GPUs {
						if g.Free >= 1<<62 || g.Min >= 1<<62 || g.Total >= 1<<62 {
							nowrap = false
						}
					}
					out.L2("sched-alloc-exceeds-reported", caseLine, fmt.Sprintf("nowrap=%v gpu=%s/%s size=%d overhead=%d reported free=%d adjusted free=%d", nowrap, gl[i].Library, gl[i].ID, sz, overhead, rep, gl[i].FreeMemory))
				}
			}
		}
	}()
}

func vsGen(r *zzverif.Rng, out *zzverif.Out) *vsCfg {
	cfg := &vsCfg{Kind: "sched", Model: -1, NumGPU: -1}
	n := r.Range(1, 4)
	if r.Chance(1, 4) {
		n = r.Range(1, 8)
	}
	libs := []string{"cuda", "cuda", "rocm", "metal", "cpu"}
	ids := []string{"0", "1", "2", "GPU-a", "GPU-b", ""}
	lib := zzverif.Pick(r, libs)
	huge := r.Chance(1, 15)
	for i := 0; i < n; i++ {
		g := vsGPU{Lib: lib, ID: strconv.Itoa(i)}
		if r.Chance(1, 5) {
			g.Lib = zzverif.Pick(r, libs)
		}
		if r.Chance(1, 4) { // repeated / unusual IDs (same ID in two libraries, duplicates)
			g.ID = zzverif.Pick(r, ids)
		}
		switch r.Intn(6) {
		case 0:
			g.Total = uint64(r.Intn(4096))
		default:
			g.Total = uint64(r.Range(1, 80)) << 30
		}
		switch r.Intn(8) {
		case 0:
			g.Free = g.Total
		case 1:
			g.Free = 0
		case 2: // reported free above total (seen with unified memory / bad drivers)
			g.Free = g.Total + uint64(r.Intn(1<<30))
		default:
			g.Free = g.Total / 16 * uint64(r.Range(0, 16))
		}
		if huge {
			g.Total = ^uint64(0) - uint64(r.Intn(1<<20))
			if r.Bool() {
				g.Free = ^uint64(0) - uint64(r.Intn(1<<20))
			}
		}
		g.Min = zzverif.Pick(r, []uint64{0, 0, 457 << 20})
		cfg.GPUs = append(cfg.GPUs, g)
	}
	nr := r.Range(0, 4)
	for k := 0; k < nr; k++ {
		if r.Chance(1, 12) {
			cfg.Runners = append(cfg.Runners, vsRunner{Nil: true})
			continue
		}
		run := vsRunner{Est: map[string]uint64{}}
		for _, g := range cfg.GPUs {
			if r.Chance(1, 4) {
				continue // this runner is not on that GPU
			}
			var v uint64
			switch r.Intn(8) {
			case 0:
				v = 0
			case 1: // exactly what the other processes leave: total - free (boundary of the comparison)
				if g.Total >= g.Free {
					v = g.Total - g.Free
				}
			case 2:
				if g.Total >= g.Free {
					v = g.Total - g.Free + 1
				}
			case 3:
				if g.Total > g.Free {
					v = g.Total - g.Free - 1
				}
			case 4: // more than the GPU has
				v = g.Total + uint64(r.Intn(1<<20)) + 1
			default:
				v = g.Total / 32 * uint64(r.Range(0, 24))
			}
			if huge && r.Bool() {
				v = ^uint64(0) - uint64(r.Intn(1<<20)) // sums wrap
			}
			run.Est[g.ID] = v
		}
		if r.Chance(1, 6) {
			run.Est["not-in-list"] = uint64(r.Intn(1 << 30))
		}
		cfg.Runners = append(cfg.Runners, run)
	}
	if !huge && r.Chance(1, 2) {
		cfg.Model = r.Intn(3)
		cfg.NumGPU = zzverif.Pick(r, []int{-1, -1, -1, 0, 1, 999})
	}
	if huge {
		cfg.Tag = "huge"
	} else {
		cfg.Tag = "plain"
	}
	return cfg
}

func TestVerifC16Sched(t *testing.T) {
	slog.SetDefault(slog.New(slog.NewTextHandler(io.Discard, nil)))
	t.Setenv("OLLAMA_FLASH_ATTENTION", "")
	t.Setenv("OLLAMA_KV_CACHE_TYPE", "")
	out := zzverif.NewOut()
	defer out.Close()
	models := vsBuildModels(t.TempDir())

	if rp := os.Getenv("VERIF_REPLAY"); rp != "" {
		raw, err := os.ReadFile(rp)
		if err != nil {
			t.Fatal(err)
		}
		var cfg vsCfg
		if err := json.Unmarshal(bytes.TrimSpace(raw), &cfg); err != nil || cfg.Kind != "sched" {
			t.Skip("replay case is not a C16 scheduler configuration")
		}
		vsRun(out, &cfg, models)
		return
	}
	if cd := os.Getenv("VERIF_CORPUS"); cd != "" {
		files, _ := filepath.Glob(cd + "/sched-*.json")
		for _, fn := range files {
			raw, err := os.ReadFile(fn)
			if err != nil {
				t.Fatal(err)
			}
			var cfg vsCfg
			if err := json.Unmarshal(bytes.TrimSpace(raw), &cfg); err != nil {
				t.Fatalf("%s: %v", fn, err)
			}
			cfg.Tag = "corpus"
			vsRun(out, &cfg, models)
		}
	}
	target := zzverif.EnvInt("VERIF_N", 3000)
	root := zzverif.NewRng(zzverif.Seed() ^ 0xC16)
	for k := 0; k < target; k++ {
		r := root.Fork()
		if k%4 == 0 {
			t.Setenv("OLLAMA_GPU_OVERHEAD", strconv.Itoa(r.Intn(1<<30)))
		} else {
			t.Setenv("OLLAMA_GPU_OVERHEAD", "0")
		}
		vsRun(out, vsGen(r, out), models)
	}
}
