package server

// Verification driver for C12 (crash safety of the model store).
// Added to the package at build time with `go test -overlay`; never committed to /repo.
//
// The parent test prepares stores with the REAL handlers, then runs ONE store operation in a
// child process (this same test binary in "child mode") under a small ptrace tracer:
//   * killAt = 0: the complete trace of file-family syscalls on store paths is canonicalised to
//     the model's effect alphabet and compared with the Lean oracle (L1),
//   * killAt = N: the child is SIGKILLed at the ENTRY of its N-th store syscall (effect not
//     applied); the parent then runs the real start-up sequence of Serve on the store, walks it
//     (L2: every readable manifest has all layers present with the right size and real sha256;
//     uninvolved models byte-identical), re-runs the operation and compares with an
//     uninterrupted run.
// (strace's own `inject=…:when=N` counts per syscall number AND per thread, which is not a
// deterministic global order for a Go program whose goroutines migrate between threads; the
// in-test tracer counts store syscalls globally.)

import (
	"bytes"
	"context"
	"crypto/sha256"
	"encoding/binary"
	"encoding/json"
	"fmt"
	"go/ast"
	"go/parser"
	"go/printer"
	"go/token"
	"io"
	"net"
	"net/http"
	"net/http/httptest"
	"os"
	"path/filepath"
	"regexp"
	"runtime"
	"sort"
	"strconv"
	"strings"
	"sync"
	"syscall"
	"testing"
	"testing/synctest"
	"time"

	"github.com/gin-gonic/gin"

	"github.com/ollama/ollama/api"
	"github.com/ollama/ollama/envconfig"
	"github.com/ollama/ollama/fs/ggml"
	"github.com/ollama/ollama/zzverif"
)

// ---------------------------------------------------------------------------------------------
// operation specs

type c12Blob struct {
	Digest string `json:"digest"`         // sha256:<hex>
	Data   string `json:"data,omitempty"` // hex
	// generated content (large blobs: > 100 MB so that the download is split into >= 2 parts)
	GenSize int    `json:"gen_size,omitempty"`
	GenSeed uint64 `json:"gen_seed,omitempty"`
}

var c12GenCache sync.Map

// c12GenData is a cheap deterministic byte string: a 1 MiB pseudo-random block repeated, each
// repetition stamped with its index (so that no two 1 MiB windows are equal).
func c12GenData(size int, seed uint64) []byte {
	key := fmt.Sprintf("%d/%d", size, seed)
	if v, ok := c12GenCache.Load(key); ok {
		return v.([]byte)
	}
	block := zzverif.NewRng(seed).Bytes(1 << 20)
	out := make([]byte, size)
	for off, i := 0, 0; off < size; off, i = off+len(block), i+1 {
		n := copy(out[off:], block)
		if n >= 8 {
			for j := 0; j < 8; j++ {
				out[off+j] ^= byte(i >> (8 * j))
			}
		}
	}
	c12GenCache.Store(key, out)
	return out
}

func (b c12Blob) bytes() []byte {
	if b.GenSize > 0 {
		return c12GenData(b.GenSize, b.GenSeed)
	}
	return zzverif.Unhex(b.Data)
}

type c12Op struct {
	Kind    string            `json:"kind"` // upload | create | copy | delete | pull
	Name    string            `json:"name,omitempty"`
	Src     string            `json:"src,omitempty"`
	Uploads []c12Blob         `json:"uploads,omitempty"` // upload: the blob; create: blobs the client uploads first
	File    string            `json:"file,omitempty"`    // create: digest of the gguf file named in Files
	Files   map[string]string `json:"files,omitempty"`   // create from safetensors: file name -> digest (instead of File)
	System  string            `json:"system,omitempty"`
	Tmpl    string            `json:"tmpl,omitempty"`
	From    string            `json:"from,omitempty"` // create FROM an existing model (instead of File / Files)
	// pull: what the (honest) registry serves
	Manifest string    `json:"manifest,omitempty"` // JSON text
	Blobs    []c12Blob `json:"blobs,omitempty"`
	Chunk    int       `json:"chunk,omitempty"` // body piece size (bytes per Read)
	// pull of a multi-part blob: the body of the part that starts at offset 0 only starts to arrive after
	// 5 s (fake time), so that every later part has completed while the first is still in flight
	SlowFirst bool `json:"slow_first,omitempty"`
	// configuration: OLLAMA_NOPRUNE=1 (no start-up prune; create/pull keep replaced layers)
	NoPrune bool `json:"noprune,omitempty"`
	// ONE transient registry fault on the first body request (offset 0) for blob FaultDigest, then honest:
	//   shortpage: a short 503 error page instead of the body (non-resumable chunk failure after a few bytes)
	//   damaged:   the whole body with one byte flipped (a bad CDN node)
	//   cut:       the body breaks off after FaultAt bytes with an unexpected EOF (resumable)
	Fault       string `json:"fault,omitempty"`
	FaultDigest string `json:"fault_digest,omitempty"`
	FaultAt     int    `json:"fault_at,omitempty"`
}

type c12CutReader struct {
	r io.Reader
	n int
}

func (r *c12CutReader) Read(p []byte) (int, error) {
	if r.n <= 0 {
		return 0, io.ErrUnexpectedEOF
	}
	if len(p) > r.n {
		p = p[:r.n]
	}
	n, err := r.r.Read(p)
	r.n -= n
	return n, err
}

type c12DelayReader struct {
	r    io.Reader
	d    time.Duration
	done bool
}

func (r *c12DelayReader) Read(p []byte) (int, error) {
	if !r.done {
		r.done = true
		time.Sleep(r.d)
	}
	return r.r.Read(p)
}

func c12Digest(b []byte) string { return fmt.Sprintf("sha256:%x", sha256.Sum256(b)) }

type c12PieceReader struct {
	b []byte
	k int
}

func (r *c12PieceReader) Read(p []byte) (int, error) {
	if len(r.b) == 0 {
		return 0, io.EOF
	}
	n := min(r.k, len(r.b), len(p))
	copy(p, r.b[:n])
	r.b = r.b[n:]
	return n, nil
}

// a registry that has nothing (every request: 404)
type c12NoRegistry struct{}

func (c12NoRegistry) RoundTrip(req *http.Request) (*http.Response, error) {
	return &http.Response{StatusCode: 404, Status: "404", Proto: "HTTP/1.1", ProtoMajor: 1, ProtoMinor: 1,
		Header: http.Header{}, Body: io.NopCloser(strings.NewReader("nf")), ContentLength: -1, Request: req}, nil
}

// in-memory honest registry
type c12RT struct {
	op        *c12Op
	faultDone bool
}

func (rt *c12RT) RoundTrip(req *http.Request) (*http.Response, error) {
	mk := func(code int, body []byte, hdr map[string]string) *http.Response {
		h := http.Header{}
		for k, v := range hdr {
			h.Set(k, v)
		}
		var rc io.ReadCloser = http.NoBody
		if body != nil && req.Method != http.MethodHead {
			k := max(1, rt.op.Chunk)
			if len(body) > 1<<20 {
				k = 1 << 30 // large bodies: as much as the reader's buffer takes (io.Copy: 32 KiB)
			}
			var r io.Reader = &c12PieceReader{b: body, k: k}
			if d, ok := hdr["X-Verif-Delay"]; ok {
				dd, _ := time.ParseDuration(d)
				r = &c12DelayReader{r: r, d: dd}
			}
			rc = io.NopCloser(r)
		}
		return &http.Response{StatusCode: code, Status: strconv.Itoa(code), Proto: "HTTP/1.1", ProtoMajor: 1, ProtoMinor: 1,
			Header: h, Body: rc, ContentLength: -1, Request: req}
	}
	find := func(d string) []byte {
		for _, b := range rt.op.Blobs {
			if b.Digest == d {
				return b.bytes()
			}
		}
		return nil
	}
	p := req.URL.Path
	switch {
	case strings.Contains(p, "/manifests/"):
		return mk(200, []byte(rt.op.Manifest), map[string]string{"Content-Type": "application/json"}), nil
	case req.URL.Host == "blobs.verif.invalid":
		d := strings.TrimPrefix(p, "/")
		data := find(d)
		if data == nil {
			return mk(404, []byte("nf"), nil), nil
		}
		lo, hi := 0, len(data)-1
		if r := req.Header.Get("Range"); r != "" {
			fmt.Sscanf(r, "bytes=%d-%d", &lo, &hi)
		}
		if lo > hi+1 || hi >= len(data) {
			return mk(416, []byte("range"), nil), nil
		}
		if rt.op.Fault != "" && !rt.faultDone && d == rt.op.FaultDigest && lo == 0 {
			rt.faultDone = true
			switch rt.op.Fault {
			case "shortpage":
				return mk(503, []byte("<html>503 Service Unavailable</html>"), nil), nil
			case "damaged":
				bad := append([]byte{}, data[lo:hi+1]...)
				bad[len(bad)/2] ^= 0x20
				return mk(206, bad, nil), nil
			case "cut":
				resp := mk(206, data[lo:hi+1], nil)
				resp.Body = io.NopCloser(&c12CutReader{r: resp.Body, n: rt.op.FaultAt})
				return resp, nil
			}
		}
		var hdr map[string]string
		if rt.op.SlowFirst && lo == 0 && len(data) > 100_000_000 {
			hdr = map[string]string{"X-Verif-Delay": "5s"}
		}
		return mk(206, data[lo:hi+1], hdr), nil
	case strings.Contains(p, "/blobs/"):
		d := p[strings.LastIndex(p, "/")+1:]
		data := find(d)
		if data == nil {
			return mk(404, []byte("nf"), nil), nil
		}
		if req.Method == http.MethodHead {
			return mk(200, nil, map[string]string{"Content-Length": strconv.Itoa(len(data))}), nil
		}
		return mk(307, nil, map[string]string{"Location": "https://blobs.verif.invalid/" + d}), nil
	}
	return mk(404, []byte("nf"), nil), nil
}

func c12Call(fn func(*gin.Context), params gin.Params, body io.Reader) *httptest.ResponseRecorder {
	w := NewRecorder()
	c, _ := gin.CreateTestContext(w)
	c.Params = params
	c.Request = &http.Request{Body: io.NopCloser(body), Header: http.Header{}}
	c.Request = c.Request.WithContext(context.Background())
	fn(c)
	return w.ResponseRecorder
}

func c12JSON(v any) io.Reader {
	var b bytes.Buffer
	if err := json.NewEncoder(&b).Encode(v); err != nil {
		panic(err)
	}
	return &b
}

func c12Class(code int, body string) string {
	switch {
	case code == 200 || code == 201:
		return "ok"
	case code == 404:
		return "err:notfound"
	default:
		b := strings.ReplaceAll(body, envconfig.Models(), "$M")
		if len(b) > 300 {
			b = b[:300]
		}
		return fmt.Sprintf("err:%d:%s", code, strings.ReplaceAll(strings.TrimSpace(b), "\n", " "))
	}
}

// c12RunOp runs one store operation through the real handlers against $OLLAMA_MODELS.
func c12RunOp(t *testing.T, op *c12Op) string {
	gin.SetMode(gin.TestMode)
	var s Server
	noStream := false
	upload := func(b c12Blob) string {
		w := c12Call(s.CreateBlobHandler, gin.Params{{Key: "digest", Value: b.Digest}},
			&c12PieceReader{b: b.bytes(), k: max(1, op.Chunk)})
		return c12Class(w.Code, w.Body.String())
	}
	switch op.Kind {
	case "upload":
		return upload(op.Uploads[0])
	case "create":
		for _, b := range op.Uploads {
			if r := upload(b); r != "ok" {
				return "upload-" + r
			}
		}
		files := map[string]string{"m.gguf": op.File}
		if op.Files != nil {
			files = op.Files
		}
		if op.From != "" {
			// create FROM a model: a base that does not resolve locally is pulled; the registry does not have it
			files = nil
			old := http.DefaultTransport
			http.DefaultTransport = c12NoRegistry{}
			defer func() { http.DefaultTransport = old }()
		}
		w := c12Call(s.CreateHandler, nil, c12JSON(api.CreateRequest{Model: op.Name, From: op.From, Files: files,
			System: op.System, Template: op.Tmpl, Stream: &noStream}))
		return c12Class(w.Code, w.Body.String())
	case "copy":
		w := c12Call(s.CopyHandler, nil, c12JSON(api.CopyRequest{Source: op.Src, Destination: op.Name}))
		return c12Class(w.Code, w.Body.String())
	case "delete":
		w := c12Call(s.DeleteHandler, nil, c12JSON(api.DeleteRequest{Model: op.Name}))
		return c12Class(w.Code, w.Body.String())
	case "pull":
		old := http.DefaultTransport
		http.DefaultTransport = &c12RT{op: op}
		defer func() { http.DefaultTransport = old }()
		res := "err:nobubble"
		synctest.Test(t, func(t *testing.T) {
			w := c12Call(s.PullHandler, nil, c12JSON(api.PullRequest{Model: op.Name, Stream: &noStream}))
			res = c12Class(w.Code, w.Body.String())
			synctest.Wait()
		})
		return res
	}
	return "err:badop"
}

// TestVerifC12Serve is the "live restart" child: the REAL Serve on an ephemeral port over $OLLAMA_MODELS (with the
// in-memory honest registry of the op spec installed, so that the server can pull). The parent traces it.
func TestVerifC12Serve(t *testing.T) {
	spec := os.Getenv("VERIF_C12_SERVE")
	if spec == "" {
		t.Skip("serve mode only")
	}
	raw, err := os.ReadFile(spec)
	if err != nil {
		t.Fatal(err)
	}
	var op c12Op
	if err := json.Unmarshal(raw, &op); err != nil {
		t.Fatal(err)
	}
	http.DefaultTransport = &c12RT{op: &op}
	ln, err := net.Listen("tcp", "127.0.0.1:0")
	if err != nil {
		t.Fatal(err)
	}
	if err := os.WriteFile(spec+".port", []byte(ln.Addr().String()), 0o644); err != nil {
		t.Fatal(err)
	}
	err = Serve(ln) // returns only on a start-up error (the parent kills the process)
	os.WriteFile(spec+".serve-error", []byte(fmt.Sprint(err)), 0o644)
}

// TestVerifC12Facts regenerates the source facts of Tie/C12.lean with go/ast: every call of the start-up store
// repair in func Serve (server/routes.go) and of the call that starts serving, in source order, each with whether
// it sits inside a `go` statement, a function literal or a `defer`, and the conditions of its enclosing ifs.
func TestVerifC12Facts(t *testing.T) {
	fset := token.NewFileSet()
	pkgs, err := parser.ParseDir(fset, ".", func(fi os.FileInfo) bool { return !strings.HasSuffix(fi.Name(), "_test.go") }, 0)
	if err != nil {
		t.Fatal(err)
	}
	// package-level functions without receiver, by name: a helper that Serve calls is walked as if its body stood at the
	// call (round 7: extracting the repair into a helper is a harmless rewrite)
	funcs := map[string]*ast.FuncDecl{}
	for _, pkg := range pkgs {
		for _, f := range pkg.Files {
			for _, d := range f.Decls {
				if fd, ok := d.(*ast.FuncDecl); ok && fd.Recv == nil && fd.Body != nil {
					funcs[fd.Name.Name] = fd
				}
			}
		}
	}
	show := func(n ast.Node) string {
		var b bytes.Buffer
		printer.Fprint(&b, fset, n)
		return strings.Join(strings.Fields(b.String()), " ")
	}
	// a guard is normalised to what the model's restartWith depends on: is it "OLLAMA_NOPRUNE is not set"?
	guard := func(kind, cond string) string { // kind: if | else-of | unless (statements after `if cond { …; return }`)
		tag := "cond"
		if strings.Contains(cond, "NoPrune()") {
			neg := strings.Contains(cond, "!envconfig.NoPrune()") || strings.Contains(cond, "!NoPrune()")
			off := (kind == "if" && neg) || (kind != "if" && !neg)
			tag = "noprune-on"
			if off {
				tag = "noprune-off"
			}
		}
		return tag + ": " + kind + " " + cond
	}
	tracked := map[string]bool{"fixBlobs": true, "Manifests": true, "PruneLayers": true, "PruneDirectory": true,
		"srvr.Serve": true, "http.Serve": true, "envconfig.NoPrune": true}
	var lines []string
	terminates := func(b *ast.BlockStmt) bool {
		if b == nil || len(b.List) == 0 {
			return false
		}
		_, ok := b.List[len(b.List)-1].(*ast.ReturnStmt)
		return ok
	}
	errCheck := regexp.MustCompile(`^\w+ != nil$`)
	var walk func(n ast.Node, async bool, conds []string, depth int)
	walk = func(n ast.Node, async bool, conds []string, depth int) {
		with := func(g string) []string { return append(append([]string{}, conds...), g) }
		switch x := n.(type) {
		case nil:
			return
		case *ast.GoStmt:
			walk(x.Call, true, conds, depth)
			return
		case *ast.DeferStmt:
			walk(x.Call, true, conds, depth)
			return
		case *ast.FuncLit:
			walk(x.Body, true, conds, depth)
			return
		case *ast.BlockStmt:
			cur := conds
			for _, st := range x.List {
				walk(st, async, cur, depth)
				// `if c { …; return }` without else: what follows runs only when c is false
				if is, ok := st.(*ast.IfStmt); ok && is.Else == nil && terminates(is.Body) {
					c := show(is.Cond)
					if errCheck.MatchString(c) {
						continue // `if err != nil { return err }`: error propagation, not a condition of the repair
					}
					if is.Init != nil {
						c = show(is.Init) + "; " + c
					}
					cur = append(append([]string{}, cur...), guard("unless", c))
				}
			}
			return
		case *ast.IfStmt:
			cond := show(x.Cond)
			if x.Init != nil {
				walk(x.Init, async, conds, depth)
				cond = show(x.Init) + "; " + cond
			}
			walk(x.Cond, async, conds, depth)
			walk(x.Body, async, with(guard("if", cond)), depth)
			if x.Else != nil {
				walk(x.Else, async, with(guard("else-of", cond)), depth)
			}
			return
		case *ast.CallExpr:
			name := show(x.Fun)
			if tracked[name] {
				lines = append(lines, fmt.Sprintf("%s\t%v\t%s", name, async, strings.Join(conds, " ;; ")))
			} else if id, ok := x.Fun.(*ast.Ident); ok && depth < 3 {
				if fd := funcs[id.Name]; fd != nil && fd.Name.Name != "Serve" {
					for _, a := range x.Args {
						walk(a, async, conds, depth)
					}
					walk(fd.Body, async, conds, depth+1)
					return
				}
			}
		}
		// generic descent, in source order
		var kids []ast.Node
		ast.Inspect(n, func(c ast.Node) bool {
			if c == n {
				return true
			}
			if c != nil {
				kids = append(kids, c)
			}
			return false
		})
		for _, k := range kids {
			walk(k, async, conds, depth)
		}
	}
	if fd := funcs["Serve"]; fd != nil {
		walk(fd.Body, false, nil, 0)
	}
	if err := os.WriteFile(filepath.Join(zzverif.OutDir(), "facts.txt"), []byte(strings.Join(lines, "\n")+"\n"), 0o644); err != nil {
		t.Fatal(err)
	}
}

// TestVerifC12Child is the child mode: run one op on $OLLAMA_MODELS, write the outcome.
func TestVerifC12Child(t *testing.T) {
	spec := os.Getenv("VERIF_C12_CHILD")
	if spec == "" {
		t.Skip("child mode only")
	}
	raw, err := os.ReadFile(spec)
	if err != nil {
		t.Fatal(err)
	}
	var op c12Op
	if err := json.Unmarshal(raw, &op); err != nil {
		t.Fatal(err)
	}
	res := c12RunOp(t, &op)
	if err := os.WriteFile(spec+".result", []byte(res), 0o644); err != nil {
		t.Fatal(err)
	}
}

// ---------------------------------------------------------------------------------------------
// ptrace tracer (linux/amd64)

type c12Sys struct {
	Nr          int
	Path, Path2 string
	Flags       int
	Off, Len    int64
	Data        []byte
	Ret         int64
	Idx         int // 1-based index among counted store syscalls
	Big         bool
}

const (
	c12OptSysGood  = 0x1
	c12OptFork     = 0x2
	c12OptVfork    = 0x4
	c12OptClone    = 0x8
	c12OptExitKill = 0x100000
	c12WNoThread   = 0x20000000
)

func c12ReadMem(tid int, addr uintptr, n int) []byte {
	out := make([]byte, 0, n)
	for n > 0 {
		k := min(n, 4096-int(addr%4096))
		buf := make([]byte, k)
		got, err := syscall.PtracePeekData(tid, addr, buf)
		if err != nil || got <= 0 {
			break
		}
		out = append(out, buf[:got]...)
		addr += uintptr(got)
		n -= got
		if got < k {
			break
		}
	}
	return out
}

func c12ReadStr(tid int, addr uintptr) string {
	var out []byte
	for len(out) < 4096 {
		chunk := c12ReadMem(tid, addr, min(256, 4096-int(addr%4096)))
		if len(chunk) == 0 {
			break
		}
		if i := bytes.IndexByte(chunk, 0); i >= 0 {
			out = append(out, chunk[:i]...)
			break
		}
		out = append(out, chunk...)
		addr += uintptr(len(chunk))
	}
	return string(out)
}

func c12FdPath(pid int, fd uint64) string {
	p, err := os.Readlink(fmt.Sprintf("/proc/%d/fd/%d", pid, int(int32(fd))))
	if err != nil {
		return ""
	}
	return strings.TrimSuffix(p, " (deleted)")
}

// c12Decode returns the event for a syscall entry, or nil if it is not a store-modifying file syscall.
func c12Decode(pid, tid int, r *syscall.PtraceRegs, store string) *c12Sys {
	nr := int(r.Orig_rax)
	a := [6]uint64{r.Rdi, r.Rsi, r.Rdx, r.R10, r.R8, r.R9}
	str := func(i int) string { return c12ReadStr(tid, uintptr(a[i])) }
	ev := &c12Sys{Nr: nr}
	const wr = 0x1 | 0x2 | 0x40 | 0x200 // O_WRONLY|O_RDWR|O_CREAT|O_TRUNC
	switch nr {
	case 1: // write(fd, buf, n)
		ev.Path, ev.Len = c12FdPath(pid, a[0]), int64(a[2])
	case 18: // pwrite64(fd, buf, n, off)
		ev.Path, ev.Len, ev.Off = c12FdPath(pid, a[0]), int64(a[2]), int64(a[3])
	case 20, 296: // writev/pwritev: not expected on store files; recorded as opaque
		ev.Path = c12FdPath(pid, a[0])
	case 2: // open
		ev.Path, ev.Flags = str(0), int(a[1])
		if ev.Flags&wr == 0 {
			return nil
		}
	case 257: // openat
		ev.Path, ev.Flags = str(1), int(a[2])
		if ev.Flags&wr == 0 {
			return nil
		}
	case 85: // creat
		ev.Path = str(0)
	case 82: // rename
		ev.Path, ev.Path2 = str(0), str(1)
	case 264, 316: // renameat, renameat2
		ev.Path, ev.Path2 = str(1), str(3)
	case 87, 84, 83, 90, 76: // unlink rmdir mkdir chmod truncate
		ev.Path, ev.Len = str(0), int64(a[1])
	case 263: // unlinkat(dfd, path, flags)
		ev.Path, ev.Flags = str(1), int(a[2])
	case 258, 268, 452: // mkdirat fchmodat fchmodat2
		ev.Path = str(1)
	case 77: // ftruncate(fd, len)
		ev.Path, ev.Len = c12FdPath(pid, a[0]), int64(a[1])
	case 91, 285: // fchmod, fallocate
		ev.Path = c12FdPath(pid, a[0])
	case 86, 88: // link symlink
		ev.Path, ev.Path2 = str(0), str(1)
	case 265: // linkat
		ev.Path, ev.Path2 = str(1), str(3)
	case 266: // symlinkat(target, dfd, linkpath)
		ev.Path, ev.Path2 = str(0), str(2)
	case 326: // copy_file_range(fd_in, off_in, fd_out, off_out, len, flags)
		ev.Path, ev.Path2, ev.Len = c12FdPath(pid, a[0]), c12FdPath(pid, a[2]), int64(a[4])
	case 40: // sendfile(out, in, off, count)
		ev.Path, ev.Path2, ev.Len = c12FdPath(pid, a[1]), c12FdPath(pid, a[0]), int64(a[3])
	default:
		return nil
	}
	if os.Getenv("VERIF_C12_DEBUG") != "" {
		fmt.Fprintf(os.Stderr, "DEC nr=%d path=%q path2=%q flags=%x store=%q\n", nr, ev.Path, ev.Path2, ev.Flags, store)
	}
	in := func(p string) bool { return p == store || strings.HasPrefix(p, store+"/") }
	// for two-path syscalls the destination decides (a copy out of the store is not an effect)
	switch nr {
	case 326, 40, 86, 88, 265, 266:
		if !in(ev.Path2) {
			return nil
		}
	case 82, 264, 316:
		if !in(ev.Path) && !in(ev.Path2) {
			return nil
		}
	default:
		if !in(ev.Path) {
			return nil
		}
	}
	if nr == 1 || nr == 18 {
		if ev.Len <= 8192 { // large writes (multi-part bodies) are recorded by length only
			ev.Data = c12ReadMem(tid, uintptr(a[1]), int(ev.Len))
		} else {
			ev.Big = true
		}
	}
	return ev
}

// c12Trace runs argv under the tracer. killAt = 0: run to completion. killAt = N > 0: SIGKILL the
// process at the entry of its N-th store syscall. Returns the completed store syscalls, whether
// the kill happened, and the number of store syscalls entered.
// c12TraceOpts: scheduling of a traced process beyond "kill at the N-th store syscall" (live restart):
// the unlink of holdUnlink is HELD at its entry until a stat of that path by another thread has been seen
// (or maxHold has passed); closing stop kills the process.
type c12TraceOpts struct {
	holdUnlink string
	maxHold    time.Duration
	stop       <-chan struct{}
	heldFor    time.Duration // out: how long the unlink was held
	statSeen   bool          // out: the stat arrived while the unlink was held
}

func c12Trace(argv, env []string, store string, killAt int, logPath string) (evs []c12Sys, killed bool, entered int, err error) {
	return c12TraceX(argv, env, store, killAt, logPath, nil)
}

func c12TraceX(argv, env []string, store string, killAt int, logPath string, opts *c12TraceOpts) (evs []c12Sys, killed bool, entered int, err error) {
	runtime.LockOSThread()
	defer runtime.UnlockOSThread()
	logf, err := os.Create(logPath)
	if err != nil {
		return nil, false, 0, err
	}
	defer logf.Close()
	devnull, _ := os.Open(os.DevNull)
	defer devnull.Close()
	pid, err := syscall.ForkExec(argv[0], argv, &syscall.ProcAttr{
		Env:   env,
		Files: []uintptr{devnull.Fd(), logf.Fd(), logf.Fd()},
		Sys:   &syscall.SysProcAttr{Ptrace: true},
	})
	if err != nil {
		return nil, false, 0, err
	}
	var ws syscall.WaitStatus
	if _, err = syscall.Wait4(pid, &ws, c12WNoThread, nil); err != nil {
		return nil, false, 0, fmt.Errorf("initial wait: %w", err)
	}
	if !ws.Stopped() {
		return nil, false, 0, fmt.Errorf("child not stopped: %v", ws)
	}
	if err = syscall.PtraceSetOptions(pid, c12OptSysGood|c12OptClone|c12OptFork|c12OptVfork|c12OptExitKill); err != nil {
		return nil, false, 0, fmt.Errorf("setoptions: %w", err)
	}
	if err = syscall.PtraceSyscall(pid, 0); err != nil {
		return nil, false, 0, err
	}
	inSys := map[int]bool{}
	pending := map[int]*c12Sys{}
	known := map[int]bool{pid: true}
	heldTid, heldSince, stopped := 0, time.Time{}, false
	for {
		flags := syscall.WALL | c12WNoThread
		if opts != nil {
			flags |= syscall.WNOHANG
		}
		wpid, werr := syscall.Wait4(-1, &ws, flags, nil)
		if werr == syscall.EINTR {
			continue
		}
		if opts != nil {
			if heldTid != 0 && (opts.statSeen || time.Since(heldSince) > opts.maxHold) {
				opts.heldFor = time.Since(heldSince)
				syscall.PtraceSyscall(heldTid, 0)
				heldTid = 0
			}
			if !stopped {
				select {
				case <-opts.stop:
					stopped, killed = true, true
					syscall.Kill(pid, syscall.SIGKILL)
				default:
				}
			}
			if werr == nil && wpid == 0 {
				time.Sleep(200 * time.Microsecond)
				continue
			}
		}
		if werr != nil { // ECHILD: everything gone
			break
		}
		if ws.Exited() || ws.Signaled() {
			delete(inSys, wpid)
			delete(pending, wpid)
			if wpid == pid {
				if !killed && !(ws.Exited() && ws.ExitStatus() == 0) {
					err = fmt.Errorf("child failed: exited=%v status=%d signal=%v", ws.Exited(), ws.ExitStatus(), ws.Signal())
				}
				// reap stragglers
				for {
					if _, e := syscall.Wait4(-1, &ws, syscall.WALL|c12WNoThread|syscall.WNOHANG, nil); e != nil {
						break
					}
					break
				}
				return evs, killed, entered, err
			}
			continue
		}
		if !ws.Stopped() {
			continue
		}
		sig := ws.StopSignal()
		switch {
		case sig == syscall.SIGTRAP|0x80: // syscall stop
			if !inSys[wpid] {
				inSys[wpid] = true
				var regs syscall.PtraceRegs
				e := syscall.PtraceGetRegs(wpid, &regs)
				if e == nil && opts != nil && opts.holdUnlink != "" {
					nr := int(regs.Orig_rax)
					switch {
					case (nr == 262 || nr == 332) && heldTid != 0: // newfstatat / statx
						if c12ReadStr(wpid, uintptr(regs.Rsi)) == opts.holdUnlink {
							opts.statSeen = true
						}
					case nr == 263 && heldTid == 0 && opts.heldFor == 0 && !opts.statSeen:
						if c12ReadStr(wpid, uintptr(regs.Rsi)) == opts.holdUnlink {
							heldTid, heldSince = wpid, time.Now()
							continue // not resumed: the thread stays at the entry of unlinkat
						}
					}
				}
				if os.Getenv("VERIF_C12_DEBUG") != "" {
					fmt.Fprintf(os.Stderr, "tid=%d nr=%d err=%v\n", wpid, int(regs.Orig_rax), e)
				}
				if e == nil {
					if ev := c12Decode(pid, wpid, &regs, store); ev != nil {
						entered++
						ev.Idx = entered
						if killAt > 0 && entered == killAt {
							killed = true
							syscall.Kill(pid, syscall.SIGKILL)
							continue // do not resume; wait for the exit statuses
						}
						pending[wpid] = ev
					}
				}
			} else {
				inSys[wpid] = false
				if ev := pending[wpid]; ev != nil {
					delete(pending, wpid)
					var regs syscall.PtraceRegs
					if e := syscall.PtraceGetRegs(wpid, &regs); e == nil {
						ev.Ret = int64(regs.Rax)
						if (ev.Nr == 1 || ev.Nr == 18) && !ev.Big && ev.Ret >= 0 && int(ev.Ret) <= len(ev.Data) {
							ev.Data = ev.Data[:ev.Ret]
						}
						evs = append(evs, *ev)
					}
				}
			}
			syscall.PtraceSyscall(wpid, 0)
		case sig == syscall.SIGTRAP && ws.TrapCause() > 0: // clone/fork event
			syscall.PtraceSyscall(wpid, 0)
		case sig == syscall.SIGSTOP && !known[wpid]: // first stop of an auto-attached thread
			known[wpid] = true
			syscall.PtraceSyscall(wpid, 0)
		default: // signal-delivery stop: pass the signal on
			known[wpid] = true
			syscall.PtraceSyscall(wpid, int(sig))
		}
	}
	return evs, killed, entered, err
}

// ---------------------------------------------------------------------------------------------
// canonicalisation: syscalls -> the model's effect alphabet

var (
	c12ReBlob      = regexp.MustCompile(`^blobs/sha256-([0-9a-f]{64})$`)
	c12RePartial   = regexp.MustCompile(`^blobs/sha256-([0-9a-f]{64})-partial$`)
	c12RePart      = regexp.MustCompile(`^blobs/sha256-([0-9a-f]{64})-partial-([0-9]+)$`)
	c12ReTemp      = regexp.MustCompile(`^blobs/(sha256-[0-9]+|tmp-[0-9]+)$`)
	c12ReBlobsJunk = regexp.MustCompile(`^blobs/([^/]+)$`)
	c12ReMan       = regexp.MustCompile(`^manifests/([^/]+/[^/]+/[^/]+/[^/]+)$`)
)

type c12Canon struct {
	store   string
	temps   map[string]int
	inited  bool
	aliases [][2]string
}

// aliases: physical location (what /proc/<pid>/fd shows) -> logical location, for every symbolic link in
// the store (store shapes with symlinked directories)
func (c *c12Canon) init() {
	if c.inited {
		return
	}
	c.inited = true
	filepath.Walk(c.store, func(p string, fi os.FileInfo, err error) error {
		if err == nil && fi.Mode()&os.ModeSymlink != 0 {
			if real, err := filepath.EvalSymlinks(p); err == nil {
				c.aliases = append(c.aliases, [2]string{real + "/", p + "/"})
			}
		}
		return nil
	})
}

func (c *c12Canon) path(abs string) string {
	c.init()
	for _, a := range c.aliases {
		if strings.HasPrefix(abs, a[0]) {
			abs = a[1] + strings.TrimPrefix(abs, a[0])
		}
	}
	rel := strings.TrimPrefix(abs, c.store+"/")
	if m := c12ReBlob.FindStringSubmatch(rel); m != nil {
		return "B:" + m[1]
	}
	if m := c12RePartial.FindStringSubmatch(rel); m != nil {
		return "P:" + m[1]
	}
	if m := c12RePart.FindStringSubmatch(rel); m != nil {
		return "R:" + m[1] + ":" + m[2]
	}
	if m := c12ReTemp.FindStringSubmatch(rel); m != nil {
		k, ok := c.temps[m[1]]
		if !ok {
			k = len(c.temps)
			c.temps[m[1]] = k
		}
		return fmt.Sprintf("T:%d", k)
	}
	if m := c12ReMan.FindStringSubmatch(rel); m != nil {
		return "M:" + m[1]
	}
	if m := c12ReBlobsJunk.FindStringSubmatch(rel); m != nil { // anything else in blobs/: PruneLayers treats it like a temp file
		k, ok := c.temps[m[1]]
		if !ok {
			k = len(c.temps)
			c.temps[m[1]] = k
		}
		return fmt.Sprintf("T:%d", k)
	}
	return "X:" + rel
}

func c12Hex64(d string) string {
	d = strings.TrimPrefix(strings.TrimPrefix(d, "sha256:"), "sha256-")
	if d == "" {
		return "-"
	}
	return d
}

// c12AutoKind guesses what a writeFileAtomic temp file (blobs/tmp-*) holds from its JSON keys.
func c12AutoKind(data []byte) byte {
	var keys map[string]json.RawMessage
	if err := json.Unmarshal(data, &keys); err == nil {
		if _, ok := keys["schemaVersion"]; ok {
			return 'M'
		}
		if _, ok := keys["Completed"]; ok {
			return 'R'
		}
	}
	return 'T'
}

func c12IsAtomicTemp(abs string) bool { return strings.HasPrefix(filepath.Base(abs), "tmp-") }

// c12Content renders file content at a canonical path the way the oracle prints model content.
func c12Content(cpath string, data []byte) string {
	switch cpath[0] {
	case 'A': // atomic temp: manifest or part record text
		if k := c12AutoKind(data); k != 'T' {
			return c12Content(string(k)+":", data)
		}
	case 'M':
		var m Manifest
		if err := json.Unmarshal(data, &m); err == nil {
			parts := []string{fmt.Sprintf("%s/%d", c12Hex64(m.Config.Digest), m.Config.Size)}
			for _, l := range m.Layers {
				parts = append(parts, fmt.Sprintf("%s/%d", c12Hex64(l.Digest), l.Size))
			}
			return "man:" + strings.Join(parts, ",")
		}
	case 'R':
		var p jsonBlobDownloadPart
		if err := json.Unmarshal(data, &p); err == nil {
			return fmt.Sprintf("rec:%d/%d/%d/%d", p.N, p.Offset, p.Size, p.Completed)
		}
	}
	return "raw:" + zzverif.Hex(data)
}

func (c *c12Canon) effects(evs []c12Sys) []string {
	var out []string
	for _, e := range evs {
		if e.Ret < 0 {
			continue
		}
		p := c.path(e.Path)
		switch e.Nr {
		case 2, 257, 85:
			if strings.HasPrefix(p, "X:") { // directory opens etc.
				continue
			}
			if e.Nr == 85 || e.Flags&0x200 != 0 || e.Flags&0x80 != 0 { // O_TRUNC or O_EXCL
				out = append(out, "mk "+p)
			} else if e.Flags&0x40 != 0 {
				out = append(out, "touch "+p)
			} else {
				out = append(out, "openw "+p)
			}
		case 1:
			if e.Ret == 0 {
				continue
			}
			if p[0] == 'M' || p[0] == 'R' {
				out = append(out, "put "+p+" "+c12Content(p, e.Data))
			} else if c12IsAtomicTemp(e.Path) {
				out = append(out, "put "+p+" "+c12Content("A:", e.Data))
			} else {
				out = append(out, "app "+p+" "+zzverif.Hex(e.Data))
			}
		case 18:
			if e.Ret == 0 {
				continue
			}
			if e.Big {
				out = append(out, fmt.Sprintf("pw %s %d big:%d", p, e.Off, e.Ret))
			} else {
				out = append(out, fmt.Sprintf("pw %s %d %s", p, e.Off, zzverif.Hex(e.Data)))
			}
		case 77:
			out = append(out, fmt.Sprintf("ftr %s %d", p, e.Len))
		case 82, 264, 316:
			out = append(out, "mv "+p+" "+c.path(e.Path2))
		case 87:
			out = append(out, "rm "+p)
		case 263:
			if e.Flags&0x200 != 0 { // AT_REMOVEDIR: directories are not modelled
				continue
			}
			out = append(out, "rm "+p)
		case 84, 83, 258: // rmdir mkdir mkdirat: directories are not modelled
			continue
		case 90, 91, 268, 452:
			out = append(out, "chmod "+p)
		case 326, 40:
			if e.Ret == 0 {
				continue
			}
			out = append(out, fmt.Sprintf("cp %s %s", p, c.path(e.Path2)))
		default:
			out = append(out, fmt.Sprintf("sys%d %s", e.Nr, p))
		}
	}
	return out
}

// ---------------------------------------------------------------------------------------------
// store inspection

// c12State lists the store as canonical "path=content" entries (sorted). Temp files are numbered
// in sorted name order (only used for states the model is compared with when no temps exist, and
// for de-duplicating crash states).
func c12State(store string) []string {
	c := &c12Canon{store: store, temps: map[string]int{}}
	var out []string
	c12WalkLogical(store, func(p string, fi os.FileInfo) {
		func() error {
			cp := c.path(p)
			if !fi.Mode().IsRegular() { // FIFO etc.: an entry without content
				if strings.HasPrefix(cp, "T:") {
					cp = "T:*"
				}
				out = append(out, cp+"=raw:-")
				return nil
			}
			if fi.Size() > 1<<20 { // summarise: length + hash of the WHOLE content (two crash states that differ anywhere differ)
				h := sha256.New()
				if f, err := os.Open(p); err == nil {
					io.Copy(h, f)
					f.Close()
				}
				if strings.HasPrefix(cp, "T:") {
					cp = "T:*"
				}
				out = append(out, fmt.Sprintf("%s=big:%d:%x", cp, fi.Size(), h.Sum(nil)[:8]))
				return nil
			}
			data, _ := os.ReadFile(p)
			kind := cp
			if strings.HasPrefix(cp, "T:") {
				cp = "T:*"
				kind = cp
				if c12IsAtomicTemp(p) {
					kind = "A:"
				}
			}
			out = append(out, cp+"="+c12Content(kind, data))
			return nil
		}()
	})
	sort.Strings(out)
	return out
}

// c12Readable: name -> canonical manifest content, for every manifest the REAL parser accepts.
func c12Walk(store string) (readable map[string]*Manifest, torn []string) {
	readable = map[string]*Manifest{}
	root := filepath.Join(store, "manifests")
	c12WalkLogical(root, func(p string, fi os.FileInfo) {
		rel, _ := filepath.Rel(root, p)
		if strings.Count(rel, "/") != 3 { // not addressable by a model name
			return
		}
		f, err := os.Open(p)
		if err != nil {
			torn = append(torn, rel)
			return
		}
		defer f.Close()
		var m Manifest
		if err := json.NewDecoder(f).Decode(&m); err != nil {
			torn = append(torn, rel)
			return
		}
		readable[rel] = &m
	})
	sort.Strings(torn)
	return
}

// c12CheckIntact evaluates the first clause of the property on the real store: every layer of
// every readable manifest is present with the declared size and the REAL sha256.
func c12CheckIntact(store string, readable map[string]*Manifest) []string {
	var bad []string
	names := make([]string, 0, len(readable))
	for n := range readable {
		names = append(names, n)
	}
	sort.Strings(names)
	for _, n := range names {
		m := readable[n]
		for _, l := range append(append([]Layer{}, m.Layers...), m.Config) {
			if l.Digest == "" {
				continue
			}
			p := filepath.Join(store, "blobs", strings.ReplaceAll(l.Digest, ":", "-"))
			data, err := os.ReadFile(p)
			switch {
			case err != nil:
				bad = append(bad, fmt.Sprintf("%s: layer %s missing", n, l.Digest[7:19]))
			case int64(len(data)) != l.Size:
				bad = append(bad, fmt.Sprintf("%s: layer %s size %d want %d", n, l.Digest[7:19], len(data), l.Size))
			case c12Digest(data) != l.Digest:
				bad = append(bad, fmt.Sprintf("%s: layer %s content does not hash to its name", n, l.Digest[7:19]))
			}
		}
	}
	return bad
}

// c12CheckDebris evaluates, on the real files, the hypothesis under which the Lean pull theorems hold for a
// store with download debris (`PartOK` / `PullPre`): every READABLE part record of a blob the registry serves
// describes a range inside the blob, has Completed <= Size, and the bytes it declares complete are in the
// -partial file. (Unreadable records, missing records and missing -partial files are allowed.)
func c12CheckDebris(store string, op *c12Op) (bad []string, records int) {
	for _, b := range op.Blobs {
		base := filepath.Join(store, "blobs", strings.ReplaceAll(b.Digest, ":", "-"))
		recs, _ := filepath.Glob(base + "-partial-*")
		if len(recs) == 0 {
			continue
		}
		data := b.bytes()
		partial, _ := os.ReadFile(base + "-partial")
		for _, rp := range recs {
			raw, err := os.ReadFile(rp)
			if err != nil {
				continue
			}
			var r jsonBlobDownloadPart
			if json.Unmarshal(raw, &r) != nil {
				continue
			}
			records++
			name := filepath.Base(rp)[7:19] + "…" + rp[strings.LastIndex(rp, "-partial-"):]
			switch {
			case r.Offset < 0 || r.Size < 0 || r.Offset+r.Size > int64(len(data)):
				bad = append(bad, fmt.Sprintf("%s: range %d+%d outside the %d-byte blob", name, r.Offset, r.Size, len(data)))
			case r.Completed < 0 || r.Completed > r.Size:
				bad = append(bad, fmt.Sprintf("%s: Completed %d > Size %d", name, r.Completed, r.Size))
			case r.Completed > 0 && (int64(len(partial)) < r.Offset+r.Completed ||
				!bytes.Equal(partial[r.Offset:r.Offset+r.Completed], data[r.Offset:r.Offset+r.Completed])):
				bad = append(bad, fmt.Sprintf("%s: declares %d bytes complete at offset %d but the -partial file does not hold them", name, r.Completed, r.Offset))
			}
		}
	}
	return bad, records
}

// c12Restart is what Serve does before it starts listening (routes.go Serve), on $OLLAMA_MODELS.
func c12Restart() (pruned bool, err error) {
	blobsDir, err := GetBlobsPath("")
	if err != nil {
		return false, err
	}
	if err := fixBlobs(blobsDir); err != nil {
		return false, err
	}
	if envconfig.NoPrune() {
		return false, nil
	}
	if _, err := Manifests(false); err != nil {
		return false, nil // "corrupt manifests detected, skipping prune operation"
	}
	if err := PruneLayers(); err != nil {
		return false, err
	}
	manifestsPath, err := GetManifestPath()
	if err != nil {
		return false, err
	}
	if err := PruneDirectory(manifestsPath); err != nil {
		return false, err
	}
	return true, nil
}

// c12WalkLogical visits every file below root by its LOGICAL path, following symbolic links to
// directories the way name-based resolution does (os.Stat); the top-level directory "linked" (where
// the store shapes keep their link targets) is not visited under its own name.
func c12WalkLogical(root string, fn func(p string, fi os.FileInfo)) {
	var rec func(dir string, top bool)
	rec = func(dir string, top bool) {
		ents, err := os.ReadDir(dir)
		if err != nil {
			return
		}
		for _, e := range ents {
			if top && e.Name() == "linked" {
				continue
			}
			p := filepath.Join(dir, e.Name())
			fi, err := os.Stat(p)
			if err != nil {
				continue
			}
			if fi.IsDir() {
				rec(p, false)
			} else {
				fn(p, fi)
			}
		}
	}
	rec(root, true)
}

func c12CopyTree(src, dst string) {
	filepath.Walk(src, func(p string, fi os.FileInfo, err error) error {
		if err != nil {
			panic(err)
		}
		rel, _ := filepath.Rel(src, p)
		q := filepath.Join(dst, rel)
		if fi.IsDir() {
			return os.MkdirAll(q, 0o755)
		}
		if fi.Mode()&os.ModeSymlink != 0 {
			target, err := os.Readlink(p)
			if err != nil {
				panic(err)
			}
			return os.Symlink(target, q)
		}
		if fi.Mode()&os.ModeNamedPipe != 0 {
			return syscall.Mkfifo(q, 0o644)
		}
		data, err := os.ReadFile(p)
		if err != nil {
			panic(err)
		}
		return os.WriteFile(q, data, 0o644)
	})
}

// ---------------------------------------------------------------------------------------------
// scenarios

type c12Scenario struct {
	Store string // name of the prepared store
	Label string
	Op    c12Op
	// names (manifest relative paths) the op is allowed to change
	Involved []string
}

func c12GGUF(t *testing.T, id uint32) []byte {
	f, err := os.CreateTemp(t.TempDir(), "gguf")
	if err != nil {
		t.Fatal(err)
	}
	defer f.Close()
	if err := ggml.WriteGGUF(f, ggml.KV{"general.architecture": "llama", "verif.id": id}, nil); err != nil {
		t.Fatal(err)
	}
	data, err := os.ReadFile(f.Name())
	if err != nil {
		t.Fatal(err)
	}
	return data
}

func c12Blobs(datas ...[]byte) []c12Blob {
	var out []c12Blob
	for _, d := range datas {
		out = append(out, c12Blob{Digest: c12Digest(d), Data: zzverif.Hex(d)})
	}
	return out
}

func c12PullOp(name string, chunk int, cfg []byte, layers ...[]byte) c12Op {
	m := Manifest{SchemaVersion: 2, MediaType: "application/vnd.docker.distribution.manifest.v2+json"}
	m.Config = Layer{MediaType: "application/vnd.docker.container.image.v1+json", Digest: c12Digest(cfg), Size: int64(len(cfg))}
	for _, l := range layers {
		m.Layers = append(m.Layers, Layer{MediaType: "application/vnd.ollama.image.model", Digest: c12Digest(l), Size: int64(len(l))})
	}
	mj, _ := json.Marshal(m)
	return c12Op{Kind: "pull", Name: name, Manifest: string(mj), Blobs: c12Blobs(append(layers, cfg)...), Chunk: chunk}
}

const c12Lib = "registry.ollama.ai/library/"

// ---------------------------------------------------------------------------------------------
// oracle command lines

func c12StoreTokens(state []string, numberTemps bool) string {
	toks := []string{strconv.Itoa(len(state))}
	k := 0
	for _, e := range state {
		path, content, _ := strings.Cut(e, "=")
		if path == "T:*" {
			path = fmt.Sprintf("T:%d", 1000+k) // debris temps: ids the op never uses
			k++
		}
		toks = append(toks, path, content)
	}
	return strings.Join(toks, " ")
}

func c12HashTokens(datas [][]byte) string {
	seen := map[string]bool{}
	toks := []string{}
	n := 0
	for _, d := range datas {
		h := zzverif.Hex(d)
		if seen[h] {
			continue
		}
		seen[h] = true
		n++
		toks = append(toks, h, c12Hex64(c12Digest(d)))
	}
	return strings.TrimSpace(strconv.Itoa(n) + " " + strings.Join(toks, " "))
}

func c12BlobTokens(bs []c12Blob) string {
	toks := []string{strconv.Itoa(len(bs))}
	for _, b := range bs {
		toks = append(toks, c12Hex64(b.Digest), b.Data)
	}
	return strings.Join(toks, " ")
}

// c12OpTokens renders the op for the oracle. For create, the data layers are what the real code
// decided to store (read back from the manifest the uninterrupted run wrote); the model predicts
// the order and kind of the file-system effects, not the JSON text of the config layer.
func c12OpTokens(op *c12Op, fullStore string) (string, [][]byte) {
	var hashed [][]byte
	for _, b := range op.Uploads {
		hashed = append(hashed, zzverif.Unhex(b.Data))
	}
	for _, b := range op.Blobs {
		hashed = append(hashed, zzverif.Unhex(b.Data))
	}
	switch op.Kind {
	case "upload":
		return fmt.Sprintf("upload %s %s", c12Hex64(op.Uploads[0].Digest), op.Uploads[0].Data), hashed
	case "create":
		raw, err := os.ReadFile(filepath.Join(fullStore, "manifests", c12Lib+op.Name, "latest"))
		if err != nil {
			panic(err)
		}
		var m Manifest
		if err := json.Unmarshal(raw, &m); err != nil {
			panic(err)
		}
		blob := func(d string) []byte {
			b, err := os.ReadFile(filepath.Join(fullStore, "blobs", strings.ReplaceAll(d, ":", "-")))
			if err != nil {
				panic(err)
			}
			return b
		}
		datas := []string{}
		for _, l := range m.Layers {
			if l.Digest == op.File {
				continue
			}
			datas = append(datas, zzverif.Hex(blob(l.Digest)))
			hashed = append(hashed, blob(l.Digest))
		}
		cfg := blob(m.Config.Digest)
		hashed = append(hashed, cfg)
		return fmt.Sprintf("create %s %s %s %d %s %s", c12Lib+op.Name+"/latest", c12BlobTokens(op.Uploads), c12Hex64(op.File),
			len(datas), strings.Join(datas, " "), zzverif.Hex(cfg)), hashed
	case "copy":
		return fmt.Sprintf("copy %s %s", c12Lib+op.Src+"/latest", c12Lib+op.Name+"/latest"), hashed
	case "delete":
		return "delete " + c12Lib + op.Name + "/latest", hashed
	case "pull":
		return fmt.Sprintf("pull %s %s %s", c12Lib+op.Name+"/latest", c12Content("M:x", []byte(op.Manifest)), c12BlobTokens(op.Blobs)), hashed
	}
	panic("bad op")
}

func c12Join(ss []string) string {
	return strings.Join(ss, " ")
}

// ---------------------------------------------------------------------------------------------
// the parent test

func c12ManifestBytes(store string) map[string]string {
	out := map[string]string{}
	root := filepath.Join(store, "manifests")
	c12WalkLogical(root, func(p string, fi os.FileInfo) {
		rel, _ := filepath.Rel(root, p)
		b, _ := os.ReadFile(p)
		out[rel] = string(b)
	})
	return out
}

// c12BlobListing is the set of digest-named files in blobs/ (what the store HOLDS, referenced or not; temp files,
// -partial files and part records are not blobs)
func c12BlobListing(store string) []string {
	var out []string
	ents, _ := os.ReadDir(filepath.Join(store, "blobs"))
	for _, e := range ents {
		n := e.Name()
		if len(n) == 7+64 && strings.HasPrefix(n, "sha256-") && strings.Trim(n[7:], "0123456789abcdef") == "" {
			out = append(out, n[7:19])
		}
	}
	sort.Strings(out)
	return out
}

func c12ReadableListing(store string) string {
	readable, _ := c12Walk(store)
	var items []string
	for n, m := range readable {
		raw, _ := json.Marshal(m)
		items = append(items, n+"="+c12Content("M:"+n, raw))
	}
	sort.Strings(items)
	return strings.Join(items, " ")
}

// c12LiveRestart starts the REAL Serve on the store in a traced child process and repeats the operation through
// the HTTP API as soon as the listener exists (the connection waits in the backlog until Serve accepts). The tracer
// holds the start-up prune at the unlink of `leftover` (a blob the crash left unreferenced and the repeated operation
// would reuse) until the request's existence check of that blob has been seen or maxHold has passed: if Serve runs
// the repair BEFORE it serves (as it must), no request is handled while the prune is held, the hold times out, the
// prune completes and the operation starts from a clean store; if the repair runs concurrently with serving, the
// operation sees the blob, the prune then removes it, and the monitors report the missing layer.
// c12ServeOnly runs the REAL Serve on the store (traced child, no hold) until it answers a request — i.e. until its
// start-up store repair is complete — and stops it: what the real start-up sequence does to this store.
func c12ServeOnly(t *testing.T, self string, op *c12Op, dir string) (result string, startErr string) {
	r, e, _ := c12LiveRestartX(t, self, op, dir, "", true)
	return r, e
}

func c12LiveRestart(t *testing.T, self string, op *c12Op, dir, leftover string) (result string, startErr string, opts *c12TraceOpts) {
	return c12LiveRestartX(t, self, op, dir, leftover, false)
}

func c12LiveRestartX(t *testing.T, self string, op *c12Op, dir, leftover string, probeOnly bool) (result string, startErr string, opts *c12TraceOpts) {
	specPath := dir + ".serve.json"
	raw, _ := json.Marshal(op)
	os.WriteFile(specPath, raw, 0o644)
	os.Remove(specPath + ".port")
	os.Remove(specPath + ".serve-error")
	var env []string
	for _, kv := range os.Environ() {
		if !strings.HasPrefix(kv, "OLLAMA_") && !strings.HasPrefix(kv, "VERIF_C12_") && !strings.HasPrefix(kv, "GOMAXPROCS=") {
			env = append(env, kv)
		}
	}
	env = append(env, "OLLAMA_MODELS="+dir, "VERIF_C12_SERVE="+specPath, "OLLAMA_HOST=127.0.0.1:0")
	if op.NoPrune {
		env = append(env, "OLLAMA_NOPRUNE=1")
	}
	stop := make(chan struct{})
	opts = &c12TraceOpts{holdUnlink: leftover, maxHold: 8 * time.Second, stop: stop}
	resCh := make(chan string, 1)
	go func() {
		defer close(stop)
		deadline := time.Now().Add(300 * time.Second)
		addr := ""
		for time.Now().Before(deadline) {
			if b, err := os.ReadFile(specPath + ".port"); err == nil && len(b) > 0 {
				addr = string(b)
				break
			}
			if _, err := os.Stat(specPath + ".serve-error"); err == nil {
				resCh <- "err:startup"
				return
			}
			time.Sleep(2 * time.Millisecond)
		}
		if addr == "" {
			resCh <- "err:noport"
			return
		}
		body := fmt.Sprintf(`{"model":%q,"stream":false}`, op.Name)
		cl := &http.Client{Timeout: 300 * time.Second, Transport: &http.Transport{}}
		var resp *http.Response
		var err error
		if probeOnly {
			resp, err = cl.Get("http://" + addr + "/api/version")
		} else {
			resp, err = cl.Post("http://"+addr+"/api/pull", "application/json", strings.NewReader(body))
		}
		if err != nil {
			if _, e2 := os.Stat(specPath + ".serve-error"); e2 == nil {
				resCh <- "err:startup"
				return
			}
			resCh <- "err:http:" + err.Error()
			return
		}
		b, _ := io.ReadAll(resp.Body)
		resp.Body.Close()
		resCh <- c12Class(resp.StatusCode, string(b))
	}()
	c12TraceX([]string{self, "-test.run=^TestVerifC12Serve$", "-test.count=1", "-test.timeout=900s"}, env, dir, 0, dir+".serve.log", opts)
	select {
	case result = <-resCh:
	default:
		result = "err:server-exited"
	}
	if b, err := os.ReadFile(specPath + ".serve-error"); err == nil {
		startErr = string(b)
	}
	return result, startErr, opts
}

func TestVerifC12(t *testing.T) {
	if os.Getenv("VERIF_C12_CHILD") != "" {
		t.Skip("child mode")
	}
	out := zzverif.NewOut()
	defer out.Close()
	work, err := os.MkdirTemp(zzverif.OutDir(), "c12-")
	if err != nil {
		t.Fatal(err)
	}
	defer os.RemoveAll(work)
	rng := zzverif.NewRng(zzverif.Seed())
	thorough := os.Getenv("VERIF_TIER") == "thorough"
	replay := ""
	if p := os.Getenv("VERIF_REPLAY"); p != "" {
		raw, err := os.ReadFile(p)
		if err != nil {
			t.Fatal(err)
		}
		replay = strings.TrimSpace(string(raw))
	}

	self, err := os.Executable()
	if err != nil {
		t.Fatal(err)
	}
	runChild := func(op *c12Op, dir string, killAt int) ([]c12Sys, bool, int, string, error) {
		specPath := dir + ".spec.json"
		raw, _ := json.Marshal(op)
		os.WriteFile(specPath, raw, 0o644)
		os.Remove(specPath + ".result")
		var env []string
		for _, kv := range os.Environ() {
			if !strings.HasPrefix(kv, "OLLAMA_MODELS=") && !strings.HasPrefix(kv, "VERIF_C12_CHILD=") && !strings.HasPrefix(kv, "GOMAXPROCS=") {
				env = append(env, kv)
			}
		}
		env = append(env, "OLLAMA_MODELS="+dir, "VERIF_C12_CHILD="+specPath, "GOMAXPROCS=2")
		for i := len(env) - 1; i >= 0; i-- {
			if strings.HasPrefix(env[i], "OLLAMA_NOPRUNE=") {
				env = append(env[:i], env[i+1:]...)
			}
		}
		if op.NoPrune {
			env = append(env, "OLLAMA_NOPRUNE=1")
		}
		evs, killed, entered, err := c12Trace([]string{self, "-test.run=^TestVerifC12Child$", "-test.count=1"}, env, dir, killAt, dir+".log")
		res, _ := os.ReadFile(specPath + ".result")
		return evs, killed, entered, string(res), err
	}

	rounds := 1
	if thorough {
		rounds = zzverif.EnvInt("VERIF_N", 6)
	}
	for round := 0; round < rounds; round++ {
		r := rng.Fork()
		// ---- material of this round
		g1, g2 := c12GGUF(t, uint32(r.Intn(1000))), c12GGUF(t, 1000+uint32(r.Intn(1000)))
		chunk := r.Range(24, 48)
		if thorough && round%2 == 1 {
			chunk = r.Range(5, 16)
		}
		pl1 := append([]byte("pulled-layer-one:"), r.Bytes(r.Range(40, 90))...)
		pl2 := append([]byte("pulled-layer-two:"), r.Bytes(r.Range(20, 60))...)
		pl3 := append([]byte("pulled-layer-three:"), r.Bytes(r.Range(30, 70))...)
		cfg1, cfg2 := []byte(`{"model_format":"gguf","v":1}`), []byte(`{"model_format":"gguf","v":2}`)
		sysA, sysB := "system prompt of a "+strconv.Itoa(r.Intn(100)), "system prompt of b"

		stores := map[string]string{}
		// ---- store S1: a, b share the gguf layer; c pulled (layers pl1, pl2); all manifests readable
		s1 := filepath.Join(work, fmt.Sprintf("r%d-S1", round))
		stores["S1"] = s1
		t.Setenv("OLLAMA_MODELS", s1)
		prep := func(op c12Op) {
			if res := c12RunOp(t, &op); res != "ok" {
				t.Fatalf("prepare %s %s: %s", op.Kind, op.Name, res)
			}
		}
		prep(c12Op{Kind: "create", Name: "a", Uploads: c12Blobs(g1), File: c12Digest(g1), System: sysA, Chunk: chunk})
		prep(c12Op{Kind: "create", Name: "b", Uploads: c12Blobs(g1), File: c12Digest(g1), System: sysB, Chunk: chunk})
		prep(c12PullOp("c", chunk, cfg1, pl1, pl2))
		if _, err := c12Restart(); err != nil {
			t.Fatal(err)
		}

		opCreateNew := c12Op{Kind: "create", Name: "d", Uploads: c12Blobs(g2), File: c12Digest(g2), System: "system prompt of d", Chunk: chunk}
		opCreateShare := c12Op{Kind: "create", Name: "d", Uploads: c12Blobs(g1), File: c12Digest(g1), System: sysB, Chunk: chunk}
		opCreateRepl := c12Op{Kind: "create", Name: "a", Uploads: c12Blobs(g1), File: c12Digest(g1), System: "second system prompt of a", Chunk: chunk}
		opCopyNew := c12Op{Kind: "copy", Src: "a", Name: "e"}
		opCopyOver := c12Op{Kind: "copy", Src: "a", Name: "c"}
		opDelShared := c12Op{Kind: "delete", Name: "a"}
		opDelUnshared := c12Op{Kind: "delete", Name: "c"}
		opPullNew := c12PullOp("f", chunk, cfg2, pl1, pl3)
		opPullUpd := c12PullOp("c", chunk, cfg2, pl1, pl3)
		opCopyZ := c12Op{Kind: "copy", Src: "a", Name: "z"}

		// crash-made stores: S2 = S1 after a crash that tore the manifest of z (copy a z killed at the copy);
		// S3 = S2 after a pull of f killed right before its first part record is removed (record says complete);
		// S4 = S2 after a pull of f killed in the middle of the first body (record says 0 completed).
		crashStore := func(name, from string, op *c12Op, pick func(effs []string) int) {
			probe := filepath.Join(work, fmt.Sprintf("r%d-%s-probe", round, name))
			c12CopyTree(stores[from], probe)
			evs, _, _, _, err := runChild(op, probe, 0)
			if err != nil {
				t.Fatalf("store %s probe: %v", name, err)
			}
			killAt := 0
			for i := range evs {
				canon := &c12Canon{store: probe, temps: map[string]int{}}
				effs := canon.effects(evs[:i+1])
				before := (&c12Canon{store: probe, temps: map[string]int{}}).effects(evs[:i])
				if len(effs) > len(before) && pick(effs) == len(effs)-1 {
					killAt = evs[i].Idx
					break
				}
			}
			dir := filepath.Join(work, fmt.Sprintf("r%d-%s", round, name))
			c12CopyTree(stores[from], dir)
			if killAt == 0 && name == "S2" {
				// the tree under test never exposes a torn manifest (e.g. it writes manifests via
				// temp + rename): fall back to a hand-made torn manifest so that the "prune skipped"
				// stores are still exercised
				out.Count("s2_hand_made")
				p := filepath.Join(dir, "manifests", c12Lib+"z", "latest")
				os.MkdirAll(filepath.Dir(p), 0o755)
				os.WriteFile(p, nil, 0o644)
			} else if killAt == 0 {
				t.Fatalf("store %s: no kill point", name)
			} else if _, killed, _, _, _ := runChild(op, dir, killAt); !killed {
				t.Fatalf("store %s: not killed", name)
			}
			t.Setenv("OLLAMA_MODELS", dir)
			if _, err := c12Restart(); err != nil {
				t.Fatal(err)
			}
			stores[name] = dir
		}
		nth := func(prefix string, n int) func([]string) int {
			return func(effs []string) int {
				k := 0
				for i, e := range effs {
					if strings.HasPrefix(e, prefix) {
						k++
						if k == n {
							return i
						}
					}
				}
				return -1
			}
		}
		crashStore("S2", "S1", &opCopyZ, nth("cp ", 1))
		crashStore("S3", "S2", &opPullNew, nth("rm R:", 1))
		crashStore("S4", "S2", &opPullNew, nth("pw ", 2))

		// ---- store SHAPES (made by the parent from S1): symbolic links where the code follows them, files the
		// lister must ignore, an empty directory, a models path with a glob metacharacter
		shape := func(name string, f func(dir string)) {
			dir := filepath.Join(work, fmt.Sprintf("r%d-%s", round, name))
			c12CopyTree(stores["S1"], dir)
			f(dir)
			stores[name] = dir
		}
		must := func(err error) {
			if err != nil {
				t.Fatal(err)
			}
		}
		junk := func(dir string) {
			lib := filepath.Join(dir, "manifests", "registry.ollama.ai", "library")
			must(os.WriteFile(filepath.Join(dir, "manifests", "registry.ollama.ai", "README"), []byte("depth 2"), 0o644))
			must(os.MkdirAll(filepath.Join(lib, "x", "tagdir"), 0o755))
			must(os.WriteFile(filepath.Join(lib, "x", "tagdir", "extra"), []byte("depth 5"), 0o644))
			must(os.MkdirAll(filepath.Join(lib, "emptymodel"), 0o755))
			must(os.WriteFile(filepath.Join(dir, "blobs", "notes.txt"), []byte("junk in blobs"), 0o644))
			must(os.WriteFile(filepath.Join(dir, "history"), []byte("outside"), 0o644))
		}
		// S5: the directory of model b is a symlink (manifests/<host>/<ns>/b -> linked/b) + junk files
		shape("S5", func(dir string) {
			lib := filepath.Join(dir, "manifests", "registry.ollama.ai", "library")
			must(os.MkdirAll(filepath.Join(dir, "linked"), 0o755))
			must(os.Rename(filepath.Join(lib, "b"), filepath.Join(dir, "linked", "b")))
			must(os.Symlink("../../../linked/b", filepath.Join(lib, "b")))
			junk(dir)
		})
		// S6: the host directory is a symlink (manifests/<host> -> linked/host)
		shape("S6", func(dir string) {
			must(os.MkdirAll(filepath.Join(dir, "linked"), 0o755))
			must(os.Rename(filepath.Join(dir, "manifests", "registry.ollama.ai"), filepath.Join(dir, "linked", "host")))
			must(os.Symlink("../linked/host", filepath.Join(dir, "manifests", "registry.ollama.ai")))
		})
		// S7: blobs/ and manifests/ themselves are symlinks
		shape("S7", func(dir string) {
			must(os.MkdirAll(filepath.Join(dir, "linked"), 0o755))
			must(os.Rename(filepath.Join(dir, "blobs"), filepath.Join(dir, "linked", "blobs")))
			must(os.Symlink("linked/blobs", filepath.Join(dir, "blobs")))
			must(os.Rename(filepath.Join(dir, "manifests"), filepath.Join(dir, "linked", "manifests")))
			must(os.Symlink("linked/manifests", filepath.Join(dir, "manifests")))
		})
		// S9: directories and non-regular entries inside blobs/ (what a crashed conversion, a user or a backup tool
		// may leave): an empty directory, a non-empty directory, a symlink to a file, a dangling symlink, a FIFO
		shape("S9", func(dir string) {
			b := filepath.Join(dir, "blobs")
			must(os.MkdirAll(filepath.Join(b, "emptydir"), 0o755))
			must(os.MkdirAll(filepath.Join(b, "ollama-safetensors123", "sub"), 0o755))
			must(os.WriteFile(filepath.Join(b, "ollama-safetensors123", "fp16"), []byte("half a conversion"), 0o644))
			must(os.WriteFile(filepath.Join(b, "ollama-safetensors123", "sub", "x"), []byte("x"), 0o644))
			must(os.WriteFile(filepath.Join(dir, "history"), []byte("outside"), 0o644))
			must(os.Symlink("../history", filepath.Join(b, "link-to-file")))
			must(os.Symlink("../nowhere", filepath.Join(b, "dangling-link")))
			must(syscall.Mkfifo(filepath.Join(b, "fifo"), 0o644))
		})
		// S8[x]: the models path contains a glob metacharacter
		shape("S8[x]", func(dir string) {})
		// S10 (round 7): hand-made download debris, so that the resume branches of the model that no crash of
		// the unchanged single-part code produces are compared with the real code too: for pl3 a `-partial` file
		// holding the first k bytes (shorter than the blob) + a record that declares exactly k bytes complete
		// (resume from the MIDDLE); for cfg2 a `-partial` file without a record, LONGER than the blob (junk that
		// the fresh download must truncate and overwrite)
		shape("S10", func(dir string) {
			b := filepath.Join(dir, "blobs")
			base3 := filepath.Join(b, strings.ReplaceAll(c12Digest(pl3), ":", "-"))
			k := r.Range(1, len(pl3)-1)
			must(os.WriteFile(base3+"-partial", pl3[:k], 0o644))
			rec, _ := json.Marshal(jsonBlobDownloadPart{N: 0, Offset: 0, Size: int64(len(pl3)), Completed: int64(k)})
			must(os.WriteFile(base3+"-partial-0", append(rec, '\n'), 0o644))
			basec := filepath.Join(b, strings.ReplaceAll(c12Digest(cfg2), ":", "-"))
			must(os.WriteFile(basec+"-partial", append([]byte("junk left by something else, longer than the config blob: "), r.Bytes(40)...), 0o644))
		})

		// ---- which variant is this tree? (from the real syscall trace, no constant)
		am, ap := 0, 0
		{
			probe := func(name string, op *c12Op) []string {
				dir := filepath.Join(work, fmt.Sprintf("r%d-variant-%s", round, name))
				c12CopyTree(stores["S1"], dir)
				evs, _, _, _, err := runChild(op, dir, 0)
				if err != nil {
					t.Fatalf("variant probe %s: %v", name, err)
				}
				return (&c12Canon{store: dir, temps: map[string]int{}}).effects(evs)
			}
			for _, e := range probe("copy", &opCopyNew) {
				if f := strings.Fields(e); f[0] == "mv" && strings.HasPrefix(f[1], "T:") && strings.HasPrefix(f[2], "M:") {
					am = 1
				}
			}
			for _, e := range probe("pull", &opPullNew) {
				if f := strings.Fields(e); f[0] == "mv" && strings.HasPrefix(f[1], "T:") && strings.HasPrefix(f[2], "R:") {
					ap = 1
				}
			}
			if round == 0 {
				out.Add("variant_atomic_manifest", am)
				out.Add("variant_atomic_part_record", ap)
			}
		}

		type scenario struct {
			Store, Label string
			Op           *c12Op
			Involved     []string
			NoL1         bool // multi-part pull: outside the Lean model; L2 monitors only, sampled body writes
			Reduced      bool // kill points: non-body store syscalls + the middle of each run of body writes only
			ExpectFail   bool // registry fault scripts: the uninterrupted operation is expected to FAIL (damaged body)
			Live         bool // restart = the REAL Serve in a traced child, the operation repeated through its HTTP API
			MaxPoints    int  // sample the kill points evenly down to this many (0 = all)
		}
		// create from safetensors (tiny fixture: empty tensor table, config.json, tokenizer.json): the converter's
		// scratch directory, links, fp16 file; kill points inside the conversion
		var stBuf bytes.Buffer
		binary.Write(&stBuf, binary.LittleEndian, int64(len("{}")))
		stBuf.WriteString("{}")
		stFiles := map[string][]byte{
			"model.safetensors": stBuf.Bytes(),
			"config.json":       []byte(`{"architectures": ["LlamaForCausalLM"], "vocab_size": 8}`),
			"tokenizer.json":    []byte(`{"version": "1.0", "truncation": null, "padding": null, "added_tokens": [{"id": 0, "content": "<|endoftext|>", "single_word": false, "lstrip": false, "rstrip": false, "normalized": false, "special": true}]}`),
		}
		opCreateST := c12Op{Kind: "create", Name: "st", Files: map[string]string{}, System: "from safetensors", Chunk: 64}
		for _, name := range []string{"config.json", "model.safetensors", "tokenizer.json"} {
			opCreateST.Uploads = append(opCreateST.Uploads, c12Blobs(stFiles[name])...)
			opCreateST.Files[name] = c12Digest(stFiles[name])
		}
		// the same operations under OLLAMA_NOPRUNE=1 (no start-up prune, replaced layers are kept)
		np := func(op c12Op) *c12Op { op.NoPrune = true; return &op }
		// a layer of 100 MB + a few bytes: two download parts (100 MB, then the rest); the body of part 0 starts to
		// arrive only after part 1 has completed, so every kill during part 0 has "a later part finished, an
		// earlier one in flight"
		var opPullBig *c12Op
		if round == 0 {
			big := c12Blob{GenSize: 100_000_000 + r.Range(40, 90), GenSeed: r.U64()}
			big.Digest = c12Digest(big.bytes())
			m := Manifest{SchemaVersion: 2, MediaType: "application/vnd.docker.distribution.manifest.v2+json"}
			m.Config = Layer{MediaType: "application/vnd.docker.container.image.v1+json", Digest: c12Digest(cfg1), Size: int64(len(cfg1))}
			m.Layers = []Layer{{MediaType: "application/vnd.ollama.image.model", Digest: big.Digest, Size: int64(big.GenSize)}}
			mj, _ := json.Marshal(m)
			opPullBig = &c12Op{Kind: "pull", Name: "g", Manifest: string(mj), Blobs: append(c12Blobs(cfg1), big), Chunk: chunk,
				SlowFirst: true, NoPrune: true}
		}
		inv := func(n string) []string { return []string{c12Lib + n + "/latest"} }
		scen := []scenario{
			{Store: "S1", Label: "upload-new", Op: &c12Op{Kind: "upload", Uploads: c12Blobs(g2), Chunk: chunk}, Involved: nil},
			{Store: "S1", Label: "create-new", Op: &opCreateNew, Involved: inv("d")},
			{Store: "S1", Label: "create-replace", Op: &opCreateRepl, Involved: inv("a")},
			{Store: "S1", Label: "copy-new", Op: &opCopyNew, Involved: inv("e")},
			{Store: "S1", Label: "copy-over", Op: &opCopyOver, Involved: inv("c")},
			{Store: "S1", Label: "delete-shared", Op: &opDelShared, Involved: inv("a")},
			{Store: "S1", Label: "delete-unshared", Op: &opDelUnshared, Involved: inv("c")},
			{Store: "S1", Label: "pull-new", Op: &opPullNew, Involved: inv("f")},
			{Store: "S1", Label: "pull-update", Op: &opPullUpd, Involved: inv("c")},
			{Store: "S2", Label: "pull-new", Op: &opPullNew, Involved: inv("f")},
			{Store: "S2", Label: "create-new", Op: &opCreateNew, Involved: inv("d")},
			{Store: "S3", Label: "pull-new", Op: &opPullNew, Involved: inv("f")},
			{Store: "S1", Label: "pull-new-noprune", Op: np(opPullNew), Involved: inv("f")},
			{Store: "S1", Label: "pull-update-noprune", Op: np(opPullUpd), Involved: inv("c")},
			{Store: "S1", Label: "create-replace-noprune", Op: np(opCreateRepl), Involved: inv("a")},
			// round 7: model branches no other scenario reaches (resume from the middle, junk -partial without a
			// record; copy onto itself; copy of a missing source; delete of a missing / torn name; upload of a blob
			// that is already there; create whose gguf blob was never uploaded)
			{Store: "S10", Label: "pull-new-noprune", Op: np(opPullNew), Involved: inv("f")},
			{Store: "S10", Label: "pull-new", Op: &opPullNew, Involved: inv("f")},
			{Store: "S1", Label: "copy-self", Op: &c12Op{Kind: "copy", Src: "a", Name: "a"}, Involved: inv("a")},
			{Store: "S1", Label: "copy-nosrc", Op: &c12Op{Kind: "copy", Src: "nosuch", Name: "e"}, Involved: inv("e"), ExpectFail: true},
			{Store: "S1", Label: "delete-missing", Op: &c12Op{Kind: "delete", Name: "nosuch"}, Involved: inv("nosuch"), ExpectFail: true},
			{Store: "S2", Label: "delete-torn", Op: &c12Op{Kind: "delete", Name: "z"}, Involved: inv("z"), ExpectFail: true},
			{Store: "S1", Label: "upload-present", Op: &c12Op{Kind: "upload", Uploads: c12Blobs(g1), Chunk: chunk}, Involved: nil},
			{Store: "S1", Label: "create-share", Op: &opCreateShare, Involved: inv("d")}, // every layer exists already ("using existing layer")
			{Store: "S1", Label: "delete-unshared-noprune", Op: np(opDelUnshared), Involved: inv("c")},
			// create FROM the model that is being replaced (`ollama create a` with FROM a): the repeated operation needs
			// the replaced model to resolve at every crash point (L2 only: not in the Lean operation alphabet)
			{Store: "S1", Label: "create-from-self", Op: &c12Op{Kind: "create", Name: "a", From: "a", System: "third system prompt of a", Chunk: chunk}, Involved: inv("a"), NoL1: true},
			{Store: "S1", Label: "create-from-other", Op: &c12Op{Kind: "create", Name: "d", From: "a", System: "system prompt of d from a", Chunk: chunk}, Involved: inv("d"), NoL1: true},
		}
		scen = append(scen,
			scenario{Store: "S5", Label: "pull-new", Op: &opPullNew, Involved: inv("f")},
			scenario{Store: "S5", Label: "delete-shared", Op: &opDelShared, Involved: inv("a")},
			scenario{Store: "S6", Label: "pull-new", Op: &opPullNew, Involved: inv("f")},
			scenario{Store: "S8[x]", Label: "copy-new", Op: &opCopyNew, Involved: inv("e"), NoL1: true},
			scenario{Store: "S9", Label: "pull-new", Op: &opPullNew, Involved: inv("f")},
			scenario{Store: "S9", Label: "create-new", Op: &opCreateNew, Involved: inv("d")},
			scenario{Store: "S1", Label: "create-safetensors", Op: &opCreateST, Involved: inv("st"), NoL1: true, MaxPoints: 40},
			scenario{Store: "S1", Label: "pull-new-live", Op: &opPullNew, Involved: inv("f"), NoL1: true, Live: true},
		)
		// registry FAULT scripts on the crashed pull (one transient fault, then honest; the repeated pull sees an honest
		// registry) x kill points x start-up configurations (NOPRUNE, corrupt-manifest gate = S2, default)
		fault := func(kind string, noprune bool) *c12Op {
			op := opPullNew
			op.Fault, op.FaultDigest, op.FaultAt, op.NoPrune = kind, c12Digest(pl3), len(pl3)/3, noprune
			return &op
		}
		scen = append(scen,
			scenario{Store: "S1", Label: "pull-fault-shortpage-noprune", Op: fault("shortpage", true), Involved: inv("f"), NoL1: true},
			scenario{Store: "S1", Label: "pull-fault-cut-noprune", Op: fault("cut", true), Involved: inv("f"), NoL1: true},
			scenario{Store: "S1", Label: "pull-fault-damaged-noprune", Op: fault("damaged", true), Involved: inv("f"), ExpectFail: true},
			scenario{Store: "S2", Label: "pull-fault-damaged", Op: fault("damaged", false), Involved: inv("f"), ExpectFail: true},
			scenario{Store: "S1", Label: "pull-fault-damaged", Op: fault("damaged", false), Involved: inv("f"), ExpectFail: true},
		)
		if thorough {
			scen = append(scen,
				scenario{Store: "S2", Label: "pull-fault-shortpage", Op: fault("shortpage", false), Involved: inv("f"), NoL1: true},
				scenario{Store: "S1", Label: "pull-fault-shortpage", Op: fault("shortpage", false), Involved: inv("f"), NoL1: true},
				scenario{Store: "S2", Label: "pull-fault-cut", Op: fault("cut", false), Involved: inv("f"), NoL1: true},
			)
		}
		if opPullBig != nil {
			scen = append(scen, scenario{Store: "S1", Label: "pull-multipart-noprune", Op: opPullBig, Involved: inv("g"), NoL1: true})
			// the same multi-part pull in the DEFAULT configuration: the start-up prune must clear the part bookkeeping
			def := *opPullBig
			def.NoPrune = false
			scen = append(scen, scenario{Store: "S1", Label: "pull-multipart", Op: &def, Involved: inv("g"), NoL1: true, Reduced: true})
		}
		if thorough {
			scen = append(scen,
				scenario{Store: "S5", Label: "create-replace", Op: &opCreateRepl, Involved: inv("a")},
				scenario{Store: "S5", Label: "pull-update", Op: &opPullUpd, Involved: inv("c")},
				scenario{Store: "S6", Label: "delete-shared", Op: &opDelShared, Involved: inv("a")},
				scenario{Store: "S6", Label: "create-new", Op: &opCreateNew, Involved: inv("d")},
				scenario{Store: "S7", Label: "pull-new", Op: &opPullNew, Involved: inv("f")},
				scenario{Store: "S7", Label: "create-replace", Op: &opCreateRepl, Involved: inv("a")},
				scenario{Store: "S7", Label: "delete-unshared", Op: &opDelUnshared, Involved: inv("c")},
				scenario{Store: "S8[x]", Label: "pull-new", Op: &opPullNew, Involved: inv("f"), NoL1: true},
				scenario{Store: "S2", Label: "pull-update", Op: &opPullUpd, Involved: inv("c")},
				scenario{Store: "S2", Label: "create-replace", Op: &opCreateRepl, Involved: inv("a")},
				scenario{Store: "S2", Label: "copy-over", Op: &opCopyOver, Involved: inv("c")},
				scenario{Store: "S2", Label: "delete-unshared", Op: &opDelUnshared, Involved: inv("c")},
				scenario{Store: "S2", Label: "delete-shared", Op: &opDelShared, Involved: inv("a")},
				scenario{Store: "S3", Label: "pull-update", Op: &opPullUpd, Involved: inv("c")},
				scenario{Store: "S4", Label: "pull-new", Op: &opPullNew, Involved: inv("f")},
				scenario{Store: "S4", Label: "pull-update", Op: &opPullUpd, Involved: inv("c")},
			)
		}

		distinctStates := 0
		for i := range scen {
			sc := &scen[i]
			tag := fmt.Sprintf("r%d %s %s", round, sc.Store, sc.Label)
			if replay != "" && !strings.HasPrefix(replay, tag+" ") {
				continue
			}
			base := stores[sc.Store]
			baseState := c12State(base)
			baseReadable, _ := c12Walk(base)
			baseManBytes := c12ManifestBytes(base)

			// ---- uninterrupted, traced run: L1 (effects)
			full := filepath.Join(work, fmt.Sprintf("r%d-%s-%s-full", round, sc.Store, sc.Label))
			c12CopyTree(base, full)
			evs, _, entered, res, err := runChild(sc.Op, full, 0)
			if err != nil {
				lg, _ := os.ReadFile(full + ".log")
				t.Fatalf("%s: uninterrupted child failed: %v\n%s", tag, err, lg)
			}
			// canonical effects, per syscall (one pass; the temp numbering is shared)
			per := make([][]string, len(evs))
			winPath := make([]string, len(evs)) // canonical path of each syscall (for kill windows without a model effect)
			var effs []string
			{
				cn := &c12Canon{store: full, temps: map[string]int{}}
				for i := range evs {
					per[i] = cn.effects(evs[i : i+1])
					effs = append(effs, per[i]...)
					winPath[i] = cn.path(evs[i].Path)
				}
			}
			job := ""
			if !sc.NoL1 {
				// round 7: a registry that serves DAMAGED bytes for one digest is inside the model too (reg maps the
				// digest to the damaged bytes: download, rename, failed verification, removal) — the job is built from
				// what the registry really served
				modelOp := sc.Op
				if sc.Op.Fault == "damaged" {
					d := *sc.Op
					d.Blobs = nil
					for _, b := range sc.Op.Blobs {
						if b.Digest == sc.Op.FaultDigest {
							bad := append([]byte{}, b.bytes()...)
							bad[len(bad)/2] ^= 0x20
							b = c12Blob{Digest: b.Digest, Data: zzverif.Hex(bad)}
						}
						d.Blobs = append(d.Blobs, b)
					}
					modelOp = &d
					out.Count("l1_damaged_registry_scenarios")
				}
				opToks, hashed := c12OpTokens(modelOp, full)
				npTok := 0
				if sc.Op.NoPrune {
					npTok = 1
					out.Count("noprune_scenarios")
				}
				job = fmt.Sprintf("%s %s %d %d %d %d %s", c12StoreTokens(baseState, true), c12HashTokens(hashed), max(1, sc.Op.Chunk), am, ap, npTok, opToks)
				okTok := " | ok"
				if res != "ok" {
					okTok = " | fail"
				}
				out.Case("effects "+job, strings.Join(effs, " ; ")+okTok)
				out.Count("l1_effects_lines")
				out.Add("l1_effects_total", len(effs))
			}
			out.Count("op_" + sc.Op.Kind)
			fullReadable := c12ReadableListing(full)
			fullBlobs := c12BlobListing(full)
			rerunOp := sc.Op
			if sc.Op.Fault != "" {
				out.Count("fault_" + sc.Op.Fault)
				// the transient fault is over when the operation is repeated; the reference is an honest uninterrupted run
				h := *sc.Op
				h.Fault = ""
				rerunOp = &h
				ref := filepath.Join(work, fmt.Sprintf("r%d-%s-%s-honest", round, sc.Store, sc.Label))
				c12CopyTree(base, ref)
				t.Setenv("OLLAMA_MODELS", ref)
				if h.NoPrune {
					os.Setenv("OLLAMA_NOPRUNE", "1")
				}
				if r := c12RunOp(t, &h); r != "ok" {
					t.Fatalf("%s: honest reference run failed: %s", tag, r)
				}
				os.Unsetenv("OLLAMA_NOPRUNE")
				fullReadable = c12ReadableListing(ref)
				fullBlobs = c12BlobListing(ref)
				os.RemoveAll(ref)
			}
			// contract behind the model's `put`: a manifest / part record is written by ONE write and every
			// proper prefix of its text is rejected by the real decoder (or, minus the final newline, decodes
			// to the same value), so a cut write is as unreadable as the empty file
			{
				cn := &c12Canon{store: full, temps: map[string]int{}}
				for _, e := range evs {
					if e.Nr != 1 || e.Ret <= 0 {
						continue
					}
					cp := cn.path(e.Path)
					if cp[0] != 'M' && cp[0] != 'R' {
						continue
					}
					whole := c12Content(cp, e.Data)
					for k := 0; k < len(e.Data); k++ {
						out.Count("json_prefixes_checked")
						var err error
						got := ""
						if cp[0] == 'M' {
							var m Manifest
							err = json.NewDecoder(bytes.NewReader(e.Data[:k])).Decode(&m)
						} else {
							var pr blobDownloadPart
							err = json.NewDecoder(bytes.NewReader(e.Data[:k])).Decode(&pr)
						}
						if err == nil {
							got = c12Content(cp, e.Data[:k])
							if got != whole {
								out.L2("prefix-readable", tag+" 0 -", fmt.Sprintf("a %d-byte prefix of the %d-byte text written to %s decodes to a different value", k, len(e.Data), cp))
							}
						}
					}
				}
			}
			t.Logf("== %s: result=%s store syscalls=%d effects=%d", tag, res, entered, len(effs))
			if (res != "ok") != sc.ExpectFail {
				out.L2("uninterrupted-op-failed", tag+" 0 -", fmt.Sprintf("expected failure=%v, result=%s", sc.ExpectFail, res))
			}
			if sc.ExpectFail {
				// a failed operation must not leave anything unverified behind either
				rd, _ := c12Walk(full)
				for _, b := range c12CheckIntact(full, rd) {
					out.L2("dangling-layer", tag+" 0 -", "after the failed uninterrupted run: "+b)
				}
			}
			// number of model effects completed before store syscall N is entered
			effBefore := make([]int, entered+2)
			for n := 1; n <= entered+1; n++ {
				effBefore[n] = effBefore[n-1]
				if n >= 2 && n-2 < len(per) {
					effBefore[n] += len(per[n-2])
				}
			}
			window := func(n int) string {
				if n-1 < len(evs) {
					if w := per[n-1]; len(w) > 0 {
						x := w[len(w)-1]
						if f := strings.Fields(x); len(f) > 2 {
							x = f[0] + " " + f[1]
							if f[0] == "mv" || f[0] == "cp" {
								x += " " + f[2]
							}
						}
						return strings.ReplaceAll(x, " ", "_")
					}
					// a store syscall without a model effect: say WHICH (the deferred os.Remove of an atomic temp file that
					// fails after the rename, a directory removal / creation, …) so that a known-finding signature can name
					// exactly its crash window
					e := evs[n-1]
					switch {
					case (e.Nr == 263 && e.Flags&0x200 != 0) || e.Nr == 84:
						return "rmdir_" + winPath[n-1]
					case e.Nr == 83 || e.Nr == 258:
						return "mkdir_" + winPath[n-1]
					case (e.Nr == 263 || e.Nr == 87) && e.Ret < 0:
						return "rmfail_" + winPath[n-1]
					}
					return fmt.Sprintf("sys%d_%s", e.Nr, winPath[n-1])
				}
				return "?"
			}
			// which kill points: all of them; for the multi-part pull the thousands of 32 KiB body writes are
			// sampled (first, middle, last of every run of consecutive large writes)
			var points []int
			for n := 1; n <= entered; n++ {
				if sc.NoL1 && n-1 < len(evs) && evs[n-1].Big {
					lo := n
					for n+1 <= entered && n < len(evs) && evs[n].Big {
						n++
					}
					if !sc.Reduced {
						points = append(points, lo)
						if n > lo {
							points = append(points, n)
						}
					}
					if n > lo+1 || sc.Reduced {
						points = append(points, (lo+n)/2)
					}
					out.Add("multipart_body_writes", n-lo+1)
					continue
				}
				points = append(points, n)
			}
			if sc.Live {
				// the kill that leaves a downloaded, verified, unreferenced layer: right after the first rename of a
				// -partial file into place
				points = nil
				for i := range per {
					if len(per[i]) > 0 && strings.HasPrefix(per[i][0], "mv P:") {
						points = []int{evs[i].Idx + 1}
						break
					}
				}
			}
			if sc.MaxPoints > 0 && len(points) > sc.MaxPoints {
				var sel []int
				for i := 0; i < sc.MaxPoints; i++ {
					sel = append(sel, points[i*len(points)/sc.MaxPoints])
				}
				points = sel
			}
			if sc.NoL1 && sc.Op.Kind == "pull" && !sc.Live {
				nrec := 0
				for _, e := range effs {
					if strings.HasPrefix(e, "mv T:") && strings.Contains(e, " R:") || strings.HasPrefix(e, "put R:") {
						nrec++
					}
				}
				out.Add("multipart_record_writes", nrec)
			}

			// ---- every crash point
			seen := map[string]bool{}
			const serveSampleEvery = 60
			for _, n := range points {
				if replay != "" && !strings.HasPrefix(replay, fmt.Sprintf("%s %d ", tag, n)) {
					continue
				}
				caseLine := fmt.Sprintf("%s %d %s", tag, n, window(n))
				if sc.Op.Fault != "" {
					caseLine += " fault=" + c12Hex64(sc.Op.FaultDigest) // which blob's body the registry damaged / cut
				}
				dir := filepath.Join(work, fmt.Sprintf("r%d-%s-%s-k%d", round, sc.Store, sc.Label, n))
				c12CopyTree(base, dir)
				_, killed, _, _, _ := runChild(sc.Op, dir, n)
				out.Count("cases")
				if !killed {
					out.L2("kill-missed", caseLine, "child finished before the kill point (nondeterministic syscall count?)")
					os.RemoveAll(dir)
					continue
				}
				crashed := c12State(dir)
				key := strings.Join(crashed, "\n")
				if seen[key] {
					out.Count("crash_states_duplicate")
					os.RemoveAll(dir)
					continue
				}
				seen[key] = true
				out.Count("crash_states_distinct")
				k := effBefore[n]
				inRmRun := sc.Op.Kind == "pull" && k > 0 && k < len(effs) && strings.HasPrefix(effs[k-1], "rm B:") && strings.HasPrefix(effs[k], "rm B:")
				if sc.NoL1 {
					inRmRun = true // no L1 lines for this scenario
				}
				if !inRmRun {
					out.Case(fmt.Sprintf("crash %d %s", k, job), c12Join(crashed))
					out.Count("l1_crash_lines")
				}

				if sc.Op.Kind == "pull" && sc.Op.Fault == "" { // the hypothesis is about an HONEST registry
					bad, nrec := c12CheckDebris(dir, sc.Op)
					out.Add("debris_records_checked", nrec)
					for _, b := range bad {
						out.L2("debris-inconsistent", caseLine, "window="+window(n)+" "+b)
					}
				}
				if sc.Live {
					// ---- live restart: the real Serve, the operation repeated through its API at once
					leftover := ""
					for _, e := range effs {
						if f := strings.Fields(e); f[0] == "mv" && strings.HasPrefix(f[1], "P:") {
							leftover = filepath.Join(dir, "blobs", "sha256-"+strings.TrimPrefix(f[2], "B:"))
							break
						}
					}
					res2, startErr, o := c12LiveRestart(t, self, sc.Op, dir, leftover)
					// the live restart is the only part of the driver that waits on the wall clock (port file, HTTP reply): a
					// time-out is a MACHINERY failure, not a property failure — recreate the crash state, try once more, and if
					// it times out again count it (the check has a floor on successful live restarts)
					timedOut := func(r string) bool {
						return r == "err:noport" || r == "err:server-exited" || strings.HasPrefix(r, "err:http:")
					}
					if timedOut(res2) && startErr == "" {
						out.Count("live_timeouts")
						os.RemoveAll(dir)
						c12CopyTree(base, dir)
						if _, killed, _, _, _ := runChild(sc.Op, dir, n); killed {
							res2, startErr, o = c12LiveRestart(t, self, sc.Op, dir, leftover)
						}
						if timedOut(res2) && startErr == "" {
							out.Count("live_timeouts")
							os.RemoveAll(dir)
							continue
						}
					}
					out.Count("live_restarts")
					out.Add("live_prune_held_ms", int(o.heldFor/time.Millisecond))
					if startErr != "" {
						out.L2("restart-failed", caseLine, "Serve returned: "+startErr)
					}
					if o.statSeen {
						out.L2("served-before-repair", caseLine, "the repeated operation's existence check of the leftover blob was executed while the start-up prune had not finished: Serve handles requests before its store repair is complete")
					}
					if res2 != "ok" {
						out.L2("rerun-failed", caseLine, "live restart: result="+res2)
					} else {
						readable2, _ := c12Walk(dir)
						for _, b := range c12CheckIntact(dir, readable2) {
							out.L2("dangling-layer", caseLine, "after live restart + rerun: "+b)
						}
						if got := c12ReadableListing(dir); got != fullReadable {
							out.L2("rerun-diverged", caseLine, fmt.Sprintf("live restart: readable manifests after rerun differ from the uninterrupted run: got [%s] want [%s]", got, fullReadable))
						}
					}
					out.Count("rerun_" + strings.SplitN(res2, ":", 3)[0])
					os.RemoveAll(dir)
					continue
				}
				// ---- a sample of the crash states also goes through the REAL Serve (child process; no hold): the store it
				// leaves when it starts answering must be the store the in-process start-up sequence below leaves
				serveDir := ""
				if !sc.NoL1 && (sc.Op.Kind == "pull" || sc.Op.Kind == "create") && distinctStates%serveSampleEvery == serveSampleEvery/2 {
					serveDir = dir + "-serve"
					c12CopyTree(dir, serveDir)
				}
				distinctStates++
				// ---- restart (the real start-up sequence) and the L2 walk
				t.Setenv("OLLAMA_MODELS", dir)
				if sc.Op.NoPrune {
					os.Setenv("OLLAMA_NOPRUNE", "1")
				} else {
					os.Unsetenv("OLLAMA_NOPRUNE")
				}
				pruned, err := c12Restart()
				if err != nil {
					out.L2("restart-failed", caseLine, err.Error())
				}
				if !inRmRun {
					out.Case(fmt.Sprintf("restarted %d %s", k, job), c12Join(c12State(dir)))
					out.Count("l1_restarted_lines")
				}
				if serveDir != "" {
					want := c12Join(c12State(dir))
					r, startErr := c12ServeOnly(t, self, sc.Op, serveDir)
					if r != "ok" && startErr == "" {
						out.Count("serve_sample_timeouts") // wall clock: machinery, not a property failure
					} else {
						out.Count("serve_samples")
						if startErr != "" {
							out.L2("restart-failed", caseLine, "real Serve returned: "+startErr)
						} else if got := c12Join(c12State(serveDir)); got != want {
							out.L2("serve-startup-differs", caseLine, fmt.Sprintf("the store the real Serve leaves when it starts answering differs from the store the start-up sequence of the driver leaves: got [%s] want [%s]", got, want))
						}
					}
					os.RemoveAll(serveDir)
					t.Setenv("OLLAMA_MODELS", dir)
				}
				if pruned {
					out.Count("restart_pruned")
				} else {
					out.Count("restart_prune_skipped")
				}
				readable, torn := c12Walk(dir)
				if len(torn) > 0 {
					out.Count("states_with_torn_manifest")
				}
				for _, b := range c12CheckIntact(dir, readable) {
					out.L2("dangling-layer", caseLine, "after restart: "+b)
				}
				manBytes := c12ManifestBytes(dir)
				for name, m := range baseReadable {
					involved := false
					for _, x := range sc.Involved {
						involved = involved || x == name
					}
					if involved {
						if _, ok := readable[name]; !ok {
							if _, exists := manBytes[name]; exists {
								out.L2("replaced-model-lost", caseLine, fmt.Sprintf("window=%s %s was readable before the operation and is unreadable (%d bytes) after the crash", window(n), name, len(manBytes[name])))
							} else if sc.Op.Kind != "delete" && am == 1 {
								// round 7 (theorem atomic_replaced_model_kept, trees that write manifests by temp + rename): an
								// operation other than delete never makes a readable name vanish, not even for a moment
								out.L2("replaced-model-lost", caseLine, fmt.Sprintf("window=%s %s was readable before the %s and does not exist after the crash", window(n), name, sc.Op.Kind))
							}
						}
						continue
					}
					if manBytes[name] != baseManBytes[name] {
						out.L2("uninvolved-changed", caseLine, "manifest of "+name+" changed")
						continue
					}
					for _, l := range append(append([]Layer{}, m.Layers...), m.Config) {
						rel := filepath.Join("blobs", strings.ReplaceAll(l.Digest, ":", "-"))
						a, _ := os.ReadFile(filepath.Join(base, rel))
						b, err := os.ReadFile(filepath.Join(dir, rel))
						if err != nil || !bytes.Equal(a, b) {
							out.L2("uninvolved-changed", caseLine, "layer "+l.Digest[7:19]+" of "+name+" changed or missing")
						}
					}
				}
				if !pruned {
					// the model's restart on the crashed state (prune skipped: identity) is covered by `rerun`
				}
				// ---- repeat the operation
				res2 := c12RunOp(t, rerunOp)
				okish := res2 == "ok" || (sc.Op.Kind == "delete" && res2 == "err:notfound") ||
					(sc.ExpectFail && sc.Op.Fault == "" && res2 == res) // an operation that cannot succeed fails the same way again
				if !okish {
					out.L2("rerun-failed", caseLine, fmt.Sprintf("window=%s pruned=%v torn=%v result=%s", window(n), pruned, torn, res2))
				} else {
					readable2, _ := c12Walk(dir)
					for _, b := range c12CheckIntact(dir, readable2) {
						out.L2("dangling-layer", caseLine, "after rerun: "+b)
					}
					if got := c12ReadableListing(dir); got != fullReadable {
						out.L2("rerun-diverged", caseLine, fmt.Sprintf("window=%s readable manifests after rerun differ from the uninterrupted run: got [%s] want [%s]", window(n), got, fullReadable))
					}
					// round 7, clause 4 on blobs/: the repeated operation leaves the blobs an uninterrupted run leaves. Compared
					// under OLLAMA_NOPRUNE only, where nothing ever collects an unreferenced blob (F28); in the default
					// configuration unreferenced blobs are transient garbage on both sides (an uninterrupted `cp` onto an
					// existing name leaves the replaced model's layers until the next start-up), what is referenced is
					// compared by dangling-layer / rerun-diverged, and theorem rerun_converges_delete_blobs covers delete
					if sc.Op.NoPrune {
						got := c12BlobListing(dir)
						var extra, missing []string
						have := map[string]bool{}
						for _, b := range got {
							have[b] = true
						}
						want := map[string]bool{}
						for _, b := range fullBlobs {
							want[b] = true
							if !have[b] {
								missing = append(missing, b)
							}
						}
						for _, b := range got {
							if !want[b] {
								extra = append(extra, b)
							}
						}
						out.Count("blob_sets_compared")
						if len(missing) > 0 {
							out.L2("rerun-store-diverged", caseLine, fmt.Sprintf("missing blobs %v (extra %v) after rerun, compared with the uninterrupted run; window=%s pruned=%v", missing, extra, window(n), pruned))
						} else if len(extra) > 0 {
							out.L2("rerun-store-diverged", caseLine, fmt.Sprintf("extra blobs %v after rerun, compared with the uninterrupted run; window=%s pruned=%v", extra, window(n), pruned))
						}
					}
				}
				if !inRmRun && sc.Op.Fault == "" {
					resTok := "ok "
					if res2 != "ok" {
						resTok = "fail "
					}
					out.Case(fmt.Sprintf("rerun %d %s", k, job), strings.TrimSpace(resTok+c12ReadableListing(dir)))
					out.Count("l1_rerun_lines")
				}
				out.Count("rerun_" + strings.SplitN(res2, ":", 3)[0])
				os.Unsetenv("OLLAMA_NOPRUNE")
				os.RemoveAll(dir)
			}
		}
	}
}
