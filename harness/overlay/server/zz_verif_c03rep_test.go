package server

// C03 driver, part 7: re-pulls of a name whose tag the registry RE-PUBLISHED.
//
// "The stored manifest is the one the registry served" is a statement about every pull of a history, not only the
// first one of a name: between two pulls of a tag the registry may serve another manifest that is closely related to
// the one already installed (only the config changed, only a media type or a declared size changed, a layer was
// appended / dropped / replaced / the order changed, or nothing changed at all).  These cases start from a store in
// which an earlier version is installed (manifest + every blob, verified), or install it by a first attempt of the
// same history, and then pull the later versions — each attempt carries the manifest served at that time
// (`rereg`), with and without faults on the way.  Model: `runHistory` (one `HStep` per attempt).

import (
	"fmt"

	"github.com/ollama/ollama/zzverif"
)

// c3RepWorld: the blobs a republish history may name.
type c3RepWorld struct {
	c     *c3Case
	fresh int
}

func (w *c3RepWorld) blob(content []byte) c3Layer {
	d := c3Sha(content)
	for _, b := range w.c.content {
		if b.dig == d {
			return c3Layer{d, int64(len(content)), 0}
		}
	}
	w.c.content = append(w.c.content, c3Blob{d, content})
	return c3Layer{d, int64(len(content)), 0}
}

func (w *c3RepWorld) newBlob(r *zzverif.Rng, what string) c3Layer {
	w.fresh++
	return w.blob(append([]byte(fmt.Sprintf("%s-%d-", what, w.fresh)), r.Bytes(r.Range(0, 14))...))
}

func (w *c3RepWorld) contentOf(d string) []byte {
	for _, b := range w.c.content {
		if b.dig == d {
			return b.content
		}
	}
	return nil
}

// install puts manifest m (and every blob it names, intact) into the initial store under name.
func (w *c3RepWorld) install(name int, m c3Manifest) {
	for _, l := range m.all() {
		if len(l.ref) != 64 {
			continue
		}
		have := false
		for _, b := range w.c.blobs {
			have = have || b.dig == l.ref
		}
		if !have {
			w.c.blobs = append(w.c.blobs, c3Blob{l.ref, w.contentOf(l.ref)})
		}
	}
	w.c.manifests = append(w.c.manifests, c3Man{name: name, m: m})
}

var c3RepKinds = []string{"same", "cfg-changed", "cfg-removed", "cfg-added", "cfg-media", "layer-media", "old-size-wrong",
	"layer-appended", "layer-prepended", "layer-dropped", "layer-swapped", "layer-replaced", "all-new", "cfg-becomes-layer"}

func c3CopyManifest(m c3Manifest) c3Manifest {
	return c3Manifest{layers: append([]c3Layer{}, m.layers...), config: m.config}
}

// c3Republished: the next version of a tag. (`old-size-wrong` is the only kind that edits the OLD version: the declared
// size of its first layer was wrong and the re-published manifest corrects it — returned as (corrected, true).)
func c3Republished(w *c3RepWorld, r *zzverif.Rng, kind string, v c3Manifest) c3Manifest {
	n := c3CopyManifest(v)
	switch kind {
	case "cfg-changed":
		n.config = w.newBlob(r, "config")
	case "cfg-removed":
		n.config = c3Layer{"e", 0, 0}
	case "cfg-added":
		if n.config.ref == "e" {
			n.config = w.newBlob(r, "config")
		} else {
			n.config = w.newBlob(r, "config2")
		}
	case "cfg-media":
		n.config.mt = 1 + (n.config.mt+r.Intn(len(c3MediaTypes)-2))%(len(c3MediaTypes)-1)
		if n.config.ref == "e" { // a media type on a descriptor without digest is still part of the manifest
			n.config.mt = 5
		}
	case "layer-media":
		if len(n.layers) > 0 {
			i := r.Intn(len(n.layers))
			n.layers[i].mt = 1 + (n.layers[i].mt+r.Intn(len(c3MediaTypes)-2))%(len(c3MediaTypes)-1)
		} else {
			n.config.mt = 2
		}
	case "layer-appended":
		n.layers = append(n.layers, w.newBlob(r, "layer"))
	case "layer-prepended":
		n.layers = append([]c3Layer{w.newBlob(r, "layer")}, n.layers...)
	case "layer-dropped":
		if len(n.layers) > 0 {
			i := r.Intn(len(n.layers))
			n.layers = append(n.layers[:i:i], n.layers[i+1:]...)
		}
	case "layer-swapped":
		if len(n.layers) > 1 {
			n.layers[0], n.layers[len(n.layers)-1] = n.layers[len(n.layers)-1], n.layers[0]
		} else {
			n.layers = append(n.layers, w.newBlob(r, "layer"))
		}
	case "layer-replaced":
		if len(n.layers) > 0 {
			n.layers[r.Intn(len(n.layers))] = w.newBlob(r, "layer")
		} else {
			n.layers = []c3Layer{w.newBlob(r, "layer")}
		}
	case "all-new":
		for i := range n.layers {
			n.layers[i] = w.newBlob(r, "layer")
		}
		n.config = w.newBlob(r, "config")
	case "cfg-becomes-layer":
		if n.config.ref != "e" {
			n.layers = append(n.layers, c3Layer{n.config.ref, n.config.size, 0})
			n.config = w.newBlob(r, "config")
		}
	}
	return n
}

// faults of one attempt of a republish history; `fresh` = a digest of the new version that is not in the store yet
func c3RepFault(r *zzverif.Rng, kind string, fresh string, freshLen int) (c3Attempt, bool) {
	var a c3Attempt
	switch kind {
	case "none":
	case "manifest-5xx":
		a.ms = []c3Reply{c3K("status")}
	case "manifest-401-token-fails":
		a.ms = []c3Reply{c3Unauth(c3GoodChallenge)}
		a.tok = []bool{false}
		a.tokShape = []string{""}
	case "cancel-writing":
		a.cancel = "writing"
	case "cancel-start":
		a.cancel = "start"
	case "fresh-flip", "fresh-404", "fresh-errorpage":
		if fresh == "" {
			return a, false
		}
		ls := c3LScript{dig: fresh}
		switch kind {
		case "fresh-flip":
			if freshLen == 0 {
				return a, false
			}
			ls.chunks = [][]c3Chunk{{{src: "flip", flip: r.Intn(freshLen), cut: -1, end: "eof"}}}
		case "fresh-404":
			ls.head = []c3Reply{c3K("notfound")}
		case "fresh-errorpage":
			ls.chunks = [][]c3Chunk{{{src: "junk", junk: []byte("<html>504 Gateway Time-out</html>"), cut: -1, end: "eof"}}}
		}
		a.ls = []c3LScript{ls}
	}
	return a, true
}

var c3RepFaults = []string{"none", "manifest-5xx", "manifest-401-token-fails", "cancel-writing", "cancel-start", "fresh-flip", "fresh-404", "fresh-errorpage"}

// c3FreshOf: a layer of `next` that `have` does not name (what the re-pull has to download).
func c3FreshOf(next c3Manifest, have ...c3Manifest) string {
	for _, l := range next.all() {
		if len(l.ref) != 64 {
			continue
		}
		known := false
		for _, h := range have {
			for _, k := range h.all() {
				known = known || k.ref == l.ref
			}
		}
		if !known {
			return l.ref
		}
	}
	return ""
}

// c3RepCase: v[0] is installed (initial store, or by a first honest attempt when `pullFirst`), then v[1], v[2] ... are
// pulled in turn, attempt i under fault faults[i-1]; a faulted attempt is followed by an honest one for the same version;
// the history ends with the honest tail on the last version.
func c3RepCase(r *zzverif.Rng, tag string, w *c3RepWorld, versions []c3Manifest, faults []string, pullFirst bool, other bool) *c3Case {
	c := w.c
	c.tag = tag
	c.reg = versions[0]
	if pullFirst {
		c.attempts = append(c.attempts, c3Attempt{})
	} else {
		w.install(0, versions[0])
	}
	if other && len(versions[0].layers) > 0 { // another name shares the first layer of the first version (prune must keep it)
		w.install(1, c3Manifest{layers: []c3Layer{versions[0].layers[0]}, config: c3Layer{"e", 0, 0}})
	}
	last := versions[0]
	for i := 1; i < len(versions); i++ {
		v := versions[i]
		fresh := c3FreshOf(v, versions[:i]...)
		a, ok := c3RepFault(r, faults[i-1], fresh, len(w.contentOf(fresh)))
		if !ok {
			a = c3Attempt{}
		}
		vv := c3CopyManifest(v)
		a.reg = &vv
		c.attempts = append(c.attempts, a)
		if ok && faults[i-1] != "none" {
			h := c3Attempt{}
			v2 := c3CopyManifest(v)
			h.reg = &v2
			c.attempts = append(c.attempts, h)
		}
		last = v
	}
	// honest tail on the last version
	n := len(c.attempts)
	c.attempts = c3HonestTail(c, c.attempts)
	if len(versions) > 1 {
		for i := n; i < len(c.attempts); i++ {
			lv := c3CopyManifest(last)
			c.attempts[i].reg = &lv
		}
	}
	return c
}

func c3Republish(root *zzverif.Rng, nRandom int, emit func(*c3Case)) {
	A, B, C := []byte("rep-layer-A-0123456789abcdef"), []byte("rep-layer-B"), []byte(`{"rep":"config"}`)
	base := func(w *c3RepWorld, withConfig bool) c3Manifest {
		m := c3Manifest{layers: []c3Layer{w.blob(A), w.blob(B)}, config: c3Layer{"e", 0, 0}}
		if withConfig {
			m.config = w.blob(C)
		}
		return m
	}
	// 1. every relation between the installed and the re-published manifest x {installed beforehand, installed by
	//    the first attempt} x {no fault, a fault on the way + honest retry} x {alone, another name shares a layer}
	er := root.Fork()
	for _, kind := range c3RepKinds {
		for _, pullFirst := range []bool{false, true} {
			for fi, fault := range c3RepFaults {
				if pullFirst && fi > 0 && fi != 3 && fi != 5 { // the histories that start empty: fewer faults
					continue
				}
				for _, other := range []bool{false, true} {
					if other && fi > 1 {
						continue
					}
					r := er.Fork()
					w := &c3RepWorld{c: c3NewCase("")}
					v1 := base(w, kind != "cfg-added")
					var v2 c3Manifest
					if kind == "old-size-wrong" {
						v2 = c3CopyManifest(v1)
						v1 = c3CopyManifest(v1)
						v1.layers[0].size += 3
					} else {
						v2 = c3Republished(w, r, kind, v1)
					}
					emit(c3RepCase(r, "rep-"+kind, w, []c3Manifest{v1, v2}, []string{fault}, pullFirst, other))
				}
			}
		}
	}
	// 2. random chains: 1-3 layers (+config), 1-3 re-publications in a row, random faults, prune on/off
	rr := root.Fork()
	for i := 0; i < nRandom; i++ {
		r := rr.Fork()
		w := &c3RepWorld{c: c3NewCase("")}
		v := c3Manifest{config: c3Layer{"e", 0, 0}}
		for k := r.Range(0, 3); k > 0; k-- {
			l := w.newBlob(r, "layer")
			if r.Chance(1, 4) {
				l.mt = r.Range(1, len(c3MediaTypes)-1)
			}
			v.layers = append(v.layers, l)
		}
		if r.Chance(3, 4) {
			v.config = w.newBlob(r, "config")
		}
		versions := []c3Manifest{v}
		var faults []string
		for k := r.Range(1, 3); k > 0; k-- {
			v = c3Republished(w, r, zzverif.Pick(r, c3RepKinds[:len(c3RepKinds)]), v)
			versions = append(versions, v)
			f := "none"
			if r.Chance(1, 3) {
				f = zzverif.Pick(r, c3RepFaults)
			}
			faults = append(faults, f)
		}
		w.c.noprune = r.Chance(1, 8)
		emit(c3RepCase(r, "rep-random", w, versions, faults, r.Chance(1, 3), r.Chance(1, 3)))
	}
}
