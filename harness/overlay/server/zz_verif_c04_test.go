package server

// Verification driver for C04 (every listed model is complete; operations on one model never damage
// another).  Added to the package at build time with `go test -overlay`; never committed to /repo.
//
// The REAL gin engine (GenerateRoutes) is driven in-process over a scratch OLLAMA_MODELS directory with
// histories of upload / create / copy / delete / startup-prune operations (+ two non-API fault operations,
// see the Lean model).  After every operation the store is observed through GET /api/tags, POST /api/show
// and a directory walk that re-hashes every blob.
//
//   L1: operation result + listing + manifests + blob set  ==  Lean model (oracle-c04; membership in the
//       model's outcome set where Go map order makes the operation nondeterministic)
//   L2: the property itself, evaluated on the files the real code left behind (no model involved).

import (
	"bytes"
	"crypto/sha256"
	"encoding/hex"
	"encoding/json"
	"fmt"
	"io"
	"net/http"
	"net/http/httptest"
	"os"
	"path/filepath"
	"sort"
	"strconv"
	"strings"
	"testing"
	"testing/synctest"

	"github.com/gin-gonic/gin"

	"github.com/ollama/ollama/envconfig"
	"github.com/ollama/ollama/format"
	"github.com/ollama/ollama/fs/ggml"
	"github.com/ollama/ollama/template"
	"github.com/ollama/ollama/types/model"
	"github.com/ollama/ollama/zzverif"
)

// ---------------------------------------------------------------- names, digests, operations

type c04Name struct{ Host, Ns, Model, Tag string }

func (n c04Name) full() string { return n.Host + "/" + n.Ns + "/" + n.Model + ":" + n.Tag }
func (n c04Name) toks() string { return n.Host + " " + n.Ns + " " + n.Model + " " + n.Tag }
func (n c04Name) equalFold(o c04Name) bool {
	return strings.EqualFold(n.Host, o.Host) && strings.EqualFold(n.Ns, o.Ns) &&
		strings.EqualFold(n.Model, o.Model) && strings.EqualFold(n.Tag, o.Tag)
}

func c04FromModelName(n model.Name) c04Name { return c04Name{n.Host, n.Namespace, n.Model, n.Tag} }

type c04Digest struct {
	Dash bool
	Hex  string
}

func (d c04Digest) str() string {
	if d.Dash {
		return "sha256-" + d.Hex
	}
	return "sha256:" + d.Hex
}

func (d c04Digest) toks() string {
	if d.Dash {
		return "d " + d.Hex
	}
	return "c " + d.Hex
}

type c04Op struct {
	Kind    string // upload create copy delete prune plant corrupt dashify litter litterman pull noprune
	On      bool   // noprune: the value OLLAMA_NOPRUNE takes from here on (envconfig reads it at every call)
	File    string // litter: file name inside blobs/
	Path     []string // litterman: path components below manifests/ (last one ends in "@" for a dangling symlink)
	Reg      *c04Reg // pull: what the registry serves for the name (nil: it has no such model)
	NoStream bool  // create: "stream": false (the waitForStream path; only generated when N1 is repaired)
	D       c04Digest
	Content []byte
	Name    c04Name
	From    *c04Name
	Files   []c04Digest
	Tmpl    []byte // nil = not given
	TmplOK  bool
	Sys     []byte
	Lics    [][]byte
	Params  [][2]string // key, raw JSON value
	FromReg *c04Reg     // create … from: what the registry serves for the FROM name (parseFromModel pulls a model that is not in the store)
	Msgs    [][2]string // create: messages as role, content (texts that need no JSON escaping)
	Src     c04Name
	Dst     c04Name
}

// c04Reg is the in-memory registry's answer for one pull: the honest contents (digests and sizes of the
// manifest are theirs) and the bytes it actually serves per layer (nil = honest).
type c04RegLayer struct {
	Media   string // media code
	Content []byte
	Served  []byte
}

type c04Reg struct {
	Layers []c04RegLayer
	Config c04RegLayer
}

func (l c04RegLayer) toks() string {
	sv := "="
	if l.Served != nil {
		sv = zzverif.Hex(l.Served)
	}
	return l.Media + " " + zzverif.Hex(l.Content) + " " + sv
}

func (l c04RegLayer) served() []byte {
	if l.Served != nil {
		return l.Served
	}
	return l.Content
}

func c04OptHex(b []byte) string {
	if b == nil {
		return "~"
	}
	return zzverif.Hex(b)
}

// line renders the operation in the oracle's syntax (also the replay format).
func (o c04Op) line() string {
	switch o.Kind {
	case "upload":
		return "upload " + o.D.toks() + " " + zzverif.Hex(o.Content)
	case "create":
		var sb strings.Builder
		sb.WriteString("create " + o.Name.toks())
		if o.From != nil {
			sb.WriteString(" from " + o.From.toks())
		} else {
			sb.WriteString(" files " + strconv.Itoa(len(o.Files)))
			for _, d := range o.Files {
				sb.WriteString(" " + d.toks())
			}
		}
		ok := "0"
		if o.TmplOK {
			ok = "1"
		}
		sb.WriteString(" " + c04OptHex(o.Tmpl) + " " + ok + " " + c04OptHex(o.Sys) + " " + strconv.Itoa(len(o.Lics)))
		for _, l := range o.Lics {
			sb.WriteString(" " + zzverif.Hex(l))
		}
		sb.WriteString(" " + strconv.Itoa(len(o.Params)))
		for _, kv := range o.Params {
			sb.WriteString(" " + zzverif.Hex([]byte(kv[0])) + " " + zzverif.Hex([]byte(kv[1])))
		}
		if o.NoStream {
			sb.WriteString(" nostream")
		} else {
			sb.WriteString(" stream")
		}
		if len(o.Msgs) > 0 {
			// (an optional suffix: histories recorded before messages were modelled stay replayable)
			sb.WriteString(" msgs " + strconv.Itoa(len(o.Msgs)))
			for _, m := range o.Msgs {
				sb.WriteString(" " + zzverif.Hex([]byte(m[0])) + " " + zzverif.Hex([]byte(m[1])))
			}
		}
		if o.FromReg != nil {
			sb.WriteString(" fromreg " + strconv.Itoa(len(o.FromReg.Layers)))
			for _, l := range o.FromReg.Layers {
				sb.WriteString(" " + l.toks())
			}
			sb.WriteString(" " + o.FromReg.Config.toks())
		}
		return sb.String()
	case "copy", "plant":
		return o.Kind + " " + o.Src.toks() + " " + o.Dst.toks()
	case "delete", "corrupt", "dashify":
		return o.Kind + " " + o.Name.toks()
	case "prune":
		return "prune"
	case "noprune":
		if o.On {
			return "noprune 1"
		}
		return "noprune 0"
	case "litter":
		return "litter " + zzverif.Hex([]byte(o.File)) + " " + zzverif.Hex(o.Content)
	case "litterman":
		out := "litterman " + strconv.Itoa(len(o.Path))
		for _, c := range o.Path {
			out += " " + zzverif.Hex([]byte(c))
		}
		return out
	case "pull":
		if o.Reg == nil {
			return "pull " + o.Name.toks() + " missing"
		}
		var sb strings.Builder
		sb.WriteString("pull " + o.Name.toks() + " " + strconv.Itoa(len(o.Reg.Layers)))
		for _, l := range o.Reg.Layers {
			sb.WriteString(" " + l.toks())
		}
		sb.WriteString(" " + o.Reg.Config.toks())
		return sb.String()
	}
	panic("bad op kind " + o.Kind)
}

type c04Toks struct {
	t []string
	i int
}

func (p *c04Toks) next() string {
	if p.i >= len(p.t) {
		panic("replay line: unexpected end")
	}
	s := p.t[p.i]
	p.i++
	return s
}
func (p *c04Toks) name() c04Name { return c04Name{p.next(), p.next(), p.next(), p.next()} }
func (p *c04Toks) digest() c04Digest {
	f := p.next()
	return c04Digest{Dash: f == "d", Hex: p.next()}
}
func (p *c04Toks) optBytes() []byte {
	s := p.next()
	if s == "~" {
		return nil
	}
	b := zzverif.Unhex(s)
	if b == nil {
		b = []byte{}
	}
	return b
}
func (p *c04Toks) int() int {
	n, err := strconv.Atoi(p.next())
	if err != nil {
		panic(err)
	}
	return n
}

// reg reads n registry layers and the config (the syntax of `pull` and of the `fromreg` suffix of `create`).
func (p *c04Toks) reg(n int) *c04Reg {
	rl := func() c04RegLayer {
		l := c04RegLayer{Media: p.next(), Content: zzverif.Unhex(p.next())}
		if sv := p.next(); sv != "=" {
			l.Served = zzverif.Unhex(sv)
			if l.Served == nil {
				l.Served = []byte{}
			}
		}
		return l
	}
	r := &c04Reg{}
	for i := 0; i < n; i++ {
		r.Layers = append(r.Layers, rl())
	}
	r.Config = rl()
	return r
}

func c04ParseOp(s string) c04Op {
	p := &c04Toks{t: strings.Fields(s)}
	o := c04Op{Kind: p.next()}
	switch o.Kind {
	case "upload":
		o.D = p.digest()
		o.Content = zzverif.Unhex(p.next())
	case "create":
		o.Name = p.name()
		switch p.next() {
		case "from":
			f := p.name()
			o.From = &f
		default:
			k := p.int()
			for i := 0; i < k; i++ {
				o.Files = append(o.Files, p.digest())
			}
		}
		o.Tmpl = p.optBytes()
		o.TmplOK = p.next() == "1"
		o.Sys = p.optBytes()
		for i, k := 0, p.int(); i < k; i++ {
			o.Lics = append(o.Lics, zzverif.Unhex(p.next()))
		}
		k := p.int()
		for i := 0; i < k; i++ {
			a := string(zzverif.Unhex(p.next()))
			b := string(zzverif.Unhex(p.next()))
			o.Params = append(o.Params, [2]string{a, b})
		}
		o.NoStream = p.next() == "nostream"
		if p.i < len(p.t) && p.t[p.i] == "msgs" {
			p.next()
			for i, k := 0, p.int(); i < k; i++ {
				a := string(zzverif.Unhex(p.next()))
				b := string(zzverif.Unhex(p.next()))
				o.Msgs = append(o.Msgs, [2]string{a, b})
			}
		}
		if p.i < len(p.t) && p.t[p.i] == "fromreg" {
			p.next()
			o.FromReg = p.reg(p.int())
		}
	case "copy", "plant":
		o.Src = p.name()
		o.Dst = p.name()
	case "delete", "corrupt", "dashify":
		o.Name = p.name()
	case "prune":
	case "noprune":
		o.On = p.next() == "1"
	case "litter":
		o.File = string(zzverif.Unhex(p.next()))
		o.Content = zzverif.Unhex(p.next())
	case "litterman":
		for i, k := 0, p.int(); i < k; i++ {
			o.Path = append(o.Path, string(zzverif.Unhex(p.next())))
		}
	case "pull":
		o.Name = p.name()
		k := p.next()
		if k != "missing" {
			n, err := strconv.Atoi(k)
			if err != nil {
				panic(err)
			}
			o.Reg = p.reg(n)
		}
	default:
		panic("replay line: bad op " + o.Kind)
	}
	return o
}

// ---------------------------------------------------------------- the real server, in process

type c04Recorder struct {
	*httptest.ResponseRecorder
}

func (c04Recorder) CloseNotify() <-chan bool { return make(chan bool) }

type c04Server struct {
	h   http.Handler
	dir string
	t   *testing.T
	rec []string // the operations executed on this server so far, in replay format
}

func (s *c04Server) do(method, path string, body []byte) (int, []byte) {
	req := httptest.NewRequest(method, path, bytes.NewReader(body))
	req.Header.Set("Content-Type", "application/json")
	w := c04Recorder{httptest.NewRecorder()}
	s.h.ServeHTTP(w, req)
	return w.Code, w.Body.Bytes()
}

func (s *c04Server) doJSON(method, path string, v any) (int, []byte) {
	b, err := json.Marshal(v)
	if err != nil {
		panic(err)
	}
	return s.do(method, path, b)
}

// streamResult canonicalises an NDJSON progress stream: every error event as e<status> (500 when the
// event carries no status), the final success event as s.
func c04StreamResult(code int, body []byte) string {
	if code != http.StatusOK {
		return "h" + strconv.Itoa(code)
	}
	var ev []string
	for _, line := range bytes.Split(body, []byte("\n")) {
		if len(bytes.TrimSpace(line)) == 0 {
			continue
		}
		var m map[string]any
		if err := json.Unmarshal(line, &m); err != nil {
			ev = append(ev, "badjson")
			continue
		}
		if _, ok := m["error"]; ok {
			st := 500
			if f, ok := m["status"].(float64); ok {
				st = int(f)
			}
			ev = append(ev, "e"+strconv.Itoa(st))
		} else if m["status"] == "success" {
			ev = append(ev, "s")
		}
	}
	return strings.Join(ev, "+")
}

func (s *c04Server) manifestPath(n c04Name) string {
	return filepath.Join(s.dir, "manifests", n.Host, n.Ns, n.Model, n.Tag)
}

// exec runs one operation on the real code and returns its canonical result.
func (s *c04Server) exec(o c04Op) string {
	s.rec = append(s.rec, o.line())
	switch o.Kind {
	case "upload":
		code, _ := s.do(http.MethodPost, "/api/blobs/"+o.D.str(), o.Content)
		return "h" + strconv.Itoa(code)
	case "create":
		req := map[string]any{"model": o.Name.full()}
		if o.From != nil {
			req["from"] = o.From.full()
		} else {
			files := map[string]string{}
			for i, d := range o.Files {
				files[fmt.Sprintf("f%d.gguf", i)] = d.str()
			}
			req["files"] = files
		}
		if o.Tmpl != nil {
			req["template"] = string(o.Tmpl)
		}
		if o.Sys != nil {
			req["system"] = string(o.Sys)
		}
		if len(o.Lics) == 1 {
			req["license"] = string(o.Lics[0])
		} else if len(o.Lics) > 1 {
			var ls []string
			for _, l := range o.Lics {
				ls = append(ls, string(l))
			}
			req["license"] = ls
		}
		if len(o.Params) > 0 {
			p := map[string]any{}
			for _, kv := range o.Params {
				p[kv[0]] = json.RawMessage(kv[1])
			}
			req["parameters"] = p
		}
		if len(o.Msgs) > 0 {
			var ms []map[string]string
			for _, m := range o.Msgs {
				ms = append(ms, map[string]string{"role": m[0], "content": m[1]})
			}
			req["messages"] = ms
		}
		request := func() string {
			if o.NoStream {
				// waitForStream: one JSON answer, the status code carries the first error or the success
				req["stream"] = false
				code, _ := s.doJSON(http.MethodPost, "/api/create", req)
				if code == http.StatusOK {
					return "s"
				}
				return "e" + strconv.Itoa(code)
			}
			code, body := s.doJSON(http.MethodPost, "/api/create", req)
			return c04StreamResult(code, body)
		}
		if o.FromReg != nil {
			// the FROM model may have to be pulled: scripted registry, fake time (in streaming mode the inner pull's
			// own "success" status is one more `s` in the result)
			return s.withNet(o.FromReg, request)
		}
		return request()
	case "copy":
		code, _ := s.doJSON(http.MethodPost, "/api/copy", map[string]string{"source": o.Src.full(), "destination": o.Dst.full()})
		return "h" + strconv.Itoa(code)
	case "delete":
		code, _ := s.doJSON(http.MethodDelete, "/api/delete", map[string]string{"model": o.Name.full()})
		return "h" + strconv.Itoa(code)
	case "prune":
		// the startup sequence of Serve (routes.go), call for call
		blobsDir, err := GetBlobsPath("")
		if err != nil {
			return "err"
		}
		if err := fixBlobs(blobsDir); err != nil {
			return "err"
		}
		if !envconfig.NoPrune() {
			if _, err := Manifests(false); err != nil {
				return "skip"
			}
			if err := PruneLayers(); err != nil {
				return "err"
			}
			manifestsPath, err := GetManifestPath()
			if err != nil {
				return "err"
			}
			if err := PruneDirectory(manifestsPath); err != nil {
				return "err"
			}
		}
		return "ok"
	case "noprune":
		v := ""
		if o.On {
			v = "1"
		}
		s.t.Setenv("OLLAMA_NOPRUNE", v)
		return "ok"
	case "plant":
		b, err := os.ReadFile(s.manifestPath(o.Src))
		if err != nil {
			return "none"
		}
		p := s.manifestPath(o.Dst)
		if err := os.MkdirAll(filepath.Dir(p), 0o755); err != nil {
			panic(err)
		}
		if err := os.WriteFile(p, b, 0o644); err != nil {
			panic(err)
		}
		return "ok"
	case "pull":
		return s.pull(o)
	case "litterman":
		full := filepath.Join(append([]string{s.dir, "manifests"}, o.Path...)...)
		if err := os.MkdirAll(filepath.Dir(full), 0o755); err != nil {
			panic(err)
		}
		os.Remove(full)
		if strings.HasSuffix(full, "@") {
			if err := os.Symlink("nowhere-to-be-found", full); err != nil {
				panic(err)
			}
		} else if err := os.WriteFile(full, []byte("stray"), 0o644); err != nil {
			panic(err)
		}
		return "ok"
	case "litter":
		dir := filepath.Join(s.dir, "blobs")
		if err := os.MkdirAll(dir, 0o755); err != nil {
			panic(err)
		}
		if err := os.WriteFile(filepath.Join(dir, o.File), o.Content, 0o644); err != nil {
			panic(err)
		}
		return "ok"
	case "dashify":
		// respell the model-layer digests of a readable manifest as sha256-<hex>
		p := s.manifestPath(o.Name)
		raw, err := os.ReadFile(p)
		if err != nil {
			return "none"
		}
		var m Manifest
		if err := json.NewDecoder(bytes.NewReader(raw)).Decode(&m); err != nil {
			return "none"
		}
		for i := range m.Layers {
			if m.Layers[i].MediaType == "application/vnd.ollama.image.model" {
				m.Layers[i].Digest = "sha256-" + c04Key(m.Layers[i].Digest)
			}
		}
		var b bytes.Buffer
		if err := json.NewEncoder(&b).Encode(m); err != nil {
			panic(err)
		}
		if err := os.WriteFile(p, b.Bytes(), 0o644); err != nil {
			panic(err)
		}
		return "ok"
	case "corrupt":
		p := s.manifestPath(o.Name)
		if _, err := os.Stat(p); err != nil {
			return "none"
		}
		if err := os.WriteFile(p, []byte("{\"schemaVersion\":2,\"layers\":[{\"media"), 0o644); err != nil {
			panic(err)
		}
		return "ok"
	}
	panic("bad op")
}

// ---------------------------------------------------------------- pull from an in-memory registry

// c04Net is the network of one pull: a registry that serves one manifest and, per digest, a HEAD with the
// length and a GET that redirects to a CDN host, which serves the (honest or corrupted) bytes with Range
// support.  Single-part blobs, no auth.  Everything else (the pull protocol itself) is C03's.
type c04Net struct {
	manifest []byte            // nil: 404
	blobs    map[string][]byte // hex -> served bytes
}

const c04CDNHost = "cdn.c04.test"

func c04HTTP(req *http.Request, code int, hdr map[string]string, body []byte) *http.Response {
	r := &http.Response{StatusCode: code, Status: strconv.Itoa(code) + " " + http.StatusText(code), Proto: "HTTP/1.1",
		ProtoMajor: 1, ProtoMinor: 1, Header: http.Header{}, Request: req, Body: io.NopCloser(bytes.NewReader(body)),
		ContentLength: int64(len(body))}
	for k, v := range hdr {
		r.Header.Set(k, v)
	}
	return r
}

func (n *c04Net) RoundTrip(req *http.Request) (*http.Response, error) {
	if err := req.Context().Err(); err != nil {
		return nil, err
	}
	host, path := req.URL.Hostname(), req.URL.Path
	switch {
	case host == c04CDNHost && strings.HasPrefix(path, "/blob/"):
		b, ok := n.blobs[strings.TrimPrefix(path, "/blob/")]
		if !ok {
			return c04HTTP(req, 404, nil, nil), nil
		}
		lo, hi := 0, len(b)-1
		if rg := req.Header.Get("Range"); strings.HasPrefix(rg, "bytes=") {
			fmt.Sscanf(rg, "bytes=%d-%d", &lo, &hi)
		}
		if lo < 0 || hi >= len(b) || lo > hi+1 {
			return c04HTTP(req, 416, nil, nil), nil
		}
		return c04HTTP(req, 206, nil, b[lo:hi+1]), nil
	case strings.Contains(path, "/manifests/"):
		if n.manifest == nil {
			return c04HTTP(req, 404, nil, []byte(`{"errors":[{"code":"MANIFEST_UNKNOWN"}]}`)), nil
		}
		return c04HTTP(req, 200, nil, n.manifest), nil
	case strings.Contains(path, "/blobs/sha256:"):
		dig := path[strings.Index(path, "/blobs/sha256:")+len("/blobs/sha256:"):]
		b, ok := n.blobs[dig]
		if !ok {
			return c04HTTP(req, 404, nil, nil), nil
		}
		if req.Method == http.MethodHead {
			r := c04HTTP(req, 200, map[string]string{"Content-Length": strconv.Itoa(len(b))}, nil)
			r.ContentLength = int64(len(b))
			return r, nil
		}
		return c04HTTP(req, 307, map[string]string{"Location": "https://" + c04CDNHost + "/blob/" + dig}, nil), nil
	}
	return c04HTTP(req, 404, nil, nil), nil
}

// pull runs POST /api/pull (streaming) in fake time against the scripted registry.
func (s *c04Server) pull(o c04Op) string {
	return s.withNet(o.Reg, func() string {
		code, body := s.doJSON(http.MethodPost, "/api/pull", map[string]string{"model": o.Name.full()})
		return c04StreamResult(code, body)
	})
}

// withNet runs one request in fake time with http.DefaultTransport replaced by the scripted registry `reg`
// (nil: the registry has no such model).
func (s *c04Server) withNet(reg *c04Reg, request func() string) string {
	net := &c04Net{blobs: map[string][]byte{}}
	if reg != nil {
		lay := func(l c04RegLayer) Layer {
			mt := ""
			for k, v := range c04MediaCode {
				if v == l.Media {
					mt = k
				}
			}
			if _, ok := net.blobs[c04Sum(l.Content)]; !ok {
				net.blobs[c04Sum(l.Content)] = l.served()
			}
			return Layer{MediaType: mt, Digest: "sha256:" + c04Sum(l.Content), Size: int64(len(l.Content))}
		}
		m := Manifest{SchemaVersion: 2, MediaType: "application/vnd.docker.distribution.manifest.v2+json"}
		for _, l := range reg.Layers {
			m.Layers = append(m.Layers, lay(l))
		}
		m.Config = lay(reg.Config)
		var err error
		if net.manifest, err = json.Marshal(m); err != nil {
			panic(err)
		}
	}
	old := http.DefaultTransport
	http.DefaultTransport = net
	defer func() { http.DefaultTransport = old }()
	var res string
	synctest.Test(s.t, func(t *testing.T) {
		res = request()
		synctest.Wait()
	})
	return res
}

func (s *c04Server) show(n c04Name) string {
	code, _ := s.doJSON(http.MethodPost, "/api/show", map[string]string{"model": n.full()})
	return "h" + strconv.Itoa(code)
}

// list returns the display names of GET /api/tags.
func (s *c04Server) list() ([]string, bool) {
	code, body := s.do(http.MethodGet, "/api/tags", nil)
	if code != 200 {
		return nil, false
	}
	var r struct {
		Models []struct {
			Name string `json:"name"`
		} `json:"models"`
	}
	if err := json.Unmarshal(body, &r); err != nil {
		return nil, false
	}
	var out []string
	for _, m := range r.Models {
		out = append(out, m.Name)
	}
	return out, true
}

// resolveListed maps the display names of the listing back to manifest files.  DisplayShortest elides the
// default host and namespace case-insensitively, so "baZ:Latest" may stand for manifests/…/liBRARY/baZ/Latest:
// a display name is matched with the (unused) readable manifest that displays as exactly that string, and
// only if there is none is it parsed.
func (sn *c04Snap) resolveListed(display []string) []c04Name {
	used := map[c04Name]bool{}
	var out []c04Name
	for _, d := range display {
		found := false
		for _, m := range sn.mans {
			if !m.readable || used[m.name] {
				continue
			}
			mn := model.Name{Host: m.name.Host, Namespace: m.name.Ns, Model: m.name.Model, Tag: m.name.Tag}
			if mn.DisplayShortest() == d {
				used[m.name] = true
				out = append(out, m.name)
				found = true
				break
			}
		}
		if !found {
			out = append(out, c04FromModelName(model.ParseName(d)))
		}
	}
	return out
}

// ---------------------------------------------------------------- observation of the directory

type c04Man struct {
	name     c04Name
	raw      []byte
	readable bool
	m        Manifest
}

type c04Blob struct {
	file string // file name in blobs/
	key  string // hex part of sha256-<hex>, "" if the name has another shape
	size int64
	sum  string // real SHA-256 of the bytes
}

type c04Snap struct {
	tree   []string // every directory ("a/b/") and every stray non-manifest entry ("?a/b/x") below manifests/
	mans   []c04Man
	blobs  []c04Blob
	listed []c04Name
	listOK bool
}

func (sn *c04Snap) blob(key string) *c04Blob {
	for i := range sn.blobs {
		if sn.blobs[i].key == key {
			return &sn.blobs[i]
		}
	}
	return nil
}

func (sn *c04Snap) man(n c04Name) *c04Man {
	for i := range sn.mans {
		if sn.mans[i].name == n {
			return &sn.mans[i]
		}
	}
	return nil
}

func c04IsHex64(s string) bool {
	if len(s) != 64 {
		return false
	}
	for i := 0; i < len(s); i++ {
		c := s[i]
		if !(c >= '0' && c <= '9' || c >= 'a' && c <= 'f' || c >= 'A' && c <= 'F') {
			return false
		}
	}
	return true
}

func c04Key(digest string) string {
	if len(digest) > 7 && (digest[:7] == "sha256:" || digest[:7] == "sha256-") {
		return digest[7:]
	}
	return "?" + digest
}

func (s *c04Server) snapshot() *c04Snap {
	sn := &c04Snap{}
	matches, _ := filepath.Glob(filepath.Join(s.dir, "manifests", "*", "*", "*", "*"))
	sort.Strings(matches)
	for _, p := range matches {
		fi, err := os.Stat(p)
		if err != nil || fi.IsDir() {
			continue
		}
		rel, _ := filepath.Rel(filepath.Join(s.dir, "manifests"), p)
		if !model.ParseNameFromFilepath(rel).IsValid() {
			continue // a stray file at manifest depth ("bad manifest name"): listed in the tree, not a manifest
		}
		parts := strings.Split(rel, string(filepath.Separator))
		raw, err := os.ReadFile(p)
		if err != nil {
			panic(err)
		}
		cm := c04Man{name: c04Name{parts[0], parts[1], parts[2], parts[3]}, raw: raw}
		if err := json.NewDecoder(bytes.NewReader(raw)).Decode(&cm.m); err == nil {
			cm.readable = true
		}
		sn.mans = append(sn.mans, cm)
	}
	ents, _ := os.ReadDir(filepath.Join(s.dir, "blobs"))
	for _, e := range ents {
		b, err := os.ReadFile(filepath.Join(s.dir, "blobs", e.Name()))
		if err != nil {
			continue
		}
		sum := sha256.Sum256(b)
		cb := c04Blob{file: e.Name(), size: int64(len(b)), sum: hex.EncodeToString(sum[:])}
		if strings.HasPrefix(e.Name(), "sha256-") && c04IsHex64(e.Name()[7:]) {
			cb.key = e.Name()[7:]
		}
		sn.blobs = append(sn.blobs, cb)
	}
	root := filepath.Join(s.dir, "manifests")
	filepath.Walk(root, func(path string, info os.FileInfo, err error) error {
		if err != nil || path == root {
			return nil
		}
		rel, _ := filepath.Rel(root, path)
		rel = filepath.ToSlash(rel)
		switch {
		case info.IsDir():
			sn.tree = append(sn.tree, rel+"/")
		case strings.Count(rel, "/") == 3 && info.Mode().IsRegular() && model.ParseNameFromFilepath(filepath.FromSlash(rel)).IsValid():
			// a manifest
		default:
			sn.tree = append(sn.tree, "?"+rel)
		}
		return nil
	})
	sort.Strings(sn.tree)
	display, ok := s.list()
	sn.listed, sn.listOK = sn.resolveListed(display), ok
	return sn
}

var c04MediaCode = map[string]string{
	"application/vnd.ollama.image.model":             "M",
	"application/vnd.ollama.image.projector":         "J",
	"application/vnd.ollama.image.adapter":           "A",
	"application/vnd.ollama.image.template":          "T",
	"application/vnd.ollama.image.system":            "S",
	"application/vnd.ollama.image.params":            "P",
	"application/vnd.ollama.image.license":           "L",
	"application/vnd.ollama.image.messages":          "G",
	"application/vnd.docker.container.image.v1+json": "C",
}

func c04ShowLayer(l Layer) string {
	code, ok := c04MediaCode[l.MediaType]
	if !ok {
		code = "?" + l.MediaType
	}
	return fmt.Sprintf("%s@%s@%d", code, l.Digest, l.Size)
}

// obs renders result + store exactly like the Lean oracle's `obs`.
func (sn *c04Snap) obs(result string) string {
	var ls, ms, bs []string
	for _, n := range sn.listed {
		ls = append(ls, n.full())
	}
	for _, m := range sn.mans {
		if !m.readable {
			ms = append(ms, m.name.full()+"=corrupt")
			continue
		}
		parts := []string{c04ShowLayer(m.m.Config)}
		for _, l := range m.m.Layers {
			parts = append(parts, c04ShowLayer(l))
		}
		ms = append(ms, m.name.full()+"="+strings.Join(parts, "|"))
	}
	for _, b := range sn.blobs {
		if b.key != "" {
			bs = append(bs, fmt.Sprintf("%s:%d", b.key, b.size))
		} else {
			bs = append(bs, fmt.Sprintf("?%s:%d", b.file, b.size))
		}
	}
	sort.Strings(ls)
	sort.Strings(ms)
	sort.Strings(bs)
	lst := strings.Join(ls, ",")
	if !sn.listOK {
		lst = "!list-failed"
	}
	return "r=" + result + ";l=" + lst + ";m=" + strings.Join(ms, ",") + ";b=" + strings.Join(bs, ",") + ";t=" + strings.Join(sn.tree, ",")
}

// ---------------------------------------------------------------- content pools

type c04Pool struct {
	kinds [][]byte // GGUFs that ggufLayers makes an ADAPTER / PROJECTOR layer of (general.type); rarely picked
	ggufs [][]byte
	texts [][]byte // non-GGUF blobs
	tmpls [][]byte
	badT  []byte
	syss  [][]byte
	parms [][2]string
	lics  [][]byte
	meta  []string // oracle `meta` lines
	autoT map[string]bool // hex ids of auto-detected template contents
	autoP map[string]bool // hex ids of auto-detected parameter contents
	chatG []byte          // a GGUF with a recognised chat template that has parameters …
	chatP []byte          // … and the JSON of those parameters
	chatT []byte          // … and the bytes of the named template
}

func c04Sum(b []byte) string {
	s := sha256.Sum256(b)
	return hex.EncodeToString(s[:])
}

func c04HexS(s string) string { return zzverif.Hex([]byte(s)) }

func c04MakePool(t *testing.T, out *zzverif.Out) *c04Pool {
	p := &c04Pool{autoT: map[string]bool{}, autoP: map[string]bool{}}
	// plain override texts first (the directed scenarios use index 0); texts taken from the auto-detected
	// layers are appended below, so that overrides are often byte-identical to layers other models have
	p.lics = [][]byte{[]byte("MIT"), []byte("Apache-2.0 text"), []byte("You are terse.")} // the last one equals a system text
	p.tmpls = [][]byte{[]byte("{{ .Prompt }}"), []byte("{{ .System }} {{ .Prompt }}"), []byte("<|u|>{{ .Prompt }}<|a|>")}
	p.syss = [][]byte{[]byte("You are terse."), []byte("Say hi!"), []byte("{{ .Prompt }}")} // the last one equals a template text
	p.parms = [][2]string{{"num_ctx", "2048"}, {"num_ctx", "4096"}, {"seed", "7"}, {"stop", "\"xy\""}, {"temperature", "0.5"}, {"top_k", "40"}}
	// chat templates that server/template recognises (template/index.json), taken through the package itself
	chat := func(name string) string {
		raw, err := os.ReadFile(filepath.Join("..", "template", "index.json"))
		if err != nil {
			t.Fatal(err)
		}
		var idx []struct{ Name, Template string }
		if err := json.Unmarshal(raw, &idx); err != nil {
			t.Fatal(err)
		}
		for _, e := range idx {
			if e.Name == name {
				return e.Template
			}
		}
		t.Fatal("no chat template " + name)
		return ""
	}
	type spec struct {
		kv ggml.KV
		ts []ggml.Tensor
	}
	tensor := func(name string, n int) ggml.Tensor {
		return ggml.Tensor{Name: name, Kind: 0, Shape: []uint64{uint64(n)}, WriterTo: bytes.NewReader(make([]byte, 4*n))}
	}
	specs := []spec{
		{ggml.KV{"general.architecture": "llama"}, nil},
		{ggml.KV{"general.architecture": "llama", "general.file_type": uint32(1)}, []ggml.Tensor{tensor("a", 2)}},
		{ggml.KV{"general.architecture": "gemma", "general.file_type": uint32(1)}, nil},
		{ggml.KV{"general.architecture": "gemma", "gemma.block_count": uint32(2)}, []ggml.Tensor{tensor("b", 3), tensor("c", 1)}},
		{ggml.KV{}, nil},
		{ggml.KV{"general.architecture": "qwen2", "general.file_type": uint32(7), "general.name": "q"}, []ggml.Tensor{tensor("t", 5)}},
		{ggml.KV{"general.architecture": "phi3", "phi3.context_length": uint32(8)}, nil},
		{ggml.KV{"general.architecture": "llama", "general.name": "other"}, []ggml.Tensor{tensor("x", 1)}},
		// GGUFs whose chat template is recognised: create adds auto-detected template (+ params) layers
		{ggml.KV{"general.architecture": "llama", "tokenizer.chat_template": chat("chatml")}, nil},
		{ggml.KV{"general.architecture": "qwen2", "tokenizer.chat_template": chat("chatml"), "general.name": "c2"}, nil},
		{ggml.KV{"general.architecture": "phi3", "tokenizer.chat_template": chat("phi-3")}, []ggml.Tensor{tensor("p", 1)}},
		{ggml.KV{"general.architecture": "llama", "tokenizer.chat_template": chat("alpaca")}, nil},
		{ggml.KV{"general.architecture": "llama", "tokenizer.chat_template": "{% nothing the template package knows, long enough to be far from every known chat template: 0123456789 0123456789 0123456789 0123456789 0123456789 0123456789 0123456789 %}"}, nil},
	}
	// GGUFs whose general.type makes ggufLayers record an adapter / projector layer instead of a model layer
	nKinds := 2
	specs = append(specs, spec{ggml.KV{"general.architecture": "llama", "general.type": "adapter"}, nil},
		spec{ggml.KV{"general.architecture": "llama", "general.type": "projector"}, []ggml.Tensor{tensor("v", 1)}})
	dir := t.TempDir()
	for i, sp := range specs {
		fn := filepath.Join(dir, fmt.Sprintf("g%d", i))
		f, err := os.Create(fn)
		if err != nil {
			t.Fatal(err)
		}
		if err := ggml.WriteGGUF(f, sp.kv, sp.ts); err != nil {
			t.Fatal(err)
		}
		f.Close()
		b, err := os.ReadFile(fn)
		if err != nil {
			t.Fatal(err)
		}
		if i >= len(specs)-nKinds {
			p.kinds = append(p.kinds, b)
		} else {
			p.ggufs = append(p.ggufs, b)
		}
		// what the real decoder reports for this file (the values createModel copies into the config)
		g, _, err := ggml.Decode(bytes.NewReader(b), 0)
		if err != nil {
			t.Fatal(err)
		}
		// detectChatTemplate, call for call: template.Named on the GGUF's chat template, the bytes of the named
		// template and the JSON encoding of its parameters
		var autoT, autoP []byte
		if ct := g.KV().ChatTemplate(); ct != "" {
			if nt, err := template.Named(ct); err == nil {
				autoT, err = io.ReadAll(nt.Reader())
				if err != nil {
					t.Fatal(err)
				}
				if len(autoT) == 0 {
					autoT = []byte{}
				}
				p.autoT[c04Sum(autoT)] = true
				if nt.Parameters != nil {
					var pb bytes.Buffer
					if err := json.NewEncoder(&pb).Encode(nt.Parameters); err != nil {
						t.Fatal(err)
					}
					autoP = pb.Bytes()
					p.autoP[c04Sum(autoP)] = true
					if p.chatG == nil {
						p.chatG, p.chatP, p.chatT = b, autoP, autoT
					}
					stop, _ := json.Marshal(nt.Parameters.Stop)
					p.parms = append(p.parms, [2]string{"stop", string(stop)})
					p.syss = append(p.syss, autoP)
					p.lics = append(p.lics, autoP)
					p.tmpls = append(p.tmpls, autoP)
				}
				p.tmpls = append(p.tmpls, autoT)
				p.syss = append(p.syss, autoT)
				out.Count("pool_gguf_with_recognised_chat_template")
			}
		}
		// the media type, decided as ggufLayers decides it
		kind := "M"
		if g.KV().Kind() == "adapter" {
			kind = "A"
		} else if _, ok := g.KV()[fmt.Sprintf("%s.vision.block_count", g.KV().Architecture())]; ok || g.KV().Kind() == "projector" {
			kind = "J"
		}
		p.meta = append(p.meta, fmt.Sprintf("meta %s %s %s %s %s %s %s", zzverif.Hex(b), c04HexS(g.KV().Architecture()),
			c04HexS(format.HumanNumber(g.KV().ParameterCount())), c04HexS(g.KV().FileType().String()),
			c04OptHex(autoT), c04OptHex(autoP), kind))
	}
	p.texts = [][]byte{[]byte("not a gguf file\n"), []byte("{\"a\":1}")}
	p.badT = []byte("{{ .Prompt")
	return p
}

// ---------------------------------------------------------------- history runner

type c04Run struct {
	t       *testing.T
	out     *zzverif.Out
	srv     *c04Server
	pool    *c04Pool
	ops     []string        // oracle lines of this history so far (replay format)
	dashHex map[string]bool // hex ids that were supplied in dash form in this history
	litter  map[string]bool // file names the driver itself put into blobs/ in this history
	failed  bool            // an L2 monitor fired: the history ends
	noPrune bool            // OLLAMA_NOPRUNE is set at this point of the history
	snap    *c04Snap
}

func (r *c04Run) caseLine() string { return strings.Join(r.ops, " ;; ") }

func (r *c04Run) dashref(key string) string {
	if r.dashHex[key] {
		return "yes"
	}
	return "no"
}

func (r *c04Run) l2(kind, detail string) {
	r.out.L2(kind, r.caseLine(), detail)
	r.out.Count("l2_" + kind)
	r.failed = true
}

// c04NameClass names the class of a file name in blobs/ (for statistics and L2 details).
func c04NameClass(f string) string {
	switch {
	case strings.HasPrefix(f, "sha256-") && c04IsHex64(f[7:]) && strings.ToLower(f) == f:
		return "blob"
	case strings.HasPrefix(f, "sha256-") && c04IsHex64(f[7:]):
		return "blob-uppercase"
	case strings.HasPrefix(f, "sha256:") && c04IsHex64(f[7:]):
		return "colon-legacy"
	case strings.HasPrefix(f, "sha256:"):
		return "colon-other"
	case strings.HasPrefix(f, "sha256-") && len(f) > 71 && c04IsHex64(f[7:71]) && strings.HasPrefix(f[71:], "-partial"):
		return "partial"
	case strings.HasPrefix(f, "sha256-") && len(f) > 71 && c04IsHex64(f[7:71]):
		return "blob-name-with-suffix"
	case strings.HasPrefix(f, "sha256-"):
		return "sha256-other"
	default:
		return "other"
	}
}

// mixedSpelling: do two readable manifests have a fold-equal part spelled differently?  (the guard of
// the `_partial` theorem about case twins)
func c04Mixed(sn *c04Snap) bool {
	var ns []c04Name
	for _, m := range sn.mans {
		if m.readable {
			ns = append(ns, m.name)
		}
	}
	diff := func(a, b string) bool { return strings.EqualFold(a, b) && a != b }
	for i := range ns {
		for j := i + 1; j < len(ns); j++ {
			if diff(ns[i].Host, ns[j].Host) || diff(ns[i].Ns, ns[j].Ns) || diff(ns[i].Model, ns[j].Model) || diff(ns[i].Tag, ns[j].Tag) {
				return true
			}
		}
	}
	return false
}

// apply runs one operation on the real code, records the L1 case and evaluates the L2 monitors.
func (r *c04Run) apply(o c04Op) {
	pre := r.snap
	if o.Kind == "create" {
		for _, d := range o.Files {
			if d.Dash {
				r.dashHex[d.Hex] = true
			}
		}
	}
	if o.Kind == "dashify" && pre != nil {
		if m := pre.man(o.Name); m != nil && m.readable {
			for _, l := range m.m.Layers {
				if l.MediaType == "application/vnd.ollama.image.model" {
					r.dashHex[c04Key(l.Digest)] = true
				}
			}
		}
	}
	if o.Kind == "litter" {
		r.litter[o.File] = true
		if strings.HasPrefix(o.File, "sha256:") {
			r.litter["sha256-"+o.File[7:]] = true // what fixBlobs will rename it to
		}
		r.out.Count("litter_class_" + c04NameClass(o.File))
	}
	if o.Kind == "noprune" {
		r.noPrune = o.On
	}
	if r.noPrune {
		r.out.Count("noprune_op_" + o.Kind)
	}
	r.ops = append(r.ops, o.line())
	result := r.srv.exec(o)
	post := r.srv.snapshot()
	r.snap = post
	obs := post.obs(result)
	r.out.Case(o.line()+" ## "+obs, obs)
	r.out.Count("op_" + o.Kind)
	if o.Kind == "create" && o.NoStream {
		r.out.Count("create_nostream")
	}
	r.out.Count("res_" + o.Kind + "_" + result)
	r.out.Count("cases")

	// ---- L1 for show (one line per listed model), L2: every listed model is complete
	for _, n := range post.listed {
		st := r.srv.show(n)
		r.out.Case("show "+n.toks()+" ## "+st, st)
		r.out.Count("show_" + st)
		m := post.man(n)
		if m == nil || !m.readable {
			r.l2("listed-incomplete", fmt.Sprintf("model=%s problem=listed-without-readable-manifest", n.full()))
			continue
		}
		bad := false
		hasModel := false
		for _, l := range append(append([]Layer{}, m.m.Layers...), m.m.Config) {
			if l.MediaType == "application/vnd.ollama.image.model" {
				hasModel = true
			}
			key := c04Key(l.Digest)
			b := post.blob(key)
			switch {
			case b == nil:
				auto := "no"
				if r.pool.autoP[key] {
					auto = "params"
				} else if r.pool.autoT[key] {
					auto = "template"
				}
				r.l2("listed-incomplete", fmt.Sprintf("model=%s layer=%s problem=blob-missing dashref=%s op=%s result=%s media=%s autocontent=%s", n.full(), l.Digest, r.dashref(key), o.Kind, result, c04MediaCode[l.MediaType], auto))
				bad = true
			case b.size != l.Size:
				r.l2("listed-incomplete", fmt.Sprintf("model=%s layer=%s problem=size manifest=%d file=%d", n.full(), l.Digest, l.Size, b.size))
				bad = true
			case !strings.EqualFold(b.sum, key):
				r.l2("listed-incomplete", fmt.Sprintf("model=%s layer=%s problem=hash real=%s", n.full(), l.Digest, b.sum))
				bad = true
			}
		}
		if !bad && st != "h200" {
			prob := "show-" + st
			if !hasModel {
				prob = "no-model-layer show-" + st
				for _, l := range m.m.Layers {
					if c := c04MediaCode[l.MediaType]; c == "A" || c == "J" {
						// every GGUF of the create was an adapter / projector (finding N6)
						prob = "no-model-layer(adapter/projector only) show-" + st
					}
				}
			}
			guard := "held"
			if c04Mixed(post) {
				guard = "violated"
			}
			r.l2("listed-unshowable", fmt.Sprintf("model=%s problem=%s op=%s result=%s; spelling guard %s", n.full(), prob, o.Kind, result, guard))
		}
	}

	// ---- L2: every blob file holds the content its name promises
	for _, b := range post.blobs {
		if b.key == "" {
			if !r.litter[b.file] {
				r.l2("stray-blob-file", "file="+b.file) // a file the CODE left behind (the driver's own litter is excused)
			}
		} else if strings.ToLower(b.key) != b.sum {
			r.l2("blob-hash", fmt.Sprintf("file=%s real=%s", b.file, b.sum))
		}
	}

	// ---- L2: frame — manifests of other names and the blobs they use are untouched
	var targets []c04Name
	switch o.Kind {
	case "create", "delete", "corrupt", "dashify", "pull":
		targets = []c04Name{o.Name}
		if o.Kind == "create" && o.FromReg != nil && o.From != nil {
			targets = append(targets, *o.From) // the pull inside create … from writes the FROM model
		}
	case "copy", "plant":
		targets = []c04Name{o.Dst}
	}
	if pre != nil {
		for _, pm := range pre.mans {
			other := true
			for _, tg := range targets {
				if pm.name.equalFold(tg) {
					other = false
				}
			}
			if !other {
				continue
			}
			qm := post.man(pm.name)
			if qm == nil || !bytes.Equal(qm.raw, pm.raw) {
				r.l2("frame-manifest", fmt.Sprintf("op=%s changed manifest of %s", o.Kind, pm.name.full()))
				continue
			}
			if !pm.readable {
				continue
			}
			for _, l := range append(append([]Layer{}, pm.m.Layers...), pm.m.Config) {
				key := c04Key(l.Digest)
				pb := pre.blob(key)
				if pb == nil {
					continue
				}
				qb := post.blob(key)
				if qb == nil {
					kind := "frame-blob"
					if o.Kind == "prune" {
						kind = "prune-exact"
					}
					r.l2(kind, fmt.Sprintf("op=%s removed blob=%s used-by=%s as=%s dashref=%s", o.Kind, key, pm.name.full(), l.Digest, r.dashref(key)))
				} else if qb.sum != pb.sum {
					r.l2("frame-blob", fmt.Sprintf("op=%s altered blob=%s used-by=%s", o.Kind, key, pm.name.full()))
				}
			}
		}
	}

	// ---- L2: startup prune leaves exactly the referenced blobs
	// ---- L2 (OLLAMA_NOPRUNE): the start-up sequence and a pull delete no file of blobs/ at all (the start-up
	// sequence may rename `sha256:<x>` to `sha256-<x>`), and the start-up sequence leaves manifests/ alone
	if r.noPrune && pre != nil && (o.Kind == "prune" || o.Kind == "pull") {
		have := map[string]bool{}
		for _, b := range post.blobs {
			have[b.file] = true
		}
		for _, b := range pre.blobs {
			f := b.file
			if o.Kind == "prune" && strings.HasPrefix(f, "sha256:") {
				f = "sha256-" + f[7:]
			}
			if !have[f] {
				r.l2("noprune-removed", fmt.Sprintf("op=%s result=%s file=%s class=%s", o.Kind, result, b.file, c04NameClass(b.file)))
			}
		}
		if o.Kind == "prune" && strings.Join(pre.tree, ",") != strings.Join(post.tree, ",") {
			r.l2("noprune-removed", fmt.Sprintf("op=prune result=%s tree-changed", result))
		}
		r.out.Count("noprune_checked_" + o.Kind)
	}
	if o.Kind == "prune" && result == "ok" && !r.noPrune {
		ref := map[string]bool{}
		for _, m := range post.mans {
			if m.readable {
				for _, l := range append(append([]Layer{}, m.m.Layers...), m.m.Config) {
					ref[c04Key(l.Digest)] = true
				}
			}
		}
		for _, b := range post.blobs {
			if b.key == "" || !ref[b.key] {
				r.l2("prune-exact", fmt.Sprintf("kept-unreferenced file=%s class=%s", b.file, c04NameClass(b.file)))
			}
		}
		if pre != nil {
			for _, b := range pre.blobs {
				if b.key == "" {
					r.out.Count("prune_saw_nonblob_" + c04NameClass(b.file))
				}
			}
		}
		// PruneDirectory: no empty directory is left under manifests/
		filepath.Walk(filepath.Join(r.srv.dir, "manifests"), func(path string, info os.FileInfo, err error) error {
			if err == nil && info.IsDir() && path != filepath.Join(r.srv.dir, "manifests") {
				if ents, e := os.ReadDir(path); e == nil && len(ents) == 0 {
					r.l2("prune-exact", "empty-directory "+strings.TrimPrefix(path, r.srv.dir))
				}
			}
			return nil
		})
		r.out.Count("prune_checked")
	}

	// ---- L2: a completed delete runs PruneDirectory too: no empty directory is left under manifests/
	if o.Kind == "delete" && result == "h200" {
		filepath.Walk(filepath.Join(r.srv.dir, "manifests"), func(path string, info os.FileInfo, err error) error {
			if err == nil && info.IsDir() && path != filepath.Join(r.srv.dir, "manifests") {
				if ents, e := os.ReadDir(path); e == nil && len(ents) == 0 {
					r.l2("prune-exact", "empty-directory after delete "+strings.TrimPrefix(path, r.srv.dir))
				}
			}
			return nil
		})
	}

	// ---- L2: no two listed models differ only by letter case (pairs that an API operation made; a pair
	// that the non-API `plant` put there itself is the injected legacy condition, not a failure)
	if o.Kind != "plant" && o.Kind != "corrupt" && o.Kind != "dashify" {
		was := map[c04Name]bool{}
		if pre != nil {
			for _, n := range pre.listed {
				was[n] = true
			}
		}
		for i := range post.listed {
			for j := i + 1; j < len(post.listed); j++ {
				a, b := post.listed[i], post.listed[j]
				if a != b && a.equalFold(b) && !(was[a] && was[b]) {
					guard := "held"
					if pre != nil && c04Mixed(pre) {
						guard = "violated"
					}
					// do the two differ only in a default host / namespace that one of them spells canonically?
					// (what DisplayShortest() elides and parsing puts back: finding N3)
					elided := "no"
					if a.Model == b.Model && a.Tag == b.Tag && (a.Host != b.Host || a.Ns != b.Ns) &&
						(a.Host == "registry.ollama.ai" && (a.Ns == "library" || a.Ns == b.Ns) ||
							b.Host == "registry.ollama.ai" && (b.Ns == "library" || a.Ns == b.Ns)) {
						elided = "yes"
					}
					// is this pair the FROM model of a create, pulled under the name as written next to a stored model that
					// differs from it by case only (finding N4)?  Judged on the PAIR, not on the request: one of the two is
					// exactly the FROM name and was not listed before, the other was, and neither is the create's target.
					twinOfFrom := "no"
					if o.Kind == "create" && o.FromReg != nil && o.From != nil && !a.equalFold(o.Name) {
						if a == *o.From && !was[a] && was[b] || b == *o.From && !was[b] && was[a] {
							twinOfFrom = "yes"
						}
					}
					r.l2("case-twins", fmt.Sprintf("listed %s and %s; op=%s; pre-state spelling guard %s; elided-default=%s; twin-of-from=%s", a.full(), b.full(), o.Kind, guard, elided, twinOfFrom))
				}
			}
		}
	}

	// ---- coverage counters
	users := map[string]int{}
	for _, m := range post.mans {
		if m.readable {
			seen := map[string]bool{}
			for _, l := range append(append([]Layer{}, m.m.Layers...), m.m.Config) {
				k := c04Key(l.Digest)
				if !seen[k] {
					seen[k] = true
					users[k]++
				}
			}
		}
	}
	shared := 0
	for _, n := range users {
		if n >= 2 {
			shared++
		}
	}
	if shared > 0 {
		r.out.Count("steps_with_shared_blobs")
	}
	r.out.Add("shared_blob_steps_total", shared)
	if pre != nil && len(post.blobs) < len(pre.blobs) {
		r.out.Count("steps_removing_blobs")
	}
	if pre != nil && (o.Kind == "create" || o.Kind == "copy") && len(targets) == 1 {
		for _, pm := range pre.mans {
			if pm.name.equalFold(targets[0]) && strings.HasSuffix(result, "s") || pm.name.equalFold(targets[0]) && result == "h200" {
				r.out.Count("overwrites_existing_" + o.Kind)
				break
			}
		}
	}
	if c04Mixed(post) {
		r.out.Count("steps_mixed_spelling")
	}
	r.branchCounters(o, result, pre, post)
}

// branchCounters names, from what the REAL code did, the branch of the model that the operation exercised
// (the check fails closed when a branch the theorems talk about is never reached: `correspondence-coverage`).
func (r *c04Run) branchCounters(o c04Op, result string, pre, post *c04Snap) {
	if pre == nil {
		return
	}
	allOf := func(m *c04Man) []Layer { return append(append([]Layer{}, m.m.Layers...), m.m.Config) }
	// the readable manifest this operation replaced or removed, if any (the only name whose manifest changed)
	var old *c04Man
	for i := range pre.mans {
		pm := &pre.mans[i]
		if qm := post.man(pm.name); pm.readable && (qm == nil || !bytes.Equal(qm.raw, pm.raw)) {
			old = pm
		}
	}
	gc := func(tag string) {
		if old == nil {
			r.out.Count("br_" + tag + "_fresh")
			return
		}
		r.out.Count("br_" + tag + "_replaced")
		var now *c04Man
		if qm := post.man(old.name); qm != nil && qm.readable {
			now = qm
		}
		for _, l := range allOf(old) {
			key := c04Key(l.Digest)
			still := false
			if now != nil {
				for _, x := range allOf(now) {
					if c04Key(x.Digest) == key {
						still = true
					}
				}
			}
			if still || pre.blob(key) == nil {
				continue
			}
			switch {
			case post.blob(key) == nil:
				r.out.Count("br_" + tag + "_old_layer_removed")
			case r.noPrune && tag != "delete":
				r.out.Count("br_" + tag + "_old_layer_kept_noprune")
			default:
				r.out.Count("br_" + tag + "_old_layer_kept_in_use")
			}
		}
	}
	switch {
	case o.Kind == "create" && strings.HasSuffix(result, "s"):
		gc("create")
		if o.From == nil {
			for _, m := range post.mans {
				if !m.readable || pre.man(m.name) != nil && bytes.Equal(pre.man(m.name).raw, m.raw) {
					continue
				}
				for _, l := range m.m.Layers {
					k := c04Key(l.Digest)
					if c04MediaCode[l.MediaType] == "T" && r.pool.autoT[k] && (o.Tmpl == nil || c04Sum(o.Tmpl) != k) {
						r.out.Count("br_create_auto_template_layer")
					}
					if c04MediaCode[l.MediaType] == "P" && r.pool.autoP[k] {
						r.out.Count("br_create_auto_params_layer")
					}
				}
			}
		}
		if o.Tmpl != nil {
			r.out.Count("br_create_template_override")
		}
		if o.Sys != nil {
			r.out.Count("br_create_system_override")
		}
		if len(o.Params) > 0 {
			r.out.Count("br_create_params")
		}
		if len(o.Lics) > 0 {
			r.out.Count("br_create_license")
		}
		if len(o.Msgs) > 0 {
			r.out.Count("br_create_messages")
			if old != nil {
				for _, l := range old.m.Layers {
					if c04MediaCode[l.MediaType] == "G" {
						r.out.Count("br_create_messages_over_old_messages")
					}
				}
			}
		}
	case o.Kind == "create" && o.Tmpl != nil && !o.TmplOK && result == "e400":
		r.out.Count("br_create_bad_template")
	case o.Kind == "delete" && result == "h200":
		gc("delete")
	case o.Kind == "pull" && result == "s":
		gc("pull")
	case o.Kind == "copy" && result == "h200":
		if o.Src.equalFold(o.Dst) {
			r.out.Count("br_copy_same")
		} else if old != nil {
			r.out.Count("br_copy_over_existing")
		} else {
			r.out.Count("br_copy_fresh")
		}
	case o.Kind == "copy" && result == "h404":
		if len(post.tree) > len(pre.tree) {
			r.out.Count("br_copy_404_made_directories")
		}
	}
	if o.Kind == "pull" && o.Reg != nil {
		for _, l := range append(append([]c04RegLayer{}, o.Reg.Layers...), o.Reg.Config) {
			k := c04Sum(l.Content)
			switch {
			case pre.blob(k) != nil:
				r.out.Count("br_pull_layer_cache_hit")
			case post.blob(k) != nil:
				r.out.Count("br_pull_layer_fetched")
			}
		}
		if result != "s" && len(post.blobs) > len(pre.blobs) {
			r.out.Count("br_pull_failed_leaves_orphans")
		}
	}
	if (o.Kind == "delete" && result == "h200" || o.Kind == "prune" && result == "ok" && !r.noPrune) && len(post.tree) < len(pre.tree) {
		r.out.Count("br_" + o.Kind + "_removed_directories")
	}
	if o.Kind == "prune" {
		for _, b := range pre.blobs {
			if strings.HasPrefix(b.file, "sha256:") && c04IsHex64(b.file[7:]) {
				if pre.blob(b.file[7:]) != nil {
					r.out.Count("br_fixblobs_renamed_over_existing")
				} else {
					r.out.Count("br_fixblobs_renamed")
				}
			}
		}
		if result == "ok" && !r.noPrune && len(post.blobs) < len(pre.blobs) {
			r.out.Count("br_prune_removed_files")
		}
	}
}

// ---------------------------------------------------------------- generators

type c04Gen struct {
	count      func(string)
	noStreamOK bool // N1 is repaired in the tree under test: non-streaming creates are deterministic
	r      *zzverif.Rng
	pool   *c04Pool
	class  int // 0 canonical, 1 alias, 2 legacy, 3 fault, 4 from-error, 5 litter, 6 OLLAMA_NOPRUNE toggled
	noPrune bool // class 6: the current value of OLLAMA_NOPRUNE
	hosts  []string
	nss    []string
	models []string
	tags   []string
}

func c04NewGen(r *zzverif.Rng, pool *c04Pool, class int) *c04Gen {
	g := &c04Gen{r: r, pool: pool, class: class}
	g.hosts = []string{"registry.ollama.ai", "registry.ollama.ai", "registry.ollama.ai", "example.com"}
	g.nss = []string{"library", "library", "other"}
	allModels := [][]string{{"foo", "Foo", "FOO"}, {"bar", "Bar"}, {"baz"}}
	g.tags = []string{"latest", "latest", "v1"}
	// every history may spell requests with different case; without `plant` the server canonicalises them
	g.hosts = append(g.hosts, "Example.com")
	g.nss = append(g.nss, "Other")
	// case variants of the DEFAULT namespace / host: what DisplayShortest() elides and a re-parse spells canonically
	// (N3, seeded C04-L); the first name-based operation of a history fixes the spelling of the whole store
	if r.Chance(1, 3) {
		g.nss = append(g.nss, zzverif.Pick(r, []string{"Library", "LIBRARY", "liBRARY"}))
	}
	if r.Chance(1, 5) {
		g.hosts = append(g.hosts, zzverif.Pick(r, []string{"Registry.Ollama.AI", "REGISTRY.OLLAMA.AI"}))
	}
	g.tags = append(g.tags, "V1", "Latest")
	k := r.Range(1, 3)
	for i := 0; i < k; i++ {
		g.models = append(g.models, allModels[i]...)
	}
	return g
}

func (g *c04Gen) name() c04Name {
	return c04Name{zzverif.Pick(g.r, g.hosts), zzverif.Pick(g.r, g.nss), zzverif.Pick(g.r, g.models), zzverif.Pick(g.r, g.tags)}
}

func c04Recase(r *zzverif.Rng, s string) string {
	b := []byte(s)
	for i := range b {
		if r.Chance(1, 3) {
			if b[i] >= 'a' && b[i] <= 'z' {
				b[i] -= 32
			} else if b[i] >= 'A' && b[i] <= 'Z' {
				b[i] += 32
			}
		}
	}
	return string(b)
}

// existing picks a name that has a manifest, sometimes re-spelled in another case.
func (g *c04Gen) existing(sn *c04Snap, recase bool) (c04Name, bool) {
	if sn == nil || len(sn.mans) == 0 {
		return c04Name{}, false
	}
	n := sn.mans[g.r.Intn(len(sn.mans))].name
	if recase && g.r.Chance(1, 4) {
		n = c04Name{n.Host, c04Recase(g.r, n.Ns), c04Recase(g.r, n.Model), c04Recase(g.r, n.Tag)}
	}
	return n, true
}

func (g *c04Gen) overrides(o *c04Op, p int) {
	if g.r.Chance(p, 10) {
		if g.r.Chance(1, 10) {
			o.Tmpl, o.TmplOK = g.pool.badT, false
		} else {
			o.Tmpl, o.TmplOK = zzverif.Pick(g.r, g.pool.tmpls), true
		}
	}
	if g.r.Chance(p, 10) {
		o.Sys = zzverif.Pick(g.r, g.pool.syss)
	}
	if g.r.Chance(p, 20) {
		for i, k := 0, g.r.Range(1, 2); i < k; i++ {
			o.Lics = append(o.Lics, zzverif.Pick(g.r, g.pool.lics))
		}
	}
	if g.r.Chance(p, 10) {
		k := g.r.Range(1, 2)
		seen := map[string]bool{}
		for i := 0; i < k; i++ {
			kv := zzverif.Pick(g.r, g.pool.parms)
			if !seen[kv[0]] {
				seen[kv[0]] = true
				o.Params = append(o.Params, kv)
			}
		}
		sort.Slice(o.Params, func(i, j int) bool { return o.Params[i][0] < o.Params[j][0] })
	}
	if g.r.Chance(p, 20) {
		// MESSAGE lines of a Modelfile (setMessages: the old messages layers are dropped, then the new one stored)
		for i, k := 0, g.r.Range(1, 2); i < k; i++ {
			o.Msgs = append(o.Msgs, [2]string{zzverif.Pick(g.r, []string{"user", "assistant", "system", "User"}),
				zzverif.Pick(g.r, []string{"hi", "hello there", "You are terse.", "2+2?", "4"})})
		}
	}
}

func (g *c04Gen) fileDigest(sn *c04Snap) c04Digest {
	var c []byte
	switch {
	case g.r.Chance(1, 20):
		c = zzverif.Pick(g.r, g.pool.texts)
	case g.r.Chance(1, 30):
		c = zzverif.Pick(g.r, g.pool.kinds) // an adapter / projector GGUF (alone: finding N6)
		g.outCount("file_digest_adapter_or_projector")
	default:
		c = zzverif.Pick(g.r, g.pool.ggufs)
		// mostly blobs that are present
		var present [][]byte
		for _, x := range g.pool.ggufs {
			if sn != nil && sn.blob(c04Sum(x)) != nil {
				present = append(present, x)
			}
		}
		if len(present) > 0 && g.r.Chance(9, 10) {
			c = zzverif.Pick(g.r, present)
		}
	}
	d := c04Digest{Hex: c04Sum(c)}
	if g.class == 1 && g.r.Chance(1, 3) {
		d.Dash = true
	}
	if g.class == 1 && g.r.Chance(1, 6) {
		// the digest pattern accepts A-F: a client that writes the hex in upper case names ANOTHER file (seeded C04-M)
		d.Hex = strings.ToUpper(d.Hex)
		g.outCount("file_digest_uppercase_hex")
	}
	return d
}

func (g *c04Gen) uploadOp() c04Op {
	var c []byte
	if g.r.Chance(1, 8) {
		c = zzverif.Pick(g.r, g.pool.texts)
	} else if g.r.Chance(1, 12) {
		c = zzverif.Pick(g.r, g.pool.kinds)
	} else {
		c = zzverif.Pick(g.r, g.pool.ggufs)
	}
	o := c04Op{Kind: "upload", Content: c, D: c04Digest{Hex: c04Sum(c)}}
	switch {
	case g.r.Chance(1, 25):
		o.D.Hex = c04Sum(zzverif.Pick(g.r, g.pool.ggufs)) // possibly the digest of other content
	case g.class == 1 && g.r.Chance(1, 10):
		o.D.Dash = true
	case g.class == 1 && g.r.Chance(1, 10):
		o.D.Hex = strings.ToUpper(o.D.Hex)
	}
	return o
}

// litterManOp plants a stray regular file or a dangling symlink somewhere below manifests/: at the root, in a
// host / namespace / model directory (existing or new), or next to the manifests of a model.  Names are never
// valid name parts of the universe, so no request path leads through them.
func (g *c04Gen) litterManOp(sn *c04Snap) c04Op {
	var dir []string
	if sn != nil && len(sn.mans) > 0 && g.r.Chance(2, 3) {
		n := sn.mans[g.r.Intn(len(sn.mans))].name
		dir = []string{n.Host, n.Ns, n.Model}
	} else {
		n := g.name()
		dir = []string{n.Host, n.Ns, n.Model}
	}
	depth := g.r.Intn(4) // 0: manifests/ itself … 3: inside a model directory (manifest depth)
	name := zzverif.Pick(g.r, []string{".DS_Store", ".README", "-stray", ".zz-file-where-a-directory-is-expected"})
	if depth < 3 && g.r.Chance(1, 4) {
		name = ".dangling@" // a dangling symlink (never at manifest depth: Manifests stats every entry there)
	}
	g.outCount(fmt.Sprintf("litterman_depth%d", depth))
	return c04Op{Kind: "litterman", Path: append(append([]string{}, dir[:depth]...), name)}
}

// litterOp puts a file into blobs/ whose name is not (or not quite) a blob name: every class of name that
// PruneLayers / fixBlobs distinguish.
func (g *c04Gen) litterOp(sn *c04Snap) c04Op {
	for {
		o := g.litterOp0(sn)
		// (class 6 also pulls: a planted `…-partial-N` file would be read as the part record of an interrupted pull —
		// C03/C12's model, see next0)
		if g.class != 6 || !strings.Contains(o.File, "-partial") {
			return o
		}
	}
}

func (g *c04Gen) litterOp0(sn *c04Snap) c04Op {
	c := zzverif.Pick(g.r, g.pool.ggufs)
	h := c04Sum(c)
	if sn != nil && len(sn.blobs) > 0 && g.r.Chance(1, 2) {
		// next to a blob that exists (referenced or orphaned)
		if b := sn.blobs[g.r.Intn(len(sn.blobs))]; b.key != "" {
			h = strings.ToLower(b.key)
		}
	}
	junk := []byte("partial data")
	o := c04Op{Kind: "litter", Content: junk}
	switch g.r.Intn(16) {
	case 0, 1:
		o.File = "sha256-" + h + "-partial"
	case 2, 3:
		o.File = fmt.Sprintf("sha256-%s-partial-%d", h, g.r.Intn(3))
	case 4:
		o.File = fmt.Sprintf("sha256-%d", 100000000+g.r.Intn(899999999)) // os.CreateTemp(blobs, "sha256-") leftover
	case 5:
		o.File = "sha256-" + h[:63]
	case 6:
		o.File = "sha256-" + h + "0"
	case 7:
		o.File, o.Content = "sha256-"+strings.ToUpper(c04Sum(c)), c // a valid blob NAME in upper case
	case 8, 9:
		o.File, o.Content = "sha256:"+c04Sum(c), c // legacy colon name with the right content (fixBlobs renames it)
	case 10:
		o.File = "sha256:" + h + "-partial"
	case 11:
		o.File = "SHA256-" + h
	case 12:
		o.File = "sha256_" + h
	case 13:
		o.File = "sha256-" + h[:63] + "g"
	case 14:
		o.File = "sha256-" + h + ".bak"
	default:
		o.File = zzverif.Pick(g.r, []string{"tmp-123", "junk.txt", ".DS_Store", "sha256", "sha256-"})
	}
	return o
}

func (g *c04Gen) next(sn *c04Snap) c04Op {
	o := g.next0(sn)
	// (never together with a scripted FROM registry: with "stream": false, waitForStream answers 200 at the inner
	// pull's own "success" status and stops reading, so the handler's goroutine blocks on its next progress message
	// and the model is never created — recorded in notes/C04.md as N5; synctest would report the leaked goroutine)
	if o.Kind == "create" && g.noStreamOK && o.FromReg == nil && g.r.Chance(1, 3) {
		o.NoStream = true
	}
	return o
}

// c04Config is a config blob as a registry would serve it (any JSON object decodes as ConfigV2).
func c04Config(family string, n int) []byte {
	return []byte(fmt.Sprintf("{\"model_format\":\"gguf\",\"model_family\":%q,\"model_type\":\"%dB\",\"file_type\":\"Q4_0\","+
		"\"architecture\":\"amd64\",\"os\":\"linux\",\"rootfs\":{\"type\":\"layers\",\"diff_ids\":[]}}\n", family, n))
}

// pullOp: a pull of a name from a registry whose blobs are honest or, for at most one layer INCLUDING the
// config, corrupted (wrong but well-formed bytes).  Layers come from the same pools as creates use, so pulled
// and created models share blobs.
func (g *c04Gen) pullOp(sn *c04Snap) c04Op {
	o := c04Op{Kind: "pull", Name: g.name()}
	if n, ok := g.existing(sn, true); ok && g.r.Chance(1, 3) {
		o.Name = n // pull over an existing model: its replaced layers are collected
	}
	if g.r.Chance(1, 20) {
		return o // the registry has no such model
	}
	o.Reg = g.registry("pull")
	return o
}

// registry scripts what a registry serves for one name: honest, or with exactly one corrupted entry.
func (g *c04Gen) registry(tag string) *c04Reg {
	reg := &c04Reg{}
	reg.Layers = append(reg.Layers, c04RegLayer{Media: "M", Content: zzverif.Pick(g.r, g.pool.ggufs)})
	if g.r.Chance(1, 2) {
		reg.Layers = append(reg.Layers, c04RegLayer{Media: "T", Content: zzverif.Pick(g.r, g.pool.tmpls)})
	}
	if g.r.Chance(1, 3) {
		reg.Layers = append(reg.Layers, c04RegLayer{Media: "S", Content: zzverif.Pick(g.r, g.pool.syss)})
	}
	if g.r.Chance(1, 3) {
		kv := zzverif.Pick(g.r, g.pool.parms)
		reg.Layers = append(reg.Layers, c04RegLayer{Media: "P", Content: []byte("{\"" + kv[0] + "\":" + kv[1] + "}\n")})
	}
	if g.r.Chance(1, 5) {
		reg.Layers = append(reg.Layers, c04RegLayer{Media: "L", Content: zzverif.Pick(g.r, g.pool.lics)})
	}
	reg.Config = c04RegLayer{Media: "C", Content: c04Config(zzverif.Pick(g.r, []string{"llama", "gemma", "qwen2"}), g.r.Range(1, 3))}
	if g.r.Chance(1, 3) {
		// corrupt exactly one entry; the config as often as all the others together
		if g.r.Chance(1, 2) {
			reg.Config.Served = c04Config("corrupted", 9)
			g.outCount(tag + "_corrupt_config")
		} else {
			i := g.r.Intn(len(reg.Layers))
			reg.Layers[i].Served = append(append([]byte{}, reg.Layers[i].Content...), 'X')
			g.outCount(tag + "_corrupt_layer_" + reg.Layers[i].Media)
		}
	} else {
		g.outCount(tag + "_honest")
	}
	return reg
}

func (g *c04Gen) outCount(k string) {
	if g.count != nil {
		g.count(k)
	}
}

func (g *c04Gen) next0(sn *c04Snap) c04Op {
	nm := 0
	if sn != nil {
		nm = len(sn.mans)
	}
	x := g.r.Intn(100)
	if nm >= 8 && x < 50 {
		x = 80 // keep the store small: delete
	}
	if nm == 0 && x >= 45 {
		x = g.r.Intn(45)
	}
	// (not in the litter class: a planted `…-partial-N` file is read by the download code as the part record of
	// an interrupted pull of that digest — resuming interrupted pulls is C03/C12's model, not this one's)
	if g.class != 5 && g.r.Chance(1, 11) {
		return g.pullOp(sn)
	}
	// class-specific operations first
	switch {
	case g.class == 2 && g.r.Chance(1, 8):
		if src, ok := g.existing(sn, false); ok {
			dst := src
			switch g.r.Intn(3) {
			case 0:
				dst.Model = c04Recase(g.r, dst.Model)
			case 1:
				dst = g.name()
			default:
				dst.Ns, dst.Model = zzverif.Pick(g.r, g.nss), c04Recase(g.r, dst.Model)
			}
			return c04Op{Kind: "plant", Src: src, Dst: dst}
		}
	case g.class == 3 && g.r.Chance(1, 10):
		if n, ok := g.existing(sn, false); ok {
			return c04Op{Kind: "corrupt", Name: n}
		}
	case g.class == 1 && g.r.Chance(1, 10):
		if n, ok := g.existing(sn, false); ok {
			return c04Op{Kind: "dashify", Name: n}
		}
	case g.class == 6 && g.r.Chance(1, 12):
		g.noPrune = !g.noPrune
		return c04Op{Kind: "noprune", On: g.noPrune}
	case g.class == 6 && g.r.Chance(1, 8):
		return c04Op{Kind: "prune"}
	case g.class == 6 && g.r.Chance(1, 10):
		return g.litterOp(sn)
	case g.class == 6 && g.r.Chance(1, 16):
		return g.litterManOp(sn)
	case g.class == 5 && g.r.Chance(1, 8):
		return g.litterManOp(sn)
	case g.class == 5 && g.r.Chance(1, 5):
		return g.litterOp(sn)
	case g.class == 5 && g.r.Chance(1, 6):
		return c04Op{Kind: "prune"}
	case g.class == 4 && g.r.Chance(1, 8):
		o := c04Op{Kind: "create", Name: g.name(), From: &c04Name{"localhost:9", "nobody", "missing", "latest"}}
		if n, ok := g.existing(sn, true); ok && g.r.Chance(2, 3) {
			o.Name = n
		}
		g.overrides(&o, 3)
		return o
	}
	switch {
	case x < 12:
		return g.uploadOp()
	case x < 45: // create from files
		o := c04Op{Kind: "create", Name: g.name()}
		if n, ok := g.existing(sn, true); ok && g.r.Chance(1, 3) {
			o.Name = n // re-create an existing name with other files / overrides
		}
		k := 1
		if g.r.Chance(1, 4) {
			k = 2
		}
		for i := 0; i < k; i++ {
			o.Files = append(o.Files, g.fileDigest(sn))
		}
		g.overrides(&o, 4)
		return o
	case x < 63 && g.noStreamOK && g.class != 5 && g.r.Chance(1, 7):
		// create from a model that is NOT in the store under that spelling: parseFromModel pulls it (scripted
		// registry) under the name as written in the request, then reads it back
		src := g.name()
		if n, ok := g.existing(sn, false); ok && g.r.Chance(1, 2) {
			src = c04Name{n.Host, c04Recase(g.r, n.Ns), c04Recase(g.r, n.Model), c04Recase(g.r, n.Tag)}
		}
		o := c04Op{Kind: "create", Name: g.name(), From: &src}
		if n, ok := g.existing(sn, true); ok && g.r.Chance(1, 3) {
			o.Name = n
		}
		if !o.Name.equalFold(src) {
			o.FromReg = g.registry("frompull")
		}
		g.overrides(&o, 4)
		return o
	case x < 63: // create from an existing model
		src, _ := g.existing(sn, false)
		o := c04Op{Kind: "create", Name: g.name(), From: &src}
		if g.r.Chance(1, 4) {
			o.Name = src // re-create in place (the usual Modelfile workflow)
		} else if n, ok := g.existing(sn, true); ok && g.r.Chance(1, 3) {
			o.Name = n
		}
		g.overrides(&o, 6)
		return o
	case x < 78: // copy
		src, _ := g.existing(sn, true)
		if g.r.Chance(1, 8) {
			src = g.name()
		}
		dst := g.name()
		if n, ok := g.existing(sn, true); ok && g.r.Chance(1, 4) {
			dst = n
		}
		return c04Op{Kind: "copy", Src: src, Dst: dst}
	case x < 94: // delete
		n, _ := g.existing(sn, true)
		if g.r.Chance(1, 6) {
			n = g.name()
		}
		return c04Op{Kind: "delete", Name: n}
	default:
		return c04Op{Kind: "prune"}
	}
}

// ---------------------------------------------------------------- test entry point

func c04NewServer(t *testing.T, dir string) *c04Server {
	t.Setenv("OLLAMA_MODELS", dir)
	t.Setenv("OLLAMA_NOPRUNE", "")
	s := &Server{}
	h, err := s.GenerateRoutes(nil)
	if err != nil {
		t.Fatal(err)
	}
	return &c04Server{h: h, dir: dir, t: t}
}

func (r *c04Run) begin(t *testing.T, base string, idx int) {
	dir := filepath.Join(base, fmt.Sprintf("h%d", idx))
	if err := os.MkdirAll(dir, 0o755); err != nil {
		t.Fatal(err)
	}
	r.srv = c04NewServer(t, dir)
	r.ops = nil
	r.dashHex = map[string]bool{}
	r.litter = map[string]bool{}
	r.failed = false
	r.noPrune = false
	r.out.Case("reset", "ok")
	r.snap = r.srv.snapshot()
}

func (r *c04Run) end() {
	os.RemoveAll(r.srv.dir)
}

// ---------------------------------------------------------------- which variant is the tree under test?

// c04Probe runs three small experiments on the REAL code and reports which of the repairs F16a / F16b / N1
// the tree contains (the oracle then models exactly that variant).  Each repair has more than one
// observable facet; facets that disagree are reported as an L2 failure `variant-probe`.
func c04Probe(t *testing.T, base string, pool *c04Pool, out *zzverif.Out) (fixAlias, fixResolve, fixReturn, fixKeep bool) {
	probeHist := map[string][]string{} // repair -> the operations of the experiment that decided it
	defer func() {
		// N3: create LiBRARy/zz on an empty store, then pull library/zz: where does the manifest land?
		s := c04NewServer(t, filepath.Join(base, "probe-p"))
		g0 := pool.ggufs[0]
		s.exec(c04Op{Kind: "upload", Content: g0, D: c04Digest{Hex: c04Sum(g0)}})
		s.exec(c04Op{Kind: "create", Name: c04Name{"registry.ollama.ai", "LiBRARy", "zz", "latest"}, Files: []c04Digest{{Hex: c04Sum(g0)}}})
		s.exec(c04Op{Kind: "pull", Name: c04Name{"registry.ollama.ai", "library", "zz", "latest"},
			Reg: &c04Reg{Layers: []c04RegLayer{{Media: "M", Content: g0}}, Config: c04RegLayer{Media: "C", Content: c04Config("llama", 1)}}})
		_, err := os.Stat(s.manifestPath(c04Name{"registry.ollama.ai", "library", "zz", "latest"}))
		fixPullName := 0
		if err != nil {
			fixPullName = 1
		}
		probeHist["fixPullName"] = s.rec
		b := func(x bool) int {
			if x {
				return 1
			}
			return 0
		}
		out.Add("variant_fixPullName", fixPullName)
		// N4: `foo` stored, create b from FOO with a registry that serves FOO: is FOO pulled next to foo?
		s = c04NewServer(t, filepath.Join(base, "probe-f"))
		s.exec(c04Op{Kind: "upload", Content: g0, D: c04Digest{Hex: c04Sum(g0)}})
		s.exec(c04Op{Kind: "create", Name: c04Name{"registry.ollama.ai", "library", "foo", "latest"}, Files: []c04Digest{{Hex: c04Sum(g0)}}})
		fromFOO := c04Name{"registry.ollama.ai", "library", "FOO", "latest"}
		s.exec(c04Op{Kind: "create", Name: c04Name{"registry.ollama.ai", "library", "b", "latest"}, From: &fromFOO,
			FromReg: &c04Reg{Layers: []c04RegLayer{{Media: "M", Content: g0}}, Config: c04RegLayer{Media: "C", Content: c04Config("llama", 1)}}})
		fixFrom := 0
		if _, err := os.Stat(s.manifestPath(fromFOO)); err != nil {
			fixFrom = 1
		}
		out.Add("variant_fixFromResolve", fixFrom)
		probeHist["fixFromResolve"] = s.rec
		out.Case(fmt.Sprintf("variant %d %d %d %d %d %d", b(fixAlias), b(fixResolve), b(fixReturn), b(fixKeep), fixPullName, fixFrom), "ok")
		// the check states which repairs the tree is EXPECTED to contain (KNOWN_FINDINGS: a `fixed` entry must be
		// repaired): a repair that the probe does not find is a regression, reported with the probe's own history
		got := map[string]int{"fixAlias": b(fixAlias), "fixResolve": b(fixResolve), "fixReturn": b(fixReturn),
			"fixKeep": b(fixKeep), "fixPullName": fixPullName, "fixFromResolve": fixFrom}
		for _, want := range strings.Split(os.Getenv("VERIF_C04_EXPECT_FIXED"), ",") {
			if want != "" && got[want] == 0 {
				out.L2("variant-regressed", strings.Join(probeHist[want], " ;; "),
					want+": the repair recorded in KNOWN_FINDINGS.jsonl is not in the tree under test (probe history given as the case)")
			}
		}
	}()
	g0 := pool.ggufs[0]
	h0 := c04Sum(g0)
	nm := func(ns, m string) c04Name { return c04Name{"registry.ollama.ai", ns, m, "latest"} }
	_ = probeHist
	fresh := func(tag string) *c04Server {
		dir := filepath.Join(base, "probe-"+tag)
		if err := os.MkdirAll(dir, 0o755); err != nil {
			t.Fatal(err)
		}
		return c04NewServer(t, dir)
	}
	up := c04Op{Kind: "upload", Content: g0, D: c04Digest{Hex: h0}}
	mk := func(n c04Name, dash bool) c04Op {
		return c04Op{Kind: "create", Name: n, Files: []c04Digest{{Dash: dash, Hex: h0}}}
	}
	blobThere := func(s *c04Server) bool {
		_, err := os.Stat(filepath.Join(s.dir, "blobs", "sha256-"+h0))
		return err == nil
	}
	agree := func(what string, facets ...bool) bool {
		for _, f := range facets[1:] {
			if f != facets[0] {
				out.L2("variant-probe", "", fmt.Sprintf("%s: facets disagree %v", what, facets))
			}
		}
		return facets[0]
	}

	// F16a: (i) create records the colon spelling, (ii) delete keeps an aliased blob, (iii) prune keeps it
	s := fresh("a1")
	s.exec(up)
	s.exec(mk(nm("library", "a"), false))
	s.exec(mk(nm("library", "b"), true))
	recorded := false
	if sn := s.snapshot(); sn.man(nm("library", "b")) != nil && len(sn.man(nm("library", "b")).m.Layers) > 0 {
		recorded = strings.HasPrefix(sn.man(nm("library", "b")).m.Layers[0].Digest, "sha256:")
	}
	s.exec(c04Op{Kind: "dashify", Name: nm("library", "b")})
	s.exec(c04Op{Kind: "delete", Name: nm("library", "b")})
	deleteKeeps := blobThere(s)
	probeHist["fixAlias"] = s.rec
	s = fresh("a2")
	s.exec(up)
	s.exec(mk(nm("library", "b"), true))
	s.exec(c04Op{Kind: "dashify", Name: nm("library", "b")})
	s.exec(c04Op{Kind: "prune"})
	pruneKeeps := blobThere(s)
	fixAlias = agree("F16a", recorded, deleteKeeps, pruneKeeps)

	// F16b: getExistingName (no side effects) called repeatedly on a mixed store
	s = fresh("b")
	s.exec(up)
	s.exec(mk(nm("library", "Foo"), false))
	s.exec(c04Op{Kind: "plant", Src: nm("library", "Foo"), Dst: nm("other", "foo")})
	whole, part := true, true
	for i := 0; i < 400; i++ {
		n1, err1 := getExistingName(model.ParseName("library/foo"))
		n2, err2 := getExistingName(model.ParseName("third/FOO"))
		if err1 != nil || err2 != nil {
			t.Fatal(err1, err2)
		}
		if n1.Model != "Foo" {
			whole = false // whole-name match first: library/Foo
		}
		if n2.Model != "Foo" {
			part = false // first fold-equal part in sorted order: library/Foo < other/foo
		}
	}
	fixResolve = agree("F16b", whole, part)
	probeHist["fixResolve"] = append(append([]string{}, s.rec...), mk(nm("library", "foo"), false).line())

	// N1: a create whose FROM cannot be resolved
	s = fresh("n")
	s.exec(up)
	s.exec(mk(nm("library", "a"), false))
	res := s.exec(c04Op{Kind: "create", Name: nm("library", "a"), From: &c04Name{"localhost:9", "nobody", "missing", "latest"}})
	probeHist["fixReturn"] = s.rec
	switch res {
	case "e500":
		fixReturn = true
	case "e500+s":
		fixReturn = false
	default:
		out.L2("variant-probe", "", "N1: unexpected events "+res)
	}
	// N2: a SYSTEM text byte-identical to the auto-detected parameters of the GGUF, parameters that change them
	s = fresh("k")
	s.exec(c04Op{Kind: "upload", Content: pool.chatG, D: c04Digest{Hex: c04Sum(pool.chatG)}})
	s.exec(c04Op{Kind: "create", Name: nm("library", "a"), Files: []c04Digest{{Hex: c04Sum(pool.chatG)}}, Sys: pool.chatP,
		Params: [][2]string{{"num_ctx", "2048"}}})
	_, err := os.Stat(filepath.Join(s.dir, "blobs", "sha256-"+c04Sum(pool.chatP)))
	fixKeep = err == nil
	probeHist["fixKeep"] = s.rec

	b := func(x bool) int {
		if x {
			return 1
		}
		return 0
	}
	out.Add("variant_fixKeep", b(fixKeep))
	out.Add("variant_fixAlias", b(fixAlias))
	out.Add("variant_fixResolve", b(fixResolve))
	out.Add("variant_fixReturn", b(fixReturn))
	return
}

func TestVerifC04(t *testing.T) {
	gin.SetMode(gin.TestMode)
	out := zzverif.NewOut()
	defer out.Close()
	pool := c04MakePool(t, out)
	for _, m := range pool.meta {
		out.Case(m, "ok")
	}
	base := t.TempDir()
	_, fixResolve, fixReturn, _ := c04Probe(t, base, pool, out)
	run := &c04Run{t: t, out: out, pool: pool}
	hist := 0

	if rp := os.Getenv("VERIF_REPLAY"); rp != "" {
		raw, err := os.ReadFile(rp)
		if err != nil {
			t.Fatal(err)
		}
		run.begin(t, base, hist)
		for _, s := range strings.Split(strings.TrimSpace(string(raw)), " ;; ") {
			if strings.TrimSpace(s) == "" {
				continue
			}
			run.apply(c04ParseOp(s))
		}
		run.end()
		return
	}

	// ---- regression corpus (corpus/C04/*.txt: one history per file, replay format), run first
	if cd := os.Getenv("VERIF_CORPUS"); cd != "" {
		files, _ := filepath.Glob(filepath.Join(cd, "*.txt"))
		sort.Strings(files)
		for _, f := range files {
			raw, err := os.ReadFile(f)
			if err != nil {
				t.Fatal(err)
			}
			run.begin(t, base, hist)
			hist++
			for _, s := range strings.Split(strings.TrimSpace(string(raw)), " ;; ") {
				if strings.TrimSpace(s) == "" || run.failed {
					continue
				}
				run.apply(c04ParseOp(s))
			}
			run.end()
			out.Count("histories_corpus")
		}
	}

	g0, g1 := pool.ggufs[0], pool.ggufs[1]
	nm := func(ns, m string) c04Name { return c04Name{"registry.ollama.ai", ns, m, "latest"} }
	up := func(c []byte) c04Op { return c04Op{Kind: "upload", Content: c, D: c04Digest{Hex: c04Sum(c)}} }
	mk := func(n c04Name, dash bool, c []byte) c04Op {
		return c04Op{Kind: "create", Name: n, Files: []c04Digest{{Dash: dash, Hex: c04Sum(c)}}}
	}
	// ---- directed scenarios (the histories named in DESIGN.md §5 C04 / §6 F16), through the same machinery
	scenarios := [][]c04Op{
		// digest-string aliasing, delete
		{up(g0), mk(nm("library", "a"), false, g0), mk(nm("library", "b"), true, g0), {Kind: "delete", Name: nm("library", "b")}},
		// digest-string aliasing, startup prune
		{up(g0), mk(nm("library", "b"), true, g0), {Kind: "prune"}},
		// digest-string aliasing, re-create
		{up(g0), up(g1), mk(nm("library", "a"), false, g0), mk(nm("library", "b"), true, g0), mk(nm("library", "b"), false, g1)},
		// a manifest that spells its model layer sha256-<hex> by other means than create, then delete + prune
		{up(g0), mk(nm("library", "a"), false, g0), mk(nm("library", "b"), false, g0), {Kind: "dashify", Name: nm("library", "b")},
			{Kind: "delete", Name: nm("library", "a")}, {Kind: "prune"}},
		// auto-detected template + parameters layers (recognised chat template) and overrides byte-identical to them
		{up(pool.chatG), {Kind: "create", Name: nm("library", "a"), Files: []c04Digest{{Hex: c04Sum(pool.chatG)}}},
			{Kind: "create", Name: nm("library", "b"), Files: []c04Digest{{Hex: c04Sum(pool.chatG)}}, Tmpl: pool.chatT, TmplOK: true},
			{Kind: "delete", Name: nm("library", "a")}, {Kind: "delete", Name: nm("library", "b")},
			// explicit TEMPLATE equal to the auto-detected one while no manifest references that blob
			{Kind: "create", Name: nm("library", "c"), Files: []c04Digest{{Hex: c04Sum(pool.chatG)}}, Tmpl: pool.chatT, TmplOK: true},
			{Kind: "create", Name: nm("library", "c"), Files: []c04Digest{{Hex: c04Sum(pool.chatG)}}, Tmpl: pool.chatT, TmplOK: true, Sys: pool.chatT},
			{Kind: "prune"}},
		// SYSTEM equal to the auto-detected parameters, PARAMETERS that change them (N2)
		{up(pool.chatG), {Kind: "create", Name: nm("library", "a"), Files: []c04Digest{{Hex: c04Sum(pool.chatG)}}, Sys: pool.chatP,
			Params: [][2]string{{"num_ctx", "2048"}}}},
		// pulls: honest; corrupted config on a fresh store (must be refused); corrupted weights; a pull over an
		// existing model (replaced layers collected, shared ones kept); config already in the store (cache hit)
		{{Kind: "pull", Name: nm("library", "p"), Reg: &c04Reg{Layers: []c04RegLayer{{Media: "M", Content: g0}, {Media: "T", Content: pool.tmpls[0]}}, Config: c04RegLayer{Media: "C", Content: c04Config("llama", 1)}}},
			{Kind: "pull", Name: nm("library", "q"), Reg: &c04Reg{Layers: []c04RegLayer{{Media: "M", Content: g0}}, Config: c04RegLayer{Media: "C", Content: c04Config("gemma", 2), Served: c04Config("corrupted", 9)}}},
			{Kind: "pull", Name: nm("library", "q"), Reg: &c04Reg{Layers: []c04RegLayer{{Media: "M", Content: g1, Served: append(append([]byte{}, g1...), 'X')}}, Config: c04RegLayer{Media: "C", Content: c04Config("gemma", 2)}}},
			{Kind: "pull", Name: nm("library", "q"), Reg: &c04Reg{Layers: []c04RegLayer{{Media: "M", Content: g1}}, Config: c04RegLayer{Media: "C", Content: c04Config("gemma", 2)}}},
			{Kind: "pull", Name: nm("library", "p"), Reg: &c04Reg{Layers: []c04RegLayer{{Media: "M", Content: g1}, {Media: "S", Content: pool.syss[0]}}, Config: c04RegLayer{Media: "C", Content: c04Config("gemma", 2), Served: c04Config("corrupted", 9)}}},
			{Kind: "pull", Name: nm("library", "r")}, {Kind: "delete", Name: nm("library", "q")}, {Kind: "prune"}},
		// stray files below manifests/: what delete and the start-up prune leave of the directory tree
		{up(g0), mk(nm("library", "a"), false, g0), mk(nm("other", "b"), false, g0),
			{Kind: "litterman", Path: []string{".DS_Store"}}, {Kind: "litterman", Path: []string{"registry.ollama.ai", "other", ".README"}},
			{Kind: "copy", Src: nm("library", "nosuch"), Dst: c04Name{"example.com", "x", "y", "latest"}},
			{Kind: "delete", Name: nm("library", "a")}, {Kind: "delete", Name: nm("other", "b")},
			{Kind: "litterman", Path: []string{"h2", ".dangling@"}}, mk(nm("library", "c"), false, g0),
			{Kind: "litterman", Path: []string{"registry.ollama.ai", "library", "c", ".DS_Store"}}, {Kind: "prune"},
			{Kind: "delete", Name: nm("library", "c")}, {Kind: "prune"}},
		// OLLAMA_NOPRUNE: re-create / pull over a model and the start-up sequence leave everything; delete does not
		// look at the switch; switched off again the start-up prune collects what was left
		{{Kind: "noprune", On: true}, up(g0), up(g1), mk(nm("library", "a"), false, g0), mk(nm("library", "a"), false, g1),
			{Kind: "litter", File: "sha256-" + c04Sum(g1) + "-partial", Content: []byte("x")},
			{Kind: "litter", File: "sha256:" + c04Sum(pool.ggufs[2]), Content: pool.ggufs[2]}, {Kind: "prune"},
			{Kind: "pull", Name: nm("library", "a"), Reg: &c04Reg{Layers: []c04RegLayer{{Media: "M", Content: g0}}, Config: c04RegLayer{Media: "C", Content: c04Config("llama", 1)}}},
			{Kind: "corrupt", Name: nm("library", "a")}, {Kind: "prune"},
			mk(nm("library", "b"), false, g1), {Kind: "delete", Name: nm("library", "b")},
			{Kind: "delete", Name: nm("library", "a")}, {Kind: "noprune", On: false}, {Kind: "prune"}},
		// create … from a model that is not in the store: the handler pulls it (under the name as written: N4), reads it
		// back and builds on it; a registry that serves a corrupted config makes the create fail with the verified
		// weights left as an orphan
		{up(g0), mk(nm("library", "foo"), false, g0),
			{Kind: "create", Name: nm("library", "b"), From: &c04Name{"registry.ollama.ai", "other", "base", "latest"}, Sys: pool.syss[0],
				FromReg: &c04Reg{Layers: []c04RegLayer{{Media: "M", Content: g1}, {Media: "T", Content: pool.tmpls[0]}}, Config: c04RegLayer{Media: "C", Content: c04Config("llama", 1)}}},
			{Kind: "create", Name: nm("library", "c"), From: &c04Name{"registry.ollama.ai", "other", "base2", "latest"},
				FromReg: &c04Reg{Layers: []c04RegLayer{{Media: "M", Content: pool.ggufs[2]}}, Config: c04RegLayer{Media: "C", Content: c04Config("gemma", 2), Served: c04Config("corrupted", 9)}}},
			{Kind: "delete", Name: c04Name{"registry.ollama.ai", "other", "base", "latest"}}, {Kind: "prune"},
			{Kind: "create", Name: nm("library", "d"), From: &c04Name{"registry.ollama.ai", "library", "FOO", "latest"},
				FromReg: &c04Reg{Layers: []c04RegLayer{{Media: "M", Content: g0}}, Config: c04RegLayer{Media: "C", Content: c04Config("llama", 1)}}}},
		// a digest written in upper-case hex names another file (sha256-<UPPER>): without such a file the create fails; with
		// one (planted by other means) the manifest records the upper-case spelling and that file is what it needs
		{up(g0), mk(nm("library", "a"), false, g0),
			{Kind: "create", Name: nm("library", "b"), Files: []c04Digest{{Hex: strings.ToUpper(c04Sum(g0))}}},
			{Kind: "litter", File: "sha256-" + strings.ToUpper(c04Sum(g0)), Content: g0},
			{Kind: "create", Name: nm("library", "b"), Files: []c04Digest{{Hex: strings.ToUpper(c04Sum(g0))}}},
			{Kind: "delete", Name: nm("library", "a")}, {Kind: "prune"}, {Kind: "delete", Name: nm("library", "b")}, {Kind: "prune"}},
		// adapter / projector GGUFs: next to a model file (fine), alone (listed, complete, and show answers 404: N6)
		{up(g0), up(pool.kinds[0]), up(pool.kinds[1]),
			{Kind: "create", Name: nm("library", "ma"), Files: []c04Digest{{Hex: c04Sum(g0)}, {Hex: c04Sum(pool.kinds[0])}}},
			{Kind: "create", Name: nm("library", "mj"), From: &c04Name{"registry.ollama.ai", "library", "ma", "latest"}, Sys: pool.syss[0]},
			{Kind: "delete", Name: nm("library", "ma")}, {Kind: "prune"},
			{Kind: "create", Name: nm("library", "aonly"), Files: []c04Digest{{Hex: c04Sum(pool.kinds[0])}}}},
		{up(pool.kinds[1]), {Kind: "create", Name: nm("library", "jonly"), Files: []c04Digest{{Hex: c04Sum(pool.kinds[1])}}}},
		// every result class of every API operation once, deterministically (the coverage requirement of the check
		// must not depend on the seed)
		{up(g0), up(g0), {Kind: "upload", Content: g1, D: c04Digest{Hex: c04Sum(g0)}}, {Kind: "upload", Content: pool.texts[0], D: c04Digest{Hex: c04Sum(g1)}},
			mk(nm("library", "a"), false, g0), {Kind: "create", Name: nm("library", "a"), Files: []c04Digest{{Hex: c04Sum(g0)}}, Tmpl: pool.badT},
			{Kind: "create", Name: nm("library", "t"), Files: []c04Digest{{Hex: c04Sum(pool.texts[0])}}},
			{Kind: "create", Name: nm("library", "t"), Files: []c04Digest{{Hex: c04Sum(pool.ggufs[3])}}},
			{Kind: "copy", Src: nm("library", "a"), Dst: nm("library", "a")}, {Kind: "copy", Src: nm("library", "a"), Dst: nm("library", "c")},
			{Kind: "copy", Src: nm("library", "c"), Dst: nm("library", "a")}, {Kind: "delete", Name: nm("library", "nosuch")},
			{Kind: "create", Name: nm("library", "a"), From: &c04Name{"registry.ollama.ai", "library", "c", "latest"}, Sys: pool.syss[0], Lics: [][]byte{pool.lics[0]},
				Params: [][2]string{{"num_ctx", "2048"}}, Tmpl: pool.tmpls[0], TmplOK: true},
			{Kind: "plant", Src: nm("library", "a"), Dst: nm("other", "A")}, {Kind: "dashify", Name: nm("library", "c")},
			{Kind: "delete", Name: nm("library", "c")}, {Kind: "corrupt", Name: nm("library", "a")}, {Kind: "delete", Name: nm("library", "a")}, {Kind: "prune"}},
		// directories made by a copy whose source does not exist are collected by the start-up prune
		{{Kind: "copy", Src: nm("library", "nosuch"), Dst: c04Name{"example.com", "x", "y", "latest"}}, {Kind: "prune"}},
		// MESSAGE: the messages layer is replaced (drop, then store), shared between a model and its copy, and its
		// text may equal a SYSTEM text of another model
		{up(g0), {Kind: "create", Name: nm("library", "a"), Files: []c04Digest{{Hex: c04Sum(g0)}}, Msgs: [][2]string{{"user", "hi"}, {"assistant", "hello there"}}},
			{Kind: "copy", Src: nm("library", "a"), Dst: nm("library", "c")},
			{Kind: "create", Name: nm("library", "a"), From: &c04Name{"registry.ollama.ai", "library", "a", "latest"}, Msgs: [][2]string{{"User", "2+2?"}}},
			{Kind: "create", Name: nm("library", "b"), From: &c04Name{"registry.ollama.ai", "library", "c", "latest"}, Sys: pool.syss[0]},
			{Kind: "create", Name: nm("library", "c"), From: &c04Name{"registry.ollama.ai", "library", "c", "latest"}, Msgs: [][2]string{{"user", "hi"}}},
			{Kind: "delete", Name: nm("library", "b")}, {Kind: "delete", Name: nm("library", "a")}, {Kind: "prune"}},
		// a default namespace / host first spelled in another letter case, then list + show (seeded C04-L)
		{up(g0), mk(c04Name{"registry.ollama.ai", "Library", "demo", "latest"}, false, g0),
			{Kind: "copy", Src: c04Name{"registry.ollama.ai", "library", "demo", "latest"}, Dst: nm("library", "demo2")},
			{Kind: "copy", Src: nm("library", "demo"), Dst: c04Name{"Registry.Ollama.AI", "library", "y", "latest"}},
			{Kind: "delete", Name: nm("library", "demo")}},
		// N3: a pull that is resolved to a model under a differently-cased default namespace
		{up(g0), mk(c04Name{"registry.ollama.ai", "LiBRARy", "foo", "latest"}, false, g0),
			{Kind: "pull", Name: nm("library", "foo"), Reg: &c04Reg{Layers: []c04RegLayer{{Media: "M", Content: g0}}, Config: c04RegLayer{Media: "C", Content: c04Config("llama", 1)}}}},
		// leftovers and other non-blob names in blobs/, then the startup sequence
		{up(g0), mk(nm("library", "a"), false, g0),
			{Kind: "litter", File: "sha256-" + c04Sum(g1) + "-partial", Content: []byte("x")},
			{Kind: "litter", File: "sha256-" + c04Sum(g1) + "-partial-0", Content: []byte("{}")},
			{Kind: "litter", File: "sha256-" + c04Sum(g0) + "-partial", Content: []byte("x")},
			{Kind: "litter", File: "sha256-123456789", Content: []byte("temp")},
			{Kind: "litter", File: "sha256-" + strings.ToUpper(c04Sum(g1)), Content: g1},
			{Kind: "litter", File: "sha256:" + c04Sum(g1), Content: g1},
			{Kind: "litter", File: "sha256:" + c04Sum(g1) + "-partial", Content: []byte("y")},
			{Kind: "litter", File: "sha256-" + c04Sum(g0)[:63], Content: []byte("z")},
			{Kind: "litter", File: "junk.txt", Content: []byte("z")},
			{Kind: "prune"},
			{Kind: "litter", File: "sha256:" + c04Sum(g1), Content: g1}, mk(nm("library", "b"), false, g1),
			{Kind: "corrupt", Name: nm("library", "a")}, {Kind: "litter", File: "tmp-1", Content: []byte("z")}, {Kind: "prune"}},
		// create whose FROM cannot be resolved: the handler reports the error and carries on
		{up(g0), mk(nm("library", "a"), false, g0), {Kind: "create", Name: nm("library", "a"), From: &c04Name{"localhost:9", "nobody", "missing", "latest"}, Sys: pool.syss[0]}},
		// sharing patterns of the property's `why_tests_cant`, no aliasing: must hold
		{up(g0), mk(nm("library", "a"), false, g0), {Kind: "copy", Src: nm("library", "a"), Dst: nm("library", "c")},
			{Kind: "create", Name: nm("library", "a"), From: &c04Name{"registry.ollama.ai", "library", "a", "latest"}, Sys: pool.syss[0]},
			{Kind: "delete", Name: nm("library", "a")}, {Kind: "prune"}, {Kind: "delete", Name: nm("library", "c")}, {Kind: "prune"}},
	}
	for _, sc := range scenarios {
		run.begin(t, base, hist)
		hist++
		for _, o := range sc {
			if run.failed {
				break
			}
			run.apply(o)
		}
		run.end()
		out.Count("histories_directed")
	}
	// case twins: needs one particular iteration order of a two-element Go map (1 in 8 per attempt)
	{
		run.begin(t, base, hist)
		hist++
		run.apply(up(g0))
		run.apply(mk(nm("library", "Foo"), false, g0))
		run.apply(c04Op{Kind: "plant", Src: nm("library", "Foo"), Dst: nm("other", "foo")})
		attempts := 400
		if fixResolve {
			attempts = 20 // the repaired getExistingName is deterministic
		}
		for i := 0; i < attempts && !run.failed; i++ {
			run.apply(mk(nm("library", "foo"), false, g0))
			out.Count("twin_attempts")
		}
		if run.failed {
			out.Count("twin_scenario_reproduced")
		}
		run.end()
		out.Count("histories_directed")
	}

	// ---- random histories
	root := zzverif.NewRng(zzverif.Seed())
	n := zzverif.EnvInt("VERIF_N", 100)
	maxOps := zzverif.EnvInt("VERIF_OPS", 40)
	for h := 0; h < n; h++ {
		r := root.Fork()
		class := 0
		switch x := r.Intn(100); {
		case x < 52:
			class = 0
		case x < 66:
			class = 1
		case x < 76:
			class = 2
		case x < 82:
			class = 3
		case x < 87:
			class = 4
		case x < 92:
			class = 6 // OLLAMA_NOPRUNE switched on and off inside the history
		default:
			class = 5 // non-blob file names in blobs/ + frequent startup prunes
		}
		out.Count(fmt.Sprintf("histories_class%d", class))
		g := c04NewGen(r, pool, class)
		g.noStreamOK = fixReturn
		g.count = out.Count
		run.begin(t, base, hist)
		hist++
		if class == 6 {
			g.noPrune = true
			run.apply(c04Op{Kind: "noprune", On: true})
		}
		// most histories start with a few blobs in place
		for i, k := 0, r.Range(0, 4); i < k; i++ {
			run.apply(up(zzverif.Pick(r, pool.ggufs)))
		}
		steps := r.Range(maxOps/2, maxOps)
		for i := 0; i < steps && !run.failed; i++ {
			run.apply(g.next(run.snap))
		}
		if !run.failed {
			out.Count("histories_completed")
		}
		out.Add("ops_in_histories", len(run.ops))
		run.end()
	}
	_ = io.Discard
}

// c04TieInputs: one digest string of every class (the same list as `tieInputs` in lean/OllamaVerif/Tie/C04.lean).
func c04TieInputs() []string {
	h := strings.Repeat("0123456789abcdef", 4)
	u := strings.ToUpper(h)
	return []string{"sha256:" + h, "sha256-" + h, "sha256:" + u, "sha256-" + u, "sha256:" + h[:63], "sha256:" + h + "0",
		"sha256-" + h + "-partial", "sha256_" + h, "SHA256:" + h, "sha256:" + h[:63] + "g", "sha512:" + h, "sha256" + h}
}

// TestVerifC04Facts EXECUTES GetBlobsPath on every class of digest string and writes the answers to
// $VERIF_OUT/facts.txt; the check turns them into Generated/C04_Source.lean (Tie 1, consumed by `decide`).
func TestVerifC04Facts(t *testing.T) {
	t.Setenv("OLLAMA_MODELS", t.TempDir())
	var sb strings.Builder
	for _, in := range c04TieInputs() {
		res := "ERR"
		if p, err := GetBlobsPath(in); err == nil {
			res = filepath.Base(p)
		}
		sb.WriteString("blobspath\t" + in + "\t" + res + "\n")
	}
	if err := os.WriteFile(filepath.Join(os.Getenv("VERIF_OUT"), "facts.txt"), []byte(sb.String()), 0o644); err != nil {
		t.Fatal(err)
	}
}
