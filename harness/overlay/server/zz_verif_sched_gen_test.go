package server

// Script generator, shrinker and witness corpus of the scheduler driver (see zz_verif_sched_test.go).
//
// The generator is ONLINE: it chooses the next environment event at a quiescent point, among the events that are
// enabled in the real state it can see there (which loads are in flight, which requests have been answered, which
// runner is idle with a keep-alive timer, ...).  All random choices come from the trace's own Rng, and the real
// state at quiescence is a function of the events so far, so a trace is a function of its seed.

import (
	"fmt"
	"os"
	"path/filepath"
	"sort"
	"strconv"
	"strings"
	"testing"
	"time"

	"github.com/ollama/ollama/api"
	"github.com/ollama/ollama/discover"
	"github.com/ollama/ollama/format"
	"github.com/ollama/ollama/llm"
	"github.com/ollama/ollama/zzverif"
)

type schedGen struct {
	rng       *zzverif.Rng
	cfg       schedCfg
	nModels   int
	nReqs     int
	budget    int
	wantDrain bool
	forced    []schedEv
	phase     int // 0 main, 1 drain, 2 end
	drainEvs  int
	bigAdv    int
	tail      int
	stuck     int
	tags      map[string]int
	np        int  // OLLAMA_NUM_PARALLEL (0 = automatic)
	gpumem    int  // 1: GPU 1 has no room for a model
	closeMs   int  // fake ms a Close takes
	blockPing bool // scripted blocking Pings (`ping r 2` / `pingdone`); VERIF_SCHED_NOBLOCKPING=1 switches them off
	routed    int  // share (of 8) of requests that go through Server.scheduleRunner
	mmap      bool // requests set use_mmap explicitly (options classes 2..5)
	spelling  int  // `envspell`
}

func (g *schedGen) spell() int    { return g.spelling }
func (x *schedExtend) spell() int { return x.fixed.spell() }

func newSchedGen(rng *zzverif.Rng) *schedGen {
	g := &schedGen{rng: rng, tags: map[string]int{}}
	g.nModels = []int{1, 1, 1, 2, 2, 2, 2, 3, 3, 3}[rng.Intn(10)]
	g.nReqs = rng.Pick3(2, 5, 8)
	if rng.Chance(1, 20) {
		g.nReqs = 1
	}
	if os.Getenv("VERIF_TIER") != "thorough" {
		// the oracle follows every interleaving of the model: many requests in flight at once make single traces cost
		// tens of seconds there; the quick tier keeps them smaller (the directed openings below may still raise it)
		g.nReqs = min(g.nReqs, 6)
	}
	mr := []int{0, 1, 1, 2, 2, 3}
	if g.nModels == 2 {
		mr = []int{0, 1, 1, 1, 2, 2, 3} // more often fewer slots than models: evictions
	}
	if g.nModels == 3 {
		mr = []int{0, 1, 1, 2, 2, 2, 2, 3} // two slots, three models: evictions with a choice of victims
	}
	g.cfg = schedCfg{
		maxRunners: mr[rng.Intn(len(mr))],
		maxQueue:   []int{1, 2, 2, 8, 8, 8}[rng.Intn(6)],
		defSess:    rng.Intn(3),
		cpu:        rng.Intn(2),
		ngpus:      1,
	}
	if g.cfg.cpu == 0 {
		g.cfg.ngpus = rng.Range(1, 2)
	}
	// VERIF_SCHED_CFG="<maxRunners> <maxQueue> <defaultSession> <cpu> <ngpus>" pins configuration fields (`-` = random)
	if f := strings.Fields(os.Getenv("VERIF_SCHED_CFG")); len(f) == 5 {
		for i, p := range []*int{&g.cfg.maxRunners, &g.cfg.maxQueue, &g.cfg.defSess, &g.cfg.cpu, &g.cfg.ngpus} {
			if v, err := strconv.Atoi(f[i]); err == nil {
				*p = v
			}
		}
		if g.cfg.cpu == 1 {
			g.cfg.ngpus = 1
		}
	}
	g.np = []int{1, 1, 1, 1, 1, 2, 2, 2, 0, 0}[rng.Intn(10)]
	if g.cfg.cpu == 0 && g.cfg.ngpus >= 2 && rng.Chance(1, 2) {
		g.gpumem = 1
	}
	if rng.Chance(1, 3) {
		g.closeMs = 2
	}
	g.blockPing = os.Getenv("VERIF_SCHED_NOBLOCKPING") == ""
	g.mmap = rng.Chance(1, 3)
	g.spelling = []int{0, 0, 0, 0, 1, 1, 2, 3, 4}[rng.Intn(9)]
	g.routed = []int{0, 0, 2, 2, 4, 8}[rng.Intn(6)]
	var open []schedEv
	// directed openings (the random walk reaches these states too rarely); the walk continues after them
	switch rng.Intn(34) {
	case 2: // a fixed parallel factor, a model that does not fit next to the one still loading: it is put back on the queue
		// and must still be started with ITS options (NumCtx x factor), and then be reused by the same request again
		g.cfg.cpu, g.cfg.ngpus, g.gpumem, g.np = 0, 2, 1, []int{2, 2, 4, 0}[rng.Intn(4)]
		if g.cfg.maxRunners == 1 {
			g.cfg.maxRunners = 0
		}
		g.nModels = max(g.nModels, 2)
		g.nReqs = max(g.nReqs, 4)
		k := rng.Intn(2)
		open = []schedEv{{kind: "submit", a: 0, sess: "L"}, {kind: "submit", a: 1, b: k, sess: "L"}, {kind: "loaddone", a: 0, b: 1},
			{kind: "advance", a: 100}, {kind: "loaddone", a: 1, b: 1}, {kind: "submit", a: 1, b: k, sess: g.sess()}}
		g.tags["open_requeued_options"]++
	case 3: // a runner that takes time to stop, unloaded by its keep-alive / completion (not by the pending loop), and a
		// request arriving while it is still shutting down
		g.closeMs = 2
		g.nReqs = max(g.nReqs, 3)
		if rng.Chance(2, 3) {
			g.cfg.maxRunners = 1
		}
		other := 0
		if g.nModels > 1 && rng.Chance(1, 2) {
			other = 1
		}
		if rng.Chance(1, 2) {
			open = []schedEv{{kind: "submit", a: 0, sess: "0"}, {kind: "loaddone", a: 0, b: 1}, {kind: "done", a: 0},
				{kind: "submit", a: other, sess: g.sess()}}
		} else {
			open = []schedEv{{kind: "submit", a: 0, sess: "S"}, {kind: "loaddone", a: 0, b: 1}, {kind: "done", a: 0},
				{kind: "advance", a: 50}, {kind: "submit", a: other, sess: g.sess()}}
		}
		g.tags["open_slow_close"]++
	case 4, 5: // the requester goes away while the health check of the loaded runner is in flight
		if !g.blockPing {
			break
		}
		g.nReqs = max(g.nReqs, 4)
		open = []schedEv{{kind: "submit", a: 0, sess: zzverif.Pick(rng, []string{"S", "L", "-"})}, {kind: "loaddone", a: 0, b: 1}}
		if rng.Chance(1, 2) {
			open = append(open, schedEv{kind: "done", a: 0})
		}
		sub := "submit"
		if rng.Chance(1, 2) {
			sub = "submitr"
		}
		open = append(open, schedEv{kind: "ping", a: 0, b: 2}, schedEv{kind: sub, a: 0, sess: g.sess()},
			schedEv{kind: "done", a: 1}, schedEv{kind: "pingdone", a: 0, b: 1})
		g.tags["open_cancel_during_ping"]++
	case 18, 19: // CPU mode: a model is loaded and the free system memory is near / below what a further model needs: evict first
		g.cfg.cpu, g.cfg.ngpus = 1, 1
		g.cfg.maxRunners = []int{0, 3}[rng.Intn(2)]
		g.nModels = 3
		g.nReqs = max(g.nReqs, 3)
		a, b := rng.Intn(3), 0
		for b = rng.Intn(3); b == a; b = rng.Intn(3) {
		}
		k := rng.Intn(2)
		open = []schedEv{{kind: "submit", a: a, sess: zzverif.Pick(rng, []string{"L", "L", "S", "0"})}, {kind: "loaddone", a: 0, b: 1}}
		if rng.Chance(1, 2) {
			open = append(open, schedEv{kind: "done", a: 0})
		}
		open = append(open, schedEv{kind: "sysmem", a: g.nearSysmem(b, k)}, schedEv{kind: "submit", a: b, b: k, sess: g.sess()})
		g.tags["open_cpu_fit_boundary"]++
	case 20: // a delayed request (>= 2 GPUs, one loading, no room on the other) while the queue is completely full
		g.cfg.cpu, g.cfg.ngpus, g.gpumem = 0, 2, 1
		g.cfg.maxQueue = rng.Range(1, 2)
		if g.cfg.maxRunners == 1 {
			g.cfg.maxRunners = 0
		}
		g.nModels = 3
		g.nReqs = max(g.nReqs, g.cfg.maxQueue+3)
		open = []schedEv{{kind: "submit", a: 0, sess: "L"}, {kind: "submit", a: 1, sess: "L"}}
		for i := 0; i < g.cfg.maxQueue; i++ {
			open = append(open, schedEv{kind: "submit", a: rng.Intn(3), sess: g.sess()})
		}
		open = append(open, schedEv{kind: "advance", a: 100}, schedEv{kind: "loaddone", a: 0, b: 1}, schedEv{kind: "advance", a: 100})
		g.tags["open_delayed_with_full_queue"]++
	case 12, 13: // a reload (12) / an eviction (13) waits for a BUSY runner; an UNRELATED model is unloaded during the wait (the pending
		// loop wakes up, must see that its runner is still there and wait again); then the old request ends
		g.nModels = max(g.nModels, 2)
		g.nReqs = max(g.nReqs, 4)
		g.closeMs = 0
		var how []schedEv // the unrelated unload of model 1's runner (request 1)
		sb := "L"
		switch rng.Intn(3) {
		case 0:
			sb = "S"
			how = []schedEv{{kind: "done", a: 1}, {kind: "advance", a: 60}}
		case 1:
			sb = "0"
			how = []schedEv{{kind: "done", a: 1}}
		default:
			how = []schedEv{{kind: "done", a: 1}, {kind: "unload", a: 1}}
		}
		if rng.Intn(2) == 0 {
			if g.cfg.maxRunners == 1 {
				g.cfg.maxRunners = 2
			}
			// q0 busy on model 0; q1 on model 1; q2 = model 0 with other options: reload waits for q0; model 1 unloads
			open = []schedEv{{kind: "submit", a: 0, sess: "L"}, {kind: "loaddone", a: 0, b: 1}, {kind: "submit", a: 1, sess: sb}, {kind: "loaddone", a: 1, b: 1},
				{kind: "submit", a: 0, b: 1, sess: g.sess()}}
			open = append(open, how...)
			open = append(open, schedEv{kind: "loaddone", a: 2, b: 1}, schedEv{kind: "done", a: 0}, schedEv{kind: "advance", a: 20})
			g.tags["open_reload_wait_unrelated_unload"]++
		} else {
			g.nModels, g.cfg.maxRunners = 3, 2
			// both slots busy, q2 = model 2 waits for the victim; the other runner's request ends with keep_alive 0 / is unloaded
			open = []schedEv{{kind: "submit", a: 0, sess: "L"}, {kind: "loaddone", a: 0, b: 1}, {kind: "submit", a: 1, sess: sb}, {kind: "loaddone", a: 1, b: 1},
				{kind: "submit", a: 2, sess: g.sess()}}
			open = append(open, how...)
			open = append(open, schedEv{kind: "loaddone", a: 2, b: 1}, schedEv{kind: "done", a: 0}, schedEv{kind: "advance", a: 20})
			g.tags["open_evict_wait_unrelated_unload"]++
		}
	case 14: // Close reports an error (the process could not be stopped cleanly): the runner is gone all the same, Close is not
		// called again, and the next request for the model gets a fresh runner
		g.nReqs = max(g.nReqs, 3)
		open = []schedEv{{kind: "submit", a: 0, sess: zzverif.Pick(rng, []string{"S", "0", "L"})}, {kind: "loaddone", a: 0, b: 1}, {kind: "closefail", a: 0, b: 1}}
		switch rng.Intn(3) {
		case 0:
			open = append(open, schedEv{kind: "done", a: 0}, schedEv{kind: "unload", a: 0})
		case 1:
			open = append(open, schedEv{kind: "done", a: 0}, schedEv{kind: "advance", a: 60}, schedEv{kind: "unload", a: 0})
		default: // reload: other options while it is in use
			open = append(open, schedEv{kind: "submit", a: 0, b: 1, sess: g.sess()}, schedEv{kind: "done", a: 0})
		}
		open = append(open, schedEv{kind: "advance", a: 30}, schedEv{kind: "submit", a: 0, sess: g.sess()}, schedEv{kind: "advance", a: 30})
		g.tags["open_close_error"]++
	case 15: // two requests with the same explicit use_mmap value (distinct pointers): one options class, the runner is reused
		g.mmap = true
		g.nReqs = max(g.nReqs, 3)
		c := 2*rng.Range(1, 2) + rng.Intn(2)
		open = []schedEv{{kind: "submit", a: 0, b: c, sess: zzverif.Pick(rng, []string{"L", "L", "-"})}, {kind: "loaddone", a: 0, b: 1}}
		if rng.Chance(1, 2) {
			open = append(open, schedEv{kind: "done", a: 0})
		}
		open = append(open, schedEv{kind: zzverif.Pick(rng, []string{"submit", "submitr"}), a: 0, b: c, sess: g.sess()})
		g.tags["open_same_use_mmap"]++
	case 16, 17: // a configured runner limit below the automatic default, written the way env files write it
		g.spelling = rng.Range(1, 4)
		g.nModels = 3
		g.cfg.maxRunners = rng.Range(1, 2)
		g.nReqs = max(g.nReqs, 4)
		open = []schedEv{{kind: "submit", a: 0, sess: "L"}, {kind: "loaddone", a: 0, b: 1}, {kind: "submit", a: 1, sess: "L"}, {kind: "loaddone", a: 1, b: 1},
			{kind: "submit", a: 2, sess: "L"}, {kind: "loaddone", a: 2, b: 1}}
		g.tags["open_spelled_limit"]++
	case 10, 11: // more idle unloads than the scheduler's channels hold (their capacity is OLLAMA_MAX_QUEUE), none of them awaited
		// by the pending loop (no eviction wait), then a fresh request: it must be served AND cleaned up like the first
		g.cfg.maxQueue = rng.Range(1, 2)
		if g.cfg.maxRunners == 1 && g.nModels > 1 {
			g.cfg.maxRunners = 0
		}
		g.closeMs = 0
		n := g.cfg.maxQueue + 1 + rng.Intn(2)
		g.nReqs = max(g.nReqs, n+2)
		g.wantDrain = true
		for i := 0; i < n; i++ {
			m := rng.Intn(g.nModels)
			switch rng.Intn(3) {
			case 0: // keep_alive = 0: unloaded when the request ends
				open = append(open, schedEv{kind: "submit", a: m, sess: "0"}, schedEv{kind: "loaddone", a: i, b: 1}, schedEv{kind: "done", a: i})
			case 1: // the keep-alive runs out
				open = append(open, schedEv{kind: "submit", a: m, sess: "S"}, schedEv{kind: "loaddone", a: i, b: 1}, schedEv{kind: "done", a: i}, schedEv{kind: "advance", a: 60})
			default: // explicit unload of the idle runner
				open = append(open, schedEv{kind: "submit", a: m, sess: "L"}, schedEv{kind: "loaddone", a: i, b: 1}, schedEv{kind: "done", a: i}, schedEv{kind: "unload", a: m})
			}
		}
		open = append(open, schedEv{kind: "submit", a: rng.Intn(g.nModels), sess: zzverif.Pick(rng, []string{"S", "0", "-"})}, schedEv{kind: "loaddone", a: n, b: 1}, schedEv{kind: "done", a: n})
		g.tags["open_idle_unloads_overflow"]++
	case 8, 9: // other models are loaded and the memory they leave free is near the new model's fit boundary: start next to them
		// only if it really fits, else evict first (case 9: with a busy keep_alive=0 runner and an idle one to choose from)
		g.cfg.cpu, g.cfg.ngpus = 0, 1
		g.cfg.maxRunners = []int{0, 3}[rng.Intn(2)]
		g.nModels = 3
		g.nReqs = max(g.nReqs, 4)
		g.np = []int{1, 1, 1, 2, 0}[rng.Intn(5)]
		g.gpumem = 0
		a, b := rng.Intn(3), 0
		for b = rng.Intn(3); b == a; b = rng.Intn(3) {
		}
		c := 3 - a - b
		k := rng.Intn(2)
		if rng.Intn(2) == 0 {
			open = []schedEv{{kind: "submit", a: a, sess: zzverif.Pick(rng, []string{"L", "L", "S", "0"})}, {kind: "loaddone", a: 0, b: 1}}
			if rng.Chance(1, 2) {
				open = append(open, schedEv{kind: "done", a: 0})
			}
			open = append(open, schedEv{kind: "gpumem", a: g.nearBoundary(b, k)}, schedEv{kind: "submit", a: b, b: k, sess: g.sess()})
			g.tags["open_fit_boundary"]++
		} else {
			open = []schedEv{{kind: "submit", a: a, sess: "0"}, {kind: "loaddone", a: 0, b: 1}, {kind: "submit", a: b, sess: "L"}, {kind: "loaddone", a: 1, b: 1},
				{kind: "done", a: 1}, {kind: "gpumem", a: g.nearBoundary(c, k)}, {kind: "submit", a: c, b: k, sess: g.sess()}}
			g.tags["open_nofit_victim_choice"]++
		}
	case 7: // every slot taken, one runner BUSY with keep_alive=0 (first in the victim order), another idle with a non-zero
		// keep-alive: making room must take the idle one
		g.nModels, g.cfg.maxRunners = 3, 2
		g.nReqs = max(g.nReqs, 4)
		a, b := rng.Intn(3), 0
		for b = rng.Intn(3); b == a; b = rng.Intn(3) {
		}
		open = []schedEv{{kind: "submit", a: a, sess: "0"}, {kind: "loaddone", a: 0, b: 1},
			{kind: "submit", a: b, sess: zzverif.Pick(rng, []string{"S", "L", "L"})}, {kind: "loaddone", a: 1, b: 1}}
		if rng.Chance(1, 2) {
			open[0], open[1], open[2], open[3] = open[2], open[1], open[0], open[3] // the idle one was loaded first
			open = append(open, schedEv{kind: "done", a: 0})
		} else {
			open = append(open, schedEv{kind: "done", a: 1})
		}
		if rng.Chance(1, 3) {
			open = append(open, schedEv{kind: "advance", a: 20})
		}
		open = append(open, schedEv{kind: "submit", a: 3 - a - b, sess: g.sess()})
		g.tags["open_victim_busy_zero_keepalive"]++
	case 6: // the pending loop descheduled between needsReload and useLoadedRunner while the idle runner is unloaded
		if !g.blockPing {
			break
		}
		g.nReqs = max(g.nReqs, 3)
		sub := "submit"
		if rng.Chance(1, 3) {
			sub = "submitr"
		}
		if rng.Chance(1, 2) {
			open = []schedEv{{kind: "submit", a: 0, sess: "S"}, {kind: "loaddone", a: 0, b: 1}, {kind: "done", a: 0}, {kind: "ping", a: 0, b: 3},
				{kind: sub, a: 0, sess: g.sess()}, {kind: "advance", a: 50 + rng.Intn(20)}, {kind: "pingdone", a: 0, b: 1}}
		} else {
			open = []schedEv{{kind: "submit", a: 0, sess: "L"}, {kind: "loaddone", a: 0, b: 1}, {kind: "done", a: 0}, {kind: "ping", a: 0, b: 3},
				{kind: sub, a: 0, sess: g.sess()}, {kind: "unload", a: 0}, {kind: "pingdone", a: 0, b: 1}}
		}
		g.tags["open_window_opening"]++
	case 0: // two slots, three models, one loaded runner idle and one busy: the victim must be the idle one
		g.nModels, g.cfg.maxRunners = 3, 2
		g.nReqs = max(g.nReqs, 4)
		a, b := rng.Intn(3), 0
		for b = rng.Intn(3); b == a; b = rng.Intn(3) {
		}
		sa, sb := zzverif.Pick(rng, []string{"S", "L", "L"}), zzverif.Pick(rng, []string{"S", "L", "L"})
		open = []schedEv{{kind: "submit", a: a, sess: sa}, {kind: "loaddone", a: 0, b: 1},
			{kind: "submit", a: b, sess: sb}, {kind: "loaddone", a: 1, b: 1}, {kind: "done", a: rng.Intn(2)}}
		if rng.Chance(1, 3) {
			open = append(open, schedEv{kind: "advance", a: 20})
		}
		open = append(open, schedEv{kind: "submit", a: 3 - a - b, sess: g.sess()})
		g.tags["open_victim_choice"]++
	case 1: // the F12 window: the keep-alive of the idle runner runs out exactly when (or just before/after) a request arrives
		g.nReqs = max(g.nReqs, 3)
		adv := []int{50, 50, 49, 51, 40}[rng.Intn(5)]
		open = []schedEv{{kind: "submit", a: 0, sess: "S"}, {kind: "loaddone", a: 0, b: 1}, {kind: "done", a: 0},
			{kind: "advance", a: adv}, {kind: "submit", a: 0, b: rng.Intn(2), sess: g.sess()}}
		g.tags["open_expiry_window"]++
	}
	// the environment of the trace comes first
	if g.spelling != 0 {
		g.forced = append(g.forced, schedEv{kind: "envspell", a: g.spelling})
	}
	if g.np != 1 {
		g.forced = append(g.forced, schedEv{kind: "parallel", a: g.np})
	}
	if g.gpumem != 0 {
		g.forced = append(g.forced, schedEv{kind: "gpumem", a: g.gpumem})
	}
	if g.closeMs != 0 {
		g.forced = append(g.forced, schedEv{kind: "closedelay", a: g.closeMs})
	}
	g.forced = append(g.forced, open...)
	g.budget = 6 + 6*g.nReqs + rng.Intn(8) + len(g.forced)
	g.wantDrain = g.wantDrain || rng.Chance(17, 20)
	return g
}

// nearBoundary: a free-memory value (KiB) for GPU 0 around the point at which the real PredictServerFit starts to say that
// model m (options class k) fits: the window below it is as wide as the model's output layer (where "layers and output
// fit, the compute graph does not"), plus the exact boundary and its neighbours
func (g *schedGen) nearBoundary(m, k int) int {
	np := g.np
	if np == 0 {
		np = 1 // automatic: the last factor tried is 1
	}
	b := schedFitBoundary(m, k, np)
	w := schedOutputBytes[m]/1024 + 64
	switch g.rng.Intn(8) {
	case 0:
		return b
	case 1:
		return b - 1
	case 2:
		return b + 1
	case 3:
		return b + g.rng.Intn(w)
	}
	return max(2, b-1-g.rng.Intn(w+w/4))
}

// nearSysmem: a free-system-memory value (KiB) around what model m needs in CPU mode (the real estimate's TotalSize, never
// less than the sum of its tensors), mostly below it (the scheduler must evict first), sometimes just above
func (g *schedGen) nearSysmem(m, class int) int {
	np := g.np
	if np <= 0 {
		np = defaultParallel
	}
	opts := api.DefaultOptions()
	opts.NumCtx = schedNumCtx(class) * np
	cpu := discover.GpuInfo{Library: "cpu"}
	cpu.TotalMemory, cpu.FreeMemory = 32*format.GigaByte, 26*format.GigaByte
	need := llm.EstimateGPULayers([]discover.GpuInfo{cpu}, schedGGML[m], nil, opts, np).TotalSize
	var tensors uint64
	for _, t := range schedGGML[m].Tensors().Items() {
		tensors += t.Size()
	}
	b := int(max(need, tensors)/1024) + 1
	switch g.rng.Intn(6) {
	case 0:
		return b + g.rng.Intn(64)
	case 1:
		return max(1, b-1)
	}
	return max(1, b-1-g.rng.Intn(b))
}

type schedCand struct {
	w   int
	tag string
	evs []schedEv
}

func (g *schedGen) sess() string {
	return []string{"-", "-", "-", "-", "0", "0", "S", "S", "S", "L", "L"}[g.rng.Intn(11)]
}

// submitFor builds a submit for model m: mostly the options of the runner currently loaded for m (reuse), sometimes others
func (g *schedGen) submitFor(r *schedRun, m int, sameOpts bool) schedEv {
	opts := 0
	if id, ok := r.prev.loaded[m]; ok && id >= 0 {
		opts = r.mocks[id].opts
		if !sameOpts {
			if g.mmap && g.rng.Chance(1, 2) {
				opts = opts%2 + 2*((opts/2+1+g.rng.Intn(2))%3) // another use_mmap value
			} else {
				opts ^= 1 // another context size
			}
		}
	} else {
		if g.rng.Chance(1, 4) {
			opts = 1
		}
		if g.mmap {
			opts += 2 * []int{0, 1, 1, 2, 2}[g.rng.Intn(5)]
		}
	}
	kind := "submit"
	if g.rng.Intn(8) < g.routed {
		kind = "submitr"
	}
	// adapter (+6) / projector (+12) variants of the model (GetRunner path only): the two other comparisons of needsReload.
	// A loaded runner's bits are inherited through `opts` (reuse); sometimes flip one (reload), sometimes start with one.
	if kind == "submit" && g.rng.Chance(1, 7) {
		bit := 6 << g.rng.Intn(2)
		if (opts/bit)%2 == 1 {
			opts -= bit
		} else {
			opts += bit
		}
	}
	if kind == "submitr" {
		opts %= 6
	}
	return schedEv{kind: kind, a: m, b: opts, sess: g.sess()}
}

func (g *schedGen) randomSubmit(r *schedRun) schedEv {
	m := g.rng.Intn(g.nModels)
	if len(r.prev.loaded) > 0 && g.rng.Chance(3, 5) {
		var ms []int
		for k := range r.prev.loaded {
			if k < g.nModels {
				ms = append(ms, k)
			}
		}
		sort.Ints(ms)
		if len(ms) > 0 {
			m = zzverif.Pick(g.rng, ms)
		}
	}
	return g.submitFor(r, m, g.rng.Chance(2, 3))
}

func (g *schedGen) next(r *schedRun) (schedEv, bool) {
	for len(g.forced) > 0 {
		e := g.forced[0]
		g.forced = g.forced[1:]
		if r.enabled(e) {
			return e, true
		}
	}
	if g.phase == 0 {
		allDone := len(r.reqs) >= g.nReqs
		for _, q := range r.reqs {
			if !q.done {
				allDone = false
			}
		}
		if len(r.executed) >= g.budget || (allDone && g.rng.Chance(1, 2)) {
			g.phase = 2
			if g.wantDrain {
				g.phase = 1
			}
		}
	}
	switch g.phase {
	case 0:
		return g.mainEvent(r)
	case 1:
		return g.drainEvent(r)
	}
	return schedEv{}, false
}

func (g *schedGen) mainEvent(r *schedRun) (schedEv, bool) {
	var cs []schedCand
	add := func(w int, tag string, evs ...schedEv) {
		if w > 0 {
			cs = append(cs, schedCand{w, tag, evs})
		}
	}
	left := g.nReqs - len(r.reqs)
	now := time.Now()
	if left > 0 {
		add(12, "submit", g.randomSubmit(r))
		// a model that is not loaded while every slot is taken: eviction (victim idle or busy)
		if len(r.prev.loaded) >= r.effMax() || (len(r.prev.loaded) > 0 && g.rng.Chance(1, 4)) {
			var ms []int
			for m := 0; m < g.nModels; m++ {
				if _, ok := r.prev.loaded[m]; !ok {
					ms = append(ms, m)
				}
			}
			if len(ms) > 0 {
				w := 12
				idle, busy := 0, 0
				for _, id := range r.prev.loaded {
					if id >= 0 && !r.mocks[id].waiting {
						if r.prev.refCount[id] == 0 {
							idle++
						} else {
							busy++
						}
					}
				}
				if idle > 0 && busy > 0 && len(r.prev.loaded) >= r.effMax() {
					w = 40 // every slot taken, idle and busy candidates: the victim must be an idle one
					r.stats["q_full_with_idle_and_busy"]++
				}
				add(w, "submit_unloaded_model", g.submitFor(r, zzverif.Pick(g.rng, ms), true))
			}
		}
		// the memory the loaded models leave free is near the fit boundary of a model that is not loaded
		if g.cfg.cpu == 0 && g.cfg.ngpus == 1 && len(r.prev.loaded) > 0 {
			var ms []int
			for m := 0; m < g.nModels; m++ {
				if _, ok := r.prev.loaded[m]; !ok {
					ms = append(ms, m)
				}
			}
			if len(ms) > 0 {
				m, k := zzverif.Pick(g.rng, ms), g.rng.Intn(2)
				kind := "submit"
				if g.rng.Intn(8) < g.routed {
					kind = "submitr"
				}
				add(5, "fit_boundary_submit", schedEv{kind: "gpumem", a: g.nearBoundary(m, k)}, schedEv{kind: kind, a: m, b: k, sess: g.sess()})
			}
		}
		if g.cfg.cpu == 1 && len(r.prev.loaded) > 0 {
			var ms []int
			for m := 0; m < g.nModels; m++ {
				if _, ok := r.prev.loaded[m]; !ok {
					ms = append(ms, m)
				}
			}
			if len(ms) > 0 {
				m, k := zzverif.Pick(g.rng, ms), g.rng.Intn(2)
				add(4, "cpu_fit_boundary_submit", schedEv{kind: "sysmem", a: g.nearSysmem(m, k)}, schedEv{kind: "submit", a: m, b: k, sess: g.sess()})
			}
		}
		if left >= 2 && g.cfg.maxQueue <= 2 {
			var evs []schedEv
			for i := 0; i < min(left, g.cfg.maxQueue+2); i++ {
				evs = append(evs, g.randomSubmit(r))
			}
			add(3, "burst", evs...)
		}
	}
	for _, m := range r.mocks {
		switch {
		case m.waiting:
			ok := 1
			if g.rng.Chance(1, 5) {
				ok = 0
			}
			add(9, "loaddone", schedEv{kind: "loaddone", a: m.id, b: ok})
			if left > 0 {
				// a second request for the model that is loading parks processPending on the runner's refMu
				add(3, "queued_then_loadfail", g.submitFor(r, m.model, true), schedEv{kind: "loaddone", a: m.id, b: 0})
				add(2, "queued_then_loadok", g.submitFor(r, m.model, g.rng.Chance(2, 3)), schedEv{kind: "loaddone", a: m.id, b: 1})
			}
		case m.pinging:
			// processPending sits in needsReload's Ping (refMu held): answer it, or let the requester go away first
			add(10, "pingdone", schedEv{kind: "pingdone", a: m.id, b: 1})
			add(3, "pingdone_fail", schedEv{kind: "pingdone", a: m.id, b: 0})
			for _, q := range r.reqs {
				if !q.done && q.replies() == 0 && q.model == m.model {
					add(8, "cancel_during_ping", schedEv{kind: "done", a: q.id}, schedEv{kind: "pingdone", a: m.id, b: 1})
					add(2, "cancel_during_ping_fail", schedEv{kind: "done", a: q.id}, schedEv{kind: "pingdone", a: m.id, b: 0})
					break
				}
			}
		case m.closing:
			// the runner process is still shutting down: requests that arrive now must wait for it
			if left > 0 {
				add(10, "submit_during_close", g.submitFor(r, m.model, true))
				if g.nModels > 1 {
					add(10, "submit_other_during_close", g.submitFor(r, (m.model+1+g.rng.Intn(g.nModels-1))%g.nModels, true))
				}
			}
			if r.cen.mutex == 0 {
				add(6, "advance_close", schedEv{kind: "advance", a: []int{1, 2, 2, 3}[g.rng.Intn(4)]})
			}
		case m.closes == 0:
			b := 0
			if !m.pingOK {
				b = 1
			}
			add(1, "ping", schedEv{kind: "ping", a: m.id, b: b})
			if !m.closeErr && m.closeCalls == 0 {
				add(1, "closefail", schedEv{kind: "closefail", a: m.id, b: 1})
				if left > 0 {
					add(2, "closefail_unload_submit", schedEv{kind: "closefail", a: m.id, b: 1}, schedEv{kind: "unload", a: m.model}, g.submitFor(r, m.model, true))
				}
			}
			if g.blockPing && !m.pingBlock && left > 0 && r.refs[m.id] != nil && r.prev.refCount[m.id] == 0 && !r.prev.closed[m.id] {
				// open window: the pending loop is descheduled between needsReload ("usable") and useLoadedRunner while the
				// idle runner is unloaded by its keep-alive / an explicit unload; the request must then get a fresh runner
				open := schedEv{kind: "ping", a: m.id, b: 3}
				sub := g.submitFor(r, m.model, true)
				if ref := r.refs[m.id]; ref.expireTimer != nil && ref.expiresAt.After(now) && ref.expiresAt.Sub(now) <= schedShort {
					ms := int(ref.expiresAt.Sub(now)/time.Millisecond) + g.rng.Intn(3)
					add(8, "open_window_expiry", open, sub, schedEv{kind: "advance", a: max(1, ms)}, schedEv{kind: "pingdone", a: m.id, b: 1})
				}
				add(4, "open_window_unload", open, sub, schedEv{kind: "unload", a: m.model}, schedEv{kind: "pingdone", a: m.id, b: 1})
				add(1, "open_window", open, sub)
			}
			if g.blockPing && !m.pingBlock {
				add(2, "ping_block", schedEv{kind: "ping", a: m.id, b: 2})
				if left > 0 {
					add(4, "ping_block_then_submit", schedEv{kind: "ping", a: m.id, b: 2}, g.submitFor(r, m.model, true))
				}
			}
			if left > 0 && m.pingOK {
				add(1, "pingfail_then_submit", schedEv{kind: "ping", a: m.id, b: 0}, g.submitFor(r, m.model, true))
			}
			// the F12 window: the keep-alive of an idle runner runs out and a request for the same model follows at once
			if ref := r.refs[m.id]; left > 0 && ref != nil && ref.expireTimer != nil && ref.expiresAt.After(now) &&
				ref.expiresAt.Sub(now) <= schedShort {
				ms := int(ref.expiresAt.Sub(now) / time.Millisecond)
				adv := []int{ms, ms, 150, max(1, ms-1)}[g.rng.Intn(4)]
				add(14, "expiry_then_submit", schedEv{kind: "advance", a: adv}, g.submitFor(r, m.model, g.rng.Chance(3, 4)))
			}
		}
	}
	for _, q := range r.reqs {
		if q.done {
			continue
		}
		loading := -1
		for _, m := range r.mocks {
			if m.waiting && m.loadReq == q.id {
				loading = m.id
			}
		}
		switch {
		case loading >= 0:
			// the real WaitUntilRunning returns ctx.Err() by itself: script the failure right after the cancel
			if g.rng.Chance(7, 8) {
				add(1, "cancel_loading", schedEv{kind: "done", a: q.id}, schedEv{kind: "loaddone", a: loading, b: 0})
			} else {
				add(1, "cancel_loading_raced", schedEv{kind: "done", a: q.id})
			}
		case q.replies() > 0:
			add(10, "done", schedEv{kind: "done", a: q.id})
			// the last user of a runner leaves: the runner goes idle with its keep-alive timer
			if id := q.lastRunner; left > 0 && q.nRunner > 0 && id >= 0 && r.refs[id] != nil && r.prev.refCount[id] == 1 && !r.prev.closed[id] {
				d := r.refs[id].sessionDuration
				if d == schedShort {
					adv := []int{50, 50, 49, 51, 150}[g.rng.Intn(5)]
					add(4, "done_expiry_submit", schedEv{kind: "done", a: q.id}, schedEv{kind: "advance", a: adv}, g.submitFor(r, q.model, g.rng.Chance(3, 4)))
				}
				if d > 0 && len(r.prev.loaded) >= r.effMax() {
					var ms []int
					for m := 0; m < g.nModels; m++ {
						if _, ok := r.prev.loaded[m]; !ok {
							ms = append(ms, m)
						}
					}
					if len(ms) > 0 {
						w := 5
						if len(r.prev.loaded) >= 2 {
							w = 25 // the other loaded runners stay busy or idle: a choice of victims
						}
						add(w, "done_then_evict_idle", schedEv{kind: "done", a: q.id}, g.submitFor(r, zzverif.Pick(g.rng, ms), true))
					}
				}
			}
		default:
			add(2, "cancel_queued", schedEv{kind: "done", a: q.id})
		}
	}
	{
		m := g.rng.Intn(g.nModels)
		w := 1
		if len(r.prev.loaded) > 0 && g.rng.Chance(7, 8) {
			var ms []int
			for k := range r.prev.loaded {
				ms = append(ms, k)
			}
			sort.Ints(ms)
			m = zzverif.Pick(g.rng, ms)
			w = 3
		}
		u := schedEv{kind: "unload", a: m}
		if strings.Count(r.cen.mutexDesc, "expireRunner") >= 2 {
			w = 0 // two expireRunner calls are parked already: more of them only multiply the orders the oracle has to follow
		}
		if g.rng.Chance(1, 3) {
			add(w, "unload_twice", u, u)
		} else {
			add(w, "unload", u)
		}
	}
	if r.gpumem >= 2 {
		add(2, "gpumem_reset", schedEv{kind: "gpumem", a: 0})
	}
	if r.sysmem > 0 {
		add(2, "sysmem_reset", schedEv{kind: "sysmem", a: 0})
	}
	if r.cen.mutex == 0 {
		ms := []int{20, 20, 20, 150, 150, 4000000}[g.rng.Intn(6)]
		add(5, "advance", schedEv{kind: "advance", a: ms})
	}
	{
		m := g.rng.Intn(g.nModels)
		failing := -1
		for i := 0; i < g.nModels; i++ {
			if r.failStart[i] {
				failing = i
			}
		}
		if failing >= 0 {
			add(3, "failstart_off", schedEv{kind: "failstart", a: failing, b: 1})
		} else if left > 0 {
			add(1, "failstart_on", schedEv{kind: "failstart", a: m, b: 0})
		}
	}
	total := 0
	for _, c := range cs {
		total += c.w
	}
	x := g.rng.Intn(total)
	for _, c := range cs {
		if x < c.w {
			g.tags[c.tag]++
			g.forced = append(g.forced, c.evs[1:]...)
			return c.evs[0], true
		}
		x -= c.w
	}
	return schedEv{}, false
}

// drainEvent: release every load, complete every answered request, let the helpers settle, cancel what is still
// waiting, pass every keep-alive; repeated until nothing is left to do.  The monitors of the end state apply then.
func (g *schedGen) drainEvent(r *schedRun) (schedEv, bool) {
	g.drainEvs++
	if g.drainEvs > 80 || g.stuck > 2 {
		g.phase = 2
		return schedEv{}, false
	}
	for _, m := range r.mocks {
		if m.pinging {
			return schedEv{kind: "pingdone", a: m.id, b: 1}, true
		}
	}
	for _, m := range r.mocks {
		if m.waiting {
			ok := 1
			if g.rng.Chance(1, 6) {
				ok = 0
			}
			return schedEv{kind: "loaddone", a: m.id, b: ok}, true
		}
	}
	for _, q := range r.reqs {
		if !q.done && q.replies() > 0 {
			return schedEv{kind: "done", a: q.id}, true
		}
	}
	adv := func(ms int) (schedEv, bool) {
		if r.cen.mutex != 0 {
			g.stuck = 3 // a goroutine is parked on a mutex for good: fake time cannot move
			g.phase = 2
			return schedEv{}, false
		}
		return schedEv{kind: "advance", a: ms}, true
	}
	if time.Since(r.lastAct) < schedSettle {
		return adv(150)
	}
	for _, q := range r.reqs {
		if !q.done {
			return schedEv{kind: "done", a: q.id}, true
		}
	}
	if time.Since(r.lastAct) <= schedLong+time.Second {
		g.bigAdv++
		if g.bigAdv > 3 {
			g.phase = 2
			return schedEv{}, false
		}
		return adv(4000000)
	}
	if g.tail < 2 {
		g.tail++
		return adv(20)
	}
	g.phase = 2
	return schedEv{}, false
}

func (g *schedGen) finalStats(r *schedRun) {
	for k, v := range g.tags {
		r.stats["gen_"+k] += v
	}
	r.stats[fmt.Sprintf("cfg_maxrunners_%d", g.cfg.maxRunners)]++
	r.stats[fmt.Sprintf("cfg_maxqueue_%d", g.cfg.maxQueue)]++
	r.stats[fmt.Sprintf("cfg_defsess_%d", g.cfg.defSess)]++
	r.stats[fmt.Sprintf("cfg_models_%d", g.nModels)]++
	if g.cfg.cpu == 1 {
		r.stats["cfg_cpu"]++
	} else {
		r.stats[fmt.Sprintf("cfg_metal_%d", g.cfg.ngpus)]++
	}
	if g.wantDrain {
		r.stats["traces_with_drain_suffix"]++
	}
	r.stats[fmt.Sprintf("cfg_parallel_%d", g.np)]++
	if g.gpumem != 0 {
		r.stats["cfg_gpu1_small"]++
	}
	if g.closeMs != 0 {
		r.stats["cfg_slow_close"]++
	}
	if r.stats["end_state_checked"] > 0 {
		r.stats["traces_end_state_checked"]++
	}
}

// ---------------------------------------------------------------------------------------------
// VERIF_EXTEND=1 (with VERIF_REPLAY): directed search.  After the last event of a replayed script the driver goes on by
// itself: drain (finish every request, complete every load, answer parked pings, pass every keep-alive), then probe
// twice per model (a request with a short keep-alive, its load completed, two settle steps, finished, its keep-alive
// passed), then drain again, so that a fault that is latent at the end of the script (a loop parked for good, a count that
// never returns to 0, a runner that is never shut down) shows in the end-of-trace monitors.  The case recorded is the
// extended script.

type schedExtend struct {
	fixed  *schedFixed
	g      *schedGen
	stage  int // 0 script, 1 drain, 2 probes, 3 final drain, 4 end
	probe  int // 0 .. 2*schedNModels-1
	step   int
	probeQ int
	loads  int
}

func newSchedExtend(evs []schedEv, script string) *schedExtend {
	h := uint64(1469598103934665603)
	for i := 0; i < len(script); i++ {
		h = (h ^ uint64(script[i])) * 1099511628211
	}
	return &schedExtend{fixed: &schedFixed{evs: evs}, g: &schedGen{rng: zzverif.NewRng(h), tags: map[string]int{}, nModels: schedNModels, wantDrain: true}}
}

func (x *schedExtend) drain(r *schedRun) (schedEv, bool) {
	if x.g.phase != 1 {
		x.g.phase, x.g.drainEvs, x.g.bigAdv, x.g.tail, x.g.stuck = 1, 0, 0, 0, 0
	}
	e, ok := x.g.drainEvent(r)
	if !ok {
		x.g.phase = 0
	}
	return e, ok
}

func (x *schedExtend) next(r *schedRun) (schedEv, bool) {
	for {
		switch x.stage {
		case 0:
			if e, ok := x.fixed.next(r); ok {
				return e, true
			}
			x.stage = 1
			r.stats["extended_scripts"]++
		case 1, 3:
			if e, ok := x.drain(r); ok {
				return e, true
			}
			x.stage++
		case 2:
			if x.probe >= 2*schedNModels || len(r.reqs) >= schedMaxReqs || r.cen.mutex > 0 {
				x.stage = 3
				continue
			}
			x.step++
			switch {
			case x.step == 1:
				x.probeQ, x.loads = len(r.reqs), 0
				return schedEv{kind: "submit", a: x.probe % schedNModels, sess: "S"}, true
			case x.step == 2:
				// complete every load, answer every parked ping (a probe may have to wait for others)
				for _, m := range r.mocks {
					if m.pinging && x.loads < 6 {
						x.loads++
						x.step--
						return schedEv{kind: "pingdone", a: m.id, b: 1}, true
					}
					if m.waiting && x.loads < 6 {
						x.loads++
						x.step--
						return schedEv{kind: "loaddone", a: m.id, b: 1}, true
					}
				}
			case x.step == 3 || x.step == 4:
				return schedEv{kind: "advance", a: 150}, true // an unanswered probe shows here (c02-unanswered)
			case x.step == 5:
				if x.probeQ < len(r.reqs) && !r.reqs[x.probeQ].done {
					return schedEv{kind: "done", a: x.probeQ}, true
				}
			case x.step == 6:
				return schedEv{kind: "advance", a: 150}, true
			default:
				x.probe++
				x.step = 0
			}
		default:
			return schedEv{}, false
		}
	}
}

// ---------------------------------------------------------------------------------------------
// shrinking (VERIF_SHRINK=1): greedy chunk removal, re-running every candidate on the real scheduler

func schedHasKind(rc schedRec, kind string) bool {
	for _, l := range rc.l2 {
		if l.kind == kind {
			return true
		}
	}
	return false
}

// schedRemove drops events [i,j) and renumbers the request ids of the remaining `done` events
func schedRemove(evs []schedEv, i, j int) []schedEv {
	removed := map[int]bool{} // request ids whose submit is dropped
	q := 0
	for k, e := range evs {
		if e.kind == "submit" || e.kind == "submitr" {
			if k >= i && k < j {
				removed[q] = true
			}
			q++
		}
	}
	var out []schedEv
	for k, e := range evs {
		if k >= i && k < j {
			continue
		}
		if e.kind == "done" {
			if removed[e.a] {
				continue
			}
			shift := 0
			for x := range removed {
				if x < e.a {
					shift++
				}
			}
			e.a -= shift
		}
		out = append(out, e)
	}
	return out
}

func schedShrink(t *testing.T, dir, kind, script string) string {
	cfg, evs, err := schedParse(script)
	if err != nil {
		return script
	}
	for round := 0; round < 200; round++ {
		var jobs []schedJob
		for size := len(evs) / 2; size >= 1; size /= 2 {
			for i := 0; i+size <= len(evs); i += max(1, size/2) {
				jobs = append(jobs, schedJob{script: schedScript(cfg, schedRemove(evs, i, i+size))})
			}
		}
		// also try the simplest configurations
		for _, c := range []schedCfg{{cfg.maxRunners, 8, cfg.defSess, 1, 1}, {cfg.maxRunners, cfg.maxQueue, cfg.defSess, 1, 1}, {0, cfg.maxQueue, cfg.defSess, cfg.cpu, cfg.ngpus}} {
			if c != cfg {
				jobs = append(jobs, schedJob{script: schedScript(c, evs)})
			}
		}
		if len(jobs) == 0 {
			break
		}
		recs := schedRunJobs(t, "TestVerifSched", dir, jobs)
		best := -1
		bestLen := len(evs)
		for i, rc := range recs {
			if !schedHasKind(rc, kind) {
				continue
			}
			c2, e2, err := schedParse(rc.script)
			if err != nil {
				continue
			}
			if len(e2) < bestLen || (len(e2) == bestLen && best < 0 && c2 != cfg) {
				best, bestLen = i, len(e2)
			}
		}
		if best < 0 {
			break
		}
		cfg, evs, _ = schedParse(recs[best].script)
	}
	return schedScript(cfg, evs)
}

func schedShrinkAll(t *testing.T, dir string, recs []schedRec) {
	best := map[string]string{}
	for _, rc := range recs {
		for _, l := range rc.l2 {
			if cur, ok := best[l.kind]; !ok || strings.Count(rc.script, "|") < strings.Count(cur, "|") {
				best[l.kind] = rc.script
			}
		}
	}
	var kinds []string
	for k := range best {
		kinds = append(kinds, k)
	}
	sort.Strings(kinds)
	var sb strings.Builder
	for _, k := range kinds {
		m := schedShrink(t, dir, k, best[k])
		fmt.Fprintf(&sb, "%s\t%s\n", k, m)
		t.Logf("shrunk %s: %s", k, m)
	}
	os.WriteFile(filepath.Join(zzverif.OutDir(), "shrunk.txt"), []byte(sb.String()), 0o644)
}

// ---------------------------------------------------------------------------------------------
// witness corpus (F12): hand-written scripts, found by experiment on the pinned tree

// Both scripts use only the natural duplicate-expired path (no explicit unload, no yield point):
//
//	two clients ask for model 0; the load fails (`loaddone 0 0`, e.g. the first client went away); the load goroutine
//	sends expired(r0) and releases refMu; processPending, parked in needsReload for the second request, takes the lock
//	first and hands the FAILED runner r0 to request 1 (refCount 1); the expired handler finds refCount > 0 and starts the
//	10 ms re-queue loop.  A request with other options makes r0 expire as soon as request 1 is done (finish event ->
//	expired -> unload, runner r1 is loaded for the same path), and 10 ms later the re-queuer delivers a SECOND expired
//	event for r0, whose handler runs `delete(s.loaded, r0.modelPath)` and thereby removes the NEW runner r1 from
//	`loaded` while r1 is live and in use.  The next request loads r2: two live runners for one model; finish events are
//	keyed by path, so `done` of r1's user decrements r2: r2 is closed under its user (witness 1) or its count wraps
//	and neither r1 nor r2 is ever closed (witness 2).
//
// Expected on the pinned tree (without the guard fixes, e.g. /repo commit 2258da28d): the L2 kinds listed; expected
// with the delete-by-identity guard (914ee336e): none.
// (`grant_after_unload` needs a yield between needsReload and useLoadedRunner inside processPending; there is no
// event-level reproduction of it with cpu/metal GPUs, so it has no script here.)
var schedWitnesses = []struct{ name, script string }{
	{"f12_dupexpired_closed_in_use", // c11-two-per-model, c01-closed-in-use
		"sched-trace 0 8 2 1 1 | submit 0 0 L | submit 0 0 L | loaddone 0 0 | done 1 | submit 0 1 0 | submit 0 0 S | loaddone 1 1 | advance 20 | loaddone 2 1 | done 2 | advance 150"},
	{"f12_dupexpired_not_drained", // c11-two-per-model, c02-not-drained (refCount of r2 wraps: R=2:W)
		"sched-trace 0 8 2 1 1 | submit 0 0 - | submit 0 0 - | done 0 | loaddone 0 0 | submit 0 1 - | done 1 | submit 0 0 - | loaddone 1 1 | advance 20 | loaddone 2 1 | done 2 | advance 20 | done 3 | advance 4000000 | advance 20"},
}

func TestVerifSchedWitness(t *testing.T) { schedCorpus(t, "TestVerifSchedWitness", schedWitnesses) }

// Scripts that wedge the scheduler independently of F12 (they still do with the two guard fixes in): found by the random
// walk, shrunk by VERIF_SHRINK.  Not part of TestVerifSchedWitness (which is silent on a repaired tree).
//
//	lockorder_expireRunner: expireRunner takes loadedMu then refMu, processCompleted's expired case refMu then loadedMu.
//	  Two explicit unloads (one parked behind a loading runner) and an eviction of the idle runner when the load ends:
//	  processCompleted holds r0.refMu and waits for loadedMu, the second expireRunner holds loadedMu and waits for r0.refMu.
//	lockorder_updateFreeSpace: same inversion with updateFreeSpace (loadedMu, then every runner's refMu); no unloads at
//	  all: 2 metal GPUs, a failed reload whose expired event is being handled while a third model is fitted.
//	queue_capacity: expiredCh has capacity OLLAMA_MAX_QUEUE; expireRunner sends on it holding loadedMu and refMu while
//	  its only consumer needs refMu.
var schedDeadlocks = []struct{ name, script string }{
	{"lockorder_expireRunner", // c02-deadlock-lockorder
		"sched-trace 2 8 2 1 1 | submit 0 0 S | loaddone 0 1 | submit 2 0 S | loaddone 1 1 | done 1 | submit 1 0 0 | submit 2 0 0 | done 0 | unload 1 | unload 0 | loaddone 2 1"},
	{"lockorder_updateFreeSpace", // c02-deadlock-lockorder
		"sched-trace 0 8 1 0 2 | submit 0 0 - | submit 1 1 - | loaddone 0 1 | done 0 | loaddone 1 1 | done 1 | submit 1 0 - | submit 0 1 - | submit 2 0 L | loaddone 2 0 | loaddone 3 1"},
	{"queue_capacity", // c02-deadlock-queue
		"sched-trace 0 1 1 1 1 | submit 0 0 L | unload 0 | unload 0 | loaddone 0 0"},
}

func TestVerifSchedDeadlockCorpus(t *testing.T) {
	schedCorpus(t, "TestVerifSchedDeadlockCorpus", schedDeadlocks)
}

func schedCorpus(t *testing.T, testName string, corpus []struct{ name, script string }) {
	if schedIsChild() {
		schedChild(t)
		return
	}
	dir := t.TempDir()
	t.Setenv("OLLAMA_MODELS", dir)
	if _, err := schedModels(dir, true); err != nil {
		t.Fatal(err)
	}
	// own output directory: TestVerifSched (same VERIF_OUT, runs later) truncates ops/impl/l2/stats
	sub := filepath.Join(zzverif.OutDir(), testName)
	if err := os.MkdirAll(sub, 0o755); err != nil {
		t.Fatal(err)
	}
	t.Setenv("VERIF_OUT", sub)
	out := zzverif.NewOut()
	defer out.Close()
	out.Add("corpus_scripts_"+testName, len(corpus))
	var jobs []schedJob
	for _, w := range corpus {
		jobs = append(jobs, schedJob{script: w.script})
	}
	recs := schedRunJobs(t, testName, dir, jobs)
	schedEmit(out, recs)
	for i, rc := range recs {
		var kinds []string
		for _, l := range rc.l2 {
			kinds = append(kinds, l.kind)
			out.Count("witness_" + corpus[i].name + "_" + l.kind)
		}
		t.Logf("%s: L2 %v\n  %s", corpus[i].name, kinds, rc.line)
	}
}
