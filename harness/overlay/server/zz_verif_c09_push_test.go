package server

// Verification driver for C09, legacy push path (PushModel → uploadBlob → blobUpload.Prepare/Run).
// Added to the package at build time with `go test -overlay`; never committed to /repo.
//
// http.DefaultTransport is replaced by an in-memory registry that answers every request from a
// per-layer script and logs the requests in the order received.  Each case runs in a
// testing/synctest bubble (the retry sleeps of 1..32 s and the 60 ms progress ticker are fake time).

import (
	"context"
	"crypto/sha256"
	"encoding/json"
	"fmt"
	"io"
	"net/http"
	"os"
	"path/filepath"
	"strconv"
	"strings"
	"sync"
	"testing"
	"testing/synctest"

	"github.com/ollama/ollama/api"
	"github.com/ollama/ollama/zzverif"
)

type c09LegLayer struct {
	head   int // 0 present, 1 absent, 2 error
	post   bool
	patch  []bool
	commit []bool
}

type c09LegReg struct {
	mu      sync.Mutex
	layers  []c09LegLayer
	index   map[string]int // digest -> layer
	cur     int
	pi, ci  []int
	manOK   bool
	log     []string
	unknown []string
}

func c09LegResp(req *http.Request, status int, hdr map[string]string) *http.Response {
	h := http.Header{}
	for k, v := range hdr {
		h.Set(k, v)
	}
	return &http.Response{StatusCode: status, Status: strconv.Itoa(status) + " scripted", Header: h,
		Body: io.NopCloser(strings.NewReader("scripted")), Request: req, ProtoMajor: 1, ProtoMinor: 1, ContentLength: -1}
}

func c09pm(b bool) string {
	if b {
		return "+"
	}
	return "-"
}

func (r *c09LegReg) RoundTrip(req *http.Request) (*http.Response, error) {
	if req.Body != nil {
		io.Copy(io.Discard, req.Body)
		req.Body.Close()
	}
	r.mu.Lock()
	defer r.mu.Unlock()
	p := req.URL.Path
	switch {
	case req.Method == "HEAD" && strings.Contains(p, "/blobs/"):
		d := p[strings.LastIndex(p, "/")+1:]
		i, ok := r.index[d]
		if !ok {
			r.unknown = append(r.unknown, "HEAD "+p)
			return c09LegResp(req, 400, nil), nil
		}
		r.cur = i
		r.log = append(r.log, fmt.Sprintf("H%d:%d", i, r.layers[i].head))
		return c09LegResp(req, []int{200, 404, 500}[r.layers[i].head], nil), nil
	case req.Method == "POST" && strings.HasSuffix(p, "/blobs/uploads/"):
		i := r.cur
		r.log = append(r.log, fmt.Sprintf("P%d%s", i, c09pm(r.layers[i].post)))
		if !r.layers[i].post {
			return c09LegResp(req, 500, nil), nil
		}
		return c09LegResp(req, 202, map[string]string{"Location": fmt.Sprintf("http://example.com/upload/%d", i)}), nil
	case req.Method == "PATCH" && strings.HasPrefix(p, "/upload/"):
		i, _ := strconv.Atoi(strings.TrimPrefix(p, "/upload/"))
		ok := true
		if r.pi[i] < len(r.layers[i].patch) {
			ok = r.layers[i].patch[r.pi[i]]
		}
		r.pi[i]++
		r.log = append(r.log, fmt.Sprintf("A%d%s", i, c09pm(ok)))
		if !ok {
			return c09LegResp(req, 500, nil), nil
		}
		return c09LegResp(req, 202, map[string]string{"Location": fmt.Sprintf("http://example.com/upload/%d", i)}), nil
	case req.Method == "PUT" && strings.HasPrefix(p, "/upload/"):
		i, _ := strconv.Atoi(strings.TrimPrefix(p, "/upload/"))
		ok := true
		if r.ci[i] < len(r.layers[i].commit) {
			ok = r.layers[i].commit[r.ci[i]]
		}
		r.ci[i]++
		r.log = append(r.log, fmt.Sprintf("C%d%s", i, c09pm(ok)))
		if !ok {
			return c09LegResp(req, 500, nil), nil
		}
		return c09LegResp(req, 201, nil), nil
	case req.Method == "PUT" && strings.Contains(p, "/manifests/"):
		r.log = append(r.log, "M")
		if r.manOK {
			return c09LegResp(req, 200, nil), nil
		}
		return c09LegResp(req, 500, nil), nil
	}
	r.unknown = append(r.unknown, req.Method+" "+req.URL.String())
	return c09LegResp(req, 400, nil), nil
}

func c09Bools(r *zzverif.Rng, failing bool) []bool {
	var out []bool
	switch {
	case failing && r.Chance(1, 2): // exhausts maxRetries
		for i := 0; i < maxRetries; i++ {
			out = append(out, false)
		}
	case failing:
		for i := r.Intn(maxRetries); i > 0; i-- {
			out = append(out, false)
		}
		out = append(out, true)
	case r.Chance(1, 3):
		out = append(out, true)
	}
	return out
}

func c09ShowBools(bs []bool) string {
	s := strconv.Itoa(len(bs))
	for _, b := range bs {
		if b {
			s += " 1"
		} else {
			s += " 0"
		}
	}
	return s
}

func c09LegacyCase(t *testing.T, out *zzverif.Out, rng *zzverif.Rng, dir, tag string) {
	t.Setenv("OLLAMA_MODELS", dir)
	n := rng.Range(1, 4)
	reg := &c09LegReg{index: map[string]int{}, manOK: !rng.Chance(1, 8)}
	var m Manifest
	m.SchemaVersion = 2
	faulty := rng.Chance(1, 2)
	hasCfg := rng.Chance(1, 3)
	os.MkdirAll(filepath.Join(dir, "blobs"), 0o755)
	for i := 0; i < n; i++ {
		data := append([]byte(fmt.Sprintf("legacy-%d-", i)), rng.Bytes(rng.Range(1, 30))...)
		sum := sha256.Sum256(data)
		dig := fmt.Sprintf("sha256:%x", sum)
		if err := os.WriteFile(filepath.Join(dir, "blobs", fmt.Sprintf("sha256-%x", sum)), data, 0o644); err != nil {
			t.Fatal(err)
		}
		l := c09LegLayer{head: zzverif.Pick(rng, []int{0, 1, 1}), post: true}
		if faulty {
			switch rng.Intn(8) {
			case 0:
				l.head = 2
			case 1:
				l.post = false
			case 2, 3:
				l.patch = c09Bools(rng, true)
			case 4, 5:
				l.commit = c09Bools(rng, true)
			}
		}
		if l.patch == nil {
			l.patch = c09Bools(rng, false)
		}
		if l.commit == nil {
			l.commit = c09Bools(rng, false)
		}
		reg.layers = append(reg.layers, l)
		reg.index[dig] = i
		layer := Layer{MediaType: "application/vnd.ollama.image.model", Digest: dig, Size: int64(len(data))}
		if hasCfg && i == n-1 {
			m.Config = layer
		} else {
			m.Layers = append(m.Layers, layer)
		}
		out.Count(fmt.Sprintf("legacy_head_%d", l.head))
	}
	reg.pi, reg.ci = make([]int, n), make([]int, n)
	mp := ParseModelPath("example.com/library/push:latest")
	fp, err := mp.GetManifestPath()
	if err != nil {
		t.Fatal(err)
	}
	os.MkdirAll(filepath.Dir(fp), 0o755)
	mdata, _ := json.Marshal(&m)
	if err := os.WriteFile(fp, mdata, 0o644); err != nil {
		t.Fatal(err)
	}

	old := http.DefaultTransport
	http.DefaultTransport = reg
	defer func() { http.DefaultTransport = old }()
	var perr error
	synctest.Test(t, func(t *testing.T) {
		perr = PushModel(context.Background(), "example.com/library/push:latest", &registryOptions{Insecure: true},
			func(api.ProgressResponse) {})
		synctest.Wait()
	})
	res := "ok"
	if perr != nil {
		res = "err"
	}
	out.Count("legacy_result_" + res)
	for _, u := range reg.unknown {
		out.L2("driver-unexpected-request", tag, u)
	}
	var sb strings.Builder
	fmt.Fprintf(&sb, "legacy %d", n)
	for _, l := range reg.layers {
		post := 0
		if l.post {
			post = 1
		}
		fmt.Fprintf(&sb, " %d %d %s %s", l.head, post, c09ShowBools(l.patch), c09ShowBools(l.commit))
	}
	mok := 0
	if reg.manOK {
		mok = 1
	}
	fmt.Fprintf(&sb, " %d", mok)
	op := sb.String()
	out.Case(op, fmt.Sprintf("%s res=%s", strings.Join(reg.log, " "), res))
	if f, err := os.OpenFile(filepath.Join(zzverif.OutDir(), "tags.txt"), os.O_APPEND|os.O_CREATE|os.O_WRONLY, 0o644); err == nil {
		fmt.Fprintln(f, tag) // line-aligned with ops.txt: lets the check replay an L1 disagreement
		f.Close()
	}

	// L2 on the request log, independent of the model
	caseLine := tag + " :: " + op
	ls := " log=" + strings.Join(reg.log, " ")
	mi := -1
	for i, e := range reg.log {
		if e == "M" {
			if mi >= 0 {
				out.L2("push-manifest-twice", caseLine, "push-legacy"+ls)
			}
			mi = i
		}
	}
	if mi >= 0 && mi != len(reg.log)-1 {
		out.L2("push-manifest-not-last", caseLine, "push-legacy"+ls)
	}
	if mi >= 0 {
		for i := 0; i < n; i++ {
			acc := false
			for _, e := range reg.log[:mi] {
				if e == fmt.Sprintf("H%d:0", i) || e == fmt.Sprintf("C%d+", i) {
					acc = true
				}
			}
			if !acc {
				out.L2("push-manifest-before-layer-accepted", caseLine, fmt.Sprintf("push-legacy layer=%d%s", i, ls))
			}
		}
	}
	if perr == nil && mi < 0 {
		out.L2("push-success-without-manifest", caseLine, "push-legacy"+ls)
	}
}

func TestVerifC09Legacy(t *testing.T) {
	out := zzverif.NewOut()
	defer out.Close()
	seed := zzverif.Seed()
	n := zzverif.EnvInt("VERIF_N", 100)
	ridx := -1
	if p := os.Getenv("VERIF_REPLAY"); p != "" {
		raw, err := os.ReadFile(p)
		if err != nil {
			t.Fatal(err)
		}
		var k string
		if _, err := fmt.Sscanf(string(raw), "seed=%d kind=%s idx=%d", &seed, &k, &ridx); err != nil || k != "legacy" {
			t.Fatalf("VERIF_REPLAY: not a legacy case header: %q", raw)
		}
	}
	root := zzverif.NewRng(seed).Fork()
	base := t.TempDir()
	for i := 0; i < n; i++ {
		rng := root.Fork()
		if ridx >= 0 && i != ridx {
			continue
		}
		dir := filepath.Join(base, fmt.Sprintf("l%d", i))
		c09LegacyCase(t, out, rng, dir, fmt.Sprintf("seed=%d kind=legacy idx=%d", seed, i))
		os.RemoveAll(dir)
		out.Count("cases")
		out.Count("legacy_cases")
	}
}
