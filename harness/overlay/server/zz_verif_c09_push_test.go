package server

// Verification driver for C09, legacy push path (PushModel → uploadBlob → blobUpload.Prepare/Run).
// Added to the package at build time with `go test -overlay`; never committed to /repo.
//
// http.DefaultTransport is replaced by an in-memory registry that answers every physical request
// from a per-layer script — any status (1xx, 2xx, 3xx with or without Location, 4xx, 5xx), so that
// net/http's redirect handling (per method and body kind) is part of what is observed — and logs
// the requests in the order received.  Each case runs in a testing/synctest bubble (the retry
// sleeps of 1..32 s and the 60 ms progress ticker are fake time).
//
// Not scripted (documented in notes/C09.md): 401 (token dance), a final 201 to the POST ("mounted":
// blobUpload.Run then blocks for ever on a nil channel), a final 307 to a PATCH try (the
// redirected-upload path; a 307 without Location followed by a good retry blocks for ever on the
// one-slot nextURL channel).

import (
	"context"
	"crypto/sha256"
	"encoding/json"
	"fmt"
	"io"
	"net/http"
	"os"
	"path/filepath"
	"strconv"
	"strings"
	"sync"
	"testing"
	"testing/synctest"
	"time"

	"github.com/ollama/ollama/api"
	"github.com/ollama/ollama/zzverif"
)

type c09LResp struct {
	status int
	loc    bool
}

type c09LegLayer struct {
	head, post    []c09LResp
	patch, commit [][]c09LResp
}

type c09LegEvent struct {
	layer  int // -1 manifest
	kind   string
	method string
	status int
}

func (e c09LegEvent) String() string {
	if e.layer < 0 {
		return fmt.Sprintf("M:%s:%d", e.method, e.status)
	}
	return fmt.Sprintf("L%d%s:%s:%d", e.layer, e.kind, e.method, e.status)
}

type c09LegReg struct {
	mu       sync.Mutex
	layers   []c09LegLayer
	man      []c09LResp
	index    map[string]int // digest -> layer
	cur      int
	hi, pi   []int // next answer of the HEAD / POST exchange
	at, ct   []int // current PATCH / commit try (-1: none yet)
	ai, ci   []int // next answer within the current try
	mi       int
	events   []c09LegEvent
	unknown  []string
	repoPath string
}

func c09LegResp(req *http.Request, status int, hdr map[string]string) *http.Response {
	h := http.Header{}
	for k, v := range hdr {
		h.Set(k, v)
	}
	return &http.Response{StatusCode: status, Status: strconv.Itoa(status) + " scripted", Header: h,
		Body: io.NopCloser(strings.NewReader("scripted")), Request: req, ProtoMajor: 1, ProtoMinor: 1, ContentLength: -1}
}

func c09LNext(script []c09LResp, i *int) c09LResp {
	r := c09LResp{200, false}
	if *i < len(script) {
		r = script[*i]
	}
	*i++
	return r
}

func (r *c09LegReg) RoundTrip(req *http.Request) (*http.Response, error) {
	if req.Body != nil {
		io.Copy(io.Discard, req.Body)
		req.Body.Close()
	}
	if req.URL.Host == "" {
		// the code built this URL from a missing Location header; net/http's transport refuses it
		return nil, fmt.Errorf("http: no Host in request URL")
	}
	r.mu.Lock()
	defer r.mu.Unlock()
	p := req.URL.Path
	from := req.URL.Query().Get("from")
	var a c09LResp
	layer, kind, next := -2, "", ""
	switch {
	case strings.Contains(p, "/manifests/"):
		layer = -1
		a = c09LNext(r.man, &r.mi)
		next = fmt.Sprintf("http://example.com%s?hop=%d", p, r.mi)
	case strings.HasSuffix(p, "/blobs/uploads/"): // the POST exchange (first request)
		layer, kind = r.cur, "p"
	case strings.Contains(p, "/blobs/sha256:"): // the HEAD exchange
		d := p[strings.LastIndex(p, "/")+1:]
		i, ok := r.index[d]
		if ok {
			layer, kind = i, "h"
			r.cur = i
		}
	case strings.HasPrefix(p, "/upload/"):
		fmt.Sscanf(p, "/upload/%d", &layer)
		if req.Method == "PATCH" { // a fresh PATCH try
			kind = "a"
			r.at[layer]++
			r.ai[layer] = 0
		} else { // a followed redirect of the POST exchange
			kind = "p"
		}
	case strings.HasPrefix(p, "/commit/"):
		fmt.Sscanf(p, "/commit/%d", &layer)
		switch {
		case from == "a" && req.Method == "PUT": // a fresh commit try
			kind = "c"
			r.ct[layer]++
			r.ci[layer] = 0
		case from == "a": // a followed redirect of a PATCH try
			kind = "a"
		default:
			kind = "c"
		}
	}
	if layer == -2 || layer >= len(r.layers) {
		r.unknown = append(r.unknown, req.Method+" "+req.URL.String())
		return c09LegResp(req, 400, nil), nil
	}
	if layer >= 0 {
		l := r.layers[layer]
		switch kind {
		case "h":
			a = c09LNext(l.head, &r.hi[layer])
			next = fmt.Sprintf("http://example.com%s?from=h&hop=%d", p, r.hi[layer])
		case "p":
			a = c09LNext(l.post, &r.pi[layer])
			next = fmt.Sprintf("http://example.com/upload/%d?from=p&hop=%d", layer, r.pi[layer])
		case "a":
			var s []c09LResp
			if r.at[layer] < len(l.patch) {
				s = l.patch[r.at[layer]]
			}
			a = c09LNext(s, &r.ai[layer])
			next = fmt.Sprintf("http://example.com/commit/%d?from=a&hop=%d", layer, r.ai[layer])
		case "c":
			var s []c09LResp
			if r.ct[layer] < len(l.commit) {
				s = l.commit[r.ct[layer]]
			}
			a = c09LNext(s, &r.ci[layer])
			next = fmt.Sprintf("http://example.com/commit/%d?from=c&hop=%d", layer, r.ci[layer])
		}
	}
	r.events = append(r.events, c09LegEvent{layer, kind, req.Method, a.status})
	if a.status == 0 {
		return nil, fmt.Errorf("scripted transport error")
	}
	hdr := map[string]string{}
	if a.loc {
		hdr["Location"] = next
	}
	return c09LegResp(req, a.status, hdr), nil
}

// every status but 401; per request kind further exclusions below.  Status 0 is NO answer: the transport fails.
var c09LStatuses = []int{0, 100, 101, 199, 200, 201, 202, 204, 206, 300, 301, 302, 303, 304, 305, 307, 308, 399, 400, 403, 404, 409, 500, 503}

func c09LGen(rng *zzverif.Rng, endings []c09LResp, exclude func(c09LResp) bool) []c09LResp {
	var s []c09LResp
	for rng.Chance(1, 4) && len(s) < 3 {
		h := c09LResp{zzverif.Pick(rng, []int{301, 302, 303, 307, 308}), true}
		if !exclude(h) {
			s = append(s, h)
		}
	}
	for try := 0; ; try++ {
		e := zzverif.Pick(rng, endings)
		if rng.Chance(1, 4) {
			e = c09LResp{zzverif.Pick(rng, c09LStatuses), rng.Bool()}
		}
		if !exclude(e) || try > 20 {
			return append(s, e)
		}
	}
}

func c09LShow(rs []c09LResp) string {
	s := strconv.Itoa(len(rs))
	for _, r := range rs {
		l := 0
		if r.loc {
			l = 1
		}
		s += fmt.Sprintf(" %d %d", r.status, l)
	}
	return s
}

func c09LShowTries(ts [][]c09LResp) string {
	s := strconv.Itoa(len(ts))
	for _, t := range ts {
		s += " " + c09LShow(t)
	}
	return s
}

func c09LegacyRun(t *testing.T, dir string, reg *c09LegReg, m *Manifest) error {
	return c09LegacyRunNamed(t, dir, reg, m, "example.com/library/push:latest")
}

func c09LegacyRunNamed(t *testing.T, dir string, reg *c09LegReg, m *Manifest, name string) error {
	t.Setenv("OLLAMA_MODELS", dir)
	mp := ParseModelPath(name)
	fp, err := mp.GetManifestPath()
	if err != nil {
		t.Fatal(err)
	}
	os.MkdirAll(filepath.Dir(fp), 0o755)
	mdata, _ := json.Marshal(m)
	if err := os.WriteFile(fp, mdata, 0o644); err != nil {
		t.Fatal(err)
	}
	old := http.DefaultTransport
	http.DefaultTransport = reg
	defer func() { http.DefaultTransport = old }()
	var perr error
	synctest.Test(t, func(t *testing.T) {
		perr = PushModel(context.Background(), name, &registryOptions{Insecure: true},
			func(api.ProgressResponse) {})
		synctest.Wait()
	})
	return perr
}

func c09LegacyBlob(t *testing.T, dir string, data []byte) string {
	os.MkdirAll(filepath.Join(dir, "blobs"), 0o755)
	sum := sha256.Sum256(data)
	if err := os.WriteFile(filepath.Join(dir, "blobs", fmt.Sprintf("sha256-%x", sum)), data, 0o644); err != nil {
		t.Fatal(err)
	}
	return fmt.Sprintf("sha256:%x", sum)
}

func c09NewLegReg(n int) *c09LegReg {
	r := &c09LegReg{index: map[string]int{}, layers: make([]c09LegLayer, n)}
	r.hi, r.pi, r.ai, r.ci = make([]int, n), make([]int, n), make([]int, n), make([]int, n)
	r.at, r.ct = make([]int, n), make([]int, n)
	for i := range r.at {
		r.at[i], r.ct[i] = -1, -1
	}
	return r
}

// c09ProbeStrict: does the tree take a non-2xx, non-error answer for a success?  The blob HEAD is
// answered 304; the pinned code concludes "the registry has the blob" and PUTs the manifest.
func c09ProbeStrict(t *testing.T) bool {
	dir := t.TempDir()
	reg := c09NewLegReg(1)
	dig := c09LegacyBlob(t, dir, []byte("probe"))
	reg.index[dig] = 0
	reg.layers[0].head = []c09LResp{{304, false}}
	m := &Manifest{SchemaVersion: 2, Layers: []Layer{{MediaType: "application/vnd.ollama.image.model", Digest: dig, Size: 5}}}
	c09LegacyRun(t, dir, reg, m)
	for _, e := range reg.events {
		if e.layer < 0 {
			return false
		}
	}
	return true
}

func c09LegacyCase(t *testing.T, out *zzverif.Out, rng *zzverif.Rng, dir, tag string, idx int, strict bool) {
	n := rng.Range(1, 4)
	kinds := []string{"h", "p", "a", "c", "m"}
	exhaustive := idx < len(kinds)*len(c09LStatuses)*2
	if exhaustive {
		n = 1
	}
	reg := c09NewLegReg(n)
	var m Manifest
	m.SchemaVersion = 2
	faulty := rng.Chance(1, 2)
	hasCfg := rng.Chance(1, 3) && !exhaustive
	no401 := func(r c09LResp) bool { return r.status == 401 }
	noPost := func(r c09LResp) bool { return r.status == 401 || r.status == 201 }
	noPatch := func(r c09LResp) bool { return r.status == 401 || r.status == 307 }
	absent, present := c09LResp{404, false}, c09LResp{200, false}
	opened, stored := c09LResp{202, true}, c09LResp{201, false}
	for i := 0; i < n; i++ {
		data := append([]byte(fmt.Sprintf("legacy-%d-", i)), rng.Bytes(rng.Range(1, 30))...)
		dig := c09LegacyBlob(t, dir, data)
		l := c09LegLayer{head: []c09LResp{zzverif.Pick(rng, []c09LResp{present, absent, absent})}, post: []c09LResp{opened},
			patch: [][]c09LResp{{opened}}}
		if faulty {
			if rng.Chance(1, 3) {
				l.head = c09LGen(rng, []c09LResp{present, absent, absent, {500, false}, {304, false}, {0, false}}, no401)
			}
			if rng.Chance(1, 3) {
				l.post = c09LGen(rng, []c09LResp{opened, opened, {500, false}, {202, false}, {404, false}, {0, false}}, noPost)
			}
			if rng.Chance(1, 3) {
				l.patch = nil
				for k := rng.Range(1, 7); k > 0; k-- {
					l.patch = append(l.patch, c09LGen(rng, []c09LResp{opened, {500, false}, {503, false}, {202, false}, {308, true}, {0, false}}, noPatch))
				}
			}
			if rng.Chance(1, 3) {
				for k := rng.Range(1, 7); k > 0; k-- {
					l.commit = append(l.commit, c09LGen(rng, []c09LResp{stored, {500, false}, {404, false}, {304, false}, {300, false}, {0, false}}, no401))
				}
			}
		}
		reg.layers[i] = l
		reg.index[dig] = i
		layer := Layer{MediaType: "application/vnd.ollama.image.model", Digest: dig, Size: int64(len(data))}
		if hasCfg && i == n-1 {
			m.Config = layer
		} else {
			m.Layers = append(m.Layers, layer)
		}
	}
	if rng.Chance(1, 4) {
		reg.man = c09LGen(rng, []c09LResp{{200, false}, {201, false}, {500, false}, {304, false}, {0, false}}, no401)
	}
	if exhaustive {
		k, rest := idx/(len(c09LStatuses)*2), idx%(len(c09LStatuses)*2)
		first := c09LResp{c09LStatuses[rest/2], rest%2 == 1}
		l := c09LegLayer{head: []c09LResp{absent}, post: []c09LResp{opened}, patch: [][]c09LResp{{opened}}}
		reg.man = nil
		switch kinds[k] {
		case "h":
			l.head = []c09LResp{first, absent}
		case "p":
			if !noPost(first) {
				l.post = []c09LResp{first, opened}
			}
		case "a":
			if !noPatch(first) {
				l.patch = [][]c09LResp{{first, opened}, {opened}}
			}
		case "c":
			l.commit = [][]c09LResp{{first}}
		case "m":
			reg.man = []c09LResp{first}
		}
		reg.layers[0] = l
		out.Count("legacy_exhaustive_first_answer")
	}
	perr := c09LegacyRun(t, dir, reg, &m)
	res := "ok"
	if perr != nil {
		res = "err"
	}
	out.Count("legacy_result_" + res)
	for _, u := range reg.unknown {
		out.L2("driver-unexpected-request", tag, u)
	}
	st := 0
	if strict {
		st = 1
	}
	var sb strings.Builder
	fmt.Fprintf(&sb, "legacy %d %d", st, n)
	for _, l := range reg.layers {
		fmt.Fprintf(&sb, " %s %s %s %s", c09LShow(l.head), c09LShow(l.post), c09LShowTries(l.patch), c09LShowTries(l.commit))
	}
	fmt.Fprintf(&sb, " %s", c09LShow(reg.man))
	op := sb.String()
	var evs []string
	for _, e := range reg.events {
		evs = append(evs, e.String())
		out.Count(fmt.Sprintf("legacy_answer_%dxx", e.status/100))
	}
	out.Case(op, fmt.Sprintf("%s res=%s", strings.Join(evs, " "), res))
	if f, err := os.OpenFile(filepath.Join(zzverif.OutDir(), "tags.txt"), os.O_APPEND|os.O_CREATE|os.O_WRONLY, 0o644); err == nil {
		fmt.Fprintln(f, tag) // line-aligned with ops.txt: lets the check replay an L1 disagreement
		f.Close()
	}

	c09LegacyL2(out, tag+" :: "+op, reg.events, n, perr)
}

// c09LegacyL2, on the request log alone: manifest requests come last; when one is sent, the last
// request the registry saw for every layer belongs to its HEAD exchange or to a commit try and was
// answered 2xx; success is reported only if the manifest exchange ended on a 2xx.
func c09LegacyL2(out *zzverif.Out, caseLine string, events []c09LegEvent, n int, perr error) {
	var evs []string
	for _, e := range events {
		evs = append(evs, e.String())
	}
	reg := struct{ events []c09LegEvent }{events}
	ls := "push-legacy log=" + strings.Join(evs, " ")
	first := -1
	for i, e := range reg.events {
		if e.layer < 0 && first < 0 {
			first = i
		}
		if e.layer >= 0 && first >= 0 {
			out.L2("push-manifest-not-last", caseLine, ls)
			break
		}
	}
	if first >= 0 {
		for l := 0; l < n; l++ {
			var last *c09LegEvent
			for i := range reg.events[:first] {
				if reg.events[i].layer == l {
					last = &reg.events[i]
				}
			}
			switch {
			case last == nil:
				out.L2("push-manifest-before-layer-accepted", caseLine, fmt.Sprintf("layer=%d no request at all; %s", l, ls))
			case last.kind != "h" && last.kind != "c":
				out.L2("push-manifest-before-layer-accepted", caseLine, fmt.Sprintf("layer=%d last request is not a HEAD or commit; %s", l, ls))
			case last.status >= 400:
				out.L2("push-manifest-after-upload-error", caseLine, fmt.Sprintf("layer=%d final request answered %d; %s", l, last.status, ls))
			case last.status/100 != 2:
				out.L2("push-manifest-after-non-2xx", caseLine, fmt.Sprintf("final-%s-answered=%dxx layer=%d status=%d; %s", last.kind, last.status/100, l, last.status, ls))
			}
		}
	}
	if perr == nil {
		lastEv := reg.events[len(reg.events)-1]
		switch {
		case first < 0 || lastEv.layer >= 0:
			out.L2("push-success-without-manifest", caseLine, ls)
		case lastEv.status >= 400:
			out.L2("push-success-after-manifest-error", caseLine, ls)
		case lastEv.status/100 != 2:
			out.L2("push-manifest-after-non-2xx", caseLine, fmt.Sprintf("final-m-answered=%dxx status=%d; %s", lastEv.status/100, lastEv.status, ls))
		}
	}
}

func TestVerifC09Legacy(t *testing.T) {
	out := zzverif.NewOut()
	defer out.Close()
	seed := zzverif.Seed()
	n := zzverif.EnvInt("VERIF_N", 100)
	ridx := -1
	if p := os.Getenv("VERIF_REPLAY"); p != "" {
		raw, err := os.ReadFile(p)
		if err != nil {
			t.Fatal(err)
		}
		var k string
		if _, err := fmt.Sscanf(string(raw), "seed=%d kind=%s idx=%d", &seed, &k, &ridx); err != nil || k != "legacy" {
			t.Fatalf("VERIF_REPLAY: not a legacy case header: %q", raw)
		}
	}
	strict := c09ProbeStrict(t)
	if strict {
		out.Count("legacy_strict_2xx_present")
	}
	root := zzverif.NewRng(seed).Fork()
	base := t.TempDir()
	for i := 0; i < n; i++ {
		rng := root.Fork()
		if ridx >= 0 && i != ridx {
			continue
		}
		dir := filepath.Join(base, fmt.Sprintf("l%d", i))
		c09LegacyCase(t, out, rng, dir, fmt.Sprintf("seed=%d kind=legacy idx=%d", seed, i), i, strict)
		os.RemoveAll(dir)
		out.Count("cases")
		out.Count("legacy_cases")
	}
}

// ---------------------------------------------------------------------------------------------
// Two pushes sharing one upload through blobUploadManager.  Push A opens the upload session; the
// scripted registry HOLDS that POST until push B (same layer) has done its own HEAD and joined the
// published upload (LoadOrStore hit → Wait), then the POST ends in every way (any answer chain,
// transport error, A's context ending), optionally B's context ends while the POST is outstanding;
// the one transfer then runs its PATCH and commit tries.  A joined push that is never told anything
// (Prepare failed: neither done nor err is ever set) polls until its context ends; the driver ends
// it after 30 fake minutes.

type c09ShReg struct {
	mu      sync.Mutex
	s       *c09ShScript
	heads   int
	gate    chan string // "go" | "transport"
	posts   int
	pi      int
	at, ct  int
	ai, ci  int
	ma, mb  int
	logA    []string
	logB    []string
	logT    []string
	global  []string // "<who>:<event>"
	unknown []string
}

type c09ShScript struct {
	headB         []c09LResp
	post          []c09LResp
	postEnd       string // ans | transport | ownercancel
	cancelB       bool
	patch, commit [][]c09LResp
	manA, manB    []c09LResp
}

func (r *c09ShReg) log(who string, e c09LegEvent) {
	s := e.String()
	switch who {
	case "A":
		r.logA = append(r.logA, s)
	case "B":
		r.logB = append(r.logB, s)
	default:
		r.logT = append(r.logT, s)
	}
	r.global = append(r.global, who+":"+s)
}

func (r *c09ShReg) RoundTrip(req *http.Request) (*http.Response, error) {
	if req.Body != nil {
		io.Copy(io.Discard, req.Body)
		req.Body.Close()
	}
	if req.URL.Host == "" {
		return nil, fmt.Errorf("http: no Host in request URL")
	}
	if err := req.Context().Err(); err != nil {
		return nil, context.Cause(req.Context())
	}
	p := req.URL.Path
	from := req.URL.Query().Get("from")
	answer := func(a c09LResp, next string) (*http.Response, error) {
		if a.status == 0 {
			return nil, fmt.Errorf("scripted transport error")
		}
		hdr := map[string]string{}
		if a.loc {
			hdr["Location"] = next
		}
		return c09LegResp(req, a.status, hdr), nil
	}
	r.mu.Lock()
	switch {
	case strings.Contains(p, "/manifests/"):
		who, script, idx := "A", r.s.manA, &r.ma
		if strings.Contains(p, "/pb/") || strings.HasSuffix(p, "/b") {
			who, script, idx = "B", r.s.manB, &r.mb
		}
		a := c09LNext(script, idx)
		r.log(who, c09LegEvent{-1, "", req.Method, a.status})
		next := fmt.Sprintf("http://example.com%s?hop=%d", p, *idx)
		r.mu.Unlock()
		return answer(a, next)
	case strings.Contains(p, "/blobs/sha256:"): // a HEAD exchange: the first one is A's
		if from == "" {
			r.heads++
		}
		if r.heads == 1 {
			r.log("A", c09LegEvent{0, "h", req.Method, 404})
			r.mu.Unlock()
			return answer(c09LResp{404, false}, "")
		}
		var i int
		fmt.Sscanf(req.URL.Query().Get("hop"), "%d", &i)
		a := c09LResp{200, false}
		if i < len(r.s.headB) {
			a = r.s.headB[i]
		}
		r.log("B", c09LegEvent{0, "h", req.Method, a.status})
		next := fmt.Sprintf("http://example.com%s?from=h&hop=%d", p, i+1)
		r.mu.Unlock()
		return answer(a, next)
	case strings.HasSuffix(p, "/blobs/uploads/") && from == "": // the session POST: held
		r.posts++
		if r.posts > 1 {
			r.unknown = append(r.unknown, "a second upload session was opened: "+req.URL.String())
		}
		r.mu.Unlock()
		select {
		case g := <-r.gate:
			r.mu.Lock()
			if g == "transport" {
				r.log("T", c09LegEvent{0, "p", req.Method, 0})
				r.mu.Unlock()
				return nil, fmt.Errorf("verif: dial tcp: transport failure")
			}
		case <-req.Context().Done():
			r.mu.Lock()
			r.log("T", c09LegEvent{0, "p", req.Method, 0})
			r.mu.Unlock()
			return nil, context.Cause(req.Context())
		}
		a := c09LNext(r.s.post, &r.pi)
		r.log("T", c09LegEvent{0, "p", req.Method, a.status})
		next := fmt.Sprintf("http://example.com/upload/0?from=p&hop=%d", r.pi)
		r.mu.Unlock()
		return answer(a, next)
	case strings.HasPrefix(p, "/upload/"):
		kind := "p"
		var a c09LResp
		var next string
		if req.Method == "PATCH" {
			kind = "a"
			r.at++
			r.ai = 0
		}
		if kind == "p" {
			a = c09LNext(r.s.post, &r.pi)
			next = fmt.Sprintf("http://example.com/upload/0?from=p&hop=%d", r.pi)
		} else {
			var s []c09LResp
			if r.at-1 < len(r.s.patch) {
				s = r.s.patch[r.at-1]
			}
			a = c09LNext(s, &r.ai)
			next = fmt.Sprintf("http://example.com/commit/0?from=a&hop=%d", r.ai)
		}
		r.log("T", c09LegEvent{0, kind, req.Method, a.status})
		r.mu.Unlock()
		return answer(a, next)
	case strings.HasPrefix(p, "/commit/"):
		kind := "c"
		switch {
		case from == "a" && req.Method == "PUT":
			r.ct++
			r.ci = 0
		case from == "a":
			kind = "a"
		}
		var a c09LResp
		var next string
		if kind == "a" {
			var s []c09LResp
			if r.at-1 < len(r.s.patch) {
				s = r.s.patch[r.at-1]
			}
			a = c09LNext(s, &r.ai)
			next = fmt.Sprintf("http://example.com/commit/0?from=a&hop=%d", r.ai)
		} else {
			var s []c09LResp
			if r.ct-1 < len(r.s.commit) {
				s = r.s.commit[r.ct-1]
			}
			a = c09LNext(s, &r.ci)
			next = fmt.Sprintf("http://example.com/commit/0?from=c&hop=%d", r.ci)
		}
		r.log("T", c09LegEvent{0, kind, req.Method, a.status})
		r.mu.Unlock()
		return answer(a, next)
	}
	r.unknown = append(r.unknown, req.Method+" "+req.URL.String())
	r.mu.Unlock()
	return c09LegResp(req, 400, nil), nil
}

func c09SharedCase(t *testing.T, out *zzverif.Out, rng *zzverif.Rng, dir, tag string, idx int, strict bool) {
	t.Setenv("OLLAMA_MODELS", dir)
	no401 := func(r c09LResp) bool { return r.status == 401 }
	noPost := func(r c09LResp) bool { return r.status == 401 || r.status == 201 }
	noPatch := func(r c09LResp) bool { return r.status == 401 || r.status == 307 }
	absent, opened, stored := c09LResp{404, false}, c09LResp{202, true}, c09LResp{201, false}
	s := &c09ShScript{headB: []c09LResp{absent}, post: []c09LResp{opened}, postEnd: "ans", patch: [][]c09LResp{{opened}}}
	nEx := len(c09LStatuses) * 2
	switch {
	case idx < nEx: // every first answer to the held session POST
		first := c09LResp{c09LStatuses[idx/2], idx%2 == 1}
		if !noPost(first) {
			s.post = []c09LResp{first, opened}
		}
		out.Count("shared_exhaustive_post_answer")
	case idx == nEx:
		s.postEnd = "transport"
	case idx == nEx+1:
		s.postEnd = "ownercancel"
	case idx == nEx+2:
		s.cancelB = true
	default:
		switch rng.Intn(10) {
		case 0:
			s.postEnd = "transport"
		case 1:
			s.postEnd = "ownercancel"
		case 2, 3, 4, 5:
			s.post = c09LGen(rng, []c09LResp{opened, {500, false}, {503, false}, {404, false}, {403, false}, {202, false}, {304, true}}, noPost)
		}
		s.cancelB = rng.Chance(1, 8)
		if rng.Chance(1, 5) {
			s.headB = c09LGen(rng, []c09LResp{absent, absent, {200, false}, {500, false}, {304, false}}, no401)
		}
		if rng.Chance(1, 3) {
			s.patch = nil
			for k := rng.Range(1, 7); k > 0; k-- {
				s.patch = append(s.patch, c09LGen(rng, []c09LResp{opened, {500, false}, {503, false}, {202, false}}, noPatch))
			}
		}
		if rng.Chance(1, 3) {
			for k := rng.Range(1, 7); k > 0; k-- {
				s.commit = append(s.commit, c09LGen(rng, []c09LResp{stored, {500, false}, {404, false}, {304, false}}, no401))
			}
		}
		if rng.Chance(1, 6) {
			s.manA = c09LGen(rng, []c09LResp{{200, false}, {500, false}}, no401)
		}
		if rng.Chance(1, 6) {
			s.manB = c09LGen(rng, []c09LResp{{201, false}, {500, false}}, no401)
		}
	}
	if s.cancelB && s.postEnd == "ans" && os.Getenv("VERIF_C09_RUNCANCEL_SAFE") != "1" {
		// B leaving while it is the only waiter cancels the upload's run context; if A's POST then
		// succeeds, blobUpload.Run skips its parts and dereferences a nil part hash: the process
		// dies (finding F19, shown by TestVerifC09SharedCancelCrash in a process of its own).  On such
		// a tree the joined push is only cancelled when the session POST fails.
		s.post = []c09LResp{{zzverif.Pick(rng, []int{500, 503, 403, 404}), false}}
	}
	out.Count("shared_post_" + s.postEnd)
	if s.cancelB {
		out.Count("shared_joined_push_cancelled_during_post")
	}
	// two models with the same single layer: different repositories, or two tags of one
	nameA, nameB := "example.com/library/pa:latest", "example.com/library/pb:latest"
	if rng.Bool() {
		nameA, nameB = "example.com/library/px:a", "example.com/library/px:b"
		out.Count("shared_same_repository")
	}
	data := append([]byte("shared-"), rng.Bytes(rng.Range(1, 30))...)
	dig := c09LegacyBlob(t, dir, data)
	m := &Manifest{SchemaVersion: 2, Layers: []Layer{{MediaType: "application/vnd.ollama.image.model", Digest: dig, Size: int64(len(data))}}}
	for _, name := range []string{nameA, nameB} {
		fp, err := ParseModelPath(name).GetManifestPath()
		if err != nil {
			t.Fatal(err)
		}
		os.MkdirAll(filepath.Dir(fp), 0o755)
		mdata, _ := json.Marshal(m)
		if err := os.WriteFile(fp, mdata, 0o644); err != nil {
			t.Fatal(err)
		}
	}
	reg := &c09ShReg{s: s}
	old := http.DefaultTransport
	http.DefaultTransport = reg
	defer func() { http.DefaultTransport = old }()
	var errA, errB error
	hung := false
	hangs := "" // which push did not return by itself (part of the L1 observation)
	synctest.Test(t, func(t *testing.T) {
		reg.gate = make(chan string, 1)
		ctxA, cancelA := context.WithCancel(context.Background())
		ctxB, cancelB := context.WithCancel(context.Background())
		defer cancelA()
		defer cancelB()
		doneA, doneB := make(chan struct{}), make(chan struct{})
		push := func(ctx context.Context, name string, err *error, done chan struct{}) {
			defer close(done)
			*err = PushModel(ctx, name, &registryOptions{Insecure: true}, func(api.ProgressResponse) {})
		}
		go push(ctxA, nameA, &errA, doneA)
		synctest.Wait() // A sits in the held session POST
		go push(ctxB, nameB, &errB, doneB)
		synctest.Wait() // B has done its HEAD and joined A's upload (or finished on its own)
		if s.cancelB {
			cancelB()
			synctest.Wait()
		}
		switch s.postEnd {
		case "ownercancel":
			cancelA()
		case "transport":
			reg.gate <- "transport"
		default:
			reg.gate <- "go"
		}
		for i, d := range []chan struct{}{doneA, doneB} {
			select {
			case <-d:
			case <-time.After(30 * time.Minute): // fake time
				hung = true
				hangs += string(rune('A' + i))
				cancelA()
				cancelB()
				<-d
			}
		}
		synctest.Wait()
	})
	blobUploadManager.Delete(dig)
	if hung {
		out.Count("shared_joined_push_polled_until_cancelled")
	}
	for _, u := range reg.unknown {
		out.L2("driver-unexpected-request", tag, u)
	}
	st := 0
	if strict {
		st = 1
	}
	cb := 0
	if s.cancelB {
		cb = 1
	}
	post := s.postEnd
	if post == "ans" {
		post = "ans " + c09LShow(s.post)
	}
	op := fmt.Sprintf("shared %d %s %s %d %s %s %s %s", st, c09LShow(s.headB), post, cb, c09LShowTries(s.patch), c09LShowTries(s.commit),
		c09LShow(s.manA), c09LShow(s.manB))
	res := func(err error) string {
		if err != nil {
			return "err"
		}
		return "ok"
	}
	out.Count("shared_result_A_" + res(errA))
	out.Count("shared_result_B_" + res(errB))
	if hangs == "" {
		hangs = "-"
	}
	out.Case(op, fmt.Sprintf("A: %s res=%s | B: %s res=%s | T: %s | hang=%s", strings.Join(reg.logA, " "), res(errA), strings.Join(reg.logB, " "), res(errB),
		strings.Join(reg.logT, " "), hangs))
	if f, err := os.OpenFile(filepath.Join(zzverif.OutDir(), "tags.txt"), os.O_APPEND|os.O_CREATE|os.O_WRONLY, 0o644); err == nil {
		fmt.Fprintln(f, tag)
		f.Close()
	}

	// L2 on the global request log, for BOTH pushes: a push's manifest request comes only after the
	// layer was settled with a 2xx — by that push's own HEAD, or by a commit request of the shared
	// transfer — and a push reports success only if its manifest exchange was sent and ended 2xx.
	caseLine := tag + " :: " + op
	ls := "push-legacy-shared log=" + strings.Join(reg.global, " ")
	status := func(ev string) int {
		n, _ := strconv.Atoi(ev[strings.LastIndex(ev, ":")+1:])
		return n
	}
	for _, who := range []string{"A", "B"} {
		firstMan := -1
		for i, e := range reg.global {
			if strings.HasPrefix(e, who+":M:") {
				firstMan = i
				break
			}
		}
		err := errA
		if who == "B" {
			err = errB
		}
		if firstMan < 0 {
			if err == nil {
				out.L2("push-success-without-manifest", caseLine, "push="+who+" "+ls)
			}
			continue
		}
		settled, how, letter := false, 0, "h"
		for _, e := range reg.global[:firstMan] {
			if strings.HasPrefix(e, who+":L0h:") || strings.HasPrefix(e, "T:L0c:") {
				how = status(e) // the last such answer counts
				settled = how/100 == 2
				letter = "h"
				if strings.HasPrefix(e, "T:") {
					letter = "c"
				}
			}
		}
		switch {
		case settled:
		case how != 0 && how < 400 && how != 404:
			out.L2("push-manifest-after-non-2xx", caseLine, fmt.Sprintf("final-%s-answered=%dxx push=%s status=%d; %s", letter, how/100, who, how, ls))
		default:
			out.L2("push-manifest-before-layer-accepted", caseLine, fmt.Sprintf("push=%s sent its manifest but the shared layer was never accepted (last HEAD/commit answer: %d); %s", who, how, ls))
		}
		last := ""
		for _, e := range reg.global {
			if strings.HasPrefix(e, who+":M:") {
				last = e
			}
		}
		if err == nil && status(last) >= 400 {
			out.L2("push-success-after-manifest-error", caseLine, "push="+who+" "+ls)
		}
	}
}

func TestVerifC09LegacyShared(t *testing.T) {
	out := zzverif.NewOut()
	defer out.Close()
	seed := zzverif.Seed()
	n := zzverif.EnvInt("VERIF_NSHARED", 100)
	ridx := -1
	if p := os.Getenv("VERIF_REPLAY"); p != "" {
		raw, err := os.ReadFile(p)
		if err != nil {
			t.Fatal(err)
		}
		var k string
		if _, err := fmt.Sscanf(string(raw), "seed=%d kind=%s idx=%d", &seed, &k, &ridx); err != nil || k != "shared" {
			t.Fatalf("VERIF_REPLAY: not a shared case header: %q", raw)
		}
	}
	strict := c09ProbeStrict(t)
	root := zzverif.NewRng(seed).Fork().Fork()
	base := t.TempDir()
	for i := 0; i < n; i++ {
		rng := root.Fork()
		if ridx >= 0 && i != ridx {
			continue
		}
		dir := filepath.Join(base, fmt.Sprintf("s%d", i))
		c09SharedCase(t, out, rng, dir, fmt.Sprintf("seed=%d kind=shared idx=%d", seed, i), i, strict)
		os.RemoveAll(dir)
		out.Count("cases")
		out.Count("shared_cases")
	}
}

// TestVerifC09SharedCancelCrash runs, in a process of its own, the one scenario the shared driver must
// not run in-process on a tree with finding F19: the joined push leaves while it is the only waiter
// (its release() cancels the upload's run context), then the owner's session POST succeeds.
// blobUpload.Run then chooses between `<-inner.Done()` and `<-b.nextURL` with both ready — Go picks at
// random — and dies on the first; the scenario is therefore repeated 24 times (a tree that survives
// them all is taken to be repaired: the chance of a miss is 2^-24).
func TestVerifC09SharedCancelCrash(t *testing.T) {
	if os.Getenv("VERIF_OUT") == "" {
		t.Skip("VERIF_OUT not set")
	}
	for iter := 0; iter < 24; iter++ {
		dir := t.TempDir()
		t.Setenv("OLLAMA_MODELS", dir)
		opened := c09LResp{202, true}
		s := &c09ShScript{headB: []c09LResp{{404, false}}, post: []c09LResp{opened}, postEnd: "ans", cancelB: true, patch: [][]c09LResp{{opened}}}
		data := []byte(fmt.Sprintf("shared-cancel-%d", iter))
		dig := c09LegacyBlob(t, dir, data)
		m := &Manifest{SchemaVersion: 2, Layers: []Layer{{MediaType: "application/vnd.ollama.image.model", Digest: dig, Size: int64(len(data))}}}
		for _, name := range []string{"example.com/library/pa:latest", "example.com/library/pb:latest"} {
			fp, _ := ParseModelPath(name).GetManifestPath()
			os.MkdirAll(filepath.Dir(fp), 0o755)
			mdata, _ := json.Marshal(m)
			os.WriteFile(fp, mdata, 0o644)
		}
		reg := &c09ShReg{s: s}
		old := http.DefaultTransport
		http.DefaultTransport = reg
		var errA, errB error
		synctest.Test(t, func(t *testing.T) {
			reg.gate = make(chan string, 1)
			ctxB, cancelB := context.WithCancel(context.Background())
			defer cancelB()
			doneA, doneB := make(chan struct{}), make(chan struct{})
			go func() {
				defer close(doneA)
				errA = PushModel(context.Background(), "example.com/library/pa:latest", &registryOptions{Insecure: true}, func(api.ProgressResponse) {})
			}()
			synctest.Wait()
			go func() {
				defer close(doneB)
				errB = PushModel(ctxB, "example.com/library/pb:latest", &registryOptions{Insecure: true}, func(api.ProgressResponse) {})
			}()
			synctest.Wait()
			cancelB()
			synctest.Wait()
			reg.gate <- "go"
			<-doneA
			<-doneB
		})
		http.DefaultTransport = old
		blobUploadManager.Delete(dig)
		for _, e := range reg.global {
			if strings.Contains(e, ":M:") {
				t.Errorf("a manifest was sent: %v", reg.global)
			}
		}
		if errA == nil || errB == nil {
			t.Errorf("errA=%v errB=%v: both pushes must fail", errA, errB)
		}
	}
	os.WriteFile(filepath.Join(os.Getenv("VERIF_OUT"), "runcancel.txt"), []byte("safe\n"), 0o644)
}

// ---------------------------------------------------------------------------------------------
// SEQUENTIAL pushes in one process: 2-3 pushes of models that share layers, to the same or to
// different repositories; the registry's state is per repository (it has a blob once a commit of that
// blob to THAT repository was answered 2xx).  The digest-keyed blobUploadManager must be empty between
// pushes (the entry lives exactly as long as the transfer), so every push is an independent single
// push for the model (oracle `legacy`, one L1 line per push) and for the property (L2 per push).

func c09SeqCase(t *testing.T, out *zzverif.Out, rng *zzverif.Rng, dir, tag string, strict bool) {
	var pool [][]byte
	var digs []string
	for i := 0; i < rng.Range(2, 3); i++ {
		d := append([]byte(fmt.Sprintf("seq-%d-", i)), rng.Bytes(rng.Range(1, 30))...)
		pool = append(pool, d)
		digs = append(digs, c09LegacyBlob(t, dir, d))
	}
	has := map[string]map[string]bool{"ra": {}, "rb": {}}
	opened := c09LResp{202, true}
	npush := rng.Range(2, 3)
	out.Count(fmt.Sprintf("seq_pushes_%d", npush))
	for j := 0; j < npush; j++ {
		repo := zzverif.Pick(rng, []string{"ra", "rb"})
		if j == 1 && rng.Chance(2, 3) { // usually the second push goes to the OTHER repository
			repo = "rb"
			if len(has["rb"]) > 0 {
				repo = "ra"
			}
		}
		name := fmt.Sprintf("example.com/library/%s:t%d", repo, j)
		// the layers of this model: the first pool layer is shared by all, others at random
		idxs := []int{0}
		for k := 1; k < len(pool); k++ {
			if rng.Bool() {
				idxs = append(idxs, k)
			}
		}
		n := len(idxs)
		reg := c09NewLegReg(n)
		var m Manifest
		m.SchemaVersion = 2
		fault := -1
		if rng.Chance(1, 5) {
			fault = rng.Intn(n)
		}
		for li, k := range idxs {
			l := c09LegLayer{head: []c09LResp{{404, false}}, post: []c09LResp{opened}, patch: [][]c09LResp{{opened}}}
			if has[repo][digs[k]] {
				l.head = []c09LResp{{200, false}}
				out.Count("seq_layer_already_in_repository")
			} else if j > 0 {
				out.Count("seq_layer_uploaded_before_but_not_to_this_repository_or_failed")
			}
			if li == fault {
				switch rng.Intn(3) {
				case 0:
					l.post = []c09LResp{{500, false}}
				case 1:
					l.patch = [][]c09LResp{{{500, false}}, {{500, false}}, {{500, false}}, {{500, false}}, {{500, false}}, {{500, false}}}
				case 2:
					l.commit = [][]c09LResp{{{500, false}}, {{500, false}}, {{500, false}}, {{500, false}}, {{500, false}}, {{500, false}}}
				}
				out.Count("seq_faulty_layer")
			}
			reg.layers[li] = l
			reg.index[digs[k]] = li
			m.Layers = append(m.Layers, Layer{MediaType: "application/vnd.ollama.image.model", Digest: digs[k], Size: int64(len(pool[k]))})
		}
		perr := c09LegacyRunNamed(t, dir, reg, &m, name)
		st := 0
		if strict {
			st = 1
		}
		var sb strings.Builder
		fmt.Fprintf(&sb, "legacy %d %d", st, n)
		for _, l := range reg.layers {
			fmt.Fprintf(&sb, " %s %s %s %s", c09LShow(l.head), c09LShow(l.post), c09LShowTries(l.patch), c09LShowTries(l.commit))
		}
		fmt.Fprintf(&sb, " %s", c09LShow(reg.man))
		op := sb.String()
		var evs []string
		for _, e := range reg.events {
			evs = append(evs, e.String())
			// the registry's state of this repository
			if e.layer >= 0 && e.kind == "c" && e.status/100 == 2 {
				has[repo][digs[idxs[e.layer]]] = true
			}
		}
		res := "ok"
		if perr != nil {
			res = "err"
		}
		out.Count("seq_result_" + res)
		ptag := fmt.Sprintf("%s push=%d repo=%s", tag, j, repo)
		out.Case(op, fmt.Sprintf("%s res=%s", strings.Join(evs, " "), res))
		if f, err := os.OpenFile(filepath.Join(zzverif.OutDir(), "tags.txt"), os.O_APPEND|os.O_CREATE|os.O_WRONLY, 0o644); err == nil {
			fmt.Fprintln(f, ptag)
			f.Close()
		}
		for _, u := range reg.unknown {
			out.L2("driver-unexpected-request", ptag, u)
		}
		c09LegacyL2(out, ptag+" :: "+op, reg.events, n, perr)
		// against the per-repository state: a manifest only if the repository has every layer now
		sent := false
		for _, e := range reg.events {
			if e.layer < 0 {
				sent = true
			}
		}
		if sent {
			for li, k := range idxs {
				if !has[repo][digs[k]] {
					out.L2("push-manifest-before-layer-accepted", ptag+" :: "+op,
						fmt.Sprintf("push-legacy-sequential layer=%d is not in repository %s (no HEAD 2xx from it, no commit 2xx to it) log=%s", li, repo, strings.Join(evs, " ")))
				}
			}
		}
	}
	for _, d := range digs {
		blobUploadManager.Delete(d)
	}
}

func TestVerifC09LegacySeq(t *testing.T) {
	out := zzverif.NewOut()
	defer out.Close()
	seed := zzverif.Seed()
	n := zzverif.EnvInt("VERIF_NSEQ", 100)
	ridx := -1
	if p := os.Getenv("VERIF_REPLAY"); p != "" {
		raw, err := os.ReadFile(p)
		if err != nil {
			t.Fatal(err)
		}
		var k string
		if _, err := fmt.Sscanf(string(raw), "seed=%d kind=%s idx=%d", &seed, &k, &ridx); err != nil || k != "seq" {
			t.Fatalf("VERIF_REPLAY: not a seq case header: %q", raw)
		}
	}
	strict := c09ProbeStrict(t)
	root := zzverif.NewRng(seed).Fork().Fork().Fork()
	base := t.TempDir()
	for i := 0; i < n; i++ {
		rng := root.Fork()
		if ridx >= 0 && i != ridx {
			continue
		}
		dir := filepath.Join(base, fmt.Sprintf("q%d", i))
		c09SeqCase(t, out, rng, dir, fmt.Sprintf("seed=%d kind=seq idx=%d", seed, i), strict)
		os.RemoveAll(dir)
		out.Count("cases")
		out.Count("seq_cases")
	}
}
