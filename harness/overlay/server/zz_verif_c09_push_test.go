package server

// Verification driver for C09, legacy push path (PushModel → uploadBlob → blobUpload.Prepare/Run).
// Added to the package at build time with `go test -overlay`; never committed to /repo.
//
// http.DefaultTransport is replaced by an in-memory registry that answers every physical request
// from a per-layer script — any status (1xx, 2xx, 3xx with or without Location, 4xx, 5xx), so that
// net/http's redirect handling (per method and body kind) is part of what is observed — and logs
// the requests in the order received.  Each case runs in a testing/synctest bubble (the retry
// sleeps of 1..32 s and the 60 ms progress ticker are fake time).
//
// Not scripted (documented in notes/C09.md): 401 (token dance), a final 201 to the POST ("mounted":
// blobUpload.Run then blocks for ever on a nil channel), a final 307 to a PATCH try (the
// redirected-upload path; a 307 without Location followed by a good retry blocks for ever on the
// one-slot nextURL channel).

import (
	"context"
	"crypto/sha256"
	"encoding/json"
	"fmt"
	"io"
	"net/http"
	"os"
	"path/filepath"
	"strconv"
	"strings"
	"sync"
	"testing"
	"testing/synctest"

	"github.com/ollama/ollama/api"
	"github.com/ollama/ollama/zzverif"
)

type c09LResp struct {
	status int
	loc    bool
}

type c09LegLayer struct {
	head, post    []c09LResp
	patch, commit [][]c09LResp
}

type c09LegEvent struct {
	layer  int // -1 manifest
	kind   string
	method string
	status int
}

func (e c09LegEvent) String() string {
	if e.layer < 0 {
		return fmt.Sprintf("M:%s:%d", e.method, e.status)
	}
	return fmt.Sprintf("L%d%s:%s:%d", e.layer, e.kind, e.method, e.status)
}

type c09LegReg struct {
	mu       sync.Mutex
	layers   []c09LegLayer
	man      []c09LResp
	index    map[string]int // digest -> layer
	cur      int
	hi, pi   []int // next answer of the HEAD / POST exchange
	at, ct   []int // current PATCH / commit try (-1: none yet)
	ai, ci   []int // next answer within the current try
	mi       int
	events   []c09LegEvent
	unknown  []string
	repoPath string
}

func c09LegResp(req *http.Request, status int, hdr map[string]string) *http.Response {
	h := http.Header{}
	for k, v := range hdr {
		h.Set(k, v)
	}
	return &http.Response{StatusCode: status, Status: strconv.Itoa(status) + " scripted", Header: h,
		Body: io.NopCloser(strings.NewReader("scripted")), Request: req, ProtoMajor: 1, ProtoMinor: 1, ContentLength: -1}
}

func c09LNext(script []c09LResp, i *int) c09LResp {
	r := c09LResp{200, false}
	if *i < len(script) {
		r = script[*i]
	}
	*i++
	return r
}

func (r *c09LegReg) RoundTrip(req *http.Request) (*http.Response, error) {
	if req.Body != nil {
		io.Copy(io.Discard, req.Body)
		req.Body.Close()
	}
	if req.URL.Host == "" {
		// the code built this URL from a missing Location header; net/http's transport refuses it
		return nil, fmt.Errorf("http: no Host in request URL")
	}
	r.mu.Lock()
	defer r.mu.Unlock()
	p := req.URL.Path
	from := req.URL.Query().Get("from")
	var a c09LResp
	layer, kind, next := -2, "", ""
	switch {
	case strings.Contains(p, "/manifests/"):
		layer = -1
		a = c09LNext(r.man, &r.mi)
		next = fmt.Sprintf("http://example.com%s?hop=%d", p, r.mi)
	case strings.HasSuffix(p, "/blobs/uploads/"): // the POST exchange (first request)
		layer, kind = r.cur, "p"
	case strings.Contains(p, "/blobs/sha256:"): // the HEAD exchange
		d := p[strings.LastIndex(p, "/")+1:]
		i, ok := r.index[d]
		if ok {
			layer, kind = i, "h"
			r.cur = i
		}
	case strings.HasPrefix(p, "/upload/"):
		fmt.Sscanf(p, "/upload/%d", &layer)
		if req.Method == "PATCH" { // a fresh PATCH try
			kind = "a"
			r.at[layer]++
			r.ai[layer] = 0
		} else { // a followed redirect of the POST exchange
			kind = "p"
		}
	case strings.HasPrefix(p, "/commit/"):
		fmt.Sscanf(p, "/commit/%d", &layer)
		switch {
		case from == "a" && req.Method == "PUT": // a fresh commit try
			kind = "c"
			r.ct[layer]++
			r.ci[layer] = 0
		case from == "a": // a followed redirect of a PATCH try
			kind = "a"
		default:
			kind = "c"
		}
	}
	if layer == -2 || layer >= len(r.layers) {
		r.unknown = append(r.unknown, req.Method+" "+req.URL.String())
		return c09LegResp(req, 400, nil), nil
	}
	if layer >= 0 {
		l := r.layers[layer]
		switch kind {
		case "h":
			a = c09LNext(l.head, &r.hi[layer])
			next = fmt.Sprintf("http://example.com%s?from=h&hop=%d", p, r.hi[layer])
		case "p":
			a = c09LNext(l.post, &r.pi[layer])
			next = fmt.Sprintf("http://example.com/upload/%d?from=p&hop=%d", layer, r.pi[layer])
		case "a":
			var s []c09LResp
			if r.at[layer] < len(l.patch) {
				s = l.patch[r.at[layer]]
			}
			a = c09LNext(s, &r.ai[layer])
			next = fmt.Sprintf("http://example.com/commit/%d?from=a&hop=%d", layer, r.ai[layer])
		case "c":
			var s []c09LResp
			if r.ct[layer] < len(l.commit) {
				s = l.commit[r.ct[layer]]
			}
			a = c09LNext(s, &r.ci[layer])
			next = fmt.Sprintf("http://example.com/commit/%d?from=c&hop=%d", layer, r.ci[layer])
		}
	}
	r.events = append(r.events, c09LegEvent{layer, kind, req.Method, a.status})
	hdr := map[string]string{}
	if a.loc {
		hdr["Location"] = next
	}
	return c09LegResp(req, a.status, hdr), nil
}

// every status but 401; per request kind further exclusions below
var c09LStatuses = []int{100, 101, 199, 200, 201, 202, 204, 206, 300, 301, 302, 303, 304, 305, 307, 308, 399, 400, 403, 404, 409, 500, 503}

func c09LGen(rng *zzverif.Rng, endings []c09LResp, exclude func(c09LResp) bool) []c09LResp {
	var s []c09LResp
	for rng.Chance(1, 4) && len(s) < 3 {
		h := c09LResp{zzverif.Pick(rng, []int{301, 302, 303, 307, 308}), true}
		if !exclude(h) {
			s = append(s, h)
		}
	}
	for try := 0; ; try++ {
		e := zzverif.Pick(rng, endings)
		if rng.Chance(1, 4) {
			e = c09LResp{zzverif.Pick(rng, c09LStatuses), rng.Bool()}
		}
		if !exclude(e) || try > 20 {
			return append(s, e)
		}
	}
}

func c09LShow(rs []c09LResp) string {
	s := strconv.Itoa(len(rs))
	for _, r := range rs {
		l := 0
		if r.loc {
			l = 1
		}
		s += fmt.Sprintf(" %d %d", r.status, l)
	}
	return s
}

func c09LShowTries(ts [][]c09LResp) string {
	s := strconv.Itoa(len(ts))
	for _, t := range ts {
		s += " " + c09LShow(t)
	}
	return s
}

func c09LegacyRun(t *testing.T, dir string, reg *c09LegReg, m *Manifest) error {
	t.Setenv("OLLAMA_MODELS", dir)
	mp := ParseModelPath("example.com/library/push:latest")
	fp, err := mp.GetManifestPath()
	if err != nil {
		t.Fatal(err)
	}
	os.MkdirAll(filepath.Dir(fp), 0o755)
	mdata, _ := json.Marshal(m)
	if err := os.WriteFile(fp, mdata, 0o644); err != nil {
		t.Fatal(err)
	}
	old := http.DefaultTransport
	http.DefaultTransport = reg
	defer func() { http.DefaultTransport = old }()
	var perr error
	synctest.Test(t, func(t *testing.T) {
		perr = PushModel(context.Background(), "example.com/library/push:latest", &registryOptions{Insecure: true},
			func(api.ProgressResponse) {})
		synctest.Wait()
	})
	return perr
}

func c09LegacyBlob(t *testing.T, dir string, data []byte) string {
	os.MkdirAll(filepath.Join(dir, "blobs"), 0o755)
	sum := sha256.Sum256(data)
	if err := os.WriteFile(filepath.Join(dir, "blobs", fmt.Sprintf("sha256-%x", sum)), data, 0o644); err != nil {
		t.Fatal(err)
	}
	return fmt.Sprintf("sha256:%x", sum)
}

func c09NewLegReg(n int) *c09LegReg {
	r := &c09LegReg{index: map[string]int{}, layers: make([]c09LegLayer, n)}
	r.hi, r.pi, r.ai, r.ci = make([]int, n), make([]int, n), make([]int, n), make([]int, n)
	r.at, r.ct = make([]int, n), make([]int, n)
	for i := range r.at {
		r.at[i], r.ct[i] = -1, -1
	}
	return r
}

// c09ProbeStrict: does the tree take a non-2xx, non-error answer for a success?  The blob HEAD is
// answered 304; the pinned code concludes "the registry has the blob" and PUTs the manifest.
func c09ProbeStrict(t *testing.T) bool {
	dir := t.TempDir()
	reg := c09NewLegReg(1)
	dig := c09LegacyBlob(t, dir, []byte("probe"))
	reg.index[dig] = 0
	reg.layers[0].head = []c09LResp{{304, false}}
	m := &Manifest{SchemaVersion: 2, Layers: []Layer{{MediaType: "application/vnd.ollama.image.model", Digest: dig, Size: 5}}}
	c09LegacyRun(t, dir, reg, m)
	for _, e := range reg.events {
		if e.layer < 0 {
			return false
		}
	}
	return true
}

func c09LegacyCase(t *testing.T, out *zzverif.Out, rng *zzverif.Rng, dir, tag string, idx int, strict bool) {
	n := rng.Range(1, 4)
	kinds := []string{"h", "p", "a", "c", "m"}
	exhaustive := idx < len(kinds)*len(c09LStatuses)*2
	if exhaustive {
		n = 1
	}
	reg := c09NewLegReg(n)
	var m Manifest
	m.SchemaVersion = 2
	faulty := rng.Chance(1, 2)
	hasCfg := rng.Chance(1, 3) && !exhaustive
	no401 := func(r c09LResp) bool { return r.status == 401 }
	noPost := func(r c09LResp) bool { return r.status == 401 || r.status == 201 }
	noPatch := func(r c09LResp) bool { return r.status == 401 || r.status == 307 }
	absent, present := c09LResp{404, false}, c09LResp{200, false}
	opened, stored := c09LResp{202, true}, c09LResp{201, false}
	for i := 0; i < n; i++ {
		data := append([]byte(fmt.Sprintf("legacy-%d-", i)), rng.Bytes(rng.Range(1, 30))...)
		dig := c09LegacyBlob(t, dir, data)
		l := c09LegLayer{head: []c09LResp{zzverif.Pick(rng, []c09LResp{present, absent, absent})}, post: []c09LResp{opened},
			patch: [][]c09LResp{{opened}}}
		if faulty {
			if rng.Chance(1, 3) {
				l.head = c09LGen(rng, []c09LResp{present, absent, absent, {500, false}, {304, false}}, no401)
			}
			if rng.Chance(1, 3) {
				l.post = c09LGen(rng, []c09LResp{opened, opened, {500, false}, {202, false}}, noPost)
			}
			if rng.Chance(1, 3) {
				l.patch = nil
				for k := rng.Range(1, 7); k > 0; k-- {
					l.patch = append(l.patch, c09LGen(rng, []c09LResp{opened, {500, false}, {503, false}, {202, false}, {308, true}}, noPatch))
				}
			}
			if rng.Chance(1, 3) {
				for k := rng.Range(1, 7); k > 0; k-- {
					l.commit = append(l.commit, c09LGen(rng, []c09LResp{stored, {500, false}, {404, false}, {304, false}, {300, false}}, no401))
				}
			}
		}
		reg.layers[i] = l
		reg.index[dig] = i
		layer := Layer{MediaType: "application/vnd.ollama.image.model", Digest: dig, Size: int64(len(data))}
		if hasCfg && i == n-1 {
			m.Config = layer
		} else {
			m.Layers = append(m.Layers, layer)
		}
	}
	if rng.Chance(1, 4) {
		reg.man = c09LGen(rng, []c09LResp{{200, false}, {201, false}, {500, false}, {304, false}}, no401)
	}
	if exhaustive {
		k, rest := idx/(len(c09LStatuses)*2), idx%(len(c09LStatuses)*2)
		first := c09LResp{c09LStatuses[rest/2], rest%2 == 1}
		l := c09LegLayer{head: []c09LResp{absent}, post: []c09LResp{opened}, patch: [][]c09LResp{{opened}}}
		reg.man = nil
		switch kinds[k] {
		case "h":
			l.head = []c09LResp{first, absent}
		case "p":
			if !noPost(first) {
				l.post = []c09LResp{first, opened}
			}
		case "a":
			if !noPatch(first) {
				l.patch = [][]c09LResp{{first, opened}, {opened}}
			}
		case "c":
			l.commit = [][]c09LResp{{first}}
		case "m":
			reg.man = []c09LResp{first}
		}
		reg.layers[0] = l
		out.Count("legacy_exhaustive_first_answer")
	}
	perr := c09LegacyRun(t, dir, reg, &m)
	res := "ok"
	if perr != nil {
		res = "err"
	}
	out.Count("legacy_result_" + res)
	for _, u := range reg.unknown {
		out.L2("driver-unexpected-request", tag, u)
	}
	st := 0
	if strict {
		st = 1
	}
	var sb strings.Builder
	fmt.Fprintf(&sb, "legacy %d %d", st, n)
	for _, l := range reg.layers {
		fmt.Fprintf(&sb, " %s %s %s %s", c09LShow(l.head), c09LShow(l.post), c09LShowTries(l.patch), c09LShowTries(l.commit))
	}
	fmt.Fprintf(&sb, " %s", c09LShow(reg.man))
	op := sb.String()
	var evs []string
	for _, e := range reg.events {
		evs = append(evs, e.String())
		out.Count(fmt.Sprintf("legacy_answer_%dxx", e.status/100))
	}
	out.Case(op, fmt.Sprintf("%s res=%s", strings.Join(evs, " "), res))
	if f, err := os.OpenFile(filepath.Join(zzverif.OutDir(), "tags.txt"), os.O_APPEND|os.O_CREATE|os.O_WRONLY, 0o644); err == nil {
		fmt.Fprintln(f, tag) // line-aligned with ops.txt: lets the check replay an L1 disagreement
		f.Close()
	}

	// L2 on the request log alone: manifest requests come last; when one is sent, the last request
	// the registry saw for every layer belongs to its HEAD exchange or to a commit try and was
	// answered 2xx; success is reported only if the manifest exchange ended on a 2xx.
	caseLine := tag + " :: " + op
	ls := "push-legacy log=" + strings.Join(evs, " ")
	first := -1
	for i, e := range reg.events {
		if e.layer < 0 && first < 0 {
			first = i
		}
		if e.layer >= 0 && first >= 0 {
			out.L2("push-manifest-not-last", caseLine, ls)
			break
		}
	}
	if first >= 0 {
		for l := 0; l < n; l++ {
			var last *c09LegEvent
			for i := range reg.events[:first] {
				if reg.events[i].layer == l {
					last = &reg.events[i]
				}
			}
			switch {
			case last == nil:
				out.L2("push-manifest-before-layer-accepted", caseLine, fmt.Sprintf("layer=%d no request at all; %s", l, ls))
			case last.kind != "h" && last.kind != "c":
				out.L2("push-manifest-before-layer-accepted", caseLine, fmt.Sprintf("layer=%d last request is not a HEAD or commit; %s", l, ls))
			case last.status >= 400:
				out.L2("push-manifest-after-upload-error", caseLine, fmt.Sprintf("layer=%d final request answered %d; %s", l, last.status, ls))
			case last.status/100 != 2:
				out.L2("push-manifest-after-non-2xx", caseLine, fmt.Sprintf("final-%s-answered=%dxx layer=%d status=%d; %s", last.kind, last.status/100, l, last.status, ls))
			}
		}
	}
	if perr == nil {
		lastEv := reg.events[len(reg.events)-1]
		switch {
		case first < 0 || lastEv.layer >= 0:
			out.L2("push-success-without-manifest", caseLine, ls)
		case lastEv.status >= 400:
			out.L2("push-success-after-manifest-error", caseLine, ls)
		case lastEv.status/100 != 2:
			out.L2("push-manifest-after-non-2xx", caseLine, fmt.Sprintf("final-m-answered=%dxx status=%d; %s", lastEv.status/100, lastEv.status, ls))
		}
	}
}

func TestVerifC09Legacy(t *testing.T) {
	out := zzverif.NewOut()
	defer out.Close()
	seed := zzverif.Seed()
	n := zzverif.EnvInt("VERIF_N", 100)
	ridx := -1
	if p := os.Getenv("VERIF_REPLAY"); p != "" {
		raw, err := os.ReadFile(p)
		if err != nil {
			t.Fatal(err)
		}
		var k string
		if _, err := fmt.Sscanf(string(raw), "seed=%d kind=%s idx=%d", &seed, &k, &ridx); err != nil || k != "legacy" {
			t.Fatalf("VERIF_REPLAY: not a legacy case header: %q", raw)
		}
	}
	strict := c09ProbeStrict(t)
	if strict {
		out.Count("legacy_strict_2xx_present")
	}
	root := zzverif.NewRng(seed).Fork()
	base := t.TempDir()
	for i := 0; i < n; i++ {
		rng := root.Fork()
		if ridx >= 0 && i != ridx {
			continue
		}
		dir := filepath.Join(base, fmt.Sprintf("l%d", i))
		c09LegacyCase(t, out, rng, dir, fmt.Sprintf("seed=%d kind=legacy idx=%d", seed, i), i, strict)
		os.RemoveAll(dir)
		out.Count("cases")
		out.Count("legacy_cases")
	}
}
