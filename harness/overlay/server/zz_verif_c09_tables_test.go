package server

// Tie-1 table for C09 (legacy push), regenerated on every run by executing the REAL
// makeRequestWithRetry — the helper behind every request of PushModel / uploadBlob / blobUpload —
// once per status 100..599 (401 excluded: it starts the token dance), answered without a Location
// header: does the caller get a response ("ok"), os.ErrNotExist ("notFound") or another error
// ("err")?  Consumed by Tie.C09.mrr_matches_makeRequestWithRetry (the model's `mrr false`).
// Added to the package with `go test -overlay`; never committed to /repo.

import (
	"context"
	"errors"
	"fmt"
	"io"
	"net/http"
	"net/url"
	"os"
	"path/filepath"
	"strconv"
	"strings"
	"testing"
)

type c09TabLegRT struct {
	status int
	n      int
}

func (r *c09TabLegRT) RoundTrip(req *http.Request) (*http.Response, error) {
	r.n++
	if req.Body != nil {
		io.Copy(io.Discard, req.Body)
		req.Body.Close()
	}
	return &http.Response{StatusCode: r.status, Status: strconv.Itoa(r.status) + " scripted", Header: http.Header{},
		Body: io.NopCloser(strings.NewReader("scripted")), Request: req, ProtoMajor: 1, ProtoMinor: 1, ContentLength: -1}, nil
}

func TestVerifC09LegacyTables(t *testing.T) {
	outdir := os.Getenv("VERIF_OUT")
	if outdir == "" {
		t.Skip("VERIF_OUT not set")
	}
	old := http.DefaultTransport
	defer func() { http.DefaultTransport = old }()
	u, err := url.Parse("http://tab.example/v2/library/x/blobs/sha256:00")
	if err != nil {
		t.Fatal(err)
	}
	var lines []string
	for st := 100; st <= 599; st++ {
		if st == http.StatusUnauthorized {
			continue
		}
		for _, method := range []string{http.MethodHead, http.MethodPut} {
			rt := &c09TabLegRT{status: st}
			http.DefaultTransport = rt
			resp, err := makeRequestWithRetry(context.Background(), method, u, nil, nil, &registryOptions{})
			cls := "err"
			switch {
			case err == nil:
				cls = "ok"
				resp.Body.Close()
			case errors.Is(err, os.ErrNotExist):
				cls = "notFound"
			}
			if rt.n != 1 {
				t.Fatalf("status %d: %d requests", st, rt.n)
			}
			lines = append(lines, fmt.Sprintf("%s %d %s", method, st, cls))
		}
	}
	if err := os.WriteFile(filepath.Join(outdir, "mrr.txt"), []byte(strings.Join(lines, "\n")+"\n"), 0o644); err != nil {
		t.Fatal(err)
	}
	http.DefaultTransport = old
	// the legacy variant flag: do the push call sites insist on a 2xx (finding F18 repaired)?
	strict := 0
	if c09ProbeStrict(t) {
		strict = 1
	}
	if err := os.WriteFile(filepath.Join(outdir, "variant_legacy.txt"), []byte(fmt.Sprintf("strict %d\n", strict)), 0o644); err != nil {
		t.Fatal(err)
	}
}
