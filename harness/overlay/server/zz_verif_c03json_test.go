package server

// C03 driver, part 6: well-formed JSON of the WRONG SHAPE (and badly encoded / oversized JSON) for every JSON
// answer the pull reads: the manifest and the token response; error bodies are only read as bytes.
//
// What a shape means for the model is found by decoding it with encoding/json into the code's own types
// (json is a black box whose observed behaviour enters the model as data): a manifest shape that decodes is
// served for `pass served` and the case's manifest IS the decoded value; one that does not decode is the reply
// `pass badjson-<shape>`; a token shape that decodes is a successful token answer, the others are failures.

import (
	"bytes"
	"encoding/json"
	"strings"
	"unicode/utf16"

	"github.com/ollama/ollama/api"
)

func c3UTF16(s string) []byte {
	out := []byte{0xFF, 0xFE}
	for _, u := range utf16.Encode([]rune(s)) {
		out = append(out, byte(u), byte(u>>8))
	}
	return out
}

var c3ManifestShapes = []string{
	// wrong shape / wrong types / bad encoding
	"null", "null-ws", "empty-obj", "layers-null", "config-null", "layers-empty", "layer-null", "layer-empty-obj",
	"digest-null", "digest-empty", "digest-missing", "arr", "str", "num", "true", "float", "layers-obj", "layers-num",
	"layers-str", "digest-num", "size-float", "size-string", "size-huge", "size-exp", "config-arr", "utf16", "utf8-bom", "empty",
	"trunc", "deep", "garbage", "nul-bytes",
	// the real manifest, decorated
	"dupkeys", "dupkeys-bad-first", "nested", "big10m", "trailing", "negsize", "hugesize", "unknown-fields", "case-keys",
}

// c3RawManifest renders manifest m in the given JSON shape (shapes that ignore m are the pure wrong-shape ones).
func c3RawManifest(shape string, m c3Manifest) []byte {
	real := c3ManifestJSON(m)
	firstDigest := "sha256:" + strings.Repeat("ab", 32)
	switch shape {
	case "null":
		return []byte("null")
	case "null-ws":
		return []byte(" \n\t null \r\n ")
	case "empty-obj":
		return []byte("{}")
	case "layers-null":
		return []byte(`{"schemaVersion":2,"layers":null}`)
	case "config-null":
		return []byte(`{"config":null}`)
	case "layers-empty":
		return []byte(`{"layers":[]}`)
	case "layer-null":
		return []byte(`{"layers":[null]}`)
	case "layer-empty-obj":
		return []byte(`{"layers":[{}]}`)
	case "digest-null":
		return []byte(`{"layers":[{"digest":null,"size":3}]}`)
	case "digest-empty":
		return []byte(`{"layers":[{"digest":"","size":3}]}`)
	case "digest-missing":
		return []byte(`{"layers":[{"mediaType":"application/vnd.ollama.image.model","size":3}]}`)
	case "arr":
		return []byte("[]")
	case "str":
		return []byte(`"x"`)
	case "num":
		return []byte("0")
	case "true":
		return []byte("true")
	case "float":
		return []byte("1.5")
	case "layers-obj":
		return []byte(`{"layers":{}}`)
	case "layers-num":
		return []byte(`{"layers":[1]}`)
	case "layers-str":
		return []byte(`{"layers":"x"}`)
	case "digest-num":
		return []byte(`{"layers":[{"digest":5}]}`)
	case "size-float":
		return []byte(`{"layers":[{"digest":"` + firstDigest + `","size":1.5}]}`)
	case "size-string":
		return []byte(`{"layers":[{"digest":"` + firstDigest + `","size":"12"}]}`)
	case "size-huge":
		return []byte(`{"layers":[{"digest":"` + firstDigest + `","size":99999999999999999999}]}`)
	case "size-exp":
		return []byte(`{"layers":[{"digest":"` + firstDigest + `","size":1e3}]}`)
	case "config-arr":
		return []byte(`{"config":[]}`)
	case "utf16":
		return c3UTF16(string(real))
	case "utf8-bom":
		return append([]byte{0xEF, 0xBB, 0xBF}, real...)
	case "empty":
		return nil
	case "trunc":
		return real[:len(real)/2]
	case "deep":
		return []byte(strings.Repeat("[", 20000) + strings.Repeat("]", 20000))
	case "garbage":
		return []byte("<html>oops")
	case "nul-bytes":
		return append([]byte{0, 0, 0}, real...)
	case "dupkeys":
		return append([]byte(`{"layers":[],"config":{"digest":"","size":7},`), real[1:]...)
	case "dupkeys-bad-first":
		return append([]byte(`{"layers":"junk",`), real[1:]...)
	case "nested":
		return append([]byte(`{"x":`+strings.Repeat("[", 200)+strings.Repeat("]", 200)+`,`), real[1:]...)
	case "big10m":
		return append([]byte(`{"x":"`+strings.Repeat("a", 10<<20)+`",`), real[1:]...)
	case "trailing":
		return append(append([]byte{}, real...), []byte(" garbage{{{")...)
	case "negsize", "hugesize":
		return real // the decoration is in m itself (see c3ShapeCase)
	case "unknown-fields":
		return append([]byte(`{"annotations":{"a":[1,2,{"b":null}]},"subject":null,`), real[1:]...)
	case "case-keys":
		return bytes.ReplaceAll(bytes.ReplaceAll(real, []byte(`"layers"`), []byte(`"LAYERS"`)), []byte(`"digest"`), []byte(`"Digest"`))
	}
	return real
}

// c3DecodeManifest: what the code's own type makes of the body (first JSON value, like json.Decoder.Decode).
func c3DecodeManifest(raw []byte) (c3Manifest, bool) {
	var m Manifest
	if err := json.NewDecoder(bytes.NewReader(raw)).Decode(&m); err != nil {
		return c3Manifest{}, false
	}
	// (media types of wrong-shape manifests are not part of the case: the decorations keep the usual ones or none)
	out := c3Manifest{config: c3Layer{c3RefOf(m.Config.Digest), m.Config.Size, 0}}
	for _, l := range m.Layers {
		out.layers = append(out.layers, c3Layer{c3RefOf(l.Digest), l.Size, 0})
	}
	return out, true
}

// c3StoredManifestJSON: what a successful pull of this case must store (PullModel re-marshals what it decoded).
func c3StoredManifestJSON(c *c3Case, a *c3Attempt) []byte {
	if a != nil && a.reg != nil {
		return c3ManifestJSON(*a.reg)
	}
	if c.rawManifest == "" {
		return c3ManifestJSON(c.reg)
	}
	var m Manifest
	_ = json.NewDecoder(bytes.NewReader(c3RawManifest(c.rawManifest, c.reg))).Decode(&m)
	b, _ := json.Marshal(m)
	return b
}

// c3ShapeCase turns a normal case into one whose manifest is served in `shape`; returns false if the shape does not
// decode (the caller then scripts `pass badjson-<shape>` instead).
func c3ShapeCase(c *c3Case, shape string) bool {
	switch shape {
	case "negsize":
		if len(c.reg.layers) > 0 {
			c.reg.layers[0].size = -5
		}
		c.reg.config.size = -1
	case "hugesize":
		if len(c.reg.layers) > 0 {
			c.reg.layers[0].size = 1<<63 - 1
		}
	}
	eff, ok := c3DecodeManifest(c3RawManifest(shape, c.reg))
	if !ok {
		return false
	}
	c.reg = eff
	c.rawManifest = shape
	// the shape must be a fixpoint: rendering the decoded manifest in the same shape decodes to itself (replay)
	if again, ok2 := c3DecodeManifest(c3RawManifest(shape, c.reg)); !ok2 || c3ManifestKey(again) != c3ManifestKey(eff) {
		panic("c03: manifest shape " + shape + " is not stable under decode")
	}
	return true
}

func c3ManifestKey(m c3Manifest) string {
	var sb strings.Builder
	m.line(&sb)
	return sb.String()
}

// ---- token answers

var c3TokenShapes = []string{"null", "empty-obj", "tokennull", "dup", "extra", "big", "arr", "str", "num", "true",
	"tokennum", "tokenobj", "tokenarr", "utf16", "trunc", "empty", "garbage", "status-json"}

func c3RawToken(shape, token string) (int, []byte) {
	switch shape {
	case "null":
		return 200, []byte("null")
	case "empty-obj":
		return 200, []byte("{}")
	case "tokennull":
		return 200, []byte(`{"token":null}`)
	case "dup":
		return 200, []byte(`{"token":"first","token":"` + token + `"}`)
	case "extra":
		return 200, []byte(`{"access_token":{"a":[1,[2,[3]]]},"expires_in":"soon","token":"` + token + `","issued_at":null}`)
	case "big":
		return 200, []byte(`{"x":"` + strings.Repeat("a", 10<<20) + `","token":"` + token + `"}`)
	case "arr":
		return 200, []byte("[]")
	case "str":
		return 200, []byte(`"tok"`)
	case "num":
		return 200, []byte("7")
	case "true":
		return 200, []byte("true")
	case "tokennum":
		return 200, []byte(`{"token":5}`)
	case "tokenobj":
		return 200, []byte(`{"token":{"value":"tok"}}`)
	case "tokenarr":
		return 200, []byte(`{"token":["tok"]}`)
	case "utf16":
		return 200, c3UTF16(`{"token":"` + token + `"}`)
	case "trunc":
		return 200, []byte(`{"token":"to`)
	case "empty":
		return 200, nil
	case "garbage":
		return 200, []byte("<html>login</html>")
	case "status-json":
		return 403, []byte(`{"errors":[{"code":"TOKERR","message":null}]}`)
	}
	return 200, []byte(`{"token":"` + token + `"}`)
}

// c3TokenShapeOK: does the code's own decode accept the shape (status < 400 and json.Unmarshal into api.TokenResponse ok)?
func c3TokenShapeOK(shape string) bool {
	status, body := c3RawToken(shape, "tok")
	if status >= 400 {
		return false
	}
	var tr api.TokenResponse
	return json.Unmarshal(body, &tr) == nil
}
