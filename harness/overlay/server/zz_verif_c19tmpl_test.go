package server

// C19 driver, template side: serialisation of the parse tree that the REAL template.Parse built
// (so that the Lean model executes the very same tree), and a generator of template sources in
// both styles (messages-style and legacy .System/.Prompt/.Response).

import (
	"fmt"
	"strings"
	"text/template/parse"

	"github.com/ollama/ollama/template"
	"github.com/ollama/ollama/zzverif"
)

type c19Unsupported struct{ why string }

func c19Bail(format string, a ...any) { panic(c19Unsupported{fmt.Sprintf(format, a...)}) }

func c19FieldName(name string, inMsgOK bool) string {
	switch name {
	case "System", "Prompt", "Response", "Messages", "Role", "Content", "Tools":
		return name
	case "Images", "ToolCalls":
		c19Bail("field %s", name)
	}
	if l := strings.ToLower(name); l == "messages" || l == "response" {
		c19Bail("field %s changes Vars()", name)
	}
	if strings.ContainsAny(name, " \t\n") {
		c19Bail("odd field name")
	}
	return name
}

func c19Arg(n parse.Node) string {
	switch x := n.(type) {
	case *parse.FieldNode:
		if len(x.Ident) != 1 {
			c19Bail("field chain %v", x.Ident)
		}
		return "f " + c19FieldName(x.Ident[0], true)
	case *parse.VariableNode:
		if len(x.Ident) != 2 || x.Ident[0] != "$" {
			c19Bail("variable %v", x.Ident)
		}
		return "v " + c19FieldName(x.Ident[1], false)
	case *parse.StringNode:
		return "s " + zzverif.Hex([]byte(x.Text))
	case *parse.PipeNode:
		return c19Pipe(x, false)
	}
	c19Bail("argument %T", n)
	return ""
}

var c19Arity = map[string]int{"eq": 2, "ne": 2, "not": 1, "and": 2, "or": 2}

func c19Pipe(p *parse.PipeNode, declOK bool) string {
	if p == nil {
		c19Bail("nil pipe")
	}
	if len(p.Decl) > 0 && !declOK {
		c19Bail("declaration")
	}
	if len(p.Cmds) != 1 {
		c19Bail("pipeline of %d commands", len(p.Cmds))
	}
	args := p.Cmds[0].Args
	if id, ok := args[0].(*parse.IdentifierNode); ok {
		ar, known := c19Arity[id.Ident]
		if !known || len(args) != ar+1 {
			c19Bail("function %s/%d", id.Ident, len(args)-1)
		}
		parts := []string{id.Ident}
		for _, a := range args[1:] {
			parts = append(parts, c19Arg(a))
		}
		return strings.Join(parts, " ")
	}
	if len(args) != 1 {
		c19Bail("%d arguments without function", len(args))
	}
	return c19Arg(args[0])
}

// mentionsResponseField: does the pipe contain a FieldNode whose Ident contains "Response"
// (the predicate of Execute's deleteNode)?
func c19MentionsResponse(n parse.Node) bool {
	switch x := n.(type) {
	case *parse.FieldNode:
		for _, id := range x.Ident {
			if id == "Response" {
				return true
			}
		}
	case *parse.PipeNode:
		for _, c := range x.Cmds {
			for _, a := range c.Args {
				if c19MentionsResponse(a) {
					return true
				}
			}
		}
	}
	return false
}

func c19List(l *parse.ListNode) string {
	if l == nil {
		return "0"
	}
	parts := []string{fmt.Sprint(len(l.Nodes))}
	for _, n := range l.Nodes {
		parts = append(parts, c19Node(n))
	}
	return strings.Join(parts, " ")
}

func c19Branch(tag string, b *parse.BranchNode, declOK bool) string {
	he := 0
	if b.ElseList != nil {
		he = 1
	}
	return fmt.Sprintf("%s %s %s %d %s", tag, c19Pipe(b.Pipe, declOK), c19List(b.List), he, c19List(b.ElseList))
}

func c19Node(n parse.Node) string {
	switch x := n.(type) {
	case *parse.TextNode:
		return "T " + zzverif.Hex(x.Text)
	case *parse.ActionNode:
		// `{{ json .Tools }}` prints what `{{ .Tools }}` prints (api.Tools.String() is json.Marshal)
		if p := x.Pipe; p != nil && len(p.Decl) == 0 && len(p.Cmds) == 1 && len(p.Cmds[0].Args) == 2 {
			if id, ok := p.Cmds[0].Args[0].(*parse.IdentifierNode); ok && id.Ident == "json" {
				if a := c19Arg(p.Cmds[0].Args[1]); a == "f Tools" || a == "v Tools" {
					return "A " + a
				}
			}
		}
		s := c19Pipe(x.Pipe, false)
		// a `.Response` field inside a larger expression would be cut in the middle of the pipeline
		if c19MentionsResponse(x.Pipe) && s != "f Response" {
			c19Bail("Response inside an expression")
		}
		return "A " + s
	case *parse.IfNode:
		return c19Branch("I", &x.BranchNode, false)
	case *parse.RangeNode:
		// `range $i, $_ := .Messages` declares variables; fine as long as nothing uses them
		// (any use is a VariableNode other than `$`, rejected above)
		return c19Branch("R", &x.BranchNode, true)
	}
	c19Bail("node %T", n)
	return ""
}

// c19Serialise returns "T <nodes>" for a template inside the modelled subset, "X" otherwise.
func c19Serialise(tm *template.Template) (s string, why string) {
	defer func() {
		if r := recover(); r != nil {
			if u, ok := r.(c19Unsupported); ok {
				s, why = "X", u.why
				return
			}
			panic(r)
		}
	}()
	if len(tm.Templates()) != 1 {
		c19Bail("associated templates")
	}
	return "T " + c19List(tm.Tree.Root), ""
}

// ---------------------------------------------------------------- generator of template sources

var c19TmplText = []string{" ", "\n", "<|im_start|>", "<|im_end|>\n", "### ", ": ", "[INST] ", " [/INST]", "</s>", "a b", "x", "\n\n", "<<SYS>>", "|"}

func c19Open(r *zzverif.Rng) string {
	if r.Chance(1, 4) {
		return "{{- "
	}
	return "{{ "
}

func c19Close(r *zzverif.Rng) string {
	if r.Chance(1, 5) {
		return " -}}"
	}
	return " }}"
}

func c19Act(r *zzverif.Rng, body string) string { return c19Open(r) + body + c19Close(r) }

// conditions usable inside `range .Messages`
func c19MsgCond(r *zzverif.Rng, depth int) string {
	role := zzverif.Pick(r, []string{"user", "assistant", "system", "tool"})
	switch r.Intn(9) {
	case 0, 1, 2:
		return fmt.Sprintf(`eq .Role "%s"`, role)
	case 3:
		return fmt.Sprintf(`ne .Role "%s"`, role)
	case 4:
		return ".Content"
	case 5:
		return "$.System"
	case 6:
		if depth > 0 {
			return fmt.Sprintf("and (%s) (%s)", c19MsgCond(r, depth-1), c19MsgCond(r, depth-1))
		}
	case 7:
		if depth > 0 {
			return fmt.Sprintf("or (%s) (%s)", c19MsgCond(r, depth-1), c19MsgCond(r, depth-1))
		}
	case 8:
		if depth > 0 {
			return fmt.Sprintf("not (%s)", c19MsgCond(r, depth-1))
		}
	}
	return fmt.Sprintf(`eq .Role "%s"`, role)
}

func c19MsgBody(r *zzverif.Rng, depth int) string {
	var sb strings.Builder
	for k := r.Range(1, 4); k > 0; k-- {
		switch x := r.Intn(12); {
		case x < 3:
			sb.WriteString(zzverif.Pick(r, c19TmplText))
		case x < 5:
			sb.WriteString(c19Act(r, ".Role"))
		case x < 8:
			sb.WriteString(c19Act(r, ".Content"))
		case x == 8:
			sb.WriteString(c19Act(r, zzverif.Pick(r, []string{"$.System", "$.System", "$.Tools"})))
		case x == 9 && r.Chance(1, 6):
			sb.WriteString(c19Act(r, ".Missing")) // exec error inside a message
		default:
			if depth == 0 {
				sb.WriteString(c19Act(r, ".Content"))
				continue
			}
			sb.WriteString(c19Act(r, "if "+c19MsgCond(r, 1)))
			sb.WriteString(c19MsgBody(r, depth-1))
			if r.Chance(1, 3) {
				sb.WriteString(c19Act(r, "else if "+c19MsgCond(r, 0)))
				sb.WriteString(c19MsgBody(r, depth-1))
			}
			if r.Chance(1, 2) {
				sb.WriteString(c19Act(r, "else"))
				sb.WriteString(c19MsgBody(r, depth-1))
			}
			sb.WriteString(c19Act(r, "end"))
		}
	}
	return sb.String()
}

func c19GenMessagesTemplate(r *zzverif.Rng) string {
	var sb strings.Builder
	ranges := 0
	for k := r.Range(1, 4); k > 0 || ranges == 0; k-- {
		switch x := r.Intn(10); {
		case x < 2:
			sb.WriteString(zzverif.Pick(r, c19TmplText))
		case x == 2:
			sb.WriteString(c19Act(r, ".System"))
		case x == 3:
			sb.WriteString(c19Act(r, "if .System") + zzverif.Pick(r, c19TmplText) + c19Act(r, ".System"))
			if r.Chance(1, 3) {
				sb.WriteString(c19Act(r, "else") + zzverif.Pick(r, c19TmplText))
			}
			sb.WriteString(c19Act(r, "end"))
		case x == 4:
			sb.WriteString(c19Act(r, zzverif.Pick(r, []string{".Response", ".Prompt", ".Missing", `eq .System "x"`, `not .System`, `and .System "y"`, `or .Missing .System`, ".Tools", "json .Tools", `or .Tools "none"`})))
		case x == 5 && r.Chance(1, 2):
			sb.WriteString(c19Act(r, zzverif.Pick(r, []string{"if .Tools", "if and .Tools .System", "if not .Tools"})) + zzverif.Pick(r, c19TmplText) + c19Act(r, ".Tools") + c19Act(r, "end"))
		default:
			ranges++
			head := "range .Messages"
			switch r.Intn(6) {
			case 0:
				head = "range $i, $_ := .Messages"
			case 1:
				head = "range $.Messages"
			}
			sb.WriteString(c19Act(r, head))
			sb.WriteString(c19MsgBody(r, 2))
			if r.Chance(1, 5) {
				sb.WriteString(c19Act(r, "else") + zzverif.Pick(r, c19TmplText))
			}
			sb.WriteString(c19Act(r, "end"))
		}
	}
	return sb.String()
}

func c19LegacyItems(r *zzverif.Rng, depth int, allowElseResponse bool) string {
	var sb strings.Builder
	for k := r.Range(1, 5); k > 0; k-- {
		switch x := r.Intn(12); {
		case x < 3:
			sb.WriteString(zzverif.Pick(r, c19TmplText))
		case x == 3:
			sb.WriteString(c19Act(r, ".System"))
		case x < 6:
			sb.WriteString(c19Act(r, ".Prompt"))
		case x == 6:
			sb.WriteString(c19Act(r, ".Response"))
		case x == 7:
			sb.WriteString(c19Act(r, zzverif.Pick(r, []string{".Missing", `eq .System "x"`, `and .System .Prompt`, `or .System "dflt"`, `not .Prompt`, "$.Prompt", "$.Response"})))
		default:
			if depth == 0 {
				sb.WriteString(c19Act(r, ".Prompt"))
				continue
			}
			cond := zzverif.Pick(r, []string{".System", ".Prompt", ".Response", ".Response", "and .System .Prompt", "or .System .Response", "not .System", `ne .Prompt ""`})
			sb.WriteString(c19Act(r, "if "+cond))
			inner := c19LegacyItems(r, depth-1, allowElseResponse)
			sb.WriteString(inner)
			// `.Response` inside an if WITH an else branch makes deleteNode panic (F4c): rare
			if !strings.Contains(inner, ".Response") || allowElseResponse {
				if r.Chance(1, 3) {
					sb.WriteString(c19Act(r, "else"))
					sb.WriteString(c19LegacyItems(r, depth-1, allowElseResponse))
				}
			}
			sb.WriteString(c19Act(r, "end"))
		}
	}
	return sb.String()
}

func c19GenLegacyTemplate(r *zzverif.Rng) string {
	return c19LegacyItems(r, 2, r.Chance(1, 12))
}

// ---------------------------------------------------------------- Tie 1: the harness templates' trees as Lean terms

func c19LeanBytes(b []byte) string {
	parts := make([]string, len(b))
	for i, x := range b {
		parts[i] = fmt.Sprint(x)
	}
	return "[" + strings.Join(parts, ", ") + "]"
}

func c19LeanFld(name string) string {
	switch name {
	case "System", "Prompt", "Response", "Messages", "Role", "Content", "Tools":
		return "." + strings.ToLower(name)
	}
	return ".other"
}

func c19LeanArg(n parse.Node) string {
	switch x := n.(type) {
	case *parse.FieldNode:
		return ".field " + c19LeanFld(x.Ident[0])
	case *parse.VariableNode:
		return ".root " + c19LeanFld(x.Ident[1])
	case *parse.StringNode:
		return ".str " + c19LeanBytes([]byte(x.Text))
	case *parse.PipeNode:
		return c19LeanPipe(x)
	}
	c19Bail("argument %T", n)
	return ""
}

func c19LeanPipe(p *parse.PipeNode) string {
	args := p.Cmds[0].Args
	if id, ok := args[0].(*parse.IdentifierNode); ok {
		s := "." + id.Ident
		for _, a := range args[1:] {
			s += " (" + c19LeanArg(a) + ")"
		}
		return s
	}
	return c19LeanArg(args[0])
}

func c19LeanList(l *parse.ListNode) string {
	if l == nil {
		return "[]"
	}
	parts := make([]string, len(l.Nodes))
	for i, n := range l.Nodes {
		switch x := n.(type) {
		case *parse.TextNode:
			parts[i] = ".text " + c19LeanBytes(x.Text)
		case *parse.ActionNode:
			parts[i] = ".action (" + c19LeanPipe(x.Pipe) + ")"
		case *parse.IfNode:
			parts[i] = fmt.Sprintf(".ite (%s) %s %v %s", c19LeanPipe(x.Pipe), c19LeanList(x.List), x.ElseList != nil, c19LeanList(x.ElseList))
		case *parse.RangeNode:
			parts[i] = fmt.Sprintf(".range (%s) %s %v %s", c19LeanPipe(x.Pipe), c19LeanList(x.List), x.ElseList != nil, c19LeanList(x.ElseList))
		default:
			c19Bail("node %T", n)
		}
	}
	return "[" + strings.Join(parts, ", ") + "]"
}

// c19RendersAllContent: does the SOURCE of the template show that every message's content is printed?
// (a top-level `range` over .Messages / $.Messages whose body has a top-level `{{ .Content }}`).
// Purely syntactic, on the parse tree: it does not use Execute or Vars, so it states what the template
// author asked for even when the template layer misbehaves.
func c19RendersAllContent(tm *template.Template) bool {
	overMessages := func(p *parse.PipeNode) bool {
		if p == nil || len(p.Cmds) != 1 || len(p.Cmds[0].Args) != 1 {
			return false
		}
		switch x := p.Cmds[0].Args[0].(type) {
		case *parse.FieldNode:
			return len(x.Ident) == 1 && x.Ident[0] == "Messages"
		case *parse.VariableNode:
			return len(x.Ident) == 2 && x.Ident[0] == "$" && x.Ident[1] == "Messages"
		}
		return false
	}
	for _, n := range tm.Tree.Root.Nodes {
		rn, ok := n.(*parse.RangeNode)
		if !ok || !overMessages(rn.Pipe) || rn.List == nil {
			continue
		}
		for _, b := range rn.List.Nodes {
			if a, ok := b.(*parse.ActionNode); ok && a.Pipe != nil && len(a.Pipe.Decl) == 0 && len(a.Pipe.Cmds) == 1 && len(a.Pipe.Cmds[0].Args) == 1 {
				if f, ok := a.Pipe.Cmds[0].Args[0].(*parse.FieldNode); ok && len(f.Ident) == 1 && f.Ident[0] == "Content" {
					return true
				}
			}
		}
	}
	return false
}
