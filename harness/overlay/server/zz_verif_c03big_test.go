package server

// C03 driver, part 4: resume from REAL multi-part state (>= 11 parts, > 1 GB) end to end.
//
// The blob is virtual: byte i is a deterministic function of (seed, i); it is never held in memory.
// Attempt 1 is a fresh pull of the real PullModel (HEAD -> real part plan) in which the CDN lets some
// parts complete, cuts some half way (progress persisted) and fails the rest, so the attempt ends with
// "max retries exceeded" and leaves the sparse -partial file and the -partial-N records exactly the way
// an interrupted attempt does.  Attempt 2 is honest.  L1 (reduced, no bytes): records after attempt 1,
// b.Parts order / b.Total of the real Prepare on that state, the ranges attempt 2 asks for.
// L2: the retry succeeds and the stored layer has the right size and SHA-256.

import (
	"context"
	"crypto/sha256"
	"encoding/binary"
	"encoding/hex"
	"errors"
	"fmt"
	"io"
	"net/http"
	"net/url"
	"os"
	"path/filepath"
	"regexp"
	"runtime"
	"sort"
	"strconv"
	"strings"
	"sync"
	"testing"
	"testing/synctest"
	"time"

	"github.com/ollama/ollama/api"
	"github.com/ollama/ollama/zzverif"
)

type c3Virt struct {
	seed uint64
	size int64
}

func c3Mix(x uint64) uint64 {
	x = (x ^ (x >> 30)) * 0xBF58476D1CE4E5B9
	x = (x ^ (x >> 27)) * 0x94D049BB133111EB
	return x ^ (x >> 31)
}

// fill writes the bytes [off, off+len(p)) of the virtual blob into p.
func (v c3Virt) fill(p []byte, off int64) {
	i := 0
	for i < len(p) && (off+int64(i))&7 != 0 {
		o := off + int64(i)
		p[i] = byte(c3Mix(v.seed+uint64(o>>3)*0x9E3779B97F4A7C15) >> (8 * uint(o&7)))
		i++
	}
	for ; i+8 <= len(p); i += 8 {
		o := off + int64(i)
		binary.LittleEndian.PutUint64(p[i:], c3Mix(v.seed+uint64(o>>3)*0x9E3779B97F4A7C15))
	}
	for ; i < len(p); i++ {
		o := off + int64(i)
		p[i] = byte(c3Mix(v.seed+uint64(o>>3)*0x9E3779B97F4A7C15) >> (8 * uint(o&7)))
	}
}

var c3VirtDigests sync.Map // "seed/size" -> hex digest, computed once by streaming

func (v c3Virt) digest() string {
	key := fmt.Sprintf("%d/%d", v.seed, v.size)
	if d, ok := c3VirtDigests.Load(key); ok {
		return d.(string)
	}
	h := sha256.New()
	buf := make([]byte, 4<<20)
	for off := int64(0); off < v.size; off += int64(len(buf)) {
		n := int64(len(buf))
		if off+n > v.size {
			n = v.size - off
		}
		v.fill(buf[:n], off)
		h.Write(buf[:n])
	}
	d := hex.EncodeToString(h.Sum(nil))
	c3VirtDigests.Store(key, d)
	return d
}

type c3VirtBody struct {
	v        c3Virt
	pos, end int64
	ueof     bool
}

func (b *c3VirtBody) Read(p []byte) (int, error) {
	if b.pos >= b.end {
		if b.ueof {
			return 0, io.ErrUnexpectedEOF
		}
		return 0, io.EOF
	}
	n := int64(len(p))
	if n > b.end-b.pos {
		n = b.end - b.pos
	}
	b.v.fill(p[:n], b.pos)
	b.pos += n
	return int(n), nil
}

func (b *c3VirtBody) Close() error { return nil }

// modes per part number N: "ok" | "fail" | "half" (half = size/2 bytes then ErrUnexpectedEOF, then failures)
type c3BigNet struct {
	mu     sync.Mutex
	v      c3Virt
	dig    string
	models string
	modes  []string // nil = honest
	tries  map[int]int
	reqs   map[string]bool
}

func (n *c3BigNet) RoundTrip(req *http.Request) (*http.Response, error) {
	n.mu.Lock()
	defer n.mu.Unlock()
	if err := req.Context().Err(); err != nil {
		return nil, err
	}
	host, path := req.URL.Hostname(), req.URL.Path
	switch {
	case host == c3RegHost && strings.Contains(path, "/manifests/"):
		return c3Resp(req, 200, nil, c3BytesBody(c3ManifestJSON(c3Manifest{layers: []c3Layer{{n.dig, n.v.size, 0}}, config: c3Layer{"e", 0, 0}}))), nil
	case host == c3RegHost && strings.Contains(path, "/blobs/"):
		if req.Method == http.MethodHead {
			return c3Resp(req, 200, map[string]string{"Content-Length": strconv.FormatInt(n.v.size, 10)}, nil), nil
		}
		return c3Resp(req, 307, map[string]string{"Location": "https://" + c3CDNHost + "/blob/" + n.dig}, nil), nil
	case host == c3CDNHost:
		var s, e int64
		if _, err := fmt.Sscanf(req.Header.Get("Range"), "bytes=%d-%d", &s, &e); err != nil {
			return nil, errors.New("NETERR bad range")
		}
		N := (&c3Net{models: n.models}).partIndex(n.dig, e+1)
		n.reqs[fmt.Sprintf("%d:%d-%d", N, s, e)] = true
		mode := "ok"
		if n.modes != nil && N >= 0 && N < len(n.modes) {
			mode = n.modes[N]
		}
		try := n.tries[N]
		n.tries[N]++
		switch {
		case mode == "fail", mode == "half" && try > 0:
			return nil, errors.New("NETERR")
		case mode == "half":
			return c3Resp(req, 206, nil, &c3VirtBody{v: n.v, pos: s, end: s + (e+1-s)/2, ueof: true}), nil
		}
		return c3Resp(req, 206, nil, &c3VirtBody{v: n.v, pos: s, end: e + 1}), nil
	}
	return nil, errors.New("TOKNET unknown endpoint " + req.URL.String())
}

var c3PathRe = regexp.MustCompile(`/\S*/blobs/sha256-[0-9a-f]{52}`)

// c3Sanitize removes run-specific temp paths from an error class (details must be a function of the case).
func c3Sanitize(s string) string { return c3PathRe.ReplaceAllString(s, "blobs/sha256-") }

func c3BigPull(t *testing.T, net *c3BigNet) string {
	old := http.DefaultTransport
	http.DefaultTransport = net
	defer func() { http.DefaultTransport = old }()
	var class string
	synctest.Test(t, func(t *testing.T) {
		func() {
			defer func() {
				if r := recover(); r != nil {
					class = fmt.Sprintf("panic:%v", r)
				}
			}()
			class = c3Classify(PullModel(context.Background(), c3ModelName(0), &registryOptions{}, func(api.ProgressResponse) {}))
		}()
		synctest.Wait()
	})
	if strings.HasPrefix(class, "panic") {
		c3ResetManager()
	}
	return c3Sanitize(class)
}

func c3BigRecords(models, dig string) (string, string) {
	d := c3ReadDisk(models)
	var idx []int
	for i := range d.parts[dig] {
		idx = append(idx, i)
	}
	sort.Ints(idx)
	var shown, toks []string
	for _, i := range idx {
		j := d.parts[dig][i]
		shown = append(shown, fmt.Sprintf("%d/%d/%d", j.Offset, j.Size, j.Completed))
		toks = append(toks, fmt.Sprintf("%d %d %d", j.Offset, j.Size, j.Completed))
	}
	return fmt.Sprintf("%d %s", len(idx), strings.Join(shown, ",")), fmt.Sprintf("%d %s", len(idx), strings.Join(toks, " "))
}

// c3BigCase: line = "big <nparts> <seed> <mode of part 0> ... <mode of part nparts-1>"
func c3BigCase(t *testing.T, out *zzverif.Out, line string) {
	if !c3Begin(out, line) {
		return
	}
	defer out.Flush()
	f := strings.Fields(line)
	nparts, _ := strconv.Atoi(f[1])
	seed, _ := strconv.ParseUint(f[2], 10, 64)
	modes := f[3:]
	total := int64(nparts-1)*minDownloadPartSize + 4096 + 17
	v := c3Virt{seed, total}
	dig := v.digest()
	home, err := os.MkdirTemp("", "verif-c03-big-")
	if err != nil {
		t.Fatal(err)
	}
	defer os.RemoveAll(home)
	models := filepath.Join(home, "models")
	_ = os.MkdirAll(filepath.Join(models, "blobs"), 0o755)
	os.Setenv("OLLAMA_MODELS", models)
	os.Unsetenv("OLLAMA_NOPRUNE")
	out.Count("big_cases")
	out.Count(fmt.Sprintf("big_parts_%d", nparts))

	// attempt 1: fresh pull, interrupted
	n1 := &c3BigNet{v: v, dig: dig, models: models, modes: modes, tries: map[int]int{}, reqs: map[string]bool{}}
	class1 := c3BigPull(t, n1)
	shown, toks := c3BigRecords(models, dig)
	var ms []string
	for i, m := range modes {
		if m == "half" {
			size := minDownloadPartSize
			if i == nparts-1 {
				size = total - int64(nparts-1)*minDownloadPartSize
			}
			m = fmt.Sprintf("half %d", size/2)
		}
		ms = append(ms, m)
	}
	out.Case(fmt.Sprintf("bigstate %d %d %d %d %d %s", numDownloadParts, minDownloadPartSize, maxDownloadPartSize, total, len(modes), strings.Join(ms, " ")), shown)
	if class1 != "err:max-retries" {
		out.L2("big-attempt-1", line, "the interrupted attempt ended with "+class1+" instead of err:max-retries")
	}

	// what the real Prepare makes of that state (no request is made when records exist)
	order := func() string {
		b := &blobDownload{Name: filepath.Join(models, "blobs", "sha256-"+dig), Digest: "sha256:" + dig}
		old := http.DefaultTransport
		http.DefaultTransport = &c3BigNet{v: v, dig: dig, models: models, tries: map[int]int{}, reqs: map[string]bool{}}
		defer func() { http.DefaultTransport = old }()
		u, _ := url.Parse("https://" + c3RegHost + "/v2/ns/m0/blobs/sha256:" + dig)
		if err := b.Prepare(context.Background(), u, &registryOptions{}); err != nil {
			return "err:prepare:" + c3Sanitize(err.Error())
		}
		var o []string
		for _, p := range b.Parts {
			o = append(o, strconv.Itoa(p.N))
		}
		return fmt.Sprintf("order=%s total=%d", strings.Join(o, ","), b.Total)
	}()

	// attempt 2: honest
	n2 := &c3BigNet{v: v, dig: dig, models: models, tries: map[int]int{}, reqs: map[string]bool{}}
	class2 := c3BigPull(t, n2)
	var reqs []string
	for r := range n2.reqs {
		reqs = append(reqs, r)
	}
	sort.Slice(reqs, func(i, j int) bool {
		a, _ := strconv.Atoi(strings.SplitN(reqs[i], ":", 2)[0])
		b, _ := strconv.Atoi(strings.SplitN(reqs[j], ":", 2)[0])
		return a < b
	})
	out.Case("resumereq "+toks, order+" req="+strings.Join(reqs, ";"))

	// L2: a later retry succeeds and the layer verifies
	if class2 != "ok" {
		out.L2("retry-stuck", line, fmt.Sprintf("resume of an interrupted %d-part download: last=%s prepare=%s", nparts, class2, order))
		return
	}
	fp := filepath.Join(models, "blobs", "sha256-"+dig)
	fh, err := os.Open(fp)
	if err != nil {
		out.L2("success-missing-layer", line, "layer="+dig[:12]+" after the resumed pull")
		return
	}
	defer fh.Close()
	h := sha256.New()
	sz, _ := io.Copy(h, fh)
	if got := hex.EncodeToString(h.Sum(nil)); got != dig {
		out.L2("success-corrupt-layer", line, "layer="+dig[:12]+" origin=fresh resumed multi-part download")
	} else if sz != total {
		out.L2("success-size-mismatch", line, fmt.Sprintf("layer=%s declared=%d actual=%d", dig[:12], total, sz))
	}
	out.Count("big_ok")
}

// c3BigLines: the big histories of a run (quick: one 11-part case; thorough: 11, 12 and 16 parts).
func c3BigLines(r *zzverif.Rng, thorough bool) []string {
	mk := func(nparts int, pattern func(i int) string) string {
		// the blob seed is fixed (its digest is cached per size); the run's seed rotates which parts fail
		s := []string{"big", strconv.Itoa(nparts), "1"}
		rot := r.Intn(3)
		for i := 0; i < nparts; i++ {
			s = append(s, pattern(i+rot))
		}
		return strings.Join(s, " ")
	}
	cyc := func(i int) string { return []string{"ok", "half", "fail"}[i%3] }
	lines := []string{mk(11, cyc)}
	if thorough {
		lines = append(lines, mk(12, func(i int) string { return []string{"fail", "ok", "half"}[i%3] }), mk(16, cyc))
	}
	return lines
}

// ---------------------------------------------------------------- F21: the caller goes away before Run has started

type c3CancelAfterManifest struct {
	inner  *c3Net
	cancel context.CancelFunc
}

func (n c3CancelAfterManifest) RoundTrip(req *http.Request) (*http.Response, error) {
	resp, err := n.inner.RoundTrip(req)
	if strings.Contains(req.URL.Path, "/manifests/") {
		n.cancel() // e.g. ctrl-c of `ollama pull` / the API client disconnects right after the manifest was served
	}
	return resp, err
}

// TestVerifC03F21: resume records exist (so Prepare makes no request) and the caller's context is cancelled
// between the manifest response and blobDownload.Wait.  Wait returns at once and its deferred release() calls
// b.CancelFunc, which the Run goroutine has not assigned yet.  L2: no panic; the pull reports the cancellation.
func TestVerifC03F21(t *testing.T) {
	if os.Getenv("VERIF_OUT") == "" {
		t.Skip("verification driver; run through /verif/check")
	}
	out := zzverif.NewOut()
	defer out.Close()
	c3Setup(t, t.TempDir())
	caseLine := "f21 one layer with resume records [0/27/0]; caller context cancelled right after the manifest response; honest registry"
	for i := 0; i < zzverif.EnvInt("VERIF_NF21", 5); i++ {
		c := c3NewCase("f21")
		A := []byte("layer-A-contents-0123456789")
		dA := c.addLayer(A, false)
		c.partials = []c3Partial{{dig: dA, hasData: true, data: make([]byte, len(A)), parts: []c3Part{{0, int64(len(A)), 0}}}}
		c.fixUniv()
		models := filepath.Join(t.TempDir(), "models")
		c3Materialise(c, models)
		os.Setenv("OLLAMA_MODELS", models)
		old := http.DefaultTransport
		res := ""
		synctest.Test(t, func(t *testing.T) {
			ctx, cancel := context.WithCancel(context.Background())
			defer cancel()
			http.DefaultTransport = c3CancelAfterManifest{c3NewNet(c, &c3Attempt{}, models), cancel}
			func() {
				defer func() {
					if r := recover(); r != nil {
						buf := make([]byte, 1<<16)
						buf = buf[:runtime.Stack(buf, false)]
						site := "unknown"
						if strings.Contains(string(buf), "blobDownload).release") {
							site = "release"
						}
						res = fmt.Sprintf("panic site=%s: %v", site, r)
					}
				}()
				res = c3Classify(PullModel(ctx, c3ModelName(0), &registryOptions{}, func(api.ProgressResponse) {}))
			}()
			time.Sleep(1000 * time.Second) // a download that was not cancelled runs on in the background
			synctest.Wait()
		})
		http.DefaultTransport = old
		c3ResetManager()
		out.Count("f21_runs")
		switch {
		case strings.HasPrefix(res, "panic"):
			out.Count("f21_panics")
			out.L2("panic", caseLine, strings.TrimPrefix(res, "panic ")+" (blobDownload.CancelFunc is still nil: it is assigned inside the Run goroutine)")
		case res != "err:canceled":
			out.L2("cancel-not-reported", caseLine, "PullModel returned "+res+" for a cancelled context")
		default:
			out.Count("f21_canceled_cleanly")
		}
	}
}
