package server

// C03 driver, part 1: case representation, line protocol (serialise + parse).
// Added to package server with `go test -overlay`; never committed to /repo.

import (
	"fmt"
	"sort"
	"strconv"
	"strings"

	"github.com/ollama/ollama/zzverif"
)

type c3Layer struct {
	ref  string // "e" (empty digest), "b" (bad format) or 64 hex digits
	size int64
	mt   int // media type: 0 = the usual one for the position (model layer / config), k > 0 = c3MediaTypes[k]
}

// c3MediaTypes: the alphabet of descriptor media types a (re-)published manifest may carry besides the default.
var c3MediaTypes = []string{"", "application/vnd.ollama.image.template", "application/vnd.ollama.image.license",
	"application/vnd.ollama.image.params", "application/vnd.ollama.image.adapter", "application/octet-stream"}

func (l c3Layer) refTok() string {
	if l.mt == 0 {
		return l.ref
	}
	return l.ref + "@" + strconv.Itoa(l.mt)
}

func c3ParseRef(t string) (string, int) {
	if i := strings.IndexByte(t, '@'); i >= 0 {
		k, _ := strconv.Atoi(t[i+1:])
		return t[:i], k
	}
	return t, 0
}

type c3Manifest struct {
	layers []c3Layer
	config c3Layer
}

func (m c3Manifest) all() []c3Layer {
	out := append([]c3Layer{}, m.layers...)
	if m.config.ref != "e" {
		out = append(out, m.config)
	}
	return out
}

type c3Part struct{ off, size, done int64 }

type c3Partial struct {
	dig     string
	hasData bool
	data    []byte
	parts   []c3Part
}

type c3Reply struct {
	kind string // pass | neterr | unauth | notfound | status
	arg  string // pass: served|badjson|<n>|redirect|redirect200|noloc|badstatus ; unauth: header (raw bytes)
}

type c3Chunk struct {
	neterr bool
	src    string // honest | full | junk | flip
	junk   []byte
	flip   int
	cut    int // -1 = none
	end    string
}

type c3LScript struct {
	dig    string
	head   []c3Reply
	direct []c3Reply
	chunks [][]c3Chunk
}

type c3Attempt struct {
	ms     []c3Reply
	tok    []bool
	ls     []c3LScript
	cancel string // "" | "start" | "verifying <k>" | "writing": the caller cancels at that progress callback
	// realisation details the model does not see (kept in the line for replay):
	tokShape []string // JSON shape of the i-th scripted token answer ("" = the usual one); consistent with tok[i]
	validate bool     // the registry really validates bearer tokens (tokens of earlier attempts are expired); the
	//                   401 at the head of ms is then produced by that validation, not by the script
	reg *c3Manifest // the tag was re-published: the manifest the registry serves in THIS attempt (nil = the case's reg)
}

// regOf: the manifest the registry serves in attempt a.
func (c *c3Case) regOf(a *c3Attempt) c3Manifest {
	if a != nil && a.reg != nil {
		return *a.reg
	}
	return c.reg
}

// allRegs: every manifest served at some point of the history.
func (c *c3Case) allRegs() []c3Manifest {
	out := []c3Manifest{c.reg}
	for i := range c.attempts {
		if c.attempts[i].reg != nil {
			out = append(out, *c.attempts[i].reg)
		}
	}
	return out
}

type c3Man struct {
	name    int
	corrupt bool
	m       c3Manifest
}

type c3Blob struct {
	dig     string
	content []byte
}

type c3Case struct {
	nparts, minSize, maxSize int64
	retries                  int
	variant                  int // bit mask of repaired behaviours the tree under test shows (see c3ProbeVariant)
	noprune                  bool
	univ                     []string
	blobs                    []c3Blob
	partials                 []c3Partial
	manifests                []c3Man
	name                     int
	realm                    []byte
	reg                      c3Manifest
	content                  []c3Blob
	attempts                 []c3Attempt
	rawManifest              string // JSON shape in which reg is served ("" = plain json.Marshal); see c3RawManifest
	tag                      string // generator label (stats only, not part of the line)
}

func c3b(b bool) string {
	if b {
		return "1"
	}
	return "0"
}

func (m c3Manifest) line(sb *strings.Builder) {
	fmt.Fprintf(sb, " %d", len(m.layers))
	for _, l := range m.layers {
		fmt.Fprintf(sb, " %s %s", l.refTok(), c3SizeTok(l.size))
	}
	fmt.Fprintf(sb, " %s %s", m.config.refTok(), c3SizeTok(m.config.size))
}

func (r c3Reply) line(sb *strings.Builder) {
	switch r.kind {
	case "pass":
		fmt.Fprintf(sb, " pass %s", r.arg)
	case "unauth":
		fmt.Fprintf(sb, " unauth %s", zzverif.Hex([]byte(r.arg)))
	default:
		sb.WriteString(" " + r.kind)
	}
}

func (c c3Chunk) line(sb *strings.Builder) {
	if c.neterr {
		sb.WriteString(" neterr")
		return
	}
	sb.WriteString(" body ")
	switch c.src {
	case "junk":
		sb.WriteString("junk " + zzverif.Hex(c.junk))
	case "flip":
		fmt.Fprintf(sb, "flip %d", c.flip)
	default:
		sb.WriteString(c.src)
	}
	if c.cut < 0 {
		sb.WriteString(" -")
	} else {
		fmt.Fprintf(sb, " %d", c.cut)
	}
	sb.WriteString(" " + c.end)
}

func (a c3Attempt) line(sb *strings.Builder) {
	fmt.Fprintf(sb, " ms %d", len(a.ms))
	for _, r := range a.ms {
		r.line(sb)
	}
	fmt.Fprintf(sb, " tok %d", len(a.tok))
	for _, t := range a.tok {
		sb.WriteString(" " + c3b(t))
	}
	fmt.Fprintf(sb, " ls %d", len(a.ls))
	for _, l := range a.ls {
		fmt.Fprintf(sb, " %s head %d", l.dig, len(l.head))
		for _, r := range l.head {
			r.line(sb)
		}
		fmt.Fprintf(sb, " direct %d", len(l.direct))
		for _, r := range l.direct {
			r.line(sb)
		}
		fmt.Fprintf(sb, " chunks %d", len(l.chunks))
		for _, cs := range l.chunks {
			fmt.Fprintf(sb, " %d", len(cs))
			for _, c := range cs {
				c.line(sb)
			}
		}
	}
	if a.cancel == "" {
		sb.WriteString(" cancel none")
	} else {
		sb.WriteString(" cancel " + a.cancel)
	}
	fmt.Fprintf(sb, " tokshape %d", len(a.tokShape))
	for _, t := range a.tokShape {
		if t == "" {
			t = "-"
		}
		sb.WriteString(" " + t)
	}
	sb.WriteString(" validate " + c3b(a.validate))
	if a.reg == nil {
		sb.WriteString(" rereg 0")
	} else {
		sb.WriteString(" rereg 1")
		a.reg.line(sb)
	}
}

// line renders the oracle command of the case.
func (c *c3Case) line() string {
	var sb strings.Builder
	fmt.Fprintf(&sb, "pull cfg %d %d %d %d %s %s", c.nparts, c.minSize, c.maxSize, c.retries, strconv.Itoa(c.variant), c3b(c.noprune))
	fmt.Fprintf(&sb, " univ %d", len(c.univ))
	for _, d := range c.univ {
		sb.WriteString(" " + d)
	}
	fmt.Fprintf(&sb, " blobs %d", len(c.blobs))
	for _, b := range c.blobs {
		fmt.Fprintf(&sb, " %s %s", b.dig, zzverif.Hex(b.content))
	}
	fmt.Fprintf(&sb, " partials %d", len(c.partials))
	for _, p := range c.partials {
		data := "none"
		if p.hasData {
			data = zzverif.Hex(p.data)
		}
		fmt.Fprintf(&sb, " %s %s %d", p.dig, data, len(p.parts))
		for _, q := range p.parts {
			fmt.Fprintf(&sb, " %d %d %d", q.off, q.size, q.done)
		}
	}
	fmt.Fprintf(&sb, " manifests %d", len(c.manifests))
	for _, m := range c.manifests {
		if m.corrupt {
			fmt.Fprintf(&sb, " %d corrupt", m.name)
		} else {
			fmt.Fprintf(&sb, " %d m", m.name)
			m.m.line(&sb)
		}
	}
	fmt.Fprintf(&sb, " name %d realm %s reg", c.name, zzverif.Hex(c.realm))
	c.reg.line(&sb)
	fmt.Fprintf(&sb, " content %d", len(c.content))
	for _, b := range c.content {
		fmt.Fprintf(&sb, " %s %s", b.dig, zzverif.Hex(b.content))
	}
	fmt.Fprintf(&sb, " attempts %d", len(c.attempts))
	for _, a := range c.attempts {
		a.line(&sb)
	}
	if c.rawManifest == "" {
		sb.WriteString(" raw -")
	} else {
		sb.WriteString(" raw " + c.rawManifest)
	}
	return sb.String()
}

// ---- parser (for --replay and the corpus) ----

type c3Toks struct {
	t []string
	i int
}

func (p *c3Toks) tok() string {
	if p.i >= len(p.t) {
		panic("c03: unexpected end of case line")
	}
	s := p.t[p.i]
	p.i++
	return s
}

func (p *c3Toks) nat() int64 {
	v, err := strconv.ParseInt(p.tok(), 10, 64)
	if err != nil {
		panic("c03: bad number in case line: " + err.Error())
	}
	return v
}

func (p *c3Toks) expect(s string) {
	if t := p.tok(); t != s {
		panic("c03: expected " + s + " got " + t)
	}
}

func (p *c3Toks) manifest() c3Manifest {
	var m c3Manifest
	n := int(p.nat())
	for i := 0; i < n; i++ {
		r, mt := c3ParseRef(p.tok())
		m.layers = append(m.layers, c3Layer{r, p.size(), mt})
	}
	r, mt := c3ParseRef(p.tok())
	m.config = c3Layer{r, p.size(), mt}
	return m
}

func (p *c3Toks) reply() c3Reply {
	k := p.tok()
	switch k {
	case "pass":
		return c3Reply{"pass", p.tok()}
	case "unauth":
		return c3Reply{"unauth", string(zzverif.Unhex(p.tok()))}
	}
	return c3Reply{k, ""}
}

func (p *c3Toks) chunk() c3Chunk {
	k := p.tok()
	if k == "neterr" {
		return c3Chunk{neterr: true, cut: -1}
	}
	c := c3Chunk{cut: -1}
	c.src = p.tok()
	switch c.src {
	case "junk":
		c.junk = zzverif.Unhex(p.tok())
	case "flip":
		c.flip = int(p.nat())
	}
	if t := p.tok(); t != "-" {
		v, _ := strconv.Atoi(t)
		c.cut = v
	}
	c.end = p.tok()
	return c
}

func c3Parse(line string) *c3Case {
	p := &c3Toks{t: strings.Fields(line)}
	c := &c3Case{tag: "replay"}
	p.expect("pull")
	p.expect("cfg")
	c.nparts, c.minSize, c.maxSize = p.nat(), p.nat(), p.nat()
	c.retries = int(p.nat())
	c.variant = int(p.nat())
	c.noprune = p.nat() != 0
	p.expect("univ")
	for n := p.nat(); n > 0; n-- {
		c.univ = append(c.univ, p.tok())
	}
	p.expect("blobs")
	for n := p.nat(); n > 0; n-- {
		d := p.tok()
		c.blobs = append(c.blobs, c3Blob{d, zzverif.Unhex(p.tok())})
	}
	p.expect("partials")
	for n := p.nat(); n > 0; n-- {
		pa := c3Partial{dig: p.tok()}
		if t := p.tok(); t != "none" {
			pa.hasData = true
			pa.data = zzverif.Unhex(t)
		}
		for k := p.nat(); k > 0; k-- {
			pa.parts = append(pa.parts, c3Part{p.nat(), p.nat(), p.nat()})
		}
		c.partials = append(c.partials, pa)
	}
	p.expect("manifests")
	for n := p.nat(); n > 0; n-- {
		m := c3Man{name: int(p.nat())}
		if t := p.tok(); t == "corrupt" {
			m.corrupt = true
		} else {
			m.m = p.manifest()
		}
		c.manifests = append(c.manifests, m)
	}
	p.expect("name")
	c.name = int(p.nat())
	p.expect("realm")
	c.realm = zzverif.Unhex(p.tok())
	p.expect("reg")
	c.reg = p.manifest()
	p.expect("content")
	for n := p.nat(); n > 0; n-- {
		d := p.tok()
		c.content = append(c.content, c3Blob{d, zzverif.Unhex(p.tok())})
	}
	p.expect("attempts")
	for n := p.nat(); n > 0; n-- {
		c.attempts = append(c.attempts, p.attempt())
	}
	p.expect("raw")
	if t := p.tok(); t != "-" {
		c.rawManifest = t
	}
	return c
}

// fixUniv sets univ = sorted set of every digest mentioned anywhere in the case.
func (c *c3Case) fixUniv() {
	set := map[string]bool{}
	add := func(r string) {
		if len(r) == 64 {
			set[r] = true
		}
	}
	for _, b := range c.blobs {
		add(b.dig)
	}
	for _, p := range c.partials {
		add(p.dig)
	}
	for _, m := range c.manifests {
		for _, l := range m.m.layers {
			add(l.ref)
		}
		add(m.m.config.ref)
	}
	for _, m := range c.allRegs() {
		for _, l := range m.layers {
			add(l.ref)
		}
		add(m.config.ref)
	}
	for _, b := range c.content {
		add(b.dig)
	}
	c.univ = c.univ[:0]
	for d := range set {
		c.univ = append(c.univ, d)
	}
	sort.Strings(c.univ)
}

// sizes are int64 in the code; the protocol carries them as unsigned (two's complement) so that a manifest with a
// negative size is representable on both sides
func c3SizeTok(v int64) string { return strconv.FormatUint(uint64(v), 10) }

func (p *c3Toks) size() int64 {
	v, err := strconv.ParseUint(p.tok(), 10, 64)
	if err != nil {
		panic("c03: bad size in case line: " + err.Error())
	}
	return int64(v)
}
