package server

// C10, API level: a malformed model file uploaded and used by create / show must get an error
// response and the server must keep serving.  Each crafted file runs in its own child process
// (a decoder panic in CreateHandler's goroutine is outside gin's recovery and kills the process).

import (
	"bytes"
	"crypto/sha256"
	"encoding/binary"
	"encoding/json"
	"fmt"
	"io"
	"math"
	"math/bits"
	"net/http"
	"net/http/httptest"
	"os"
	"os/exec"
	"path/filepath"
	"sort"
	"strconv"
	"strings"
	"sync"
	"syscall"
	"testing"
	"time"

	"github.com/ollama/ollama/fs/ggml"
	"github.com/ollama/ollama/zzverif"
)

func verifC10Files() [][]byte {
	files := zzverif.C10Crafted()
	// a well-formed empty GGUF (control) and plain garbage
	files = append(files, []byte("GGUF\x03\x00\x00\x00\x00\x00\x00\x00\x00\x00\x00\x00\x00\x00\x00\x00\x00\x00\x00\x00"))
	files = append(files, []byte("not a model file at all, just text that is long enough to sniff"))
	files = append(files, []byte("GGUF"))
	// well-formed files with unusual (but decodable) tensor kinds and general.file_type values: the decoder
	// accepts them, so create/show must answer normally and keep serving
	for _, k := range []uint32{1, 30, 31, 34, 39, 40, 99, 1 << 31, 1<<32 - 1} {
		var vb bytes.Buffer
		verifMustWrite(verifMemWS{&vb}, ggml.KV{"general.architecture": "llama", "general.file_type": k, "llama.block_count": uint32(1), "tokenizer.ggml.tokens": []string{"a"}},
			[]ggml.Tensor{{Name: "blk.0.attn_q.weight", Kind: k, Shape: []uint64{2, 2}, WriterTo: bytes.NewReader(make([]byte, ggml.Tensor{Kind: k, Shape: []uint64{2, 2}}.Size()))}})
		files = append(files, vb.Bytes())
	}
	// well-formed files in which a key the handlers read through a typed accessor (ggml.KV.String/Uint/…: Kind,
	// Architecture, FileType, ChatTemplate, BlockCount, vision.block_count, …) is stored with ANOTHER type, or is
	// an adapter / a projector: the metadata is attacker-controlled, the accessors must not fail on it
	// (uint64 / int8 are not value types WriteGGUF can write: those — and the other scalar widths — are stored by the raw
	// writer below; every WriteGGUF of this corpus is checked)
	wrong := []any{uint32(7), "text", float32(1.5), true, []string{"x"}, []int32{1, 2}}
	for _, key := range []string{"general.architecture", "general.type", "general.file_type", "general.name", "general.parameter_count",
		"tokenizer.chat_template", "tokenizer.ggml.tokens", "tokenizer.ggml.model", "llama.block_count", "llama.vision.block_count",
		"llama.context_length", "llama.embedding_length", "llama.attention.head_count", "llama.attention.head_count_kv", "llama.pooling_type"} {
		for wi, w := range wrong {
			if (wi+len(key))%2 == 1 && wi > 1 {
				continue // half of the combinations per key keep the corpus small
			}
			kv := ggml.KV{"general.architecture": "llama", "llama.block_count": uint32(1), "tokenizer.ggml.tokens": []string{"a"}}
			kv[key] = w
			var vb bytes.Buffer
			verifMustWrite(verifMemWS{&vb}, kv, []ggml.Tensor{{Name: "blk.0.attn_q.weight", Kind: 0, Shape: []uint64{2, 2}, WriterTo: bytes.NewReader(make([]byte, 16))}})
			files = append(files, vb.Bytes())
		}
	}
	// well-formed files whose float metadata is not a number JSON can carry (NaN, +-Inf): show returns the metadata as JSON
	for _, fbits := range []uint32{0x7fc00000, 0x7f800000, 0xff800000, 0x7f800001} {
		var vb bytes.Buffer
		verifMustWrite(verifMemWS{&vb}, ggml.KV{"general.architecture": "llama", "llama.block_count": uint32(1), "llama.rope.freq_base": math.Float32frombits(fbits),
			"llama.rope.scales": []float32{1, math.Float32frombits(fbits)}, "tokenizer.ggml.tokens": []string{"a"}},
			[]ggml.Tensor{{Name: "blk.0.attn_q.weight", Kind: 0, Shape: []uint64{2, 2}, WriterTo: bytes.NewReader(make([]byte, 16))}})
		files = append(files, vb.Bytes())
	}
	// the same keys stored with the value types only OTHER writers produce (u8, i8, u16, i16, i64, u64, f64): written raw
	rawTypes := []struct {
		typ     uint32
		payload []byte
	}{{0, []byte{7}}, {1, []byte{0xff}}, {2, []byte{7, 0}}, {3, []byte{0xff, 0xff}}, {10, []byte{3, 0, 0, 0, 0, 0, 0, 0}},
		{11, []byte{0xff, 0xff, 0xff, 0xff, 0xff, 0xff, 0xff, 0xff}}, {12, []byte{0, 0, 0, 0, 0, 0, 0xf8, 0x7f}}}
	for ki, key := range []string{"general.architecture", "general.type", "general.file_type", "general.name", "general.alignment",
		"tokenizer.chat_template", "tokenizer.ggml.tokens", "tokenizer.ggml.model", "llama.block_count", "llama.vision.block_count",
		"llama.context_length", "llama.embedding_length", "llama.attention.head_count", "llama.attention.head_count_kv", "llama.pooling_type"} {
		for ti, rt := range rawTypes {
			if (ki+ti)%2 == 0 {
				files = append(files, verifC10RawFile(key, rt.typ, rt.payload))
				verifC10RawCount++
			}
		}
	}
	for _, kind := range []string{"adapter", "projector", "model", ""} {
		var vb bytes.Buffer
		verifMustWrite(verifMemWS{&vb}, ggml.KV{"general.architecture": "llama", "general.type": kind, "llama.block_count": uint32(1), "tokenizer.ggml.tokens": []string{"a"}},
			[]ggml.Tensor{{Name: "blk.0.attn_q.weight", Kind: 0, Shape: []uint64{2, 2}, WriterTo: bytes.NewReader(make([]byte, 16))}})
		files = append(files, vb.Bytes())
	}
	// seeded mutants of a small valid file (field overwrites with boundary values, truncations)
	var base bytes.Buffer
	wf := verifMemWS{&base}
	verifMustWrite(wf, ggml.KV{"general.architecture": "llama", "general.alignment": uint32(32), "tokenizer.ggml.tokens": []string{"a", "b"}, "llama.block_count": uint32(1)},
		[]ggml.Tensor{{Name: "blk.0.attn_q.weight", Kind: 0, Shape: []uint64{2, 2}, WriterTo: bytes.NewReader(make([]byte, 16))}, {Name: "output.weight", Kind: 0, Shape: []uint64{1}, WriterTo: bytes.NewReader(make([]byte, 4))}})
	root := zzverif.NewRng(zzverif.Seed())
	vals := []uint64{0, 1, 3, 9, 13, 255, 1 << 31, 1<<32 - 1, 1 << 40, 1<<62 - 16, 1 << 63, 1<<64 - 1, 1<<64 - 64}
	for i := 0; i < zzverif.EnvInt("VERIF_N", 24); i++ {
		r := root.Fork()
		b := bytes.Clone(base.Bytes())
		switch r.Intn(4) {
		case 0:
			b = b[:r.Intn(len(b))]
		case 1:
			off := r.Range(4, len(b)-8)
			binary.LittleEndian.PutUint64(b[off:], zzverif.Pick(r, vals))
		case 2:
			off := r.Range(4, len(b)-4)
			binary.LittleEndian.PutUint32(b[off:], uint32(zzverif.Pick(r, vals)))
		default:
			binary.LittleEndian.PutUint32(b[4:], uint32(zzverif.Pick(r, []int{1, 2})))
			off := r.Range(8, len(b)-8)
			binary.LittleEndian.PutUint64(b[off:], zzverif.Pick(r, vals))
		}
		files = append(files, b)
	}
	// several models back to back in one upload (create's ggufLayers loop): every decode starts where the previous
	// one ended; trailing bytes that are not a model; the same model twice (equal lengths)
	var second bytes.Buffer
	verifMustWrite(verifMemWS{&second}, ggml.KV{"general.architecture": "llama", "general.alignment": uint32(8), "llama.block_count": uint32(1), "x": "yz"},
		[]ggml.Tensor{{Name: "blk.0.ffn_up.weight", Kind: 0, Shape: []uint64{3}, WriterTo: bytes.NewReader(make([]byte, 12))}})
	var third bytes.Buffer
	verifMustWrite(verifMemWS{&third}, ggml.KV{"general.architecture": "llama", "llama.block_count": uint32(2)},
		[]ggml.Tensor{{Name: "blk.1.attn_k.weight", Kind: 1, Shape: []uint64{4, 8}, WriterTo: bytes.NewReader(make([]byte, 64))}})
	hdr := []byte("GGUF\x03\x00\x00\x00\x00\x00\x00\x00\x00\x00\x00\x00\x00\x00\x00\x00\x00\x00\x00\x00")
	a, b, c := base.Bytes(), second.Bytes(), third.Bytes()
	cat := func(parts ...[]byte) []byte { return bytes.Join(parts, nil) }
	multi := [][]byte{
		cat(a, a), cat(a, b), cat(b, a), cat(c, c), cat(a, a, a), cat(a, b, c), cat(c, b, a), cat(hdr, hdr), cat(hdr, a), cat(a, hdr),
		cat(hdr, hdr, hdr), cat(c, c, c), cat(hdr, c, hdr), cat(c, hdr, c, hdr), cat(hdr, hdr, hdr, hdr, hdr),
		cat(a, []byte("GGUF")), cat(a, []byte("GGU")), cat(a, []byte{0}), cat(a, []byte("GGUF\x03\x00\x00\x00")), cat(a, []byte("GGUF\x03\x00\x00\x00\x00\x00\x00\x00")),
		cat(a, []byte("not a model")), cat(a, a[:len(a)/2]), cat(a, b[:30]), cat(b, a[:len(a)-1]), cat(c, c[:24]), cat(c, c[:23]),
	}
	for i := 0; i < zzverif.EnvInt("VERIF_N", 24)/2; i++ {
		r := root.Fork()
		parts := [][]byte{}
		for k := r.Range(2, 4); k > 0; k-- {
			parts = append(parts, zzverif.Pick(r, [][]byte{a, b, c, hdr}))
		}
		m := cat(parts...)
		switch r.Intn(4) {
		case 0:
			m = m[:r.Range(len(parts[0]), len(m))] // cut somewhere after the first model
		case 1:
			m = append(m, r.Bytes(r.Range(1, 40))...)
		case 2:
			off := r.Range(len(parts[0]), len(m)-8)
			binary.LittleEndian.PutUint64(m[off:], zzverif.Pick(r, vals))
		}
		multi = append(multi, m)
	}
	verifC10MultiStart = len(files)
	files = append(files, multi...)
	return files
}

// verifMustWrite: a corpus file that WriteGGUF refuses would silently become a truncated file
func verifMustWrite(ws io.WriteSeeker, kv ggml.KV, ts []ggml.Tensor) {
	if err := ggml.WriteGGUF(ws, kv, ts); err != nil {
		panic(fmt.Sprintf("verif: corpus file not written: %v (kv %v)", err, kv))
	}
}

// verifC10RawFile: a well-formed v3 file (architecture llama, one block, one token, one 16-byte tensor) in which `key` is
// stored with the raw value type `typ` and payload (types WriteGGUF cannot produce)
func verifC10RawFile(key string, typ uint32, payload []byte) []byte {
	var b bytes.Buffer
	w := func(v any) { binary.Write(&b, binary.LittleEndian, v) }
	str := func(s string) { w(uint64(len(s))); b.WriteString(s) }
	type kv struct {
		k string
		f func()
	}
	kvs := []kv{
		{"general.architecture", func() { w(uint32(8)); str("llama") }},
		{"llama.block_count", func() { w(uint32(4)); w(uint32(1)) }},
		{"tokenizer.ggml.tokens", func() { w(uint32(9)); w(uint32(8)); w(uint64(1)); str("a") }},
	}
	replaced := false
	for i := range kvs {
		if kvs[i].k == key {
			kvs[i].f = func() { w(typ); b.Write(payload) }
			replaced = true
		}
	}
	if !replaced {
		kvs = append(kvs, kv{key, func() { w(typ); b.Write(payload) }})
	}
	b.WriteString("GGUF")
	w(uint32(3))
	w(uint64(1))
	w(uint64(len(kvs)))
	for _, e := range kvs {
		str(e.k)
		e.f()
	}
	str("blk.0.attn_q.weight")
	w(uint32(2))
	w(uint64(2))
	w(uint64(2))
	w(uint32(0))
	w(uint64(0))
	for b.Len()%32 != 0 {
		b.WriteByte(0)
	}
	b.Write(make([]byte, 16))
	return b.Bytes()
}

// verifHasError: the answer carries an "error" member (a JSON object, or the last line of an NDJSON stream); a body that
// merely contains the word is not an error answer
func verifHasError(body string) bool {
	lines := strings.Split(strings.TrimSpace(body), "\n")
	var obj map[string]json.RawMessage
	if json.Unmarshal([]byte(lines[len(lines)-1]), &obj) == nil {
		_, ok := obj["error"]
		return ok
	}
	return strings.Contains(body, "\"error\"")
}

// number of raw-typed files in the corpus (reported as api_rawtype_files)
var verifC10RawCount int

// index of the first multi-model file in verifC10Files (the ones compared with the model's ggufLayers)
var verifC10MultiStart int

// verifMemWS is an in-memory io.WriteSeeker good enough for WriteGGUF (append-only, Seek(0, Current)).
type verifMemWS struct{ b *bytes.Buffer }

func (w verifMemWS) Write(p []byte) (int, error) { return w.b.Write(p) }
func (w verifMemWS) Seek(off int64, whence int) (int64, error) {
	if off != 0 || whence != io.SeekCurrent {
		return 0, fmt.Errorf("unsupported seek")
	}
	return int64(w.b.Len()), nil
}

func TestVerifC10APIChild(t *testing.T) {
	idx, err := strconv.Atoi(os.Getenv("VERIF_C10_CHILD"))
	if err != nil {
		t.Skip("child mode only")
	}
	mode := os.Getenv("VERIF_C10_MODE")
	// never let a runaway allocation of the code under test take the machine down
	lim := syscall.Rlimit{Cur: 4 << 30, Max: 4 << 30}
	syscall.Setrlimit(syscall.RLIMIT_AS, &lim)
	var data []byte
	if hx := os.Getenv("VERIF_C10_FILE"); hx != "" {
		data = zzverif.Unhex(hx) // replay of one recorded upload (`./check C10 --replay`): the file itself, not a corpus index
	} else {
		data = verifC10Files()[idx]
	}
	t.Setenv("OLLAMA_MODELS", t.TempDir())
	var s Server
	h, err := s.GenerateRoutes(nil)
	if err != nil {
		t.Fatal(err)
	}
	srv := httptest.NewServer(h)
	defer srv.Close()
	digest := fmt.Sprintf("sha256:%x", sha256.Sum256(data))
	post := func(path string, body any) (int, string) {
		var rd io.Reader
		switch b := body.(type) {
		case []byte:
			rd = bytes.NewReader(b)
		default:
			j, _ := json.Marshal(b)
			rd = bytes.NewReader(j)
		}
		resp, err := http.Post(srv.URL+path, "application/json", rd)
		if err != nil {
			return -1, err.Error()
		}
		defer resp.Body.Close()
		out, _ := io.ReadAll(resp.Body)
		return resp.StatusCode, string(out)
	}
	_, _, derr := ggml.Decode(bytes.NewReader(data), 0)
	fmt.Printf("VERIF decodable=%v\n", derr == nil)
	switch mode {
	case "create":
		st, _ := post("/api/blobs/"+digest, data)
		fmt.Printf("VERIF blob=%d\n", st)
		stream := false
		st, body := post("/api/create", map[string]any{"model": "m", "files": map[string]string{"m.gguf": digest}, "stream": &stream})
		fmt.Printf("VERIF create=%d error=%v\n", st, verifHasError(body))
		if man, err := os.ReadFile(filepath.Join(os.Getenv("OLLAMA_MODELS"), "manifests", "registry.ollama.ai", "library", "m", "latest")); err == nil {
			var mf struct {
				Layers []struct {
					MediaType string `json:"mediaType"`
					Size      int64  `json:"size"`
					Digest    string `json:"digest"`
				} `json:"layers"`
			}
			if json.Unmarshal(man, &mf) == nil {
				var sizes, media, exact []string
				start := int64(0) // model layers are created in upload order: layer i starts where layer i-1 ended
				for _, l := range mf.Layers {
					switch l.MediaType {
					case "application/vnd.ollama.image.model", "application/vnd.ollama.image.adapter", "application/vnd.ollama.image.projector":
						sizes = append(sizes, strconv.FormatInt(l.Size, 10))
						media = append(media, l.MediaType[len("application/vnd.ollama.image."):][:1])
						// C05: a layer cut out of an upload is exactly one model.  Judged at the position the model has IN THE
						// UPLOAD (the decoder pads to absolute file offsets, so a layer that started at an unaligned offset need
						// not decode to the same extent on its own): decoding the upload from the layer's start must end at the
						// layer's end — or beyond the end of the upload when the upload is cut inside this model's tensor data
						// (the decoder seeks over tensor data; create kept everything that is there) — and the layer blob must hold
						// exactly those bytes of the upload.
						ex := "?"
						if lb, err := os.ReadFile(filepath.Join(os.Getenv("OLLAMA_MODELS"), "blobs", strings.Replace(l.Digest, ":", "-", 1))); err == nil {
							rd := bytes.NewReader(data)
							rd.Seek(start, io.SeekStart)
							_, end, derr := ggml.Decode(rd, 0)
							stop := start + int64(len(lb))
							switch {
							case int64(len(lb)) != l.Size || stop > int64(len(data)) || !bytes.Equal(lb, data[start:stop]):
								ex = fmt.Sprintf("0(layer of %d bytes is not bytes [%d,%d) of the upload)", len(lb), start, stop)
							case derr == nil && end == stop:
								ex = "1"
							case derr == nil && end > stop && stop == int64(len(data)):
								ex = "t"
							default:
								ex = fmt.Sprintf("0(start=%d,end=%d,size=%d,err=%v)", start, end, len(lb), derr)
							}
						}
						exact = append(exact, ex)
						start += l.Size
					}
				}
				fmt.Printf("VERIF layers=%s media=%s\n", strings.Join(sizes, ","), strings.Join(media, ","))
				fmt.Printf("VERIF layerexact=%s\n", strings.Join(exact, ","))
			}
		}
	case "show", "createfrom":
		// a model whose weights blob is the crafted file, installed directly in the store (as a pull from a registry
		// would leave it)
		models := os.Getenv("OLLAMA_MODELS")
		hex := strings.TrimPrefix(digest, "sha256:")
		os.MkdirAll(filepath.Join(models, "blobs"), 0o755)
		os.WriteFile(filepath.Join(models, "blobs", "sha256-"+hex), data, 0o644)
		cfg := []byte(`{"model_format":"gguf","model_family":"x","architecture":"amd64","os":"linux","rootfs":{"type":"layers","diff_ids":[]}}`)
		chex := fmt.Sprintf("%x", sha256.Sum256(cfg))
		os.WriteFile(filepath.Join(models, "blobs", "sha256-"+chex), cfg, 0o644)
		man := fmt.Sprintf(`{"schemaVersion":2,"mediaType":"application/vnd.docker.distribution.manifest.v2+json","config":{"mediaType":"application/vnd.docker.container.image.v1+json","digest":"sha256:%s","size":%d},"layers":[{"mediaType":"application/vnd.ollama.image.model","digest":"sha256:%s","size":%d}]}`, chex, len(cfg), hex, len(data))
		mp := filepath.Join(models, "manifests", "registry.ollama.ai", "library", "m")
		os.MkdirAll(mp, 0o755)
		os.WriteFile(filepath.Join(mp, "latest"), []byte(man), 0o644)
		if mode == "show" {
			st, body := post("/api/show", map[string]any{"model": "m", "verbose": true})
			fmt.Printf("VERIF show=%d error=%v\n", st, verifHasError(body))
		} else {
			// POST /api/create {"from": "m"}: server/model.go parseFromModel decodes every model layer of the installed
			// model, then createModel reads its metadata through the typed accessors
			stream := false
			st, body := post("/api/create", map[string]any{"model": "m2", "from": "m", "stream": &stream})
			fmt.Printf("VERIF createfrom=%d error=%v\n", st, verifHasError(body))
		}
	}
	// liveness probe
	resp, err := http.Get(srv.URL + "/api/tags")
	if err == nil {
		resp.Body.Close()
		fmt.Printf("VERIF alive=%d\n", resp.StatusCode)
	}
}

// TestVerifC10APIReplay: one recorded API case (`api-<mode> <idx> <hex>`, `gguf-layers <maxSeek> <hex>`, `gguf-from <hex>`,
// `gguf-show <hex>`) against the real handlers; the verdict goes to l2.txt like in the full run.
func TestVerifC10APIReplay(t *testing.T) {
	out := zzverif.NewOut()
	defer out.Close()
	b, err := os.ReadFile(os.Getenv("VERIF_REPLAY"))
	if err != nil {
		t.Fatal(err)
	}
	toks := strings.Fields(strings.TrimSpace(string(b)))
	if len(toks) < 2 {
		t.Fatal("bad replay line")
	}
	mode := map[string]string{"api-create": "create", "api-show": "show", "api-createfrom": "createfrom", "gguf-layers": "create", "gguf-from": "createfrom", "gguf-show": "show"}[toks[0]]
	if mode == "" {
		t.Fatalf("not an API case: %s", toks[0])
	}
	os.Setenv("VERIF_C10_FILE", toks[len(toks)-1])
	res, layers := verifC10RunChild(0, mode)
	fmt.Fprintf(os.Stderr, "c10-api replay %s: %s %s\n", mode, res, layers)
	ok := strings.HasSuffix(res, " alive") && !strings.Contains(res, "=-1") && !strings.HasPrefix(res, "no-error") && !strings.HasPrefix(res, "panic-recovered")
	if !ok {
		out.L2("api-"+mode+"-"+strings.Fields(res)[0], strings.Join(toks, " "), res)
	}
	if strings.Contains(layers, " inexact=") {
		out.L2("api-create-layer-not-one-model", strings.Join(toks, " "), layers)
	}
	out.Count("api_replay_cases")
}

func TestVerifC10API(t *testing.T) {
	out := zzverif.NewOut()
	defer out.Close()
	files := verifC10Files()
	maxSeek := verifC10MaxSeek(t)
	out.Add("fs_max_seek_log2", bits.Len64(uint64(maxSeek)))
	out.Add("api_rawtype_files", verifC10RawCount)
	type result struct {
		mode   string
		idx    int
		res    string
		layers string
	}
	results := make([]result, 0, 2*len(files))
	var mu sync.Mutex
	var wg sync.WaitGroup
	sem := make(chan struct{}, 8)
	// create: upload + POST /api/create {files}; show: POST /api/show on an installed model; createfrom: POST /api/create
	// {from} on an installed model (server/model.go parseFromModel).  The C05 check needs the create mode only.
	modes := os.Getenv("VERIF_C10_MODES")
	if modes == "" {
		modes = "create,show,createfrom"
	}
	for idx := range files {
		for _, mode := range strings.Split(modes, ",") {
			wg.Add(1)
			go func(idx int, mode string) {
				defer wg.Done()
				sem <- struct{}{}
				defer func() { <-sem }()
				res, layers := verifC10RunChild(idx, mode)
				mu.Lock()
				results = append(results, result{mode, idx, res, layers})
				mu.Unlock()
			}(idx, mode)
		}
	}
	wg.Wait()
	sort.Slice(results, func(i, j int) bool {
		if results[i].idx != results[j].idx {
			return results[i].idx < results[j].idx
		}
		return results[i].mode < results[j].mode
	})
	for _, r := range results {
		caseLine := fmt.Sprintf("api-%s %d %s", r.mode, r.idx, zzverif.Hex(files[r.idx]))
		out.Count("api_cases")
		ok := strings.HasSuffix(r.res, " alive") && !strings.Contains(r.res, "=-1") && !strings.HasPrefix(r.res, "no-error") && !strings.HasPrefix(r.res, "panic-recovered")
		// success for a malformed file means: an HTTP answer (2xx for the control file, an error
		// status/body otherwise) and the server still answers afterwards
		if !ok {
			out.L2("api-"+r.mode+"-"+strings.Fields(r.res)[0], caseLine, r.res)
		}
		out.Count("api_" + r.mode + "_" + strings.Fields(r.res)[0])
		if r.mode == "create" {
			// L1: what create makes of the upload vs the model's ggufLayers (layer count and bytes per layer)
			impl := "err"
			switch {
			case strings.HasPrefix(r.res, "hang"):
				impl = "loop"
			case strings.HasPrefix(r.res, "death"), strings.HasPrefix(r.res, "unknown"), strings.HasPrefix(r.res, "panic-recovered"), strings.HasPrefix(r.res, "no-error"):
				impl = strings.Fields(r.res)[0]
			case strings.HasPrefix(r.res, "create=200 error=false"):
				lay := r.layers
				if i := strings.Index(lay, " inexact="); i >= 0 {
					out.L2("api-create-layer-not-one-model", caseLine, "a layer cut out of the upload is not exactly one model (decode of the layer's own blob does not end at its size): "+lay[i+9:])
					lay = lay[:i]
				}
				impl = "ok sizes=" + lay // "<n1,n2,…> media=<m|a|p,…>"
			}
			out.Case(fmt.Sprintf("gguf-layers %d %s", maxSeek, zzverif.Hex(files[r.idx])), impl)
			if r.idx >= verifC10MultiStart {
				out.Count("api_multi_model_files")
				out.Count("api_multi_" + strings.Fields(impl)[0])
			}
		}
		if r.mode == "createfrom" || r.mode == "show" {
			// L1: the answer of the two handlers that decode an INSTALLED model vs the model (Model/GgufApi.lean createFrom / showModel)
			impl := strings.Fields(r.res)[0]
			switch {
			case strings.HasPrefix(r.res, r.mode+"=200 error=false"):
				impl = "ok"
			case strings.HasPrefix(r.res, r.mode+"=") && strings.Contains(r.res, "error=true"):
				impl = "err"
			case strings.HasPrefix(r.res, "hang"):
				impl = "loop"
			}
			// the installed blob is an os.File: the model takes the file system's largest seekable offset like `gguf-layers`
			out.Case(fmt.Sprintf("gguf-%s %d %s", strings.TrimPrefix(r.mode, "create"), maxSeek, zzverif.Hex(files[r.idx])), impl)
		}
		fmt.Fprintf(os.Stderr, "c10-api %s #%d: %s\n", r.mode, r.idx, r.res)
	}
}

// verifC10MaxSeek measures the largest offset the file system under the test's temporary directory lets a file
// seek to (lseek fails with EINVAL above it: 2^63-1 on tmpfs, 16 TiB - 4 KiB on ext4 with 4 KiB blocks, ...).  The
// uploaded blob is an os.File, so create's decoder sees that limit; the model takes it as a parameter.
func verifC10MaxSeek(t *testing.T) int64 {
	f, err := os.CreateTemp(t.TempDir(), "seek")
	if err != nil {
		t.Fatal(err)
	}
	defer f.Close()
	lo, hi := int64(0), int64(1<<63-1) // lo always works
	if _, err := f.Seek(hi, io.SeekStart); err == nil {
		return hi
	}
	for lo+1 < hi {
		mid := lo + (hi-lo)/2
		if _, err := f.Seek(mid, io.SeekStart); err == nil {
			lo = mid
		} else {
			hi = mid
		}
	}
	return lo
}

// verifC10RunChild runs one upload in a child process.  "hang" is a wall-clock verdict (the only one in this driver): a
// child that did not answer within 15 s is run once more, alone in its slot, with 90 s, so that a loaded machine does not
// turn a slow child into a reported hang; a real non-termination hangs both times.
func verifC10RunChild(idx int, mode string) (string, string) {
	res, layers := verifC10RunChildOnce(idx, mode, 15*time.Second)
	if res == "hang" {
		res, layers = verifC10RunChildOnce(idx, mode, 90*time.Second)
	}
	return res, layers
}

func verifC10RunChildOnce(idx int, mode string, limit time.Duration) (string, string) {
	cmd := exec.Command(os.Args[0], "-test.run", "^TestVerifC10APIChild$", "-test.v")
	cmd.Env = append(os.Environ(), fmt.Sprintf("VERIF_C10_CHILD=%d", idx), "VERIF_C10_MODE="+mode, "OLLAMA_DEBUG=0")
	var buf bytes.Buffer
	cmd.Stdout, cmd.Stderr = &buf, &buf
	done := make(chan error, 1)
	if err := cmd.Start(); err != nil {
		return "unknown start: " + err.Error(), ""
	}
	go func() { done <- cmd.Wait() }()
	res := ""
	select {
	case <-done:
	case <-time.After(limit):
		cmd.Process.Kill()
		<-done
		res = "hang"
	}
	text := buf.String()
	var status, alive, layers, inexact, blobRefused string
	undecodable := false
	for _, line := range strings.Split(text, "\n") {
		if strings.HasPrefix(line, "VERIF layers=") {
			layers = strings.TrimPrefix(line, "VERIF layers=")
		}
		if strings.HasPrefix(line, "VERIF layerexact=") && (strings.Contains(line, "0(") || strings.Contains(line, "?")) {
			inexact = strings.TrimPrefix(line, "VERIF layerexact=")
		}
		if strings.HasPrefix(line, "VERIF "+mode+"=") {
			status = strings.TrimPrefix(line, "VERIF ")
		}
		if strings.HasPrefix(line, "VERIF alive=200") {
			alive = "alive"
		}
		if strings.HasPrefix(line, "VERIF decodable=false") {
			undecodable = true
		}
		if strings.HasPrefix(line, "VERIF blob=") && line != "VERIF blob=201" && line != "VERIF blob=200" {
			blobRefused = line
		}
	}
	switch {
	case res == "hang":
	case blobRefused != "":
		// the upload itself was not accepted: create would answer "blob not found" without decoding anything
		res = "unknown upload refused: " + blobRefused
	case alive == "alive" && status != "" && undecodable && strings.Contains(status, "error=false"):
		// the file does not decode, yet the request reported success
		res = "no-error " + status + " alive"
	case alive == "alive" && status != "" && strings.Contains(status, "=5") && strings.Contains(status, "error=false"):
		// a 5xx answer without an error object: the handler panicked and gin's recovery answered
		res = "panic-recovered " + status + " alive"
	case alive == "alive" && status != "":
		res = status + " alive"
	case strings.Contains(text, "panic:") || strings.Contains(text, "fatal error"):
		msg := "?"
		for _, line := range strings.Split(text, "\n") {
			if strings.HasPrefix(line, "panic:") || strings.HasPrefix(line, "fatal error") {
				msg = line
				break
			}
		}
		res = "death " + msg
	default:
		res = "unknown " + strings.ReplaceAll(text[max(0, len(text)-200):], "\n", " ")
	}
	if inexact != "" {
		layers += " inexact=" + inexact
	}
	return res, layers
}
