package server

// C19 driver, round 7:
//   - branch counters (`br_*` in stats.txt): which branch of the MODEL (scan / total / finalSystem /
//     stepImg / imgData / legacyStep / cutNode / execute path) each generated case exercises, decided
//     from the case and from what the real code did.  The check fails closed
//     (`correspondence-coverage`) when a branch the theorems talk about is never reached.
//   - Tie-1 constants (`consts.txt`, written by TestVerifC19Trees): facts the property hinges on,
//     obtained by EXECUTING the real chatPrompt / template.Execute on probe inputs: the number of
//     tokens charged per image (plain / mllama / nil projector / empty projector list) together with the
//     direction of the `ctxLen > opts.NumCtx` guard (smallest context length that keeps both messages),
//     the tokenizer calls for a two-message conversation at a negative context length (the latest
//     message is never measured), the separators used by collate and by the legacy loop's join.
//     vlib/checks/c19.py turns them into lean/OllamaVerif/Generated/C19_Consts.lean; Tie/C19.lean proves
//     by `decide` that the model behaves the same on the same probes.

import (
	"bytes"
	"errors"
	"fmt"
	"os"
	"slices"
	"strings"
	"testing"
	"text/template/parse"

	"github.com/ollama/ollama/api"
	"github.com/ollama/ollama/template"
	"github.com/ollama/ollama/zzverif"
)

// c19CutElseAfterCut: is there an if/range whose THEN list holds the first `.Response` field and
// which has an else list (the branch of cutNode that the F4c repair changed)?
func c19CutElseAfterCut(tm *template.Template) bool {
	found, hit := false, false
	var walkList func(l *parse.ListNode)
	var walk func(n parse.Node)
	walk = func(n parse.Node) {
		if found {
			return
		}
		switch x := n.(type) {
		case *parse.ActionNode:
			if c19MentionsResponse(x.Pipe) {
				found = true
			}
		case *parse.IfNode:
			walkList(x.List)
			if found && x.ElseList != nil {
				hit = true
			}
			if !found {
				walkList(x.ElseList)
			}
		case *parse.RangeNode:
			walkList(x.List)
			if found && x.ElseList != nil {
				hit = true
			}
			if !found {
				walkList(x.ElseList)
			}
		}
	}
	walkList = func(l *parse.ListNode) {
		if l == nil {
			return
		}
		for _, n := range l.Nodes {
			if found {
				return
			}
			walk(n)
		}
	}
	walkList(tm.Tree.Root)
	return hit
}

// branches counts the model branches a case goes through.  `n` is recomputed from the real cost
// vector exactly as the specification in l2 does.
func (e *c19Env) branches(out *zzverif.Out, c *c19Case, costs []int, r *c19Real) {
	L := len(c.msgs)
	if L == 0 {
		out.Count("br_chat_empty_conversation_panics")
		return
	}
	if L == 1 {
		out.Count("br_scan_single_message_never_measured")
	}
	imgTok := 768
	if c.mllama {
		imgTok = 1
	}
	anyImgs := false
	for _, m := range c.msgs {
		if len(m.imgs) > 0 {
			anyImgs = true
		}
	}
	if anyImgs && L > 1 {
		if c.proj != 0 {
			out.Count("br_total_image_cost_charged")
		} else {
			out.Count("br_total_image_cost_not_charged_nil_projector")
		}
	}
	switch {
	case r.panicked != "":
		out.Count("br_outcome_panic")
		return
	case errors.Is(r.err, errTooManyImages):
		out.Count("br_scan_err_too_many_images")
		return
	case r.err != nil && r.err.Error() == "c19: tokenizer failure":
		out.Count("br_scan_fail_tokenizer")
		return
	case r.err != nil && strings.HasPrefix(r.err.Error(), "template:"):
		if len(r.tokIn) < L-1 {
			out.Count("br_scan_fail_template_or_final_exec_error")
		} else {
			out.Count("br_final_exec_error")
		}
		return
	case r.err != nil && strings.Contains(r.err.Error(), "failed to decode image"):
		out.Count("br_rewrite_preprocess_error")
		return
	case r.err != nil:
		out.Count("br_outcome_other_error")
		return
	}
	fitsAt := func(i int) bool {
		t := costs[i]
		if c.proj != 0 {
			for _, m := range c.msgs[i:] {
				t += imgTok * len(m.imgs)
			}
		}
		return t <= c.limit
	}
	n := L - 1
	for n > 0 && fitsAt(n-1) {
		n--
	}
	switch {
	case L > 1 && n == 0:
		out.Count("br_scan_every_candidate_fits")
	case L > 1 && n == L-1:
		out.Count("br_scan_break_at_first_candidate")
	case L > 1:
		out.Count("br_scan_break_in_the_middle")
	}
	nsys := 0
	for j := 0; j < n; j++ {
		if c.msgs[j].role == "s" {
			nsys++
		}
	}
	if nsys > 0 {
		out.Count("br_final_system_before_cut_nonempty")
	}
	if nsys > 1 {
		out.Count("br_final_system_before_cut_several")
	}
	if n > 0 && c.msgs[n-1].role == "s" {
		out.Count("br_final_system_at_cut")
	}
	if n > 0 && nsys == 0 {
		out.Count("br_final_system_none_before_cut")
	}
	// the rewriting loops
	for j := n; j < L; j++ {
		m := c.msgs[j]
		slots := strings.Count(m.content, "[img]")
		for k := range m.imgs {
			if k < slots {
				out.Count("br_stepimg_fill_slot")
			} else {
				out.Count("br_stepimg_prefix_tag")
			}
			switch {
			case c.mllama && c.proj < 2:
				out.Count("br_imgdata_mllama_raw")
			case c.mllama:
				out.Count("br_imgdata_mllama_preprocessed")
			default:
				out.Count("br_imgdata_plain")
			}
		}
		if len(m.imgs) == 0 && slots > 0 {
			out.Count("br_rewrite_placeholder_without_image_kept")
		}
		if len(m.imgs) > 0 && slots > len(m.imgs) {
			out.Count("br_rewrite_more_placeholders_than_images")
		}
	}
	// the template layer
	if c.ast == "X" {
		return
	}
	tm := e.tmplOf(c)
	if slices.Contains(tm.Vars(), "messages") {
		out.Count("br_execute_messages_path")
		return
	}
	out.Count("br_execute_legacy_path")
	if c19CutElseAfterCut(tm) {
		out.Count("br_cut_else_list_after_cut_dropped")
	}
	// replay of the (join-repaired) legacy loop on the list the final Execute receives, for the
	// branch counters only
	type rm struct{ role, content string }
	var in []rm
	for j := 0; j < n; j++ {
		if c.msgs[j].role == "s" {
			in = append(in, rm{"s", r.msgs[j].Content})
		}
	}
	for j := n; j < L; j++ {
		in = append(in, rm{c.msgs[j].role, r.msgs[j].Content})
	}
	var coll []rm
	for _, m := range in {
		if k := len(coll); k > 0 && coll[k-1].role == m.role {
			coll[k-1].content += "\n\n" + m.content
			out.Count("br_collate_merge_adjacent")
		} else {
			coll = append(coll, m)
		}
	}
	var sys, prompt, resp string
	join := func(what string, dst *string, s string) {
		if *dst != "" {
			out.Count("br_legacy_join_occupied_" + what)
		}
		if *dst == "" {
			*dst = s
		} else {
			*dst += "\n\n" + s
		}
	}
	for _, m := range coll {
		switch m.role {
		case "s":
			if prompt != "" || resp != "" {
				out.Count("br_legacy_system_flush")
				sys, prompt, resp = "", "", ""
			} else {
				out.Count("br_legacy_system_noflush")
			}
			join("system", &sys, m.content)
		case "u":
			if resp != "" {
				out.Count("br_legacy_user_flush")
				sys, prompt, resp = "", "", ""
			} else {
				out.Count("br_legacy_user_noflush")
			}
			join("prompt", &prompt, m.content)
		case "a":
			join("response", &resp, m.content)
			out.Count("br_legacy_assistant")
		default:
			out.Count("br_legacy_ignored_role")
		}
	}
}

// c19Threshold: the smallest context length for which the real chatPrompt keeps BOTH messages of the
// probe conversation [user "m0q a" + one image, assistant "m1q b"] (binary search; keeping is monotone
// in the context length).  Returns -1 if the probe does not behave.
func (e *c19Env) c19Threshold(mllama bool, proj int, src int) (threshold, cost0 int) {
	mk := func(limit int) *c19Case {
		return &c19Case{style: c19StyleInPlace, mode: 0, mllama: mllama, proj: proj, limit: limit, msgs: []c19Msg{
			{role: "u", content: "m0q a", imgs: []c19Img{{src, true}}}, {role: "a", content: "m1q b"}}}
	}
	keepsBoth := func(limit int) bool {
		r := e.runReal(mk(limit))
		return r.err == nil && r.panicked == "" && strings.Contains(r.prompt, "m0q") && strings.Contains(r.prompt, "m1q")
	}
	cost0 = e.costs(mk(0))[0]
	lo, hi := -1, cost0+4096 // keepsBoth(lo) false, keepsBoth(hi) true
	if keepsBoth(lo) || !keepsBoth(hi) {
		return -1, cost0
	}
	for hi-lo > 1 {
		mid := (lo + hi) / 2
		if keepsBoth(mid) {
			hi = mid
		} else {
			lo = mid
		}
	}
	return hi, cost0
}

// c19WriteConsts: see the header of this file.
func c19WriteConsts(t *testing.T, e *c19Env) {
	f, err := os.Create(zzverif.OutDir() + "/consts.txt")
	if err != nil {
		t.Fatal(err)
	}
	defer f.Close()
	for _, p := range []struct {
		name   string
		mllama bool
		proj   int
		src    int
	}{{"Plain", false, 2, 1}, {"Mllama", true, 2, 1000}, {"MllamaRaw", true, 1, 1}, {"NilProjector", false, 0, 1}, {"EmptyProjector", false, 1, 1}} {
		th, c0 := e.c19Threshold(p.mllama, p.proj, p.src)
		fmt.Fprintf(f, "threshold%s : Int := %d\n", p.name, th)
		fmt.Fprintf(f, "cost0%s : Nat := %d\n", p.name, c0)
	}
	// the latest message is never measured: two messages, negative context length
	r := e.runReal(&c19Case{style: c19StyleInPlace, limit: -5, msgs: []c19Msg{{role: "u", content: "m0q a"}, {role: "a", content: "m1q b"}}})
	calls, kept := -1, -1
	if r.err == nil && r.panicked == "" {
		calls = r.calls
		kept = 0
		for _, mk := range []string{"m0q", "m1q"} {
			if strings.Contains(r.prompt, mk) {
				kept++
			}
		}
	}
	fmt.Fprintf(f, "negLimitCalls : Nat := %d\n", max(calls, 0))
	fmt.Fprintf(f, "negLimitKept : Nat := %d\n", max(kept, 0))
	r1 := e.runReal(&c19Case{style: c19StyleInPlace, limit: -5, msgs: []c19Msg{{role: "u", content: "m0q a"}}})
	fmt.Fprintf(f, "singleCalls : Nat := %d\n", r1.calls)
	// separators: collate (adjacent same role), the .System join, the legacy loop's join across an ignored role
	render := func(style int, msgs []api.Message) string {
		var b bytes.Buffer
		if err := e.tmpl[style].Execute(&b, template.Values{Messages: msgs}); err != nil {
			return "<error>"
		}
		return b.String()
	}
	fmt.Fprintf(f, "collateProbe : Bytes := %s\n", c19LeanBytes([]byte(render(c19StyleInPlace, []api.Message{{Role: "user", Content: "a"}, {Role: "user", Content: "b"}}))))
	fmt.Fprintf(f, "systemJoinProbe : Bytes := %s\n", c19LeanBytes([]byte(render(c19StyleMessages, []api.Message{{Role: "system", Content: "a"}, {Role: "user", Content: "x"}, {Role: "system", Content: "b"}}))))
	fmt.Fprintf(f, "legacyJoinProbe : Bytes := %s\n", c19LeanBytes([]byte(render(c19StyleLegacy, []api.Message{{Role: "user", Content: "a"}, {Role: "tool", Content: "x"}, {Role: "user", Content: "b"}}))))
	// the variant of the tree under test, as probed by c19NewEnv (bits: F4 repaired, legacy mode x2, deleteNode
	// else-list repaired x8, F5 repaired x16), and two of the probes as rendered bytes
	fmt.Fprintf(f, "variantBits : Nat := %d\n", e.fixed)
	f4 := e.runReal(&c19Case{style: c19StyleLegacy, limit: 1, msgs: []c19Msg{{role: "u", content: "long long long"}, {role: "s", content: "SYS"}, {role: "u", content: "hi"}}})
	fmt.Fprintf(f, "f4Probe : Bytes := %s\n", c19LeanBytes([]byte(f4.prompt)))
	ce := e.runReal(&c19Case{style: c19StyleGenerated, src: `{{ .Prompt }}{{ if .System }}{{ .Response }}{{ else }}x{{ end }}`, limit: 2048, msgs: []c19Msg{{role: "u", content: "hi"}}})
	fmt.Fprintf(f, "cutElseProbe : Bytes := %s\n", c19LeanBytes([]byte(ce.prompt+ce.panicked)))
	fmt.Fprintf(f, "legacyOrderProbe : Bytes := %s\n", c19LeanBytes([]byte(render(c19StyleLegacy, []api.Message{{Role: "user", Content: "a"}, {Role: "system", Content: "s"}, {Role: "user", Content: "b"}, {Role: "assistant", Content: "c"}, {Role: "system", Content: "t"}}))))
}
