package server

// C03 driver, part 3: generators (enumerated fault x stream x resume state, random histories),
// the L2 property monitors, and the test entry points.

import (
	"bytes"
	"context"
	"fmt"
	"net/http"
	"net/http/httptest"
	"net/url"
	"os"
	"os/exec"
	"path/filepath"
	"sort"
	"strconv"
	"strings"
	"testing"

	"github.com/ollama/ollama/api"
	"github.com/ollama/ollama/zzverif"
)

// ---------------------------------------------------------------- building blocks

func c3NewCase(tag string) *c3Case {
	return &c3Case{nparts: numDownloadParts, minSize: minDownloadPartSize, maxSize: maxDownloadPartSize,
		retries: maxRetries, variant: c3Variant, realm: []byte(c3Realm), tag: tag, reg: c3Manifest{config: c3Layer{"e", 0, 0}}}
}

func (c *c3Case) addLayer(content []byte, asConfig bool) string {
	d := c3Sha(content)
	l := c3Layer{d, int64(len(content)), 0}
	if asConfig {
		c.reg.config = l
	} else {
		c.reg.layers = append(c.reg.layers, l)
	}
	c.content = append(c.content, c3Blob{d, content})
	return d
}

func c3Pass(arg string) c3Reply    { return c3Reply{"pass", arg} }
func c3Unauth(hdr string) c3Reply  { return c3Reply{"unauth", hdr} }
func c3K(kind string) c3Reply      { return c3Reply{kind, ""} }
func c3Body_(src, end string, cut int) c3Chunk { return c3Chunk{src: src, end: end, cut: cut} }

var c3F5Headers = []string{
	"Bearer realm=", `Bearer realm="https://auth.test/token",service=`, "scope=", `Bearer service="x",scope=`,
}

var c3OddHeaders = []string{
	"", "Bearer ", `Bearer service="registry.test"`, `Bearer realm="https://other.test/t",service="s"`, `Basic realm="x"`,
}

// resume states of a layer with content c
func c3Resume(kind int, dig string, c []byte, r *zzverif.Rng) (c3Partial, bool) {
	L := int64(len(c))
	switch kind {
	case 1, 2: // single part, some progress; 2 = the completed prefix is garbage
		if L < 2 {
			return c3Partial{}, false
		}
		k := int64(r.Range(1, int(L-1)))
		data := make([]byte, L)
		copy(data, c[:k])
		if kind == 2 {
			for i := int64(0); i < k; i++ {
				data[i] = 'X'
			}
		}
		return c3Partial{dig: dig, hasData: true, data: data, parts: []c3Part{{0, L, k}}}, true
	case 3: // three parts: done / half / untouched
		if L < 4 {
			return c3Partial{}, false
		}
		a := int64(r.Range(1, int(L-3)))
		b := int64(r.Range(2, int(L-a-1)))
		data := make([]byte, L)
		copy(data, c[:a+b/2])
		return c3Partial{dig: dig, hasData: true, data: data, parts: []c3Part{{0, a, a}, {a, b, b / 2}, {a + b, L - a - b, 0}}}, true
	case 4: // records written, no progress, data file present (attempt died at the direct-URL step)
		return c3Partial{dig: dig, hasData: true, data: make([]byte, L), parts: []c3Part{{0, L, 0}}}, L > 0
	case 5: // two parts, first garbage-complete
		if L < 2 {
			return c3Partial{}, false
		}
		a := int64(r.Range(1, int(L-1)))
		data := bytes.Repeat([]byte{'E'}, int(L))
		return c3Partial{dig: dig, hasData: true, data: data, parts: []c3Part{{0, a, a}, {a, L - a, 0}}}, true
	case 6, 7: // 12 / 17 parts (read back in Glob order: -partial-10 before -partial-2): done / half / untouched in turn
		n := int64(12)
		if kind == 7 {
			n = 17
		}
		if L < n {
			return c3Partial{}, false
		}
		base := L / n
		data := make([]byte, L)
		var parts []c3Part
		for i := int64(0); i < n; i++ {
			off, size := i*base, base
			if i == n-1 {
				size = L - off
			}
			done := int64(0)
			switch i % 3 {
			case 0:
				done = size
			case 1:
				done = size / 2
			}
			copy(data[off:off+done], c[off:off+done])
			parts = append(parts, c3Part{off, size, done})
		}
		return c3Partial{dig: dig, hasData: true, data: data, parts: parts}, true
	}
	return c3Partial{}, false
}

func c3ChunkFaults(r *zzverif.Rng, want int, allowStall bool) []c3Chunk {
	cut := 0
	if want > 1 {
		cut = r.Range(1, want-1)
	}
	long := bytes.Repeat([]byte("<html>503 Service Unavailable</html>"), want/30+2)
	out := []c3Chunk{
		{neterr: true, cut: -1},
		c3Body_("honest", "eof", cut), c3Body_("honest", "ueof", cut), c3Body_("honest", "reset", cut),
		c3Body_("honest", "eof", 0), c3Body_("honest", "ueof", 0),
		c3Body_("full", "eof", -1), c3Body_("full", "ueof", cut),
		{src: "junk", junk: long, cut: -1, end: "eof"},
		{src: "junk", junk: []byte("err"), cut: -1, end: "eof"},
		{src: "junk", junk: []byte("err"), cut: -1, end: "ueof"},
		{src: "flip", flip: 0, cut: -1, end: "eof"},
		{src: "flip", flip: want - 1, cut: -1, end: "eof"},
	}
	if allowStall {
		// single-part layers only (like stalls): the caller interrupts the pull
		out = append(out, c3Body_("honest", "cancel", cut), c3Body_("honest", "cancel", 0), c3Body_("full", "cancel", cut),
			c3Body_("honest", "cancel", -1), c3Chunk{src: "flip", flip: 0, cut: -1, end: "cancel"}) // … at the last byte of the layer
		out = append(out, c3Body_("honest", "stall", cut), c3Body_("honest", "stall", 0),
			c3Chunk{src: "junk", junk: []byte("e"), cut: -1, end: "stall"})
	}
	return out
}

func c3Repeat(c c3Chunk, k int) []c3Chunk {
	var out []c3Chunk
	for i := 0; i < k; i++ {
		out = append(out, c)
	}
	return out
}

// ---------------------------------------------------------------- enumeration

// c3Enum: one fault (kind x stream x position) in attempt 1, for every resume state of the
// faulted layer, followed by two honest attempts.
func c3Enum(root *zzverif.Rng, maxLayers int, emit func(*c3Case)) {
	good := c3GoodChallenge
	type fault struct {
		stream string
		reps   []c3Reply
		tok    []bool
		chunks [][]c3Chunk
	}
	for nl := 1; nl <= maxLayers; nl++ {
		for li := 0; li < nl; li++ {
			for resume := 0; resume <= 7; resume++ {
				r := root.Fork()
				mk := func() (*c3Case, string, []byte, int) {
					c := c3NewCase(fmt.Sprintf("enum-nl%d-res%d", nl, resume))
					var dig string
					var content []byte
					for i := 0; i < nl; i++ {
						b := r.Bytes(r.Range(8, 24))
						if resume >= 6 && i == li {
							b = r.Bytes(r.Range(34, 48))
						}
						d := c.addLayer(b, false)
						if i == li {
							dig, content = d, b
						}
					}
					nparts := 1
					if resume > 0 {
						pa, ok := c3Resume(resume, dig, content, r)
						if ok {
							c.partials = append(c.partials, pa)
							nparts = len(pa.parts)
						}
					}
					return c, dig, content, nparts
				}
				var faults []fault
				for _, reps := range [][]c3Reply{{c3K("neterr")}, {c3K("notfound")}, {c3K("status")}, {c3Unauth(good)},
					{c3Unauth(good), c3Unauth(good)}, {c3Unauth(c3F5Headers[0])}, {c3Unauth(c3OddHeaders[2])}, {c3Pass("badjson")}} {
					if li == 0 {
						faults = append(faults, fault{stream: "m", reps: reps})
					}
				}
				if li == 0 {
					faults = append(faults, fault{stream: "m", reps: []c3Reply{c3Unauth(good)}, tok: []bool{false}})
				}
				for _, reps := range [][]c3Reply{{c3K("neterr")}, {c3K("notfound")}, {c3K("status")}, {c3Unauth(good)},
					{c3Unauth(good), c3Unauth(good)}, {c3Unauth(c3F5Headers[1])}, {c3Pass("0")}, {c3Pass("0absent")}, {c3Pass("0neg")}, {c3Pass("0nan")}, {c3Pass("0empty")},
					{c3Pass("LEN-1")}, {c3Pass("LEN+3")}} {
					faults = append(faults, fault{stream: "h", reps: reps})
				}
				for _, reps := range [][]c3Reply{{c3K("neterr")}, {c3K("notfound")}, {c3K("status")},
					{c3K("neterr"), c3K("status"), c3K("notfound")}, {c3Unauth(good)}, {c3Unauth(good), c3Unauth(good)},
					{c3Unauth(c3F5Headers[0])}, {c3Pass("noloc")}, {c3Pass("badstatus")}, {c3Pass("redirect200")},
					// malformed redirects
					{c3Pass("noloc307")}, {c3Pass("noloc301")}, {c3Pass("badstatus301")}, {c3Pass("badstatus303")}, {c3Pass("badstatus308")},
					{c3Pass("badloc")}, {c3Pass("badloc"), c3Pass("badloc"), c3K("neterr")}, {c3Pass("redirectdead")},
					{c3K("follow")}, {c3K("follow"), c3K("follow"), c3Pass("noloc307")}, c3RepeatReply(c3K("follow"), 10), c3RepeatReply(c3K("follow"), 11), c3RepeatReply(c3K("follow"), 12),
					append(c3RepeatReply(c3K("follow"), 10), c3Pass("redirect200")), append(c3RepeatReply(c3K("follow"), 10), c3Pass("badstatus303")),
					append(c3RepeatReply(c3K("follow"), 10), c3Pass("noloc301")), append(c3RepeatReply(c3K("follow"), 10), c3Pass("redirectdead")),
					append(c3RepeatReply(c3K("follow"), 23), c3Pass("redirect200"))} {
					faults = append(faults, fault{stream: "d", reps: reps})
				}
				for _, reps := range [][]c3Reply{{c3K("follow")}, c3RepeatReply(c3K("follow"), 9), c3RepeatReply(c3K("follow"), 10),
					append(c3RepeatReply(c3K("follow"), 3), c3Unauth(good), c3K("follow"))} {
					faults = append(faults, fault{stream: "h", reps: reps})
					if li == 0 {
						faults = append(faults, fault{stream: "m", reps: reps})
					}
				}
				faults = append(faults, fault{stream: "h", reps: []c3Reply{c3Unauth(good)}, tok: []bool{false}},
					fault{stream: "d", reps: []c3Reply{c3Unauth(good), c3K("status")}, tok: []bool{false}},
					fault{stream: "h", reps: []c3Reply{c3Unauth(c3OddHeaders[3])}})
				if li == 0 && resume == 0 {
					// every JSON answer in a wrong shape: the manifest …
					for _, shape := range c3ManifestShapes {
						c, _, _, _ := mk()
						if c3ShapeCase(c, shape) {
							c.tag += "-shape-ok"
							c.attempts = c3HonestTail(c, []c3Attempt{{}})
						} else {
							c.tag += "-shape-bad"
							c.attempts = c3HonestTail(c, []c3Attempt{{ms: []c3Reply{c3Pass("badjson-" + shape)}}})
						}
						emit(c)
					}
					// … the token answer …
					for _, shape := range c3TokenShapes {
						c, _, _, _ := mk()
						c.tag += "-tokshape"
						c.attempts = c3HonestTail(c, []c3Attempt{{ms: []c3Reply{c3Unauth(good)}, tok: []bool{c3TokenShapeOK(shape)}, tokShape: []string{shape}}})
						emit(c)
					}
					// … and a 10 MB error body on each registry stream
					for _, st := range []string{"m", "h", "d"} {
						c, dig, _, _ := mk()
						a := c3Attempt{}
						switch st {
						case "m":
							a.ms = []c3Reply{c3K("statusbig")}
						case "h":
							a.ls = []c3LScript{{dig: dig, head: []c3Reply{c3K("statusbig")}}}
						case "d":
							a.ls = []c3LScript{{dig: dig, direct: []c3Reply{c3K("statusbig")}}}
						}
						c.attempts = c3HonestTail(c, []c3Attempt{a})
						emit(c)
					}
				}
				if resume == 0 {
					// a registry that really validates bearer tokens, and expires them between attempts: an attempt obtains a
					// token and then fails; the honest retries (which are asked for a new token) must succeed
					for _, f := range []c3LScript{{head: []c3Reply{c3K("status")}}, {direct: []c3Reply{c3Pass("badstatus")}},
						{chunks: [][]c3Chunk{c3Repeat(c3Chunk{neterr: true, cut: -1}, maxRetries)}}, {head: []c3Reply{c3Unauth(good), c3K("notfound")}}} {
						c, dig, _, _ := mk()
						c.tag += "-auth"
						f.dig = dig
						c.attempts = c3HonestTail(c, []c3Attempt{{ms: []c3Reply{c3Unauth(good)}, validate: true, ls: []c3LScript{f}}})
						emit(c)
					}
				}
				// the caller cancels at a progress callback (between two store effects of PullModel), alone and together
				// with a CDN fault on this layer that only the SHA-256 catches
				for _, cp := range []string{"start", "writing", "verifying 0", "verifying 1", "verifying 2"} {
					for _, corrupt := range []string{"", "flip", "junk"} {
						c, dig, content, np := mk()
						a := c3Attempt{cancel: cp}
						if corrupt != "" {
							var scripts [][]c3Chunk
							for p := 0; p < np; p++ {
								ch := c3Chunk{src: "flip", flip: 0, cut: -1, end: "eof"}
								if corrupt == "junk" {
									ch = c3Chunk{src: "junk", junk: bytes.Repeat([]byte("<html>503</html>"), len(content)/8+2), cut: -1, end: "eof"}
								}
								scripts = append(scripts, []c3Chunk{ch})
							}
							a.ls = []c3LScript{{dig: dig, chunks: scripts}}
						}
						c.attempts = c3HonestTail(c, []c3Attempt{a})
						emit(c)
					}
				}
				faults = append(faults, fault{stream: "c"})
				for _, f := range faults {
					if f.stream != "c" {
						c, dig, content, _ := mk()
						reps := append([]c3Reply{}, f.reps...)
						for i := range reps {
							if reps[i].kind == "pass" && strings.HasPrefix(reps[i].arg, "LEN") {
								d, _ := strconv.Atoi(reps[i].arg[3:])
								reps[i].arg = strconv.Itoa(len(content) + d)
							}
						}
						a := c3Attempt{tok: f.tok}
						switch f.stream {
						case "m":
							a.ms = reps
						case "h":
							a.ls = []c3LScript{{dig: dig, head: reps}}
						case "d":
							a.ls = []c3LScript{{dig: dig, direct: reps}}
						}
						c.attempts = c3HonestTail(c, []c3Attempt{a})
						emit(c)
						continue
					}
					// chunk faults: every kind x {once, until retries are used up} x part
					_, _, content0, np0 := mk()
					_ = content0
					for part := 0; part < np0; part++ {
						if np0 > 3 && part != 1 && part != 2 && part != 10 && part != np0-1 {
							continue // many parts: the parts around the Glob/number order difference
						}
						probe, _, _, _ := mk()
						want := 8
						if len(probe.partials) > 0 && part < len(probe.partials[0].parts) {
							q := probe.partials[0].parts[part]
							want = int(q.size - q.done)
							if want == 0 {
								continue
							}
						}
						n := len(c3ChunkFaults(r, want, np0 == 1))
						for k := 0; k < n; k++ {
							for _, rep := range []int{1, maxRetries} {
								c, dig, _, np := mk()
								w := 8
								if len(c.partials) > 0 {
									q := c.partials[0].parts[part]
									w = int(q.size - q.done)
								} else {
									w = len(c.content[li].content)
								}
								if w == 0 {
									continue
								}
								cf := c3ChunkFaults(r, w, np == 1)[k]
								scripts := make([][]c3Chunk, part+1)
								scripts[part] = c3Repeat(cf, rep)
								c.attempts = c3HonestTail(c, []c3Attempt{{ls: []c3LScript{{dig: dig, chunks: scripts}}}})
								emit(c)
							}
						}
					}
				}
			}
		}
	}
}

// ---------------------------------------------------------------- directed cases (the findings, regression seeds)

func c3Directed(emit func(*c3Case)) {
	A, B := []byte("layer-A-contents-0123456789"), []byte("layer-B-contents")
	page := bytes.Repeat([]byte("X"), 64)
	// F6: A corrupted (error page / Range ignored on resume), B 404; then honest retries
	{
		c := c3NewCase("dir-F6-errorpage")
		dA := c.addLayer(A, false)
		c.addLayer(B, false)
		c.content = c.content[:1] // registry lacks B
		c.attempts = []c3Attempt{{ls: []c3LScript{{dig: dA, chunks: [][]c3Chunk{{{src: "junk", junk: page, cut: -1, end: "eof"}}}}}}}
		c.content = append(c.content, c3Blob{c3Sha(B), B}) // B appears later: served by attempts 2, 3 ...
		c.attempts[0].ls = append(c.attempts[0].ls, c3LScript{dig: c3Sha(B), head: []c3Reply{c3K("notfound")}})
		c.attempts = append(c.attempts, c3Attempt{}, c3Attempt{})
		emit(c)
	}
	{
		c := c3NewCase("dir-F6-rangeignored")
		dA := c.addLayer(A, false)
		dB := c.addLayer(B, false)
		data := make([]byte, len(A))
		copy(data, A[:10])
		c.partials = []c3Partial{{dig: dA, hasData: true, data: data, parts: []c3Part{{0, int64(len(A)), 10}}}}
		c.attempts = []c3Attempt{{ls: []c3LScript{{dig: dA, chunks: [][]c3Chunk{{c3Body_("full", "eof", -1)}}},
			{dig: dB, head: []c3Reply{c3K("notfound")}}}}, {}, {}}
		emit(c)
	}
	// duplicate digest: verification skipped for a fresh download
	{
		c := c3NewCase("dir-dupdigest")
		dA := c.addLayer(A, false)
		c.reg.layers = append(c.reg.layers, c.reg.layers[0])
		c.attempts = []c3Attempt{{ls: []c3LScript{{dig: dA, chunks: [][]c3Chunk{{{src: "flip", flip: 3, cut: -1, end: "eof"}}}}}}, {}}
		emit(c)
	}
	{
		c := c3NewCase("dir-dupdigest-config")
		dA := c.addLayer(A, false)
		c.reg.config = c.reg.layers[0]
		c.attempts = []c3Attempt{{ls: []c3LScript{{dig: dA, chunks: [][]c3Chunk{{{src: "junk", junk: page, cut: -1, end: "eof"}}}}}}, {}}
		emit(c)
	}
	// empty digest in a served layer
	{
		c := c3NewCase("dir-emptydigest")
		c.addLayer(A, false)
		c.reg.layers = append(c.reg.layers, c3Layer{"e", 0, 0})
		c.attempts = []c3Attempt{{}}
		emit(c)
	}
	{
		c := c3NewCase("dir-baddigest")
		c.addLayer(A, false)
		c.reg.layers = append(c.reg.layers, c3Layer{"b", 3, 0})
		c.attempts = []c3Attempt{{}}
		emit(c)
	}
	// manifest lies about a size
	{
		c := c3NewCase("dir-sizelie")
		c.addLayer(A, false)
		c.reg.layers[0].size = 5
		c.attempts = []c3Attempt{{}}
		emit(c)
	}
	// HEAD lies with a larger Content-Length: the plan is persisted and every retry fails
	{
		c := c3NewCase("dir-stuckplan")
		dA := c.addLayer(A, false)
		c.attempts = []c3Attempt{{ls: []c3LScript{{dig: dA, head: []c3Reply{c3Pass(strconv.Itoa(len(A) + 9))}}}}, {}, {}}
		emit(c)
	}
	// the registry redirects HEAD but never serves the direct URL: the 30 s direct-URL loop runs into its deadline
	{
		c := c3NewCase("dir-deadline")
		c.addLayer(A, false)
		c.content = nil
		c.attempts = []c3Attempt{{ls: []c3LScript{{dig: c3Sha(A), head: []c3Reply{c3Pass("27")}}}}, {}}
		emit(c)
	}
	// empty manifest, zero-length layer, prune of an old layer shared / not shared with another name
	{
		c := c3NewCase("dir-empty-manifest")
		c.attempts = []c3Attempt{{}}
		emit(c)
	}
	{
		c := c3NewCase("dir-zero-layer")
		c.addLayer(nil, false)
		c.addLayer(B, true)
		c.attempts = []c3Attempt{{}}
		emit(c)
	}
	for shared := 0; shared < 2; shared++ {
		for _, np := range []bool{false, true} {
			c := c3NewCase("dir-prune")
			c.noprune = np
			c.addLayer(A, false)
			old := []byte("old-layer")
			dO := c3Sha(old)
			c.blobs = append(c.blobs, c3Blob{dO, old})
			c.manifests = append(c.manifests, c3Man{name: 0, m: c3Manifest{layers: []c3Layer{{dO, int64(len(old)), 0}}, config: c3Layer{"e", 0, 0}}})
			if shared == 1 {
				c.manifests = append(c.manifests, c3Man{name: 1, m: c3Manifest{layers: []c3Layer{{dO, int64(len(old)), 0}}, config: c3Layer{"e", 0, 0}}})
			}
			c.attempts = []c3Attempt{{}}
			emit(c)
		}
	}
}

// ---------------------------------------------------------------- random histories

func c3RandContent(r *zzverif.Rng) []byte {
	switch r.Intn(20) {
	case 0:
		return nil
	case 1:
		return r.Bytes(r.Range(1000, 65536))
	}
	return r.Bytes(r.Pick3(1, 24, 300))
}

func c3RandReplies(r *zzverif.Rng, stream string, trueLen int) []c3Reply {
	n := r.Pick3(1, 2, 4)
	var out []c3Reply
	for i := 0; i < n; i++ {
		switch r.Intn(10) {
		case 0:
			out = append(out, c3K("neterr"))
		case 1:
			out = append(out, c3K("notfound"))
		case 2:
			out = append(out, c3K("status"))
		case 3:
			out = append(out, c3Unauth(c3GoodChallenge))
		case 4:
			if r.Bool() {
				out = append(out, c3Unauth(c3GoodChallenge))
			} else {
				out = append(out, c3RepeatReply(c3K("follow"), zzverif.Pick(r, []int{1, 1, 2, 9, 10, 11, 12}))...)
			}
		case 5:
			if stream == "d" { // a panic on the download goroutine needs a child process: keep those rare
				if r.Chance(1, 6) {
					out = append(out, c3Unauth(zzverif.Pick(r, c3F5Headers)))
				} else {
					out = append(out, c3Unauth(c3GoodChallenge))
				}
			} else if r.Bool() {
				out = append(out, c3Unauth(zzverif.Pick(r, c3F5Headers)))
			} else {
				out = append(out, c3Unauth(zzverif.Pick(r, c3OddHeaders)))
			}
		default:
			switch stream {
			case "m":
				out = append(out, c3Pass(zzverif.Pick(r, []string{"served", "served", "badjson"})))
			case "h":
				if r.Chance(1, 6) {
					out = append(out, c3Pass(zzverif.Pick(r, []string{"0", "0absent", "0neg", "0nan", "0empty"})))
				} else {
					out = append(out, c3Pass(strconv.Itoa(zzverif.Pick(r, []int{trueLen, trueLen, 0, trueLen + r.Range(1, 9), trueLen / 2, trueLen - 1, r.Intn(70000)}))))
				}
			case "d":
				out = append(out, c3Pass(zzverif.Pick(r, []string{"redirect", "redirect", "redirect200", "noloc", "badstatus",
					"noloc307", "noloc301", "badstatus301", "badstatus303", "badstatus308", "badloc", "badloc", "redirectdead"})))
			}
		}
	}
	for i := range out {
		if out[i].kind == "pass" && strings.HasPrefix(out[i].arg, "-") {
			out[i].arg = "0"
		}
	}
	return out
}

func c3RandChunks(r *zzverif.Rng, want int, allowStall bool) []c3Chunk {
	if want < 1 {
		want = 1
	}
	n := r.Pick3(1, 3, 9)
	var out []c3Chunk
	for i := 0; i < n; i++ {
		out = append(out, zzverif.Pick(r, c3ChunkFaults(r, want, allowStall)))
	}
	return out
}

func c3Random(r *zzverif.Rng) *c3Case {
	c := c3NewCase("rand")
	nl := r.Intn(4)
	for i := 0; i < nl; i++ {
		c.addLayer(c3RandContent(r), false)
	}
	if r.Chance(7, 10) {
		c.addLayer(c3RandContent(r), true)
	}
	c.noprune = r.Chance(1, 10)
	// registry-side deviations
	if nl > 0 && r.Chance(1, 10) {
		c.tag = "rand-dup"
		c.reg.layers = append(c.reg.layers, c.reg.layers[r.Intn(nl)])
	}
	if r.Chance(1, 30) {
		c.tag = "rand-emptydigest"
		c.reg.layers = append(c.reg.layers, c3Layer{"e", 0, 0})
	}
	if r.Chance(1, 30) {
		c.tag = "rand-baddigest"
		c.reg.layers = append(c.reg.layers, c3Layer{"b", 1, 0})
	}
	if nl > 0 && r.Chance(1, 20) {
		c.tag = "rand-sizelie"
		c.reg.layers[r.Intn(nl)].size += int64(r.Range(1, 5))
	}
	if len(c.content) > 0 && r.Chance(1, 10) {
		i := r.Intn(len(c.content))
		if r.Bool() && len(c.content[i].content) > 0 {
			c.tag = "rand-regcorrupt"
			b := append([]byte{}, c.content[i].content...)
			b[r.Intn(len(b))] ^= 1
			c.content[i].content = b
		} else {
			c.tag = "rand-regmissing"
			c.content = append(c.content[:i:i], c.content[i+1:]...)
		}
	}
	// initial store
	multi := map[string]bool{}
	npartsOf := map[string]int{}
	trueContent := map[string][]byte{}
	for _, l := range c.reg.all() {
		if len(l.ref) != 64 {
			continue
		}
		var content []byte
		for _, b := range c.content {
			if b.dig == l.ref {
				content = b.content
			}
		}
		trueContent[l.ref] = content
		dup := false
		for _, b := range c.blobs {
			dup = dup || b.dig == l.ref
		}
		for _, p := range c.partials {
			dup = dup || p.dig == l.ref
		}
		if dup {
			continue
		}
		switch x := r.Intn(100); {
		case x < 15:
			c.blobs = append(c.blobs, c3Blob{l.ref, content})
		case x < 19:
			c.blobs = append(c.blobs, c3Blob{l.ref, []byte("corrupt-preexisting")})
		case x < 45:
			kind := r.Range(1, 5)
			if r.Chance(1, 4) {
				kind = r.Range(6, 7)
			}
			if pa, ok := c3Resume(kind, l.ref, content, r); ok {
				c.partials = append(c.partials, pa)
				multi[l.ref] = len(pa.parts) > 1
				npartsOf[l.ref] = len(pa.parts)
			}
		}
	}
	switch x := r.Intn(10); {
	case x < 3:
		old := append([]byte("old-layer-"), r.Bytes(r.Range(1, 12))...)
		dO := c3Sha(old)
		for _, b := range c.blobs { // never two entries for one digest
			if b.dig == dO {
				old = append(old, '+')
				dO = c3Sha(old)
			}
		}
		c.blobs = append(c.blobs, c3Blob{dO, old})
		om := c3Manifest{layers: []c3Layer{{dO, int64(len(old)), 0}}, config: c3Layer{"e", 0, 0}}
		if nl > 0 && r.Bool() { // the old manifest shares a layer with the new one (blob present and valid)
			l := c.reg.layers[0]
			if len(l.ref) == 64 {
				have := false
				for _, b := range c.blobs {
					have = have || b.dig == l.ref
				}
				for _, p := range c.partials {
					have = have || p.dig == l.ref
				}
				if !have && trueContent[l.ref] != nil && c3Sha(trueContent[l.ref]) == l.ref {
					c.blobs = append(c.blobs, c3Blob{l.ref, trueContent[l.ref]})
					om.layers = append(om.layers, l)
				}
			}
		}
		c.manifests = append(c.manifests, c3Man{name: 0, m: om})
		if r.Chance(1, 3) {
			c.manifests = append(c.manifests, c3Man{name: 1, m: c3Manifest{layers: []c3Layer{{dO, int64(len(old)), 0}}, config: c3Layer{"e", 0, 0}}})
		}
	case x < 4:
		c.manifests = append(c.manifests, c3Man{name: 0, corrupt: true})
	case x < 6:
		// the name already resolves to an earlier version of the tag that is RELATED to the served one (same layers and
		// another config / media type, a layer more or less, another order, the very same manifest ...)
		clean := true
		for _, l := range c.reg.all() {
			clean = clean && len(l.ref) == 64
		}
		if clean {
			w := &c3RepWorld{c: c}
			kind := zzverif.Pick(r, c3RepKinds)
			w.install(0, c3Republished(w, r, kind, c.reg))
			if c.tag == "rand" {
				c.tag = "rand-related-old"
			}
		}
	}
	if nl > 0 && r.Chance(1, 12) { // descriptors with other media types
		c.reg.layers[r.Intn(nl)].mt = r.Range(1, len(c3MediaTypes)-1)
	}
	// scripted attempts
	authHistory := r.Chance(1, 5)
	na := r.Range(1, 2)
	for ai := 0; ai < na; ai++ {
		var a c3Attempt
		if r.Chance(1, 4) {
			a.ms = c3RandReplies(r, "m", 0)
		}
		if r.Chance(1, 3) {
			for i := r.Range(1, 3); i > 0; i-- {
				a.tok = append(a.tok, r.Chance(2, 3))
			}
		}
		for _, l := range c.reg.all() {
			if len(l.ref) != 64 || r.Chance(1, 3) {
				continue
			}
			ls := c3LScript{dig: l.ref}
			tl := len(trueContent[l.ref])
			if r.Chance(1, 4) {
				ls.head = c3RandReplies(r, "h", tl)
			}
			if r.Chance(1, 4) {
				ls.direct = c3RandReplies(r, "d", tl)
			}
			if r.Chance(3, 5) {
				nparts := 1
				if multi[l.ref] {
					nparts = npartsOf[l.ref]
				}
				for p := 0; p < nparts; p++ {
					if nparts > 1 && r.Bool() {
						ls.chunks = append(ls.chunks, nil)
						continue
					}
					ls.chunks = append(ls.chunks, c3RandChunks(r, tl, !multi[l.ref]))
				}
			}
			a.ls = append(a.ls, ls)
		}
		if r.Chance(1, 6) {
			a.cancel = zzverif.Pick(r, []string{"start", "writing", "verifying 0", "verifying 0", "verifying 1", "verifying 2"})
		}
		// token answers in odd JSON shapes
		for i := range a.tok {
			a.tokShape = append(a.tokShape, "")
			if r.Chance(1, 3) {
				sh := zzverif.Pick(r, c3TokenShapes)
				if sh != "big" || r.Chance(1, 5) {
					a.tokShape[i], a.tok[i] = sh, c3TokenShapeOK(sh)
				}
			}
		}
		c.attempts = append(c.attempts, a)
	}
	if authHistory {
		for i := range c.attempts {
			a := &c.attempts[i]
			a.validate = true
			a.ms = append([]c3Reply{c3Unauth(c3GoodChallenge)}, a.ms...)
			for j := range a.tokShape { // a validating registry hands out real tokens
				if a.tok[j] {
					a.tokShape[j] = ""
				}
			}
			if len(a.tok) > 0 && !a.tok[0] && r.Bool() {
				a.tok[0] = true
				a.tokShape[0] = ""
			}
		}
		c.tag = "rand-auth"
	}
	if r.Chance(1, 8) {
		sh := zzverif.Pick(r, c3ManifestShapes)
		if sh != "big10m" || r.Chance(1, 5) {
			if c3ShapeCase(c, sh) {
				c.tag = "rand-shape-ok"
			} else {
				c.tag = "rand-shape-bad"
				c.attempts[0].ms = append(c.attempts[0].ms, c3Pass("badjson-"+sh))
			}
		}
	}
	c.attempts = c3HonestTail(c, c.attempts)
	return c
}

// ---------------------------------------------------------------- running a case, L2

func c3NeedsChild(a *c3Attempt) bool {
	for _, l := range a.ls {
		for _, r := range l.direct {
			// pinned getValue: a 401 on the direct-URL request whose header ends with key= kills the process
			if r.kind == "unauth" && !c3ProbeFixed() && strings.HasPrefix(c3HdrDetail(r.arg), "header ends") {
				return true
			}
		}
	}
	return false
}

func c3HdrDetail(hdr string) string {
	h := strings.TrimPrefix(hdr, "Bearer ")
	for _, k := range []string{"realm", "service", "scope"} {
		if i := strings.Index(h, k+"="); i >= 0 && i+len(k)+1 == len(h) {
			return "header ends with " + k + "="
		}
	}
	return "header has no key= at its end"
}

func c3AttemptPanicDetail(a *c3Attempt, class string) string {
	if class == "panic:challenge" {
		all := append([]c3Reply{}, a.ms...)
		for _, l := range a.ls {
			all = append(all, l.head...)
			all = append(all, l.direct...)
		}
		for _, r := range all {
			if r.kind == "unauth" && strings.HasPrefix(c3HdrDetail(r.arg), "header ends") {
				return "site=challenge " + c3HdrDetail(r.arg)
			}
		}
		return "site=challenge (no header of the script ends with key=)"
	}
	return "site=" + strings.TrimPrefix(class, "panic:")
}

func c3DiskGood(d *c3Disk) bool {
	for k, b := range d.blobs {
		if c3Sha(b) != k {
			return false
		}
	}
	for _, m := range d.mans {
		if m == nil {
			continue
		}
		for _, l := range append(append([]Layer{}, m.Layers...), m.Config) {
			if l.Digest == "" {
				continue
			}
			if _, ok := d.blobs[c3RefOf(l.Digest)]; !ok {
				return false
			}
		}
	}
	return true
}

func c3RegHonest(c *c3Case) bool {
	have := map[string]bool{}
	for _, b := range c.content {
		if c3Sha(b.content) != b.dig {
			return false
		}
		have[b.dig] = true
	}
	for _, m := range c.allRegs() {
		for _, l := range m.all() {
			if len(l.ref) != 64 || !have[l.ref] {
				return false
			}
		}
	}
	return true
}

func c3RunCase(t *testing.T, out *zzverif.Out, c *c3Case) {
	// A panic on the download goroutine runs its deferred close(b.done) first, so while the process is
	// dying PullModel's own goroutine wakes up and may still run the verify loop (and remove blobs)
	// before exit: the store after such a death is racy by nature.  Such an attempt therefore ends
	// its history, and its store is not compared (see normalize in vlib/checks/c03.py).
	for i := range c.attempts {
		if c3NeedsChild(&c.attempts[i]) {
			c.attempts = c.attempts[:i+1]
			break
		}
	}
	c.fixUniv()
	line := c.line()
	if !c3Begin(out, line) {
		return
	}
	defer out.Flush()
	home := t.TempDir()
	models := filepath.Join(home, "models")
	c3Materialise(c, models)
	before := c3ReadDisk(models)
	initialGood := c3DiskGood(before)
	reportedCorrupt := map[string]bool{} // layers already reported as installed corrupt by an earlier attempt of this history
	blobOrigin := map[string]string{} // how a blob that was not in the initial store got its final name
	var obs []string
	lastClass, lastErrText := "", ""
	out.Count("cases")
	out.Count("tag_" + strings.SplitN(c.tag, "-res", 2)[0])
	if initialGood {
		out.Count("initial_store_good")
	}
	for ai := range c.attempts {
		a := &c.attempts[ai]
		reg := c.regOf(a) // what the registry serves in this attempt (the tag may have been re-published)
		dupDigest := map[string]int{}
		for _, l := range reg.all() {
			dupDigest[l.ref]++
		}
		if a.reg != nil {
			out.Count("attempts_republished")
		}
		var res c3Result
		if c3NeedsChild(a) {
			res = c3RunChild(t, line, models, home, ai)
			out.Count("attempts_in_child")
		} else {
			res = c3RunAttempt(t, c, a, models, "")
		}
		after := c3ReadDisk(models)
		obs = append(obs, fmt.Sprintf("%s req=%s %s", res.class, res.counts, after.show()))
		out.Count("attempts")
		out.Count("outcome_" + strings.SplitN(res.class, ":other", 2)[0])
		lastClass, lastErrText = res.class, res.errText
		where := fmt.Sprintf("attempt=%d", ai+1)

		// ---- L2: no registry response crashes the server
		if strings.HasPrefix(res.class, "panic") {
			out.L2("panic", line, c3AttemptPanicDetail(a, res.class)+" "+where)
		}
		if res.died {
			out.Count("attempts_died_in_child")
			break
		}
		// ---- L2: success => exactly the published, digest-verified model
		reported := false
		if res.class == "ok" {
			sawSuccess := false
			for _, s := range res.statuses {
				sawSuccess = sawSuccess || s == "success"
			}
			if !sawSuccess && !c3NeedsChild(a) {
				out.L2("success-without-status", line, where)
			}
			for li, l := range reg.all() {
				if len(l.ref) != 64 {
					out.L2("success-unaddressable-layer", line, "ref="+l.ref+" "+where)
					continue
				}
				b, ok := after.blobs[l.ref]
				switch {
				case !ok:
					out.L2("success-missing-layer", line, "layer="+l.ref[:12]+" "+where)
					reported = true
				case c3Sha(b) != l.ref:
					origin := "preexisting"
					if _, had := before.blobs[l.ref]; !had {
						origin = "fresh"
						if dupDigest[l.ref] > 1 {
							origin = "dup-digest"
						}
						blobOrigin[l.ref] = origin
					} else if o, ok := blobOrigin[l.ref]; ok {
						origin = o
					}
					if origin != "preexisting" || initialGood {
						out.L2("success-corrupt-layer", line, "layer="+l.ref[:12]+" origin="+origin+" "+where)
					} else {
						// the case STARTED with a blob that does not hash to its name (not written by any pull): PullModel
						// takes a file on disk as a cache hit and never re-verifies it.  Outside the property's quantifier
						// (listed assumption "the initial store satisfies BlobInv"); counted so that it is visible.
						out.Count("success_with_corrupt_blob_of_a_bad_initial_store")
					}
					reportedCorrupt[l.ref] = true
					reported = true
				case int64(len(b)) != l.size:
					// who lied: the served manifest declares a size that is not the length of the registry's blob
					// (scripted-size-lie=true: finding C03-size), or the size got wrong on the way (false: something new)
					scripted := false
					for _, rb := range c.content {
						if rb.dig == l.ref && int64(len(rb.content)) != l.size {
							scripted = true
						}
					}
					stored := int64(-1) // the size the stored manifest declares for the descriptor at the same position
					if sm := after.mans[c.name]; sm != nil {
						sall := append([]Layer{}, sm.Layers...)
						if sm.Config.Digest != "" {
							sall = append(sall, sm.Config)
						}
						if li < len(sall) && c3RefOf(sall[li].Digest) == l.ref {
							stored = sall[li].Size
						}
					}
					out.L2("success-size-mismatch", line, fmt.Sprintf("layer=%s scripted-size-lie=%v served-size=%d stored-manifest-size=%d actual=%d %s", l.ref[:12], scripted && stored == l.size, l.size, stored, len(b), where))
				}
			}
			m := after.mans[c.name]
			if m == nil {
				out.L2("success-manifest-differs", line, "stored manifest missing or unreadable "+where)
			} else if got := after.rawMans[c.name]; !bytes.Equal(got, c3StoredManifestJSON(c, a)) {
				detail := "stored=" + string(got)
				if om := before.mans[c.name]; om != nil {
					if ob := before.rawMans[c.name]; bytes.Equal(ob, got) {
						detail = "the manifest stored before this attempt is still there, the registry served another one: " + detail
					}
				}
				out.L2("success-manifest-differs", line, detail+" "+where)
			}
		} else {
			// ---- L2 (mechanism): a failed attempt leaves no unverified blob under its final name
			for k, b := range after.blobs {
				if _, had := before.blobs[k]; !had {
					blobOrigin[k] = "failed-attempt-rename failed-with=" + res.class
					if res.class == "err:digest-mismatch" && strings.Contains(res.errText, "want sha256:"+k) {
						out.L2("mismatch-blob-not-removed", line, "blob="+k[:12]+" was reported as a digest mismatch and is still stored "+where)
					} else if c3Sha(b) != k {
						out.L2("corrupt-blob-after-failed-pull", line, "blob="+k[:12]+" left-by-failed-attempt failed-with="+res.class+" "+where)
					}
				}
			}
			// a failed attempt must not touch what was there
			for k, b := range before.blobs {
				if nb, ok := after.blobs[k]; !ok || !bytes.Equal(nb, b) {
					out.L2("failed-pull-damaged-blob", line, "blob="+k[:12]+" "+where)
				}
			}
			for id, m := range before.mans {
				nm, ok := after.mans[id]
				if !ok || (m == nil) != (nm == nil) || (m != nil && c3ShowManifest(m) != c3ShowManifest(nm)) {
					out.L2("failed-pull-changed-manifest", line, fmt.Sprintf("name=%d %s", id, where))
				}
			}
		}
		// ---- L2: every name that resolves has all layers, intact (given it was so before)
		if initialGood && !reported {
			for id, m := range after.mans {
				if m == nil {
					continue
				}
				for _, l := range append(append([]Layer{}, m.Layers...), m.Config) {
					if l.Digest == "" {
						continue
					}
					ref := c3RefOf(l.Digest)
					b, ok := after.blobs[ref]
					if !ok {
						out.L2("name-resolves-broken", line, fmt.Sprintf("name=%d layer=%s missing %s", id, c3Short(ref), where))
					} else if c3Sha(b) != ref && !(id == c.name && res.class == "ok") && !reportedCorrupt[ref] {
						out.L2("name-resolves-broken", line, fmt.Sprintf("name=%d layer=%s corrupt %s", id, c3Short(ref), where))
					}
				}
			}
		}
		before = after
	}
	// ---- L2: a later retry can still succeed (the last two attempts of every generated case are honest)
	// An honest attempt that finds a corrupt layer removes it and stops, so a history that left k layers
	// with bad resume state legitimately needs k+1 honest attempts: the verdict is only given when the
	// history ends with that many.
	honest := 0
	for i := len(c.attempts) - 1; i >= 0 && c3AttemptHonest(&c.attempts[i]); i-- {
		honest++
	}
	if honest >= c3HonestNeeded(c) && initialGood && c3RegHonest(c) && lastClass != "ok" && !strings.HasPrefix(lastClass, "panic") {
		detail := "last=" + c3Sanitize(lastClass)
		// the layer the last attempt stopped at: PullModel fetches the layers in manifest order and returns at the first
		// failure, so it is the first layer of the served manifest that is still not stored
		stuck := "none"
		for _, l := range c.regOf(&c.attempts[len(c.attempts)-1]).all() {
			if _, ok := before.blobs[l.ref]; !ok && len(l.ref) == 64 {
				stuck = l.ref[:12]
				break
			}
		}
		_ = lastErrText
		detail += " stuck-layer=" + stuck
		var pks []string
		for k := range before.parts {
			pks = append(pks, k)
		}
		sort.Strings(pks)
		for _, k := range pks {
			ps := before.parts[k]
			var total int64
			for _, p := range ps {
				total += p.Size
			}
			for _, b := range c.content {
				if b.dig == k && total != int64(len(b.content)) {
					cmp := "<"
					if total > int64(len(b.content)) {
						cmp = ">"
					}
					detail += fmt.Sprintf(" part-plan-total[%s] %d %s true-size %d", k[:12], total, cmp, len(b.content))
				}
			}
		}
		out.L2("retry-stuck", line, detail)
	}
	out.Case(line, strings.Join(obs, " || "))
}

// c3RunChild runs one attempt in a child process (a panic on the download goroutine cannot be recovered).
func c3RunChild(t *testing.T, line, models, home string, ai int) c3Result {
	dir := t.TempDir()
	caseFile := filepath.Join(dir, "case.txt")
	_ = os.WriteFile(caseFile, []byte(line), 0o644)
	resFile, cntFile := filepath.Join(dir, "res.txt"), filepath.Join(dir, "cnt.txt")
	cmd := exec.Command(os.Args[0], "-test.run", "^TestVerifC03Child$", "-test.count=1")
	cmd.Env = append(os.Environ(), "VERIF_C03_CHILD="+caseFile, "VERIF_C03_MODELS="+models, "VERIF_C03_HOME="+home,
		"VERIF_C03_ATT="+strconv.Itoa(ai), "VERIF_C03_RES="+resFile, "VERIF_C03_CNT="+cntFile)
	outb, _ := cmd.CombinedOutput()
	if b, err := os.ReadFile(resFile); err == nil {
		f := strings.Fields(string(b))
		if len(f) == 2 {
			return c3Result{class: f[0], counts: f[1], statuses: []string{"success"}}
		}
	}
	cnt, cerr := os.ReadFile(cntFile)
	if dbg := os.Getenv("VERIF_C03_DEBUG"); dbg != "" && len(cnt) == 0 {
		_ = os.WriteFile(filepath.Join(dbg, fmt.Sprintf("dbg-%d.txt", os.Getpid())), []byte(fmt.Sprintf("cerr=%v\n%s", cerr, outb)), 0o644)
	}
	if ls := strings.Split(strings.TrimSpace(string(cnt)), "\n"); len(ls) > 0 {
		cnt = []byte(ls[len(ls)-1]) // the counters after the last request the child made
	}
	class := "panic:other"
	if strings.Contains(string(outb), "panic:") {
		class = c3PanicSite(string(outb))
	} else {
		class = "child-failed:" + strings.ReplaceAll(string(outb[max(0, len(outb)-300):]), " ", "_")
	}
	return c3Result{class: class, counts: string(cnt), died: true}
}

func TestVerifC03Child(t *testing.T) {
	caseFile := os.Getenv("VERIF_C03_CHILD")
	if caseFile == "" {
		t.Skip("child only")
	}
	b, _ := os.ReadFile(caseFile)
	c := c3Parse(string(b))
	ai, _ := strconv.Atoi(os.Getenv("VERIF_C03_ATT"))
	c3Setup(t, os.Getenv("VERIF_C03_HOME"))
	res := c3RunAttempt(t, c, &c.attempts[ai], os.Getenv("VERIF_C03_MODELS"), os.Getenv("VERIF_C03_CNT"))
	_ = os.WriteFile(os.Getenv("VERIF_C03_RES"), []byte(res.class+" "+res.counts), 0o644)
}

// ---------------------------------------------------------------- challenge fuzz, plan table

func c3ChallengeCases(r *zzverif.Rng, n int) []string {
	frags := []string{"Bearer ", "realm=", "service=", "scope=", `"`, `",`, ",", "=", "https://auth.test/token", "a", " ", "x:y", "realm", `\"`, "\x00", "é"}
	out := append([]string{}, c3F5Headers...)
	out = append(out, c3OddHeaders...)
	out = append(out, c3GoodChallenge, `realm="a`, `realm="a"`, `realm="a"b",service="s"`, `realm=",`, `realm="",scope="`)
	for len(out) < n {
		var sb strings.Builder
		for k := r.Pick3(1, 5, 12); k > 0; k-- {
			sb.WriteString(zzverif.Pick(r, frags))
		}
		out = append(out, sb.String())
	}
	return out
}

type c3HeadOnly struct{ total int64 }

func (h c3HeadOnly) RoundTrip(req *http.Request) (*http.Response, error) {
	return c3Resp(req, 200, map[string]string{"Content-Length": strconv.FormatInt(h.total, 10)}, nil), nil
}

func c3RealPlan(t *testing.T, total int64) string {
	dir := t.TempDir()
	dig := strings.Repeat("ab", 32)
	b := &blobDownload{Name: filepath.Join(dir, "sha256-"+dig), Digest: "sha256:" + dig}
	old := http.DefaultTransport
	http.DefaultTransport = c3HeadOnly{total}
	defer func() { http.DefaultTransport = old }()
	u, _ := url.Parse("https://registry.test/v2/ns/m/blobs/sha256:" + dig)
	if perr := func() (perr string) {
		defer func() {
			if r := recover(); r != nil {
				perr = fmt.Sprintf("panic:%v", r)
			}
		}()
		if err := b.Prepare(context.Background(), u, &registryOptions{}); err != nil {
			return "err:" + err.Error()
		}
		return ""
	}(); perr != "" {
		return perr
	}
	s := []string{strconv.Itoa(len(b.Parts))}
	for _, p := range b.Parts {
		s = append(s, fmt.Sprintf("%d/%d", p.Offset, p.Size))
	}
	return strings.Join(s, " ")
}

// ---------------------------------------------------------------- entry point

func TestVerifC03(t *testing.T) {
	if os.Getenv("VERIF_OUT") == "" {
		t.Skip("verification driver; run through /verif/check")
	}
	out := zzverif.NewOut()
	defer out.Close()
	c3Setup(t, t.TempDir())
	_ = os.WriteFile(filepath.Join(zzverif.OutDir(), "progress.txt"), []byte("probe\nvariant probes: getValue(\"realm=\"), downloadBlob(\"\"), one- and two-layer pulls with a corrupt layer / a repeated digest (see c3ProbeVariant)\n"), 0o644)
	c3ProbeVariant(t)
	out.Add("variant_mask", c3Variant)
	out.Flush()
	root := zzverif.NewRng(zzverif.Seed())

	if rp := os.Getenv("VERIF_REPLAY"); rp != "" {
		b, err := os.ReadFile(rp)
		if err != nil {
			t.Fatal(err)
		}
		line := strings.TrimSpace(string(b))
		switch {
		case strings.HasPrefix(line, "pull "):
			c3RunCase(t, out, c3Parse(line))
		case strings.HasPrefix(line, "pull2 "):
			c3TwoCase(t, out, c3ParseTwo(line))
		case strings.HasPrefix(line, "big "):
			c3BigCase(t, out, line)
		case strings.HasPrefix(line, "challenge "):
			f := strings.Fields(line)
			c3Challenge(out, string(zzverif.Unhex(f[2])))
		}
		c3Done()
		return
	}

	// corpus first
	if dir := os.Getenv("VERIF_CORPUS"); dir != "" {
		files, _ := filepath.Glob(filepath.Join(dir, "*.case"))
		for _, f := range files {
			b, _ := os.ReadFile(f)
			for _, line := range strings.Split(string(b), "\n") {
				if strings.HasPrefix(line, "pull ") {
					c := c3Parse(line)
					c.tag = "corpus"
					c3RunCase(t, out, c)
				}
			}
		}
	}

	first := zzverif.EnvInt("VERIF_C03_START", 0) == 0
	// 1. challenge parsing: byte-exact L1 + totality L2
	chr := root.Fork()
	for _, h := range c3ChallengeCases(chr, zzverif.EnvInt("VERIF_NCH", 2000)) {
		if first {
			c3Challenge(out, h)
		}
	}
	// 2. part plan of the real Prepare for totals around every boundary
	pr := root.Fork()
	totals := []int64{0, 1, 2, minDownloadPartSize - 1, minDownloadPartSize, minDownloadPartSize + 1, 2*minDownloadPartSize + 7,
		numDownloadParts*minDownloadPartSize - 1, numDownloadParts * minDownloadPartSize, numDownloadParts*minDownloadPartSize + 17,
		numDownloadParts*maxDownloadPartSize - 1, numDownloadParts * maxDownloadPartSize, numDownloadParts*maxDownloadPartSize + 1}
	for i := 0; i < zzverif.EnvInt("VERIF_NPLAN", 40); i++ {
		totals = append(totals, int64(pr.U64()%(1<<uint(pr.Range(1, 36)))))
	}
	for _, total := range totals {
		if !first {
			break
		}
		planLine := fmt.Sprintf("plan %d %d %d %d", numDownloadParts, minDownloadPartSize, maxDownloadPartSize, total)
		got := c3RealPlan(t, total)
		out.Case(planLine, got)
		out.Count("plan_cases")
		if strings.HasPrefix(got, "panic:") {
			out.L2("panic", planLine, "site=prepare blobDownload.Prepare panics for a HEAD with Content-Length "+strconv.FormatInt(total, 10)+": "+got)
		}
	}
	// 3. pull histories
	c3Directed(func(c *c3Case) { c3RunCase(t, out, c) })
	maxLayers := 2
	if os.Getenv("VERIF_TIER") == "thorough" {
		maxLayers = 3
	}
	c3Enum(root.Fork(), maxLayers, func(c *c3Case) { c3RunCase(t, out, c) })
	rr := root.Fork()
	for i := 0; i < zzverif.EnvInt("VERIF_N", 300); i++ {
		c3RunCase(t, out, c3Random(rr.Fork()))
	}
	// 3a. re-pulls of a name whose tag was re-published (related old and new manifests)
	c3Republish(root.Fork(), zzverif.EnvInt("VERIF_NREP", 150), func(c *c3Case) { c3RunCase(t, out, c) })
	// 3b. two overlapping pulls sharing a layer
	c3TwoCases(root.Fork(), zzverif.EnvInt("VERIF_NTWO", 40), func(w *c3Two) { c3TwoCase(t, out, w) })
	// 4. resume from real multi-part state (>= 11 parts, > 1 GB virtual blob)
	if zzverif.EnvInt("VERIF_NBIG", 1) > 0 {
		for _, l := range c3BigLines(root.Fork(), os.Getenv("VERIF_TIER") == "thorough") {
			c3BigCase(t, out, l)
		}
	}
	c3Done()
}

func c3Challenge(out *zzverif.Out, h string) {
	impl := func() (s string) {
		defer func() {
			if r := recover(); r != nil {
				s = "panic"
			}
		}()
		ch := parseRegistryChallenge(h)
		return fmt.Sprintf("ok %s %s %s", zzverif.Hex([]byte(ch.Realm)), zzverif.Hex([]byte(ch.Service)), zzverif.Hex([]byte(ch.Scope)))
	}()
	line := "challenge " + c3b(c3ProbeFixed()) + " " + zzverif.Hex([]byte(h))
	out.Case(line, impl)
	out.Count("challenge_cases")
	if impl == "panic" {
		out.Count("challenge_panics")
		out.L2("challenge-panic", line, "site=challenge "+c3HdrDetail(h))
	}
}

// ---------------------------------------------------------------- process liveness through the real PullHandler

type c3LiveNet struct{ scenario string }

func (n c3LiveNet) RoundTrip(req *http.Request) (*http.Response, error) {
	switch n.scenario {
	case "f5-realm":
		resp := c3Resp(req, 401, nil, c3BytesBody(nil))
		resp.Header["Www-Authenticate"] = []string{"Bearer realm="}
		return resp, nil
	case "empty-digest":
		return c3Resp(req, 200, nil, c3BytesBody([]byte(`{"schemaVersion":2,"layers":[{"digest":"","size":0}]}`))), nil
	}
	return c3Resp(req, 404, nil, c3BytesBody([]byte("not found"))), nil
}

// child: POST /api/pull through the gin router (which has the Recovery middleware) against a scripted registry
func TestVerifC03LiveChild(t *testing.T) {
	sc := os.Getenv("VERIF_C03_LIVE")
	if sc == "" {
		t.Skip("child only")
	}
	t.Setenv("OLLAMA_MODELS", t.TempDir())
	http.DefaultTransport = c3LiveNet{sc}
	s := &Server{}
	router, err := s.GenerateRoutes(nil)
	if err != nil {
		t.Fatal(err)
	}
	w := httptest.NewRecorder()
	req := httptest.NewRequest(http.MethodPost, "/api/pull", strings.NewReader(`{"model":"registry.test/ns/m0:latest"}`))
	router.ServeHTTP(w, req)
	fmt.Printf("ALIVE status=%d body=%s\n", w.Code, strings.ReplaceAll(w.Body.String(), "\n", " "))
}

func TestVerifC03Liveness(t *testing.T) {
	if os.Getenv("VERIF_OUT") == "" {
		t.Skip("verification driver; run through /verif/check")
	}
	out := zzverif.NewOut()
	defer out.Close()
	for _, sc := range []struct{ name, detail string }{
		{"control-404", ""},
		{"f5-realm", "site=challenge header ends with realm="},
		{"empty-digest", "site=empty-digest"},
	} {
		cmd := exec.Command(os.Args[0], "-test.run", "^TestVerifC03LiveChild$", "-test.count=1")
		cmd.Env = append(os.Environ(), "VERIF_C03_LIVE="+sc.name)
		b, err := cmd.CombinedOutput()
		out.Count("liveness_children")
		alive := err == nil && strings.Contains(string(b), "ALIVE")
		if alive {
			out.Count("liveness_alive")
			continue
		}
		out.Count("liveness_dead")
		site := "site=unknown"
		if strings.Contains(string(b), "panic:") {
			site = "site=" + strings.TrimPrefix(c3PanicSite(string(b)), "panic:")
		}
		detail := site + " server process died on POST /api/pull (goroutine outside gin recovery)"
		if sc.detail != "" && strings.HasPrefix(sc.detail, site) {
			detail = sc.detail + " server process died on POST /api/pull (goroutine outside gin recovery)"
		}
		out.L2("process-death", "live "+sc.name, detail)
	}
}

// c3ProbeFixed executes the real getValue on the F5 input: the model variant (pinned / bounds-checked)
// is chosen by what the tree under test does, so the check follows the repair when it lands.
var c3FixedProbe = -1

func c3ProbeFixed() bool {
	if c3FixedProbe < 0 {
		c3FixedProbe = 1
		func() {
			defer func() {
				if recover() != nil {
					c3FixedProbe = 0
				}
			}()
			_ = getValue("realm=", "realm")
		}()
	}
	return c3FixedProbe == 1
}

// c3Variant: which repaired behaviours the tree under test shows, found by EXECUTING the real code on the
// witness inputs of the findings (so the model follows the tree, pinned or patched, with no manual constant):
//
//	1 getValue checks its bounds (F5)            2 downloadBlob rejects "" (C03-emptydigest)
//	4 a digest listed twice is still verified     8 a fresh layer is verified before the next one is fetched (F6)
//	16 the transfer verifies -partial before renaming it (C03-verifywindow)
var c3Variant int

func c3ProbeRun(t *testing.T, c *c3Case) string {
	c.fixUniv()
	models := filepath.Join(t.TempDir(), "models")
	c3Materialise(c, models)
	return c3RunAttempt(t, c, &c.attempts[0], models, "").class
}

// c3ProbeObs: what the probes observed, one "name value" row each (-> Generated/C03_Variant.lean, TestVerifC03Variant)
var c3ProbeObs []string

func c3ProbeVariant(t *testing.T) {
	v := 0
	c3ProbeObs = nil
	obs := func(name, val string) { c3ProbeObs = append(c3ProbeObs, name+" "+val) }
	if c3ProbeFixed() {
		v |= 1
		obs("getvalue-realm", "ok")
	} else {
		obs("getvalue-realm", "panic")
	}
	// "" digest: pinned code panics on digest[7:19]
	func() {
		os.Setenv("OLLAMA_MODELS", filepath.Join(t.TempDir(), "models"))
		defer func() {
			if recover() == nil {
				v |= 2
				obs("empty-digest", "err")
			} else {
				obs("empty-digest", "panic")
			}
		}()
		_, _ = downloadBlob(context.Background(), downloadOpts{digest: "", regOpts: &registryOptions{}, fn: func(api.ProgressResponse) {}})
	}()
	A, B := []byte("probe-layer-A-0123456789"), []byte("probe-layer-B")
	// F6 witness: A is an error page, B's HEAD is 404.  Pinned: err:notfound (A stays); repaired: digest mismatch on A at once.
	{
		c := c3NewCase("probe")
		dA := c.addLayer(A, false)
		dB := c.addLayer(B, false)
		c.attempts = []c3Attempt{{ls: []c3LScript{{dig: dA, chunks: [][]c3Chunk{{{src: "junk", junk: bytes.Repeat([]byte("X"), 64), cut: -1, end: "eof"}}}},
			{dig: dB, head: []c3Reply{c3K("notfound")}}}}}
		cl := c3ProbeRun(t, c)
		obs("f6-errorpage-then-404", cl)
		if cl == "err:digest-mismatch" {
			v |= 8
		}
	}
	// repeated digest with one flipped byte.  Pinned: ok; repaired (either way): digest mismatch.
	{
		c := c3NewCase("probe")
		dA := c.addLayer(A, false)
		c.reg.layers = append(c.reg.layers, c.reg.layers[0])
		c.attempts = []c3Attempt{{ls: []c3LScript{{dig: dA, chunks: [][]c3Chunk{{{src: "flip", flip: 3, cut: -1, end: "eof"}}}}}}}
		cl := c3ProbeRun(t, c)
		obs("dup-digest-flip", cl)
		if cl == "err:digest-mismatch" {
			v |= 4
		}
	}
	// corrupt single layer: does the pull still announce "verifying sha256 digest" (blob renamed, then verified), or does
	// the transfer itself fail with the digest mismatch before anything is renamed (C03-verifywindow repaired)?
	{
		c := c3NewCase("probe")
		dA := c.addLayer(A, false)
		c.attempts = []c3Attempt{{ls: []c3LScript{{dig: dA, chunks: [][]c3Chunk{{{src: "flip", flip: 3, cut: -1, end: "eof"}}}}}}}
		c.fixUniv()
		models := filepath.Join(t.TempDir(), "models")
		c3Materialise(c, models)
		res := c3RunAttempt(t, c, &c.attempts[0], models, "")
		announced := false
		for _, s := range res.statuses {
			announced = announced || s == "verifying sha256 digest"
		}
		obs("flip-single", res.class)
		if announced {
			obs("flip-single-verifying-announced", "yes")
		} else {
			obs("flip-single-verifying-announced", "no")
		}
		if res.class == "err:digest-mismatch" && !announced {
			v |= 16
		}
	}
	c3Variant = v
}

// TestVerifC03Variant: the variant probes alone; their observations become Generated/C03_Variant.lean (Tie/C03.lean).
func TestVerifC03Variant(t *testing.T) {
	if os.Getenv("VERIF_OUT") == "" {
		t.Skip("verification driver; run through /verif/check")
	}
	c3Setup(t, t.TempDir())
	c3ProbeVariant(t)
	rows := append([]string{}, c3ProbeObs...)
	rows = append(rows, "mask "+strconv.Itoa(c3Variant))
	if err := os.WriteFile(filepath.Join(zzverif.OutDir(), "variant.txt"), []byte(strings.Join(rows, "\n")+"\n"), 0o644); err != nil {
		t.Fatal(err)
	}
}

// c3HonestNeeded: one honest attempt per layer that may need cleaning, plus one.
func c3HonestNeeded(c *c3Case) int {
	set := map[string]bool{}
	for _, m := range c.allRegs() {
		for _, l := range m.all() {
			set[l.ref] = true
		}
	}
	return max(2, len(set)+1)
}

// c3HonestTail: the honest attempts that end a history.  In a history whose registry validates bearer tokens, an
// honest attempt still starts with the 401 that asks for a (new) token.
func c3HonestTail(c *c3Case, a []c3Attempt) []c3Attempt {
	auth := false
	for _, x := range a {
		auth = auth || x.validate
	}
	for i := c3HonestNeeded(c); i > 0; i-- {
		if auth {
			a = append(a, c3Attempt{ms: []c3Reply{c3Unauth(c3GoodChallenge)}, validate: true})
		} else {
			a = append(a, c3Attempt{})
		}
	}
	return a
}

func c3AttemptHonest(a *c3Attempt) bool { // (a re-published manifest is honest: c3RegHonest looks at every version)
	if len(a.ls)+len(a.tok) != 0 || a.cancel != "" {
		return false
	}
	return len(a.ms) == 0 || (a.validate && len(a.ms) == 1 && a.ms[0].kind == "unauth" && a.ms[0].arg == c3GoodChallenge)
}

func c3RepeatReply(r c3Reply, k int) []c3Reply {
	var out []c3Reply
	for i := 0; i < k; i++ {
		out = append(out, r)
	}
	return out
}

// Crash survival: every case announces itself in progress.txt before it runs and everything recorded is
// flushed after it; when the code under test kills the process (a panic on a goroutine the driver cannot
// recover), vlib/checks/c03.py reports the announced case as a process death (L2, with the case as replay)
// and restarts the driver at the next case (VERIF_C03_START).
var c3CaseIdx int

func c3Begin(out *zzverif.Out, line string) bool {
	idx := c3CaseIdx
	c3CaseIdx++
	if idx < zzverif.EnvInt("VERIF_C03_START", 0) {
		return false
	}
	_ = os.WriteFile(filepath.Join(zzverif.OutDir(), "progress.txt"), []byte(strconv.Itoa(idx)+"\n"+line+"\n"), 0o644)
	return true
}

func c3Done() {
	_ = os.WriteFile(filepath.Join(zzverif.OutDir(), "progress.txt"), []byte("done\n"), 0o644)
}
