package model

// Verification driver for C20 (tokenize/detokenize round trip), both tokenizer families.
// Added to the package at build time with `go test -overlay`; never committed to /repo.

import (
	"bufio"
	"context"
	"encoding/json"
	"fmt"
	"math"
	"os"
	"os/exec"
	"path/filepath"
	"regexp"
	"slices"
	"sort"
	"strconv"
	"strings"
	"sync"
	"syscall"
	"testing"
	"time"
	"unicode/utf8"

	"github.com/ollama/ollama/zzverif"
)

const verifLlamaPre = `(?i:'s|'t|'re|'ve|'m|'ll|'d)|[^\r\n\p{L}\p{N}]?\p{L}+|\p{N}{1,3}| ?[^\s\p{L}\p{N}]+[\r\n]*|\s*[\r\n]+|\s+(?!\S)|\s+`

// ---------------------------------------------------------------------------------- vocabularies

type verifTok struct {
	name        string
	family      string // "bpe" | "spm"
	tp          TextProcessor
	bpe         *BytePairEncoding
	vocab       *Vocabulary
	maxRunes    int              // longest vocabulary entry, in runes
	pre         string           // BPE: pre-tokenizer pattern
	pool        []string         // random vocabularies: strings the texts are built from
	specials    []string         // SpecialVocabulary() of the TEMPLATE object, taken before any Encode call (pristine)
	refSpecials []string         // what the special list SHOULD be (non-empty turn markers and CONTROL-typed values), computed from Values / Types by the driver
	template    bool             // templates are never used for Encode/Decode: every history runs on a clone
	byteIDs     map[int32]uint32 // SPM: id of a byte token -> its token type
	covering    bool             // every (remapped) byte is a token
}

// verifLlamaVocab loads model/testdata/llama3.2 and appends llama 3's first eleven special tokens.
func verifLlamaVocab(t testing.TB) *Vocabulary {
	f, err := os.Open(filepath.Join("testdata", "llama3.2", "encoder.json"))
	if err != nil {
		t.Fatal(err)
	}
	defer f.Close()
	m := make(map[string]int32)
	if err := json.NewDecoder(f).Decode(&m); err != nil {
		t.Fatal(err)
	}
	tokens := make([]string, len(m))
	types := make([]uint32, len(m))
	for tok, id := range m {
		tokens[id] = tok
		types[id] = TOKEN_TYPE_NORMAL
	}
	for _, s := range []string{"<|begin_of_text|>", "<|end_of_text|>", "<|reserved_special_token_0|>",
		"<|reserved_special_token_1|>", "<|finetune_right_pad_id|>", "<|reserved_special_token_2|>",
		"<|start_header_id|>", "<|end_header_id|>", "<|eom_id|>", "<|eot_id|>", "<|python_tag|>"} {
		if _, ok := m[s]; !ok {
			m[s] = int32(len(tokens))
			tokens = append(tokens, s)
			types = append(types, TOKEN_TYPE_CONTROL)
		}
	}
	g, err := os.Open(filepath.Join("testdata", "llama3.2", "vocab.bpe"))
	if err != nil {
		t.Fatal(err)
	}
	defer g.Close()
	var merges []string
	sc := bufio.NewScanner(g)
	for sc.Scan() {
		if !strings.HasPrefix(sc.Text(), "#") {
			merges = append(merges, sc.Text())
		}
	}
	return &Vocabulary{Values: tokens, Types: types, Merges: merges,
		BOS: m["<|begin_of_text|>"], EOS: m["<|eot_id|>"], EOT: m["<|eom_id|>"], AddBOS: true}
}

// verifProbeVocab: every rune below 0x180 is its own token (id = verifProbeOff + rune).
const verifProbeOff = 200 // ids 105/106 are always "special": keep them away from the rune tokens

func verifProbeVocab() *Vocabulary {
	v := &Vocabulary{BOS: -1, EOS: -1, EOT: -1}
	for i := 0; i < verifProbeOff; i++ {
		v.Values = append(v.Values, fmt.Sprintf("[filler%d]", i))
		v.Types = append(v.Types, TOKEN_TYPE_UNUSED)
	}
	for r := 0; r < 0x180; r++ {
		v.Values = append(v.Values, string(rune(r)))
		v.Types = append(v.Types, TOKEN_TYPE_NORMAL)
	}
	return v
}

// verifByteMap observes the real byte->rune map of BytePairEncoding.Encode and the rune->byte map of
// Decode by EXECUTING them with the probe vocabulary.  Bytes are fed inside valid UTF-8 characters
// (regexp2 would replace a lone invalid byte).  enc[b] = -1 for the 13 byte values that cannot occur in
// valid UTF-8 (and for bytes the probe could not observe).  An unexpected answer is RECORDED in problems
// (never fatal: the correspondence run must still happen and find the concrete text); the byte is then
// observed a second way, inside a longer piece ("a" + char with the pre-tokenizer `(?s).+`).
func verifByteMap(t testing.TB) (enc [256]int, dec [0x180]int, problems []string) {
	const off = verifProbeOff
	v := verifProbeVocab()
	bpe := NewBytePairEncoding(`(?s).`, v)
	whole := NewBytePairEncoding(`(?s).+`, verifProbeVocab())
	for i := range enc {
		enc[i] = -1
	}
	record := func(s string, ids []int32, skip int) {
		for i := 0; i < len(s); i++ {
			r := int(ids[i+skip]) - off
			if enc[s[i]] >= 0 && enc[s[i]] != r {
				problems = append(problems, fmt.Sprintf("byte %#x maps to both %#x and %#x (probe %q)", s[i], enc[s[i]], r, s))
				continue
			}
			enc[s[i]] = r
		}
	}
	see := func(s string) {
		// primary observation: the character inside a longer piece ("a" + s as ONE piece), which no
		// whole-piece shortcut can intercept; cross-checked against the character as a piece of its own
		ids, err := whole.Encode("a"+s, false)
		if err == nil && len(ids) == len(s)+1 {
			record(s, ids, 1)
		} else {
			problems = append(problems, fmt.Sprintf("Encode(%q) as one piece: ids=%v err=%v, want %d ids", "a"+s, ids, err, len(s)+1))
		}
		alone, err2 := bpe.Encode(s, false)
		if err2 != nil || err != nil || verifIds(alone) != verifIds(ids[min(1, len(ids)):]) {
			problems = append(problems, fmt.Sprintf("Encode(%q) alone gives ids=%v, inside a piece %v", s, alone, ids))
		}
	}
	for r := rune(0); r < 0x800; r++ { // all ASCII, all continuation bytes, lead bytes C2..DF
		see(string(r))
	}
	for _, r := range []rune{0x0800, 0x1000, 0x2000, 0x3000, 0x4000, 0x5000, 0x6000, 0x7000, 0x8000, 0x9000,
		0xA000, 0xB000, 0xC000, 0xD000, 0xE000, 0xF000, 0x10000, 0x40000, 0x80000, 0xC0000, 0x100000} { // E0..EF, F0..F4
		see(string(r))
	}
	for r := 0; r < 0x180; r++ {
		s, err := bpe.Decode([]int32{int32(r + off)})
		dec[r] = -1
		if err != nil || len(s) > 1 {
			problems = append(problems, fmt.Sprintf("Decode of the one-rune token %#x: %q %v", r, s, err))
			continue
		}
		if len(s) == 1 {
			dec[r] = int(s[0])
		}
	}
	return enc, dec, problems
}

// TestVerifC20Table: Tie 1 — emit the observed byte tables (+ anything odd the probe saw).
func TestVerifC20Table(t *testing.T) {
	enc, dec, problems := verifByteMap(t)
	f, err := os.Create(filepath.Join(zzverif.OutDir(), "table.txt"))
	if err != nil {
		t.Fatal(err)
	}
	defer f.Close()
	for b, r := range enc {
		if r >= 0 {
			fmt.Fprintf(f, "enc %d %d\n", b, r)
		}
	}
	for r, b := range dec {
		fmt.Fprintf(f, "dec %d %d\n", r, b)
	}
	for _, p := range problems {
		fmt.Fprintf(f, "problem 0 0 %s\n", strings.ReplaceAll(p, "\n", " "))
	}
	verifSPMTables(f)
	// finding empty-special-hang: which variant does the tree have?
	sv := (&Vocabulary{Values: []string{"a", "", "b"}, Types: []uint32{TOKEN_TYPE_NORMAL, TOKEN_TYPE_CONTROL, TOKEN_TYPE_NORMAL}}).SpecialVocabulary()
	fmt.Fprintf(f, "emptyspecial specialvocab %s\n", map[bool]string{true: "returned", false: "skipped"}[slices.Contains(sv, "")])
	for _, fam := range []string{"bpe", "spm"} {
		fmt.Fprintf(f, "emptyspecial %s %s\n", fam, strings.Fields(verifRunChild(fam + " 0 " + zzverif.Hex([]byte("ab"))))[0])
	}
}

// ---- finding empty-special-hang: a vocabulary with an empty CONTROL token.  Encode may never return, so it is only ever
// called in a CHILD process (this test binary re-executed) that reports "hang" after 1.5 s of its own clock and exits.

// verifEmptySpecialVocab: variant 0 = empty CONTROL token in the middle, 1 = empty CONTROL token first + another special,
// 2 = empty token typed NORMAL (not special: must behave like any vocabulary), 3 = empty CONTROL token last
func verifEmptySpecialVocab(variant int) *Vocabulary {
	v := &Vocabulary{BOS: -1, EOS: -1, EOT: -1}
	add := func(s string, ty uint32) {
		v.Values = append(v.Values, s)
		v.Types = append(v.Types, ty)
		v.Scores = append(v.Scores, -float32(len(v.Values)))
	}
	emptyType := uint32(TOKEN_TYPE_CONTROL)
	if variant == 2 {
		emptyType = TOKEN_TYPE_NORMAL
	}
	if variant == 1 {
		add("", emptyType)
	}
	for _, s := range []string{"a", "b", "ab", "c", " ", "▁"} {
		add(s, TOKEN_TYPE_NORMAL)
		if s == "b" && (variant == 0 || variant == 2) {
			add("", emptyType)
		}
	}
	add("<s>", TOKEN_TYPE_CONTROL)
	for b := 0; b < 256; b++ {
		add(fmt.Sprintf("<0x%02X>", b), TOKEN_TYPE_BYTE)
	}
	if variant == 3 {
		add("", emptyType)
	}
	v.Merges = []string{"a b"}
	return v
}

func verifEmptySpecialTok(fam string, variant int) *verifTok {
	v := verifEmptySpecialVocab(variant)
	name := fmt.Sprintf("emptysp-%s-%d", fam, variant)
	if fam == "bpe" {
		pre := `\p{L}+|\s+|.`
		bpe := NewBytePairEncoding(pre, v)
		return (&verifTok{name: name, family: "bpe", tp: bpe, bpe: &bpe, vocab: v, maxRunes: 8, pre: pre}).asTemplate()
	}
	return (&verifTok{name: name, family: "spm", tp: NewSentencePieceModel(v), vocab: v, maxRunes: 8}).asTemplate()
}

// TestVerifC20EmptyChild: the child side ("<fam> <variant> <texthex>" in VERIF_C20_CHILD)
func TestVerifC20EmptyChild(t *testing.T) {
	f := strings.Fields(os.Getenv("VERIF_C20_CHILD"))
	if len(f) != 3 {
		t.Skip("child only")
	}
	variant, _ := strconv.Atoi(f[1])
	tk := verifEmptySpecialTok(f[0], variant)
	done := make(chan string, 1)
	go func() {
		ids, err := tk.tp.Encode(string(zzverif.Unhex(f[2])), false)
		if err != nil {
			done <- "error " + err.Error()
			return
		}
		done <- "returned " + verifIds(ids)
	}()
	// verdict by CPU time, not wall time: a non-terminating Encode spins (and allocates), so the process's user+system time
	// passes 1.5 s however loaded the machine is; a call that merely waits for a CPU never does.  After 40 s of wall
	// time without either, the answer is "inconclusive" (never a violation).
	start := time.Now()
	for {
		select {
		case r := <-done:
			fmt.Println("C20CHILD " + r)
			return
		case <-time.After(50 * time.Millisecond):
		}
		var ru syscall.Rusage
		syscall.Getrusage(syscall.RUSAGE_SELF, &ru)
		cpu := time.Duration(ru.Utime.Nano() + ru.Stime.Nano())
		if cpu > 1500*time.Millisecond {
			fmt.Println("C20CHILD hang")
			os.Exit(0)
		}
		if time.Since(start) > 40*time.Second {
			fmt.Println("C20CHILD inconclusive")
			os.Exit(0)
		}
	}
}

// verifRunChild: "hang" | "returned <ids>" | "inconclusive ..." | "error ..." (the parent's own 90 s limit is only a backstop;
// a child that gives no answer is inconclusive, tried twice)
func verifRunChild(spec string) string {
	a := verifRunChildOnce(spec)
	if strings.HasPrefix(a, "inconclusive") {
		a = verifRunChildOnce(spec)
	}
	return a
}

func verifRunChildOnce(spec string) string {
	ctx, cancel := context.WithTimeout(context.Background(), 90*time.Second)
	defer cancel()
	cmd := exec.CommandContext(ctx, os.Args[0], "-test.run=^TestVerifC20EmptyChild$", "-test.count=1")
	cmd.Env = append(os.Environ(), "VERIF_C20_CHILD="+spec)
	raw, err := cmd.CombinedOutput()
	for _, line := range strings.Split(string(raw), "\n") {
		if rest, ok := strings.CutPrefix(line, "C20CHILD "); ok {
			return strings.TrimSpace(rest)
		}
	}
	return fmt.Sprintf("inconclusive: child gave no answer (%v)", err)
}

// verifEmptySpecialCase: one case line "emptyspecial <fam> <variant> <texthex>".  Hang -> L2 `encode-hang` (the property's
// Encode does not even return); otherwise the call is safe to repeat in-process and goes through the normal L1 + L2 path.
func verifEmptySpecialCase(enc [256]int, fam string, variant int, text string, childAnswer string, out *zzverif.Out) {
	out.Count("emptyspecial_cases")
	cl := fmt.Sprintf("emptyspecial %s %d %s", fam, variant, zzverif.Hex([]byte(text)))
	switch {
	case childAnswer == "hang":
		out.Count("emptyspecial_hang")
		out.L2("encode-hang", cl, fmt.Sprintf("Encode(%q) did not return within 1.5s: the vocabulary has an empty token typed CONTROL (variant %d)", text, variant))
	case strings.HasPrefix(childAnswer, "returned"):
		out.Count("emptyspecial_returned")
		verifEmptySpecialTok(fam, variant).runCase(enc, []verifSeg{{text, false}}, false, out)
	case strings.HasPrefix(childAnswer, "inconclusive"):
		out.Count("emptyspecial_inconclusive") // machine too loaded to tell: not a violation, but counted (the check wants 8 conclusive cases)
	default:
		out.L2("encode-error", cl, childAnswer)
	}
}

func verifEmptySpecialCases(enc [256]int, out *zzverif.Out) {
	type job struct {
		fam     string
		variant int
		text    string
		ans     string
	}
	var jobs []*job
	for _, fam := range []string{"bpe", "spm"} {
		for variant := 0; variant < 4; variant++ {
			for _, text := range []string{"ab", "a<s>b c"} {
				jobs = append(jobs, &job{fam: fam, variant: variant, text: text})
			}
		}
	}
	var wg sync.WaitGroup
	for _, j := range jobs {
		wg.Add(1)
		go func(j *job) {
			defer wg.Done()
			j.ans = verifRunChild(fmt.Sprintf("%s %d %s", j.fam, j.variant, zzverif.Hex([]byte(j.text))))
		}(j)
	}
	wg.Wait()
	for _, j := range jobs {
		verifEmptySpecialCase(enc, j.fam, j.variant, j.text, j.ans, out)
	}
}

// ---- Tie 1c: facts about the SentencePiece code obtained by EXECUTING it over finite domains

// verifSPMByteSpellings: candidate spellings of the byte-fallback token of byte b; the real Encode decides which
// one it looks up (the vocabulary has all of them, each with its own id).
func verifSPMByteSpellings(b int) []string {
	return []string{fmt.Sprintf("<0x%02X>", b), fmt.Sprintf("<0x%02x>", b), fmt.Sprintf("<0x%X>", b), fmt.Sprintf("<0x%x>", b),
		fmt.Sprintf("<0X%02X>", b), fmt.Sprintf("<%02X>", b), fmt.Sprintf("0x%02X", b), fmt.Sprintf("<0x%03X>", b), fmt.Sprintf("<%d>", b)}
}

// verifSPMTables writes
//
//	spmbyte <b> <runes of the token the fallback produced for byte b | ->   (243 byte values of valid UTF-8)
//	spmdec <c1> <c2> <byte | 256 (error) | 257 (written verbatim)>          Decode of the one token "<0x" c1 c2 ">"
//	spmshape <runes> <byte | 256 | 257>                                     Decode of other 5-7 byte tokens
//	spmless <scoreI> <aI> <scoreJ> <aJ> <0|1>                                queue.Less
//	spmsep <rune>                                                           []rune(spmWhitespaceSep)
//	control <n>                                                             TOKEN_TYPE_CONTROL
func verifSPMTables(f *os.File) {
	v := &Vocabulary{BOS: -1, EOS: -1, EOT: -1}
	add := func(s string) {
		v.Values = append(v.Values, s)
		v.Types = append(v.Types, TOKEN_TYPE_BYTE)
		v.Scores = append(v.Scores, 0)
	}
	for i := 0; i < 5; i++ {
		add(fmt.Sprintf("[pad%d]", i))
	}
	seenSp := map[string]bool{}
	for b := 0; b < 256; b++ {
		for _, s := range verifSPMByteSpellings(b) {
			if !seenSp[s] {
				seenSp[s] = true
				add(s)
			}
		}
	}
	spm := NewSentencePieceModel(v)
	got := map[int]string{}
	see := func(s string) {
		ids, err := spm.Encode(s, false)
		if err != nil || len(ids) != len(s) {
			for i := 0; i < len(s); i++ {
				if _, ok := got[int(s[i])]; !ok {
					got[int(s[i])] = "-"
				}
			}
			return
		}
		for i := 0; i < len(s); i++ {
			t := verifRunes(v.Values[ids[i]])
			if old, ok := got[int(s[i])]; ok && old != t {
				t = "-"
			}
			got[int(s[i])] = t
		}
	}
	for r := rune(0); r < 0x800; r++ {
		if r != ' ' {
			see(string(r))
		}
	}
	for _, r := range []rune{0x0800, 0x1000, 0x2000, 0x3000, 0x4000, 0x5000, 0x6000, 0x7000, 0x8000, 0x9000,
		0xA000, 0xB000, 0xC000, 0xD000, 0xE000, 0xF000, 0x10000, 0x40000, 0x80000, 0xC0000, 0x100000} {
		see(string(r))
	}
	// byte 0x20 never reaches the fallback (spaces are replaced first): observed through "<0x20>" not being needed
	for b := 0; b < 256; b++ {
		if t, ok := got[b]; ok {
			fmt.Fprintf(f, "spmbyte %d %s\n", b, t)
		}
	}
	dec := func(tok string) int {
		d := NewSentencePieceModel(&Vocabulary{Values: []string{"[p0]", "[p1]", "[p2]", "[p3]", "[p4]", tok}, Types: []uint32{1, 1, 1, 1, 1, 1},
			Scores: []float32{0, 0, 0, 0, 0, 0}, BOS: -1, EOS: -1, EOT: -1})
		s, err := d.Decode([]int32{5})
		switch {
		case err != nil:
			return 256
		case s == strings.ReplaceAll(tok, "▁", " "):
			return 257
		case len(s) == 1:
			return int(s[0])
		}
		return 258
	}
	const chars = "0123456789ABCDEFabcdef_xXgG+-. oO"
	for _, c1 := range []byte(chars) {
		for _, c2 := range []byte(chars) {
			fmt.Fprintf(f, "spmdec %d %d %d\n", c1, c2, dec("<0x"+string([]byte{c1, c2})+">"))
		}
	}
	for _, tok := range []string{"<0x41", "<0x041>", "<0x4>", "[0x41>", "<0x41]", "<1x41>", "<0y41>", "<0X41>", "<0xé>", "<0b11>", "<0o7>", "<0x▁>", "<▁x41>", "▁0x41>", "abcdef", "<0x41>"} {
		fmt.Fprintf(f, "spmshape %s %d\n", verifRunes(tok), dec(tok))
	}
	for _, si := range []float32{-1, 0, 1} {
		for _, sj := range []float32{-1, 0, 1} {
			for ai := 0; ai < 3; ai++ {
				for aj := 0; aj < 3; aj++ {
					q := queue{&candidate{a: ai, score: si}, &candidate{a: aj, score: sj}}
					fmt.Fprintf(f, "spmless %d %d %d %d %s\n", int(si), ai, int(sj), aj, verifB(q.Less(0, 1)))
				}
			}
		}
	}
	fmt.Fprintf(f, "spmsep %s\n", verifRunes(spmWhitespaceSep))
	fmt.Fprintf(f, "control %d\n", TOKEN_TYPE_CONTROL)
}

// verifSynthBPE: a small byte-level vocabulary (ids in a scrambled order) with a handful of merges, among
// them self-overlapping ones ("a a", "aa aa") whose equal ranks exercise the heap's tie order.
// drop: byte values left out of the vocabulary (non-covering variant, exercises the TODO branch).
func verifSynthBPE(enc [256]int, drop []byte) *Vocabulary {
	v := &Vocabulary{}
	add := func(s string, ty uint32) {
		v.Values = append(v.Values, s)
		v.Types = append(v.Types, ty)
	}
	dropped := map[byte]bool{}
	for _, b := range drop {
		dropped[b] = true
	}
	for i := 0; i < 256; i++ {
		b := byte(i*37 + 11) // a permutation of 0..255
		if enc[b] < 0 || dropped[b] {
			add(fmt.Sprintf("[unused%d]", i), TOKEN_TYPE_UNUSED)
			continue
		}
		add(string(rune(enc[b])), TOKEN_TYPE_NORMAL)
	}
	m := func(b string) string { // remap bytes
		var sb strings.Builder
		for _, c := range []byte(b) {
			sb.WriteRune(rune(enc[c]))
		}
		return sb.String()
	}
	for _, p := range [][2]string{{"a", "a"}, {"aa", "aa"}, {" ", " "}, {"  ", "  "}, {"t", "h"}, {"th", "e"}, {" ", "t"}, {" t", "he"},
		{"i", "n"}, {"a", "b"}, {"b", "a"}, {"ab", "a"}, {"ba", "b"}, {"\n", "\n"}, {"1", "2"}, {"12", "3"}, {"\xe4", "\xbd"}, {"\xe4\xbd", "\xa0"},
		{"\xc3", "\xa9"}, {"e", "r"}, {"h", "e"}, {"he", "r"}, {"\xf0", "\x9f"}, {"\xf0\x9f", "\x98"}, {"x", "y"}, {"y", "x"}, {"xy", "xy"}, {"a", "aa"}} {
		v.Merges = append(v.Merges, m(p[0])+" "+m(p[1]))
		if p[0]+p[1] != "her" { // "h er" has a merge rank for "he r" but "her" is NOT a token: exercises vocab.Encode(pair.value) < 0
			add(m(p[0]+p[1]), TOKEN_TYPE_NORMAL)
		}
	}
	for _, s := range []string{"<|sys|>", "<|end|>", "<|sys|><|end|>", "<<>>"} {
		add(s, TOKEN_TYPE_CONTROL)
	}
	v.BOS, v.EOS, v.EOT = int32(len(v.Values)-4), int32(len(v.Values)-3), -1
	v.AddBOS, v.AddEOS = true, true
	return v
}

var verifSPMPieces = []string{"▁", "e", "t", "a", "o", "n", "i", "s", "r", "h", "l", "d", "u", "c", "m", "▁t", "he", "▁the", "in", "▁a", "er", "an",
	"▁▁", "▁▁▁▁", "th", "the", "re", "on", "▁s", "▁w", "ing", "▁in", "at", "en", "nd", "▁and", "1", "2", "3", "12", "123", "0", "00",
	"你", "好", "你好", "世", "界", "世界", "日本", "日", "本", "語", "م", "ر", "ح", "ب", "ا", "مر", "مرحبا", "é", "è", "ü", "ñ", "́", "é",
	"👍", "👨", "‍", "👩", "👨‍👩", "❤", "️", "❤️", ".", ",", "!", "?", "..", "...", "\n", "\n\n", "\t", "aa", "aaa", "aaaa", "ab", "ba", "aba",
	"x", "y", "xy", "yx", "xyx", "w", "wo", "wor", "world", "▁world", "hel", "hello", "▁hello", "lo", "ll", "<", ">", "0x", "<0", "<0x",
	"<0x041>", "<0x4>", "[0x41]"} // the last three: NOT byte tokens (7 / 5 bytes, other brackets): Decode must write them verbatim

// verifSynthSPM: a sentencepiece-style vocabulary laid out like gemma 3 (ids 105/106 = turn markers).
func verifSynthSPM() *Vocabulary {
	v := &Vocabulary{}
	add := func(s string, ty uint32, score float32) {
		v.Values = append(v.Values, s)
		v.Types = append(v.Types, ty)
		v.Scores = append(v.Scores, score)
	}
	add("<pad>", TOKEN_TYPE_CONTROL, 0)
	add("<eos>", TOKEN_TYPE_CONTROL, 0)
	add("<bos>", TOKEN_TYPE_CONTROL, 0)
	add("<unk>", TOKEN_TYPE_UNKNOWN, 0)
	normal := verifSPMPieces
	for i, s := range normal {
		if len(v.Values) == 105 {
			add("<start_of_turn>", TOKEN_TYPE_USER_DEFINED, 0)
			add("<end_of_turn>", TOKEN_TYPE_USER_DEFINED, 0)
		}
		// several tokens share a score so that the queue's position tie-break matters
		add(s, TOKEN_TYPE_NORMAL, -float32(i/3))
	}
	for len(v.Values) < 105 {
		add(fmt.Sprintf("<unused%d>", len(v.Values)), TOKEN_TYPE_UNUSED, 0)
	}
	if len(v.Values) == 105 {
		add("<start_of_turn>", TOKEN_TYPE_USER_DEFINED, 0)
		add("<end_of_turn>", TOKEN_TYPE_USER_DEFINED, 0)
	}
	for b := 0; b < 256; b++ {
		add(fmt.Sprintf("<0x%02X>", b), TOKEN_TYPE_BYTE, 0)
	}
	add("<mask>", TOKEN_TYPE_CONTROL, 0)
	v.BOS, v.EOS, v.EOT = 2, 1, 106
	v.AddBOS = true
	return v
}

// ---- random vocabularies: the theorems quantify over EVERY vocabulary, so merges and tokens are generated
// independently (merge products that are not tokens, tokens without a merge path, duplicate merge lines,
// merges whose parts are not tokens, no merges at all, single-byte tokens only, missing bytes), and the SPM
// byte tokens carry every token type.  A vocabulary is a pure function of its index, which is part of its name
// ("rbpe<idx>", "rspm<idx>"), so a case line replays without the seed.

// verifSpecialShapes: control-token literals of many shapes (mistral-style brackets, braces, punctuation runs, a
// plain word, a single character, one a prefix of another, one containing another), a random subset in random
// order (the order is the order of the splitting passes).
func verifSpecialShapes(r *zzverif.Rng, out *zzverif.Out) []string {
	all := []string{"[INST]", "[/INST]", "[TOOL_CALLS]", "{{x}}", "###", "##", "STOP", "§", "[INST", "the", "<|sys|>", "<|end|>", "|", "[[INST]]", "</s>", "a b"}
	var sel []string
	for _, i := range verifPerm(r, len(all))[:r.Range(3, 7)] {
		sel = append(sel, all[i])
		out.Count("vocab_special_shape_" + map[bool]string{true: "angle", false: "no_angle"}[strings.ContainsAny(all[i], "<>")])
	}
	return sel
}

func verifRandBPE(enc [256]int, pre string, idx int, out *zzverif.Out) *verifTok {
	r := zzverif.NewRng(uint64(idx)*7919 + 17).Fork()
	v := &Vocabulary{BOS: -1, EOS: -1, EOT: -1}
	add := func(s string, ty uint32) {
		v.Values = append(v.Values, s)
		v.Types = append(v.Types, ty)
	}
	m := func(b string) string {
		var sb strings.Builder
		for _, c := range []byte(b) {
			sb.WriteRune(rune(enc[c]))
		}
		return sb.String()
	}
	shape := map[string]bool{}
	kind := r.Intn(8) // 0: no merges; 1: single-byte tokens only; else general
	letters := []byte("abcehrtxy 12\n")
	var alpha []byte
	for len(alpha) < r.Range(3, 6) {
		alpha = append(alpha, zzverif.Pick(r, letters))
	}
	var whole []string // whole multi-byte characters (texts must be valid UTF-8)
	if r.Chance(1, 3) {
		c := zzverif.Pick(r, []string{"\xe4\xbd\xa0", "\xc3\xa9", "\xf0\x9f\x98\x80"})
		alpha = append(alpha, []byte(c)...)
		whole = append(whole, c, c)
	}
	dropped := map[byte]bool{}
	covering := true
	if r.Chance(1, 5) {
		covering = false
		shape["missing_bytes"] = true
		for j := r.Range(1, 2); j > 0; j-- {
			dropped[zzverif.Pick(r, alpha)] = true
		}
	}
	start := r.Intn(256)
	for i := 0; i < 256; i++ {
		b := byte((i+start)*37 + 11)
		if enc[b] < 0 || dropped[b] {
			add(fmt.Sprintf("[unused%d]", i), TOKEN_TYPE_UNUSED)
			continue
		}
		add(string(rune(enc[b])), TOKEN_TYPE_NORMAL)
	}
	var pool []string
	for _, b := range alpha {
		pool = append(pool, string([]byte{b}))
	}
	isTok := map[string]bool{}
	for _, p := range pool {
		isTok[p] = !dropped[p[0]]
	}
	if kind == 0 {
		shape["no_merges"] = true
	} else {
		for n := r.Range(3, 24); n > 0; n-- {
			l, rr := zzverif.Pick(r, pool), zzverif.Pick(r, pool)
			if r.Chance(1, 8) {
				l = string([]byte{zzverif.Pick(r, alpha), zzverif.Pick(r, alpha)})
			}
			if len(l)+len(rr) > 9 {
				continue
			}
			if !isTok[l] || !isTok[rr] {
				shape["merge_parts_not_tokens"] = true
			}
			line := m(l) + " " + m(rr)
			for _, old := range v.Merges {
				if old == line {
					shape["duplicate_merge_lines"] = true
				}
			}
			v.Merges = append(v.Merges, line)
			if r.Chance(1, 10) {
				v.Merges = append(v.Merges, line)
				shape["duplicate_merge_lines"] = true
			}
			prod := l + rr
			if kind != 1 && r.Chance(7, 10) {
				add(m(prod), TOKEN_TYPE_NORMAL)
				isTok[prod] = true
			} else if !isTok[prod] {
				shape["merge_product_not_token"] = true
			}
			if r.Chance(4, 5) {
				pool = append(pool, prod)
			}
		}
	}
	if kind == 1 {
		shape["single_byte_tokens_only"] = true
	} else {
		for n := r.Intn(4); n > 0; n-- { // tokens without a merge path
			t := ""
			for j := r.Range(2, 4); j > 0; j-- {
				t += string([]byte{zzverif.Pick(r, alpha)})
			}
			if utf8.ValidString(m(t)) {
				add(m(t), TOKEN_TYPE_NORMAL)
				shape["token_without_merge_path"] = true
				pool = append(pool, t)
			}
		}
	}
	for _, sp := range verifSpecialShapes(r, out) {
		add(sp, TOKEN_TYPE_CONTROL)
	}
	out.Count("vocab_bpe_random")
	for k := range shape {
		out.Count("vocab_bpe_shape_" + k)
	}
	if covering {
		out.Count("vocab_bpe_shape_covering")
	}
	bpe := NewBytePairEncoding(pre, v)
	// texts are built from the valid-UTF-8 members of the pool and the whole characters
	for _, p := range pool {
		if utf8.ValidString(p) {
			whole = append(whole, p)
		}
	}
	return (&verifTok{name: fmt.Sprintf("rbpe%d", idx), family: "bpe", tp: bpe, bpe: &bpe, vocab: v, maxRunes: verifMaxRunes(v), covering: covering, pre: pre, pool: whole}).asTemplate()
}

var verifTypeNames = map[uint32]string{TOKEN_TYPE_NORMAL: "normal", TOKEN_TYPE_UNKNOWN: "unknown", TOKEN_TYPE_CONTROL: "control",
	TOKEN_TYPE_USER_DEFINED: "user_defined", TOKEN_TYPE_UNUSED: "unused", TOKEN_TYPE_BYTE: "byte"}

func verifRandSPM(idx int, out *zzverif.Out) *verifTok {
	r := zzverif.NewRng(uint64(idx)*104729 + 5).Fork()
	v := &Vocabulary{EOT: -1}
	add := func(s string, ty uint32, score float32) {
		v.Values = append(v.Values, s)
		v.Types = append(v.Types, ty)
		v.Scores = append(v.Scores, score)
	}
	add("<pad>", TOKEN_TYPE_CONTROL, 0)
	add("<eos>", TOKEN_TYPE_CONTROL, 0)
	add("<bos>", TOKEN_TYPE_CONTROL, 0)
	add("<unk>", TOKEN_TYPE_UNKNOWN, 0)
	v.BOS, v.EOS, v.AddBOS = 2, 1, r.Bool()
	keep := []int{2, 5, 9}[r.Intn(3)] // keep a piece with probability keep/10
	ties := r.Range(1, 12)
	hasSep := false
	var pool []string
	for _, p := range verifSPMPieces {
		if p == "▁" {
			if !r.Chance(5, 6) {
				continue
			}
			hasSep = true
		} else if !r.Chance(keep, 10) {
			continue
		}
		add(p, TOKEN_TYPE_NORMAL, -float32(r.Intn(ties)))
		pool = append(pool, strings.ReplaceAll(p, "▁", " "))
	}
	for _, sp := range verifSpecialShapes(r, out) {
		add(sp, []uint32{TOKEN_TYPE_CONTROL, TOKEN_TYPE_CONTROL, TOKEN_TYPE_USER_DEFINED}[r.Intn(3)], 0)
	}
	// characters without a piece are what the byte fallback is for
	pool = append(pool, "z", "q", "é", "ß", "Ж", "你", "界", "語", "👍", "€", "\u00a0", "\t", "Z", "k")
	modes := []uint32{TOKEN_TYPE_BYTE, TOKEN_TYPE_BYTE, TOKEN_TYPE_NORMAL, TOKEN_TYPE_USER_DEFINED, TOKEN_TYPE_CONTROL, TOKEN_TYPE_UNUSED, TOKEN_TYPE_UNKNOWN, 0}
	mode := modes[r.Intn(len(modes))]
	full := r.Chance(5, 6)
	byteIDs := map[int32]uint32{}
	allBytes := true
	for b := 0; b < 256; b++ {
		if !full && r.Chance(1, 12) {
			allBytes = false
			continue
		}
		ty := mode
		if ty == 0 {
			ty = uint32(r.Range(TOKEN_TYPE_NORMAL, TOKEN_TYPE_BYTE))
		}
		byteIDs[int32(len(v.Values))] = ty
		add(fmt.Sprintf("<0x%02X>", b), ty, 0)
	}
	out.Count("vocab_spm_random")
	if mode == 0 {
		out.Count("vocab_spm_bytetokens_mixed_types")
	} else {
		out.Count("vocab_spm_bytetokens_" + verifTypeNames[mode])
	}
	if !hasSep {
		out.Count("vocab_spm_no_sep_piece")
	}
	if !allBytes {
		out.Count("vocab_spm_missing_byte_tokens")
	}
	if !(allBytes && hasSep) {
		// vocabularies outside the round-trip theorem's hypotheses are L1-only: give some of them pieces of the
		// byte-token SHAPE that ParseUint rejects or accepts oddly (Decode's error branch, `0x_F`), and EOS
		if r.Chance(2, 3) {
			for _, p := range []string{"<0xZZ>", "<0x_F>", "<0xF_>", "<0xé>"} {
				add(p, TOKEN_TYPE_NORMAL, -float32(r.Intn(ties)))
				pool = append(pool, p)
			}
			out.Count("vocab_spm_odd_byte_shaped_pieces")
		}
		v.AddEOS = r.Bool()
	}
	spm := NewSentencePieceModel(v)
	// the round-trip theorem's vocabulary hypotheses: all 256 byte tokens and the piece "▁"
	return (&verifTok{name: fmt.Sprintf("rspm%d", idx), family: "spm", tp: spm, vocab: v, maxRunes: verifMaxRunes(v), covering: allBytes && hasSep, pool: pool, byteIDs: byteIDs}).asTemplate()
}

// verifRandTok builds the random vocabulary a name denotes ("rbpe<idx>" / "rspm<idx>").
func verifRandTok(enc [256]int, pre, name string, out *zzverif.Out) *verifTok {
	if n, err := strconv.Atoi(strings.TrimPrefix(name, "rbpe")); err == nil && strings.HasPrefix(name, "rbpe") {
		return verifRandBPE(enc, pre, n, out)
	}
	if n, err := strconv.Atoi(strings.TrimPrefix(name, "rspm")); err == nil && strings.HasPrefix(name, "rspm") {
		return verifRandSPM(n, out)
	}
	return nil
}

// texts for a random vocabulary: concatenations of the strings its tokens / merges are made of
func verifPoolSegs(r *zzverif.Rng, tk *verifTok, out *zzverif.Out) []verifSeg {
	var segs []verifSeg
	for n := r.Pick3(1, 3, 8); n > 0; n-- {
		s := ""
		for j := r.Pick3(1, 4, 10); j > 0; j-- {
			s += zzverif.Pick(r, tk.pool)
		}
		if r.Chance(1, 3) {
			s += zzverif.Pick(r, []string{" ", "  ", "\n", ".", "1"})
		}
		segs = append(segs, verifSeg{s, false})
		out.Count("seg_vocab_pool")
		if r.Chance(1, 8) {
			for _, sp := range tk.specials {
				if !strings.HasPrefix(sp, "<0x") && r.Chance(1, 3) {
					segs = append(segs, verifSeg{sp, true})
					out.Count("seg_special")
					break
				}
			}
		}
	}
	return segs
}

func verifMaxRunes(v *Vocabulary) int {
	m := 0
	for _, s := range v.Values {
		m = max(m, utf8.RuneCountInString(s))
	}
	return m
}

// verifPatterns: the pre-tokenizer patterns regenerated from /repo's model sources by the check
// (VERIF_C20_PATTERNS: lines "<file>\t<pattern>"); without the file, the llama pattern known to the driver.
func verifPatterns() (files, pats []string) {
	if p := os.Getenv("VERIF_C20_PATTERNS"); p != "" {
		if raw, err := os.ReadFile(p); err == nil {
			for _, line := range strings.Split(string(raw), "\n") {
				if f, pat, ok := strings.Cut(line, "\t"); ok && pat != "" {
					dup := false
					for _, q := range pats {
						dup = dup || q == pat
					}
					if !dup {
						files, pats = append(files, f), append(pats, pat)
					}
				}
			}
		}
	}
	if len(pats) == 0 {
		files, pats = []string{"<driver default>"}, []string{verifLlamaPre}
	}
	return files, pats
}

func verifTokenizers(t testing.TB, enc [256]int) []*verifTok {
	var out []*verifTok
	_, pats := verifPatterns()
	mkBPEp := func(name, pre string, v *Vocabulary, covering bool) {
		bpe := NewBytePairEncoding(pre, v)
		out = append(out, &verifTok{name: name, family: "bpe", tp: bpe, bpe: &bpe, vocab: v, maxRunes: verifMaxRunes(v), covering: covering, pre: pre})
	}
	mkBPE := func(name string, v *Vocabulary, covering bool) { mkBPEp(name, pats[0], v, covering) }
	lv := verifLlamaVocab(t)
	mkBPE("llama32", lv, true)
	mkBPE("synth", verifSynthBPE(enc, nil), true)
	mkBPE("synthgap", verifSynthBPE(enc, []byte{'q', 0xe4, ' '}), false)
	// every other pre-tokenizer pattern found in the sources, with the real llama 3.2 vocabulary
	for i, pat := range pats[1:] {
		mkBPEp(fmt.Sprintf("llama32-pre%d", i+1), pat, lv, true)
	}
	sv := verifSynthSPM()
	spm := NewSentencePieceModel(sv)
	out = append(out, &verifTok{name: "spm", family: "spm", tp: spm, vocab: sv, maxRunes: verifMaxRunes(sv), covering: true})
	gv := verifSynthSPM()
	for i, s := range gv.Values { // drop a few byte tokens (the vocabulary keeps its layout)
		if s == "<0xC3>" || s == "<0x7A>" || s == "<0x0C>" {
			gv.Values[i], gv.Types[i] = fmt.Sprintf("<dropped%d>", i), TOKEN_TYPE_UNUSED
		}
	}
	for _, p := range []string{"<0xZZ>", "<0x_F>", "<0xF_>", "<0xé>", "<0x041>", "<0x4>"} {
		gv.Values, gv.Types, gv.Scores = append(gv.Values, p), append(gv.Types, TOKEN_TYPE_NORMAL), append(gv.Scores, -3)
	}
	gv.AddEOS = true
	out = append(out, &verifTok{name: "spmgap", family: "spm", tp: NewSentencePieceModel(gv), vocab: gv, maxRunes: verifMaxRunes(gv), covering: false})
	pb := NewBytePairEncoding(`(?s).`, verifProbeVocab())
	out = append(out, &verifTok{name: "probe", family: "bpe", tp: pb, bpe: &pb, vocab: pb.vocab, maxRunes: 12, covering: true, pre: `(?s).`})
	for _, tk := range out {
		tk.asTemplate()
		for i, s := range tk.vocab.Values {
			if !utf8.ValidString(s) || s == "" {
				t.Fatalf("%s: vocabulary entry %d is empty or not valid UTF-8", tk.name, i)
			}
		}
	}
	return out
}

// ---------------------------------------------------------------------------------- op lines

func verifRunes(s string) string {
	if s == "" {
		return "-"
	}
	var sb strings.Builder
	for i, r := range []rune(s) {
		if i > 0 {
			sb.WriteByte('.')
		}
		sb.WriteString(strconv.Itoa(int(r)))
	}
	return sb.String()
}

func verifIds(ids []int32) string {
	if len(ids) == 0 {
		return "-"
	}
	p := make([]string, len(ids))
	for i, id := range ids {
		p[i] = strconv.Itoa(int(id))
	}
	return strings.Join(p, ",")
}

func verifB(b bool) string {
	if b {
		return "1"
	}
	return "0"
}

// verifFragments: the text cut at every special literal (reference re-implementation: specials in
// SpecialVocabulary order, leftmost occurrence first).  Used to know on which strings to run the real
// pre-tokenizer (the oracle does its own splitting and answers err:nosplit if it needs a fragment that is not
// listed) and for the compositional special-literal predicate of L2.
type verifFrag struct {
	v  string
	sp bool
}

func verifFragments(specials []string, s string) []verifFrag {
	frs := []verifFrag{{s, false}}
	for _, sp := range specials {
		if sp == "" || !strings.Contains(s, sp) { // an Encode that returns has skipped an empty special token
			continue
		}
		var next []verifFrag
		for _, f := range frs {
			if f.sp {
				next = append(next, f)
				continue
			}
			v := f.v
			for {
				i := strings.Index(v, sp)
				if i < 0 {
					next = append(next, verifFrag{v, false})
					break
				}
				if i > 0 {
					next = append(next, verifFrag{v[:i], false})
				}
				next = append(next, verifFrag{sp, true})
				v = v[i+len(sp):]
				if v == "" {
					break
				}
			}
		}
		frs = next
	}
	return frs
}

func verifTextFragments(specials []string, s string) []string {
	var out []string
	for _, f := range verifFragments(specials, s) {
		if !f.sp {
			out = append(out, f.v)
		}
	}
	return out
}

func verifScoreKey(f float32) int64 {
	b := math.Float32bits(f)
	if b>>31 == 0 {
		return int64(b)
	}
	return -int64(b & 0x7fffffff)
}

// clone: a FRESH tokenizer object over the same vocabulary data (every history runs on its own object, so a
// case line replays).  share: reuse the template's two lookup maps (llama 3.2: 128k + 280k entries; they are
// built once from Values / Merges and only read afterwards) — the special-token cache is always fresh.
func (tk *verifTok) clone(share bool) *verifTok {
	v := tk.vocab
	nv := &Vocabulary{Values: v.Values, Types: v.Types, Scores: v.Scores, Merges: v.Merges, BOS: v.BOS, EOS: v.EOS, EOT: v.EOT,
		AddBOS: v.AddBOS, AddEOS: v.AddEOS, AddEOT: v.AddEOT}
	if share {
		v.Encode("")
		v.Merge("", "")
		nv.values, nv.merge = v.values, v.merge
		nv.valuesOnce.Do(func() {})
		nv.mergeOnce.Do(func() {})
	}
	c := *tk
	c.vocab, c.template = nv, false
	if tk.family == "bpe" {
		b := NewBytePairEncoding(tk.pre, nv)
		c.tp, c.bpe = b, &b
	} else {
		c.tp = NewSentencePieceModel(nv)
	}
	return &c
}

// finish a template: snapshot its special vocabulary (the template itself never encodes anything)
func (tk *verifTok) asTemplate() *verifTok {
	tk.specials = append([]string(nil), tk.vocab.SpecialVocabulary()...)
	tk.refSpecials = nil
	for i, s := range tk.vocab.Values {
		if s != "" && (s == "<start_of_turn>" || s == "<end_of_turn>" || (i < len(tk.vocab.Types) && tk.vocab.Types[i] == TOKEN_TYPE_CONTROL)) {
			tk.refSpecials = append(tk.refSpecials, s)
		}
	}
	tk.template = true
	return tk
}

func (tk *verifTok) addCfg(add bool) string {
	v := tk.vocab
	return fmt.Sprintf("%s %s %d %s %d", verifB(add), verifB(v.AddBOS), max(v.BOS, 0), verifB(v.AddEOS), max(v.EOS, 0))
}

// extra entries Decode needs when BOS/EOS are added
func (tk *verifTok) addEntries(add bool, ents map[string]int32) {
	if !add {
		return
	}
	v := tk.vocab
	if v.AddBOS && v.BOS >= 0 {
		ents[v.Values[v.BOS]] = v.Encode(v.Values[v.BOS])
	}
	if v.AddEOS && v.EOS >= 0 {
		ents[v.Values[v.EOS]] = v.Encode(v.Values[v.EOS])
	}
}

func verifSortedKeys[V any](m map[string]V) []string {
	ks := make([]string, 0, len(m))
	for k := range m {
		ks = append(ks, k)
	}
	sort.Strings(ks)
	return ks
}

func (tk *verifTok) opBPE(enc [256]int, text string, add bool, out *zzverif.Out) string {
	v := tk.vocab
	var sb strings.Builder
	fmt.Fprintf(&sb, "bpe %s %s", tk.addCfg(add), zzverif.Hex([]byte(text)))
	var sps, lits []string
	for _, sp := range tk.specials {
		if sp != "" && strings.Contains(text, sp) {
			sps = append(sps, fmt.Sprintf("%s %s %d", zzverif.Hex([]byte(sp)), verifRunes(sp), v.Encode(sp)))
			lits = append(lits, sp)
		}
	}
	fmt.Fprintf(&sb, " %d", len(sps))
	for _, s := range sps {
		sb.WriteString(" " + s)
	}
	frags := verifTextFragments(lits, text)
	seen := map[string]bool{}
	var frs []string
	ents := map[string]int32{}
	type mk struct{ l, r string }
	merges := map[mk]int{}
	for _, f := range frags {
		if seen[f] {
			continue
		}
		seen[f] = true
		var pieces []string
		var catb strings.Builder
		for p := range tk.bpe.split(f) {
			pieces = append(pieces, zzverif.Hex([]byte(p)))
			catb.WriteString(p)
			// vocabulary / merge entries relevant to this piece
			var m []rune
			for _, b := range []byte(p) {
				if enc[b] < 0 {
					m = nil
					break
				}
				m = append(m, rune(enc[b]))
			}
			n := len(m)
			in := make([][]bool, n+1)
			for i := range in {
				in[i] = make([]bool, n+1)
			}
			for i := 0; i < n; i++ {
				for j := i + 1; j <= n && j-i <= tk.maxRunes; j++ {
					s := string(m[i:j])
					if id := v.Encode(s); id >= 0 {
						ents[s] = id
						in[i][j] = true
					}
				}
			}
			for i := 0; i < n; i++ {
				for j := i + 1; j < n && j-i <= tk.maxRunes; j++ {
					if j-i > 1 && !in[i][j] {
						continue
					}
					for k := j + 1; k <= n && k-j <= tk.maxRunes; k++ {
						if k-j > 1 && !in[j][k] {
							continue
						}
						l, r := string(m[i:j]), string(m[j:k])
						if rk := v.Merge(l, r); rk >= 0 {
							merges[mk{l, r}] = rk
						}
					}
				}
			}
		}
		if cat := catb.String(); cat != f {
			out.Count("split_not_partition")
			out.L2("split-partition", tk.caseLine(text, add), fmt.Sprintf("fragment %q is split into %q", f, cat))
		}
		frs = append(frs, fmt.Sprintf("%s %d %s", zzverif.Hex([]byte(f)), len(pieces), strings.Join(pieces, " ")))
	}
	fmt.Fprintf(&sb, " %d", len(frs))
	for _, s := range frs {
		sb.WriteString(" " + strings.TrimRight(s, " "))
	}
	tk.addEntries(add, ents)
	fmt.Fprintf(&sb, " %d", len(ents))
	for _, k := range verifSortedKeys(ents) {
		fmt.Fprintf(&sb, " %s %d", verifRunes(k), ents[k])
	}
	fmt.Fprintf(&sb, " %d", len(merges))
	mks := make([]mk, 0, len(merges))
	for k := range merges {
		mks = append(mks, k)
	}
	sort.Slice(mks, func(i, j int) bool {
		if mks[i].l != mks[j].l {
			return mks[i].l < mks[j].l
		}
		return mks[i].r < mks[j].r
	})
	for _, k := range mks {
		fmt.Fprintf(&sb, " %s %s %d", verifRunes(k.l), verifRunes(k.r), merges[k])
	}
	out.Add("l1_vocab_entries", len(ents))
	out.Add("l1_merge_entries", len(merges))
	for k := range merges {
		if _, ok := ents[k.l+k.r]; !ok {
			out.Count("cases_bpe_merge_candidate_with_nontoken_product")
			break
		}
	}
	return sb.String()
}

func (tk *verifTok) opSPM(text string, add bool, out *zzverif.Out) string {
	v := tk.vocab
	var sb strings.Builder
	fmt.Fprintf(&sb, "spm %s %s", tk.addCfg(add), verifRunes(text))
	var sps []string
	for _, sp := range tk.specials {
		if sp != "" && strings.Contains(text, sp) {
			sps = append(sps, fmt.Sprintf("%s %d", verifRunes(sp), v.Encode(sp)))
		}
	}
	fmt.Fprintf(&sb, " %d", len(sps))
	for _, s := range sps {
		sb.WriteString(" " + s)
	}
	ents := map[string]int32{}
	rs := []rune(strings.ReplaceAll(text, " ", "▁"))
	for i := 0; i < len(rs); i++ {
		for j := i + 1; j <= len(rs) && j-i <= tk.maxRunes; j++ {
			s := string(rs[i:j])
			if id := v.Encode(s); id >= 0 {
				ents[s] = id
			}
		}
	}
	if id := v.Encode(""); id >= 0 {
		ents[""] = id
	}
	for _, b := range []byte(string(rs)) {
		s := fmt.Sprintf("<0x%02X>", b)
		if id := v.Encode(s); id >= 0 {
			ents[s] = id
		}
	}
	tk.addEntries(add, ents)
	fmt.Fprintf(&sb, " %d", len(ents))
	for _, k := range verifSortedKeys(ents) {
		fmt.Fprintf(&sb, " %s %d %d", verifRunes(k), ents[k], verifScoreKey(v.Scores[ents[k]]))
	}
	out.Add("l1_vocab_entries", len(ents))
	return sb.String()
}

func (tk *verifTok) caseLine(text string, add bool) string {
	return fmt.Sprintf("%s %s %s", tk.name, verifB(add), zzverif.Hex([]byte(text)))
}

// ---------------------------------------------------------------------------------- one case

type verifSeg struct {
	s       string
	special bool
}

var verifByteLit = regexp.MustCompile(`<0x[0-9A-F]{2}>`)

// the rune->byte table observed by verifByteMap (set by TestVerifC20 before any case runs)
var verifDecTable [0x180]int

// classify a round-trip difference (used as the L2 detail, which known-finding signatures match on)
func (tk *verifTok) diffClass(text, dec string) string {
	if tk.family == "bpe" {
		if strings.ReplaceAll(text, "~", " ") == dec {
			return "diff=tilde-to-space"
		}
		// a special token whose vocabulary string does not decode to itself (non-ASCII characters go through
		// the rune->byte unmapping like ordinary tokens): replace its occurrences (as the reference splitting
		// finds them) by what Decode makes of the id
		// a special token whose literal has a NON-ASCII rune: Decode sends its vocabulary string through the rune->byte
		// unmapping like any other token.  The expected output is computed here from the REGENERATED rune->byte table
		// (verifDecTable; byte(r) beyond it), not by asking the code under test; an ASCII special token that does not
		// decode to itself, or any other image, is a different (new) failure.
		// Only tokens that ARE special by the reference rule count (a regression of F2b, which made ids 105/106 special for
		// every vocabulary, must not be filed under this finding).
		x, n, ascii := "", 0, 0
		for _, f := range verifFragments(tk.refSpecials, text) {
			if !f.sp {
				x += f.v
				continue
			}
			nonASCII := false
			var img []byte
			for _, r := range f.v {
				if r >= 0x80 {
					nonASCII = true
				}
				switch {
				case int(r) < len(verifDecTable) && verifDecTable[r] < 0: // skipped (U+0100)
				case int(r) < len(verifDecTable):
					img = append(img, byte(verifDecTable[r]))
				default:
					img = append(img, byte(r))
				}
			}
			if string(img) != f.v {
				if nonASCII {
					n++
				} else {
					ascii++
				}
			}
			x += string(img)
		}
		if ascii > 0 {
			return "diff=special-literal-ascii-not-self-decoding"
		}
		if n > 0 && x == dec {
			return "diff=special-literal-not-self-decoding"
		}
		if n > 0 && strings.ReplaceAll(x, "~", " ") == dec {
			return "diff=tilde-to-space+special-literal-not-self-decoding"
		}
		return "diff=other"
	}
	if strings.ReplaceAll(text, "▁", " ") == dec {
		return "diff=sep-to-space"
	}
	switch verifByteLitFragments(verifFragments(tk.specials, text), dec) {
	case 1:
		return "diff=byte-literal"
	case 2:
		return "diff=byte-literal+sep-to-space"
	}
	if verifByteLitAlign(strings.ReplaceAll(text, "▁", " "), dec) {
		return "diff=byte-literal-inside-fragment" // NOT the known finding: the literal is not a whole fragment
	}
	return "diff=other"
}

var verifByteLitWhole = regexp.MustCompile(`^<0x[0-9A-F]{2}>$`)

// verifByteLitFragments: dec is the text with at least one WHOLE FRAGMENT that is a byte-token literal `<0xNN>` replaced by
// the byte NN (finding SPM-byte-literal: the whole-fragment shortcut), every other fragment unchanged except (result 2)
// U+2581 -> space (finding SPM-sep).  0 = no.
func verifByteLitFragments(frs []verifFrag, dec string) int {
	j, n, sep := 0, 0, false
	for _, f := range frs {
		if verifByteLitWhole.MatchString(f.v) { // a text fragment, or a byte token that is itself typed CONTROL (special fragment)
			b, _ := strconv.ParseUint(f.v[3:5], 16, 8)
			if strings.HasPrefix(dec[j:], f.v) {
				j += len(f.v)
			} else if j < len(dec) && dec[j] == byte(b) {
				j, n = j+1, n+1
			} else {
				return 0
			}
			continue
		}
		want := f.v
		if !f.sp && strings.Contains(want, "▁") {
			want = strings.ReplaceAll(want, "▁", " ")
			sep = true
		}
		if !strings.HasPrefix(dec[j:], want) {
			return 0
		}
		j += len(want)
	}
	if j != len(dec) || n == 0 {
		return 0
	}
	if sep {
		return 2
	}
	return 1
}

// verifByteLitAlign: dec is text with at least one occurrence of a byte-token literal `<0xNN>` ANYWHERE replaced by
// the byte NN and nothing else changed (used only to name the new class byte-literal-inside-fragment).
func verifByteLitAlign(text, dec string) bool {
	i, j, n := 0, 0, 0
	for i < len(text) {
		if loc := verifByteLit.FindStringIndex(text[i:]); loc != nil && loc[0] == 0 {
			lit := text[i : i+6]
			if strings.HasPrefix(dec[j:], lit) {
				i, j = i+6, j+6
				continue
			}
			b, _ := strconv.ParseUint(lit[3:5], 16, 8)
			if j < len(dec) && dec[j] == byte(b) {
				i, j, n = i+6, j+1, n+1
				continue
			}
			return false
		}
		if j >= len(dec) || dec[j] != text[i] {
			return false
		}
		i, j = i+1, j+1
	}
	return j == len(dec) && n > 0
}

const verifMaxSpecialOcc = 4000

type verifCall struct {
	text string
	add  bool
}

func verifLenBucket(n int) string {
	switch {
	case n == 0:
		return "0"
	case n < 16:
		return "1_15"
	case n < 256:
		return "16_255"
	case n < 4096:
		return "256_4095"
	case n < 65536:
		return "4096_65535"
	case n < 262144:
		return "64k_256k"
	default:
		return "ge_256k"
	}
}

// runHistory: ONE fresh tokenizer object, a sequence of Encode/Decode calls.  The model says every call is a
// function of (vocabulary, text) only, so each call is compared with the single-call oracle (L1) and the
// property predicates are evaluated per call (L2); a failure's case line is the history up to that call.
func (tk *verifTok) runHistory(enc [256]int, calls []verifCall, out *zzverif.Out) {
	if !tk.template {
		panic("histories start from a template")
	}
	t := tk.clone(strings.HasPrefix(tk.name, "llama32"))
	out.Count("histories")
	out.Count(fmt.Sprintf("history_calls_%d", len(calls)))
	line := tk.name
	for _, c := range calls {
		line += " " + verifB(c.add) + " " + zzverif.Hex([]byte(c.text))
		t.runCall(tk, enc, c, line, out)
	}
}

func (tk *verifTok) runCase(enc [256]int, segs []verifSeg, add bool, out *zzverif.Out) {
	var text string
	for _, s := range segs {
		text += s.s
	}
	tk.runHistory(enc, []verifCall{{text, add}}, out)
}

// one call of a history on the tokenizer object tk (tmpl: its template, source of fresh reference objects)
func (tk *verifTok) runCall(tmpl *verifTok, enc [256]int, c verifCall, cl string, out *zzverif.Out) {
	text, add := c.text, c.add
	out.Count("cases")
	out.Count("text_len_" + verifLenBucket(len(text)))
	if tk.pool != nil {
		out.Count("cases_random_" + tk.family + "_vocabularies")
	} else {
		out.Count("cases_" + tk.name)
	}

	// the real splitting loop rebuilds the fragment slice at every special occurrence (quadratic in their number): no
	// generated text goes to Encode with more than verifMaxSpecialOcc of them (one directed case has 3000)
	nocc := 0
	for _, f := range verifFragments(tk.specials, text) {
		if f.sp {
			nocc++
		}
	}
	if nocc > verifMaxSpecialOcc {
		out.Count("cases_skipped_too_many_special_occurrences")
		return
	}
	out.Count("special_occurrences_" + map[bool]string{true: "le_100", false: "gt_100"}[nocc <= 100])

	// ---- the real code
	ids, err := tk.tp.Encode(text, add)
	impl := ""
	if err != nil {
		impl = "err:encode"
	} else {
		dec, derr := tk.tp.Decode(ids)
		d := zzverif.Hex([]byte(dec))
		if derr != nil {
			d = "err"
		}
		impl = fmt.Sprintf("ids=%s dec=%s", verifIds(ids), d)
	}
	out.Add("tokens", len(ids))

	// ---- L1 (skipped where the list-based Lean model is quadratic: very long pieces / SPM fragments)
	l1 := true
	if tk.family == "bpe" {
		if len(text) > 4096 {
			for p := range tk.bpe.split(text) {
				if len(p) > 600 {
					l1 = false
					break
				}
			}
		}
	} else if len(text) > 6000 {
		l1 = false
	}
	if nocc > 1000 {
		l1 = false
	}
	if l1 {
		var op string
		if tk.family == "bpe" {
			op = tk.opBPE(enc, text, add, out)
		} else {
			op = tk.opSPM(text, add, out)
		}
		out.Case(op, impl)
	} else {
		out.Count("cases_l2_only_long_text")
	}
	if tk.byteIDs != nil {
		seen := map[uint32]bool{}
		for _, id := range ids {
			if ty, ok := tk.byteIDs[id]; ok && !seen[ty] {
				seen[ty] = true
				out.Count("cases_spm_byte_fallback_type_" + verifTypeNames[ty])
			}
		}
		if len(seen) > 0 {
			out.Count("cases_spm_byte_fallback")
		}
	}

	// ---- L2 (property predicates on the real code only; addSpecial = false)
	if tk.family == "bpe" {
		out.Count("cases_family_bpe")
		tk.checkPartition(text, cl, out)
		for _, f := range verifTextFragments(tk.specials, text) { // hypothesis hsplit of bpe_roundtrip, exactly as stated
			tk.checkPartition(f, cl, out)
			out.Count("l2_split_partition_fragments_checked")
		}
	}
	ids0 := ids
	if add {
		ids0, err = tk.tp.Encode(text, false)
	}
	if err != nil {
		out.L2("encode-error", cl, err.Error())
		return
	}
	for _, id := range append(append([]int32(nil), ids0...), ids...) { // without and with BOS/EOS
		if id < 0 || int(id) >= len(tk.vocab.Values) {
			out.L2("id-range", cl, fmt.Sprintf("id %d outside [0,%d)", id, len(tk.vocab.Values)))
			break
		}
	}
	if tk.covering && !strings.Contains(text, "\x00") {
		out.Count("l2_roundtrip_checked")
		dec, derr := tk.tp.Decode(ids0)
		if derr != nil {
			out.L2("roundtrip-"+tk.family, cl, "diff=decode-error "+derr.Error())
		} else if dec != text {
			out.L2("roundtrip-"+tk.family, cl, fmt.Sprintf("%s text=%q decoded=%q", tk.diffClass(text, dec), clipq(text), clipq(dec)))
		}
	}
	// special literals (compositional, from the text alone): cut the text at the special literals (pristine
	// special list of the template); every special piece must be the special id, every piece between must be
	// encoded as it is on its own by a FRESH tokenizer object
	frs := verifFragments(tk.specials, text)
	nsp := 0
	for _, f := range frs {
		if f.sp {
			nsp++
		}
	}
	if nsp > 0 && len(frs) <= 64 {
		out.Count("l2_special_checked")
		if !strings.ContainsAny(text, "<>") {
			out.Count("l2_special_checked_text_without_angle_brackets")
		}
		out.Count(fmt.Sprintf("l2_special_distinct_in_text_%d", min(nsp, 5)))
		var want []int32
		ref := tmpl.clone(strings.HasPrefix(tmpl.name, "llama32"))
		for _, f := range frs {
			if f.sp {
				want = append(want, tmpl.vocab.Encode(f.v))
			} else {
				x, _ := ref.tp.Encode(f.v, false)
				want = append(want, x...)
			}
		}
		if verifIds(want) != verifIds(ids0) {
			out.L2("special-literal", cl, fmt.Sprintf("ids=%s want=%s", clipq(verifIds(ids0)), clipq(verifIds(want))))
		}
	}
}

// checkPartition: the real pre-tokenizer's pieces concatenate to its input (the hypothesis `hsplit` of
// bpe_roundtrip), here on the whole text; opBPE checks the same on every text fragment.
func (tk *verifTok) checkPartition(text, cl string, out *zzverif.Out) {
	if len(text) > 300000 {
		return // the > 1 MiB texts of the thorough tier: the whole text was checked by the caller once
	}
	out.Count("l2_split_partition_checked")
	var sb strings.Builder
	for p := range tk.bpe.split(text) {
		sb.WriteString(p)
	}
	if cat := sb.String(); cat != text {
		out.L2("split-partition", cl, fmt.Sprintf("pattern %q splits %q into pieces that concatenate to %q", tk.pre, clipq(text), clipq(cat)))
	}
}

func clipq(s string) string {
	if len(s) > 80 {
		return s[:80] + "..."
	}
	return s
}

// ---------------------------------------------------------------------------------- generators

var verifWords = []string{"hello", "world", "the", "The", "there", "in", "and", "a", "I", "aaaa", "aaaaaaa", "abab", "ababa", "xyxyxy", "her", "there's",
	"don't", "I'LL", "we're", "HE'S", "tokenization", "Ollama", "naïve", "café", "über", "señor", "q", "aaa", "yxyx", "ther", "herhe"}
var verifCJK = []string{"你好", "世界", "你好世界", "日本語", "東京都", "한국어", "こんにちは", "カタカナ", "漢字かな交じり文", "你", "界"}
var verifRTL = []string{"مرحبا", "بالعالم", "مر", "שלום", "עולם", "سلام دنیا", "اَلْعَرَبِيَّةُ"}
var verifOther = []string{"привет", "мир", "नमस्ते", "हिन्दी", "ไทย", "ελληνικά", "Ελλάδα", "ქართული"}
var verifEmoji = []string{"👍", "👨‍👩‍👧‍👦", "👩🏽‍💻", "❤️", "🇯🇵", "🏳️‍🌈", "😀😃😄", "👨‍👩", "✈", "©", "™"}
var verifCombining = []string{"é", "ạ̈", "ố", "ñ", "Z̧͑a̐l̥g͡o", "́", "क्ष", "각"}
var verifSpaces = []string{" ", "  ", "   ", "    ", "        ", "\t", "\n", "\n\n", "\r\n", " \n", "\n ", " \t ", "\u00a0", "\u3000", "\u2003", "\u200b", " \r\n \r\n", "\v", "\f", "\u0085", "\u2028"}
var verifTricky = []string{"~", "~~", "a~b", "\u00ac", "\u00ae", "\u00ad", "\u007f", "\u2581", "<0x41>", "<0x0A>", "<0xE4>", "<0x", "<|", "|>", "<|eot_id|", "|eot_id|>", "<|sys|", "<", ">", "<<>", "\u0120", "\u010a", "\u0120\u0120", "\u0143", "\u0142", "\u0100", "\u0121", "\u00ff", "\u0080", "\u009f", "\ufffd", "\U0010ffff", "\ufeff", "x\u2581y", "a <0x42> c"}

func verifGenSegs(r *zzverif.Rng, tk *verifTok, out *zzverif.Out) []verifSeg {
	n := r.Pick3(1, 4, 9)
	var segs []verifSeg
	specials := tk.specials
	for i := 0; i < n; i++ {
		var s string
		k := r.Intn(22)
		switch {
		case k < 4:
			s = zzverif.Pick(r, verifWords)
			out.Count("seg_word")
		case k < 7:
			s = zzverif.Pick(r, verifSpaces)
			if r.Chance(1, 4) {
				s = strings.Repeat(s, r.Range(1, 6))
			}
			out.Count("seg_space")
		case k == 7:
			d := r.Range(1, 9)
			for j := 0; j < d; j++ {
				s += string(rune('0' + r.Intn(10)))
			}
			if r.Chance(1, 5) {
				s = zzverif.Pick(r, []string{"١٢٣", "１２３", "²³", "½", "Ⅻ", "12.5", "1,000"})
			}
			out.Count("seg_digits")
		case k == 8:
			d := r.Range(1, 4)
			for j := 0; j < d; j++ {
				s += string(rune(0x21 + r.Intn(0x7f-0x21))) // printable ASCII incl. '~'
			}
			out.Count("seg_ascii_punct")
		case k == 9:
			s = zzverif.Pick(r, verifCJK)
			out.Count("seg_cjk")
		case k == 10:
			s = zzverif.Pick(r, verifRTL)
			out.Count("seg_rtl")
		case k == 11:
			s = zzverif.Pick(r, verifOther)
			out.Count("seg_other_script")
		case k == 12:
			s = zzverif.Pick(r, verifEmoji)
			out.Count("seg_emoji")
		case k == 13:
			s = zzverif.Pick(r, verifCombining)
			out.Count("seg_combining")
		case k == 14 && r.Bool():
			s = zzverif.Pick(r, verifTricky)
			out.Count("seg_tricky")
		case k == 14 || k == 19:
			// U+00A1..U+0143 (Latin-1 supplement, Latin Extended-A): as characters these are exactly the
			// strings the byte-level vocabularies use for the remapped bytes; singly or in short runs, next to
			// digits, spaces and punctuation, so that the pre-tokenizer isolates them
			d := r.Pick3(1, 2, 4)
			for j := 0; j < d; j++ {
				s += string(rune(0xa1 + r.Intn(0x143-0xa1+1)))
			}
			s = zzverif.Pick(r, []string{"", "", " ", "5", "12", ".", ", ", "\n", "a"}) + s + zzverif.Pick(r, []string{"", "", " ", "5", "100", "!", "; ", "\t", "b"})
			out.Count("seg_latin1_exta")
		case k == 15 || k == 16:
			if len(specials) > 0 {
				sp := zzverif.Pick(r, specials)
				// ids 105/106 of a byte-level vocabulary are ordinary characters: generated as text elsewhere
				if tk.vocab.Types[tk.vocab.Encode(sp)] == TOKEN_TYPE_CONTROL || tk.vocab.Types[tk.vocab.Encode(sp)] == TOKEN_TYPE_USER_DEFINED {
					segs = append(segs, verifSeg{sp, true})
					out.Count("seg_special")
					continue
				}
			}
			s = " "
		case k == 17:
			// random valid scalar values from assorted planes
			d := r.Range(1, 3)
			for j := 0; j < d; j++ {
				var c rune
				switch r.Intn(5) {
				case 0:
					c = rune(1 + r.Intn(0x7f))
				case 1:
					c = rune(0x80 + r.Intn(0x780))
				case 2:
					c = rune(0x800 + r.Intn(0xd000))
				case 3:
					c = rune(0xe000 + r.Intn(0x1fff))
				default:
					c = rune(0x10000 + r.Intn(0x100000))
				}
				s += string(c)
			}
			out.Count("seg_random_scalar")
		case k == 18:
			s = zzverif.Pick(r, []string{".", ",", "!", "?", "...", "!!", "?!", ";", ":", "-", "--", "—", "«»", "“”", "(", ")", "[]", "{}", "'", "\"", "`", "@#", "$%", "^&*", "+=", "_", "/\\", "|"})
			out.Count("seg_punct")
		default:
			s = zzverif.Pick(r, verifWords) + zzverif.Pick(r, []string{" ", ", ", ". ", "\n", "'s ", "  "}) + zzverif.Pick(r, verifWords)
			out.Count("seg_phrase")
		}
		segs = append(segs, verifSeg{s, false})
	}
	return segs
}

// deterministic cases run first: every printable ASCII byte alone and between letters, every character
// U+0000..U+00FF, the classic strings
func verifFixedCases() [][]verifSeg {
	var cs [][]verifSeg
	one := func(s string) { cs = append(cs, []verifSeg{{s, false}}) }
	one("")
	for c := 0; c < 0x180; c++ {
		one(string(rune(c)))
	}
	for c := 0xa1; c <= 0x143; c++ {
		one(string(rune(c)) + "5")
		one("7 " + string(rune(c)) + string(rune(c)) + ".")
	}
	for c := 0x20; c < 0x7f; c++ {
		one("a" + string(rune(c)) + "b")
		one(" " + string(rune(c)) + string(rune(c)) + " x")
	}
	for _, l := range [][]string{verifWords, verifCJK, verifRTL, verifOther, verifEmoji, verifCombining, verifSpaces, verifTricky} {
		for _, s := range l {
			one(s)
		}
	}
	one("<0xZZ>")
	one("<0x_F>")
	one("<0x041>")
	one("<0x4> zé\fq")
	one("hello world")
	one("Hello, World! It's 2024 — the year of the 🐉.\n\n  Indented\tline\r\n")
	one("aaaaaaaaaaaaaaaaaaaaaaaaaaaaaaaaa")
	one("                                 x")
	one("the there then the theatre other")
	return cs
}

func TestVerifC20(t *testing.T) {
	enc, dec, problems := verifByteMap(t)
	verifDecTable = dec
	toks := verifTokenizers(t, enc)
	out := zzverif.NewOut()
	defer out.Close()
	out.Add("byte_map_probe_problems", len(problems))
	byName := map[string]*verifTok{}
	for _, tk := range toks {
		byName[tk.name] = tk
	}
	_, pats := verifPatterns()
	lookup := func(name string) *verifTok {
		if byName[name] == nil {
			byName[name] = verifRandTok(enc, pats[0], name, out)
		}
		return byName[name]
	}

	// a case line is a history: <tokenizer> {<add 0|1> <texthex>}+ , run on a fresh tokenizer object
	runLine := func(line string) bool {
		f := strings.Fields(line)
		if len(f) == 2 && f[0] == "vocabdata" {
			return verifVocabReplay(f[1], lookup, out)
		}
		if len(f) == 4 && f[0] == "emptyspecial" {
			variant, _ := strconv.Atoi(f[2])
			verifEmptySpecialCase(enc, f[1], variant, string(zzverif.Unhex(f[3])), verifRunChild(strings.Join(f[1:], " ")), out)
			return true
		}
		if len(f) < 3 || len(f)%2 != 1 || lookup(f[0]) == nil {
			return false
		}
		var calls []verifCall
		for i := 1; i < len(f); i += 2 {
			calls = append(calls, verifCall{string(zzverif.Unhex(f[i+1])), f[i] == "1"})
		}
		byName[f[0]].runHistory(enc, calls, out)
		return true
	}
	if p := os.Getenv("VERIF_REPLAY"); p != "" {
		raw, err := os.ReadFile(p)
		if err != nil {
			t.Fatal(err)
		}
		if !runLine(string(raw)) {
			t.Fatalf("bad replay line %q", clipq(string(raw)))
		}
		return
	}

	for _, file := range verifCorpus() {
		for _, line := range strings.Split(file, "\n") {
			if runLine(line) {
				out.Count("corpus_cases")
			} else if strings.TrimSpace(line) != "" && !strings.HasPrefix(line, "#") {
				out.Count("corpus_lines_ignored")
			}
		}
	}

	// real and synthetic vocabularies first, the probe vocabulary last (the first failure of a kind is the replay)
	for _, pass := range []bool{false, true} {
		for _, segs := range verifFixedCases() {
			for _, tk := range toks {
				if (tk.name == "probe") == pass {
					tk.runCase(enc, segs, false, out)
					out.Count("fixed_cases")
				}
			}
		}
	}
	// ONE directed case with many special occurrences (3000; the loop is quadratic in them): L2 only
	for _, name := range []string{"synth", "spm"} {
		byName[name].runHistory(enc, []verifCall{{strings.Repeat("ab"+byName[name].specials[0], 3000), false}}, out)
		out.Count("directed_many_special_occurrences")
	}
	// addSpecial on every tokenizer, on an empty and a non-empty text (BOS/EOS branches with every seed)
	for _, tk := range toks {
		tk.runHistory(enc, []verifCall{{"", true}, {"a b", true}, {"", false}, {"hello", true}}, out)
		out.Count("fixed_cases")
	}
	// code point sweep: every pre-tokenizer pattern must match every Unicode scalar value (alone, after a
	// letter, doubled after a space): with classes that cover every code point, the alternation leaves no gap
	donePat := map[string]bool{}
	for _, tk := range toks {
		if tk.family != "bpe" || donePat[tk.pre] {
			continue
		}
		donePat[tk.pre] = true
		all := os.Getenv("VERIF_TIER") == "thorough"
		for c := rune(0); c <= 0x10ffff; c++ {
			if c >= 0xd800 && c <= 0xdfff || (!all && c >= 0x3400 && c%13 != 0) {
				continue
			}
			out.Count("sweep_codepoints")
			for _, text := range []string{string(c), "x" + string(c) + " " + string(c) + string(c)} {
				cat := ""
				for p := range tk.bpe.split(text) {
					cat += p
				}
				if cat != text {
					out.L2("split-partition", tk.caseLine(text, false), fmt.Sprintf("pattern %q splits %q into pieces that concatenate to %q", tk.pre, text, cat))
				}
			}
		}
	}
	var pick []*verifTok
	for _, tk := range toks {
		w := map[string]int{"llama32": 4, "synth": 1, "synthgap": 1, "spm": 3, "spmgap": 1, "probe": 1}[tk.name]
		if w == 0 {
			w = 2 // llama32-preK
		}
		for j := 0; j < w; j++ {
			pick = append(pick, tk)
		}
	}
	// random vocabularies (index = seed*10000 + j; the name carries the index)
	var rtoks []*verifTok
	nv := 40
	if os.Getenv("VERIF_TIER") == "thorough" {
		nv = 300
	}
	for j := 0; j < nv; j++ {
		idx := int(zzverif.Seed()%100000)*10000 + j
		if j%5 < 3 {
			rtoks = append(rtoks, lookup(fmt.Sprintf("rbpe%d", idx)))
		} else {
			rtoks = append(rtoks, lookup(fmt.Sprintf("rspm%d", idx)))
		}
	}
	for _, tk := range rtoks {
		for _, s := range []string{"abc", "hellohello twice", "her there", "aaaa abab", "café 你好", "a b  c", "z", "é", "<0x41>"} {
			tk.runCase(enc, []verifSeg{{s, false}}, false, out)
			out.Count("fixed_cases")
		}
	}
	thorough := os.Getenv("VERIF_TIER") == "thorough"

	// vocabularies with an empty CONTROL token (finding empty-special-hang): Encode only ever in a child process
	verifEmptySpecialCases(enc, out)

	// the Vocabulary type itself (Encode / Decode / Merge / SpecialVocabulary) against the Lean `VocabData`
	verifVocabCases(toks, rtoks, map[bool]int{false: 400, true: 4000}[thorough], out)

	// long texts (single lines around and beyond 64 KiB, multi-byte characters at every phase relative to
	// 65536, with and without line breaks; > 1 MiB in the thorough tier): L2 always, L1 where pieces are short
	var longToks []*verifTok
	for _, name := range []string{"llama32", "synth", "spm"} {
		longToks = append(longToks, byName[name])
	}
	for _, tk := range rtoks {
		if tk.covering && len(longToks) < 5 {
			longToks = append(longToks, tk)
		}
	}
	for i, text := range verifLongTexts(thorough) {
		for j, tk := range longToks {
			if len(text) > 300000 && j > 0 && (i+j)%2 == 0 {
				continue // the biggest ones on the real vocabulary and every other synthetic one
			}
			if tk.family == "spm" && len(text) > 300000 {
				continue // the SPM queue holds one candidate per rune pair: minutes on a MiB of text
			}
			tk.runHistory(enc, []verifCall{{text, false}}, out)
			out.Count("long_text_cases")
		}
	}

	n := zzverif.EnvInt("VERIF_N", 2000)
	// NewRng(seed) streams for consecutive seeds are one-step shifts of each other (SplitMix64 state =
	// seed * increment): fork once so that different seeds give unrelated case sequences.
	root := zzverif.NewRng(zzverif.Seed()).Fork()
	for done := 0; done < n; {
		r := root.Fork()
		tk := pick[r.Intn(len(pick))]
		if r.Chance(5, 12) { // a random vocabulary
			tk = rtoks[r.Intn(len(rtoks))]
			out.Count("histories_random_vocab_" + tk.family)
		}
		// histories: 1 call (1/3) or 2-8 calls; the calls mention different subsets of the special literals
		// (none, some, all, in varying order) so that anything remembered between calls shows
		k := 1
		if r.Chance(2, 3) {
			k = r.Range(2, 8)
		}
		var calls []verifCall
		for c := 0; c < k; c++ {
			var segs []verifSeg
			if tk.pool != nil && r.Chance(3, 4) {
				segs = verifPoolSegs(r, tk, out)
			} else {
				segs = verifGenSegs(r, tk, out)
			}
			if k > 1 && len(tk.specials) > 0 {
				var named []string
				for _, sp := range tk.specials {
					if !strings.HasPrefix(sp, "<0x") {
						named = append(named, sp)
					}
				}
				switch m := r.Intn(4); {
				case len(named) == 0 || m == 0: // none (beyond what the generator put in)
					out.Count("call_specials_generator_only")
				case m == 1: // all, shuffled
					for _, i := range verifPerm(r, len(named)) {
						segs = append(segs, verifSeg{named[i], true}, verifSeg{zzverif.Pick(r, []string{"", " ", "a", "\n"}), false})
					}
					out.Count("call_specials_all")
				default: // some
					for j := r.Range(1, 3); j > 0; j-- {
						at := r.Intn(len(segs) + 1)
						segs = append(segs[:at], append([]verifSeg{{zzverif.Pick(r, named), true}}, segs[at:]...)...)
					}
					out.Count("call_specials_some")
				}
			}
			text := ""
			for _, sg := range segs {
				text += sg.s
			}
			if text != "" && r.Chance(1, 400) { // medium-length texts (4-60 KiB), pieces stay short: L1 as well
				rep := 1 + r.Range(4096, 60000)/(len(text)+1)
				// the real splitting loop rebuilds the fragment slice at every special occurrence (quadratic in their
				// number: minutes for 20 000 occurrences, seen with seed 6): keep the occurrences of a repeated text below ~600
				nsp := 0
				for _, f := range verifFragments(tk.specials, text+" ") {
					if f.sp {
						nsp++
					}
				}
				if nsp > 0 && rep > 600/nsp {
					rep = max(1, 600/nsp)
					out.Count("call_medium_length_text_capped_special_occurrences")
				}
				text = strings.Repeat(text+" ", rep)
				out.Count("call_medium_length_text")
			}
			calls = append(calls, verifCall{text, r.Chance(1, 4)})
		}
		tk.runHistory(enc, calls, out)
		done += k
	}

	// concurrent calls on ONE tokenizer object (cheap, no race detector): every result must be the single-call
	// result of a fresh object
	cr := root.Fork()
	for g := 0; g < 24; g++ {
		tk := []*verifTok{byName["spm"], byName["synth"], byName["llama32"], rtoks[g%len(rtoks)]}[g%4]
		var texts []string
		for i := 0; i < 4; i++ {
			segs := verifGenSegs(cr.Fork(), tk, out)
			if len(tk.specials) > 0 && i%2 == 0 {
				segs = append(segs, verifSeg{tk.specials[(g+i)%len(tk.specials)], true})
			}
			x := ""
			for _, sg := range segs {
				x += sg.s
			}
			texts = append(texts, x)
		}
		shared := tk.clone(strings.HasPrefix(tk.name, "llama32"))
		got := make([][]string, len(texts))
		var wg sync.WaitGroup
		for i := range texts {
			wg.Add(1)
			go func(i int) {
				defer wg.Done()
				for rep := 0; rep < 25; rep++ {
					ids, _ := shared.tp.Encode(texts[i], false)
					got[i] = append(got[i], verifIds(ids))
				}
			}(i)
		}
		wg.Wait()
		out.Count("concurrent_groups")
		for i := range texts {
			ref, _ := tk.clone(strings.HasPrefix(tk.name, "llama32")).tp.Encode(texts[i], false)
			for _, x := range got[i] {
				if x != verifIds(ref) {
					line := tk.name
					for _, y := range texts {
						line += " 0 " + zzverif.Hex([]byte(y))
					}
					out.L2("concurrent-calls", line, fmt.Sprintf("text %d encoded concurrently with the others gives ids=%s, alone ids=%s", i, clipq(x), clipq(verifIds(ref))))
					break
				}
			}
		}
	}
}

func verifPerm(r *zzverif.Rng, n int) []int {
	p := make([]int, n)
	for i := range p {
		p[i] = i
	}
	for i := n - 1; i > 0; i-- {
		j := r.Intn(i + 1)
		p[i], p[j] = p[j], p[i]
	}
	return p
}

// verifLongTexts: every phase of a 2-, 3- and 4-byte character relative to byte offset 65536 (prefix of 0..k-1
// ASCII bytes), as one line just over 64 KiB; the same with a line break earlier in the text (which moves a
// window boundary), as short space-separated words (short pieces: the oracle handles them), 70 and 200 KiB;
// thorough: beyond 1 MiB.
func verifLongTexts(thorough bool) []string {
	var out []string
	rep := func(prefix, unit string, total int) string {
		n := (total - len(prefix) + len(unit) - 1) / len(unit)
		return prefix + strings.Repeat(unit, n)
	}
	for _, ch := range []string{"é", "你", "😀"} {
		for p := 0; p < len(ch); p++ {
			prefix := strings.Repeat("x", p)
			out = append(out, rep(prefix, ch, 65536+8))
			if ch == "你" {
				out = append(out, rep(prefix, "你好吗 ", 65536+20))                       // short pieces
				out = append(out, rep(prefix, ch, 30000)+"\n"+rep("", ch, 65536+3000)) // a line break before the cut
			}
		}
	}
	out = append(out, strings.Repeat("a", 65535)+"é", strings.Repeat("a", 65534)+"你a", strings.Repeat("a", 65536)+"é",
		strings.Repeat("ab ", 21845)+"é", strings.Repeat("a", 65535)+"\né")
	out = append(out, rep("x", "😀", 200<<10), rep("x", "é", 70<<10), rep("", "word é\n", 70<<10))
	if thorough {
		out = append(out, rep("x", "你", 1200<<10), rep("x", strings.Repeat("你", 17000)+"\n", 1200<<10), rep("xy", "😀 é ", 1100<<10))
	}
	return out
}

// corpus/C20/*.txt (minimised regression inputs), located through VERIF_CORPUS
func verifCorpus() []string {
	dir := os.Getenv("VERIF_CORPUS")
	if dir == "" {
		return nil
	}
	ms, _ := filepath.Glob(filepath.Join(dir, "*.txt"))
	sort.Strings(ms)
	var out []string
	for _, m := range ms {
		b, err := os.ReadFile(m)
		if err == nil {
			out = append(out, string(b))
		} else {
			out = append(out, "unreadable corpus file "+m)
		}
	}
	return out
}
