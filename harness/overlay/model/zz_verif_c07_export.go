// Overlay-only export shim for the C07 driver: lets a scripted model (in package
// ollamarunner's test) satisfy model.Model with a fake backend and a real kvcache.Cache.
// Never committed to /repo.
package model

import (
	"github.com/ollama/ollama/kvcache"
	"github.com/ollama/ollama/ml"
)

// NewVerifC07Base builds a Base with the given backend and cache.
func NewVerifC07Base(b ml.Backend, cache kvcache.Cache) Base {
	return Base{b: b, config: config{Cache: cache}}
}
