package model

// C20, part 2: the Vocabulary type itself (Encode / Decode / Merge / SpecialVocabulary) against the Lean model
// `VocabData` (Model/TokenizerVocab.lean).  Oracle command:
//
//	vocab <nv> {<runes>}* <nt> {<type>}* <nm> {<runes>}* <nq> {<runes>}* <nmq> {<runesL> <runesR>}*
//	  -> sp=<runes:id;..|-|panic> enc=<id,..> mrg=<rank,..> dec=<runes;..>
//
// Called from TestVerifC20 (shares its Out).

import (
	"fmt"
	"slices"
	"strconv"
	"strings"

	"github.com/ollama/ollama/zzverif"
)

var verifVocabPool = []string{"a", "b", "c", "ab", "a b", "b c", "<s>", "</s>", "<start_of_turn>", "<end_of_turn>", "é", "<|x|>", "▁", "a b c", "<start_of_turn", "§", ""}

// verifVocabRandom: a small Vocabulary with duplicate values, duplicate / ambiguous merge lines ("a b c" is the key
// of both ("a b","c") and ("a","b c")), turn markers of any type at any position, and sometimes a Types slice
// that is too short (SpecialVocabulary indexes Types[i] only for values that are not turn markers).
func verifVocabRandom(r *zzverif.Rng, out *zzverif.Out) *Vocabulary {
	v := &Vocabulary{BOS: -1, EOS: -1, EOT: -1}
	n := r.Range(1, 14)
	for i := 0; i < n; i++ {
		v.Values = append(v.Values, zzverif.Pick(r, verifVocabPool))
		ty := uint32(r.Range(TOKEN_TYPE_NORMAL, TOKEN_TYPE_BYTE))
		if r.Chance(1, 3) {
			ty = TOKEN_TYPE_CONTROL
		}
		v.Types = append(v.Types, ty)
	}
	if r.Chance(1, 8) {
		v.Types = v.Types[:len(v.Types)-r.Range(1, min(2, len(v.Types)))]
		out.Count("vocabdata_types_short")
	}
	for m := r.Intn(7); m > 0; m-- {
		line := zzverif.Pick(r, verifVocabPool[:6]) + " " + zzverif.Pick(r, verifVocabPool[:6])
		v.Merges = append(v.Merges, line)
		if r.Chance(1, 4) {
			v.Merges = append(v.Merges, line)
		}
	}
	seen := map[string]bool{}
	for _, s := range v.Values {
		if seen[s] {
			out.Count("vocabdata_duplicate_values")
			break
		}
		seen[s] = true
	}
	return v
}

func verifRuneList(ss []string) string {
	var sb strings.Builder
	fmt.Fprintf(&sb, "%d", len(ss))
	for _, s := range ss {
		sb.WriteString(" " + verifRunes(s))
	}
	return sb.String()
}

// verifVocabCase: one vocabulary, observed on a FRESH object (the lookup maps and the special list are built lazily).
func verifVocabCase(name string, src *Vocabulary, queries []string, mq [][2]string, out *zzverif.Out) {
	v := &Vocabulary{Values: src.Values, Types: src.Types, Scores: src.Scores, Merges: src.Merges, BOS: src.BOS, EOS: src.EOS, EOT: src.EOT}
	out.Count("vocabdata_cases")
	var op strings.Builder
	fmt.Fprintf(&op, "vocab %s %d", verifRuneList(v.Values), len(v.Types))
	for _, t := range v.Types {
		fmt.Fprintf(&op, " %d", t)
	}
	fmt.Fprintf(&op, " %s %s %d", verifRuneList(v.Merges), verifRuneList(queries), len(mq))
	for _, q := range mq {
		fmt.Fprintf(&op, " %s %s", verifRunes(q[0]), verifRunes(q[1]))
	}
	cl := "vocabdata " + name

	// ---- the real code
	var sps []string
	panicked := false
	func() {
		defer func() {
			if recover() != nil {
				panicked = true
			}
		}()
		sps = v.SpecialVocabulary()
	}()
	sp := "-"
	if panicked {
		sp = "panic"
		out.Count("vocabdata_special_panic")
	} else if len(sps) > 0 {
		var parts []string
		for _, s := range sps {
			parts = append(parts, fmt.Sprintf("%s:%d", verifRunes(s), v.Encode(s)))
		}
		sp = strings.Join(parts, ";")
		out.Count("vocabdata_with_specials")
	}
	var encs, mrgs, decs []string
	for _, q := range queries {
		id := v.Encode(q)
		encs = append(encs, fmt.Sprint(id))
		if id >= 0 {
			out.Count("vocabdata_encode_hit")
		} else {
			out.Count("vocabdata_encode_miss")
		}
	}
	for _, q := range mq {
		rk := v.Merge(q[0], q[1])
		mrgs = append(mrgs, fmt.Sprint(rk))
		if rk >= 0 {
			out.Count("vocabdata_merge_hit")
			if strings.Contains(q[0], " ") || strings.Contains(q[1], " ") {
				out.Count("vocabdata_merge_hit_ambiguous_key")
			}
		} else {
			out.Count("vocabdata_merge_miss")
		}
	}
	for i := range v.Values {
		decs = append(decs, verifRunes(v.Decode(int32(i))))
	}
	j := func(l []string, sep string) string {
		if len(l) == 0 {
			return "-"
		}
		return strings.Join(l, sep)
	}
	out.Case(op.String(), fmt.Sprintf("sp=%s enc=%s mrg=%s dec=%s", sp, j(encs, ","), j(mrgs, ","), j(decs, ";")))

	// ---- L2 on the real code: Values[Encode(s)] == s, ids in range (hypothesis Wf of the theorems); the special list
	// is exactly the non-empty turn markers and CONTROL-typed values, in Values order
	for _, s := range v.Values {
		id := v.Encode(s)
		if id < 0 || int(id) >= len(v.Values) || v.Decode(id) != s {
			out.L2("vocab-wf", cl, fmt.Sprintf("Encode(%q) = %d, which does not decode to it", s, id))
			break
		}
	}
	if !panicked && len(v.Types) >= len(v.Values) {
		var want []string
		for i, s := range v.Values {
			if s == "" {
				continue // an empty token is never special (finding empty-special-hang, fixed in 2f3a10777)
			}
			if s == "<start_of_turn>" || s == "<end_of_turn>" || v.Types[i] == TOKEN_TYPE_CONTROL {
				want = append(want, s)
			}
		}
		if !slices.Equal(want, sps) {
			out.L2("special-vocabulary", cl, fmt.Sprintf("SpecialVocabulary() = %q, want %q", sps, want))
		}
	}
}

// verifVocabOfTok: the whole Values / Types / Merges of one of the run's vocabularies
func verifVocabOfTok(tk *verifTok, out *zzverif.Out) {
	{
		v := tk.vocab
		qs := append([]string{"", "zz", "a", " "}, tk.specials...)
		for i := 0; i < len(v.Values); i += 1 + len(v.Values)/24 {
			qs = append(qs, v.Values[i])
		}
		var mq [][2]string
		for i := 0; i < len(v.Merges); i += 1 + len(v.Merges)/12 {
			if l, rr, ok := strings.Cut(v.Merges[i], " "); ok {
				mq = append(mq, [2]string{l, rr}, [2]string{rr, l})
			}
		}
		verifVocabCase(tk.name, v, qs, mq, out)
	}
}

// verifVocabIdx: random small vocabulary number idx (a pure function of idx, so the case line replays)
func verifVocabIdx(idx int, out *zzverif.Out) {
	small := []string{"a", "b", "c", "ab", "a b", "b c", "a b c", ""}
	var mq [][2]string
	for _, l := range small {
		for _, rr := range small {
			mq = append(mq, [2]string{l, rr})
		}
	}
	v := verifVocabRandom(zzverif.NewRng(uint64(idx)*2654435761+99).Fork(), out)
	verifVocabCase(fmt.Sprint(idx), v, append(append([]string(nil), verifVocabPool...), "", "zz"), mq, out)
}

func verifVocabCases(toks, rtoks []*verifTok, n int, out *zzverif.Out) {
	// the vocabularies of the run (except the 128k-entry llama 3.2 one)
	for _, tk := range append(append([]*verifTok(nil), toks...), rtoks...) {
		if !strings.HasPrefix(tk.name, "llama32") {
			verifVocabOfTok(tk, out)
		}
	}
	for i := 0; i < n; i++ {
		verifVocabIdx(int(zzverif.Seed()%100000)*100000+i, out)
	}
}

// replay of a case line "vocabdata <tokenizer name | index>"
func verifVocabReplay(name string, lookup func(string) *verifTok, out *zzverif.Out) bool {
	if idx, err := strconv.Atoi(name); err == nil {
		verifVocabIdx(idx, out)
		return true
	}
	if tk := lookup(name); tk != nil {
		verifVocabOfTok(tk, out)
		return true
	}
	return false
}
