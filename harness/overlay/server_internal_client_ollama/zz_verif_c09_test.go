package ollama

// Verification driver for C09 (registry client: Pull / Push).  Added to the package at build time
// with `go test -overlay`; never committed to /repo.
//
// The registry is an in-memory http.RoundTripper on Registry.HTTPClient.  Manifest and chunksums
// requests are answered at once; chunk GETs wait inside RoundTrip until the controller releases
// them.  Every attempt runs in a testing/synctest bubble: the controller calls synctest.Wait(),
// i.e. acts only when the client is quiescent (main goroutine blocked on a full errgroup or in
// g.Wait, every chunk goroutine waiting for the registry), then answers exactly one waiting
// request or cancels the context.  Chunk completion order is therefore scripted, and the run is
// a pure function of the seed.

import (
	"bytes"
	"context"
	"crypto/sha256"
	"encoding/json"
	"errors"
	"fmt"
	"io"
	"net/http"
	"os"
	"path/filepath"
	"sort"
	"strconv"
	"strings"
	"sync"
	"sync/atomic"
	"testing"
	"testing/synctest"
	"time"

	"github.com/ollama/ollama/server/internal/cache/blob"
	"github.com/ollama/ollama/zzverif"
)

var (
	errC09Transport = errors.New("verif: dial tcp: transport failure")
	errC09Read      = errors.New("verif: read tcp: connection reset by peer")
)

func c09Dig(b []byte) blob.Digest { return blob.DigestFromBytes(b) }

type c09Layer struct {
	pre  []byte // content whose SHA-256 is the digest
	size int64  // size the manifest declares (== len(pre) unless the manifest lies)
}

func (l c09Layer) dig() blob.Digest { return c09Dig(l.pre) }

type c09Manifest struct {
	id     int
	data   []byte
	layers []c09Layer
	cfg    *c09Layer
}

func (m *c09Manifest) all() []c09Layer {
	out := append([]c09Layer{}, m.layers...)
	if m.cfg != nil {
		out = append(out, *m.cfg)
	}
	return out
}

type c09CS struct {
	pre        []byte // bytes whose SHA-256 is the served chunk digest
	start, end int64
}

type c09Plan struct {
	fail    string // "", status500, status404, status204, transport
	entries []c09CS
	tail    string // "", baddigest, norange, badrange, startgtend, readerr
	class   string // partition | notpartition | digestlie  (for L2 classification)
}

type c09Ident struct {
	dig        blob.Digest
	start, end int64
	req        int // ordinal of the chunksums response that handed out the URL (0: single-chunk layer)
}

type c09Occ struct {
	seq int
	pre []byte
}

type c09Answer struct {
	status   int // 0: body
	trans    bool
	pieces   [][]byte
	end      string // eof | err | stall
	stalled  *atomic.Bool
	redirect int  // 301/302/303/307/308 with Location: net/http follows, the request comes back
	locHdr   bool // a Location header on an answer net/http does not follow
}

type c09Pend struct {
	id  c09Ident
	occ c09Occ
	ch  chan c09Answer
	ctx context.Context
}

type c09Body struct {
	pieces  [][]byte
	end     string
	ctx     context.Context
	stalled *atomic.Bool
}

func (b *c09Body) Read(p []byte) (int, error) {
	if len(b.pieces) == 0 {
		if b.end == "err" {
			return 0, errC09Read
		}
		if b.end == "stall" {
			// silent until the client's read timer cancels the request
			b.stalled.Store(true)
			<-b.ctx.Done()
			return 0, context.Cause(b.ctx)
		}
		return 0, io.EOF
	}
	n := copy(p, b.pieces[0])
	if n < len(b.pieces[0]) {
		b.pieces[0] = b.pieces[0][n:]
	} else {
		b.pieces = b.pieces[1:]
	}
	return n, nil
}
func (b *c09Body) Close() error { return nil }

// c09Reg is the fake registry of one pull attempt.
type c09Reg struct {
	mu       sync.Mutex
	manifest func() (int, string, error)  // status, body, transport error
	plan     func(d blob.Digest) *c09Plan // called once per chunksums request
	queues   map[c09Ident][]c09Occ        // launch-order bookkeeping
	pending  []*c09Pend
	seen     map[blob.Digest]int            // requests (chunksums or chunk) per layer digest
	bigSeen  map[blob.Digest]int            // chunksums requests per digest
	reqN     int                            // chunksums requests of the attempt
	entryOf  func(d blob.Digest, k int) int // index of the k-th entry with digest d
	plans    map[int]*c09Plan               // by entry index
	unknown  []string

	wantHops  map[string]int
	logical   map[string]int
	hops      func() int
	hopStatus func() int
	oddLoc    bool
}

func c09Resp(req *http.Request, status int, body io.ReadCloser, hdr map[string]string) *http.Response {
	h := http.Header{}
	for k, v := range hdr {
		h.Set(k, v)
	}
	return &http.Response{StatusCode: status, Status: strconv.Itoa(status), Header: h, Body: body,
		Request: req, ProtoMajor: 1, ProtoMinor: 1, ContentLength: -1}
}

func c09Str(s string) io.ReadCloser { return io.NopCloser(strings.NewReader(s)) }

func c09ErrBody(status int) string {
	return fmt.Sprintf(`{"errors":[{"code":"VERIF_%d","message":"scripted"}]}`, status)
}

// c09HopURL is the same URL with the hop counter increased: the target of a scripted redirect.
func c09HopURL(req *http.Request) string {
	u := *req.URL
	q := u.Query()
	n, _ := strconv.Atoi(q.Get("hop"))
	q.Set("hop", strconv.Itoa(n+1))
	u.RawQuery = q.Encode()
	return u.String()
}

// answers that are neither 2xx nor 4xx/5xx and that net/http hands to the caller as they are:
// 1xx, 300/304/305/399 (with or without Location), 301/302/303/307/308 WITHOUT Location
var c09OddStatuses = []int{100, 101, 199, 300, 304, 305, 399, 301, 302, 303, 307, 308}
var c09FollowedStatuses = []int{301, 302, 303, 307, 308}

func c09OddHasLocation(st int, rng *zzverif.Rng) bool {
	switch st {
	case 301, 302, 303, 307, 308:
		return false
	}
	return rng.Bool()
}

func c09ParseRange(h string) (int64, int64, bool) {
	h = strings.TrimPrefix(h, "bytes=")
	i := strings.Index(h, "-")
	if i < 0 {
		return 0, 0, false
	}
	a, e1 := strconv.ParseInt(h[:i], 10, 64)
	b, e2 := strconv.ParseInt(h[i+1:], 10, 64)
	return a, b, e1 == nil && e2 == nil
}

func (r *c09Reg) RoundTrip(req *http.Request) (*http.Response, error) {
	if err := req.Context().Err(); err != nil {
		return nil, err
	}
	parts := strings.Split(strings.Trim(req.URL.Path, "/"), "/")
	// /v2/<ns>/<model>/<kind>/<ref>
	if len(parts) != 5 || parts[0] != "v2" || req.Method != "GET" {
		r.mu.Lock()
		r.unknown = append(r.unknown, req.Method+" "+req.URL.String())
		r.mu.Unlock()
		return c09Resp(req, 400, c09Str(c09ErrBody(400)), nil), nil
	}
	if parts[3] == "manifests" || parts[3] == "chunksums" {
		// scripted redirect hops before the logical answer (GET without body: always followed)
		h, _ := strconv.Atoi(req.URL.Query().Get("hop"))
		r.mu.Lock()
		lk := parts[3] + "/" + parts[4]
		key := lk + "/" + strconv.Itoa(r.logical[lk])
		if h == 0 {
			r.wantHops[key] = r.hops()
		}
		want := r.wantHops[key]
		if h >= want {
			r.logical[lk]++
		}
		r.mu.Unlock()
		if h < want {
			return c09Resp(req, r.hopStatus(), c09Str(""), map[string]string{"Location": c09HopURL(req)}), nil
		}
	}
	switch parts[3] {
	case "manifests":
		st, body, err := r.manifest()
		if err != nil {
			return nil, err
		}
		hdr := map[string]string{}
		if r.oddLoc {
			hdr["Location"] = c09HopURL(req)
		}
		return c09Resp(req, st, c09Str(body), hdr), nil
	case "chunksums":
		d, _ := blob.ParseDigest(parts[4])
		r.mu.Lock()
		k := r.bigSeen[d]
		r.bigSeen[d]++
		r.reqN++
		reqN := r.reqN
		r.seen[d]++
		entry := r.entryOf(d, k)
		p := r.plan(d)
		r.plans[entry] = p
		for j, cs := range p.entries {
			if p.fail == "" {
				id := c09Ident{d, cs.start, cs.end, reqN}
				r.queues[id] = append(r.queues[id], c09Occ{entry*1000 + j, cs.pre})
			}
		}
		r.mu.Unlock()
		switch p.fail {
		case "transport":
			return nil, errC09Transport
		case "status500":
			return c09Resp(req, 500, c09Str(c09ErrBody(500)), nil), nil
		case "status404":
			return c09Resp(req, 404, c09Str(c09ErrBody(404)), nil), nil
		case "status204":
			return c09Resp(req, 204, c09Str(""), nil), nil
		}
		if strings.HasPrefix(p.fail, "odd:") {
			st, _ := strconv.Atoi(strings.TrimPrefix(p.fail, "odd:"))
			return c09Resp(req, st, c09Str(""), nil), nil
		}
		var sb strings.Builder
		for _, cs := range p.entries {
			fmt.Fprintf(&sb, "%s %d-%d\n", c09Dig(cs.pre), cs.start, cs.end)
		}
		valid := c09Dig([]byte("tail")).String()
		var body io.ReadCloser
		switch p.tail {
		case "baddigest":
			sb.WriteString("sha256:nothex 0-1\n")
		case "norange":
			sb.WriteString(valid)
		case "badrange":
			sb.WriteString(valid + " 5\n")
		case "startgtend":
			sb.WriteString(valid + " 5-2\n")
		}
		if p.tail == "readerr" {
			body = &c09Body{pieces: [][]byte{[]byte(sb.String())}, end: "err"}
			if sb.Len() == 0 {
				body = &c09Body{end: "err"}
			}
		} else {
			body = c09Str(sb.String())
		}
		// a blob URL of its own per chunksums response: chunk requests of two listings of the same
		// digest stay distinguishable (their goroutines belong to different wait groups)
		loc := fmt.Sprintf("http://blobs.example.com/v2/library/x/blobs/%s?req=%d", d.String(), reqN)
		return c09Resp(req, 200, body, map[string]string{"Content-Location": loc}), nil
	case "blobs":
		d, _ := blob.ParseDigest(parts[4])
		s, e, ok := c09ParseRange(req.Header.Get("Range"))
		if !ok {
			r.mu.Lock()
			r.unknown = append(r.unknown, "bad range "+req.Header.Get("Range"))
			r.mu.Unlock()
		}
		rq, _ := strconv.Atoi(req.URL.Query().Get("req"))
		id := c09Ident{d, s, e, rq}
		p := &c09Pend{id: id, ch: make(chan c09Answer, 1), ctx: req.Context()}
		r.mu.Lock()
		r.seen[d]++
		if q := r.queues[id]; len(q) > 0 {
			p.occ = q[0]
			r.queues[id] = q[1:]
		} else {
			r.unknown = append(r.unknown, fmt.Sprintf("unplanned chunk request %s %d-%d", d.Short(), s, e))
			p.occ = c09Occ{seq: 1 << 30}
		}
		r.pending = append(r.pending, p)
		r.mu.Unlock()
		select {
		case a := <-p.ch:
			switch {
			case a.trans:
				return nil, errC09Transport
			case a.redirect != 0:
				return c09Resp(req, a.redirect, c09Str(""), map[string]string{"Location": c09HopURL(req)}), nil
			case a.status != 0:
				hdr := map[string]string{}
				if a.locHdr {
					hdr["Location"] = c09HopURL(req)
				}
				return c09Resp(req, a.status, c09Str(c09ErrBody(a.status)), hdr), nil
			}
			return c09Resp(req, 200, &c09Body{pieces: a.pieces, end: a.end, ctx: req.Context(), stalled: a.stalled}, nil), nil
		case <-req.Context().Done():
			// like net/http's transport: the cancellation cause (DeadlineExceeded for the
			// client's read timer, Canceled for a cancelled pull)
			return nil, context.Cause(req.Context())
		}
	}
	return c09Resp(req, 400, c09Str(c09ErrBody(400)), nil), nil
}

// waiting returns the waiting chunk requests in launch order and forgets the cancelled ones.
func (r *c09Reg) waiting() []*c09Pend {
	r.mu.Lock()
	defer r.mu.Unlock()
	var live []*c09Pend
	for _, p := range r.pending {
		if p.ctx.Err() == nil {
			live = append(live, p)
		}
	}
	sort.SliceStable(live, func(i, j int) bool { return live[i].occ.seq < live[j].occ.seq })
	r.pending = live
	return live
}

func (r *c09Reg) requeue(p *c09Pend) {
	r.mu.Lock()
	defer r.mu.Unlock()
	r.queues[p.id] = append([]c09Occ{p.occ}, r.queues[p.id]...)
}

func (r *c09Reg) remove(p *c09Pend) {
	r.mu.Lock()
	defer r.mu.Unlock()
	for i, q := range r.pending {
		if q == p {
			r.pending = append(r.pending[:i:i], r.pending[i+1:]...)
			return
		}
	}
}

func c09Class(err error) string {
	var re *Error
	switch {
	case err == nil:
		return "ok"
	case errors.Is(err, ErrIncomplete):
		return "err:incomplete"
	case errors.Is(err, ErrModelNotFound):
		return "err:notFound"
	case errors.Is(err, ErrManifestInvalid):
		return "err:invalidManifest"
	case errors.As(err, &re):
		if re.Temporary() {
			return "err:status5xx"
		}
		return "err:status4xx"
	case errors.Is(err, context.DeadlineExceeded):
		return "err:deadline"
	case errors.Is(err, context.Canceled):
		return "err:canceled"
	case errors.Is(err, io.ErrUnexpectedEOF):
		return "err:eof"
	case errors.Is(err, errC09Transport):
		return "err:transport"
	case errors.Is(err, errC09Read):
		return "err:readErr"
	case strings.Contains(err.Error(), "content changed underfoot"):
		return "err:digest"
	}
	return "err:other:" + strings.ReplaceAll(err.Error(), " ", "_")
}

// ---------------------------------------------------------------- generators

type c09Gen struct {
	rng       *zzverif.Rng
	thr       int64
	streams   int
	pool      [][]byte
	cuts      map[string][]int64 // fixed honest partition per content
	manifests map[string]*c09Manifest
	mlist     []*c09Manifest
	out       *zzverif.Out
	force     string // "", "beyond" (plan with a range past / across the layer end), "honest"
	hopsOf    map[int]int
}

// beyondPlan is the honest partition plus a range that ends past the end of the layer: either an
// extra entry starting at the end, or the last entry stretched across the end.  The registry
// serves bytes matching the chunk digests, so every chunk verifies and the in-place blob grows
// beyond the manifest's size.
func (g *c09Gen) beyondPlan(c []byte, size int64) *c09Plan {
	r := g.rng
	p := &c09Plan{class: "notpartition", entries: g.partition(c, size)}
	k := int64(r.Range(1, 3))
	if r.Bool() || len(p.entries) == 0 {
		p.entries = append(p.entries, c09CS{pre: r.Bytes(int(k)), start: size, end: size + k - 1})
		g.out.Count("plan_beyond_end")
	} else {
		last := &p.entries[len(p.entries)-1]
		last.pre = append(append([]byte{}, last.pre...), r.Bytes(int(k))...)
		last.end += k
		g.out.Count("plan_overlap_end")
	}
	g.out.Count("plan_" + p.class)
	return p
}

func (g *c09Gen) trueLen(d blob.Digest) int64 {
	for _, c := range g.pool {
		if c09Dig(c) == d {
			return int64(len(c))
		}
	}
	return -1
}

func (g *c09Gen) content() []byte {
	return zzverif.Pick(g.rng, g.pool)
}

func (g *c09Gen) manifestOf(layers []c09Layer, cfg *c09Layer, pad int) *c09Manifest {
	type jl struct {
		Digest    string `json:"digest"`
		MediaType string `json:"mediaType,omitempty"`
		Size      int64  `json:"size"`
	}
	var v struct {
		Layers []jl `json:"layers"`
		Config *jl  `json:"config,omitempty"`
	}
	v.Layers = []jl{}
	for i, l := range layers {
		e := jl{Digest: l.dig().String(), Size: l.size}
		if i == 0 && pad > 0 {
			e.MediaType = strings.Repeat("x", pad)
		}
		v.Layers = append(v.Layers, e)
	}
	if cfg != nil {
		v.Config = &jl{Digest: cfg.dig().String(), Size: cfg.size}
	}
	data, _ := json.Marshal(v)
	if m, ok := g.manifests[string(data)]; ok {
		return m
	}
	m := &c09Manifest{id: len(g.mlist) + 1, data: data, layers: layers, cfg: cfg}
	g.manifests[string(data)] = m
	g.mlist = append(g.mlist, m)
	return m
}

func (g *c09Gen) genManifest() *c09Manifest {
	r := g.rng
	n := r.Range(1, 3)
	if r.Chance(1, 40) {
		n = 0
	}
	sizes := map[string]int64{}
	used := map[string]int{}
	mk := func() c09Layer {
		c := g.content()
		// A chunked digest is listed at most twice per manifest: with three listings and a plan
		// reaching past the layer end the blob can be complete for the second (skipped) and
		// oversized for the third (requested), and the fake registry cannot tell which entry a
		// chunksums request comes from (needed to reconstruct the launch order).
		for try := 0; try < 8; try++ {
			if s, ok := sizes[string(c)]; ok && s >= g.thr && used[string(c)] >= 2 {
				c = g.content()
				continue
			}
			break
		}
		if s, ok := sizes[string(c)]; ok && s >= g.thr && used[string(c)] >= 2 {
			c = r.Bytes(r.Range(1, 8)) // fresh content
			g.pool = append(g.pool, c)
		}
		// A single-chunk digest is listed once when 1 < MaxStreams < unlimited: the client
		// chooses the blob URL, so two listings send identical requests from goroutines that
		// differ (wait group, closer holding a slot); which of them gets an answer would not
		// be scripted.
		if s, ok := sizes[string(c)]; ok && s < g.thr && used[string(c)] >= 1 && g.streams > 1 {
			c = r.Bytes(r.Range(1, 8))
			g.pool = append(g.pool, c)
		}
		used[string(c)]++
		if s, ok := sizes[string(c)]; ok {
			return c09Layer{pre: c, size: s}
		}
		size := int64(len(c))
		if r.Chance(1, 14) { // the manifest lies about the size
			size = int64(r.Range(1, 9))
			g.out.Count("gen_manifest_size_lie")
		}
		sizes[string(c)] = size
		return c09Layer{pre: c, size: size}
	}
	var layers []c09Layer
	for i := 0; i < n; i++ {
		layers = append(layers, mk())
	}
	var cfg *c09Layer
	if r.Chance(1, 3) {
		l := mk()
		cfg = &l
	}
	pad := 0
	if r.Chance(1, 3) {
		pad = r.Range(1, 3)
	}
	return g.manifestOf(layers, cfg, pad)
}

func c09Slice(c []byte, s, e int64) []byte {
	n := int64(len(c))
	if s > n {
		s = n
	}
	if e+1 > n {
		e = n - 1
	}
	if e+1 < s {
		return nil
	}
	return append([]byte{}, c[s:e+1]...)
}

// honest exact partition of [0,size) with digests of the true content (fixed per content+size)
func (g *c09Gen) partition(c []byte, size int64) []c09CS {
	key := fmt.Sprintf("%x/%d", c, size)
	cuts, ok := g.cuts[key]
	if !ok {
		if g.rng.Chance(1, 2) && size%2 == 0 && size >= 2 { // equal halves: repeated chunks can add up
			cuts = []int64{size / 2}
		} else {
			for p := int64(1); p < size; p++ {
				if g.rng.Chance(2, 5) {
					cuts = append(cuts, p)
				}
			}
		}
		g.cuts[key] = cuts
	}
	var out []c09CS
	prev := int64(0)
	for _, p := range append(append([]int64{}, cuts...), size) {
		out = append(out, c09CS{pre: c09Slice(c, prev, p-1), start: prev, end: p - 1})
		prev = p
	}
	return out
}

func (g *c09Gen) genPlan(c []byte, size int64) *c09Plan {
	r := g.rng
	p := &c09Plan{class: "partition"}
	switch g.force {
	case "beyond":
		return g.beyondPlan(c, size)
	case "honest":
		p.entries = g.partition(c, size)
		g.out.Count("plan_partition")
		return p
	}
	if r.Chance(1, 12) {
		return g.beyondPlan(c, size)
	}
	switch r.Intn(20) {
	case 0:
		p.fail = zzverif.Pick(r, []string{"status500", "status404", "status204", "transport", "odd"})
		if p.fail == "odd" {
			p.fail = fmt.Sprintf("odd:%d", zzverif.Pick(r, c09OddStatuses))
			g.out.Count("plan_fail_odd_status")
		}
		g.out.Count("plan_fail")
		return p
	}
	p.entries = g.partition(c, size)
	if int64(len(c)) != size {
		// manifest lies about the size: slices beyond the content are short; still "honest" digests
	}
	switch r.Intn(12) {
	case 0, 1: // repeat: replace one entry by a copy of another one of the same length if possible
		if len(p.entries) >= 2 {
			i := r.Intn(len(p.entries))
			j := r.Intn(len(p.entries))
			if i != j {
				p.entries[j] = p.entries[i]
				p.class = "notpartition"
				g.out.Count("plan_repeat")
			}
		}
	case 2: // move an entry (honest digest of the new range)
		i := r.Intn(len(p.entries))
		e := p.entries[i]
		ns := int64(r.Intn(int(size) + 1))
		ne := ns + (e.end - e.start)
		if ns != e.start {
			p.entries[i] = c09CS{pre: c09Slice(c, ns, ne), start: ns, end: ne}
			p.class = "notpartition"
			g.out.Count("plan_moved")
		}
	case 3: // drop an entry
		if len(p.entries) >= 2 {
			i := r.Intn(len(p.entries))
			p.entries = append(p.entries[:i:i], p.entries[i+1:]...)
			p.class = "notpartition"
			g.out.Count("plan_gap")
		}
	case 4: // lying digest: the registry will serve other bytes for this range, consistently
		i := r.Intn(len(p.entries))
		e := p.entries[i]
		p.entries[i].pre = r.Bytes(int(e.end - e.start + 1))
		if !bytes.Equal(p.entries[i].pre, e.pre) {
			p.class = "digestlie"
			g.out.Count("plan_digest_lie")
		}
	case 5: // same range twice with different digests (only when one request is in flight at a time)
		if g.streams == 1 {
			i := r.Intn(len(p.entries))
			e := p.entries[i]
			e.pre = r.Bytes(int(e.end - e.start + 1))
			p.entries = append(p.entries, e)
			p.class = "notpartition"
			g.out.Count("plan_same_range_two_digests")
		}
	case 6: // permuted (still a partition as a set)
		if len(p.entries) >= 2 {
			i, j := r.Intn(len(p.entries)), r.Intn(len(p.entries))
			p.entries[i], p.entries[j] = p.entries[j], p.entries[i]
			g.out.Count("plan_permuted")
		}
	}
	if r.Chance(1, 7) {
		p.tail = zzverif.Pick(r, []string{"baddigest", "norange", "badrange", "startgtend", "readerr"})
		if r.Chance(1, 2) && len(p.entries) > 0 {
			p.entries = p.entries[:r.Intn(len(p.entries))]
		}
		g.out.Count("plan_broken_tail")
	}
	g.out.Count("plan_" + p.class)
	return p
}

func c09Split(r *zzverif.Rng, data []byte) [][]byte {
	var out [][]byte
	for len(data) > 0 {
		n := len(data)
		if r.Chance(2, 3) {
			n = r.Range(1, len(data))
		}
		out = append(out, append([]byte{}, data[:n]...))
		data = data[n:]
	}
	return out
}

func (g *c09Gen) genAnswer(p *c09Pend, faulty bool) (c09Answer, string) {
	r := g.rng
	data := append([]byte{}, p.occ.pre...)
	a := c09Answer{end: "eof"}
	kind := "good"
	if !faulty && g.force == "" && r.Chance(1, 25) {
		kind = "redirect"
	}
	if faulty {
		kind = zzverif.Pick(r, []string{"status500", "status404", "transport", "short", "readerr", "corrupt", "extra", "status500", "corrupt", "stall", "odd", "redirect"})
	}
	switch kind {
	case "status500":
		a.status = 500
	case "status404":
		a.status = 404
	case "odd":
		a.status = zzverif.Pick(r, c09OddStatuses)
		a.locHdr = c09OddHasLocation(a.status, r)
	case "redirect":
		if g.hopsOf[p.occ.seq] < 3 {
			a.redirect = zzverif.Pick(r, c09FollowedStatuses)
			g.hopsOf[p.occ.seq]++
		}
	case "transport":
		a.trans = true
	case "short":
		if len(data) > 0 {
			data = data[:r.Intn(len(data))]
		}
	case "readerr":
		if len(data) > 0 {
			data = data[:r.Intn(len(data))]
		}
		a.end = "err"
	case "stall":
		if len(data) > 0 && r.Chance(4, 5) {
			data = data[:r.Intn(len(data))]
		}
		a.end = "stall"
		a.stalled = &atomic.Bool{}
	case "corrupt":
		if len(data) > 0 {
			data[r.Intn(len(data))] ^= byte(r.Range(1, 255))
		}
	case "extra":
		data = append(data, r.Bytes(r.Range(1, 2))...)
	}
	if a.redirect != 0 {
		data = nil
	}
	a.pieces = c09Split(r, data)
	g.out.Count("chunk_answer_" + kind)
	return a, kind
}

func c09ShowAnswer(a c09Answer) string {
	switch {
	case a.redirect != 0:
		return "redirect"
	case a.trans:
		return "fail transport"
	case a.status >= 500:
		return "fail status5xx"
	case a.status != 0:
		return "fail status4xx"
	}
	var sb strings.Builder
	fmt.Fprintf(&sb, "body %d", len(a.pieces))
	for _, p := range a.pieces {
		sb.WriteString(" " + zzverif.Hex(p))
	}
	sb.WriteString(" " + a.end)
	return sb.String()
}

// ---------------------------------------------------------------- one pull case

type c09DigFlags struct{ sizeLie, notPartition, digestLie bool }

func c09ReadLink(dir, model string) []byte {
	b, err := os.ReadFile(filepath.Join(dir, "manifests", "example.com", "library", model, "latest"))
	if err != nil {
		return nil
	}
	return b
}

func c09FileHex(c *blob.DiskCache, d blob.Digest) string {
	b, err := os.ReadFile(c.GetFile(d))
	if err != nil {
		return "-"
	}
	return zzverif.Hex(b)
}

func c09PullCase(t *testing.T, out *zzverif.Out, rng *zzverif.Rng, dir string, tag string, linkShortcut, verify, staged bool) {
	g := &c09Gen{rng: rng, out: out, cuts: map[string][]int64{}, manifests: map[string]*c09Manifest{}, hopsOf: map[int]int{}}
	g.thr = int64(zzverif.Pick(rng, []int{2, 3, 4, 6, 6, 9}))
	g.streams = zzverif.Pick(rng, []int{1, 1, 2, 2, 3, -1, -1})
	npool := rng.Range(2, 4)
	for i := 0; i < npool; i++ {
		n := rng.Pick3(1, 8, 24)
		if rng.Chance(1, 30) {
			n = 0
		}
		g.pool = append(g.pool, rng.Bytes(n))
	}
	out.Count(fmt.Sprintf("streams_%d", g.streams))

	c, err := blob.Open(dir)
	if err != nil {
		t.Fatal(err)
	}
	names := []string{"m0", "m1"}
	trueLen := map[blob.Digest]int64{}
	for _, c := range g.pool {
		trueLen[c09Dig(c)] = int64(len(c))
	}
	current := map[string]*c09Manifest{}
	flags := map[blob.Digest]*c09DigFlags{}
	flag := func(d blob.Digest) *c09DigFlags {
		if flags[d] == nil {
			flags[d] = &c09DigFlags{}
		}
		return flags[d]
	}
	nattempts := rng.Range(1, 4)
	// history mode "beyond then honest": attempt 0 is served, for every chunked layer, a plan with
	// a range past the layer end (all chunks answered correctly: the blob becomes oversized and the
	// attempt fails on the counter); the following attempts get the honest plan and no faults.
	beyondThenHonest := rng.Chance(1, 6)
	if beyondThenHonest {
		nattempts = 3
		big := rng.Bytes(int(g.thr) + rng.Intn(4))
		g.pool = append(g.pool, big)
		trueLen[c09Dig(big)] = int64(len(big))
		layers := []c09Layer{{pre: big, size: int64(len(big))}}
		if rng.Bool() {
			o := g.content()
			if !bytes.Equal(o, big) {
				layers = append(layers, c09Layer{pre: o, size: int64(len(o))})
			}
		}
		current["m0"] = g.manifestOf(layers, nil, 0)
		out.Count("hist_beyond_then_honest")
	}
	// blobs of linked names damaged in place by a size-lying pull (F10d): the attempt that did it and the
	// bytes it left, so that later attempts can tell "still as that pull left it" from new damage
	type c09Victim struct {
		at   int
		sum  [32]byte
		size int
	}
	victim := map[blob.Digest]c09Victim{}
	var ops, impls []string
	caseHdr := tag
	var l2s [][2]string
	failedWhileFetching := map[blob.Digest]bool{}

	// history mode "size lie after link": attempt 0 pulls and links an honest manifest without
	// faults; attempt 1 (same or other name, any faults) is served a manifest that declares one of
	// its digests with ANOTHER size (F10d: the download must not touch the verified blob).
	lieAfterLink := !beyondThenHonest && rng.Chance(1, 8)
	var lieLayers []c09Layer
	if lieAfterLink {
		if nattempts < 2 {
			nattempts = 2
		}
		x := g.content()
		if len(x) == 0 {
			x = rng.Bytes(rng.Range(1, 8))
			g.pool = append(g.pool, x)
			trueLen[c09Dig(x)] = int64(len(x))
		}
		current["m0"] = g.manifestOf([]c09Layer{{pre: x, size: int64(len(x))}}, nil, 0)
		lie := int64(rng.Range(1, 9))
		if lie == int64(len(x)) {
			lie++
		}
		lieLayers = []c09Layer{{pre: x, size: lie}}
		if rng.Bool() {
			o := g.content()
			if !bytes.Equal(o, x) {
				lieLayers = append(lieLayers, c09Layer{pre: o, size: int64(len(o))})
			}
		}
		out.Count("hist_size_lie_after_link")
	}

	for at := 0; at < nattempts; at++ {
		calm := beyondThenHonest || (lieAfterLink && at == 0)
		model := names[0]
		if rng.Chance(1, 5) && !calm {
			model = names[1]
		}
		if lieAfterLink && at == 1 {
			current[model] = g.manifestOf(lieLayers, nil, rng.Intn(3))
		}
		g.force = ""
		if lieAfterLink && at == 0 {
			g.force = "honest"
		}
		if beyondThenHonest {
			g.force = "honest"
			if at == 0 {
				g.force = "beyond"
			}
		}
		nameIdx := 0
		if model == "m1" {
			nameIdx = 1
		}
		if current[model] == nil || (rng.Chance(1, 4) && !calm && !(lieAfterLink && at == 1)) {
			current[model] = g.genManifest()
		}
		m := current[model]
		manKind := "ok"
		if rng.Chance(1, 12) && !calm && !(lieAfterLink && at == 1) {
			manKind = zzverif.Pick(rng, []string{"status500", "status404", "unknown", "transport", "badjson", "odd", "empty2xx", "odd"})
		}
		out.Count("manifest_" + manKind)
		all := m.all()
		if manKind == "ok" {
			for _, l := range all {
				switch {
				case l.size == 0:
					out.Count("dist_layer_empty")
				case l.size < g.thr:
					out.Count("dist_layer_single_chunk")
				default:
					out.Count("dist_layer_chunked")
				}
			}
			seenDig := map[blob.Digest]bool{}
			for _, l := range all {
				if seenDig[l.dig()] {
					out.Count("dist_manifest_with_duplicate_layer")
					break
				}
				seenDig[l.dig()] = true
			}
		}
		for _, l := range all {
			if manKind == "ok" && int64(len(l.pre)) != l.size {
				flag(l.dig()).sizeLie = true
			}
		}
		reg := &c09Reg{queues: map[c09Ident][]c09Occ{}, seen: map[blob.Digest]int{}, bigSeen: map[blob.Digest]int{},
			plans: map[int]*c09Plan{}}
		oddStatus := zzverif.Pick(rng, c09OddStatuses)
		reg.oddLoc = manKind == "odd" && c09OddHasLocation(oddStatus, rng)
		empty2xx := zzverif.Pick(rng, []int{201, 204, 206})
		reg.wantHops, reg.logical = map[string]int{}, map[string]int{}
		reg.hops = func() int {
			if calm || !rng.Chance(1, 10) {
				return 0
			}
			out.Count("redirected_manifest_or_chunksums_request")
			return rng.Range(1, 3)
		}
		reg.hopStatus = func() int { return zzverif.Pick(rng, c09FollowedStatuses) }
		reg.manifest = func() (int, string, error) {
			switch manKind {
			case "odd":
				return oddStatus, "", nil
			case "empty2xx":
				return empty2xx, "", nil
			case "status500":
				return 500, c09ErrBody(500), nil
			case "status404":
				return 404, c09ErrBody(404), nil
			case "unknown":
				return 404, `{"errors":[{"code":"MANIFEST_UNKNOWN","message":"x"}]}`, nil
			case "transport":
				return 0, "", errC09Transport
			case "badjson":
				return 200, `{"layers":`, nil
			}
			return 200, string(m.data), nil
		}
		// Which layer entry sends this chunksums request?  Entries are processed in order by the
		// main goroutine, and an entry whose blob currently has the manifest's size is skipped
		// without a request.  "Currently" matters: with a plan reaching past the layer end the
		// blob of a digest listed several times can be complete for one entry (skipped) and
		// oversized for a later one (requested).  The blob cannot change between the client's
		// size check and its request (chunk answers are only released at quiescent points), so
		// the same look at the file tells which entry is asking.
		cursor := map[blob.Digest]int{}
		reg.entryOf = func(d blob.Digest, _ int) int {
			for i := cursor[d]; i < len(all); i++ {
				if all[i].dig() != d {
					continue
				}
				if fi, err := os.Stat(c.GetFile(d)); err == nil && fi.Size() != 0 && fi.Size() == all[i].size {
					continue
				}
				cursor[d] = i + 1
				return i
			}
			return 999
		}
		attemptPlans := map[blob.Digest]*c09Plan{}
		reg.plan = func(d blob.Digest) *c09Plan {
			if p, ok := attemptPlans[d]; ok {
				return p
			}
			for _, l := range all {
				if l.dig() == d {
					p := g.genPlan(l.pre, l.size)
					attemptPlans[d] = p
					if p.class == "notpartition" {
						flag(d).notPartition = true
					}
					if p.class == "digestlie" {
						flag(d).digestLie = true
					}
					return p
				}
			}
			return &c09Plan{fail: "status404"}
		}
		if manKind == "ok" {
			for i, l := range all {
				if l.size < g.thr {
					id := c09Ident{l.dig(), 0, l.size - 1, 0}
					reg.queues[id] = append(reg.queues[id], c09Occ{i * 1000, l.pre})
				}
			}
		}
		rc := &Registry{Cache: c, HTTPClient: &http.Client{Transport: reg}, MaxStreams: g.streams, ReadTimeout: 10 * time.Second,
			ChunkingThreshold: g.thr}
		linkBefore := c09ReadLink(dir, model)
		faultRate := zzverif.Pick(rng, []int{0, 1, 1, 3, 6}) // out of 10
		if calm {
			faultRate = 0
		}
		// which linked blobs are good before this attempt (to recognise in-place damage, F10d)
		goodBefore := map[blob.Digest]bool{}
		for _, nm := range names {
			var lm Manifest
			if data := c09ReadLink(dir, nm); data != nil && json.Unmarshal(data, &lm) == nil {
				ls := append([]*Layer{}, lm.Layers...)
				if lm.Config != nil && lm.Config.Digest.IsValid() {
					ls = append(ls, lm.Config)
				}
				for _, l := range ls {
					b, err := os.ReadFile(c.GetFile(l.Digest))
					if err == nil && int64(len(b)) == l.Size && blob.Digest(c09Dig(b)) == l.Digest {
						goodBefore[l.Digest] = true
					}
				}
			}
		}

		var steps []string
		var counts []string
		var result error
		linkedEarly := "" // L2: the link of the name changed while chunk requests were still outstanding
		synctest.Test(t, func(t *testing.T) {
			ctx, cancel := context.WithCancel(context.Background())
			defer cancel()
			done := make(chan error, 1)
			go func() { done <- rc.Pull(ctx, "http://example.com/library/"+model) }()
			for iter := 0; ; iter++ {
				synctest.Wait()
				select {
				case result = <-done:
					return
				default:
				}
				w := reg.waiting()
				if len(w) == 0 || iter > 500 {
					t.Fatalf("c09: client neither finished nor waiting (case %s)", tag)
				}
				counts = append(counts, strconv.Itoa(len(w)))
				if cur := c09ReadLink(dir, model); !bytes.Equal(cur, linkBefore) && linkedEarly == "" {
					linkedEarly = fmt.Sprintf("attempt=%d: the name's link changed while %d chunk request(s) were still waiting for the registry (before step %d)", at, len(w), len(steps))
				}
				if os.Getenv("VERIF_DEBUG") != "" {
					var ds []string
					for _, p := range w {
						ds = append(ds, fmt.Sprintf("%d:%s:%d-%d", p.occ.seq, p.id.dig.Short(), p.id.start, p.id.end))
					}
					fmt.Fprintf(os.Stderr, "c09 debug %s attempt=%d waiting=%v\n", tag, at, ds)
				}
				if rng.Chance(1, 30) && !calm {
					// the registry stays silent past ReadTimeout (fake time): every waiting
					// request is cancelled by its own timer with DeadlineExceeded
					steps = append(steps, "timeout")
					out.Count("step_read_timeout")
					time.Sleep(11 * time.Second)
					continue
				}
				if rng.Chance(1, 30) && !calm {
					steps = append(steps, "cancel")
					out.Count("step_cancel")
					cancel()
					continue
				}
				k := rng.Intn(len(w))
				a, _ := g.genAnswer(w[k], rng.Intn(10) < faultRate)
				steps = append(steps, fmt.Sprintf("rel %d %s", k, c09ShowAnswer(a)))
				reg.remove(w[k])
				if a.redirect != 0 {
					reg.requeue(w[k]) // the followed request will come back as the same occurrence
				}
				w[k].ch <- a
				if a.stalled != nil {
					synctest.Wait()
					if a.stalled.Load() {
						// the goroutine sits in Read on a silent body: let its read timer
						// (and those of the requests still waiting) expire
						out.Count("step_body_stalled_until_read_timeout")
						time.Sleep(11 * time.Second)
					}
				}
			}
		})
		for _, u := range reg.unknown {
			out.L2("driver-unexpected-request", tag, u)
		}
		for _, p := range reg.plans {
			if p.fail == "" {
				n := len(p.entries)
				if n > 6 {
					n = 6
				}
				out.Count(fmt.Sprintf("dist_plan_entries_%d", n))
			}
		}
		ns := len(steps)
		switch {
		case ns > 8:
			ns = 9
		}
		out.Count(fmt.Sprintf("dist_steps_per_attempt_%d", ns))

		// ---- op line fragment of this attempt
		var sb strings.Builder
		fmt.Fprintf(&sb, "%d ", nameIdx)
		if manKind == "ok" {
			fmt.Fprintf(&sb, "man %d %d %d", m.id, len(m.data), len(m.layers))
			for _, l := range m.layers {
				fmt.Fprintf(&sb, " %s %d", zzverif.Hex(l.pre), l.size)
			}
			if m.cfg != nil {
				fmt.Fprintf(&sb, " 1 %s %d", zzverif.Hex(m.cfg.pre), m.cfg.size)
			} else {
				sb.WriteString(" 0")
			}
		} else {
			cls := map[string]string{"status500": "status5xx", "status404": "status4xx", "unknown": "notFound",
				"transport": "transport", "badjson": "invalidManifest", "odd": "status4xx", "empty2xx": "invalidManifest"}[manKind]
			fmt.Fprintf(&sb, "manerr %s", cls)
		}
		fmt.Fprintf(&sb, " %d", len(all))
		for i := range all {
			p := attemptPlans[all[i].dig()] // one plan per digest and attempt, whichever entry asked
			if p == nil || p.fail != "" {
				sb.WriteString(" pfail")
				continue
			}
			fmt.Fprintf(&sb, " plist %d", len(p.entries))
			for _, cs := range p.entries {
				fmt.Fprintf(&sb, " %s %d %d", zzverif.Hex(cs.pre), cs.start, cs.end-cs.start+1)
			}
		}
		fmt.Fprintf(&sb, " %d", len(steps))
		for _, s := range steps {
			sb.WriteString(" " + s)
		}
		ops = append(ops, sb.String())

		// ---- observation
		cls := c09Class(result)
		out.Count("attempt_" + cls)
		linkAfter := c09ReadLink(dir, model)
		link := "none"
		if linkAfter != nil {
			if lm, ok := g.manifests[string(linkAfter)]; ok {
				link = strconv.Itoa(lm.id)
			} else {
				link = "unknown"
			}
		}
		var files []string
		if manKind == "ok" {
			for _, l := range all {
				files = append(files, c09FileHex(c, l.dig()))
			}
		}
		var stage []string
		if manKind == "ok" {
			for _, l := range all {
				b, err := os.ReadFile(c.GetFile(l.dig()) + "-chunked")
				if err != nil {
					stage = append(stage, "-")
				} else {
					stage = append(stage, zzverif.Hex(b))
					if len(b) > 0 {
						out.Count("attempt_left_staging_file")
					}
				}
			}
		}
		impls = append(impls, fmt.Sprintf("%s n=%s link=%s files=%s stage=%s", cls, strings.Join(counts, "."), link,
			strings.Join(files, ","), strings.Join(stage, ",")))

		if result != nil {
			for d, k := range reg.seen {
				if k > 0 {
					failedWhileFetching[d] = true
				}
			}
		}
		if manKind == "ok" {
			for _, l := range all {
				if fi, err := os.Stat(c.GetFile(l.dig())); err == nil && fi.Size() > l.size {
					out.Count("attempt_left_oversized_blob")
					if beyondThenHonest && at == 0 {
						out.Count("hist_oversized_blob_before_honest_retry")
					}
				}
			}
		}
		// ---- L2: the property on the real cache, independent of the model
		if linkedEarly != "" {
			// "the name is linked only after that": at every quiescent point of the attempt the link is still the old one
			l2s = append(l2s, [2]string{"pull-linked-before-layers-done", linkedEarly})
		}
		if result == nil && manKind == "ok" && !bytes.Equal(linkAfter, m.data) &&
			!(linkShortcut && linkBefore != nil && len(linkBefore) == len(m.data)) {
			// success means the name is linked to THIS manifest (F8's same-length shortcut aside)
			l2s = append(l2s, [2]string{"pull-success-not-linked-to-this-manifest", fmt.Sprintf("attempt=%d result=ok linked=%v", at, linkAfter != nil)})
		}
		if result != nil && !bytes.Equal(linkBefore, linkAfter) {
			l2s = append(l2s, [2]string{"failed-pull-changed-link", fmt.Sprintf("attempt=%d result=%s", at, cls)})
		}
		for _, nm := range names {
			data := c09ReadLink(dir, nm)
			if data == nil {
				continue
			}
			var lm Manifest
			if err := json.Unmarshal(data, &lm); err != nil {
				l2s = append(l2s, [2]string{"linked-manifest-unreadable", err.Error()})
				continue
			}
			ls := append([]*Layer{}, lm.Layers...)
			if lm.Config != nil && lm.Config.Digest.IsValid() {
				ls = append(ls, lm.Config)
			}
			for _, l := range ls {
				b, err := os.ReadFile(c.GetFile(l.Digest))
				// EXACTLY the manifest's size, and the SHA-256 of the WHOLE file is the digest
				good := err == nil && int64(len(b)) == l.Size && blob.Digest(c09Dig(b)) == l.Digest
				if good {
					delete(victim, l.Digest)
					continue
				}
				f := flag(l.Digest)
				via := "unknown"
				declaredOther := false
				if manKind == "ok" {
					for _, o := range all {
						if o.dig() == l.Digest && o.size != l.Size {
							declaredOther = true
						}
					}
				}
				linkedNow := result == nil && nm == model && bytes.Equal(data, m.data)
				listedNow, lyingSize := false, int64(-1)
				if manKind == "ok" {
					for _, o := range all {
						if o.dig() == l.Digest {
							listedNow = true
							if o.size != l.Size {
								lyingSize = o.size
							}
						}
					}
				}
				nowSum := sha256.Sum256(b)
				vic, wasVictim := victim[l.Digest]
				curSize := len(b)
				if err != nil {
					curSize = -1 // no such file
				}
				unchanged := wasVictim && vic.size == curSize && (curSize == -1 || vic.sum == nowSum)
				switch {
				case linkedNow && verify:
					// this very pull reported success and linked this manifest: on a tree that
					// verifies before Link nothing excuses a bad layer
					via = "linked-by-this-successful-pull"
				case !linkedNow && declaredOther && (goodBefore[l.Digest] || wasVictim):
					// the blob was good and linked; THIS pull's manifest declares the same digest with
					// ANOTHER size and wrote into (or removed) the final file (F10d)
					victim[l.Digest] = c09Victim{at, nowSum, curSize}
					via = fmt.Sprintf("size-lie-overwrote-linked-blob declared-size=%d", lyingSize)
					if staged {
						// a tree that stages chunked downloads must never damage a verified blob
						via = "verified-blob-damaged-despite-staging"
					}
				case !linkedNow && wasVictim && unchanged && !staged:
					// byte for byte as the size-lying pull of attempt `vic.at` left it
					via = fmt.Sprintf("size-lie-overwrote-linked-blob still-as-left-by-attempt=%d", vic.at)
				case !linkedNow && wasVictim && listedNow && !staged:
					// a later pull whose manifest lists the damaged blob is fetching it again in place
					// (removed by verifyLayer, or partly rewritten by an attempt that failed)
					victim[l.Digest] = c09Victim{vic.at, nowSum, curSize}
					via = fmt.Sprintf("size-lie-overwrote-linked-blob refetch-in-progress damaged-by-attempt=%d", vic.at)
				case verify:
					via = "unknown"
				case f.sizeLie && g.trueLen(l.Digest) == l.Size:
					via = "size-lie-overwrote-linked-blob"
				case f.sizeLie:
					via = "chunked-size-lie"
				case f.notPartition:
					via = "plan-not-partition"
				case f.digestLie:
					via = "plan-digest-lie"
				case failedWhileFetching[l.Digest]:
					via = "size-shortcut-after-failed-attempt"
				default:
					// the byte counter is global: a plan of ANOTHER layer of the same manifest that
					// is not a partition can make up for bytes this layer never received
					for _, o := range ls {
						if flag(o.Digest).notPartition {
							via = "plan-not-partition cross-layer=1"
						}
					}
				}
				l2s = append(l2s, [2]string{"pull-linked-layer-unverified",
					fmt.Sprintf("via=%s attempt=%d result=%s name=%s layer=%s want-size=%d have-size=%d have-sha=%x",
						via, at, cls, nm, l.Digest.Short(), l.Size, len(b), nowSum[:4])})
			}
		}
	}
	out.Count(fmt.Sprintf("dist_attempts_per_case_%d", nattempts))
	sc := 0
	if linkShortcut {
		sc = 1
	}
	vf := 0
	if verify {
		vf = 1
	}
	sg := 0
	if staged {
		sg = 1
	}
	op := fmt.Sprintf("pull %d %d %d %d %d %d %s", g.thr, g.streams, sc, vf, sg, len(ops), strings.Join(ops, " "))
	out.Case(op, strings.Join(impls, " | "))
	c09Tag(tag)
	seenKind := map[string]bool{}
	for _, l := range l2s {
		// one line per (kind, via) per case is enough
		key := l[0] + strings.SplitN(l[1], " ", 2)[0]
		if seenKind[key] {
			continue
		}
		seenKind[key] = true
		out.L2(l[0], caseHdr+" :: "+op, l[1])
	}
}

// c09ProbeLinkShortcut executes the real Link twice with two different manifests of the same
// length and reports whether the second one was ignored (finding F8 of C08).
func c09ProbeLinkShortcut(t *testing.T) bool {
	c, err := blob.Open(t.TempDir())
	if err != nil {
		t.Fatal(err)
	}
	a, b := []byte(`{"layers":[1]}`), []byte(`{"layers":[2]}`)
	for _, m := range [][]byte{a, b} {
		d := c09Dig(m)
		if err := blob.PutBytes(c, d, m); err != nil {
			t.Fatal(err)
		}
		if err := c.Link("example.com/library/p:latest", d); err != nil {
			t.Fatal(err)
		}
	}
	got, _ := os.ReadFile(filepath.Join(c09DirOf(c), "manifests", "example.com", "library", "p", "latest"))
	return bytes.Equal(got, a)
}

type c09ProbeStagedRT struct{}

func (c09ProbeStagedRT) RoundTrip(req *http.Request) (*http.Response, error) {
	abcd := []byte("abcd")
	switch {
	case strings.Contains(req.URL.Path, "/manifests/"):
		return c09Resp(req, 200, c09Str(fmt.Sprintf(`{"layers":[{"digest":"%s","size":4}]}`, c09Dig(abcd))), nil), nil
	case strings.Contains(req.URL.Path, "/chunksums/"):
		body := fmt.Sprintf("%s 0-1\n%s 2-3\n", c09Dig(abcd[:2]), c09Dig(abcd[2:]))
		return c09Resp(req, 200, c09Str(body), map[string]string{"Content-Location": "http://blobs.example.com/v2/library/x/blobs/" + c09Dig(abcd).String()}), nil
	case req.Header.Get("Range") == "bytes=0-1":
		return c09Resp(req, 200, c09Str("ab"), nil), nil
	}
	return c09Resp(req, 500, c09Str(c09ErrBody(500)), nil), nil
}

// c09ProbeStaged lets a chunked pull fail after its first chunk and looks where the bytes went:
// into the blob file itself, or into the staging file next to it (F10d repaired).
func c09ProbeStaged(t *testing.T) bool {
	c, err := blob.Open(t.TempDir())
	if err != nil {
		t.Fatal(err)
	}
	rc := &Registry{Cache: c, HTTPClient: &http.Client{Transport: c09ProbeStagedRT{}}, MaxStreams: 1, ChunkingThreshold: 2}
	rc.Pull(context.Background(), "http://example.com/library/probe")
	_, err = os.Stat(c.GetFile(c09Dig([]byte("abcd"))) + "-chunked")
	return err == nil
}

type c09ProbeRT struct{}

func (c09ProbeRT) RoundTrip(req *http.Request) (*http.Response, error) {
	abcd := []byte("abcd")
	switch {
	case strings.Contains(req.URL.Path, "/manifests/"):
		return c09Resp(req, 200, c09Str(fmt.Sprintf(`{"layers":[{"digest":"%s","size":4}]}`, c09Dig(abcd))), nil), nil
	case strings.Contains(req.URL.Path, "/chunksums/"):
		body := fmt.Sprintf("%s 0-1\n%s 0-1\n", c09Dig(abcd[:2]), c09Dig(abcd[:2]))
		return c09Resp(req, 200, c09Str(body), map[string]string{"Content-Location": "http://blobs.example.com/v2/library/x/blobs/" + c09Dig(abcd).String()}), nil
	}
	return c09Resp(req, 200, c09Str("ab"), nil), nil
}

// c09ProbeVerifyBeforeLink runs the F10b scenario (4-byte layer, plan `ab 0-1` twice) on the real
// client: the pinned tree reports success; a tree that verifies layers before Link does not.
func c09ProbeVerifyBeforeLink(t *testing.T) bool {
	c, err := blob.Open(t.TempDir())
	if err != nil {
		t.Fatal(err)
	}
	rc := &Registry{Cache: c, HTTPClient: &http.Client{Transport: c09ProbeRT{}}, MaxStreams: 1, ChunkingThreshold: 2}
	return rc.Pull(context.Background(), "http://example.com/library/probe") != nil
}

func c09DirOf(c *blob.DiskCache) string {
	return filepath.Dir(filepath.Dir(c.GetFile(blob.Digest{})))
}

// c09Tag appends the replay header of the case just recorded to tags.txt (line-aligned with
// ops.txt), so that the check can turn an L1 disagreement into a replayable input.
func c09Tag(tag string) {
	f, err := os.OpenFile(filepath.Join(zzverif.OutDir(), "tags.txt"), os.O_APPEND|os.O_CREATE|os.O_WRONLY, 0o644)
	if err != nil {
		panic(err)
	}
	defer f.Close()
	fmt.Fprintln(f, tag)
}

func c09ReplayTarget() (seed uint64, kind string, idx int, ok bool) {
	p := os.Getenv("VERIF_REPLAY")
	if p == "" {
		return 0, "", 0, false
	}
	raw, err := os.ReadFile(p)
	if err != nil {
		panic(err)
	}
	var s uint64
	var k string
	var i int
	if _, err := fmt.Sscanf(string(raw), "seed=%d kind=%s idx=%d", &s, &k, &i); err != nil {
		panic("VERIF_REPLAY: cannot parse case header: " + err.Error())
	}
	return s, k, i, true
}

func TestVerifC09(t *testing.T) {
	out := zzverif.NewOut()
	defer out.Close()
	seed := zzverif.Seed()
	n := zzverif.EnvInt("VERIF_N", 300)
	npush := zzverif.EnvInt("VERIF_NPUSH", 200)
	rseed, rkind, ridx, replay := c09ReplayTarget()
	if replay {
		seed = rseed
	}
	shortcut := c09ProbeLinkShortcut(t)
	if shortcut {
		out.Count("link_same_size_shortcut_present")
	}
	verify := c09ProbeVerifyBeforeLink(t)
	if verify {
		out.Count("verify_before_link_present")
	}
	staged := c09ProbeStaged(t)
	if staged {
		out.Count("staged_chunk_files_present")
	}
	root := zzverif.NewRng(seed)
	base := t.TempDir()
	pullRoot := root.Fork()
	for i := 0; i < n; i++ {
		rng := pullRoot.Fork()
		if replay && !(rkind == "pull" && ridx == i) {
			if rkind == "pull" && i > ridx {
				break
			}
			continue
		}
		dir := filepath.Join(base, fmt.Sprintf("p%d", i))
		c09PullCase(t, out, rng, dir, fmt.Sprintf("seed=%d kind=pull idx=%d", seed, i), shortcut, verify, staged)
		os.RemoveAll(dir)
		out.Count("cases")
		out.Count("pull_cases")
	}
	pushRoot := root.Fork()
	pushCfg := c09ProbePushConfig(t)
	if pushCfg {
		out.Count("push_offers_config_blob_present")
	}
	for i := 0; i < npush; i++ {
		rng := pushRoot.Fork()
		if replay && !(rkind == "push" && ridx == i) {
			continue
		}
		dir := filepath.Join(base, fmt.Sprintf("u%d", i))
		c09PushCase(t, out, rng, dir, fmt.Sprintf("seed=%d kind=push idx=%d", seed, i), i, pushCfg)
		os.RemoveAll(dir)
		out.Count("cases")
		out.Count("push_cases")
	}
}

// ---------------------------------------------------------------- Push (new client)

// c09Statuses is the answer alphabet of every request kind: 1xx the client surfaces, every flavour
// of 2xx, redirects net/http follows (301/302/303/307/308, depending on method and body) and 3xx
// it does not (300/304/305/399), 4xx, 5xx; each with or without a Location header.  Status 0 is NO answer:
// the transport fails (RoundTrip returns an error).
var c09Statuses = []int{0, 100, 101, 199, 200, 201, 202, 204, 206, 300, 301, 302, 303, 304, 305, 307, 308, 399, 400, 401, 404, 409, 500, 503}

type c09Resp1 struct {
	status int
	loc    bool
}

type c09PushEvent struct {
	layer  int // -1: manifest exchange
	upload bool
	method string
	status int
	loc    bool
}

func (e c09PushEvent) String() string {
	if e.layer < 0 {
		return fmt.Sprintf("M:%s:%d", e.method, e.status)
	}
	ph := "p"
	if e.upload {
		ph = "u"
	}
	return fmt.Sprintf("L%d%s:%s:%d", e.layer, ph, e.method, e.status)
}

type c09PushReg struct {
	mu      sync.Mutex
	index   map[blob.Digest]int
	post    [][]c09Resp1
	put     [][]c09Resp1
	man     []c09Resp1
	pi, ui  []int
	mi      int
	events  []c09PushEvent
	sched   []int
	unknown []string
	// the answers actually given, per exchange (the oracle line is built from these: after a
	// cancellation every request fails whatever the script says)
	gpost, gput [][]c09Resp1
	gman        []c09Resp1
	nreq        int
	cancelAt    int // the context of the push is cancelled when the cancelAt-th request arrives (-1: never)
	cancel      context.CancelFunc
	cancelled   bool
}

func c09Next(script []c09Resp1, i *int) c09Resp1 {
	r := c09Resp1{200, false}
	if *i < len(script) {
		r = script[*i]
	}
	*i++
	return r
}

func (r *c09PushReg) RoundTrip(req *http.Request) (*http.Response, error) {
	if req.Body != nil {
		io.Copy(io.Discard, req.Body)
		req.Body.Close()
	}
	r.mu.Lock()
	defer r.mu.Unlock()
	path := req.URL.Path
	layer, upload, hop := -2, false, 0
	switch {
	case strings.HasSuffix(path, "/blobs/uploads/"):
		d, _ := blob.ParseDigest(req.URL.Query().Get("digest"))
		if i, ok := r.index[d]; ok {
			layer = i
		}
	case strings.HasPrefix(path, "/hop/p/"):
		fmt.Sscanf(path, "/hop/p/%d/%d", &layer, &hop)
	case strings.HasPrefix(path, "/up/"):
		fmt.Sscanf(path, "/up/%d", &layer)
		upload = true
	case strings.HasPrefix(path, "/hop/u/"):
		fmt.Sscanf(path, "/hop/u/%d/%d", &layer, &hop)
		upload = true
	case strings.Contains(path, "/manifests/") || strings.HasPrefix(path, "/hop/m/"):
		layer = -1
	}
	if layer == -2 || layer >= len(r.post) {
		r.unknown = append(r.unknown, req.Method+" "+req.URL.String())
		return c09Resp(req, 400, c09Str(c09ErrBody(400)), nil), nil
	}
	var a c09Resp1
	var next string
	if r.nreq == r.cancelAt && r.cancel != nil {
		r.cancel()
		r.cancelled = true
	}
	r.nreq++
	gone := req.Context().Err() != nil
	switch {
	case layer == -1:
		a = c09Next(r.man, &r.mi)
		if gone {
			a = c09Resp1{0, false}
		}
		r.gman = append(r.gman, a)
		next = fmt.Sprintf("http://example.com/hop/m/%d", r.mi)
	case upload:
		a = c09Next(r.put[layer], &r.ui[layer])
		if gone {
			a = c09Resp1{0, false}
		}
		r.gput[layer] = append(r.gput[layer], a)
		next = fmt.Sprintf("http://upload.example.com/hop/u/%d/%d", layer, r.ui[layer])
	default:
		a = c09Next(r.post[layer], &r.pi[layer])
		if gone {
			a = c09Resp1{0, false}
		}
		r.gpost[layer] = append(r.gpost[layer], a)
		next = fmt.Sprintf("http://example.com/hop/p/%d/%d", layer, r.pi[layer])
		if a.status/100 == 2 {
			next = fmt.Sprintf("http://upload.example.com/up/%d", layer) // the upload URL
		}
	}
	r.events = append(r.events, c09PushEvent{layer, upload, req.Method, a.status, a.loc})
	if layer >= 0 {
		r.sched = append(r.sched, layer)
	}
	if a.status == 0 {
		if gone {
			return nil, context.Cause(req.Context())
		}
		return nil, errors.New("scripted transport error")
	}
	hdr := map[string]string{}
	if a.loc {
		hdr["Location"] = next
	}
	body := ""
	if a.status >= 400 {
		body = c09ErrBody(a.status)
	}
	return c09Resp(req, a.status, c09Str(body), hdr), nil
}

func c09GenResp(rng *zzverif.Rng) c09Resp1 {
	st := zzverif.Pick(rng, c09Statuses)
	loc := rng.Bool()
	if st/100 == 3 {
		loc = rng.Chance(3, 4)
	}
	return c09Resp1{st, loc}
}

// c09GenExchange: some hops the client may follow, then an ending
func c09GenExchange(rng *zzverif.Rng, endings []c09Resp1) []c09Resp1 {
	var s []c09Resp1
	if rng.Chance(1, 40) {
		// more redirects than net/http follows ("stopped after 10 redirects")
		for i := 0; i < 12; i++ {
			s = append(s, c09Resp1{zzverif.Pick(rng, []int{301, 302, 303}), true})
		}
		return s
	}
	for rng.Chance(1, 4) && len(s) < 3 {
		s = append(s, c09Resp1{zzverif.Pick(rng, []int{301, 302, 303, 307, 308, 307, 308}), true})
	}
	if rng.Chance(1, 5) {
		return append(s, c09GenResp(rng))
	}
	return append(s, zzverif.Pick(rng, endings))
}

func c09ShowResps(rs []c09Resp1) string {
	s := strconv.Itoa(len(rs))
	for _, r := range rs {
		l := 0
		if r.loc {
			l = 1
		}
		s += fmt.Sprintf(" %d %d", r.status, l)
	}
	return s
}

// c09PushCase: idx < 3*len(c09Statuses)*2 enumerates (exchange, status, Location?) as the FIRST
// answer of that exchange of a one-layer push; the rest is random.
// c09ProbePushConfig pushes a one-layer manifest WITH a config blob through the real Registry.Push and
// reports whether the config digest is ever offered to the registry (finding F30 repaired) or not.
type c09ProbeCfgRT struct {
	mu   sync.Mutex
	seen []string
}

func (r *c09ProbeCfgRT) RoundTrip(req *http.Request) (*http.Response, error) {
	if req.Body != nil {
		io.Copy(io.Discard, req.Body)
		req.Body.Close()
	}
	r.mu.Lock()
	r.seen = append(r.seen, req.URL.String())
	r.mu.Unlock()
	return c09Resp(req, 200, c09Str(""), nil), nil // "the registry has this blob" / manifest accepted
}

// c09ManifestJSON is a manifest as a registry serves it (and as Pull stores it verbatim): the
// package's own MarshalJSON always writes an EMPTY config object, so the JSON is built by hand.
func c09ManifestJSON(layers []*Layer, cfg *Layer) []byte {
	type jl struct {
		Digest    string `json:"digest"`
		MediaType string `json:"mediaType"`
		Size      int64  `json:"size"`
	}
	v := map[string]any{}
	var ls []jl
	for _, l := range layers {
		ls = append(ls, jl{l.Digest.String(), "application/vnd.ollama.image.model", l.Size})
	}
	v["layers"] = ls
	if cfg != nil {
		v["config"] = jl{cfg.Digest.String(), "application/vnd.docker.container.image.v1+json", cfg.Size}
	}
	b, _ := json.Marshal(v)
	return b
}

func c09ProbePushConfig(t *testing.T) bool {
	c, err := blob.Open(t.TempDir())
	if err != nil {
		t.Fatal(err)
	}
	ld, cd := c09Dig([]byte("probe-layer")), c09Dig([]byte("probe-config"))
	blob.PutBytes(c, ld, "probe-layer")
	blob.PutBytes(c, cd, "probe-config")
	data := c09ManifestJSON([]*Layer{{Digest: ld, Size: 11}}, &Layer{Digest: cd, Size: 12})
	md := c09Dig(data)
	blob.PutBytes(c, md, string(data))
	if err := c.Link("example.com/library/probe:latest", md); err != nil {
		t.Fatal(err)
	}
	rt := &c09ProbeCfgRT{}
	rc := &Registry{Cache: c, HTTPClient: &http.Client{Transport: rt}}
	rc.Push(context.Background(), "http://example.com/library/probe", nil)
	for _, u := range rt.seen {
		if strings.Contains(u, cd.String()) {
			return true
		}
	}
	return false
}

func c09PushCase(t *testing.T, out *zzverif.Out, rng *zzverif.Rng, dir, tag string, idx int, cfgToo bool) {
	c, err := blob.Open(dir)
	if err != nil {
		t.Fatal(err)
	}
	n := rng.Range(1, 5)
	exhaustive := idx < 3*len(c09Statuses)*2
	if exhaustive {
		n = 1
	}
	reg := &c09PushReg{index: map[blob.Digest]int{}}
	var layers []*Layer
	upload := c09Resp1{202, true}
	has := c09Resp1{200, false}
	faulty := rng.Chance(1, 2)
	// a manifest with a config blob (as every model pulled from a registry has): its scripts are at index n
	hasCfg := !exhaustive && rng.Chance(1, 3)
	nb := n
	if hasCfg {
		nb = n + 1
		out.Count("push_manifest_with_config_blob")
	}
	var cfgLayer *Layer
	for i := 0; i < nb; i++ {
		data := append([]byte(fmt.Sprintf("layer-%d-", i)), rng.Bytes(rng.Range(1, 40))...)
		d := c09Dig(data)
		if err := blob.PutBytes(c, d, data); err != nil {
			t.Fatal(err)
		}
		post := []c09Resp1{zzverif.Pick(rng, []c09Resp1{upload, upload, has, {201, true}})}
		var put []c09Resp1
		if faulty && rng.Chance(1, 2) {
			post = c09GenExchange(rng, []c09Resp1{upload, has, {500, false}, {307, false}, {0, false}})
			put = c09GenExchange(rng, []c09Resp1{{201, false}, {200, false}, {500, false}, {307, true}, {308, true}, {304, false}, {0, false}})
		}
		reg.post = append(reg.post, post)
		reg.put = append(reg.put, put)
		reg.index[d] = i
		if i == n {
			cfgLayer = &Layer{Digest: d, Size: int64(len(data))}
		} else {
			layers = append(layers, &Layer{Digest: d, Size: int64(len(data))})
		}
	}
	if rng.Chance(1, 4) {
		reg.man = c09GenExchange(rng, []c09Resp1{{200, false}, {201, false}, {500, false}, {304, false}, {307, false}, {0, false}})
	}
	if exhaustive {
		ph, rest := idx/(len(c09Statuses)*2), idx%(len(c09Statuses)*2)
		first := c09Resp1{c09Statuses[rest/2], rest%2 == 1}
		reg.post[0], reg.put[0], reg.man = []c09Resp1{upload}, nil, nil
		switch ph {
		case 0:
			reg.post[0] = []c09Resp1{first, upload}
		case 1:
			reg.put[0] = []c09Resp1{first}
		case 2:
			reg.man = []c09Resp1{first}
		}
		out.Count("push_exhaustive_first_answer")
	}
	reg.pi, reg.ui = make([]int, nb), make([]int, nb)
	reg.gpost, reg.gput = make([][]c09Resp1, nb), make([][]c09Resp1, nb)
	reg.cancelAt = -1
	if !exhaustive && rng.Chance(1, 8) {
		// the caller's context ends when the k-th physical request arrives: that request and every later
		// one (of any layer goroutine, and the manifest PUT) fails without an answer
		reg.cancelAt = rng.Range(0, 2*n+2)
		out.Count("push_context_cancelled_at_some_request")
	}
	mdata, _ := json.Marshal(&Manifest{Layers: layers})
	if hasCfg {
		mdata = c09ManifestJSON(layers, cfgLayer)
	}
	md := c09Dig(mdata)
	if err := blob.PutBytes(c, md, mdata); err != nil {
		t.Fatal(err)
	}
	if err := c.Link("example.com/library/push:latest", md); err != nil {
		t.Fatal(err)
	}
	streams := zzverif.Pick(rng, []int{1, 2, -1})
	rc := &Registry{Cache: c, HTTPClient: &http.Client{Transport: reg}, MaxStreams: streams}
	pctx, pcancel := context.WithCancel(context.Background())
	reg.cancel = pcancel
	err = rc.Push(pctx, "http://example.com/library/push", nil)
	pcancel()
	if reg.cancelled {
		out.Count("push_context_cancelled_before_push_ended")
	}
	res := "ok"
	if err != nil {
		res = "err"
	}
	out.Count("push_result_" + res)
	for _, u := range reg.unknown {
		out.L2("driver-unexpected-request", tag, u)
	}
	var sb strings.Builder
	if hasCfg {
		fmt.Fprintf(&sb, "pushm %d 1 %d", c09B2i(cfgToo), nb)
	} else {
		fmt.Fprintf(&sb, "push %d", n)
	}
	for i := 0; i < nb; i++ {
		fmt.Fprintf(&sb, " %s %s", c09ShowResps(reg.gpost[i]), c09ShowResps(reg.gput[i]))
	}
	fmt.Fprintf(&sb, " %d", len(reg.sched))
	for _, k := range reg.sched {
		fmt.Fprintf(&sb, " %d", k)
	}
	fmt.Fprintf(&sb, " %s", c09ShowResps(reg.gman))
	op := sb.String()
	var evs []string
	for _, e := range reg.events {
		evs = append(evs, e.String())
		if e.status == 0 {
			out.Count("push_answer_none_transport_error_or_cancelled")
		} else {
			out.Count(fmt.Sprintf("push_answer_%dxx", e.status/100))
		}
		if e.status/100 == 3 && e.loc {
			out.Count("push_answer_3xx_with_location")
		}
	}
	out.Case(op, fmt.Sprintf("%s res=%s", strings.Join(evs, " "), res))
	c09Tag(tag)
	cfgIdx := -1
	if hasCfg {
		cfgIdx = n
	}
	c09PushL2(out, tag+" :: "+op, reg.events, n, cfgIdx, err == nil)
}

func c09B2i(b bool) int {
	if b {
		return 1
	}
	return 0
}

// c09PushL2, on the registry's request log alone: requests of the manifest exchange come after every
// layer request; when one is sent, every layer was settled with a 2xx on its final request — the
// last request of its POST exchange if that answer carried no upload URL (the registry has the
// blob), else the last request of its upload exchange, which must exist; Push returns nil only if
// the manifest exchange was sent and its last request answered 2xx.
//
// A config blob named by the manifest (cfgIdx >= 0) is a blob like any layer: a manifest request with no
// request at all for the config before it is `push-manifest-without-config-blob`; once the client offers
// it, the same three conditions as for a layer apply.
func c09PushL2(out *zzverif.Out, caseLine string, evs []c09PushEvent, n int, cfgIdx int, success bool) {
	var ss []string
	for _, e := range evs {
		ss = append(ss, e.String())
	}
	ls := "push-new log=" + strings.Join(ss, " ")
	first := -1
	for i, e := range evs {
		if e.layer < 0 && first < 0 {
			first = i
		}
		if e.layer >= 0 && first >= 0 {
			out.L2("push-manifest-not-last", caseLine, ls)
			break
		}
	}
	if first >= 0 && cfgIdx >= 0 {
		offered := false
		for _, e := range evs[:first] {
			if e.layer == cfgIdx {
				offered = true
			}
		}
		if !offered {
			out.L2("push-manifest-without-config-blob", caseLine, "config-never-offered: the manifest names a config blob, no request for it reached the registry before the manifest PUT; "+ls)
		} else {
			n = cfgIdx + 1 // treated as one more layer below
		}
	}
	if first >= 0 {
		for l := 0; l < n; l++ {
			var lastP, lastU *c09PushEvent
			for i := range evs[:first] {
				e := &evs[i]
				if e.layer == l && !e.upload {
					lastP = e
				}
				if e.layer == l && e.upload {
					lastU = e
				}
			}
			switch {
			case lastP == nil || lastP.status/100 != 2:
				out.L2("push-manifest-after-upload-error", caseLine, fmt.Sprintf("layer=%d upload session not opened with 2xx; %s", l, ls))
			case lastP.loc && lastU == nil:
				out.L2("push-manifest-before-layer", caseLine, fmt.Sprintf("layer=%d never uploaded although the registry asked for it; %s", l, ls))
			case lastP.loc && lastU.status/100 != 2:
				out.L2("push-manifest-after-upload-error", caseLine, fmt.Sprintf("layer=%d final upload request answered %d; %s", l, lastU.status, ls))
			}
		}
	}
	last := evs[len(evs)-1]
	if success && (first < 0 || last.layer >= 0 || last.status/100 != 2) {
		out.L2("push-success-without-manifest", caseLine, ls)
	}
}
